#!/opt/veriftools/pyvenv/bin/python
import json, jsonschema, glob, sys
ok = True
try:
    jsonschema.validate(json.load(open('/verif/MANIFEST.json')), json.load(open('/root/.vp/MANIFEST.schema.json')))
except Exception as e:
    ok = False; print("MANIFEST invalid:", str(e)[:500])
es = json.load(open('/root/.vp/EVIDENCE.schema.json'))
for p in sorted(glob.glob('/verif/evidence/*.json')):
    try:
        jsonschema.validate(json.load(open(p)), es)
    except Exception as e:
        ok = False; print(p, "invalid:", str(e)[:500])
print("valid" if ok else "INVALID"); sys.exit(0 if ok else 1)
