#!/usr/bin/env python3
"""Run only the deep part of C07 - for development; writes no evidence."""
import sys, os, random
HERE = os.path.dirname(os.path.dirname(os.path.abspath(__file__)))
sys.path.insert(0, os.path.join(HERE, "lib")); sys.path.insert(0, os.path.join(HERE, "checks"))
import vlib, c07
work = os.path.join(vlib.WORK, "C07")
os.dup2(os.open(os.devnull, os.O_RDONLY), 0)
r = vlib.Result("C07", sys.argv[1] if len(sys.argv) > 1 else "quick", 1)
c07.SEED[0] = 1
c07.part_deep(r, work, os.path.join(work, "table.ndjson"), r.tier == "quick")
print("violations:", len(r.violations))
for w, p in r.violations[:40]:
    print("  ", w[:260])
print("known:", sorted(r.known))
