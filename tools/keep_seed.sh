#!/bin/sh
# keep_seed.sh <agent-name> <SEED-ID> "<verif_ran text>" : copy a confirmed seeded change from /tmp/seed/<name>-out to /verif/seeded/<SEED-ID>/
set -eu
name="$1"; id="$2"; ran="$3"
src=/tmp/seed/$name-out
dst=/verif/seeded/$id
mkdir -p "$dst"
rsync -a --exclude target --exclude '*.log' --exclude Cargo.lock "$src"/ "$dst"/
python3 - "$dst/meta.json" "$ran" <<'PY'
import json,sys
p,ran=sys.argv[1],sys.argv[2]
d=json.load(open(p))
d["verif_ran"]=ran
json.dump(d,open(p,"w"),indent=1)
PY
ls "$dst"
