#!/usr/bin/env python3
"""Run only part (2) of C07 (stages / reenter / repeat / inter) - for development; writes no evidence."""
import sys, os, random
HERE = os.path.dirname(os.path.dirname(os.path.abspath(__file__)))
sys.path.insert(0, os.path.join(HERE, "lib")); sys.path.insert(0, os.path.join(HERE, "checks"))
import vlib, c07
work = os.path.join(vlib.WORK, "C07")
os.dup2(os.open(os.devnull, os.O_RDONLY), 0)
r = vlib.Result("C07", "quick", 1)
r.finish = None
c07.SEED[0] = 1
table_path = os.path.join(work, "table.ndjson")
c07.part_stages(r, work, table_path, True, random.Random(1), 1)
print("violations:", len(r.violations))
for w, p in r.violations[:20]:
    print("  ", w[:300])
print("known:", sorted(r.known))
