#!/usr/bin/env python3
"""vmtrace_family.py <family>... : TLC cases of LangFam families -> VM traces of the real engine -> Trace_Vm.tla"""
import os, sys, json, collections
HERE = os.path.dirname(os.path.dirname(os.path.abspath(__file__)))
sys.path.insert(0, os.path.join(HERE, "lib")); sys.path.insert(0, os.path.join(HERE, "checks"))
import vlib, langcases as lc
work = os.path.join(vlib.WORK, "vmfam"); os.makedirs(work, exist_ok=True)
for fam in sys.argv[1:]:
    cases = lc.run_family(vlib, fam, work, None, fresh=False)
    s, probs, verdicts = vlib.vm_trace_validate(cases, work, fam)
    print(fam, json.dumps(s))
    c = collections.Counter((p["kind"], p["tag"]) for p in probs)
    for k, v in c.most_common():
        print("   ", v, k)
    for p in probs[:5]:
        print("   e.g.", p)
