#!/bin/sh
# try_seed.sh <patch.diff> <CHECK> [<CHECK>...] : apply a seeded change to /repo, run the checks (quick), undo, rebuild.
set -u
patch="$1"; shift
cd /verif
git -C /repo status --short | grep -q . && { echo "/repo is dirty"; exit 2; }
git -C /repo apply "$patch" || { echo "patch does not apply"; exit 2; }
# evidence files must describe the unchanged tree: keep them aside while the seeded tree is checked
rm -rf work/evidence_keep && cp -r evidence work/evidence_keep
first=1
for c in "$@"; do
  echo "== $c (with seed)"
  if [ $first = 1 ]; then ./check "$c" > work/seed_$c.log 2>&1; else ./check "$c" --no-build > work/seed_$c.log 2>&1; fi
  echo "exit $?"; first=0
  grep -E "^VIOL|^TOOL" work/seed_$c.log | head -5
  grep -E "^  " work/seed_$c.log | head -5 | cut -c1-220
done
git -C /repo checkout -- .
cp work/evidence_keep/*.json evidence/ && rm -rf work/evidence_keep
git -C /repo status --short | head -3
(cd harness && cargo build --offline 2>&1 | tail -1)
