#!/bin/sh
# seed_regression.sh <SEED>:<CHECK> ... : re-run kept seeds against the current checks; appends to work/seed_regression.log
cd /verif
for pair in "$@"; do
  seed=${pair%%:*}; chk=${pair##*:}
  echo "=== $seed -> $chk $(date +%H:%M:%S)" >> work/seed_regression.log
  tools/try_seed.sh /verif/seeded/$seed/patch.diff $chk 2>&1 | grep -E "^exit|does not apply|dirty" >> work/seed_regression.log
  n=$(grep -c "^VIOLATION" work/seed_$chk.log 2>/dev/null)
  echo "    violations: $n" >> work/seed_regression.log
done
echo "=== done $(date +%H:%M:%S)" >> work/seed_regression.log
