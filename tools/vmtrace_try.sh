#!/bin/sh
# vmtrace_try.sh <cases.ndjson> : record a VM trace of the cases (JIT off) and validate it against Trace_Vm.tla
set -u
cases="$1"; base="${cases%.ndjson}"
rm -f "$base.trace" "$base.out"
STEEL_JIT=false VERIF_VMTRACE="$base.trace" VERIF_VMTRACE_CAP="${CAP:-3000}" /verif/harness/target/debug/replay "$cases" "$base.out" >/dev/null 2>&1
wc -l < "$base.trace"
cd /verif/spec
TRACE="$base.trace" JAVA_TOOL_OPTIONS="-Xss1g -Dtlc2.tool.queue.IStateQueue=StateDeque" timeout 900 tlc -workers 1 -metadir /verif/work/vm/md2 -cleanup -noGenerateSpecTE -config Trace_Vm.cfg Trace_Vm.tla 2>&1 | grep -v "^Parsing\|^Semantic\|^Linting" | grep -A${CTX:-40} "TRACE-\|rror" | cut -c1-300 | head -${HEAD:-90}
