#!/usr/bin/env python3
"""Regenerates MANIFEST.json from tools/manifest_src.json (claimed checks) + properties.jsonl
(everything not claimed is listed under not_applicable with its reason)."""
import json, os
V = os.path.dirname(os.path.dirname(os.path.abspath(__file__)))
src = json.load(open(os.path.join(V, "tools", "manifest_src.json")))
props = [json.loads(l)["id"] for l in open(os.path.join(V, "properties.jsonl"))]
checks = []
for pid in props:
    c = src["checks"].get(pid)
    if not c:
        continue
    checks.append({
        "property_id": pid,
        "quick_cmd": f"./check {pid} --tier quick",
        "thorough_cmd": f"./check {pid} --tier thorough",
        "evidence_file": f"/verif/evidence/{pid}.json",
        "replay_cmd_template": f"./check {pid} --replay {{path}}",
        "engine": c.get("engine", "tlc+replay"),
        "level_claimed": {"category": c.get("category", "model_checking"), "text": c["text"], "design_ref": c.get("design_ref", "")},
        "level_note": c["note"],
        "technique": c["technique"],
    })
na = [{"property_id": p, "reason": src["not_applicable"].get(p, "check not built yet in this round (planned in DESIGN.md section 5)")}
      for p in props if p not in src["checks"]]
m = {
    "version": 1,
    "setup_cmd": "cd /verif && ./setup.sh",
    "hooks": src["hooks"],
    "engines": src["engines"],
    "checks": checks,
    "notes": src["notes"],
    "not_applicable": na,
}
json.dump(m, open(os.path.join(V, "MANIFEST.json"), "w"), indent=1)
print(f"{len(checks)} checks, {len(na)} not applicable")
