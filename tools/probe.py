#!/usr/bin/env python3
"""probe.py [--fresh] [--env K=V ...] < lines-of-scheme : run each line as one case step on the real engine and print what was observed."""
import sys, json, subprocess, os, tempfile
args = sys.argv[1:]
fresh = "--fresh" in args
env = dict(os.environ)
for a in args:
    if "=" in a and not a.startswith("--"):
        k, v = a.split("=", 1); env[k] = v
lines = [l.rstrip("\n") for l in sys.stdin if l.strip() and not l.startswith(";;")]
d = tempfile.mkdtemp(prefix="probe", dir="/verif/work")
with open(d + "/c.ndjson", "w") as f:
    if fresh:
        for i, l in enumerate(lines):
            f.write(json.dumps({"id": str(i), "fresh": True, "steps": [{"src": s} for s in l.split(" ;; ")]}) + "\n")
    else:
        f.write(json.dumps({"id": "0", "fresh": True, "steps": [{"src": l} for l in lines]}) + "\n")
subprocess.run(["/verif/harness/target/debug/replay", d + "/c.ndjson", d + "/o.ndjson", "--timeout-ms", "20000"], env=env)
for l in open(d + "/o.ndjson"):
    o = json.loads(l)
    if "got" in o:
        case_lines = lines if not fresh else lines[int(o["id"])].split(" ;; ")
        for s, g in zip(case_lines, o["got"]):
            print(f"{s}\n   => {g['class']} val={g['val']} emit={g['emit']} {g['msg'] or ''}")
    elif "timeout" in o:
        print("TIMEOUT", o)
import shutil; shutil.rmtree(d)
