#!/bin/bash
# runs every thorough tier in turn, records exit code and wall time (used during the build round)
cd "$(dirname "$0")/.."; V=$(pwd)
out=${1:-$V/work/thorough_summary.log}
mkdir -p $V/work; : > $out
for c in C05 C09 C17 C20 C15 C16 C19 C08 C06 C14 C03 C12 C13 C18 C11 C10 C07 C04 C02 C01; do
  s=$(date +%s)
  timeout 5400 ./check $c --tier thorough > $V/work/thorough_$c.log 2>&1
  rc=$?
  e=$(date +%s)
  echo "$c rc=$rc wall=$((e-s))s violations=$(grep -c '^VIOLATION' $V/work/thorough_$c.log)" >> $out
done
echo done >> $out
