#!/usr/bin/env python3
"""vmtrace_cases.py <name> <cases.ndjson>... : record VM traces of the given replayer cases and validate them against Trace_Vm.tla"""
import os, sys, json, collections
HERE = os.path.dirname(os.path.dirname(os.path.abspath(__file__)))
sys.path.insert(0, os.path.join(HERE, "lib"))
import vlib
work = os.path.join(vlib.WORK, "vmfam"); os.makedirs(work, exist_ok=True)
cases = []
for p in sys.argv[2:]:
    cases += [json.loads(l) for l in open(p) if l.strip()]
s, probs, verdicts = vlib.vm_trace_validate(cases, work, sys.argv[1])
print(json.dumps(s))
c = collections.Counter((p["kind"], p["tag"]) for p in probs)
for k, v in c.most_common():
    print("   ", v, k)
for p in probs[:8]:
    print("   e.g.", p)
