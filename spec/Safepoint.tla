------------------------------ MODULE Safepoint ------------------------------
(***************************************************************************)
(* The safepoint / stop-the-world handshake of the Steel VM (C15 C16 C17). *)
(*                                                                         *)
(*   steel_vm/vm.rs   ThreadStateController {paused, state}                *)
(*                    Synchronizer {threads, state, ctx}                   *)
(*                    safepoint_or_interrupt / park_thread_while_paused    *)
(*                    SteelThread::enter_safepoint(_once)                  *)
(*                    Synchronizer::stop_threads / resume_threads /        *)
(*                    call_per_ctx / enumerate_stacks, with_locked_env,    *)
(*                    handle_set / handle_bind / insert_binding, make_box  *)
(*   vm/threads.rs    spawn_native_thread, thread-join!                    *)
(*                                                                         *)
(* Every protocol access of the code is one action named after the hook    *)
(* point of the instrumented VM (cfg(steel_verif)); blocking operations    *)
(* (park, lock, spin until ctx is published, join) are actions that are    *)
(* only enabled when the real operation would return, so a state without   *)
(* enabled actions in which some thread is not finished is a runtime       *)
(* deadlock / endless spin.                                                *)
(*                                                                         *)
(* A thread is a tiny program of `Budget[t]` instructions, each chosen     *)
(* nondeterministically from `Kinds`:                                      *)
(*   "plain"  touches its own stack / reads globals                         *)
(*   "prim"   a primitive that blocks inside enter_safepoint               *)
(*   "alloc"  an allocation that runs a full collection (stop-the-world)   *)
(*   "setg"   set! / define of a global (stop-the-world, table swap)       *)
(*   "spawn"  spawn-native-thread of the next unused thread                *)
(*   "join"   thread-join! of a started thread                             *)
(*                                                                         *)
(* Named deviations of the code, switched by Defects:                      *)
(*   "exit_race"     safepoint exit is `while paused {park}; ctx = None`:  *)
(*                   a stopper that sets the flag and loads the published  *)
(*                   ctx between the last flag read and the retract scans a*)
(*                   running thread.  Repaired: retract, then re-check.    *)
(*   "guard_dropped" set!/define write `let _ = heap.lock_arc()`: the guard*)
(*                   is dropped at once, two stoppers run concurrently     *)
(*   "irq_clobbered" stop_threads / resume_threads overwrite the           *)
(*                   Interrupted state of every thread                     *)
(*   "late_register" a spawned thread runs before it is on `threads`       *)
(*   "poll_loop_ignores_irq"  park_thread_while_paused loops `while paused   *)
(*                   {park}` without looking at the state: an interrupt    *)
(*                   that arrives after the resume but before the loop     *)
(*                   re-reads the flag parks the thread forever            *)
(*   "idle_engine"   an engine thread that has returned to the host stays  *)
(*                   registered with its ctx unpublished: every later      *)
(*                   stop-the-world of another thread spins forever        *)
(***************************************************************************)
EXTENDS Naturals, FiniteSets, Sequences, TLC

CONSTANTS Thread,      \* e.g. {"m", "a", "b"}; "m" is the engine thread
          BMain, BOther, \* instructions executed by the engine thread / by each spawned thread
          Kinds,       \* instruction kinds in play
          Defects,
          WithIrq      \* the host may interrupt "m"
None == "none"
Main == "m"
Budget == [t \in Thread |-> IF t = Main THEN BMain ELSE BOther]
SpawnOrder == <<"a", "b">>

VARIABLES pc, kind, budget,
          ctx,        \* thread -> BOOLEAN: context pointer published
          paused, st, \* per-thread ThreadStateController
          tok,        \* park token (unpark before park is remembered)
          started, finished, reg,   \* reg: registered on `threads`
          listLock,   \* holder of the `threads` mutex (loops hold it throughout)
          heapLock,
          todo, phase,   \* stop-the-world bookkeeping of a stopper
          scanning,   \* thread -> who is reading/writing its stack/env right now
          envOK,      \* thread -> its global table is installed (FALSE while drained/defaulted)
          genv, seen, \* version of the global table / version each thread has installed
          pendingIrq, raised,
          bad         \* ghost verdicts: set of strings
vars == <<pc, kind, budget, ctx, paused, st, tok, started, finished, reg, listLock, heapLock,
          todo, phase, scanning, envOK, genv, seen, pendingIrq, raised, bad>>

Init ==
  /\ pc = [t \in Thread |-> IF t = Main THEN "run" ELSE "unborn"]
  /\ kind = [t \in Thread |-> None] /\ budget = Budget
  /\ ctx = [t \in Thread |-> FALSE] /\ paused = [t \in Thread |-> FALSE]
  /\ st = [t \in Thread |-> "Running"] /\ tok = [t \in Thread |-> FALSE]
  /\ started = {Main} /\ finished = {} /\ reg = {Main}
  /\ listLock = None /\ heapLock = None
  /\ todo = [t \in Thread |-> {}] /\ phase = [t \in Thread |-> None]
  /\ scanning = [t \in Thread |-> None] /\ envOK = [t \in Thread |-> TRUE]
  /\ genv = 0 /\ seen = [t \in Thread |-> 0]
  /\ pendingIrq = FALSE /\ raised = FALSE /\ bad = {}

Goto(t, l) == pc' = [pc EXCEPT ![t] = l]
U(v) == UNCHANGED v
Others == <<started, finished, reg, listLock, heapLock, todo, phase, scanning, envOK, genv, seen, pendingIrq, raised>>

-----------------------------------------------------------------------------
(* Instruction dispatch: safepoint_or_interrupt *)
PollReadPaused(t) ==      \* POLL_READ_PAUSED
  /\ pc[t] = "run" /\ budget[t] > 0
  /\ IF paused[t] THEN Goto(t, "poll_state") ELSE Goto(t, "instr")
  /\ U(<<kind, budget, ctx, paused, st, tok, bad>>) /\ U(Others)
PollReadState(t) ==       \* POLL_READ_STATE
  /\ pc[t] = "poll_state"
  /\ CASE st[t] = "Interrupted" -> /\ Goto(t, "done") /\ raised' = TRUE /\ pendingIrq' = FALSE
                                   /\ finished' = finished \cup {t}
                                   /\ U(<<ctx, started, reg, listLock, heapLock, todo, phase, scanning, envOK, genv, seen>>)
       [] st[t] = "PausedAtSafepoint" -> /\ ctx' = [ctx EXCEPT ![t] = TRUE] /\ Goto(t, "poll_loop")    \* POLL_PUBLISH folded in
                                         /\ U(Others)
       [] OTHER -> /\ Goto(t, "instr") /\ U(ctx) /\ U(Others)
  /\ U(<<kind, budget, paused, st, tok, bad>>)
PollLoop(t) ==            \* POLL_LOOP_READ: while paused { park }
  /\ pc[t] = "poll_loop"
  /\ IF paused[t] /\ ("poll_loop_ignores_irq" \in Defects \/ st[t] # "Interrupted")
       THEN Goto(t, "poll_park") ELSE Goto(t, "poll_retract")
  /\ U(<<kind, budget, ctx, paused, st, tok, bad>>) /\ U(Others)
PollPark(t) ==            \* POLL_PARK returns when a token is available
  /\ pc[t] = "poll_park" /\ tok[t]
  /\ tok' = [tok EXCEPT ![t] = FALSE] /\ Goto(t, "poll_loop")
  /\ U(<<kind, budget, ctx, paused, st, bad>>) /\ U(Others)
PollRetract(t) ==         \* POLL_RETRACT
  /\ pc[t] = "poll_retract"
  /\ ctx' = [ctx EXCEPT ![t] = FALSE]
  /\ IF "exit_race" \in Defects THEN Goto(t, "instr") ELSE Goto(t, "run")   \* repaired: poll again
  /\ U(<<kind, budget, paused, st, tok, bad>>) /\ U(Others)

\* one instruction.  Touching the own stack / the global table while somebody else is reading or
\* replacing them is the C15 breach.
NextSpawn == IF \E i \in 1..Len(SpawnOrder) : SpawnOrder[i] \notin started /\ SpawnOrder[i] \in Thread
             THEN SpawnOrder[CHOOSE i \in 1..Len(SpawnOrder) :
                               /\ SpawnOrder[i] \notin started /\ SpawnOrder[i] \in Thread
                               /\ \A j \in 1..(i - 1) : SpawnOrder[j] \in started \/ SpawnOrder[j] \notin Thread]
             ELSE None
\* thread-join! targets: only "later" threads, so that the script itself cannot deadlock
Idx(u) == CHOOSE i \in 1..Len(SpawnOrder) : SpawnOrder[i] = u
Joinable(t) == {u \in started \ {t, Main} : t = Main \/ Idx(u) > Idx(t)}
Instr(t) ==               \* DISPATCH
  /\ pc[t] = "instr"
  /\ budget' = [budget EXCEPT ![t] = @ - 1]
  /\ bad' = bad \cup (IF scanning[t] # None THEN {"C15a-runs-while-scanned"} ELSE {})
                \cup (IF ~envOK[t] THEN {"C15b-runs-without-global-table"} ELSE {})
                \cup (IF envOK[t] /\ seen[t] # genv /\ scanning[t] = None THEN {"C15b-stale-global-table"} ELSE {})
  /\ \E k \in Kinds :
       /\ kind' = [kind EXCEPT ![t] = k]
       /\ CASE k = "plain" -> Goto(t, "run")
            [] k = "prim"  -> Goto(t, "sp_publish")
            [] k = "alloc" -> Goto(t, "sp_publish")
            [] k = "setg"  -> Goto(t, "sp_publish")
            [] k = "spawn" -> /\ NextSpawn # None
                              /\ Goto(t, IF "late_register" \in Defects THEN "spawn_start" ELSE "sp_publish")
            [] k = "join"  -> /\ Joinable(t) # {} /\ Goto(t, "sp_publish")
  /\ U(<<ctx, paused, st, tok>>) /\ U(Others)
Finish(t) ==              \* THREAD_EXIT: the context (and its Weak) dies
  /\ pc[t] = "run" /\ budget[t] = 0 /\ t # Main
  /\ Goto(t, "done") /\ finished' = finished \cup {t} /\ ctx' = [ctx EXCEPT ![t] = FALSE]
  /\ U(<<kind, budget, paused, st, tok, started, reg, listLock, heapLock, todo, phase, scanning, envOK, genv, seen,
         pendingIrq, raised, bad>>)
\* the engine thread returns to the host: it never polls again and its ctx stays unpublished
\* (repaired design: it leaves its context published, like a thread blocked in a primitive)
HostIdle == /\ pc[Main] = "run" /\ budget[Main] = 0 /\ Goto(Main, "done")
            /\ ctx' = [ctx EXCEPT ![Main] = ("idle_engine" \notin Defects)]
            /\ U(<<kind, budget, paused, st, tok, started, finished, reg, listLock, heapLock, todo, phase, scanning, envOK,
                   genv, seen, pendingIrq, raised, bad>>)

-----------------------------------------------------------------------------
(* enter_safepoint(body) *)
SpPublish(t) ==           \* SP_PUBLISH
  /\ pc[t] = "sp_publish" /\ ctx' = [ctx EXCEPT ![t] = TRUE] /\ Goto(t, "sp_body")
  /\ U(<<kind, budget, paused, st, tok, bad>>) /\ U(Others)
\* body: a blocking primitive returns; heap.lock_arc() returns when the lock is free; join returns
\* when the target has finished; pushing on `threads` needs the list mutex
SpBody(t) ==
  /\ pc[t] = "sp_body"
  /\ CASE kind[t] = "prim" -> U(<<heapLock, listLock, reg, started, seen>>) /\ Goto(t, "sp_exit")
       [] kind[t] \in {"alloc", "setg"} -> /\ heapLock = None /\ heapLock' = t /\ U(<<listLock, reg, started, seen>>)
                                           /\ Goto(t, "sp_exit")
       [] kind[t] = "join" -> /\ \E u \in Joinable(t) : u \in finished
                              /\ U(<<heapLock, listLock, reg, started, seen>>) /\ Goto(t, "sp_exit")
       [] kind[t] = "spawn" ->
            /\ listLock = None
            /\ IF "late_register" \in Defects
                 THEN /\ reg' = reg \cup started /\ U(<<started, seen>>) /\ Goto(t, "sp_exit")
                 ELSE \* repaired: the new thread is registered and started in one step, inside the
                      \* spawner's safepoint and under the list mutex
                      IF NextSpawn = None THEN /\ U(<<reg, started, seen>>) /\ Goto(t, "sp_exit")
                      ELSE /\ reg' = reg \cup {NextSpawn} /\ started' = started \cup {NextSpawn}
                           /\ seen' = [seen EXCEPT ![NextSpawn] = genv]
                           /\ pc' = [pc EXCEPT ![t] = "sp_exit", ![NextSpawn] = "run"]
            /\ U(<<heapLock, listLock>>)
  /\ U(<<kind, budget, ctx, paused, st, tok, finished, todo, phase, scanning, envOK, genv,
         pendingIrq, raised, bad>>)
SpExitRead(t) ==          \* SP_READ_PAUSED: while paused { if Interrupted break; park }
  /\ pc[t] = "sp_exit"
  /\ IF "exit_race" \in Defects
       THEN IF paused[t] /\ st[t] # "Interrupted" THEN Goto(t, "sp_park") ELSE Goto(t, "sp_retract")
       ELSE Goto(t, "sp_retract")                 \* repaired: retract first, then check
  /\ U(<<kind, budget, ctx, paused, st, tok, bad>>) /\ U(Others)
SpPark(t) ==              \* SP_PARK
  /\ pc[t] = "sp_park" /\ tok[t] /\ tok' = [tok EXCEPT ![t] = FALSE] /\ Goto(t, "sp_exit")
  /\ U(<<kind, budget, ctx, paused, st, bad>>) /\ U(Others)
AfterSafepoint(t) ==
  CASE kind[t] = "prim"  -> "run"
    [] kind[t] = "join"  -> "run"
    [] kind[t] = "spawn" -> "run"
    [] kind[t] = "alloc" -> "stw_stop"
    [] kind[t] = "setg"  -> "stw_stop"
SpRetract(t) ==           \* SP_RETRACT
  /\ pc[t] = "sp_retract" /\ ctx' = [ctx EXCEPT ![t] = FALSE]
  /\ IF "exit_race" \in Defects
       THEN /\ Goto(t, AfterSafepoint(t))
            /\ IF kind[t] = "setg" /\ "guard_dropped" \in Defects /\ heapLock = t
                 THEN heapLock' = None ELSE U(heapLock)
       ELSE /\ Goto(t, "sp_recheck") /\ U(heapLock)
  /\ U(<<kind, budget, paused, st, tok, started, finished, reg, listLock, todo, phase, scanning, envOK, genv, seen,
         pendingIrq, raised, bad>>)
SpRecheck(t) ==           \* repaired design only: re-publish and wait if a stop is in progress
  /\ pc[t] = "sp_recheck"
  /\ IF paused[t] /\ st[t] # "Interrupted"
       THEN /\ ctx' = [ctx EXCEPT ![t] = TRUE] /\ Goto(t, "sp_wait") /\ U(heapLock)
       ELSE /\ Goto(t, AfterSafepoint(t)) /\ U(ctx)
            /\ IF kind[t] = "setg" /\ "guard_dropped" \in Defects /\ heapLock = t
                 THEN heapLock' = None ELSE U(heapLock)
  /\ U(<<kind, budget, paused, st, tok, started, finished, reg, listLock, todo, phase, scanning, envOK, genv, seen,
         pendingIrq, raised, bad>>)
SpWait(t) ==              \* repaired design only: park until resumed, then retract again
  /\ pc[t] = "sp_wait" /\ tok[t] /\ tok' = [tok EXCEPT ![t] = FALSE]
  /\ IF paused[t] /\ st[t] # "Interrupted" THEN Goto(t, "sp_wait") ELSE Goto(t, "sp_retract")
  /\ U(<<kind, budget, ctx, paused, st, bad>>) /\ U(Others)

-----------------------------------------------------------------------------
(* spawn-native-thread: start the OS thread, THEN (inside a safepoint) push it on `threads` *)
SpawnNone(t) ==           \* (model artefact: nothing left to spawn)
  /\ pc[t] = "spawn_start" /\ NextSpawn = None /\ Goto(t, "run")
  /\ U(<<kind, budget, ctx, paused, st, tok, bad>>) /\ U(Others)
SpawnStart(t) ==          \* SPAWNED: std::thread::spawn returned
  /\ pc[t] = "spawn_start" /\ NextSpawn # None
  /\ LET u == NextSpawn IN
     /\ started' = started \cup {u}
     /\ IF "late_register" \in Defects THEN U(reg) ELSE reg' = reg \cup {u}
     /\ pc' = [pc EXCEPT ![t] = "sp_publish", ![u] = "run"]
     /\ seen' = [seen EXCEPT ![u] = seen[t]]        \* the clone of the spawner's table
  /\ U(<<kind, budget, ctx, paused, st, tok, finished, listLock, heapLock, todo, phase, scanning, envOK, genv,
         pendingIrq, raised, bad>>)

-----------------------------------------------------------------------------
(* stop-the-world by t.  phases: stop -> (setg: default ->) scan/update -> resume *)
Live(u) == u \in started /\ u \notin finished       \* its Weak<ctx> can be upgraded

\* the threads a stopper asks to stop.  "stop_skips_main" is NOT a deviation of the code: it is a
\* hypothetical regression (seeded change C15-01: threads without a join handle, i.e. the engine
\* thread, are skipped) kept as a mutant of the model - TLC must find the C15 counterexample.
Asked(t) == IF "stop_skips_main" \in Defects /\ t # Main THEN (reg \cup {t}) \ {Main} ELSE reg \cup {t}
StwStop(t) ==             \* STOP_SELF + STOP_OTHER for every registered thread (list mutex held)
  /\ pc[t] = "stw_stop" /\ listLock = None
  /\ paused' = [u \in Thread |-> IF u \in Asked(t) THEN TRUE ELSE paused[u]]
  /\ st' = [u \in Thread |-> IF u \in Asked(t)
                                THEN (IF "irq_clobbered" \notin Defects /\ st[u] = "Interrupted" THEN st[u]
                                      ELSE "PausedAtSafepoint")
                                ELSE st[u]]
  /\ bad' = bad \cup (IF pendingIrq /\ "irq_clobbered" \in Defects /\ Main \in reg \cup {t}
                      THEN {"C17-interrupt-overwritten"} ELSE {})
  /\ todo' = [todo EXCEPT ![t] = {u \in reg : u # t /\ Live(u)}]
  /\ phase' = [phase EXCEPT ![t] = IF kind[t] = "setg" THEN "default" ELSE "scan"]
  /\ listLock' = t
  /\ (IF kind[t] = "setg" THEN envOK' = [envOK EXCEPT ![t] = FALSE] ELSE U(envOK))   \* drain_env
  /\ Goto(t, "stw_loop")
  /\ U(<<kind, budget, ctx, tok, started, finished, reg, heapLock, scanning, genv, seen, pendingIrq, raised>>)
\* call_per_ctx / enumerate_stacks: for each registered live thread, spin until its ctx is
\* published (ENUM_LOAD), then read or write its state (SCAN_BEGIN .. SCAN_END)
StwBegin(t) ==
  /\ pc[t] = "stw_loop" /\ todo[t] # {}
  /\ \E u \in todo[t] :
       /\ (ctx[u] \/ ~Live(u))
       /\ IF Live(u)
            THEN /\ scanning' = [scanning EXCEPT ![u] = t] /\ Goto(t, "stw_scan")
                 /\ todo' = [todo EXCEPT ![t] = @ \ {u}]
            ELSE /\ todo' = [todo EXCEPT ![t] = @ \ {u}] /\ U(<<scanning, pc>>)
  /\ U(<<kind, budget, ctx, paused, st, tok, started, finished, reg, listLock, heapLock, phase, envOK, genv, seen,
         pendingIrq, raised, bad>>)
StwEnd(t) ==              \* SCAN_END
  /\ pc[t] = "stw_scan"
  /\ LET u == CHOOSE x \in Thread : scanning[x] = t IN
     /\ scanning' = [scanning EXCEPT ![u] = None]
     /\ CASE phase[t] = "default" -> /\ envOK' = [envOK EXCEPT ![u] = FALSE] /\ U(seen)
          [] phase[t] = "update"  -> /\ envOK' = [envOK EXCEPT ![u] = TRUE] /\ seen' = [seen EXCEPT ![u] = genv]
          [] OTHER -> U(<<envOK, seen>>)
  /\ Goto(t, "stw_loop")
  /\ U(<<kind, budget, ctx, paused, st, tok, started, finished, reg, listLock, heapLock, todo, phase, genv,
         pendingIrq, raised, bad>>)
\* end of one loop: the next phase of with_locked_env, or resume
StwNext(t) ==
  /\ pc[t] = "stw_loop" /\ todo[t] = {}
  /\ CASE phase[t] = "default" ->      \* thunk: the new table; then the update loop
            /\ genv' = genv + 1
            /\ phase' = [phase EXCEPT ![t] = "update"]
            /\ todo' = [todo EXCEPT ![t] = {u \in reg : u # t /\ Live(u)}]
            /\ U(<<pc, envOK, seen, listLock>>)
       [] phase[t] = "update" ->       \* own update_env, release the list mutex
            /\ envOK' = [envOK EXCEPT ![t] = TRUE] /\ seen' = [seen EXCEPT ![t] = genv]
            /\ phase' = [phase EXCEPT ![t] = None] /\ listLock' = None
            /\ Goto(t, "stw_resume") /\ U(<<genv, todo>>)
       [] phase[t] = "scan" ->
            /\ phase' = [phase EXCEPT ![t] = None] /\ listLock' = None
            /\ Goto(t, "stw_resume") /\ U(<<genv, todo, envOK, seen>>)
  /\ U(<<kind, budget, ctx, paused, st, tok, started, finished, reg, heapLock, scanning, pendingIrq, raised, bad>>)
StwResume(t) ==           \* RESUME_SELF + RESUME_OTHER (+ unpark) for every registered thread
  /\ pc[t] = "stw_resume" /\ listLock = None
  /\ paused' = [u \in Thread |-> IF u \in reg \cup {t}
                                   THEN (IF "irq_clobbered" \notin Defects /\ st[u] = "Interrupted" THEN paused[u] ELSE FALSE)
                                   ELSE paused[u]]
  /\ st' = [u \in Thread |-> IF u \in reg \cup {t}
                               THEN (IF "irq_clobbered" \notin Defects /\ st[u] = "Interrupted" THEN st[u] ELSE "Running")
                               ELSE st[u]]
  /\ tok' = [u \in Thread |-> IF u \in reg /\ u # t THEN TRUE ELSE tok[u]]
  /\ heapLock' = (IF heapLock = t THEN None ELSE heapLock)
  /\ Goto(t, "run")
  /\ U(<<kind, budget, ctx, started, finished, reg, listLock, todo, phase, scanning, envOK, genv, seen,
         pendingIrq, raised, bad>>)

-----------------------------------------------------------------------------
(* host: Engine's interrupt handle *)
Interrupt ==
  /\ WithIrq /\ ~pendingIrq /\ ~raised /\ Main \notin finished
  /\ paused' = [paused EXCEPT ![Main] = TRUE] /\ st' = [st EXCEPT ![Main] = "Interrupted"]
  /\ pendingIrq' = TRUE
  /\ U(<<pc, kind, budget, ctx, tok, started, finished, reg, listLock, heapLock, todo, phase, scanning, envOK,
         genv, seen, raised, bad>>)

Step(t) == \/ PollReadPaused(t) \/ PollReadState(t) \/ PollLoop(t) \/ PollPark(t) \/ PollRetract(t)
           \/ Instr(t) \/ Finish(t)
           \/ SpPublish(t) \/ SpBody(t) \/ SpExitRead(t) \/ SpPark(t) \/ SpRetract(t) \/ SpRecheck(t) \/ SpWait(t)
           \/ SpawnStart(t) \/ SpawnNone(t)
           \/ StwStop(t) \/ StwBegin(t) \/ StwEnd(t) \/ StwNext(t) \/ StwResume(t)
AllDone == \A t \in Thread : pc[t] \in {"done", "unborn"}
Next == (\E t \in Thread : Step(t)) \/ HostIdle \/ Interrupt \/ (AllDone /\ UNCHANGED vars)
Spec == Init /\ [][Next]_vars

-----------------------------------------------------------------------------
\* C15: nobody runs while its stack / global table is inspected or replaced, and a completed
\* global update is seen by everybody
C15 == bad \cap {"C15a-runs-while-scanned", "C15b-runs-without-global-table", "C15b-stale-global-table"} = {}
C15a == "C15a-runs-while-scanned" \notin bad
C15b == bad \cap {"C15b-runs-without-global-table", "C15b-stale-global-table"} = {}
\* C17: a requested interrupt stays pending until it is raised
C17 == /\ "C17-interrupt-overwritten" \notin bad
       /\ (pendingIrq => paused[Main] /\ st[Main] = "Interrupted")
\* C16: TLC's deadlock check (every non-final state has an enabled step); the only accepted
\* blocked states are script-level: a join on a thread that cannot finish is excluded by
\* construction (spawned threads always terminate)
=============================================================================
