SPECIFICATION Spec
CONSTANTS
  TrackCov = FALSE
  Thread = {"t1", "t2", "t3"}
  Creator = "t1"
  MaxHandles = 4
  MaxOps = 10
  Defects = {}
  OpKinds = {"clone", "drop", "get_mut", "try_unwrap", "send", "merge", "register", "exit"}
VIEW view
INVARIANTS AtMostOnce NotWhileHeld NoUseAfterFree Exclusive Counting
CHECK_DEADLOCK FALSE
