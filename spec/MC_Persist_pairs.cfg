\* the core shape: the base is held by ANY holder kind, a second reference to the same object is put into a
\* moved local (on this or on the other thread), the update goes through the moved reference
SPECIFICATION Spec
CONSTANTS
  FAMS = {"alias"}
  TYPES = {"hash", "hset", "ivec", "list", "str"}
  DEPTH = 2
  KINDS0 = {"G", "P", "L", "M", "B", "C", "EL", "EP", "EV", "EI", "EH", "EK", "ES", "EM", "S", "PR", "RA", "K", "WL", "WM", "WE"}
  KINDS1 = {"M", "WM"}
  KINDSR = {"L", "WL"}
  KEEP1 = 1000
  KEEP2 = 300
  KEEPR = 1000
  SEED = 1
  VIAS = {"d", "f"}
  ACTS = {"share", "upd"}
  MAXBASE = 1
  MAXLEN = 6
  BASESET = "small"
  LOOPN = {}
  LOOPEVERY = {}
  LOOPSTYLES = {}
  SWEEPSHAPES = {}
INVARIANTS TypeOK FunctionOK Emit
PROPERTIES Immutable
CHECK_DEADLOCK FALSE
