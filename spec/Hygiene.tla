------------------------------ MODULE Hygiene ------------------------------
(***************************************************************************)
(* C13 - `syntax-rules` with IDEAL hygiene, as generator and oracle.       *)
(*                                                                         *)
(* What is modelled                                                        *)
(*  1. Syntax objects: S-expression trees whose identifiers are pairs      *)
(*     (name, marks).  User-written identifiers have no marks; every       *)
(*     transcription step (one macro use rewritten by one rule) stamps a   *)
(*     fresh mark on every identifier the TEMPLATE introduces              *)
(*     (rename-apart, Kohlbecker/Clinger-Rees).                            *)
(*  2. The matcher (R7RS 4.3.2): pattern variables, `_`, literals,         *)
(*     constants, proper lists, one ellipsis per list with tail patterns,  *)
(*     nested ellipsis, dotted tails.  Result: pattern variable ->         *)
(*     matched sub-form (Lf) or sequence of such (Sq), or no match.        *)
(*     First matching rule wins; no rule => syntax error.                  *)
(*  3. The transcriber: pattern variables are replaced by what they        *)
(*     matched (ellipsis following), every other identifier of the         *)
(*     template gets the fresh mark.                                       *)
(*  4. The expander ("Macros That Work" restricted to TOP-LEVEL macro      *)
(*     definitions): it walks the program with the set `bd` of local       *)
(*     binder identifiers in scope.  An identifier denotes                 *)
(*        - the local variable bound by a binder with the SAME name and    *)
(*          the SAME marks, if one is in scope; otherwise                  *)
(*        - what its bare name means at top level (user macro, core form,  *)
(*          global variable / builtin).  This is the definition            *)
(*          environment of every top-level macro, so template-introduced   *)
(*          free identifiers keep their definition-site meaning, and       *)
(*          template-introduced binders (fresh marks) capture nothing the  *)
(*          user wrote.                                                    *)
(*     A literal of a rule matches an input identifier iff that identifier *)
(*     has the same spelling and is not locally bound (same binding as at  *)
(*     the definition site).  Bodies are head-normalised left to right     *)
(*     (macro uses that expand to `define`/`begin` are spliced).           *)
(*     The output is a program of Lang.tla's core AST in which every local *)
(*     variable is renamed name%marks; Lang's CEK machine (EXTENDS Lang)   *)
(*     runs it and yields the expected `emit`s per unit.                   *)
(*  5. A top-level state machine: one transition per top-level form event  *)
(*     (macro use transcribed, begin spliced, define-syntax installed,     *)
(*     form expanded), then Lang's machine, then the case line.            *)
(*  6. The generator (section "Families"), all products enumerated by TLC   *)
(*     from Init:                                                          *)
(*     hyg   library entry (macro definitions + one use with a hole)       *)
(*           x spelling N the use site binds (EVERY identifier spelled in  *)
(*             the definitions: introduced binders, free builtins /        *)
(*             globals / derived keywords / other macros, pattern          *)
(*             variables, literals, the macro's own name)                  *)
(*           x value bound (number | procedure) x binding context (let,    *)
(*             lambda, internal define, let*, letrec, named let, parameter *)
(*             of an internal / top-level function, none)                  *)
(*           x argument (the identifier N itself | a constant)             *)
(*           x placement (later unit | same unit | in a function body)     *)
(*     nest  a use of entry e2 as the argument of a use of entry e1        *)
(*     match pattern grammar (<= PATLEN elements of ELEMKINDS, one may be  *)
(*           followed by `...`, optional dotted tail) x input grammar      *)
(*           (<= INLEN elements of INKINDS, optional improper tail) x the  *)
(*           literal shadowed at the use or not; the template quotes every *)
(*           pattern variable with its ellipsis structure                  *)
(*     pair  two rules from a list of overlapping patterns, both orders    *)
(*           (first matching rule wins)                                    *)
(*     intf  interference histories on ONE engine: define macro A, define  *)
(*           macro B, use B, use A, use B again (several unit layouts),    *)
(*           A and B from shapes that SHARE the pattern-variable spellings *)
(*           v, a, k but give them different roles (ellipsis variable vs   *)
(*           plain variable, depth 1 vs depth 2, literal vs variable,      *)
(*           plain variable inside an ellipsis sub-template, operand an    *)
(*           atom vs a parenthesised form of equal / unequal length).  The *)
(*           expansion of a use depends only on its macro's definition and *)
(*           the use: the model checks (IntfConsistent) that the same use  *)
(*           is expected to emit the same value at every position.         *)
(*                                                                         *)
(* Domain restrictions / named deviations of Steel adopted on purpose      *)
(*   H1  `if let lambda define quote begin set!` are reserved words of     *)
(*       Steel's tokenizer and cannot be bound as variables at all (parse  *)
(*       error).  Programs binding them are outside the domain (never      *)
(*       generated); the derived keywords and or when unless cond let*     *)
(*       letrec CAN be bound and are in the domain.                        *)
(*   H2  macros are defined at top level only (`let-syntax`, internal      *)
(*       `define-syntax` are not supported by Steel).                      *)
(*   H3  an ellipsis is greedy: with tail patterns and/or a dotted tail it *)
(*       consumes all list elements but the last |tail patterns|; the      *)
(*       dotted tail pattern gets the final cdr (maintainer test           *)
(*       "improper list pattern, ellipsis make pattern greedy" in          *)
(*       cogs/syntax-tests.scm; same reading as chibi/chez).               *)
(*   H4  the keyword position of a pattern is ignored (R7RS; maintainer    *)
(*       test "macro name in pattern is irrelevant").                      *)
(*   H5  the whole unit is expanded before any of it runs: a syntax error  *)
(*       anywhere in a unit => class err, no emits of that unit.           *)
(*   H6  templates never introduce a TOP-LEVEL definition of an introduced *)
(*       identifier (R7RS leaves its visibility open); `x ... ...` and     *)
(*       `(... ...)` are not R7RS-small / not generated.                   *)
(*   H7  a non-list datum is an improper list of zero elements: the        *)
(*       pattern (p ... . r) matches 5 with p = (), r = 5 (maintainer test *)
(*       "improper list pattern, collapses to non-list"; chibi agrees).    *)
(*   plus Lang.tla's D1-D8 for the evaluation of the expanded program.     *)
(***************************************************************************)
EXTENDS Lang

CONSTANTS CTXS,      \* use-site context kinds explored (subset of AllCtxs)
          PLACES,    \* placements explored (subset of {"later","same","fnbody"})
          VALS,      \* values given to shadowing binders (subset of {"num","fn"})
          NEST,      \* TRUE: also the nesting family (a use as argument of another use)
          PATLEN,    \* max number of element patterns in the pattern grammar
          INLEN,     \* max number of input elements in the input grammar
          PAIRS,     \* TRUE: also the two-rule (first match wins) family
          INTF,      \* history shapes of the interference family (subset of AllHists; {} = off)
          ELEMKINDS, \* element pattern kinds of the pattern grammar (subset of AllElemKinds)
          INKINDS    \* input element kinds of the input grammar (subset of AllInKinds)

VARIABLES hc,        \* parameters of the case of this behaviour (small record)
          hui,       \* index of the source unit being expanded
          todo,      \* top-level forms of that unit still to be processed
          cur,       \* core forms of that unit produced so far
          macros,    \* top-level macro table: bare name -> [lits, rules]
          ctr,       \* mark counter; -1 = syntax error in this unit, -2 = outside the domain
          synerr     \* per source unit: TRUE iff expansion reported a syntax error

hvars == <<hc, hui, todo, cur, macros, ctr, synerr>>

-----------------------------------------------------------------------------
(* 1. Syntax objects *)
Sid(n)       == [k |-> "id", n |-> n, m |-> << >>]
Snum(i)      == [k |-> "int", i |-> i]
Sbool(b)     == [k |-> "bool", b |-> b]
Sl(es)       == [k |-> "list", es |-> es]
Nil0         == Sl(<< >>)
\* (e1 ... en . tl), normalised: the tail of a "dot" node is never a list
Scons(es, tl) == IF tl.k = "list" THEN Sl(es \o tl.es)
                 ELSE IF tl.k = "dot" THEN [k |-> "dot", es |-> es \o tl.es, tl |-> tl.tl]
                 ELSE IF es = << >> THEN tl
                 ELSE [k |-> "dot", es |-> es, tl |-> tl]
IsId(f)   == f.k = "id"
IsEll(f)  == f.k = "id" /\ f.n = "..."
IsUnd(f)  == f.k = "id" /\ f.n = "_"
Listy(f)  == f.k \in {"list", "dot"}
TailF(f)  == IF f.k = "dot" THEN f.tl ELSE Nil0
Mark(f, mk) == [f EXCEPT !.m = Append(@, mk)]
HeadIs(f, n) == f.k = "list" /\ f.es # << >> /\ IsId(f.es[1]) /\ f.es[1].n = n

-----------------------------------------------------------------------------
(* 2. Matcher.  cx = [lits |-> set of identifiers, bd |-> local binders in scope at the use] *)
Lf(f) == [lf |-> f]
Sq(s) == [sq |-> s]
IsLf(v) == "lf" \in DOMAIN v
NoMatch == [ok |-> FALSE]
Matched(b) == [ok |-> TRUE, b |-> b]       \* b: sequence of <<pattern variable, Lf|Sq>>
Has(b, v) == \E i \in 1..Len(b) : b[i][1] = v
Get(b, v) == b[CHOOSE i \in 1..Len(b) : b[i][1] = v][2]
EllAt(ps) == IF \E i \in 1..Len(ps) : IsEll(ps[i]) THEN CHOOSE i \in 1..Len(ps) : IsEll(ps[i]) ELSE 0

RECURSIVE PVars(_, _), PVarsSeq(_, _)
PVars(p, lits) ==
  IF IsId(p) THEN (IF p \in lits \/ IsUnd(p) \/ IsEll(p) THEN << >> ELSE <<p>>)
  ELSE IF Listy(p) THEN PVarsSeq(p.es, lits) \o (IF p.k = "dot" THEN PVars(p.tl, lits) ELSE << >>)
  ELSE << >>
PVarsSeq(ps, lits) == IF ps = << >> THEN << >> ELSE PVars(ps[1], lits) \o PVarsSeq(Tail(ps), lits)

RECURSIVE Match(_, _, _), MatchEach(_, _, _), MatchList(_, _, _, _, _)
\* element-wise match of equally long sequences
MatchEach(ps, fs, cx) ==
  IF ps = << >> THEN Matched(<< >>)
  ELSE LET r == Match(ps[1], fs[1], cx) IN
       IF ~r.ok THEN NoMatch
       ELSE LET rs == MatchEach(Tail(ps), Tail(fs), cx) IN
            IF rs.ok THEN Matched(r.b \o rs.b) ELSE NoMatch

\* the tail pattern pt is () for a proper-list pattern, else an atom pattern
MatchTail(pt, rest, cx) == IF pt = Nil0 THEN (IF rest = Nil0 THEN Matched(<< >>) ELSE NoMatch)
                           ELSE Match(pt, rest, cx)

\* pattern (ps . pt) against input (fs . ft)
MatchList(ps, pt, fs, ft, cx) ==
  LET e == EllAt(ps) IN
  IF e = 0
    THEN IF Len(fs) < Len(ps) THEN NoMatch
         ELSE LET r1 == MatchEach(ps, SubSeq(fs, 1, Len(ps)), cx) IN
              IF ~r1.ok THEN NoMatch
              ELSE LET r2 == MatchTail(pt, Scons(SubSeq(fs, Len(ps) + 1, Len(fs)), ft), cx) IN
                   IF r2.ok THEN Matched(r1.b \o r2.b) ELSE NoMatch
    ELSE LET pre  == SubSeq(ps, 1, e - 2)
             pe   == ps[e - 1]
             post == SubSeq(ps, e + 1, Len(ps))
             n    == Len(fs)
         IN IF n < Len(pre) + Len(post) THEN NoMatch
            ELSE LET mids == SubSeq(fs, Len(pre) + 1, n - Len(post))      \* H3: greedy
                     r1 == MatchEach(pre, SubSeq(fs, 1, Len(pre)), cx)
                     rm == [i \in 1..Len(mids) |-> Match(pe, mids[i], cx)]
                     r3 == MatchEach(post, SubSeq(fs, n - Len(post) + 1, n), cx)
                     r4 == MatchTail(pt, ft, cx)
                     vs == PVars(pe, cx.lits)
                 IN IF r1.ok /\ (\A i \in 1..Len(mids) : rm[i].ok) /\ r3.ok /\ r4.ok
                      THEN Matched(r1.b
                                   \o [j \in 1..Len(vs) |->
                                         <<vs[j], Sq([i \in 1..Len(mids) |-> Get(rm[i].b, vs[j])])>>]
                                   \o r3.b \o r4.b)
                      ELSE NoMatch

Match(p, f, cx) ==
  IF IsId(p)
    THEN IF p \in cx.lits
           \* literal: same spelling and the input identifier is not locally bound, i.e. it has
           \* the binding the literal has at the (top-level) definition site
           THEN (IF IsId(f) /\ f.n = p.n /\ f \notin cx.bd THEN Matched(<< >>) ELSE NoMatch)
         ELSE IF IsUnd(p) THEN Matched(<< >>)
         ELSE Matched(<< <<p, Lf(f)>> >>)
  ELSE IF Listy(p)
    THEN (IF Listy(f) THEN MatchList(p.es, TailF(p), f.es, TailF(f), cx)
          ELSE IF p.k = "dot" THEN MatchList(p.es, p.tl, << >>, f, cx)        \* H7
          ELSE NoMatch)
  ELSE IF p = f THEN Matched(<< >>) ELSE NoMatch

-----------------------------------------------------------------------------
(* 3. Transcriber *)
BadForm == [k |-> "bad"]      \* ill-formed template (depth / length mismatch): outside the domain

RECURSIVE TVars(_, _), TVarsSeq(_, _)
TVars(t, b) == IF IsId(t) THEN (IF Has(b, t) THEN {t} ELSE {})
               ELSE IF Listy(t) THEN TVarsSeq(t.es, b) \cup (IF t.k = "dot" THEN TVars(t.tl, b) ELSE {})
               ELSE {}
TVarsSeq(ts, b) == IF ts = << >> THEN {} ELSE TVars(ts[1], b) \cup TVarsSeq(Tail(ts), b)

RECURSIVE Inst(_, _, _), InstSeq(_, _, _)
Inst(t, b, mk) ==
  IF IsId(t)
    THEN IF Has(b, t) THEN (IF IsLf(Get(b, t)) THEN Get(b, t).lf ELSE BadForm)
         ELSE Mark(t, mk)                                   \* introduced by the macro
  ELSE IF Listy(t) THEN Scons(InstSeq(t.es, b, mk), IF t.k = "dot" THEN Inst(t.tl, b, mk) ELSE Nil0)
  ELSE t
InstSeq(ts, b, mk) ==
  IF ts = << >> THEN << >>
  ELSE IF Len(ts) >= 2 /\ IsEll(ts[2])
    THEN LET dr == {v \in TVars(ts[1], b) : ~IsLf(Get(b, v))}       \* variables driving the repetition
             ns == {Len(Get(b, v).sq) : v \in dr}
         IN IF Cardinality(ns) # 1 THEN <<BadForm>>
            ELSE LET n == CHOOSE x \in ns : TRUE
                     bi(i) == [j \in 1..Len(b) |-> IF b[j][1] \in dr THEN <<b[j][1], b[j][2].sq[i]>> ELSE b[j]]
                 IN [i \in 1..n |-> Inst(ts[1], bi(i), mk)] \o InstSeq(SubSeq(ts, 3, Len(ts)), b, mk)
  ELSE <<Inst(ts[1], b, mk)>> \o InstSeq(Tail(ts), b, mk)

\* a macro: [lits |-> set of identifiers, rules |-> sequence of <<pattern, template>>]
\* One transcription step of the use `f` with fresh mark mk.  H4: keyword position ignored.
RuleMatch(mac, i, f, bd) ==
  LET p == mac.rules[i][1] IN
  IF ~Listy(p) \/ p.es = << >> THEN NoMatch
  ELSE MatchList(Tail(p.es), TailF(p), Tail(f.es), TailF(f), [lits |-> mac.lits, bd |-> bd])
Transcribe(mac, f, bd, mk) ==
  LET hits == {i \in 1..Len(mac.rules) : RuleMatch(mac, i, f, bd).ok} IN
  IF hits = {} THEN [ok |-> FALSE]
  ELSE LET i == CHOOSE x \in hits : \A y \in hits : x <= y IN
       [ok |-> TRUE, f |-> Inst(mac.rules[i][2], RuleMatch(mac, i, f, bd).b, mk), rule |-> i]

\* (define-syntax name (syntax-rules (lit ...) (pattern template) ...))
IsDefSyntaxShape(f) ==
  /\ f.k = "list" /\ Len(f.es) = 3 /\ IsId(f.es[2])
  /\ f.es[3].k = "list" /\ Len(f.es[3].es) >= 2 /\ f.es[3].es[2].k = "list"
  /\ \A i \in 3..Len(f.es[3].es) : f.es[3].es[i].k = "list" /\ Len(f.es[3].es[i].es) = 2
MacroOf(f) ==
  LET sr == f.es[3].es IN
  [lits |-> {sr[2].es[i] : i \in 1..Len(sr[2].es)},
   rules |-> [i \in 1..(Len(sr) - 2) |-> <<sr[i + 2].es[1], sr[i + 2].es[2]>>]]

-----------------------------------------------------------------------------
(* 4. Expander: syntax objects -> Lang.tla core AST.                         *)
(* Threaded state: the mark counter c (c < 0 is sticky: -1 syntax error,     *)
(* -2 program outside the modelled domain).  ms = macro table.               *)
Reserved   == {"if", "let", "lambda", "define", "quote", "begin", "set!", "define-syntax"}   \* H1
DerivedKw  == {"let*", "letrec", "and", "or", "when", "unless", "cond"}
CoreForms  == Reserved \cup DerivedKw

\* what an identifier denotes where `bd` are the local binders in scope
Deno(id, bd, ms) == IF id \in bd THEN "local"
                    ELSE IF id.n \in DOMAIN ms THEN "macro"
                    ELSE IF id.n \in CoreForms THEN id.n
                    ELSE "global"
\* denotation of the head of a compound form; a macro use may be an improper list (Steel and most
\* implementations accept (m a . b); maintainer test "improper list pattern, tail arguments"),
\* any other dotted form is a syntax error
HeadDeno(f, bd, ms) ==
  IF Listy(f) /\ f.es # << >> /\ IsId(f.es[1])
    THEN LET d == Deno(f.es[1], bd, ms) IN IF f.k = "dot" /\ d # "macro" THEN "baddot" ELSE d
    ELSE IF f.k = "dot" THEN "baddot" ELSE "expr"

\* name of the core variable for a local binder identifier: distinct (name, marks) => distinct names,
\* and never equal to a global name
LName(id) == id.n \o "%" \o ToString(id.m)
VRef(id, bd) == IF id \in bd THEN LName(id) ELSE id.n

\* quoted datum: marks are stripped
RECURSIVE ToVal(_), ToValSeq(_, _)
ToValSeq(es, tl) == IF es = << >> THEN tl ELSE PairV(ToVal(es[1]), ToValSeq(Tail(es), tl))
ToVal(f) == CASE f.k = "id" -> SymV(f.n)
              [] f.k = "int" -> IntV(f.i)
              [] f.k = "bool" -> BoolV(f.b)
              [] f.k = "list" -> ToValSeq(f.es, Nil)
              [] f.k = "dot" -> ToValSeq(f.es, ToVal(f.tl))
              [] OTHER -> Void

XR(a, c) == [a |-> a, c |-> c]
XBad(code) == [a |-> C(Void), c |-> code]
SetOf(s) == {s[i] : i \in 1..Len(s)}

\* parameter list: (a b) | (a . r) | r
ParamsOK(pf) == IF IsId(pf) THEN TRUE
                ELSE Listy(pf) /\ (\A i \in 1..Len(pf.es) : IsId(pf.es[i])) /\ (pf.k = "dot" => IsId(pf.tl))
ParamIds(pf) == IF IsId(pf) THEN {pf} ELSE SetOf(pf.es) \cup (IF pf.k = "dot" THEN {pf.tl} ELSE {})
ParamPs(pf)  == IF IsId(pf) THEN << >> ELSE [i \in 1..Len(pf.es) |-> LName(pf.es[i])]
ParamRest(pf) == IF IsId(pf) THEN LName(pf) ELSE IF pf.k = "dot" THEN LName(pf.tl) ELSE ""

\* binding list ((v e) ...)
BindsOK(bf) == bf.k = "list" /\ \A i \in 1..Len(bf.es) :
                   bf.es[i].k = "list" /\ Len(bf.es[i].es) = 2 /\ IsId(bf.es[i].es[1])
BindIds(bf) == [i \in 1..Len(bf.es) |-> bf.es[i].es[1]]
BindInits(bf) == [i \in 1..Len(bf.es) |-> bf.es[i].es[2]]

\* (define v e) | (define (v . params) body ...)
DefineOK(f) == /\ f.k = "list" /\ Len(f.es) >= 3
               /\ \/ IsId(f.es[2]) /\ Len(f.es) = 3
                  \/ Listy(f.es[2]) /\ f.es[2].es # << >> /\ IsId(f.es[2].es[1])
                     /\ ParamsOK(Scons(Tail(f.es[2].es), TailF(f.es[2])))
DefineId(f) == IF IsId(f.es[2]) THEN f.es[2] ELSE f.es[2].es[1]
\* the right-hand side as a syntax object ((define (f . ps) body...) == (define f (lambda ps body...)));
\* the synthesized `lambda` is the core form (Reserved names are never rebound, H1)
DefineRhs(f) == IF IsId(f.es[2]) THEN f.es[3]
                ELSE Sl(<<Sid("lambda"), Scons(Tail(f.es[2].es), TailF(f.es[2]))>> \o SubSeq(f.es, 3, Len(f.es)))

RECURSIVE XE(_, _, _, _), XSeq(_, _, _, _), XBody(_, _, _, _), HeadNorm(_, _, _, _),
          XLetStar(_, _, _, _, _), XDefs(_, _, _, _), XCond(_, _, _, _)

\* sequence of expressions, left to right
XSeq(fs, bd, ms, c) ==
  IF fs = << >> THEN XR(<< >>, c)
  ELSE LET r == XE(fs[1], bd, ms, c)
           rs == XSeq(Tail(fs), bd, ms, r.c)
       IN XR(<<r.a>> \o rs.a, rs.c)

\* head-normalise a body: transcribe macro uses in head position, splice `begin`, and extend
\* the scope with every definition met (left to right).  Result: forms, counter, scope.
HeadNorm(fs, bd, ms, c) ==
  IF c < 0 \/ fs = << >> THEN [fs |-> << >>, c |-> c, bd |-> bd]
  ELSE LET f == fs[1]
           d == HeadDeno(f, bd, ms)
       IN CASE d = "macro" ->
                 LET t == Transcribe(ms[f.es[1].n], f, bd, c + 1) IN
                 IF t.ok THEN HeadNorm(<<t.f>> \o Tail(fs), bd, ms, c + 1)
                 ELSE [fs |-> << >>, c |-> -1, bd |-> bd]
            [] d = "begin" -> HeadNorm(Tail(f.es) \o Tail(fs), bd, ms, c)
            [] d = "define" ->
                 IF ~DefineOK(f) THEN [fs |-> << >>, c |-> -1, bd |-> bd]
                 ELSE LET r == HeadNorm(Tail(fs), bd \cup {DefineId(f)}, ms, c) IN
                      [fs |-> <<f>> \o r.fs, c |-> r.c, bd |-> r.bd]
            [] OTHER -> LET r == HeadNorm(Tail(fs), bd, ms, c) IN
                        [fs |-> <<f>> \o r.fs, c |-> r.c, bd |-> r.bd]

\* definitions of a body, all in the body's full scope bd (letrec* semantics)
XDefs(ds, bd, ms, c) ==
  IF ds = << >> THEN XR(<< >>, c)
  ELSE LET r == XE(DefineRhs(ds[1]), bd, ms, c)
           rs == XDefs(Tail(ds), bd, ms, r.c)
       IN XR(<<Def(LName(DefineId(ds[1])), r.a)>> \o rs.a, rs.c)

XBody(fs, bd, ms, c) ==
  LET hn == HeadNorm(fs, bd, ms, c) IN
  IF hn.c < 0 THEN XBad(hn.c)
  ELSE LET isdef(i) == HeadDeno(hn.fs[i], bd, ms) = "define"
           nd == Cardinality({i \in 1..Len(hn.fs) : isdef(i)})
       IN IF \E i \in 1..nd : ~isdef(i) THEN XBad(-2)           \* definitions first (Lang's Body)
          ELSE IF nd = Len(hn.fs) THEN XBad(-1)                   \* no expression in the body
          ELSE LET ds == XDefs(SubSeq(hn.fs, 1, nd), hn.bd, ms, hn.c)
                   es == XSeq(SubSeq(hn.fs, nd + 1, Len(hn.fs)), hn.bd, ms, ds.c)
                   e == IF Len(es.a) = 1 THEN es.a[1] ELSE Begin(es.a)
               IN XR(IF nd = 0 THEN e ELSE Body(ds.a, e), es.c)

\* (let* ((v e) ...) body ...) as nested single lets
XLetStar(ids, inits, body, bd, msc) ==      \* msc = <<macro table, counter>>
  LET ms == msc[1]
      c == msc[2] IN
  IF ids = << >> THEN XBody(body, bd, ms, c)
  ELSE LET r == XE(inits[1], bd, ms, c)
           rest == XLetStar(Tail(ids), Tail(inits), body, bd \cup {ids[1]}, <<ms, r.c>>)
       IN XR(Let(<< <<LName(ids[1]), r.a>> >>, rest.a), rest.c)

\* (cond (test e) ... [(else e)])
XCond(cls, bd, ms, c) ==
  IF cls = << >> THEN XR([cls |-> << >>, el |-> [k |-> "none"]], c)
  ELSE LET cl == cls[1] IN
       IF ~(cl.k = "list" /\ Len(cl.es) = 2) THEN XR([cls |-> << >>, el |-> [k |-> "none"]], -2)
       ELSE IF Len(cls) = 1 /\ IsId(cl.es[1]) /\ cl.es[1].n = "else" /\ cl.es[1] \notin bd
         THEN LET r == XE(cl.es[2], bd, ms, c) IN XR([cls |-> << >>, el |-> r.a], r.c)
       ELSE LET r == XSeq(cl.es, bd, ms, c)
                rs == XCond(Tail(cls), bd, ms, r.c)
            IN XR([cls |-> << <<r.a[1], r.a[2]>> >> \o rs.a.cls, el |-> rs.a.el], rs.c)

XE(f, bd, ms, c) ==
  IF c < 0 THEN XBad(c)
  ELSE
  CASE f.k = "int"  -> XR(C(IntV(f.i)), c)
    [] f.k = "bool" -> XR(C(BoolV(f.b)), c)
    [] f.k = "id"   -> LET d == Deno(f, bd, ms) IN
                       IF d \in {"local", "global"} THEN XR(Var(VRef(f, bd)), c)
                       ELSE XBad(-1)                        \* keyword used as a variable
    [] Listy(f) /\ f.es # << >> ->
       LET d == HeadDeno(f, bd, ms)
           n == Len(f.es)
           a == f.es
       IN
       CASE d = "macro" ->
              LET t == Transcribe(ms[a[1].n], f, bd, c + 1) IN
              IF t.ok THEN XE(t.f, bd, ms, c + 1) ELSE XBad(-1)
         [] d = "quote" -> IF n = 2 THEN XR(C(ToVal(a[2])), c) ELSE XBad(-1)
         [] d = "if" ->
              IF n \notin {3, 4} THEN XBad(-1)
              ELSE LET r == XSeq(Tail(a), bd, ms, c) IN
                   XR(If(r.a[1], r.a[2], IF n = 4 THEN r.a[3] ELSE C(Void)), r.c)
         [] d = "lambda" ->
              IF n < 3 \/ ~ParamsOK(a[2]) THEN XBad(-1)
              ELSE LET r == XBody(SubSeq(a, 3, n), bd \cup ParamIds(a[2]), ms, c) IN
                   XR(Lam(ParamPs(a[2]), ParamRest(a[2]), r.a), r.c)
         [] d = "let" ->
              IF n >= 4 /\ IsId(a[2]) /\ BindsOK(a[3])          \* named let
                THEN LET ids == BindIds(a[3])
                         ri == XSeq(BindInits(a[3]), bd, ms, c)
                         rb == XBody(SubSeq(a, 4, n), bd \cup {a[2]} \cup SetOf(ids), ms, ri.c)
                     IN XR(NLet(LName(a[2]), [i \in 1..Len(ids) |-> <<LName(ids[i]), ri.a[i]>>], rb.a), rb.c)
              ELSE IF n >= 3 /\ BindsOK(a[2])
                THEN LET ids == BindIds(a[2])
                         ri == XSeq(BindInits(a[2]), bd, ms, c)
                         rb == XBody(SubSeq(a, 3, n), bd \cup SetOf(ids), ms, ri.c)
                     IN XR(Let([i \in 1..Len(ids) |-> <<LName(ids[i]), ri.a[i]>>], rb.a), rb.c)
              ELSE XBad(-1)
         [] d = "let*" ->
              IF n >= 3 /\ BindsOK(a[2])
                THEN XLetStar(BindIds(a[2]), BindInits(a[2]), SubSeq(a, 3, n), bd, <<ms, c>>)
                ELSE XBad(-1)
         [] d = "letrec" ->
              IF n >= 3 /\ BindsOK(a[2])
                THEN LET ids == BindIds(a[2])
                         bd2 == bd \cup SetOf(ids)
                         ri == XSeq(BindInits(a[2]), bd2, ms, c)
                         rb == XBody(SubSeq(a, 3, n), bd2, ms, ri.c)
                     IN XR(LetRec([i \in 1..Len(ids) |-> <<LName(ids[i]), ri.a[i]>>], rb.a), rb.c)
                ELSE XBad(-1)
         [] d = "set!" ->
              IF n = 3 /\ IsId(a[2]) /\ Deno(a[2], bd, ms) \in {"local", "global"}
                THEN LET r == XE(a[3], bd, ms, c) IN XR(SetE(VRef(a[2], bd), r.a), r.c)
                ELSE XBad(-1)
         [] d = "begin" -> IF n = 1 THEN XBad(-2)
                           ELSE LET r == XSeq(Tail(a), bd, ms, c) IN XR(Begin(r.a), r.c)
         [] d = "and" -> LET r == XSeq(Tail(a), bd, ms, c) IN XR(And(r.a), r.c)
         [] d = "or"  -> LET r == XSeq(Tail(a), bd, ms, c) IN XR(Or(r.a), r.c)
         [] d = "when" -> IF n < 3 THEN XBad(-1)
                          ELSE LET r == XSeq(Tail(a), bd, ms, c) IN XR(When(r.a[1], Tail(r.a)), r.c)
         [] d = "unless" -> IF n < 3 THEN XBad(-1)
                            ELSE LET r == XSeq(Tail(a), bd, ms, c) IN
                                 XR(If(r.a[1], C(Void), Begin(Tail(r.a))), r.c)
         [] d = "cond" -> LET r == XCond(Tail(a), bd, ms, c) IN XR(Cond(r.a.cls, r.a.el), r.c)
         [] d \in {"define", "define-syntax"} -> XBad(-2)       \* definition in expression context
         [] d = "baddot" -> XBad(-1)
         [] OTHER ->                                            \* application
              LET r == XSeq(a, bd, ms, c) IN XR(App(r.a[1], Tail(r.a)), r.c)
    [] f.k = "bad" -> XBad(-2)  \* ill-formed template: outside the domain
    [] OTHER -> XBad(-1)        \* (), dotted form

-----------------------------------------------------------------------------
(* 5. Rendering of source text.  Global user names carry the "@@" placeholder. *)
GlobalNames == {"my-or", "swap!", "my-let1", "m-lam", "m-idef", "rep", "m-lets", "m-rec", "my-for",
                "use-g", "use-g2", "helper", "gv", "use-kw", "m-outer", "m-inner", "sum-acc", "defk", "defm",
                "gen", "my-cond", "def-it", "def-tmp", "fn0", "fn1", "mm", "my-let*", "m-do", "m-o2", "m-i2",
                "m-two", "k-else", "wrap", "def-fn", "m-pv", "m-pk", "m-bb", "m-op", "m-set", "ia", "ib",
                "m-id", "m-last", "use-g3"}
RId(n) == IF n \in GlobalNames THEN n \o "@@" ELSE n
RECURSIVE Rs(_)
RsSeq(es) == Join([i \in 1..Len(es) |-> Rs(es[i])], " ")
Rs(f) == CASE f.k = "id" -> RId(f.n)
           [] f.k = "int" -> ToString(f.i)
           [] f.k = "bool" -> IF f.b THEN "#t" ELSE "#f"
           [] f.k = "list" -> IF Len(f.es) = 2 /\ f.es[1] = Sid("quote") THEN "'" \o Rs(f.es[2])
                              ELSE "(" \o RsSeq(f.es) \o ")"
           [] f.k = "dot" -> "(" \o RsSeq(f.es) \o " . " \o Rs(f.tl) \o ")"
           [] OTHER -> "#<bad>"

-----------------------------------------------------------------------------
(* 6. Families.                                                              *)
(* 6a. Library of macro definitions with one use each.  `$` is the hole of   *)
(*     the use form: it is filled with an identifier the use-site context    *)
(*     binds (the user passes an identifier of that spelling) or a constant. *)
y(n)  == Sid(n)
num(i) == Snum(i)
L(es) == Sl(es)
q(x)  == Sl(<<Sid("quote"), x>>)
DOTS  == Sid("...")
US    == Sid("_")
HOLE  == Sid("$")
Rule(p, t) == Sl(<<p, t>>)
DefSyn(name, lits, rules) ==
  Sl(<<Sid("define-syntax"), Sid(name), Sl(<<Sid("syntax-rules"), Sl(lits)>> \o rules)>>)
Pat(ps) == Sl(<<US>> \o ps)
Call(n, as) == Sl(<<Sid(n)>> \o as)
Let1(v, e, body) == Sl(<<y("let"), L(<<L(<<v, e>>)>>), body>>)

Entry(tag, defs, use, argvar) == [tag |-> tag, defs |-> defs, use |-> use, argvar |-> argvar]

\* free reference to a builtin procedure g; `call` is the template's call on pattern variable a
UseG(g, call, a0) ==
  Entry("free-" \o g,
        <<DefSyn("use-g", << >>, <<Rule(Pat(<<y("a"), y("b")>>), Sl(<<y("if"), y("b"), call, q(y("no"))>>))>>)>>,
        Call("use-g", <<a0, HOLE>>), FALSE)
A == y("a")
LST == q(L(<<num(1), num(2)>>))
LL  == q(L(<<L(<<num(1)>>), L(<<num(2)>>)>>))
BuiltinEntries ==
  << UseG("list", Call("list", <<A>>), LST),       UseG("car", Call("car", <<A>>), LST),
     UseG("cdr", Call("cdr", <<A>>), LST),         UseG("length", Call("length", <<A>>), LST),
     UseG("reverse", Call("reverse", <<A>>), LST), UseG("null?", Call("null?", <<A>>), LST),
     UseG("pair?", Call("pair?", <<A>>), LST),     UseG("not", Call("not", <<A>>), LST),
     UseG("cadr", Call("cadr", <<A>>), LST),       UseG("cons", Call("cons", <<A, A>>), LST),
     UseG("append", Call("append", <<A, A>>), LST), UseG("equal?", Call("equal?", <<A, A>>), LST),
     UseG("map", Call("map", <<y("car"), A>>), LL), UseG("apply", Call("apply", <<y("+"), A>>), LST),
     UseG("vector", Call("vector", <<A>>), LST),
     UseG("+", Call("+", <<A, A>>), num(3)),       UseG("-", Call("-", <<A>>), num(3)),
     UseG("*", Call("*", <<A, A>>), num(3)),       UseG("=", Call("=", <<A, A>>), num(3)),
     UseG("<", Call("<", <<A, A>>), num(3)),       UseG("zero?", Call("zero?", <<A>>), num(3)),
     UseG("integer?", Call("integer?", <<A>>), num(3)) >>

\* free reference to a derived keyword of the definition site
UseKw(kw, tmpl) ==
  Entry("kw-" \o kw, <<DefSyn("use-kw", << >>, <<Rule(Pat(<<A>>), tmpl)>>)>>, Call("use-kw", <<HOLE>>), FALSE)
KwEntries ==
  << UseKw("when", Sl(<<y("when"), A, q(y("yes"))>>)),
     UseKw("unless", Sl(<<y("unless"), Sbool(FALSE), A>>)),
     UseKw("and", Sl(<<y("and"), A, A>>)),
     UseKw("or", Sl(<<y("or"), Sbool(FALSE), A>>)),
     UseKw("cond", Sl(<<y("cond"), L(<<Sbool(FALSE), num(1)>>), L(<<y("else"), A>>)>>)),
     UseKw("let*", Sl(<<y("let*"), L(<<L(<<y("w"), A>>)>>), y("w")>>)),
     UseKw("letrec", Sl(<<y("letrec"), L(<<L(<<y("w"), A>>)>>), y("w")>>)) >>

EvOd == \* (letrec ((ev? ...) (od? ...)) (list x (ev? 3)))
  LET fn(me, other, base) ==
        Sl(<<y("lambda"), L(<<y("n")>>),
             Sl(<<y("if"), Call("=", <<y("n"), num(0)>>), Sbool(base),
                  Call(other, <<Call("-", <<y("n"), num(1)>>)>>)>>)>>)
  IN Sl(<<y("letrec"), L(<<L(<<y("ev?"), fn("ev?", "od?", TRUE)>>), L(<<y("od?"), fn("od?", "ev?", FALSE)>>)>>),
          Call("list", <<y("x"), Call("ev?", <<num(3)>>)>>)>>)

LoopT(v, lo, hi, body) == \* (let loop ((v lo) (acc '())) (if (< v hi) (loop (+ v 1) (cons body acc)) (reverse acc)))
  Sl(<<y("let"), y("loop"), L(<<L(<<v, lo>>), L(<<y("acc"), q(Nil0)>>)>>),
       Sl(<<y("if"), Call("<", <<v, hi>>),
            Call("loop", <<Call("+", <<v, num(1)>>), Call("cons", <<body, y("acc")>>)>>),
            Call("reverse", <<y("acc")>>)>>)>>)

MyCond ==
  DefSyn("my-cond", <<y("else"), y("=>")>>,
    << Rule(Pat(<< >>), q(y("none"))),
       Rule(Pat(<<L(<<y("else"), y("e")>>)>>), y("e")),
       Rule(Pat(<<L(<<y("c"), y("=>"), y("f")>>), y("r"), DOTS>>),
            Let1(y("t"), y("c"), Sl(<<y("if"), y("t"), L(<<y("f"), y("t")>>), Call("my-cond", <<y("r"), DOTS>>)>>))),
       Rule(Pat(<<L(<<y("c"), y("e")>>), y("r"), DOTS>>),
            Sl(<<y("if"), y("c"), y("e"), Call("my-cond", <<y("r"), DOTS>>)>>)) >>)

CoreEntries ==
  << Entry("my-or",
       <<DefSyn("my-or", << >>,
          << Rule(Pat(<< >>), Sbool(FALSE)), Rule(Pat(<<y("e")>>), y("e")),
             Rule(Pat(<<y("e"), y("r"), DOTS>>),
                  Let1(y("t"), y("e"), Sl(<<y("if"), y("t"), y("t"), Call("my-or", <<y("r"), DOTS>>)>>))) >>)>>,
       Call("my-or", <<Sbool(FALSE), HOLE>>), FALSE),
     Entry("swap",
       <<DefSyn("swap!", << >>,
          <<Rule(Pat(<<y("a"), y("b")>>),
                 Sl(<<y("let"), L(<<L(<<y("tmp"), y("a")>>)>>), Call("set!", <<y("a"), y("b")>>),
                      Call("set!", <<y("b"), y("tmp")>>)>>))>>)>>,
       Sl(<<y("let"), L(<<L(<<y("other"), num(2)>>)>>), Call("swap!", <<HOLE, y("other")>>),
            Call("list", <<HOLE, y("other")>>)>>), TRUE),
     Entry("user-binder",
       <<DefSyn("my-let1", << >>, <<Rule(Pat(<<y("v"), y("e"), y("body")>>), Let1(y("v"), y("e"), y("body")))>>)>>,
       Call("my-let1", <<y("tmp"), num(5), Call("list", <<y("tmp"), HOLE>>)>>), FALSE),
     Entry("dotted-params-through-patvar",
       <<DefSyn("my-let1", << >>, <<Rule(Pat(<<y("v"), y("e"), y("body")>>), Let1(y("v"), y("e"), y("body")))>>)>>,
       Call("my-let1", <<y("tmp"), HOLE,
                         L(<<Sl(<<y("lambda"), Scons(<<y("p")>>, y("rest")), Call("list", <<y("tmp"), y("p"), y("rest")>>)>>),
                             num(1), num(2), num(3)>>)>>), FALSE),
     Entry("lambda-binder",
       <<DefSyn("m-lam", << >>,
          <<Rule(Pat(<<y("x")>>), L(<<Sl(<<y("lambda"), L(<<y("y")>>), Call("list", <<y("x"), y("y")>>)>>), num(10)>>))>>)>>,
       Call("m-lam", <<HOLE>>), FALSE),
     Entry("lambda-rest-binder",
       <<DefSyn("mm", << >>,
          <<Rule(Pat(<<y("x")>>),
                 L(<<Sl(<<y("lambda"), Scons(<<y("p")>>, y("rest")), Call("list", <<y("x"), y("p"), y("rest")>>)>>),
                     num(1), num(2), num(3)>>))>>)>>,
       Call("mm", <<HOLE>>), FALSE),
     Entry("idef-binder",
       <<DefSyn("m-idef", << >>,
          <<Rule(Pat(<<y("x")>>),
                 Sl(<<y("let"), Nil0, Call("define", <<y("y"), num(10)>>), Call("list", <<y("x"), y("y")>>)>>))>>)>>,
       Call("m-idef", <<HOLE>>), FALSE),
     Entry("named-let-binder",
       <<DefSyn("rep", << >>, <<Rule(Pat(<<y("n"), y("body")>>), LoopT(y("i"), num(0), y("n"), y("body")))>>)>>,
       Call("rep", <<num(2), HOLE>>), FALSE),
     Entry("letstar-binder",
       <<DefSyn("m-lets", << >>,
          <<Rule(Pat(<<y("x")>>),
                 Sl(<<y("let*"), L(<<L(<<y("y"), num(1)>>), L(<<y("z"), Call("+", <<y("y"), num(1)>>)>>)>>),
                      Call("list", <<y("x"), y("y"), y("z")>>)>>))>>)>>,
       Call("m-lets", <<HOLE>>), FALSE),
     Entry("letrec-binder",
       <<DefSyn("m-rec", << >>, <<Rule(Pat(<<y("x")>>), EvOd)>>)>>,
       Call("m-rec", <<HOLE>>), FALSE),
     Entry("for-loop",
       <<DefSyn("my-for", << >>,
          <<Rule(Pat(<<L(<<y("v"), y("lo"), y("hi")>>), y("body")>>), LoopT(y("v"), y("lo"), y("hi"), y("body")))>>)>>,
       Call("my-for", <<L(<<y("k"), num(0), num(2)>>), Call("list", <<y("k"), HOLE>>)>>), FALSE),
     Entry("for-loop-user-acc",
       <<DefSyn("my-for", << >>,
          <<Rule(Pat(<<L(<<y("v"), y("lo"), y("hi")>>), y("body")>>), LoopT(y("v"), y("lo"), y("hi"), y("body")))>>)>>,
       Call("my-for", <<L(<<y("acc"), num(0), num(2)>>), Call("list", <<y("acc"), HOLE>>)>>), FALSE),
     Entry("do-loop",
       <<DefSyn("m-do", << >>,
          <<Rule(Pat(<<y("n"), y("body")>>),
                 Sl(<<y("let"), L(<<L(<<y("i"), num(0)>>), L(<<y("out"), q(Nil0)>>)>>),
                      Sl(<<y("let"), y("loop"), Nil0,
                           Sl(<<y("when"), Call("<", <<y("i"), y("n")>>),
                                Call("set!", <<y("out"), Call("cons", <<y("body"), y("out")>>)>>),
                                Call("set!", <<y("i"), Call("+", <<y("i"), num(1)>>)>>),
                                Call("loop", << >>)>>)>>),
                      y("out")>>))>>)>>,
       Call("m-do", <<num(2), HOLE>>), FALSE),
     Entry("free-global",
       <<Sl(<<y("define"), Scons(<<y("helper")>>, y("xs")), Call("cons", <<q(y("hlp")), y("xs")>>)>>),
         Call("define", <<y("gv"), num(42)>>),
         DefSyn("use-g2", << >>, <<Rule(Pat(<<A>>), Call("helper", <<A, y("gv")>>))>>)>>,
       Call("use-g2", <<HOLE>>), FALSE),
     Entry("free-macro",
       <<DefSyn("m-inner", << >>, <<Rule(Pat(<<y("x")>>), Call("cons", <<q(y("inner")), y("x")>>))>>),
         DefSyn("m-outer", << >>, <<Rule(Pat(<<y("x")>>), Call("m-inner", <<y("x")>>))>>)>>,
       Call("m-outer", <<HOLE>>), FALSE),
     Entry("nested-same-binder",
       <<DefSyn("m-i2", << >>, <<Rule(Pat(<<y("x")>>), Let1(y("y"), num(1), Call("+", <<y("x"), y("y")>>)))>>),
         DefSyn("m-o2", << >>,
           <<Rule(Pat(<<y("x")>>), Let1(y("y"), num(100), Call("m-i2", <<Call("+", <<y("x"), y("y")>>)>>)))>>)>>,
       Call("m-o2", <<Sl(<<y("if"), HOLE, num(1000), num(0)>>)>>), FALSE),
     Entry("recursive-acc",
       <<DefSyn("sum-acc", << >>,
          << Rule(Pat(<<y("e")>>), y("e")),
             Rule(Pat(<<y("e"), y("k"), y("r"), DOTS>>),
                  Let1(y("t"), y("k"), Call("sum-acc", <<Call("+", <<y("e"), y("t")>>), y("r"), DOTS>>))) >>)>>,
       Call("sum-acc", <<Sl(<<y("if"), HOLE, num(0), num(0)>>), num(1), num(2)>>), FALSE),
     Entry("macro-defining-const",
       <<DefSyn("defk", << >>,
          <<Rule(Pat(<<y("name"), y("v")>>), DefSyn("name", << >>, <<Rule(Pat(<< >>), y("v"))>>))>>),
         Call("defk", <<y("gen"), num(5)>>)>>,
       Call("list", <<Call("gen", << >>), HOLE>>), FALSE),
     Entry("macro-defining-binder",
       <<DefSyn("defm", << >>,
          <<Rule(Pat(<<y("name"), y("v")>>),
                 DefSyn("name", << >>,
                   <<Rule(Pat(<<y("x")>>), Let1(y("tmp"), y("v"), Call("list", <<y("x"), y("tmp")>>)))>>))>>),
         Call("defm", <<y("gen"), num(5)>>)>>,
       Call("gen", <<HOLE>>), FALSE),
     Entry("literals-arrow", <<MyCond>>,
       Call("my-cond", <<L(<<Sbool(FALSE), num(1)>>), L(<<HOLE, y("=>"), y("list")>>), L(<<y("else"), num(9)>>)>>), FALSE),
     Entry("literals-else", <<MyCond>>,
       Call("my-cond", <<L(<<Sbool(FALSE), num(1)>>), L(<<y("else"), HOLE>>)>>), FALSE),
     Entry("body-define-user-name",
       <<DefSyn("def-it", << >>, <<Rule(Pat(<<y("n"), y("v")>>), Call("define", <<y("n"), y("v")>>))>>)>>,
       Sl(<<y("let"), Nil0, Call("def-it", <<y("w"), HOLE>>), Call("list", <<y("w")>>)>>), FALSE),
     Entry("body-define-introduced",
       <<DefSyn("def-tmp", << >>, <<Rule(Pat(<<y("v")>>), Call("define", <<y("tmp"), y("v")>>))>>)>>,
       Sl(<<y("let"), Nil0, Call("def-tmp", <<num(5)>>), HOLE>>), FALSE),
     Entry("body-begin-defines",
       <<DefSyn("m-two", << >>,
          <<Rule(Pat(<<y("v"), y("e")>>),
                 Sl(<<y("begin"), Call("define", <<y("tmp"), y("v")>>),
                      Sl(<<y("define"), L(<<y("get")>>), y("tmp")>>),
                      Call("list", <<Call("get", << >>), y("e")>>)>>))>>)>>,
       Sl(<<y("let"), Nil0, Call("m-two", <<num(5), HOLE>>)>>), FALSE),
     Entry("ellipsis-binders",
       <<DefSyn("wrap", << >>,
          <<Rule(Pat(<<L(<<y("v"), y("e")>>), DOTS, y("body")>>),
                 Sl(<<Sl(<<y("lambda"), L(<<y("v"), DOTS>>), y("body")>>), y("e"), DOTS>>))>>)>>,
       Call("wrap", <<L(<<y("p"), num(1)>>), L(<<y("tmp"), HOLE>>), Call("list", <<y("p"), y("tmp")>>)>>), FALSE),
     Entry("toplevel-define-user-name",
       <<DefSyn("def-it", << >>, <<Rule(Pat(<<y("n"), y("v")>>), Call("define", <<y("n"), y("v")>>))>>),
         Call("def-it", <<y("gv"), num(41)>>)>>,
       Call("list", <<y("gv"), HOLE>>), FALSE),
     Entry("toplevel-define-function",
       <<DefSyn("def-fn", << >>,
          <<Rule(Pat(<<y("name")>>), Sl(<<y("define"), L(<<y("name"), y("x")>>), Call("list", <<y("x"), q(y("ok"))>>)>>))>>),
         Call("def-fn", <<y("helper")>>)>>,
       Call("helper", <<HOLE>>), FALSE),
     Entry("patvar-named-like-builtin",
       <<DefSyn("m-pv", << >>, <<Rule(Pat(<<y("list"), y("x")>>), Call("cons", <<y("x"), y("list")>>))>>)>>,
       Call("m-pv", <<q(L(<<num(1)>>)), HOLE>>), FALSE),
     Entry("patvar-named-like-keyword",
       <<DefSyn("m-pk", << >>, <<Rule(Pat(<<y("when")>>), Call("list", <<y("when")>>))>>)>>,
       Call("m-pk", <<HOLE>>), FALSE),
     Entry("binder-named-like-builtin",
       <<DefSyn("m-bb", << >>, <<Rule(Pat(<<y("x")>>), Let1(y("car"), y("x"), Call("list", <<y("car")>>)))>>)>>,
       Call("m-bb", <<HOLE>>), FALSE),
     Entry("operator-position",
       <<DefSyn("m-op", << >>, <<Rule(Pat(<< >>), Sl(<<y("lambda"), L(<<y("y")>>), Call("list", <<y("y")>>)>>))>>)>>,
       L(<<Call("m-op", << >>), HOLE>>), FALSE),
     Entry("set-global",
       <<Call("define", <<y("gv"), num(1)>>),
         DefSyn("m-set", << >>, <<Rule(Pat(<<A>>), Sl(<<y("begin"), Call("set!", <<y("gv"), A>>), y("gv")>>))>>)>>,
       Call("m-set", <<HOLE>>), FALSE),
     Entry("recursive-letstar",
       <<DefSyn("my-let*", << >>,
          << Rule(Pat(<<Nil0, y("body")>>), y("body")),
             Rule(Pat(<<L(<<L(<<y("v"), y("e")>>), y("r"), DOTS>>), y("body")>>),
                  Let1(y("v"), y("e"), Call("my-let*", <<L(<<y("r"), DOTS>>), y("body")>>))) >>)>>,
       Call("my-let*", <<L(<<L(<<y("p"), num(1)>>), L(<<y("w"), Call("+", <<y("p"), num(1)>>)>>)>>),
                         Call("list", <<y("p"), y("w"), HOLE>>)>>), FALSE)
  >>

\* free references of the template NESTED INSIDE THE OPERANDS OF ANOTHER MACRO the template uses (a derived keyword
\* or a user macro, one or two levels): they reach the expander as part of a matched sub-form of that inner macro,
\* and must still denote the definition-site global (procedure `helper`, variable `gv`)
WrapKinds == <<"when", "unless", "and", "or", "cond", "let*", "begin", "user", "user-user", "user-ellipsis">>
WrapT(w, e) == CASE w = "when"   -> Sl(<<y("when"), Sbool(TRUE), e>>)
                 [] w = "unless" -> Sl(<<y("unless"), Sbool(FALSE), e>>)
                 [] w = "and"    -> Sl(<<y("and"), Sbool(TRUE), e>>)
                 [] w = "or"     -> Sl(<<y("or"), Sbool(FALSE), e>>)
                 [] w = "cond"   -> Sl(<<y("cond"), L(<<Sbool(FALSE), num(1)>>), L(<<y("else"), e>>)>>)
                 [] w = "let*"   -> Sl(<<y("let*"), L(<<L(<<y("w0"), num(1)>>)>>), e>>)
                 [] w = "begin"  -> Sl(<<y("begin"), num(0), e>>)
                 [] w = "user"   -> Call("m-id", <<e>>)
                 [] w = "user-user" -> Call("m-id", <<Call("m-id", <<e>>)>>)
                 [] w = "user-ellipsis" -> Call("m-last", <<num(0), e>>)
WrapEntry(w) ==
  Entry("free-global-in-" \o w,
        <<Sl(<<y("define"), Scons(<<y("helper")>>, y("xs")), Call("cons", <<q(y("hlp")), y("xs")>>)>>),
          Call("define", <<y("gv"), num(42)>>),
          DefSyn("m-id", << >>, <<Rule(Pat(<<y("x")>>), y("x"))>>),
          DefSyn("m-last", << >>, <<Rule(Pat(<<y("x"), DOTS, y("z")>>), Sl(<<y("begin"), y("x"), DOTS, y("z")>>))>>),
          DefSyn("use-g3", << >>, <<Rule(Pat(<<A>>), WrapT(w, Call("helper", <<A, y("gv")>>)))>>)>>,
        Call("use-g3", <<HOLE>>), FALSE)
WrapEntries == [i \in 1..Len(WrapKinds) |-> WrapEntry(WrapKinds[i])]

Lib == CoreEntries \o BuiltinEntries \o KwEntries \o WrapEntries
\* entries whose macro names are pairwise distinct and whose hole is an expression: nesting family
NestIdx == {i \in 1..Len(CoreEntries) : ~CoreEntries[i].argvar
                                        /\ CoreEntries[i].tag \notin {"for-loop-user-acc", "literals-else",
                                                                       "macro-defining-const",
                                                                       "dotted-params-through-patvar",
                                                                       "toplevel-define-user-name",
                                                                       "toplevel-define-function", "set-global"}}

RECURSIVE IdNames(_), IdNamesSeq(_)
IdNames(f) == IF IsId(f) THEN {f.n}
              ELSE IF Listy(f) THEN IdNamesSeq(f.es) \cup (IF f.k = "dot" THEN IdNames(f.tl) ELSE {})
              ELSE {}
IdNamesSeq(fs) == IF fs = << >> THEN {} ELSE IdNames(fs[1]) \cup IdNamesSeq(Tail(fs))

RECURSIVE Subst(_, _), SubstSeq(_, _)
Subst(f, x) == IF f = HOLE THEN x
               ELSE IF f.k = "list" THEN Sl(SubstSeq(f.es, x))
               ELSE IF f.k = "dot" THEN Scons(SubstSeq(f.es, x), Subst(f.tl, x))
               ELSE f
SubstSeq(fs, x) == [i \in 1..Len(fs) |-> Subst(fs[i], x)]

\* spellings the use site may bind: every identifier spelled anywhere in the definitions
\* (binders and free identifiers of templates, pattern variables, literals, macro names),
\* minus what cannot be bound (H1) and syntax-rules' own punctuation
Unbindable == Reserved \cup {"syntax-rules", "_", "...", "$"}
Names(e) == IdNamesSeq(e.defs) \ Unbindable
MacroNames(e) == {e.defs[i].es[2].n : i \in {j \in 1..Len(e.defs) : HeadIs(e.defs[j], "define-syntax")}}
                 \cup (IF \E i \in 1..Len(e.defs) : HeadIs(e.defs[i], "defk") \/ HeadIs(e.defs[i], "defm")
                       THEN {"gen"} ELSE {})
\* how the spelling n relates to the definitions (mns = macro names they define): the tag carries it
Rel(mns, n) == IF n \in PrimNames THEN "builtin"
               ELSE IF n \in DerivedKw THEN "keyword"
               ELSE IF n \in mns THEN "macro"
               ELSE IF n \in {"helper", "gv"} THEN "global"
               ELSE "local"

(* 6b. Use-site contexts: how the user binds the spelling N around the use *)
AllCtxs == {"none", "let", "lambda", "idef", "let*", "letrec", "nlet", "ifn", "fnparam"}
ValOf(v) == IF v = "num" THEN num(7)
            ELSE Sl(<<y("lambda"), y("args"), q(y("shadowed"))>>)
Ctx(cx, N, V, body) ==
  CASE cx = "none"   -> body
    [] cx = "let"    -> Sl(<<y("let"), L(<<L(<<y(N), V>>)>>), body>>)
    [] cx = "lambda" -> L(<<Sl(<<y("lambda"), L(<<y(N)>>), body>>), V>>)
    [] cx = "idef"   -> Sl(<<y("let"), Nil0, Call("define", <<y(N), V>>), body>>)
    [] cx = "let*"   -> Sl(<<y("let*"), L(<<L(<<y(N), V>>)>>), body>>)
    [] cx = "letrec" -> Sl(<<y("letrec"), L(<<L(<<y(N), V>>)>>), body>>)
    [] cx = "nlet"   -> Sl(<<y("let"), y("lp0"), L(<<L(<<y(N), V>>)>>), body>>)
    [] cx = "ifn"    -> Sl(<<y("let"), Nil0, Sl(<<y("define"), L(<<y("g0"), y(N)>>), body>>), Call("g0", <<V>>)>>)

EmitF(x) == Call("emit", <<x>>)
Units(defs, N, V, cx, use, pl) ==
  IF cx = "fnparam"
    THEN LET d == Sl(<<y("define"), L(<<y("fn1"), y(N)>>), use>>)
             u == EmitF(Call("fn1", <<V>>))
         IN IF pl = "same" THEN <<defs \o <<d, u>>>> ELSE <<defs, <<d>>, <<u>>>>
    ELSE LET b == Ctx(cx, N, V, use) IN
         CASE pl = "later"  -> <<defs, <<EmitF(b)>>>>
           [] pl = "same"   -> <<defs \o <<EmitF(b)>>>>
           [] pl = "fnbody" -> <<defs, <<Sl(<<y("define"), L(<<y("fn0")>>), b>>)>>, <<EmitF(Call("fn0", << >>))>>>>

ArgOf(arg, N) == IF arg = "N" THEN y(N) ELSE num(5)

HygParams ==
  UNION {{[fam |-> "hyg", e |-> e, n |-> n, v |-> v, cx |-> cx, arg |-> arg, pl |-> pl] :
            n \in Names(Lib[e]), v \in VALS, cx \in CTXS, arg \in {"N", "const"}, pl \in PLACES} :
         e \in 1..Len(Lib)}
HygValid(p) ==
  /\ (p.arg = "N" => p.cx # "none")
  /\ (Lib[p.e].argvar => p.arg = "N")
  /\ (p.cx = "none" => p.n = CHOOSE x \in Names(Lib[p.e]) : TRUE)      \* N is irrelevant without a binder
  /\ (p.cx = "none" => p.v = CHOOSE x \in VALS : TRUE)
  /\ (p.cx = "fnparam" => p.pl # "fnbody")

NestParams ==
  IF ~NEST THEN {}
  ELSE UNION {{[fam |-> "nest", e |-> e, e2 |-> e2, n |-> n, v |-> "num", cx |-> "let", arg |-> arg, pl |-> "later"] :
                 n \in Names(Lib[e]) \cup Names(Lib[e2]), arg \in {"N", "const"}} :
              e \in NestIdx, e2 \in NestIdx}
NestValid(p) == p.e # p.e2 => MacroNames(Lib[p.e]) \cap MacroNames(Lib[p.e2]) = {}

HygProgram(p) ==
  LET e == Lib[p.e] IN
  IF p.fam = "hyg"
    THEN Units(e.defs, p.n, ValOf(p.v), p.cx, Subst(e.use, ArgOf(p.arg, p.n)), p.pl)
    ELSE LET e2 == Lib[p.e2]
             defs == IF p.e = p.e2 THEN e.defs ELSE e.defs \o e2.defs
         IN Units(defs, p.n, ValOf(p.v), p.cx, Subst(e.use, Subst(e2.use, ArgOf(p.arg, p.n))), p.pl)
HygTag(p) ==
  LET e == Lib[p.e] IN
  (IF p.fam = "hyg" THEN "hyg/" \o e.tag ELSE "nest/" \o e.tag \o "+" \o Lib[p.e2].tag)
  \o "/N=" \o p.n \o "/rel=" \o (IF p.cx = "none" THEN "none"
                                     ELSE Rel(MacroNames(e) \cup (IF p.fam = "nest" THEN MacroNames(Lib[p.e2]) ELSE {}), p.n))
  \o "/V=" \o p.v \o "/cx=" \o p.cx \o "/arg=" \o p.arg \o "/pl=" \o p.pl

(* 6c. Matcher family: pattern grammar x input grammar.  The template is     *)
(*     derived from the pattern and quotes every pattern variable with its   *)
(*     ellipsis structure, so the emitted datum IS the binding the matcher   *)
(*     computed; a use no rule matches must be a syntax error.               *)
AllElemKinds == {"v", "u", "k", "c", "l2", "le", "lbe", "ld", "lde"}
AllInKinds == {"1", "x", "k", "7", "l0", "l1", "l2", "l3", "ll", "d", "d3", "lk"}
SeqsUpTo(S, n) == UNION {[1..m -> S] : m \in 0..n}
PV(i) == y("p" \o ToString(i))
QV(i) == y("q" \o ToString(i))
KW == y("kw")
PElem(kind, i) ==
  CASE kind = "v" -> PV(i)                          \* variable
    [] kind = "u" -> US                             \* underscore
    [] kind = "k" -> KW                             \* literal
    [] kind = "c" -> num(7)                         \* constant
    [] kind = "l2" -> L(<<PV(i), QV(i)>>)           \* (p q)
    [] kind = "le" -> L(<<PV(i), DOTS>>)            \* (p ...)
    [] kind = "lbe" -> L(<<PV(i), QV(i), DOTS>>)    \* (p q ...)
    [] kind = "ld" -> Scons(<<PV(i)>>, QV(i))       \* (p . q)
    [] kind = "lde" -> Scons(<<PV(i), DOTS>>, QV(i)) \* (p ... . q)
Frag(kind, i) ==     \* how the template shows what the element bound (0 or 1 forms)
  CASE kind = "v" -> <<PV(i)>>
    [] kind \in {"u", "k", "c"} -> << >>
    [] kind = "l2" -> <<L(<<QV(i), PV(i)>>)>>
    [] kind = "le" -> <<L(<<PV(i), DOTS>>)>>
    [] kind = "lbe" -> <<L(<<QV(i), DOTS, PV(i)>>)>>
    [] kind = "ld" -> <<L(<<QV(i), PV(i)>>)>>
    [] kind = "lde" -> <<L(<<QV(i), PV(i), DOTS>>)>>
\* pt = [pe |-> sequence of element kinds, ell |-> index of the element followed by `...` (0: none),
\*       ptl |-> dotted tail variable r]
RECURSIVE PatElems(_, _), PatFrags(_, _)
PatElems(pt, i) == IF i > Len(pt.pe) THEN << >>
                   ELSE <<PElem(pt.pe[i], i)>> \o (IF pt.ell = i THEN <<DOTS>> ELSE << >>) \o PatElems(pt, i + 1)
PatFrags(pt, i) == IF i > Len(pt.pe) THEN << >>
                   ELSE (IF pt.ell = i
                           THEN (IF Frag(pt.pe[i], i) = << >> THEN << >> ELSE <<L(Frag(pt.pe[i], i) \o <<DOTS>>)>>)
                           ELSE Frag(pt.pe[i], i))
                        \o PatFrags(pt, i + 1)
PatRule(pt, tagsym) ==
  Rule(Scons(<<US>> \o PatElems(pt, 1), IF pt.ptl THEN y("r") ELSE Nil0),
       q(L(<<y(tagsym)>> \o PatFrags(pt, 1) \o (IF pt.ptl THEN <<y("r")>> ELSE << >>))))
InElem(kind) ==
  CASE kind = "1" -> num(1)  [] kind = "x" -> y("x")  [] kind = "k" -> KW  [] kind = "7" -> num(7)
    [] kind = "l0" -> Nil0
    [] kind = "l1" -> L(<<num(1)>>)
    [] kind = "l2" -> L(<<num(1), num(2)>>)
    [] kind = "l3" -> L(<<num(1), num(2), num(3)>>)
    [] kind = "ll" -> L(<<L(<<num(1), num(2)>>), L(<<num(3)>>)>>)
    [] kind = "d" -> Scons(<<num(1)>>, num(2))
    [] kind = "d3" -> Scons(<<num(1), num(2)>>, num(3))
    [] kind = "lk" -> L(<<KW, num(1)>>)
InUse(ie, itl) == Scons(<<y("mm")>> \o [i \in 1..Len(ie) |-> InElem(ie[i])], IF itl THEN num(9) ELSE Nil0)

PatSet == {[pe |-> pe, ell |-> ell, ptl |-> ptl] :
             pe \in SeqsUpTo(ELEMKINDS, PATLEN), ell \in 0..PATLEN, ptl \in BOOLEAN}
PatValid(pt) == pt.ell <= Len(pt.pe)
\* sh: the use is inside (let ((kw 0)) ...): the user has shadowed the literal
MatchValid(p) == p.sh => (\E i \in 1..Len(p.pt.pe) : p.pt.pe[i] = "k") /\ (\E i \in 1..Len(p.ie) : p.ie[i] \in {"k", "lk"})

\* first matching rule wins: two rules from a fixed list of overlapping patterns
PairPats == << [pe |-> << >>, ell |-> 0, ptl |-> FALSE],
               [pe |-> <<"v">>, ell |-> 0, ptl |-> FALSE],
               [pe |-> <<"k">>, ell |-> 0, ptl |-> FALSE],
               [pe |-> <<"c">>, ell |-> 0, ptl |-> FALSE],
               [pe |-> <<"v">>, ell |-> 1, ptl |-> FALSE],
               [pe |-> <<"l2">>, ell |-> 0, ptl |-> FALSE],
               [pe |-> <<"le">>, ell |-> 0, ptl |-> FALSE],
               [pe |-> <<"v", "v">>, ell |-> 0, ptl |-> FALSE],
               [pe |-> <<"v", "v">>, ell |-> 1, ptl |-> FALSE],
               [pe |-> <<"k", "v">>, ell |-> 0, ptl |-> FALSE],
               [pe |-> <<"ld">>, ell |-> 0, ptl |-> FALSE],
               [pe |-> <<"v">>, ell |-> 0, ptl |-> TRUE],
               [pe |-> << >>, ell |-> 0, ptl |-> TRUE],
               [pe |-> <<"l2">>, ell |-> 1, ptl |-> FALSE] >>
MatchProgram(p) ==
  LET rules == IF p.fam = "match" THEN <<PatRule(p.pt, "r1")>>
               ELSE <<PatRule(PairPats[p.a], "r1"), PatRule(PairPats[p.b], "r2")>>
      use == EmitF(InUse(p.ie, p.itl))
  IN << <<DefSyn("mm", <<KW>>, rules)>>,
        <<IF p.fam = "match" /\ p.sh THEN Let1(KW, num(0), use) ELSE use>> >>
MatchTag(p) == IF p.fam = "match"
                 THEN "match/ell=" \o ToString(p.pt.ell) \o "/ptl=" \o ToString(p.pt.ptl)
                      \o "/itl=" \o ToString(p.itl) \o "/sh=" \o ToString(p.sh)
                 ELSE "pair/" \o ToString(p.a) \o "-" \o ToString(p.b) \o "/itl=" \o ToString(p.itl)

(* 6d. Interference family.  Shapes share the spellings v, a, k.  A shape is *)
(*     [tag, lits, rules, uses]; uses are operand lists.                     *)
Vv == y("v")
Kk == y("k")
Shape(tag, lits, rules, uses) == [tag |-> tag, lits |-> lits, rules |-> rules, uses |-> uses]
N12 == L(<<num(1), num(2)>>)
N123 == L(<<num(1), num(2), num(3)>>)
Q89 == q(L(<<num(8), num(9)>>))
L89 == L(<<num(8), num(9)>>)
Shapes ==
  << \* v plain, a ellipsis; v is used INSIDE the ellipsis sub-template next to a
     Shape("v0-a1", << >>,
           <<Rule(Pat(<<Vv, L(<<A, DOTS>>)>>), Sl(<<y("list"), Call("cons", <<Vv, A>>), DOTS>>))>>,
           << <<num(7), N12>>, <<Q89, N12>>, <<Call("list", <<num(8), num(9), num(10)>>), N12>>, <<Q89, Nil0>> >>),
     \* roles swapped: a plain, v ellipsis
     Shape("a0-v1", << >>,
           <<Rule(Pat(<<A, L(<<Vv, DOTS>>)>>), Sl(<<y("list"), Call("cons", <<A, Vv>>), DOTS>>))>>,
           << <<num(7), N12>>, <<Q89, N123>> >>),
     \* both ellipsis variables, zipped
     Shape("v1-a1", << >>,
           <<Rule(Pat(<<L(<<Vv, DOTS>>), L(<<A, DOTS>>)>>), Sl(<<y("list"), Call("cons", <<Vv, A>>), DOTS>>))>>,
           << <<N12, L(<<num(3), num(4)>>)>>, <<Nil0, Nil0>>, <<L(<<Q89, num(5)>>), L(<<num(3), num(4)>>)>> >>),
     \* v depth 1, a depth 2
     Shape("v1-a2", << >>,
           <<Rule(Pat(<<L(<<Vv, A, DOTS>>), DOTS>>), q(L(<<L(<<A, DOTS, Vv>>), DOTS>>)))>>,
           << <<N123, L(<<num(4)>>)>>, <<L(<<L(<<y("x"), y("y")>>), num(2)>>), L(<<num(5), num(6)>>)>>, << >> >>),
     \* v depth 0 repeated inside a's ellipsis, quoted
     Shape("v0-a1q", << >>,
           <<Rule(Pat(<<Vv, A, DOTS>>), q(L(<<Vv, L(<<A, Vv>>), DOTS>>)))>>,
           << <<num(7), num(1), num(2)>>, <<L89, num(1), num(2)>>, <<L89>> >>),
     \* v is a LITERAL here
     Shape("v-lit", <<Vv>>,
           <<Rule(Pat(<<Vv, A>>), Call("list", <<q(y("lit")), A>>)),
             Rule(Pat(<<Kk, A>>), Call("list", <<Kk, A>>))>>,
           << <<Vv, num(1)>>, <<num(7), num(1)>>, <<Q89, num(2)>> >>),
     \* a is a LITERAL here, v an ellipsis variable
     Shape("a-lit-v1", <<A>>,
           <<Rule(Pat(<<A, Vv, DOTS>>), q(L(<<y("lit-a"), Vv, DOTS>>))),
             Rule(Pat(<<Kk, Vv, DOTS>>), q(L(<<y("other"), Kk, Vv, DOTS>>)))>>,
           << <<A, num(1), num(2)>>, <<num(5), N12, num(3)>> >>),
     \* v depth 2, a depth 0
     Shape("v2-a0", << >>,
           <<Rule(Pat(<<L(<<L(<<Vv, DOTS>>), DOTS>>), A>>), q(L(<<A, L(<<Vv, DOTS>>), DOTS>>)))>>,
           << <<L(<<N12, L(<<num(3)>>)>>), num(7)>>, <<Nil0, L89>>, <<L(<<L(<<y("x")>>)>>), y("a")>> >>),
     \* no ellipsis at all; the last use has the wrong shape (syntax error)
     Shape("v0-a0", << >>,
           <<Rule(Pat(<<Vv, A>>), Call("list", <<Vv, A>>))>>,
           << <<num(7), num(1)>>, <<Q89, q(N12)>>, <<num(1)>> >>),
     \* v depth 0 inside a depth-2 sub-template
     Shape("v0-a2", << >>,
           <<Rule(Pat(<<Vv, L(<<A, DOTS>>), DOTS>>), q(L(<<L(<<L(<<Vv, A>>), DOTS>>), DOTS>>)))>>,
           << <<num(7), N12, L(<<num(3)>>)>>, <<L89, N12, Nil0>> >>) >>

AllHists == {"sep", "one", "late", "pack", "expr", "rep", "redef"}
\* dA dB: definitions, uA uB: (emit use); UA UB: the bare uses
IntfUnits(h, dA, dB, UA, UB) ==
  LET uA == EmitF(UA)
      uB == EmitF(UB) IN
  CASE h = "sep"  -> << <<dA>>, <<dB>>, <<uB>>, <<uA>>, <<uB>> >>
    [] h = "one"  -> << <<dA, dB, uB, uA, uB>> >>
    [] h = "late" -> << <<dA>>, <<uA>>, <<dB>>, <<uB>>, <<uA>>, <<uB>> >>
    [] h = "pack" -> << <<dA, dB>>, <<uB, uA>>, <<uA, uB>> >>
    [] h = "expr" -> << <<dA>>, <<dB>>, <<EmitF(Call("list", <<UB, UA, UB>>))>>, <<uA>> >>
    [] h = "rep"  -> << <<dB>>, <<dA>>, <<uA, uA>>, <<uB>>, <<uB, uA, uB>>, <<uA>> >>
    \* "redef": B's rules REPLACE A's under the same keyword ia (dB and UB are built with that name)
    [] h = "redef" -> << <<dA>>, <<uA>>, <<dB>>, <<uB>>, <<uB>> >>
\* which use each emit of each unit observes
IntfLabels(h) ==
  CASE h = "sep"  -> << << >>, << >>, <<"B">>, <<"A">>, <<"B">> >>
    [] h = "one"  -> << <<"B", "A", "B">> >>
    [] h = "late" -> << << >>, <<"A">>, << >>, <<"B">>, <<"A">>, <<"B">> >>
    [] h = "pack" -> << << >>, <<"B", "A">>, <<"A", "B">> >>
    [] h = "expr" -> << << >>, << >>, <<"BAB">>, <<"A">> >>
    [] h = "rep"  -> << << >>, << >>, <<"A", "A">>, <<"B">>, <<"B", "A", "B">>, <<"A">> >>
    [] h = "redef" -> << << >>, <<"A">>, << >>, <<"B">>, <<"B">> >>
IntfProgram(p) ==
  LET sa == Shapes[p.sa]
      sb == Shapes[p.sb]
      nb == IF p.h = "redef" THEN "ia" ELSE "ib" IN
  IntfUnits(p.h, DefSyn("ia", sa.lits, sa.rules), DefSyn(nb, sb.lits, sb.rules),
            Sl(<<y("ia")>> \o sa.uses[p.ua]), Sl(<<y(nb)>> \o sb.uses[p.ub]))
IntfTag(p) == "intf/" \o p.h \o "/" \o Shapes[p.sa].tag \o "+" \o Shapes[p.sb].tag
              \o "/ua=" \o ToString(p.ua) \o "/ub=" \o ToString(p.ub)

Program(p) == IF p.fam \in {"hyg", "nest"} THEN HygProgram(p)
              ELSE IF p.fam = "intf" THEN IntfProgram(p) ELSE MatchProgram(p)
TagOf(p)   == IF p.fam \in {"hyg", "nest"} THEN HygTag(p)
              ELSE IF p.fam = "intf" THEN IntfTag(p) ELSE MatchTag(p)

-----------------------------------------------------------------------------
(* 7. Top-level state machine.  phase = "expand": source unit hui is being   *)
(* processed form by form; finished units are appended to Lang's `units`;    *)
(* then phase = "run" hands over to Lang's machine.                          *)
\* (nested quantifiers rather than one big set: TLC enumerates them without building the product)
HInit ==
  /\ \/ \E p \in HygParams : HygValid(p) /\ hc = p
     \/ \E p \in NestParams : NestValid(p) /\ hc = p
     \/ \E pt \in PatSet : \E ie \in SeqsUpTo(INKINDS, INLEN) : \E itl, sh \in BOOLEAN :
           LET p == [fam |-> "match", pt |-> pt, ie |-> ie, itl |-> itl, sh |-> sh] IN
           PatValid(pt) /\ MatchValid(p) /\ hc = p
     \/ PAIRS /\ \E a, b \in 1..Len(PairPats) : \E ie \in SeqsUpTo(INKINDS, INLEN) : \E itl \in BOOLEAN :
           hc = [fam |-> "pair", a |-> a, b |-> b, ie |-> ie, itl |-> itl]
     \/ \E h \in INTF : \E sa, sb \in 1..Len(Shapes) :
           \E ua \in 1..Len(Shapes[sa].uses) : \E ub \in 1..Len(Shapes[sb].uses) :
             hc = [fam |-> "intf", h |-> h, sa |-> sa, sb |-> sb, ua |-> ua, ub |-> ub]
  /\ hui = 0 /\ todo = << >> /\ cur = << >> /\ macros = [n \in {} |-> 0] /\ ctr = 0 /\ synerr = << >>
  /\ phase = "expand" /\ bstack = << >> /\ nodes = 0 /\ units = << >> /\ InitCommon

LangKeep == UNCHANGED <<bstack, nodes, ui, fi, mode, ctrl, env, store, kont, winders, genv, out, outcome,
                        lastval, fuel>>
NoBd == {}      \* no local binders at top level

\* load the next source unit
BeginUnit ==
  /\ phase = "expand" /\ todo = << >> /\ hui = Len(units) /\ hui < Len(Program(hc))
  /\ hui' = hui + 1 /\ todo' = Program(hc)[hui + 1] /\ cur' = << >>
  /\ ctr' = (IF ctr < 0 THEN 0 ELSE ctr)
  /\ UNCHANGED <<hc, macros, synerr, phase, units>> /\ LangKeep

\* one top-level form event
TopStep ==
  /\ phase = "expand" /\ todo # << >> /\ ctr >= 0
  /\ LET f == todo[1]
         d == HeadDeno(f, NoBd, macros)
     IN CASE d = "macro" ->          \* transcribe the use; the result is again a top-level form
               LET t == Transcribe(macros[f.es[1].n], f, NoBd, ctr + 1) IN
               IF t.ok THEN /\ todo' = <<t.f>> \o Tail(todo) /\ ctr' = ctr + 1 /\ UNCHANGED <<cur, macros>>
                       ELSE /\ ctr' = -1 /\ UNCHANGED <<todo, cur, macros>>
          [] d = "begin" -> /\ todo' = Tail(f.es) \o Tail(todo) /\ UNCHANGED <<cur, macros, ctr>>
          [] d = "define-syntax" ->
               IF IsDefSyntaxShape(f) /\ f.es[2].m = << >> /\ f.es[2].n \in GlobalNames      \* H6
                 THEN /\ macros' = [n \in (DOMAIN macros) \cup {f.es[2].n} |->
                                      IF n = f.es[2].n THEN MacroOf(f) ELSE macros[n]]
                      /\ todo' = Tail(todo) /\ UNCHANGED <<cur, ctr>>
                 ELSE /\ ctr' = -2 /\ UNCHANGED <<todo, cur, macros>>
          [] d = "define" ->
               IF DefineOK(f) /\ DefineId(f).m = << >>            \* H6
                 THEN LET r == XE(DefineRhs(f), NoBd, macros, ctr) IN
                      /\ cur' = Append(cur, Def(DefineId(f).n, r.a)) /\ ctr' = r.c
                      /\ todo' = Tail(todo) /\ UNCHANGED macros
                 ELSE /\ ctr' = -2 /\ UNCHANGED <<todo, cur, macros>>
          [] OTHER ->
               LET r == XE(f, NoBd, macros, ctr) IN
               /\ cur' = Append(cur, r.a) /\ ctr' = r.c /\ todo' = Tail(todo) /\ UNCHANGED macros
  /\ UNCHANGED <<hc, hui, synerr, phase, units>> /\ LangKeep

\* the unit is finished: either it expanded (its core forms become a Lang unit), or a syntax
\* error was reported: then nothing of the unit runs (H5) and the expected class is err
ErrUnit == <<App(Var("error"), <<C(SymV("syntax-error"))>>)>>
EndUnit ==
  /\ phase = "expand" /\ hui = Len(units) + 1 /\ (todo = << >> \/ ctr = -1) /\ ctr # -2
  /\ units' = Append(units, IF ctr = -1 THEN ErrUnit ELSE IF cur = << >> THEN <<C(Void)>> ELSE cur)
  /\ synerr' = Append(synerr, ctr = -1)
  /\ todo' = << >>
  /\ UNCHANGED <<hc, hui, cur, macros, ctr, phase>> /\ LangKeep

StartRun ==
  /\ phase = "expand" /\ todo = << >> /\ hui = Len(Program(hc)) /\ Len(units) = hui
  /\ phase' = "run"
  /\ UNCHANGED <<units>> /\ UNCHANGED hvars /\ LangKeep

HNext == BeginUnit \/ TopStep \/ EndUnit \/ StartRun \/ (NextRun /\ UNCHANGED hvars)
HSpec == HInit /\ [][HNext]_<<vars, hvars>>

-----------------------------------------------------------------------------
(* 8. Properties of the model itself, and the case line *)
\* every generated program is inside the modelled domain, and the machine never gives up on one
InDomain == ctr # -2 /\ phase # "discard"
\* a unit with a syntax error produces no output
SynErrSilent == \A i \in 1..Len(synerr) : (synerr[i] /\ i <= Len(out)) => out[i] = << >>
\* every global name the library defines is rendered with the per-case suffix
GlobalsSuffixed == \A i \in 1..Len(units) : \A j \in 1..Len(units[i]) :
                      units[i][j].k = "def" => units[i][j].n \in GlobalNames

\* the expected observation of a use does not depend on its position in the history
IntfConsistent ==
  (phase = "done" /\ hc.fam = "intf") =>
    LET labs == IntfLabels(hc.h)
        ok(i, j) == i \in 1..Len(units) /\ outcome[i] = "ok" /\ Len(out[i]) = Len(labs[i]) /\ j <= Len(labs[i])
        pairs == {<<labs[i][j], out[i][j]>> : <<i, j>> \in {x \in (1..Len(units)) \X (1..3) : ok(x[1], x[2])}}
    IN \A x, z \in pairs : x[1] = z[1] => x[2] = z[2]

RECURSIVE RsUnit(_)
RsUnit(fs) == Join([i \in 1..Len(fs) |-> Rs(fs[i])], " ")
HCase == [tag |-> TagOf(hc),
          units |-> [i \in 1..Len(units) |->
                       [src |-> RsUnit(Program(hc)[i]), class |-> outcome[i], emit |-> out[i]]]]
HEmit == (phase = "done") => PrintT(<<"REPLAY", ToJson(HCase)>>)
=============================================================================
