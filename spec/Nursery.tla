------------------------------ MODULE Nursery ------------------------------
(***************************************************************************)
(* Lent host references (C20, first half): "a host reference lent to a     *)
(* script for the duration of a call cannot be used after that call ends,  *)
(* even if the script stored it: later uses report an error".              *)
(*                                                                         *)
(*   steel_vm/engine.rs  Engine::with_mut_reference / with_immutable_reference,*)
(*                       LifetimeGuard::{with_*_reference, consume, consume_once,*)
(*                       drop}, run_with_reference                         *)
(*   gc.rs               unsafe_erased_pointers::OpaqueReferenceNursery    *)
(*                       {memory, weak_values} (thread local), allocate_rw/*)
(*                       ro_object, drain_weak_references_to_steelvals,    *)
(*                       free_n; BorrowedObject {child_borrow_flag,        *)
(*                       borrow_count}, ReadOnlyBorrowedObject             *)
(*   steel_vm/register_fn.rs  the `&mut SELF -> &mut RET / &RET` shapes    *)
(*                       (derived references, TemporaryObject)             *)
(*                                                                         *)
(* The module is an explicit state machine with two layers.                *)
(*                                                                         *)
(* HOST / SCRIPT layer (the semantics, used as ORACLE).  The embedder owns *)
(* objects A, B and up to two engines.  Host actions, restricted to what   *)
(* safe Rust admits (a guard holds `&mut Engine`; `&mut obj` excludes every*)
(* other loan of obj, `&obj` may be shared):                               *)
(*    HOpen   create a guard lending 1..2 objects (mut or read-only)       *)
(*    HEnter  consume the guard: the script gets one HANDLE per lent       *)
(*            object (global r<g>_<k>); the following actions run INSIDE   *)
(*            the lending call; guards may nest (depth 2)                  *)
(*    HExit   the lending call returns (guard dropped)                     *)
(*    HDrop   an unconsumed guard is dropped (any order between guards of  *)
(*            different engines: nothing in Rust forces LIFO there)        *)
(*    HRwr    Engine::run_with_reference: a whole lending call of one      *)
(*            `&mut` loan around ONE script that uses and stashes it       *)
(* Script actions on a handle: use now through a registered method (by     *)
(* `&T` or `&mut T`), through a host identity function, set the object,    *)
(* copy a VALUE out, stash the handle (global, closure, list, box, hash    *)
(* map, captured continuation, host-side store), pass two handles to one   *)
(* function, derive a child reference (`&mut T -> &mut U`, `&mut T -> &U`),*)
(* use / drop the child; later (same engine, any time) use whatever was    *)
(* stashed.  The host may lend the same or another object again while an   *)
(* old stash exists.  With Threads: SPark starts a use on a SCRIPT THREAD  *)
(* that blocks inside the host method (spawn-native-thread), SRelease lets *)
(* it finish; a lending call must not end under such a use.                *)
(*                                                                         *)
(* Scheduling.  Uses do not change the state of the model, so they are not *)
(* CHOSEN: after every action the step Observe performs EVERY use that is  *)
(* expressible at that moment (each direct handle by both receiver kinds   *)
(* and through the host identity function, every stash, the child, the     *)
(* copy, two distinct `&mut` handles in one call) on every engine the host *)
(* can call.  Right after a lending call is entered Observe also copies a  *)
(* value out and sets the first `&mut`-lent object.  What is chosen (and   *)
(* bounded by MaxActs) are the actions that change what the script holds:  *)
(* stash, derive, drop the child, and the same-handle-twice call.          *)
(*                                                                         *)
(* ORACLE: a use through handle h succeeds IFF                             *)
(*    Valid(h)    the lending call that delivered h is still active, and   *)
(*    the borrow discipline allows it: the method's receiver kind equals   *)
(*    the loan kind, no derived reference of h is outstanding, and one     *)
(*    call does not receive the same `&mut` handle twice;                  *)
(* otherwise the script gets an ERROR and the host object is NOT touched   *)
(* (`acc` = expected access log).  Everything else is independent of WHERE *)
(* the handle was kept: that is the quantifier of the property.            *)
(*                                                                         *)
(* NURSERY layer (the mechanism, model-checked).  `mem` / `weak` are the   *)
(* two vectors of OpaqueReferenceNursery, `ibind[g]` the cells whose       *)
(* handles guard g actually delivered.  With "shared_stack" in Defects the *)
(* layer follows the code: both vectors are per-THREAD stacks shared by    *)
(* all engines and guards, a guard remembers only a COUNT, delivery takes  *)
(* the top `count` weak entries, drop pops `count` entries of each vector, *)
(* and a derived reference pushes one more weak entry.  Without the defect *)
(* every entry is owned by its guard.  Invariants:                         *)
(*    InvNoDangling  a strong cell exists only while its guard is alive    *)
(*    InvFaithful    a guard delivers exactly its own references           *)
(*    InvChildLive   a derived reference stays usable while its parent's   *)
(*                   lending call is active                                *)
(*    InvNoResidue   nothing is left when no guard is alive                *)
(*    InvNoInflight  no use is still in progress (on a script thread) when  *)
(*                   its lending call is over: with "no_wait" in Defects   *)
(*                   HExit does not wait for it (as coded: the thread has  *)
(*                   upgraded the weak handle and keeps using the object)  *)
(* `blame` records, per behaviour, which of them the as-is mechanism broke *)
(* (a prediction for the replay, never part of the expectation).           *)
(*                                                                         *)
(* Named deviations of Steel adopted by the oracle on purpose:             *)
(*  D1 receiver kind = loan kind.  A `&T` method is refused on a `&mut`-   *)
(*     lent handle (and vice versa): AsRefSteelValFromRef accepts only     *)
(*     ReadOnlyBorrowedObject / ReadOnlyTemporary, AsRefMutSteelValFromRef *)
(*     only BorrowedObject (gc.rs).  Refusing is on the safe side and the  *)
(*     split is the documented design (docs/src/patterns/context.md        *)
(*     registers `&mut self` methods for a `with_mut_reference` loan).     *)
(*  D2 a derived reference blocks its parent as long as the SCRIPT can     *)
(*     reach it (run-time reachability instead of Rust's lexical lifetime),*)
(*     and only ONE derived reference may be outstanding per parent, also  *)
(*     for read-only ones (`borrow_count > 0 || child_borrow_flag` is      *)
(*     tested by every derivation because both shapes take `&mut SELF`).   *)
(*  D3 the host does not reset r<g>_<k> after the call (the documented     *)
(*     pattern in docs/src/patterns/context.md does not): the stale global *)
(*     is one more retention path.  run_with_reference does reset it.      *)
(*  D4 while a use is parked on a script thread the model neither binds a  *)
(*     global nor evaluates a definition (both stop the world in Steel and *)
(*     wait for the parked thread: C15/C16), and observes no other use of  *)
(*     the same object (Steel blocks on the write lock instead of refusing:*)
(*     the finding recorded for the same-handle-twice call).               *)
(***************************************************************************)
EXTENDS Integers, Sequences, FiniteSets, TLC, Json

CONSTANTS MaxGuards,   \* guards created in one behaviour
          MaxActs,     \* state-changing script actions (stash, derive, drop, same-handle pair) in one behaviour
          Engines,     \* 1 or 2
          RefLevel,    \* "small" | "full": which loans a guard may carry
          Places,      \* stash places in play, subset of AllPlaces
          Derive,      \* BOOLEAN: derived (child) references in play
          Pair,        \* BOOLEAN: the same-handle-twice call in play
          Threads,     \* BOOLEAN: a use in flight on a script thread in play
          Defects,     \* subset of {"shared_stack", "no_wait"}
          EmitCases    \* BOOLEAN: print one REPLAY line per behaviour

AllPlaces == <<"global", "closure", "list", "box", "hash", "cont", "host">>
Objs == {"A", "B"}
InitVal(o) == IF o = "A" THEN 100 ELSE 200
Modes == {"mut", "ro"}

VARIABLES
  \* ---- host layer
  G,        \* guard -> [st, eng, refs, frame]
  ng,       \* guards created
  cs,       \* call stack of lending calls (guard ids)
  oval,     \* object -> current value
  \* ---- script layer
  entered,  \* guards whose handles were delivered (r<g>_<k> bound), live or not
  stash,    \* place -> [h, eng, m] or NoStash
  child,    \* [par, kind, held, eng] or NoChild
  copied,   \* [v, eng] or NoCopy
  acts,
  parked,   \* NoPark, or the handle a script THREAD is using right now (it sits inside a host method)
  pend,     \* 0, or what the pending observation step follows (-1 an action, g > 0 the entry of guard g)
  \* ---- nursery layer
  mem, weak, ibind, nd,
  \* ---- ghosts / output
  blame, feat, hist, done

vars == <<G, ng, cs, oval, entered, stash, child, copied, acts, parked, pend, mem, weak, ibind, nd,
          blame, feat, hist, done>>

NoGuard == [st |-> "none", eng |-> 0, refs |-> << >>, frame |-> 0]
NoStash == [h |-> [g |-> -1, k |-> 0], eng |-> 0, m |-> "none"]
NoChild == [par |-> [g |-> -1, k |-> 0], kind |-> "none", held |-> FALSE, eng |-> 0, id |-> 0]
NoCopy == [v |-> 0, eng |-> 0]
NoPark == [h |-> [g |-> -1, k |-> 0], eng |-> 0]
ChildH == [g |-> 0, k |-> 0]          \* the handle "the derived reference"

GuardIds == 1..MaxGuards
Live(g) == G[g].st \in {"open", "active"}

Init ==
  /\ G = [g \in GuardIds |-> NoGuard] /\ ng = 0 /\ cs = << >>
  /\ oval = [o \in Objs |-> InitVal(o)]
  /\ entered = {} /\ stash = [p \in Places |-> NoStash] /\ child = NoChild /\ copied = NoCopy
  /\ acts = 0 /\ pend = 0 /\ parked = NoPark
  /\ mem = << >> /\ weak = << >> /\ ibind = [g \in GuardIds |-> << >>] /\ nd = 0
  /\ blame = {} /\ feat = {} /\ hist = << >> /\ done = FALSE

-----------------------------------------------------------------------------
(* Rendering *)
GName(g, k) == "r" \o ToString(g) \o "_" \o ToString(k - 1)
RefText(r) == r.obj \o ":" \o r.mode
RefsText(rs) == IF Len(rs) = 1 THEN RefText(rs[1]) ELSE RefText(rs[1]) \o " " \o RefText(rs[2])
Getter(m) == IF m = "mut" THEN "cell-get-mut" ELSE "cell-get"
IGetter(m) == IF m = "mut" THEN "inner-get-mut" ELSE "inner-get"
MethName(m) == IF m = "mut" THEN "get_mut" ELSE "get"

\* the expression that yields the stashed handle again
PlaceGet(p) == CASE p = "global" -> "sg@@" [] p = "closure" -> "(sc@@)" [] p = "list" -> "(cadr sl@@)"
                 [] p = "box" -> "(unbox sb@@)" [] p = "hash" -> "(hash-ref sh@@ 'k)"
\* the units that stash the value of expression x (for "cont" and "host": together with the use `u`).
\* "cont": the continuation k is captured inside (wk r) while r is live; re-entering k runs the
\* use again and then escapes to the caller through bk (the continuation of the LATER run).
PlacePut(p, x, u) ==
  CASE p = "global" -> <<"(define sg@@ " \o x \o ")">>
    [] p = "closure" -> <<"(define sc@@ (let ((x " \o x \o ")) (lambda () x)))">>
    [] p = "list" -> <<"(define sl@@ (list 1 " \o x \o "))">>
    [] p = "box" -> <<"(define sb@@ (box " \o x \o "))">>
    [] p = "hash" -> <<"(define sh@@ (hash 'k " \o x \o "))">>
    [] p = "cont" -> <<"(define sk@@ #f)", "(define bk@@ #f)",
                       "(define (wk@@ r) (let ((x (call/cc (lambda (k) (set! sk@@ k) 1)))) (emit (" \o u \o " r)) (if bk@@ (bk@@ x) x)))",
                       "(wk@@ " \o x \o ")">>
    [] p = "host" -> <<"(define (uk@@ r) (emit (" \o u \o " r)))", "(host-keep! " \o x \o ")">>
ContUse == "(call/cc (lambda (ret) (set! bk@@ ret) (sk@@ 2)))"

-----------------------------------------------------------------------------
(* The oracle *)
IsChild(h) == h = ChildH
Valid(h) == IF IsChild(h) THEN child # NoChild /\ G[child.par.g].st = "active"
            ELSE G[h.g].st = "active"
ModeOf(h) == IF IsChild(h) THEN child.kind ELSE G[h.g].refs[h.k].mode
ObjOf(h) == IF IsChild(h) THEN G[child.par.g].refs[child.par.k].obj ELSE G[h.g].refs[h.k].obj
AccName(h) == IF IsChild(h) THEN ObjOf(h) \o ".inner" ELSE ObjOf(h)
ValOf(h) == IF IsChild(h) THEN InitVal(ObjOf(h)) + 1 ELSE oval[ObjOf(h)]
\* a derived reference of h that the script still holds blocks h (D2)
Blocked(h) == ~IsChild(h) /\ child # NoChild /\ child.par = h
UseOK(h, m) == Valid(h) /\ m = ModeOf(h) /\ ~Blocked(h)

\* the script text of a handle
HExpr(h) == IF IsChild(h) THEN "ch@@" ELSE GName(h.g, h.k)

-----------------------------------------------------------------------------
(* The nursery layer *)
Shared == "shared_stack" \in Defects
Cells(g) == [k \in 1..Len(G[g].refs) |-> [g |-> g, k |-> k]]
Prefix(s, n) == IF n <= 0 THEN << >> ELSE SubSeq(s, 1, IF n > Len(s) THEN Len(s) ELSE n)
Suffix(s, n) == IF n >= Len(s) THEN s ELSE SubSeq(s, Len(s) - n + 1, Len(s))
Range(s) == {s[i] : i \in 1..Len(s)}

NOpen(g, refs) ==
  /\ mem' = mem \o [k \in 1..Len(refs) |-> [g |-> g, k |-> k]]
  /\ weak' = weak \o [k \in 1..Len(refs) |-> [t |-> "ref", g |-> g, k |-> k]]
\* what LifetimeGuard::consume hands to the thunk, and what stays in `weak`
Delivered(g) == IF Shared THEN Suffix(weak, Len(G[g].refs))
                ELSE SelectSeq(weak, LAMBDA e : e.t = "ref" /\ e.g = g)
WeakAfterDeliver(g) == IF Shared THEN Prefix(weak, Len(weak) - Len(G[g].refs))
                       ELSE SelectSeq(weak, LAMBDA e : ~(e.t = "ref" /\ e.g = g))
\* LifetimeGuard::drop = free_n(count)
MemAfterClose(m, g) == IF Shared THEN Prefix(m, Len(m) - Len(G[g].refs))
                       ELSE SelectSeq(m, LAMBDA c : c.g # g)
WeakAfterClose(w, g) == IF Shared THEN Prefix(w, Len(w) - Len(G[g].refs))
                        ELSE SelectSeq(w, LAMBDA e : e.g # g)
ChildTmp == [t |-> "tmp", g |-> child.par.g, k |-> child.id]

\* the design-level invariants, as predicates of a (G, mem, weak, ibind, child) valuation
NoDanglingP(GG, m) == \A i \in 1..Len(m) : GG[m[i].g].st \in {"open", "active"}
FaithfulP(GG, ib) == \A g \in GuardIds : GG[g].st = "active" =>
                        ib[g] = [k \in 1..Len(GG[g].refs) |-> [t |-> "ref", g |-> g, k |-> k]]
ChildLiveP(GG, w, ch) == (ch # NoChild /\ GG[ch.par.g].st = "active") =>
                            [t |-> "tmp", g |-> ch.par.g, k |-> ch.id] \in Range(w)
NoResidueP(GG, m, w) == (\A g \in GuardIds : GG[g].st \notin {"open", "active"}) => (m = << >> /\ w = << >>)

\* no use is in flight when its lending call is over
NoInflightP(GG, pk) == pk # NoPark => GG[pk.h.g].st = "active"
InvNoInflight == NoInflightP(G, parked)
InvNoDangling == NoDanglingP(G, mem)
InvFaithful == FaithfulP(G, ibind)
InvChildLive == ChildLiveP(G, weak, child)
InvNoResidue == NoResidueP(G, mem, weak)

Blames(GG, m, w, ib, ch) ==
  (IF NoDanglingP(GG, m) THEN {} ELSE {"dangling"})
  \cup (IF FaithfulP(GG, ib) THEN {} ELSE {"unfaithful"})
  \cup (IF ChildLiveP(GG, w, ch) THEN {} ELSE {"childlost"})
  \cup (IF NoInflightP(GG, parked) THEN {} ELSE {"inflight"})

-----------------------------------------------------------------------------
(* Host actions *)
Top == IF cs = << >> THEN 0 ELSE cs[Len(cs)]
EngFree(e) == ~\E g \in GuardIds : G[g].st = "open" /\ G[g].eng = e
\* Rust: `&mut o` excludes every other loan of o, `&o` excludes `&mut o`
Lendable(r) == \A g \in GuardIds : Live(g) =>
                 \A i \in 1..Len(G[g].refs) :
                    G[g].refs[i].obj = r.obj => (G[g].refs[i].mode = "ro" /\ r.mode = "ro")
R(o, m) == [obj |-> o, mode |-> m]
RefSeqs == IF RefLevel = "small"
             THEN {<<R("A", "mut")>>, <<R("A", "ro")>>, <<R("B", "mut")>>, <<R("A", "mut"), R("B", "ro")>>}
             ELSE {<<R(o, m)>> : o \in Objs, m \in Modes}
                  \cup {<<R("A", m1), R("B", m2)>> : m1 \in Modes, m2 \in Modes}
EverLent(o) == \E g \in GuardIds : G[g].st # "none" /\ \E i \in 1..Len(G[g].refs) : G[g].refs[i].obj = o
Idle == ~done /\ pend = 0

HOpen(e, refs) ==
  /\ Idle /\ ng < MaxGuards /\ Len(cs) < 2 /\ EngFree(e)
  /\ (ng = 0 => (e = 1 /\ refs[1].obj = "A"))            \* symmetry: engines and objects are interchangeable
  /\ (e = 2 => \E g \in GuardIds : G[g].st # "none" /\ G[g].eng = 1)
  /\ \A i \in 1..Len(refs) : Lendable(refs[i])
  /\ LET g == ng + 1 IN
       /\ G' = [G EXCEPT ![g] = [st |-> "open", eng |-> e, refs |-> refs, frame |-> Top]]
       /\ ng' = g
       /\ NOpen(g, refs)
       /\ feat' = feat \cup (IF Top # 0 THEN {"nest"} ELSE {}) \cup (IF e = 2 THEN {"2eng"} ELSE {})
                       \cup (IF \E i \in 1..Len(refs) : EverLent(refs[i].obj) THEN {"relend"} ELSE {})
                       \cup (IF Len(refs) = 2 THEN {"2refs"} ELSE {})
       /\ hist' = Append(hist, [h |-> "open", g |-> g, eng |-> e, refs |-> refs,
                src |-> "#host open g" \o ToString(g) \o " e" \o ToString(e) \o " [" \o RefsText(refs) \o "]"])
       /\ blame' = blame \cup Blames(G', mem', weak', ibind, child)
  /\ pend' = -1
  /\ UNCHANGED <<cs, oval, entered, stash, child, copied, acts, ibind, nd, done, parked>>

HEnter(g, api) ==
  /\ Idle /\ G[g].st = "open" /\ Len(cs) < 2 /\ parked = NoPark
  /\ G' = [G EXCEPT ![g].st = "active"]
  /\ cs' = Append(cs, g)
  /\ entered' = entered \cup {g}
  /\ ibind' = [ibind EXCEPT ![g] = Delivered(g)]
  /\ weak' = WeakAfterDeliver(g)
  /\ hist' = Append(hist, [h |-> "enter", g |-> g, api |-> api, src |-> "#host enter g" \o ToString(g) \o " " \o api])
  /\ blame' = blame \cup Blames(G', mem, weak', ibind', child)
  /\ feat' = feat \cup (IF \E g2 \in GuardIds : g2 > g /\ G[g2].st # "none" THEN {"nonlifo"} ELSE {})
  /\ pend' = g
  /\ UNCHANGED <<ng, oval, stash, child, copied, acts, mem, nd, done, parked>>

CloseCommon(g, GG) ==
  /\ mem' = MemAfterClose(mem, g)
  /\ weak' = WeakAfterClose(weak, g)
  /\ blame' = blame \cup Blames(GG, mem', weak', ibind, child)

HExit ==
  /\ Idle /\ cs # << >>
  /\ LET g == Top IN
       /\ \A g2 \in GuardIds : G[g2].frame = g => ~Live(g2)      \* guards created inside the thunk are gone
       /\ ("no_wait" \in Defects \/ parked = NoPark \/ parked.h.g # g)   \* the call cannot end under a use in flight
       /\ G' = [G EXCEPT ![g].st = "closed"]
       /\ cs' = Prefix(cs, Len(cs) - 1)
       /\ CloseCommon(g, G')
       /\ hist' = Append(hist, [h |-> "exit", g |-> g, src |-> "#host exit g" \o ToString(g)])
  /\ pend' = -1
  /\ UNCHANGED <<ng, oval, entered, stash, child, copied, acts, ibind, nd, feat, done, parked>>

HDrop(g) ==
  /\ Idle /\ G[g].st = "open"
  /\ G' = [G EXCEPT ![g].st = "closed"]
  /\ CloseCommon(g, G')
  /\ hist' = Append(hist, [h |-> "drop", g |-> g, src |-> "#host drop g" \o ToString(g)])
  /\ feat' = feat \cup (IF \E g2 \in GuardIds : g2 > g /\ Live(g2) THEN {"nonlifo"} ELSE {})
  /\ pend' = -1
  /\ UNCHANGED <<ng, cs, oval, entered, stash, child, copied, acts, ibind, nd, done, parked>>

\* Engine::run_with_reference(obj, bind_to, script): a complete lending call of one `&mut` loan whose body
\* is ONE script; the host binds the global, runs the script and resets the global to void (so D3 does
\* not apply to this API).  The script uses the handle and stashes it in place p.
HRwr(e, o, p) ==
  /\ Idle /\ ng < MaxGuards /\ Len(cs) < 2 /\ EngFree(e) /\ acts < MaxActs /\ parked = NoPark
  /\ (ng = 0 => (e = 1 /\ o = "A"))
  /\ (e = 2 => \E g \in GuardIds : G[g].st # "none" /\ G[g].eng = 1)
  /\ Lendable(R(o, "mut"))
  /\ p \in {"global", "closure", "list", "box", "hash"} /\ stash[p] = NoStash
  /\ LET g == ng + 1
         r == GName(g, 1)
         cell == [g |-> g, k |-> 1]
         ref == [t |-> "ref", g |-> g, k |-> 1]
         weak1 == Append(weak, ref)
         dl == IF Shared THEN Suffix(weak1, 1) ELSE <<ref>>
         weak2 == IF Shared THEN Prefix(weak1, Len(weak1) - 1) ELSE weak
         mem3 == IF Shared THEN Prefix(Append(mem, cell), Len(mem)) ELSE mem
         weak3 == IF Shared THEN Prefix(weak2, Len(weak2) - 1) ELSE weak2 IN
       /\ G' = [G EXCEPT ![g] = [st |-> "closed", eng |-> e, refs |-> <<R(o, "mut")>>, frame |-> Top]]
       /\ ng' = g
       /\ stash' = [stash EXCEPT ![p] = [h |-> cell, eng |-> e, m |-> "mut"]]
       /\ mem' = mem3 /\ weak' = weak3 /\ ibind' = [ibind EXCEPT ![g] = dl]
       /\ blame' = blame \cup Blames(G', mem3, weak3, ibind', child)
       /\ feat' = feat \cup {"rwr", "stash-" \o p} \cup (IF Top # 0 THEN {"nest"} ELSE {}) \cup (IF e = 2 THEN {"2eng"} ELSE {})
                       \cup (IF EverLent(o) THEN {"relend"} ELSE {})
       /\ hist' = Append(hist, [h |-> "rwr", eng |-> e, obj |-> o, bind |-> r,
                                script |-> "(emit (cell-get-mut " \o r \o ")) " \o PlacePut(p, r, "")[1],
                                src |-> "#host run_with_reference e" \o ToString(e) \o " " \o o \o " " \o r \o " stash-" \o p,
                                class |-> "ok", emit |-> <<ToString(oval[o])>>, acc |-> <<o \o ".get_mut">>])
  /\ acts' = acts + 1 /\ pend' = -1
  /\ UNCHANGED <<cs, oval, entered, child, copied, nd, done, parked>>

-----------------------------------------------------------------------------
(* Script steps.  A script runs on engine e whenever the host can call e.run: at top level or
   inside a lending call, as long as no unconsumed guard holds e. *)
SStepRec(e, src, ok, emit, acc) ==
  [src |-> src, eng |-> e, class |-> (IF ok THEN "ok" ELSE "err"), emit |-> emit, acc |-> acc]
UseSrc(m, x, ischild) == "(emit (" \o (IF ischild THEN IGetter(m) ELSE Getter(m)) \o " " \o x \o "))"
UseEmit(h, m) == IF UseOK(h, m) THEN <<ToString(ValOf(h))>> ELSE << >>
UseAcc(h, m) == IF UseOK(h, m) THEN <<AccName(h) \o "." \o MethName(m)>> ELSE << >>
UseRec(e, h, m, x) == SStepRec(e, UseSrc(m, x, IsChild(h)), UseOK(h, m), UseEmit(h, m), UseAcc(h, m))

AllDirect == <<[g |-> 1, k |-> 1], [g |-> 1, k |-> 2], [g |-> 2, k |-> 1], [g |-> 2, k |-> 2],
               [g |-> 3, k |-> 1], [g |-> 3, k |-> 2]>>
DirectSeq(e) == SelectSeq(AllDirect, LAMBDA h : h.g \in entered /\ G[h.g].eng = e /\ h.k <= Len(G[h.g].refs))
HasChild(e) == child # NoChild /\ child.eng = e
\* While a use is parked on a script thread the host only ends lending calls, drops guards, opens guards and
\* releases it: binding a global or evaluating a `define` stops the world in Steel, which waits for the
\* parked thread (the stop-the-world protocol is the subject of C15/C16, not of this module).
Calm == parked = NoPark
Budget == Idle /\ acts < MaxActs /\ Calm
AnyActive == \E g \in GuardIds : G[g].st = "active"

RECURSIVE Flat(_)
Flat(ss) == IF ss = << >> THEN << >> ELSE Head(ss) \o Flat(Tail(ss))

\* every use expressible on engine e now
StashRec(e, p) ==
  LET h == stash[p].h
      m == stash[p].m IN
    IF p = "cont" THEN SStepRec(e, ContUse, UseOK(h, m), UseEmit(h, m), UseAcc(h, m))
    ELSE IF p = "host"
      THEN [h |-> "call", eng |-> e, fn |-> "uk@@", kept |-> 0, src |-> "#host call uk@@ kept0",
            class |-> (IF UseOK(h, m) THEN "ok" ELSE "err"), emit |-> UseEmit(h, m), acc |-> UseAcc(h, m)]
    ELSE UseRec(e, h, m, PlaceGet(p))
PairRec(e, h1, h2) ==
  LET ok == UseOK(h1, "mut") /\ UseOK(h2, "mut") /\ h1 # h2 IN
    SStepRec(e, "(emit (cell-pair tok 1 " \o HExpr(h1) \o " " \o HExpr(h2) \o "))", ok,
             IF ok THEN <<ToString(ValOf(h1) + ValOf(h2) + 1)>> ELSE << >>,
             IF ok THEN <<ObjOf(h1) \o ".pair", ObjOf(h2) \o ".pair">> ELSE << >>)
Uses(e) ==
  LET ds == DirectSeq(e)
      other(m) == IF m = "mut" THEN "ro" ELSE "mut" IN
    Flat([i \in 1..Len(ds) |->
            <<UseRec(e, ds[i], ModeOf(ds[i]), HExpr(ds[i])),
              UseRec(e, ds[i], other(ModeOf(ds[i])), HExpr(ds[i])),
              UseRec(e, ds[i], ModeOf(ds[i]), "(host-id " \o HExpr(ds[i]) \o ")")>>])
    \o Flat([i \in 1..Len(AllPlaces) |->
               IF AllPlaces[i] \in Places /\ stash[AllPlaces[i]] # NoStash /\ stash[AllPlaces[i]].eng = e
                 THEN <<StashRec(e, AllPlaces[i])>> ELSE << >>])
    \o (IF HasChild(e) THEN <<UseRec(e, ChildH, child.kind, "ch@@")>> ELSE << >>)
    \o (IF copied # NoCopy /\ copied.eng = e THEN <<SStepRec(e, "(emit sv@@)", TRUE, <<ToString(copied.v)>>, << >>)>> ELSE << >>)
    \o Flat([i \in 1..Len(ds) |-> Flat([j \in 1..Len(ds) |->
               IF i < j /\ Valid(ds[i]) /\ Valid(ds[j]) /\ ModeOf(ds[i]) = "mut" /\ ModeOf(ds[j]) = "mut"
                 THEN <<PairRec(e, ds[i], ds[j])>> ELSE << >>])])

\* the first `&mut` handle delivered by guard g (0 if none)
FirstMut(g) == IF \E k \in 1..Len(G[g].refs) : G[g].refs[k].mode = "mut"
                 THEN CHOOSE k \in 1..Len(G[g].refs) :
                        G[g].refs[k].mode = "mut" /\ \A j \in 1..(k - 1) : G[g].refs[j].mode # "mut"
                 ELSE 0

\* The observation step.  After the entry of guard g: copy a value out of its first handle (once per
\* behaviour), set its first `&mut` object; then every expressible use on every callable engine.
Observe ==
  /\ ~done /\ pend # 0
  /\ LET g == pend
         e == IF g > 0 THEN G[g].eng ELSE 0
         h1 == [g |-> g, k |-> 1]
         docopy == g > 0 /\ copied = NoCopy /\ UseOK(h1, ModeOf(h1))
         km == IF g > 0 THEN FirstMut(g) ELSE 0
         hm == [g |-> g, k |-> km]
         doset == km > 0 /\ UseOK(hm, "mut")
         v == 10 * g + 7
         pre == (IF docopy
                   THEN <<SStepRec(e, "(define sv@@ (" \o Getter(ModeOf(h1)) \o " " \o HExpr(h1) \o "))", TRUE, << >>,
                                   UseAcc(h1, ModeOf(h1)))>>
                   ELSE << >>)
                \o (IF doset
                      THEN <<SStepRec(e, "(cell-set! " \o HExpr(hm) \o " " \o ToString(v) \o ")", TRUE, << >>,
                                      <<ObjOf(hm) \o ".set">>)>>
                      ELSE << >>) IN
       /\ copied' = IF docopy THEN [v |-> ValOf(h1), eng |-> e] ELSE copied
       /\ oval' = IF doset THEN [oval EXCEPT ![ObjOf(hm)] = v] ELSE oval
       /\ pend' = 0
       /\ UNCHANGED <<G, ng, cs, entered, stash, child, acts, mem, weak, ibind, nd, blame, feat, done, parked>>
       \* the uses see the state AFTER copy and set (hist' is determined last)
       /\ hist' = IF EmitCases /\ parked = NoPark
                    THEN hist \o pre \o Flat([x \in 1..Engines |-> IF EngFree(x) THEN Uses(x)' ELSE << >>])
                  ELSE hist \o pre

\* keep a valid handle somewhere ("cont" also uses it once, now)
SStash(e, p, h) ==
  /\ Budget /\ EngFree(e) /\ stash[p] = NoStash /\ Valid(h)
  /\ LET m == ModeOf(h)
         u == IF IsChild(h) THEN IGetter(m) ELSE Getter(m)
         usesnow == p = "cont" IN
       /\ LET units == PlacePut(p, HExpr(h), u)
              n == Len(units) IN
            \* all units but the last are definitions; the last one of "cont" uses the handle
            hist' = hist \o [i \in 1..n |->
                       IF i = n /\ usesnow THEN SStepRec(e, units[i], UseOK(h, m), UseEmit(h, m), UseAcc(h, m))
                       ELSE SStepRec(e, units[i], TRUE, << >>, << >>)]
       /\ stash' = [stash EXCEPT ![p] = [h |-> h, eng |-> e, m |-> m]]
  /\ acts' = acts + 1 /\ pend' = -1
  /\ feat' = feat \cup {"stash-" \o p} \cup (IF IsChild(h) THEN {"stash-child"} ELSE {})
  /\ UNCHANGED <<G, ng, cs, oval, entered, child, copied, mem, weak, ibind, nd, blame, done, parked>>

\* one registered function receives the SAME `&mut` handle twice: must be refused
SPairSame(e, h) ==
  /\ Pair /\ Budget /\ acts = 0 /\ EngFree(e) /\ Valid(h) /\ ModeOf(h) = "mut" /\ ~Blocked(h)
  /\ hist' = Append(hist, PairRec(e, h, h))
  /\ acts' = acts + 1 /\ pend' = -1
  /\ feat' = feat \cup {"pairsame"}
  /\ UNCHANGED <<G, ng, cs, oval, entered, stash, child, copied, mem, weak, ibind, nd, blame, done, parked>>

\* derive a child reference from a `&mut`-lent handle: (define ch (cell-inner-mut h)) / (cell-inner-ro h)
SDerive(e, h, kind) ==
  /\ Derive /\ Budget /\ EngFree(e) /\ child = NoChild /\ UseOK(h, "mut")
  /\ hist' = Append(hist, SStepRec(e, "(define ch@@ (cell-inner-" \o kind \o " " \o HExpr(h) \o "))", TRUE, << >>,
                                   <<ObjOf(h) \o ".inner_" \o kind>>))
  /\ child' = [par |-> h, kind |-> kind, held |-> TRUE, eng |-> e, id |-> nd + 1]
  /\ nd' = nd + 1
  /\ weak' = Append(weak, [t |-> "tmp", g |-> h.g, k |-> nd + 1])
  /\ acts' = acts + 1 /\ pend' = -1
  /\ feat' = feat \cup {"derive-" \o kind}
  /\ UNCHANGED <<G, ng, cs, oval, entered, stash, copied, mem, ibind, blame, done, parked>>

\* the script lets go of the child: (set! ch #f); modelled when no stash holds it
SDropChild(e) ==
  /\ Budget /\ EngFree(e) /\ HasChild(e)
  /\ \A p \in Places : stash[p] = NoStash \/ ~IsChild(stash[p].h)
  /\ hist' = Append(hist, SStepRec(e, "(set! ch@@ #f)", TRUE, << >>, << >>))
  /\ child' = NoChild
  /\ acts' = acts + 1 /\ pend' = -1
  /\ feat' = feat \cup {"dropchild"}
  /\ UNCHANGED <<G, ng, cs, oval, entered, stash, copied, mem, weak, ibind, nd, blame, done, parked>>

\* A script THREAD starts a use that blocks inside the host method (spawn-native-thread + cell-park); the
\* host waits until the thread is inside.  Nothing else is observed while the use is in flight.
SPark(e, h) ==
  /\ Threads /\ Budget /\ EngFree(e) /\ parked = NoPark
  /\ UseOK(h, "mut")
  /\ hist' = hist \o <<SStepRec(e, "(define tb@@ (box #f))", TRUE, << >>, << >>),
                        [src |-> "(set-box! tb@@ (spawn-native-thread (lambda () (cell-park " \o HExpr(h) \o "))))", eng |-> e,
                         class |-> "ok", hold |-> TRUE],
                        [h |-> "await-parked", src |-> "#host await parked", class |-> "ok", val |-> "parked",
                         acc |-> <<ObjOf(h) \o ".park_begin">>]>>
  /\ parked' = [h |-> h, eng |-> e]
  /\ acts' = acts + 1 /\ pend' = -1
  /\ feat' = feat \cup {"thread"}
  /\ UNCHANGED <<G, ng, cs, oval, entered, stash, child, copied, mem, weak, ibind, nd, blame, done>>
\* the host lets the parked use finish; the script joins the thread
SRelease ==
  /\ Idle /\ parked # NoPark /\ EngFree(parked.eng)
  /\ hist' = hist \o <<[h |-> "release", src |-> "#host release", hold |-> TRUE],
                        [src |-> "(emit (thread-join! (unbox tb@@)))", eng |-> parked.eng, class |-> "any",
                         acc |-> IF Valid(parked.h) THEN <<ObjOf(parked.h) \o ".park_end">> ELSE << >>]>>
  /\ parked' = NoPark
  /\ pend' = -1
  /\ UNCHANGED <<G, ng, cs, oval, entered, stash, child, copied, acts, mem, weak, ibind, nd, blame, feat, done>>

DirectSet(e) == {AllDirect[i] : i \in {j \in 1..Len(AllDirect) :
                    AllDirect[j].g \in entered /\ G[AllDirect[j].g].eng = e /\ AllDirect[j].k <= Len(G[AllDirect[j].g].refs)}}
Script ==
  \E e \in 1..Engines :
     \/ \E p \in Places, h \in DirectSet(e) \cup (IF HasChild(e) THEN {ChildH} ELSE {}) : SStash(e, p, h)
     \/ \E h \in DirectSet(e) : SPairSame(e, h)
     \/ \E h \in DirectSet(e), kind \in Modes : SDerive(e, h, kind)
     \/ SDropChild(e)
     \/ \E h \in DirectSet(e) : SPark(e, h)

Host ==
  \/ \E e \in 1..Engines, refs \in RefSeqs : HOpen(e, refs)
  \/ \E g \in GuardIds : HEnter(g, IF g = 1 THEN "consume" ELSE "consume_once")
  \/ HExit
  \/ \E g \in GuardIds : HDrop(g)
  \/ \E e \in 1..Engines, o \in Objs, p \in Places : HRwr(e, o, p)

\* a behaviour is complete when every guard is gone
Finish ==
  /\ Idle /\ cs = << >> /\ ng > 0 /\ ~\E g \in GuardIds : Live(g) /\ parked = NoPark
  /\ done' = TRUE
  /\ UNCHANGED <<G, ng, cs, oval, entered, stash, child, copied, acts, pend, mem, weak, ibind, nd, blame, feat, hist, parked>>

Next == Host \/ Script \/ SRelease \/ Observe \/ Finish
Spec == Init /\ [][Next]_vars

-----------------------------------------------------------------------------
(* Output *)
FeatOrder == <<"2eng", "2refs", "nest", "relend", "nonlifo", "pairsame", "rwr", "thread",
               "derive-mut", "derive-ro", "dropchild", "stash-child",
               "stash-global", "stash-closure", "stash-list", "stash-box", "stash-hash", "stash-cont", "stash-host">>
BlameOrder == <<"dangling", "unfaithful", "childlost", "inflight">>
RECURSIVE Join(_, _, _)
Join(order, set, i) == IF i > Len(order) THEN ""
                       ELSE (IF order[i] \in set THEN "," \o order[i] ELSE "") \o Join(order, set, i + 1)
Tag == "nursery|blame=" \o Join(BlameOrder, blame, 1) \o ",|feat=" \o Join(FeatOrder, feat, 1) \o ","

Emit == (EmitCases /\ done) => PrintT(<<"REPLAY", ToJson([tag |-> Tag, steps |-> hist])>>)

\* design-level runs (EmitCases = FALSE) identify states that differ only in the rendered history
DesignView == <<G, ng, cs, entered, stash, child, acts, parked, pend, mem, weak, ibind, nd, done>>

TypeOK == /\ ng \in 0..MaxGuards /\ acts \in 0..MaxActs /\ Len(cs) <= 2
          /\ \A g \in GuardIds : G[g].st \in {"none", "open", "active", "closed"}
          /\ feat \subseteq Range(FeatOrder) /\ blame \subseteq Range(BlameOrder)
=============================================================================
