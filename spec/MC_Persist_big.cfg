\* BIG base values (70 elements: several list chunks / trie nodes) held by a holder on either thread, a second
\* reference moved or not, updates on either side: in-place updates of inner nodes shared between versions
SPECIFICATION Spec
CONSTANTS
  FAMS = {"alias"}
  TYPES = {"hash", "hset", "ivec", "list", "str"}
  DEPTH = 3
  KINDS0 = {"L", "M", "G", "C", "EL", "K", "WL", "WM", "WE"}
  KINDS1 = {"L", "M", "G", "WL", "WM"}
  KINDSR = {"L", "M", "WL", "WM"}
  KEEP1 = 300
  KEEP2 = 100
  KEEPR = 40
  SEED = 1
  VIAS = {"d", "f", "k"}
  ACTS = {"share", "upd", "upd2"}
  MAXBASE = 1
  MAXLEN = 80
  BASESET = "big"
  LOOPN = {}
  LOOPEVERY = {}
  LOOPSTYLES = {}
  SWEEPSHAPES = {}
INVARIANTS TypeOK FunctionOK Emit
PROPERTIES Immutable
CHECK_DEADLOCK FALSE
