SPECIFICATION Spec
CONSTANTS
  MaxGuards = 2
  MaxActs = 1
  Engines = 2
  RefLevel = "small"
  Places = {"global"}
  Derive = TRUE
  Pair = FALSE
  Threads = FALSE
  Defects = {"shared_stack"}
  EmitCases = FALSE
INVARIANTS InvFaithful
CHECK_DEADLOCK FALSE
VIEW DesignView
