------------------------------- MODULE Robust -------------------------------
(***************************************************************************)
(* C07 - "No input can crash the host; errors are returned and leave the   *)
(* engine usable".                                                         *)
(*                                                                         *)
(* WHAT IS MODELLED.  The contract between an embedding host and ONE       *)
(* engine, as an explicit state machine:                                   *)
(*                                                                         *)
(*   engine state  G = [d, g, p]   the definitions earlier successful      *)
(*                                 units established (a global number d,   *)
(*                                 the version g of a redefinable          *)
(*                                 function, the value p of a parameter)   *)
(*   Eval(G, unit) = [out, emits, G']                                      *)
(*       out \in {"ok","err"}      NEVER crash / abort / hang              *)
(*       a unit is evaluated in PHASES  parse -> expand -> compile -> run, *)
(*       each over the WHOLE unit: a failure in a phase before `run`       *)
(*       means NOTHING of the unit has run (emits = << >>);                *)
(*       a failure in `run` ABANDONS the rest of the unit: what was        *)
(*       emitted before the failing expression stays, nothing after it     *)
(*       is emitted; dynamic-wind `after` thunks and parameterize run /    *)
(*       are undone on the way out;  out = "err"  =>  G' = G  and both     *)
(*       of the thread's stacks are empty again (`Clean`).                 *)
(*                                                                         *)
(* The module is a GENERATOR + ORACLE in four MODEs; every terminal state  *)
(* prints one case (`Emit`), checks/c07.py replays it on the real engine:  *)
(*                                                                         *)
(*  "matrix"  builtin x argument-kind matrix.  The table of builtin        *)
(*            procedures (name, arity bounds) is read from the real engine *)
(*            (harness/src/bin/builtins.rs -> IOEnv.ROBUST_TABLE); the     *)
(*            value KINDS (constructor expression, magnitude, tier) and    *)
(*            the DENY list are defined HERE.  TLC enumerates Kind^arity   *)
(*            (exhaustively over the kinds of tier <= T1 / T2 / T3, plus   *)
(*            seed-determined samples over all kinds, plus one call with   *)
(*            one argument too few / too many, plus the "hof" family: a    *)
(*            procedure of right / wrong arity, raising, escaping through  *)
(*            a continuation, in every argument position).  The "canary"   *)
(*            cfg is the same machine with small tier sets; the driver     *)
(*            uses it to set the crash budget (`cap`) of the full run.     *)
(*            Oracle: the call is `noncrash` (returns a value or an error  *)
(*            VALUE within the time limit), and Probe(G) evaluated         *)
(*            afterwards on the same engine gives the values computed      *)
(*            here from G.                                                 *)
(*  "stages"  error STAGE x CONTEXT x HANDLING: a failing expression of    *)
(*            every stage (parse, expand, compile, 11 run-time kinds) is   *)
(*            placed in every evaluation context (top level, function at   *)
(*            depth 1 / 50, Scheme-level callbacks, Rust-level re-entry    *)
(*            (transduce, stream thunk, apply, call-with-values, force),   *)
(*            handler, wind thunks, parameterize, spawned thread, eval).   *)
(*            The expected emitted sequence, outcome class and post-state  *)
(*            are COMPUTED by `RunCtx` below.  Plus "reenter": a           *)
(*            continuation captured by an earlier unit is invoked by a     *)
(*            later one, with a failing unit in between.                   *)
(*  "inter"   histories: random interleavings (TLC -simulate) of failing    *)
(*            and succeeding units, assignments and redefinitions on one   *)
(*            engine; G is threaded through, every unit is followed by     *)
(*            Probe(G).                                                    *)
(*  "deep"    deep PROGRAM TEXT (nesting families, depth 10^2..10^6) and   *)
(*            deep non-tail recursion (10^3..10^7, direct and through      *)
(*            callbacks): `noncrash`; when the unit returns, its value is  *)
(*            the one computed here.  The text is described as             *)
(*            pre A^D mid B^D post; the driver only performs the           *)
(*            repetition.  Plus "many units": 40 000 successful units on   *)
(*            one engine.                                                  *)
(*                                                                         *)
(* Arbitrary TEXT over a small alphabet is Datum.tla's Strings generator   *)
(* (checks/c12.py, class noncrash); the Globals half ("a failed build      *)
(* leaves earlier definitions intact") is Globals.tla C07h (checks/c06.py).*)
(*                                                                         *)
(* NAMED DEVIATIONS of Steel adopted on purpose:                           *)
(*  D-VOID   `void` is a value, not a procedure (the kind is written       *)
(*           `void`); stdlib.scm uses it that way throughout.              *)
(*  D-SET    `set!` of a global is visible to earlier closures, a later    *)
(*           `define` of a FUNCTION name rebinds the name for later units  *)
(*           (Globals.tla D1); the probe only relies on these two.         *)
(*  D-JOIN   `thread-join!` re-raises the thread's error in the joining    *)
(*           thread (threads.rs thread_join: `stop!(Generic => ...)`).     *)
(*  D-HUGE   a call that has an argument of magnitude "h" (>= 2^31), and a *)
(*           program of depth >= 10^5, may exceed the time limit or the    *)
(*           memory limit of the replayer (`(range 0 (expt 2 62))` is a    *)
(*           legitimate way to loop): such a timeout / failed allocation   *)
(*           is recorded as `resource`, not as a violation.  A PANIC or a  *)
(*           native stack overflow is a violation at any magnitude.        *)
(* NOT adopted (findings, known_findings.d/C07.json): panics of builtins,  *)
(* aborts below JIT frames, errors swallowed by stream thunks, ...         *)
(***************************************************************************)
EXTENDS Integers, Sequences, TLC, Json, IOUtils, FiniteSets

CONSTANTS MODE,     \* "matrix" | "stages" | "inter" | "deep"
          SEED,     \* seed of every sampled choice
          T1,       \* matrix: highest kind tier enumerated exhaustively for 1 argument
          T2,       \*         ... for 2 arguments (0 = none)
          T3,       \*         ... for 3 arguments (0 = none)
          NS2, NS3, \* matrix: number of seed-sampled pairs / triples over ALL kinds per builtin
          NSBIG,    \* matrix: number of sampled tuples for arities 4..6
          NCAP,     \* matrix: number of sampled tuples for a builtin whose budget is capped
          HOF,      \* matrix: 0 none | 1 small | 2 large data set for the procedure-argument family
          MAXD,     \* deep: largest depth index used (1..6 => 10^2 .. 10^7)
          MAXDSLOW, \* deep: ... for the families marked slow (compile time measured quadratic in the depth)
          LEN,      \* inter: number of units of a history
          MUTANT    \* TRUE = deliberately wrong oracle (self-test of the binding)

VARIABLES phase, fi, ar, args, fam, hist, G

vars == <<phase, fi, ar, args, fam, hist, G>>

-----------------------------------------------------------------------------
(* Small helpers                                                           *)

RECURSIVE SumTo(_)
SumTo(n) == IF n = 0 THEN 0 ELSE (n - 1) + SumTo(n - 1)      \* 0 + 1 + ... + (n-1)

RECURSIVE Join(_, _)
Join(ss, sep) == IF Len(ss) = 0 THEN ""
                 ELSE IF Len(ss) = 1 THEN ss[1]
                 ELSE ss[1] \o sep \o Join(Tail(ss), sep)

RECURSIVE Pow10(_)
Pow10(n) == IF n = 0 THEN 1 ELSE 10 * Pow10(n - 1)

\* ZX81-style mixing; every intermediate stays below 2^31 (TLC integers are 32 bit)
Mix(x, y) == ((x % 65537) * 75 + (y % 65537) * 1031 + 74) % 65537
Mix4(a, b, c, d) == Mix(Mix(Mix(Mix(SEED, a), b), c), d)

-----------------------------------------------------------------------------
(* The model of the engine state and of the probe                          *)

G0 == [d |-> 0, g |-> 0, p |-> 1]

\* text of the set-up unit that establishes G = [d, g = 1, p = 1]
\* (opaque D): a global defined by a literal is constant-folded into the functions of the same unit, and a
\* later (set! r07d ..) is then NOT seen by them - a finding of its own (reported under C01/C06), kept out
\* of this probe on purpose
SetupA == "(define r07d@@ (opaque "
SetupB == ")) (define (r07f@@ n) (let loop ([i 0] [a 0]) (if (< i n) (loop (+ i 1) (+ a i)) (+ a r07d@@)))) "
          \o "(define (r07g@@ x) (+ x 1))"
SetupSrc(d) == SetupA \o ToString(d) \o SetupB

\* the probe: a loop through an earlier-defined function that reads an earlier-defined global,
\* a call of the (possibly redefined) function g, and the depth of the thread's two stacks
ProbeSrc == "(emit (r07f@@ 10)) (emit (r07g@@ 3)) (emit (#%verif-depth))"
Clean == "(0 0)"
Probe(g) == << ToString(SumTo(10) + g.d + (IF MUTANT THEN 1 ELSE 0)), ToString(3 + g.g), Clean >>

-----------------------------------------------------------------------------
(* MODE "matrix": value kinds                                              *)
(*   tier 1 = six-kind core (triples), 2 = core, 3 = extended, 4 = all     *)
(*   mag  "s" small | "h" huge (D-HUGE)                                    *)
(*   wrap TRUE: the call is wrapped in (call/cc (lambda (r07k) ...)) and   *)
(*        the kind is a procedure that ESCAPES through r07k when called    *)

K(n, c, t, m) == [n |-> n, c |-> c, pre |-> "", tier |-> t, mag |-> m, wrap |-> FALSE]

Kinds == <<
  K("fx0", "0", 1, "s"),
  K("fxm1", "-1", 1, "s"),
  K("fxmax", "9223372036854775807", 2, "h"),
  K("fxmin", "(- -9223372036854775807 1)", 2, "h"),
  K("big", "18446744073709551616", 2, "h"),
  K("ratio", "(/ 1 2)", 2, "s"),
  K("flo", "1.5", 2, "s"),
  K("nan", "(/ 0.0 0.0)", 2, "s"),
  K("str0", "\"\"", 2, "s"),
  K("str", "\"abc\"", 1, "s"),
  K("chr", "#\\a", 2, "s"),
  K("sym", "(quote sym)", 2, "s"),
  K("true", "#t", 2, "s"),
  K("nil", "(list)", 2, "s"),
  K("lst", "(list 1 2 3)", 1, "s"),
  K("pair", "(cons 1 2)", 2, "s"),
  K("vec", "(vector 1 2 3)", 1, "s"),
  K("hash", "(hash (quote a) 1 2 3)", 2, "s"),
  K("clo1", "(lambda (x) x)", 1, "s"),
  K("void", "void", 2, "s"),
  \* ---- tier 3
  K("fx1", "1", 3, "s"),
  K("fx64", "64", 3, "s"),
  K("i32max", "2147483647", 3, "h"),
  K("i32min", "-2147483648", 3, "h"),
  K("bigneg", "-18446744073709551616", 3, "h"),
  K("bigratio", "(/ 18446744073709551616 3)", 3, "h"),
  K("inf", "(/ 1.0 0.0)", 3, "h"),
  K("fhuge", "1e308", 3, "h"),
  K("strlong", "(make-string 1000 #\\a)", 3, "s"),
  K("struni", "(list->string (list (integer->char 955) (integer->char 0) (integer->char 128512)))", 3, "s"),
  K("false", "#f", 3, "s"),
  K("alist", "(list (cons 1 2) (cons 3 4))", 3, "s"),
  K("vec0", "(vector)", 3, "s"),
  K("ivec", "(immutable-vector 1 2 3)", 3, "s"),
  K("hset", "(hashset 1 2)", 3, "s"),
  K("box", "(box 1)", 3, "s"),
  K("clo0", "(lambda () 1)", 3, "s"),
  K("clo2", "(lambda (x y) x)", 3, "s"),
  K("cloerr", "(lambda args (error \"r07-raised\"))", 3, "s"),
  [n |-> "cloesc", c |-> "(lambda args (r07k 7))", pre |-> "", tier |-> 3, mag |-> "s", wrap |-> TRUE],
  K("prim", "car", 3, "s"),
  K("bytes", "(bytevector 1 2 3)", 3, "s"),
  K("iport", "(open-input-string \"abc\")", 3, "s"),
  [n |-> "struct", c |-> "(r07pt@@ 1 2)", pre |-> "(struct r07pt@@ (x y))", tier |-> 3, mag |-> "s", wrap |-> FALSE],
  K("cont", "(call/cc (lambda (k) k))", 3, "s"),
  \* ---- tier 4
  K("fnegz", "(- 0.0)", 4, "s"),
  K("cplx", "(make-rectangular 1 2)", 4, "s"),
  K("strnum", "\"12\"", 4, "s"),
  K("chr0", "(integer->char 0)", 4, "s"),
  K("lstmix", "(list (quote a) \"b\" #\\c 1.5 (list) (vector 1))", 4, "s"),
  K("ivec0", "(immutable-vector)", 4, "s"),
  K("hash0", "(hash)", 4, "s"),
  K("clov", "(lambda args args)", 4, "s"),
  K("clopred", "(lambda (x) #t)", 4, "s"),
  K("primv", "+", 4, "s"),
  K("bytes0", "(bytevector)", 4, "s"),
  K("oport", "(open-output-string)", 4, "s"),
  K("eof", "(eof-object)", 4, "s"),
  K("stream", "(stream-cons 1 (lambda () empty-stream))", 4, "s"),
  K("stream0", "empty-stream", 4, "s"),
  K("xduce", "(mapping (lambda (x) x))", 4, "s"),
  K("param", "(make-parameter 1)", 4, "s"),
  K("ok", "(Ok 1)", 4, "s"),
  K("none", "(None)", 4, "s"),
  K("kw", "(quote #:kw)", 4, "s"),
  K("mutex", "(mutex)", 4, "s"),
  K("thread", "(spawn-native-thread (lambda () 1))", 4, "s"),
  K("weak", "(make-weak-box 1)", 4, "s"),
  K("instant", "(instant/now)", 4, "s"),
  K("duration", "(duration-since (instant/now) (instant/now))", 4, "s"),
  K("errobj", "(with-handler (lambda (e) e) (error \"x\"))", 4, "s"),
  K("stx", "#'a", 4, "s"),
  K("promise", "(delay 1)", 4, "s")
>>

NK == Len(Kinds)
KindsUpTo(t) == {k \in 1..NK : Kinds[k].tier <= t}

(* The DENY list: builtins with effects OUTSIDE the engine, or that block on *)
(* something outside the script's control.  Everything else that is bound   *)
(* at top level in a fresh engine is called.  (The replayer runs with stdin *)
(* = /dev/null and stdout/stderr discarded: reading stdin and printing are  *)
(* harmless and stay in.)                                                   *)
Deny == <<
  [name |-> "delete-file!", why |-> "file system: delete"],
  [name |-> "delete-directory!", why |-> "file system: delete"],
  [name |-> "create-directory!", why |-> "file system: write"],
  [name |-> "copy-directory-recursively!", why |-> "file system: write"],
  [name |-> "rename-file-or-directory!", why |-> "file system: write"],
  [name |-> "open-output-file", why |-> "file system: write"],
  [name |-> "call-with-output-file", why |-> "file system: write"],
  [name |-> "with-output-to-file", why |-> "file system: write"],
  [name |-> "change-current-directory!", why |-> "process-global state"],
  [name |-> "set-env-var!", why |-> "process-global state"],
  [name |-> "#%build-dylib", why |-> "spawns cargo"],
  [name |-> "spawn-process", why |-> "process spawn"],
  [name |-> "run!", why |-> "process spawn"],
  [name |-> "kill", why |-> "process signal"],
  [name |-> "subprocess-kill", why |-> "process signal"],
  [name |-> "wait", why |-> "process wait"],
  [name |-> "wait->stdout", why |-> "process wait"],
  [name |-> "process-wait", why |-> "process wait"],
  [name |-> "time/sleep-ms", why |-> "sleeps"],
  [name |-> "channel/recv", why |-> "blocks on an empty channel by design"],
  [name |-> "receivers-select", why |-> "blocks by design"],
  [name |-> "lock-acquire!", why |-> "blocks by design (second acquire of a held mutex)"],
  [name |-> "thread-suspend", why |-> "suspends a thread by design"],
  [name |-> "#%run-will-executor", why |-> "blocks by design"],
  [name |-> "will-execute", why |-> "blocks by design"],
  [name |-> "breakpoint!", why |-> "interactive"],
  [name |-> "Engine::new", why |-> "0.4 s per call (budget)"],
  [name |-> "emit", why |-> "the harness's own observation channel"],
  [name |-> "opaque", why |-> "the harness's own identity function"]
>>
DenyNames == {Deny[i].name : i \in 1..Len(Deny)}

(* The builtin table of the real engine: sequence of [name, lo, hi, cap].   *)
(* hi = -1: no upper bound; lo = hi = -1: arity not declared.               *)
Table == IF MODE = "matrix" THEN ndJsonDeserialize(IOEnv.ROBUST_TABLE) ELSE << >>
NF == Len(Table)
Allowed(i) == Table[i].name \notin DenyNames

Declared(t) == ~(t.lo = -1 /\ t.hi = -1)
Fits(t, n) == IF Declared(t) THEN t.lo <= n /\ (t.hi = -1 \/ n <= t.hi) ELSE TRUE
\* arities at which the builtin is called with arguments of every kind
ValidAr(t) == LET small == {n \in 0..3 : Fits(t, n)}
              IN IF small # {} THEN small
                 ELSE IF t.lo <= 6 THEN {t.lo} ELSE {}
\* one argument too few / too many (all arguments fx1): must be an error VALUE
WrongAr(t) == IF ~Declared(t) THEN {}
              ELSE (IF t.lo >= 1 THEN {t.lo - 1} ELSE {})
                   \cup (IF t.hi >= 0 /\ t.hi < 7 THEN {t.hi + 1} ELSE {})

Fx1 == CHOOSE k \in 1..NK : Kinds[k].n = "fx1"

\* the exhaustive kind set for n arguments
Exh(n) == IF n = 1 THEN KindsUpTo(T1) ELSE IF n = 2 THEN KindsUpTo(T2)
          ELSE IF n = 3 THEN KindsUpTo(T3) ELSE {}
ExhOn(n) == (n = 1) \/ (n = 2 /\ T2 >= 1) \/ (n = 3 /\ T3 >= 1)
NSamples(n) == IF n = 1 THEN 0 ELSE IF n = 2 THEN NS2 ELSE IF n = 3 THEN NS3 ELSE NSBIG
SampleArgs(f, n, j) == [p \in 1..n |-> (Mix4(f, n, j, p) % NK) + 1]

(* The procedure-argument family ("hof"): one argument position holds a     *)
(* procedure - of arity 0 / 1 / 2 / any, raising, ESCAPING through a        *)
(* continuation, a native function, a continuation - the other positions    *)
(* hold one kind of data.  Higher-order builtins call it with the right or  *)
(* the wrong number of arguments; the others must reject it.                *)
KindIx(name) == CHOOSE k \in 1..NK : Kinds[k].n = name
ProcKinds == {KindIx(x) : x \in {"clo0", "clo1", "clo2", "clov", "cloerr", "cloesc", "prim", "cont"}}
HofData == IF HOF = 1 THEN {KindIx("lst")}
           ELSE {KindIx(x) : x \in {"lst", "nil", "vec", "fx1", "hash", "str", "stream", "xduce"}}
HofArgs(n, pos, pk, dk) == [p \in 1..n |-> IF p = pos THEN pk ELSE dk]

CallSrc(name, as) ==
  LET call == "(" \o Join(<<name>> \o [p \in 1..Len(as) |-> Kinds[as[p]].c], " ") \o ")"
  IN IF \E p \in 1..Len(as) : Kinds[as[p]].wrap
     THEN "(call/cc (lambda (r07k) " \o call \o "))" ELSE call
PreSrc(as) == LET ps == {Kinds[as[p]].pre : p \in 1..Len(as)} \ {""}
              IN IF ps = {} THEN "" ELSE (CHOOSE x \in ps : TRUE)
Huge(as) == \E p \in 1..Len(as) : Kinds[as[p]].mag = "h"

MatrixCase(f, as, how) ==
  LET d == ((f + Len(as)) % 7) + 1
      g == [d |-> d, g |-> 1, p |-> 1]
  IN [k |-> "call", fn |-> Table[f].name, how |-> how, n |-> Len(as),
      ks |-> [p \in 1..Len(as) |-> Kinds[as[p]].n],
      huge |-> Huge(as), pre |-> PreSrc(as), d |-> d,
      src |-> CallSrc(Table[f].name, as), probe |-> Probe(g)]

-----------------------------------------------------------------------------
(* MODE "stages": failing expressions by stage                             *)
(*   st    stage at which the unit fails                                   *)
(*   e     the failing expression; x = the same with \" and \\ escaped     *)
(*         (for the eval context)                                          *)
S(n, st, e, x) == [n |-> n, st |-> st, e |-> e, x |-> x]
Stages == <<
  S("parse-if", "parse", "(if)", "(if)"),
  S("parse-let", "parse", "(let ((r07x)) r07x)", "(let ((r07x)) r07x)"),
  S("expand-nomatch", "expand", "(r07m@@)", "(r07m@@)"),
  S("compile-free", "compile", "(r07undef@@ 1)", "(r07undef@@ 1)"),
  S("rt-type", "run", "(car (opaque 5))", "(car (opaque 5))"),
  S("rt-arity-prim", "run", "((opaque cons) 1)", "((opaque cons) 1)"),
  S("rt-arity-closure", "run", "((opaque (lambda (r07x) r07x)))", "((opaque (lambda (r07x) r07x)))"),
  S("rt-nonproc", "run", "((opaque 5) 1)", "((opaque 5) 1)"),
  S("rt-user", "run", "(error \"r07-user\" 1)", "(error \\\"r07-user\\\" 1)"),
  S("rt-contract", "run", "(r07c@@ (opaque \"a\"))", "(r07c@@ (opaque \\\"a\\\"))"),
  S("rt-vecidx", "run", "(vector-ref (vector 1 2) (opaque 5))", "(vector-ref (vector 1 2) (opaque 5))"),
  S("rt-div0", "run", "(/ 1 (opaque 0))", "(/ 1 (opaque 0))"),
  S("rt-conv", "run", "(integer->char (opaque -1))", "(integer->char (opaque -1))"),
  S("rt-stream-tail", "run", "(transduce (stream-cons 1 (lambda () (opaque 5))) (taking 2) (into-list))",
    "(transduce (stream-cons 1 (lambda () (opaque 5))) (taking 2) (into-list))"),   \* the tail thunk returns a non-stream
  S("rt-assert", "run", "(assert! (opaque #f))", "(assert! (opaque #f))"),
  S("none", "none", "(opaque 9)", "(opaque 9)")          \* control: no failure
>>
NS == Len(Stages)

\* names the failing expressions rely on (part of the set-up unit of a stages / inter case)
StageSetup ==
  " (define-syntax r07m@@ (syntax-rules () ((_ a) a)))"
  \o " (define/contract (r07c@@ x) (->/c int? int?) x)"
  \o " (define r07p@@ (make-parameter 1))"

(* Contexts.  A context is a program with a hole.  `RunCtx` is its          *)
(* semantics: the sequence of values emitted when the hole (a) returns,     *)
(* (b) fails at run time, and whether a failure is handled inside.          *)
(*   pre    emitted before the hole is evaluated                            *)
(*   unw    emitted while the failure unwinds (wind `after` thunk), before  *)
(*          any handler output                                              *)
(*   post   emitted after the hole returned normally                        *)
(*   h      "none" the failure reaches the host; "val" a handler inside the *)
(*          context turns it into the value (quote rec), emitted last,      *)
(*          after the handler's own emit (quote h)                          *)
(*   text   <<before hole, after hole>>                                     *)
(*   evalc  TRUE: the hole is compiled at RUN time (eval-string)            *)
C(n, a, b, pre, unw, post, h) ==
  [n |-> n, a |-> a, b |-> b, pre |-> pre, unw |-> unw, post |-> post, h |-> h, evalc |-> FALSE]
Contexts == <<
  C("top", "(emit (quote pre)) ", " (emit (quote post))", <<"pre">>, << >>, <<"post">>, "none"),
  C("begin", "(begin (emit (quote pre)) ", " (emit (quote post)))", <<"pre">>, << >>, <<"post">>, "none"),
  C("fn1", "(define (r07c1@@) (emit (quote pre)) ", " (emit (quote post))) (r07c1@@)", <<"pre">>, << >>, <<"post">>, "none"),
  C("fn50", "(define (r07n@@ k) (if (= k 0) (begin (emit (quote pre)) ", " (emit (quote post)) 0) (+ 1 (r07n@@ (- k 1))))) (emit (r07n@@ 50))",
    <<"pre">>, << >>, <<"post", "50">>, "none"),
  C("map", "(emit (map (lambda (x) (emit x) (if (= x 2) ", " x)) (list 1 2 3)))", <<"1", "2">>, << >>, <<"3", "(1 9 3)">>, "none"),
  C("foldl", "(emit (foldl (lambda (x a) (emit x) (if (= x 2) (+ a ", ") (+ a x))) 0 (list 1 2 3)))", <<"1", "2">>, << >>, <<"3", "13">>, "none"),
  C("for-each", "(for-each (lambda (x) (emit x) (if (= x 2) ", " x)) (list 1 2 3)) (emit (quote post))", <<"1", "2">>, << >>, <<"3", "post">>, "none"),
  C("transduce", "(emit (transduce (list 1 2 3) (mapping (lambda (x) (emit x) (if (= x 2) ", " x))) (into-list)))", <<"1", "2">>, << >>, <<"3", "(1 9 3)">>, "none"),
  C("stream", "(emit (transduce (stream-cons 1 (lambda () (emit (quote pre)) (stream-cons ", " (lambda () empty-stream)))) (taking 2) (into-list)))",
    <<"pre">>, << >>, <<"(1 9)">>, "none"),
  C("apply", "(emit (apply (lambda (x) (emit (quote pre)) ", ") (list 1)))", <<"pre">>, << >>, <<"9">>, "none"),
  C("values", "(emit (call-with-values (lambda () (values 1 2)) (lambda (a b) (emit (quote pre)) ", ")))", <<"pre">>, << >>, <<"9">>, "none"),
  C("force", "(emit (force (delay (begin (emit (quote pre)) ", "))))", <<"pre">>, << >>, <<"9">>, "none"),
  C("callcc", "(emit (call/cc (lambda (k) (emit (quote pre)) (k ", "))))", <<"pre">>, << >>, <<"9">>, "none"),
  C("handled", "(emit (with-handler (lambda (e) (emit (quote h)) (quote rec)) (emit (quote pre)) ", " (emit (quote post)) (quote fin)))",
    <<"pre">>, << >>, <<"post", "fin">>, "val"),
  C("handled-escape", "(emit (call/cc (lambda (k) (with-handler (lambda (e) (emit (quote h)) (k (quote rec))) (emit (quote pre)) ", " (emit (quote post)) (quote fin)))))",
    <<"pre">>, << >>, <<"post", "fin">>, "val"),
  C("in-handler", "(emit (with-handler (lambda (e) (emit (quote h1)) ", ") (emit (quote pre)) (car (opaque 6)) (emit (quote never))))",
    <<"pre", "h1">>, << >>, <<"9">>, "none"),
  C("wind-before", "(dynamic-wind (lambda () (emit (quote pre)) ", ") (lambda () (emit (quote body))) (lambda () (emit (quote aft))))",
    <<"pre">>, << >>, <<"body", "aft">>, "none"),
  C("wind-body", "(dynamic-wind (lambda () (emit (quote bef))) (lambda () (emit (quote pre)) ", ") (lambda () (emit (quote aft))))",
    <<"bef", "pre">>, <<"aft">>, <<"aft">>, "none"),
  C("wind-after", "(dynamic-wind (lambda () (emit (quote bef))) (lambda () (emit (quote body))) (lambda () (emit (quote pre)) ", "))",
    <<"bef", "body", "pre">>, << >>, << >>, "none"),
  C("wind-handled", "(emit (with-handler (lambda (e) (emit (quote h)) (quote rec)) (dynamic-wind (lambda () (emit (quote bef))) (lambda () (emit (quote pre)) ", ") (lambda () (emit (quote aft))))))",
    <<"bef", "pre">>, <<"aft">>, <<"aft", "9">>, "val"),
  C("param", "(parameterize ((r07p@@ 2)) (emit (r07p@@)) ", " (emit (quote post)))", <<"2">>, << >>, <<"post">>, "none"),
  C("thread", "(emit (thread-join! (spawn-native-thread (lambda () (emit (quote pre)) ", "))))", <<"pre">>, << >>, <<"9">>, "none"),
  C("thread-handled", "(emit (with-handler (lambda (e) (emit (quote h)) (quote rec)) (thread-join! (spawn-native-thread (lambda () (emit (quote pre)) ", ")))))",
    <<"pre">>, << >>, <<"9">>, "val"),
  [n |-> "eval", a |-> "(emit (quote pre)) (emit (eval-string \"", b |-> "\")) (emit (quote post))",
   pre |-> <<"pre">>, unw |-> << >>, post |-> <<"9", "post">>, h |-> "none", evalc |-> TRUE],
  [n |-> "eval-handled", a |-> "(emit (with-handler (lambda (e) (emit (quote h)) (quote rec)) (emit (quote pre)) (eval-string \"", b |-> "\")))",
   pre |-> <<"pre">>, unw |-> << >>, post |-> <<"9">>, h |-> "val", evalc |-> TRUE]
>>
NC == Len(Contexts)

UnitSrc(c, s) == c.a \o (IF c.evalc THEN s.x ELSE s.e) \o c.b

(* The semantics of one unit = context c with failing expression s,         *)
(* evaluated in state g.  Phases: a unit that fails before `run` emits      *)
(* nothing - unless the hole is compiled at run time (evalc), where the     *)
(* failure is an ordinary run-time failure of the enclosing program.        *)
RunCtx(c, s) ==
  LET early == s.st \in {"parse", "expand", "compile"} /\ ~c.evalc
      fails == s.st # "none"
  IN IF ~fails THEN [out |-> "ok", emits |-> c.pre \o c.post]
     ELSE IF early THEN [out |-> "err", emits |-> << >>]
     ELSE IF c.h = "val" THEN [out |-> "ok", emits |-> c.pre \o c.unw \o <<"h", "rec">>]
     ELSE [out |-> "err", emits |-> c.pre \o c.unw]

\* after the unit: the parameter is back to its outer value, the stacks are empty
AfterSrc == "(emit (r07p@@)) " \o ProbeSrc
After(g) == <<ToString(g.p)>> \o Probe(g)

(* Definitions that FOLLOW the failing form in the same unit.  Eval(G, unit) = err leaves G       *)
(* unchanged: the names are not bound afterwards, so a later reference to one - as a value or as   *)
(* the operator of a call - is an error (never a crash: Steel interns the names of a unit before   *)
(* it runs, so the failed unit leaves names without a slot behind).  When the unit completes (the *)
(* failure was handled inside it) they are bound.                                                 *)
LateSrc == " (define (r07late@@ x) (+ x 1)) (define r07latev@@ 5)"
LateProbes(out) == << [src |-> "(emit (r07late@@ 1))", out |-> out, emits |-> IF out = "ok" THEN <<"2">> ELSE << >>],
                      [src |-> "(emit r07latev@@)", out |-> out, emits |-> IF out = "ok" THEN <<"5">> ELSE << >>],
                      [src |-> "(emit (list (r07late@@ 2) r07latev@@))", out |-> out, emits |-> IF out = "ok" THEN <<"(3 5)">> ELSE << >>] >>
StageCase(ci, si) ==
  LET c == Contexts[ci]  s == Stages[si]  r == RunCtx(c, s)
      d == ((ci + si) % 7) + 1
      g == [d |-> d, g |-> 1, p |-> 1]
  IN [k |-> "stage", ctx |-> c.n, stage |-> s.n, st |-> s.st, d |-> d,
      src |-> UnitSrc(c, s) \o LateSrc, out |-> r.out, emits |-> r.emits, late |-> LateProbes(r.out),
      ctl |-> UnitSrc(c, Stages[NS]), ctlemits |-> RunCtx(c, Stages[NS]).emits,
      after |-> After(g)]

(* Re-entering, from a LATER unit, a continuation captured by an EARLIER     *)
(* unit, with a failing unit in between.  What "the rest of an earlier      *)
(* top-level form" means is implementation defined; the contract only says: *)
(* no crash, no hang, and the engine state is intact afterwards.            *)
CaptureSrc == "(define r07k@@ #f) (emit (+ 1 (call/cc (lambda (k) (set! r07k@@ k) 1)))) (emit (quote after))"
ReenterCase(si) ==
  LET c == Contexts[1]  s == Stages[si]  r == RunCtx(c, s)
      d == (si % 7) + 1
      g == [d |-> d, g |-> 1, p |-> 1]
  IN [k |-> "reenter", stage |-> s.n, d |-> d, capture |-> CaptureSrc, capemits |-> <<"2", "after">>,
      src |-> UnitSrc(c, s), out |-> r.out, emits |-> r.emits,
      reenter |-> "(r07k@@ 5)", after |-> After(g)]

-----------------------------------------------------------------------------
(* MODE "inter": histories on one engine.  Units:                           *)
(*   fail(c, s)   a context with a failing expression  (G unchanged)        *)
(*   setd(v)      (set! r07d v)            G.d := v                         *)
(*   redef(v)     (define (r07g x) (+ x v))  G.g := v                       *)
(*   badredef(v)  a unit that redefines r07g AND fails in the compile       *)
(*                phase: nothing of it takes effect (G unchanged)           *)
(*   badset(v)    (set! r07d v) followed by a run-time failure in the same  *)
(*                unit: the assignment HAS happened (G.d := v), the         *)
(*                rest of the unit is abandoned                             *)
HistStep(g, u) ==
  IF u.op = "fail" THEN
       LET r == RunCtx(Contexts[u.c], Stages[u.s])
       IN [src |-> UnitSrc(Contexts[u.c], Stages[u.s]), out |-> r.out, emits |-> r.emits, g |-> g]
  ELSE IF u.op = "setd" THEN
       [src |-> "(set! r07d@@ " \o ToString(u.v) \o ")", out |-> "ok", emits |-> << >>, g |-> [g EXCEPT !.d = u.v]]
  ELSE IF u.op = "redef" THEN
       [src |-> "(define (r07g@@ x) (+ x " \o ToString(u.v) \o "))", out |-> "ok", emits |-> << >>, g |-> [g EXCEPT !.g = u.v]]
  ELSE IF u.op = "badredef" THEN
       [src |-> "(define (r07g@@ x) (+ x " \o ToString(u.v) \o ")) (emit (quote never)) (r07undef@@ 1)",
        out |-> "err", emits |-> << >>, g |-> g]
  ELSE \* badset
       [src |-> "(set! r07d@@ " \o ToString(u.v) \o ") (emit (quote did)) (car (opaque 5)) (emit (quote never))",
        out |-> "err", emits |-> <<"did">>, g |-> [g EXCEPT !.d = u.v]]

\* all stages but the two that are known to panic (a panic ends a history) and the control
HistStages == {i \in 1..NS : Stages[i].n \notin {"rt-assert", "rt-stream-tail", "none"}}
Units == [op : {"fail"}, c : 1..NC, s : HistStages, v : {0}]
         \cup [op : {"setd", "redef", "badredef", "badset"}, c : {0}, s : {0}, v : 2..5]

-----------------------------------------------------------------------------
(* MODE "deep": program TEXT  pre A^D mid B^D post  (the driver performs    *)
(* only the repetition) and recursion families.                            *)
(*   val   "d": the value is D;  "lit": the literal `lit`;  "": the value  *)
(*         is not compared (only: returns or error value, then the probe)  *)
(*   maxd  largest depth index generated (depth = 10^(index+1))            *)
SlowFamilies == {"nest-let", "nest-define", "wide-letstar", "nest-cond", "wide-cond", "nest-macro-use",
                 "nest-quoted-vector", "nest-when", "nest-and", "nest-quasi-tick", "rec-via-eval"}
F(n, pre, a, mid, b, post, val, lit, maxd) ==
  [n |-> n, pre |-> pre, a |-> a, mid |-> mid, b |-> b, post |-> post, val |-> val, lit |-> lit, maxd |-> maxd,
   slow |-> (n \in SlowFamilies)]
Families == <<
  F("open-paren", "", "(", "", "", "", "", "", 5),
  F("close-paren", "", ")", "", "", "", "", "", 5),
  F("open-vector", "", "#(", "", "", "", "", "", 5),
  F("open-bracket", "", "[", "", "", "", "", "", 5),
  F("open-string-in-list", "", "(\"", "", "", "", "", "", 4),
  F("nest-app", "", "(+ 1 ", "0", ")", "", "d", "", 5),
  F("nest-list-call", "", "(list ", "", ")", "", "", "", 4),
  F("nest-quote-tick", "", "'", "r07s", "", "", "", "", 5),
  F("nest-quasi-tick", "", "`", "r07s", "", "", "", "", 4),
  F("nest-unquote-tick", "`", ",", "r07s", "", "", "", "", 4),
  F("nest-quoted-list", "(quote ", "(", "", ")", ")", "", "", 5),
  F("nest-quoted-vector", "(quote ", "#(", "", ")", ")", "", "", 4),
  F("nest-quoted-pair", "(quote ", "(1 . ", "()", ")", ")", "", "", 4),
  F("nest-let", "", "(let ((r07x 1)) ", "7", ")", "", "lit", "7", 4),
  F("nest-lambda", "", "((lambda (r07x) ", "7", ") 1)", "", "lit", "7", 4),
  F("nest-lambda-value", "", "(lambda (r07x) ", "7", ")", "", "", "", 4),
  F("nest-begin", "", "(begin ", "7", ")", "", "lit", "7", 5),
  F("nest-if", "", "(if #t ", "7", " 0)", "", "lit", "7", 4),
  F("nest-when", "", "(when #t ", "7", ")", "", "lit", "7", 4),
  F("nest-and", "", "(and #t ", "7", ")", "", "lit", "7", 4),
  F("nest-cond", "", "(cond (#f 0) (else ", "7", "))", "", "lit", "7", 4),
  F("nest-define", "", "(define (r07q@@) ", "7", ")", "", "", "", 3),
  F("nest-string-append", "", "(string-append \"a\" ", "\"\"", ")", "", "", "", 4),
  F("nest-block-comment", "", "#|", "", "|#", " 7", "lit", "7", 5),
  F("nest-datum-comment", "", "#;", "1 7", "", "", "", "", 4),
  F("nest-macro-use", "", "(when #t (unless #f ", "7", "))", "", "lit", "7", 3),
  F("wide-args", "(+", " 1", ")", "", "", "d", "", 5),
  F("wide-list-call", "(length (list", " 1", "))", "", "", "d", "", 5),
  F("wide-list-literal", "(length (quote (", " 1", ")))", "", "", "d", "", 5),
  F("wide-vector-literal", "(vector-length (quote #(", " 1", ")))", "", "", "d", "", 5),
  F("wide-begin", "(begin", " 7", ")", "", "", "lit", "7", 5),
  F("wide-toplevel", "", " 7", "", "", "", "lit", "7", 5),
  F("wide-toplevel-defines", "", " (define r07w@@ 7)", " r07w@@", "", "", "lit", "7", 4),
  F("wide-letstar", "(let* (", "(r07v 7) ", ") r07v)", "", "", "lit", "7", 4),
  F("wide-cond", "(cond", " (#f 0)", " (else 7))", "", "", "lit", "7", 4),
  F("wide-and", "(and", " #t", " 7)", "", "", "lit", "7", 5),
  F("wide-string-append", "(string-length (string-append", " \"a\"", "))", "", "", "d", "", 4),
  F("long-string", "(string-length \"", "a", "\")", "", "", "d", "", 5),
  F("long-string-escapes", "(string-length \"", "\\n", "\")", "", "", "d", "", 5),
  F("long-symbol", "(string-length (symbol->string (quote ", "a", ")))", "", "", "d", "", 5),
  F("long-identifier-free", "", "a", "", "", "", "", "", 5),
  F("long-number", "(- ", "1", " ", "1", ")", "lit", "0", 4),
  F("long-decimal", "(< 0.", "1", " 1)", "", "", "lit", "#true", 4),
  F("long-comment", ";", "a", "\n7", "", "", "lit", "7", 5),
  F("long-char-name", "#\\", "a", "", "", "", "", "", 4),
  F("long-hash-token", "#", "x", "", "", "", "", "", 4)
>>

R(n, def, ca, cb, val, maxd) == [n |-> n, def |-> def, ca |-> ca, cb |-> cb, val |-> val, maxd |-> maxd]
Recursions == <<
  R("rec-direct", "(define (r07r@@ n) (if (= n 0) 0 (+ 1 (r07r@@ (- n 1)))))", "(r07r@@ ", ")", "d", 6),
  R("rec-mutual", "(define (r07r@@ n) (if (= n 0) 0 (+ 1 (r07s@@ (- n 1))))) (define (r07s@@ n) (if (= n 0) 0 (+ 1 (r07r@@ (- n 1)))))", "(r07r@@ ", ")", "d", 6),
  R("rec-list-build", "(define (r07r@@ n) (if (= n 0) (list) (cons n (r07r@@ (- n 1)))))", "(length (r07r@@ ", "))", "d", 6),
  R("rec-via-map", "(define (r07r@@ n) (if (= n 0) 0 (+ 1 (car (map (lambda (x) (r07r@@ (- n 1))) (list 1))))))", "(r07r@@ ", ")", "d", 5),
  R("rec-via-apply", "(define (r07r@@ n) (if (= n 0) 0 (+ 1 (apply r07r@@ (list (- n 1))))))", "(r07r@@ ", ")", "d", 5),
  R("rec-via-transduce", "(define (r07r@@ n) (if (= n 0) 0 (+ 1 (car (transduce (list 1) (mapping (lambda (x) (r07r@@ (- n 1)))) (into-list))))))", "(r07r@@ ", ")", "d", 5),
  R("rec-via-handler", "(define (r07r@@ n) (if (= n 0) 0 (+ 1 (with-handler (lambda (e) 0) (r07r@@ (- n 1))))))", "(r07r@@ ", ")", "d", 5),
  R("rec-via-wind", "(define (r07r@@ n) (if (= n 0) 0 (+ 1 (dynamic-wind (lambda () 0) (lambda () (r07r@@ (- n 1))) (lambda () 0)))))", "(r07r@@ ", ")", "d", 5),
  R("rec-via-callcc", "(define (r07r@@ n) (if (= n 0) 0 (+ 1 (call/cc (lambda (k) (r07r@@ (- n 1)))))))", "(r07r@@ ", ")", "d", 5),
  R("rec-via-stream", "(define (r07r@@ n) (if (= n 0) 0 (+ 1 (stream-car ((#%stream-cdr (stream-cons 0 (lambda () (stream-cons (r07r@@ (- n 1)) (lambda () empty-stream))))))))))", "(r07r@@ ", ")", "d", 4),
  R("rec-via-sort", "(define (r07r@@ n) (if (= n 0) 0 (+ 1 (begin (sort (list 2 1) (lambda (a b) (r07r@@ (- n 1)) (< a b))) (- n 1)))))", "(r07r@@ ", ")", "d", 3),
  R("rec-via-eval", "(define (r07r@@ n) (if (= n 0) 0 (+ 1 (eval (list (quote r07r@@) (- n 1))))))", "(r07r@@ ", ")", "d", 4),
  R("rec-via-thread", "(define (r07r@@ n) (if (= n 0) 0 (+ 1 (r07r@@ (- n 1)))))", "(thread-join! (spawn-native-thread (lambda () (r07r@@ ", "))))", "d", 5),
  R("rec-error-at-bottom", "(define (r07r@@ n) (if (= n 0) (car (opaque 5)) (+ 1 (r07r@@ (- n 1)))))", "(r07r@@ ", ")", "err", 6),
  R("rec-handled-at-top", "(define (r07r@@ n) (if (= n 0) (car (opaque 5)) (+ 1 (r07r@@ (- n 1)))))", "(with-handler (lambda (e) (quote rec)) (r07r@@ ", "))", "rec", 6),
  R("rec-escape-from-bottom", "(define (r07r@@ n k) (if (= n 0) (k (quote rec)) (+ 1 (r07r@@ (- n 1) k))))", "(call/cc (lambda (k) (r07r@@ ", " k)))", "rec", 6),
  R("rec-string-build", "(define (r07r@@ n) (if (= n 0) \"\" (string-append \"a\" (r07r@@ (- n 1)))))", "(string-length (r07r@@ ", "))", "d", 4)
>>

\* a unit that RETURNS must return `val` (a unit may instead report an error value: the class is
\* `noncrash`, except where the program itself raises: class `err`)
ValOf(v, lit, depth) == IF v = "d" THEN ToString(depth) ELSE IF v = "lit" THEN lit
                        ELSE IF v = "rec" THEN "rec" ELSE ""
DeepText(fm, di) ==
  LET depth == Pow10(di + 1)  d == (di % 7) + 1
  IN [k |-> "deep", fam |-> fm.n, shape |-> "text", pre |-> fm.pre, a |-> fm.a, mid |-> fm.mid, b |-> fm.b, post |-> fm.post,
      depth |-> depth, huge |-> (depth >= 100000), class |-> "noncrash", val |-> ValOf(fm.val, fm.lit, depth), d |-> d,
      probe |-> Probe([d |-> d, g |-> 1, p |-> 1])]
\* one engine, many successful units: the engine must not run out of a process-wide resource
ManyUnits(n) == [k |-> "units", n |-> n, src |-> "(define (r07l@@ x) (+ x 1))", d |-> 3,
                 probe |-> Probe([d |-> 3, g |-> 1, p |-> 1])]
DeepRec(r, di) ==
  LET depth == Pow10(di + 1)  d == (di % 7) + 1
  IN [k |-> "deep", fam |-> r.n, shape |-> "rec", def |-> r.def, call |-> r.ca \o ToString(depth) \o r.cb,
      depth |-> depth, huge |-> (depth >= 100000), class |-> (IF r.val = "err" THEN "err" ELSE "noncrash"), val |-> ValOf(r.val, "", depth), d |-> d,
      probe |-> Probe([d |-> d, g |-> 1, p |-> 1])]

-----------------------------------------------------------------------------
(* MODE "forms": every special form / binding construct applied to every tuple of OPERAND SHAPES   *)
(* (well-formed and malformed alike).  The contract: Eval(G, unit) is ok or err - within the time  *)
(* limit, so a parser / expander that does not terminate is a violation - and G is unchanged when  *)
(* it is err.  (The unit may also be accepted: e.g. (begin) or (let () 1); a definition it makes   *)
(* uses names the probe does not look at.)                                                         *)
FormHeads == <<"define", "lambda", "let", "let*", "letrec", "letrec*", "if", "set!", "begin", "quote", "quasiquote",
               "unquote", "unquote-splicing", "define-syntax", "syntax-rules", "let-syntax", "cond", "case", "when", "unless",
               "and", "or", "do", "struct", "define-struct", "require", "provide", "define-values", "let-values", "call/cc",
               "with-handler", "parameterize", "dynamic-wind", "delay", "case-lambda", "match", "define/contract", "lambda*",
               "let loop", "else", "=>", "...", "module", "begin-for-syntax", "defmacro", "syntax-case", "while", "for-each", "apply">>
FormShapes == <<"()", "(())", "r07a@@", "1", "(r07a@@)", "((r07a@@))", "(r07a@@ 1)", "((r07a@@ 1))", "(() r07a@@)", "(r07a@@ . r07b@@)",
                "((r07a@@ . r07b@@) 1)", "#:kw", "\"s\"", "(r07a@@ r07a@@)", "((r07a@@ 1) (r07a@@ 2))", "...", "[else]", "(r07a@@ ...)", "'()", "#t",
                "((_ r07a@@) r07a@@)", "(())()", "(1 . 2)", "(quote)", "(1)">>
\* a small set for the three-operand product
FormShapes3 == {1, 3, 4, 5, 8, 9}
NH == Len(FormHeads)
NSH == Len(FormShapes)
FormSrc(h, ops) == "(" \o Join(<<FormHeads[h]>> \o [i \in 1..Len(ops) |-> FormShapes[ops[i]]], " ") \o ")"
\* Two units per form: `wrapped` puts it into the body of a procedure that is never called - it is parsed,
\* expanded and compiled but does not run, so it must terminate (ok or err); `src` is the form as a whole
\* top-level unit, which also runs: some accepted forms loop by design ((while 1), (let f () (f))), so
\* there non-termination is a violation only if the wrapped unit does not terminate either.
FormCase(h, ops) ==
  LET d == ((h + Len(ops)) % 7) + 1
  IN [k |-> "form", head |-> FormHeads[h], ops |-> [i \in 1..Len(ops) |-> FormShapes[ops[i]]], d |-> d,
      src |-> FormSrc(h, ops), wrapped |-> "(define (r07w@@) " \o FormSrc(h, ops) \o ")",
      probe |-> Probe([d |-> d, g |-> 1, p |-> 1])]

-----------------------------------------------------------------------------
(* The state machine                                                       *)

Init == /\ phase = "start" /\ fi = 0 /\ ar = 0 /\ args = << >> /\ fam = "" /\ hist = << >> /\ G = G0

\* ---- matrix
\* A capped builtin (crash budget, set by the driver from the canary round: its crashes are known
\* findings and each one costs a process restart) gets NCAP sampled tuples instead of the products.
Capped(i) == Table[i].cap = 1
MatrixPick ==
  /\ MODE = "matrix" /\ phase = "start"
  /\ \E i \in 1..NF :
       /\ Allowed(i)
       /\ fi' = i
       /\ \/ \* exhaustive tuples over the tier sets
             /\ ~Capped(i)
             /\ \E n \in ValidAr(Table[i]) :
                  /\ n = 0 \/ (n \in 1..3 /\ ExhOn(n))
                  /\ ar' = n /\ args' = << >> /\ fam' = "exh" /\ phase' = "args"
          \/ \* seed-sampled tuples over all kinds
             /\ \E n \in ValidAr(Table[i]) : \E j \in 1..(IF Capped(i) THEN NCAP ELSE NSamples(n)) :
                  /\ n >= 1
                  /\ ar' = n /\ args' = SampleArgs(i, n, j) /\ fam' = "smp" /\ phase' = "done"
          \/ \* a procedure in one position, data in the others
             /\ HOF >= 1 /\ ~Capped(i)
             /\ \E n \in ValidAr(Table[i]) \cap {2, 3} : \E pos \in 1..n, pk \in ProcKinds, dk \in HofData :
                  /\ ar' = n /\ args' = HofArgs(n, pos, pk, dk) /\ fam' = "hof" /\ phase' = "done"
          \/ \* one argument too few / too many
             /\ \E n \in WrongAr(Table[i]) :
                  /\ ar' = n /\ args' = [p \in 1..n |-> Fx1] /\ fam' = "arity" /\ phase' = "done"
  /\ UNCHANGED <<hist, G>>

MatrixArg ==
  /\ MODE = "matrix" /\ phase = "args"
  /\ IF Len(args) = ar
     THEN phase' = "done" /\ UNCHANGED args
     ELSE \E k \in Exh(ar) : args' = Append(args, k) /\ phase' = "args"
  /\ UNCHANGED <<fi, ar, fam, hist, G>>

\* ---- stages
StagePick ==
  /\ MODE = "stages" /\ phase = "start"
  /\ \/ \E ci \in 1..NC, si \in 1..NS : fi' = ci /\ ar' = si /\ fam' = "stage"
     \/ \E si \in 1..NS : fi' = 0 /\ ar' = si /\ fam' = "reenter"
  /\ phase' = "done" /\ UNCHANGED <<args, hist, G>>

\* ---- inter
InterStart ==
  /\ MODE = "inter" /\ phase = "start"
  /\ \E d \in 1..7 : G' = [d |-> d, g |-> 1, p |-> 1] /\ fi' = d
  /\ phase' = "hist" /\ UNCHANGED <<ar, args, fam, hist>>
\* two-level choice, so that -simulate (uniform over successors) balances the two classes of units
InterClass ==
  /\ MODE = "inter" /\ phase = "hist" /\ fam = ""
  /\ IF Len(hist) = LEN THEN phase' = "done" /\ UNCHANGED fam
     ELSE phase' = "hist" /\ fam' \in {"fail", "state"}
  /\ UNCHANGED <<fi, ar, args, hist, G>>
InterStep ==
  /\ MODE = "inter" /\ phase = "hist" /\ fam # ""
  /\ \E u \in {x \in Units : (x.op = "fail") <=> (fam = "fail")} :
       LET r == HistStep(G, u)
       IN /\ hist' = Append(hist, [src |-> r.src, out |-> r.out, emits |-> r.emits, after |-> After(r.g)])
          /\ G' = r.g
  /\ fam' = "" /\ UNCHANGED <<phase, fi, ar, args>>

\* ---- deep
DeepPick ==
  /\ MODE = "deep" /\ phase = "start"
  /\ \/ \E i \in 1..Len(Families) : \E di \in 1..MAXD :
          /\ di <= Families[i].maxd /\ (Families[i].slow => di <= MAXDSLOW)
          /\ fi' = i /\ ar' = di /\ fam' = "text"
     \/ \E i \in 1..Len(Recursions) : \E di \in 2..MAXD :
          /\ di <= Recursions[i].maxd /\ (Recursions[i].n \in SlowFamilies => di <= MAXDSLOW)
          /\ fi' = i /\ ar' = di /\ fam' = "rec"
     \/ MAXD >= 4 /\ fi' = 0 /\ ar' = 40000 /\ fam' = "units"
  /\ phase' = "done" /\ UNCHANGED <<args, hist, G>>

\* ---- forms
FormPick ==
  /\ MODE = "forms" /\ phase = "start"
  /\ \E h \in 1..NH :
       /\ fi' = h
       /\ \/ args' = << >>
          \/ \E a \in 1..NSH : args' = <<a>>
          \/ \E a, b \in 1..NSH : args' = <<a, b>>
          \/ \E a, b, c \in FormShapes3 : args' = <<a, b, c>>
  /\ phase' = "done" /\ UNCHANGED <<ar, fam, hist, G>>

Next == MatrixPick \/ MatrixArg \/ StagePick \/ InterStart \/ InterClass \/ InterStep \/ DeepPick \/ FormPick
Spec == Init /\ [][Next]_vars

-----------------------------------------------------------------------------
(* Invariants                                                              *)

TypeOK == /\ phase \in {"start", "args", "hist", "done"}
          /\ Len(args) <= 7

CaseOf ==
  IF MODE = "matrix" THEN MatrixCase(fi, args, fam)
  ELSE IF MODE = "stages" THEN (IF fam = "reenter" THEN ReenterCase(ar) ELSE StageCase(fi, ar))
  ELSE IF MODE = "inter" THEN [k |-> "inter", d |-> fi, hist |-> hist]
  ELSE IF MODE = "forms" THEN FormCase(fi, args)
  ELSE IF fam = "text" THEN DeepText(Families[fi], ar)
  ELSE IF fam = "units" THEN ManyUnits(ar) ELSE DeepRec(Recursions[fi], ar)

Emit == (phase = "done") => PrintT(<<"REPLAY", ToJson(CaseOf)>>)

\* printed once (initial state): the constant texts and the deny list, for the driver / evidence
Proto == (phase = "start") =>
  PrintT(<<"REPLAY", ToJson([k |-> "proto", probe |-> ProbeSrc, after |-> AfterSrc, stagesetup |-> StageSetup,
                              setupA |-> SetupA, setupB |-> SetupB,
                              kinds |-> [i \in 1..NK |-> [n |-> Kinds[i].n, c |-> Kinds[i].c, tier |-> Kinds[i].tier, mag |-> Kinds[i].mag]],
                              deny |-> Deny])>>)
=============================================================================
