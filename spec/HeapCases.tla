------------------------------ MODULE HeapCases ------------------------------
(***************************************************************************)
(* Scenario space for the spec -> impl binding of Heap.tla (C04, C19):     *)
(* WHERE the only handle to a piece of mutable storage lives (the holder   *)
(* kinds of Heap.tla's `Holders`, refined to the program constructs the    *)
(* property lists), WHAT kind of storage it is, HOW it is nested, and      *)
(* WHICH collector/mutator events happen while it is held.  The machine    *)
(* below is Heap.tla's mutator restricted to one tracked object: it        *)
(* computes what every later read must return (the value last stored).     *)
(* TLC enumerates every scenario; checks/c04.py renders each one to a      *)
(* Scheme program for the real engine.                                     *)
(***************************************************************************)
EXTENDS Naturals, Sequences, TLC, Json

CONSTANTS HolderKinds, ObjKinds, NestKinds, MaxEvents
EventKinds == {"gc", "garbage", "write", "read"}

VARIABLES holder, obj, nest, events, cur, nwrites, reads, done
vars == <<holder, obj, nest, events, cur, nwrites, reads, done>>

Init == /\ holder \in HolderKinds /\ obj \in ObjKinds /\ nest \in NestKinds
        /\ events = << >> /\ cur = 0 /\ nwrites = 0 /\ reads = << >> /\ done = FALSE

\* one more event while the holder keeps the object alive
Event(e) ==
  /\ ~done /\ Len(events) < MaxEvents
  /\ events' = Append(events, e)
  /\ IF e = "write" THEN /\ cur' = nwrites + 1 /\ nwrites' = nwrites + 1 /\ UNCHANGED reads
     ELSE IF e = "read" THEN /\ reads' = Append(reads, cur) /\ UNCHANGED <<cur, nwrites>>
     ELSE UNCHANGED <<cur, nwrites, reads>>
  /\ UNCHANGED <<holder, obj, nest, done>>
\* the final read through the holder
Finish == /\ ~done /\ done' = TRUE /\ reads' = Append(reads, cur)
          /\ \E i \in 1..Len(events) : events[i] \in {"gc", "garbage"}     \* a collection can happen
          /\ UNCHANGED <<holder, obj, nest, events, cur, nwrites>>
Next == (\E e \in EventKinds : Event(e)) \/ Finish
Spec == Init /\ [][Next]_vars

Emit == done => PrintT(<<"REPLAY", ToJson([holder |-> holder, obj |-> obj, nest |-> nest,
                                          events |-> events, reads |-> reads])>>)
=============================================================================
