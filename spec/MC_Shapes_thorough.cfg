SPECIFICATION Spec
CONSTANTS
  FAMSEL = {"full", "ring", "func1", "func2", "sim", "twin", "deep"}
  MAXN = 4
  FULLN = 2
  LEAFS = {1, 2}
  SEED = 1
  BRANCH = 2
  DEPTHS = {1000, 10000, 100000}
  BIGDEPTHS = {1000000}
  TWINMOD = 1
  VARIANT = "ok"
  ALG = FALSE
INVARIANTS TypeOK ModelOK EmitCase
CHECK_DEADLOCK FALSE
