SPECIFICATION Spec
CONSTANTS
  Thread = {"m", "a", "b"}
  BMain = 3
  BOther = 2
  Kinds = {"plain", "prim", "alloc", "setg", "spawn", "join"}
  Defects = {"exit_race"}
  WithIrq = TRUE
INVARIANTS C15 C17
CHECK_DEADLOCK TRUE
