SPECIFICATION Spec
CONSTANTS
  MaxMods = 3
  NmMin = 2
  VisSet = {"absent", "priv", "plain", "ctr", "reexp"}
  ModModsM = {"plain", "pre", "only_a", "only_bh", "ren", "ren_b", "pre_only_a", "pre_ren"}
  ModModsP = {"plain", "pre", "only_a", "only_b", "only_h", "only_ab", "only_ah", "only_bh", "ren", "ren_b", "pre_only_a", "pre_only_bh", "pre_ren"}
  MaxSpecsM = 2
  MaxSpecsP = 2
  OwnSets = {{}, {"helper"}, {"va"}, {"p.va"}, {"vz", "p.helper"}, {"vb", "helper"}}
  UseSet = {TRUE, FALSE}
  FailSet = {"none", "free", "rt"}
  ErrKinds = {"compile", "runtime"}
  MaxUnits = 3
  ProbeNames = {"va", "vb", "helper", "vz", "p.va", "p.vb", "p.helper", "p.vz"}
  Avoid = {}
INVARIANTS Emit Sound
CHECK_DEADLOCK FALSE
