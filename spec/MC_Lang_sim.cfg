SPECIFICATION Spec
CONSTANTS
  MINNODES = 9
  MAXSTACK = 3
  BUDGET = 16
  FUEL = 600
  MAXINT = 100000
INVARIANTS TypeOK EnvOK BoundaryOK Emit
CHECK_DEADLOCK FALSE
