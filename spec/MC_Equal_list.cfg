SPECIFICATION Spec
CONSTANTS
  FAM = "graph"
  N = 3
  LEAFS = {"i1", "nil"}
  KINDS = {"cons", "list1", "list2"}
  MUTANTS = TRUE
INVARIANTS TypeOK OracleOK Emit
CHECK_DEADLOCK FALSE
