SPECIFICATION TSpec
CONSTANTS
  MaxStack = 0
  MaxFrames = 0
  MaxDepth = 0
  NCodes = 0
  MaxIp = 0
  MaxArgs = 0
  NMarks = 0
  MaxFresh = 0
  Ghost = FALSE
  Defects = {}
INVARIANTS TFramesOk TOuterFramesKept Report
POSTCONDITION Accepted
CHECK_DEADLOCK FALSE
