------------------------------ MODULE Modules ------------------------------
(***************************************************************************)
(* C14 - modules expose exactly what they provide and are instantiated     *)
(* once.  An explicit model of module resolution and of the module table   *)
(* of ONE engine across a history of evaluation units.                     *)
(*                                                                         *)
(*   compiler/modules.rs   ModuleManager{compiled_modules}, CompiledModule *)
(*                         ::to_top_level_module, RequireObject, collect_  *)
(*                         provides, compile_main                          *)
(*   compiler/passes/mangle.rs   NameMangler (per-module prefix)           *)
(*   compiler/compiler.rs  compile_raw_program (rollback of the table)     *)
(*                                                                         *)
(* THE DOMAIN                                                              *)
(*   * <= 3 module files m1, m2, m3; mJ may require mI only for I < J      *)
(*     (acyclic by construction; every DAG over 3 nodes is isomorphic to   *)
(*     one of these), each require carries a modifier.                     *)
(*   * every module treats each of the names helper, va, vb as             *)
(*       absent | priv (defined, not provided) | plain (provided) |        *)
(*       ctr (provided with (contract/out n (->/c int? any/c))) |          *)
(*       reexp (not defined; an imported binding of that name is provided) *)
(*   * the functions have fixed bodies that refer to what the MODULE sees: *)
(*       helper = leaf;  va calls helper, p.helper;  vb calls (va 'in),    *)
(*       (p.va x), (vz 0).   A reference the module cannot resolve is left *)
(*       out of the body text (the spec decides; if it decided wrongly the *)
(*       module would not compile and the case would fail).                *)
(*   * the body of a module emits 'init-mI (the instantiation event).      *)
(*   * require modifiers: plain, (only-in M n..), (prefix-in p. M),        *)
(*     renaming (only-in M (va vz)), the documented nesting (prefix-in p.  *)
(*     (only-in M ..)) and the reverse nesting (only-in (prefix-in p. M)   *)
(*     p.n ..).  Modifiers are COMPOSITIONAL: the import set of a nested   *)
(*     form is the modifier applied to the import set of the inner form.   *)
(*   * an engine evaluates <= MaxUnits units.  A unit is                   *)
(*       (require spec..) (define (n x) ..)..  (emit (list 'unit-K uses..))*)
(*     optionally followed by a form that fails: "free" = a reference to   *)
(*     an undefined identifier (the unit does not compile), "rt" = a       *)
(*     run-time error; "parse" / "nomatch" / "redef" / "setlit" = the unit *)
(*     is rejected by the parser / the macro expander (no clause matches)  *)
(*     / the lowering pass (a name defined twice in one form, assignment   *)
(*     to a literal): like "free", nothing of the unit happens.  One module may be erroneous: "compile" (free       *)
(*     identifier in its body) or "runtime" (its body raises at the end).  *)
(*   * after every unit each name of ProbeNames is probed by separate      *)
(*     one-form evaluations: (emit (n 1)) and (emit (n 's)).               *)
(*                                                                         *)
(* THE ORACLE (what the spec computes)                                     *)
(*   Binding  = which definition a name denotes: (module, name, checked)   *)
(*              or (unit, name) for the unit's own definitions.            *)
(*   ModEnv(i) = what the text of module i may refer to: its own           *)
(*              definitions, else what its requires import.                *)
(*   Exports(i), Import(modifier, exports): the names a requirer gets.     *)
(*   Val(binding, arg) = printed result of the call, or ERR: the contract  *)
(*              is checked iff the binding was obtained through a          *)
(*              contract/out provide (chk) - calls inside the defining     *)
(*              module use the unchecked own binding.                      *)
(*   top      = the engine's top-level environment (state).                *)
(*   inst     = modules instantiated so far, in order (state): a unit      *)
(*              instantiates exactly the not-yet-instantiated modules of   *)
(*              its require closure, dependencies first, in require order. *)
(*   A unit that does not compile changes nothing (no module of it is      *)
(*   instantiated - now or twice later -, no name becomes visible).        *)
(*                                                                         *)
(* NAMED DEVIATIONS from Racket/R7RS-library semantics adopted on purpose  *)
(*   D-cumulative   The top level of an engine is cumulative: what a unit  *)
(*       imported or defined stays visible to later units (DESIGN.md       *)
(*       section 6, C14 calibration; docs/src/reference/modules.md:        *)
(*       "require-ing a module will introduce all of the provided values   *)
(*       into the top level scope").  `top` is therefore history state and *)
(*       "nothing else of it" is judged against the history; on a fresh    *)
(*       engine with one unit it is exactly what that unit required.       *)
(*   D-rebind       There are no import conflicts: a later import or       *)
(*       definition of a name rebinds it (brief: "a later top-level define *)
(*       creates a new binding"); requires are processed before the unit's *)
(*       definitions, so a unit's/module's own definition wins over its    *)
(*       imports (maintainer test cogs/module-tests: modules define names  *)
(*       they also import through preludes).                               *)
(*   D-onlyin-lax   (only-in M n) with n not provided by M is not an error;*)
(*       it imports nothing for n (crates/steel-core/src/tests/failure/    *)
(*       require_only_in_missing_identifier.scm expects the failure at the *)
(*       USE of the missing identifier).  What the property needs is       *)
(*       checked: n does not become visible.                               *)
(*   After a module body failed at run time the names the failed unit      *)
(*   tried to bind are "unspec" (probed for crash-freedom only, at the end *)
(*   of the history) and a second require of the broken module is only     *)
(*   required not to crash, after which the history ends; everything else  *)
(*   stays exact: modules whose bodies completed are never run again, and  *)
(*   modules the abandoned unit had not reached yet are instantiated by    *)
(*   the next unit that requires them.                                     *)
(***************************************************************************)
EXTENDS Integers, Sequences, FiniteSets, TLC, Json

CONSTANTS MaxMods,     \* number of module files is chosen in 1..MaxMods
          NmMin,       \* ... but at least NmMin
          VisSet,      \* subset of {"absent","priv","plain","ctr","reexp"}
          ModModsM,    \* modifier ids usable on module-level requires
          ModModsP,    \* modifier ids usable on unit-level requires
          MaxSpecsM,   \* require specs per module (0..2)
          MaxSpecsP,   \* require specs per unit (1..2)
          OwnSets,     \* the sets of names a unit may define itself
          UseSet,      \* subset of BOOLEAN: does the unit use its imports itself
          FailSet,     \* subset of {"none","free","rt","parse","nomatch","redef","setlit"}
          ErrKinds,    \* subset of {"none","compile","runtime"}
          MaxUnits,
          ProbeNames,  \* subset of Locals probed after every unit
          Avoid        \* shapes left out of this configuration, subset of
                       \*   "ctr_alias":  a MODULE imports a contract/out name under another local name
                       \*   "no_provide": a module that provides nothing
                       \* (they are legal and covered by other configurations; the switch keeps a
                       \* family of cases clear of two known defects so that nothing else hides behind them)

NameSeq   == <<"helper", "va", "vb">>
NameSet   == {"helper", "va", "vb"}
LocalSeq  == <<"va", "vb", "helper", "vz", "p.va", "p.vb", "p.helper", "p.vz">>
Locals    == {LocalSeq[i] : i \in 1..Len(LocalSeq)}

-----------------------------------------------------------------------------
(* Require modifiers.  all: no only-in; sel: names listed in only-in; ren: va
   is listed as (va vz); pre: prefix-in p.; rev: the prefix-in is INSIDE the
   only-in, whose items are then the prefixed names. *)
Md(all, sel, ren, pre, rev) == [all |-> all, sel |-> sel, ren |-> ren, pre |-> pre, rev |-> rev]
ModCat == [ plain       |-> Md(TRUE,  {}, FALSE, FALSE, FALSE),
            pre         |-> Md(TRUE,  {}, FALSE, TRUE,  FALSE),
            only_a      |-> Md(FALSE, {"va"}, FALSE, FALSE, FALSE),
            only_b      |-> Md(FALSE, {"vb"}, FALSE, FALSE, FALSE),
            only_h      |-> Md(FALSE, {"helper"}, FALSE, FALSE, FALSE),
            only_ab     |-> Md(FALSE, {"va", "vb"}, FALSE, FALSE, FALSE),
            only_ah     |-> Md(FALSE, {"va", "helper"}, FALSE, FALSE, FALSE),
            only_bh     |-> Md(FALSE, {"vb", "helper"}, FALSE, FALSE, FALSE),
            ren         |-> Md(FALSE, {"va"}, TRUE, FALSE, FALSE),
            ren_b       |-> Md(FALSE, {"va", "vb"}, TRUE, FALSE, FALSE),
            pre_only_a  |-> Md(FALSE, {"va"}, FALSE, TRUE, FALSE),
            pre_only_bh |-> Md(FALSE, {"vb", "helper"}, FALSE, TRUE, FALSE),
            pre_ren     |-> Md(FALSE, {"va"}, TRUE, TRUE, FALSE),
            rev_a       |-> Md(FALSE, {"va"}, FALSE, TRUE, TRUE),
            rev_bh      |-> Md(FALSE, {"vb", "helper"}, FALSE, TRUE, TRUE),
            rev_ren     |-> Md(FALSE, {"va"}, TRUE, TRUE, TRUE) ]

(* the names of `exp` (a function: provided name -> binding) a modifier lets through ... *)
Selected(md, exp) == IF md.all THEN DOMAIN exp ELSE (DOMAIN exp) \cap md.sel
(* ... and the local name each gets.  Compositional reading:
     (prefix-in p. (only-in M (va vz)))  : va -> vz -> p.vz
     (only-in (prefix-in p. M) (p.va vz)): va -> p.va -> vz                    *)
LocalName(md, n) ==
  LET rn == md.ren /\ n = "va" IN
  IF md.rev THEN (IF rn THEN "vz" ELSE "p." \o n)
  ELSE LET base == IF rn THEN "vz" ELSE n IN IF md.pre THEN "p." \o base ELSE base

NoB == [k |-> "none"]
UnspecB == [k |-> "unspec"]
ModB(m, n, chk) == [k |-> "mod", m |-> m, n |-> n, chk |-> chk]
OwnB(u, n) == [k |-> "own", u |-> u, n |-> n]
EmptyEnv == [l \in Locals |-> NoB]

(* env extended by one require spec (D-rebind: the import wins over what was there) *)
Import(env, md, exp) ==
  [l \in Locals |->
     IF \E n \in Selected(md, exp) : LocalName(md, n) = l
     THEN exp[CHOOSE n \in Selected(md, exp) : LocalName(md, n) = l]
     ELSE env[l]]
ImportedLocals(md, exp) == {LocalName(md, n) : n \in Selected(md, exp)}

-----------------------------------------------------------------------------
(* Module resolution.  ms: sequence of module descriptors
     [vis |-> [NameSet -> VisSet], reqs |-> Seq([m |-> lower module, mod |-> modifier id])] *)
RECURSIVE FoldImports(_, _, _), Exports(_, _)
FoldImports(ms, reqs, env) ==
  IF reqs = << >> THEN env
  ELSE FoldImports(ms, Tail(reqs), Import(env, ModCat[Head(reqs).mod], Exports(ms, Head(reqs).m)))
ImportsOf(ms, i) == FoldImports(ms, ms[i].reqs, EmptyEnv)
OwnDefs(ms, i) == {n \in NameSet : ms[i].vis[n] \in {"priv", "plain", "ctr"}}
(* what the text of module i may refer to *)
ModEnv(ms, i) ==
  LET imp == ImportsOf(ms, i) IN
  [l \in Locals |-> IF l \in OwnDefs(ms, i) THEN ModB(i, l, FALSE) ELSE imp[l]]
(* what module i provides: name -> binding.  A contract/out provide hands out the CHECKED
   binding; a re-export hands out the imported binding unchanged *)
Exports(ms, i) ==
  LET imp == ImportsOf(ms, i)
      E == {n \in NameSet : \/ ms[i].vis[n] \in {"plain", "ctr"}
                            \/ (ms[i].vis[n] = "reexp" /\ imp[n].k # "none")} IN
  [n \in E |-> IF ms[i].vis[n] = "plain" THEN ModB(i, n, FALSE)
               ELSE IF ms[i].vis[n] = "ctr" THEN ModB(i, n, TRUE)
               ELSE imp[n]]

-----------------------------------------------------------------------------
(* Values.  Arguments: [src, out, int] *)
ERR == "#ERR"
ArgOne  == [src |-> "1",   out |-> "1",  int |-> TRUE]
ArgZero == [src |-> "0",   out |-> "0",  int |-> TRUE]
ArgS    == [src |-> "'s",  out |-> "s",  int |-> FALSE]
ArgIn   == [src |-> "'in", out |-> "in", int |-> FALSE]
(* the fixed bodies: which local names a function calls, with which argument *)
Refs(n) == IF n = "va" THEN <<[l |-> "helper", a |-> "zero"], [l |-> "p.helper", a |-> "zero"]>>
           ELSE IF n = "vb" THEN <<[l |-> "va", a |-> "in"], [l |-> "p.va", a |-> "x"], [l |-> "vz", a |-> "zero"]>>
           ELSE << >>
ArgFor(a, x) == IF a = "zero" THEN ArgZero ELSE IF a = "in" THEN ArgIn ELSE x
ArgSrc(a) == IF a = "zero" THEN "0" ELSE IF a = "in" THEN "'in" ELSE "x"

RECURSIVE JoinSp(_)
JoinSp(ss) == IF ss = << >> THEN "" ELSE (IF Head(ss) = "" THEN "" ELSE " " \o Head(ss)) \o JoinSp(Tail(ss))

RECURSIVE Val(_, _, _)
Val(ms, b, arg) ==
  IF b.k = "own" THEN "(u" \o ToString(b.u) \o "." \o b.n \o " " \o arg.out \o ")"
  ELSE IF b.chk /\ ~arg.int THEN ERR                   \* the boundary check
  ELSE LET env == ModEnv(ms, b.m)
           rs  == Refs(b.n)
           sub == [r \in 1..Len(rs) |->
                     IF env[rs[r].l].k = "none" THEN ""
                     ELSE Val(ms, env[rs[r].l], ArgFor(rs[r].a, arg))] IN
       IF \E r \in 1..Len(rs) : sub[r] = ERR THEN ERR
       ELSE "(m" \o ToString(b.m) \o "." \o b.n \o " " \o arg.out \o JoinSp(sub) \o ")"

-----------------------------------------------------------------------------
(* Rendering of module files and units *)
RECURSIVE Cat(_)
Cat(ss) == IF ss = << >> THEN "" ELSE Head(ss) \o Cat(Tail(ss))
SeqOfSet(order, S) == SelectSeq(order, LAMBDA x : x \in S)

OnlyItems(md, pfx) ==
  LET names == SeqOfSet(<<"va", "vb", "helper">>, md.sel) IN
  JoinSp([k \in 1..Len(names) |->
            IF md.ren /\ names[k] = "va" THEN "(" \o pfx \o "va vz)" ELSE pfx \o names[k]])
RenderSpec(path, mid) ==
  LET md == ModCat[mid]
      q == "\"" \o path \o "\"" IN
  IF md.rev THEN "(only-in (prefix-in p. " \o q \o ")" \o OnlyItems(md, "p.") \o ")"
  ELSE LET inner == IF md.all THEN q ELSE "(only-in " \o q \o OnlyItems(md, "") \o ")" IN
       IF md.pre THEN "(prefix-in p. " \o inner \o ")" ELSE inner
RenderReqs(reqs, dir) ==
  IF reqs = << >> THEN ""
  ELSE "(require" \o JoinSp([k \in 1..Len(reqs) |->
                     RenderSpec(dir \o "m" \o ToString(reqs[k].m) \o ".scm", reqs[k].mod)]) \o ") "

FnText(ms, i, n) ==
  LET env == ModEnv(ms, i)
      rs == Refs(n) IN
  "(define (" \o n \o " x) (list 'm" \o ToString(i) \o "." \o n \o " x"
    \o JoinSp([r \in 1..Len(rs) |-> IF env[rs[r].l].k = "none" THEN ""
                                      ELSE "(" \o rs[r].l \o " " \o ArgSrc(rs[r].a) \o ")"])
    \o ")) "
ProvideText(ms, i) ==
  LET pl == SeqOfSet(NameSeq, {n \in NameSet : ms[i].vis[n] \in {"plain", "reexp"}})
      ct == SeqOfSet(NameSeq, {n \in NameSet : ms[i].vis[n] = "ctr"}) IN
  IF pl = << >> /\ ct = << >> THEN ""
  ELSE "(provide" \o JoinSp(pl)
       \o JoinSp([k \in 1..Len(ct) |-> "(contract/out " \o ct[k] \o " (->/c int? any/c))"]) \o ") "
ModText(ms, i, err) ==
  LET own == SeqOfSet(NameSeq, OwnDefs(ms, i)) IN
  RenderReqs(ms[i].reqs, "") \o ProvideText(ms, i) \o "(emit 'init-m" \o ToString(i) \o ") "
  \o Cat([k \in 1..Len(own) |-> FnText(ms, i, own[k])])
  \o (IF err.m = i /\ err.kind = "compile" THEN "(define (c14-bad x) (c14-undefined-in-module x)) " ELSE "")
  \o (IF err.m = i /\ err.kind = "runtime" THEN "(error \"c14-module-failure\") " ELSE "")

-----------------------------------------------------------------------------
(* Instantiation order: dependencies first, in require order, each module once *)
ReqMods(reqs) == [k \in 1..Len(reqs) |-> reqs[k].m]
InSeq(s, x) == \E k \in 1..Len(s) : s[k] = x
RECURSIVE Visit(_, _, _), VisitAll(_, _, _)
Visit(ms, i, done) == IF InSeq(done, i) THEN done
                      ELSE Append(VisitAll(ms, ReqMods(ms[i].reqs), done), i)
VisitAll(ms, seq, done) == IF seq = << >> THEN done
                           ELSE VisitAll(ms, Tail(seq), Visit(ms, Head(seq), done))
Closure(ms, seq) == LET o == VisitAll(ms, seq, << >>) IN {o[k] : k \in 1..Len(o)}
IndexOf(s, x) == CHOOSE k \in 1..Len(s) : s[k] = x

-----------------------------------------------------------------------------
VARIABLES phase,   \* "nmods" | "reqs" | "vis" | "err" | "unit" | "unit2" | "unit3" | "done"
          nm,      \* number of module files
          ms,      \* module descriptors chosen so far
          errm,    \* [m, kind]: the erroneous module (m = 0: none)
          pend,    \* staged choice (requires of the module / unit being chosen)
          inst,    \* ENGINE: modules instantiated, in order
          broken,  \* ENGINE: modules whose body failed at run time
          top,     \* ENGINE: top-level environment Locals -> binding
          uc,      \* units evaluated
          stop,    \* the history ends here
          units,   \* descriptors of the units (for tags)
          hist     \* the replayer steps
vars == <<phase, nm, ms, errm, pend, inst, broken, top, uc, stop, units, hist>>

Init == /\ phase = "nmods" /\ nm = 0 /\ ms = << >> /\ errm = [m |-> 0, kind |-> "none"]
        /\ pend = << >> /\ inst = << >> /\ broken = {} /\ top = EmptyEnv /\ uc = 0
        /\ stop = FALSE /\ units = << >> /\ hist = << >>

SpecSeqs(modset, mids, maxlen, distinct) ==
  LET S1 == {<<[m |-> j, mod |-> d]>> : j \in modset, d \in mids}
      S2 == IF maxlen < 2 THEN {}
            ELSE {<<[m |-> j1, mod |-> d1], [m |-> j2, mod |-> d2]>> :
                     j1 \in modset, d1 \in mids, j2 \in modset, d2 \in mids} IN
  S1 \cup {s \in S2 : ~distinct \/ s[1].m # s[2].m}

ChooseNm == /\ phase = "nmods"
            /\ \E n \in NmMin..MaxMods : nm' = n
            /\ phase' = "reqs"
            /\ UNCHANGED <<ms, errm, pend, inst, broken, top, uc, stop, units, hist>>

CtrAlias(rq) == \E k \in 1..Len(rq) :
                  LET md == ModCat[rq[k].mod] IN
                  \E n \in Selected(md, Exports(ms, rq[k].m)) :
                     ms[rq[k].m].vis[n] = "ctr" /\ LocalName(md, n) # n
ChooseReqs ==
  /\ phase = "reqs"
  /\ LET i == Len(ms) + 1 IN
     \E rq \in (IF MaxSpecsM = 0 THEN {} ELSE SpecSeqs(1..(i-1), ModModsM, MaxSpecsM, TRUE)) \cup {<< >>} :
        /\ "ctr_alias" \in Avoid => ~CtrAlias(rq)
        /\ pend' = rq
  /\ phase' = "vis"
  /\ UNCHANGED <<nm, ms, errm, inst, broken, top, uc, stop, units, hist>>

ChooseVis ==
  /\ phase = "vis"
  /\ LET imp == FoldImports(ms, pend, EmptyEnv) IN
     \E v \in [NameSet -> VisSet] :
        /\ \A n \in NameSet : v[n] = "reexp" => imp[n].k # "none"
        /\ "no_provide" \in Avoid => \E n \in NameSet : v[n] \in {"plain", "ctr", "reexp"}
        /\ ms' = Append(ms, [vis |-> v, reqs |-> pend])
  /\ pend' = << >>
  /\ phase' = IF Len(ms) + 1 < nm THEN "reqs" ELSE "err"
  /\ UNCHANGED <<nm, errm, inst, broken, top, uc, stop, units, hist>>

ChooseErr ==
  /\ phase = "err"
  /\ \/ ("none" \in ErrKinds /\ errm' = [m |-> 0, kind |-> "none"])
     \/ \E i \in 1..nm, k \in ErrKinds \ {"none"} : errm' = [m |-> i, kind |-> k]
  /\ phase' = "unit"
  /\ UNCHANGED <<nm, ms, pend, inst, broken, top, uc, stop, units, hist>>

ChooseSpecs ==
  /\ phase = "unit" /\ uc < MaxUnits /\ ~stop
  /\ \E sp \in SpecSeqs(1..nm, ModModsP, MaxSpecsP, FALSE) : pend' = sp
  /\ phase' = "unit2"
  /\ UNCHANGED <<nm, ms, errm, inst, broken, top, uc, stop, units, hist>>


-----------------------------------------------------------------------------
(* Evaluation of one unit on the engine *)
Step(src, class, emit, ce) == [src |-> src, class |-> class, emit |-> emit, ce |-> ce]
ProbeSeq == SeqOfSet(LocalSeq, ProbeNames)
CallSrc(l, arg) == "(emit (" \o l \o " " \o arg.src \o "))"
ProbeSteps(env, l, loose) ==
  LET b == env[l] IN
  IF loose THEN <<Step(CallSrc(l, ArgOne), "noncrash", << >>, FALSE)>>
  ELSE IF b.k = "unspec" THEN << >>       \* probed for crash-freedom at the very end (FinalProbes)
  ELSE IF b.k = "none" THEN <<Step(CallSrc(l, ArgOne), "err", << >>, TRUE)>>
  ELSE LET one(arg) == LET v == Val(ms, b, arg) IN
                        IF v = ERR THEN Step(CallSrc(l, arg), "err", << >>, TRUE)
                        ELSE Step(CallSrc(l, arg), "ok", <<v>>, TRUE) IN
       <<one(ArgOne), one(ArgS)>>
RECURSIVE Flat(_)
Flat(ss) == IF ss = << >> THEN << >> ELSE Head(ss) \o Flat(Tail(ss))
AllProbes(env, loose) == Flat([k \in 1..Len(ProbeSeq) |-> ProbeSteps(env, ProbeSeq[k], loose)])

(* names a unit abandoned inside a failing module body tried to bind: whatever they denote now,
   referring to them must not crash the engine *)
FinalProbes ==
  LET us == SelectSeq(ProbeSeq, LAMBDA l : top[l].k = "unspec") IN
  [k \in 1..Len(us) |-> Step(CallSrc(us[k], ArgOne), "noncrash", << >>, FALSE)]
Finish == /\ phase = "unit" /\ (uc = MaxUnits \/ stop)
          /\ phase' = "done"
          /\ hist' = hist \o FinalProbes
          /\ UNCHANGED <<nm, ms, errm, pend, inst, broken, top, uc, stop, units>>

RECURSIVE FoldTop(_, _)
FoldTop(specs, env) ==
  IF specs = << >> THEN env
  ELSE FoldTop(Tail(specs), Import(env, ModCat[Head(specs).mod], Exports(ms, Head(specs).m)))
UnitLocals(specs, own) ==
  own \cup UNION {ImportedLocals(ModCat[specs[k].mod], Exports(ms, specs[k].m)) : k \in 1..Len(specs)}
InitEv(seq) == [k \in 1..Len(seq) |-> "init-m" \o ToString(seq[k])]

ChooseRest ==
  /\ phase = "unit2"
  /\ \E own \in OwnSets, use \in UseSet, fail \in FailSet :
        pend' = [specs |-> pend, own |-> own, use |-> use, fail |-> fail]
  /\ phase' = "unit3"
  /\ UNCHANGED <<nm, ms, errm, inst, broken, top, uc, stop, units, hist>>

EvalUnit ==
  /\ phase = "unit3"
  /\ LET k == uc + 1
         specs == pend.specs
         own == pend.own
         use == pend.use
         fail == pend.fail
         roots == ReqMods(specs)
         clo == Closure(ms, roots)
         order == VisitAll(ms, roots, inst)            \* inst extended by the new modules
         new == SubSeq(order, Len(inst) + 1, Len(order))
         \* environment if everything goes well: imports in order, then own definitions
         env1 == FoldTop(specs, top)
         env2 == [l \in Locals |-> IF l \in own THEN OwnB(k, l) ELSE env1[l]]
         mine == UnitLocals(specs, own)
         ownseq == SeqOfSet(LocalSeq, own)
         useseq == IF use THEN SelectSeq(LocalSeq, LAMBDA l : l \in mine /\ Val(ms, env2[l], ArgOne) # ERR)
                   ELSE << >>
         marker == "(unit-" \o ToString(k)
                     \o JoinSp([j \in 1..Len(useseq) |-> Val(ms, env2[useseq[j]], ArgOne)]) \o ")"
         src == RenderReqs(specs, "@DIR@/")
                \o Cat([j \in 1..Len(ownseq) |->
                          "(define (" \o ownseq[j] \o " x) (list 'u" \o ToString(k) \o "." \o ownseq[j] \o " x)) "])
                \o "(emit (list 'unit-" \o ToString(k)
                \o JoinSp([j \in 1..Len(useseq) |-> "(" \o useseq[j] \o " 1)"]) \o "))"
                \o (IF fail = "free" THEN " (emit (c14-undefined-at-top 1))" ELSE "")
                \* the other STAGES at which a unit can be rejected before anything of it runs
                \o (IF fail = "parse" THEN " (emit (if))" ELSE "")
                \o (IF fail = "nomatch" THEN " (define-syntax c14-m" \o ToString(k) \o " (syntax-rules () [(_ a) a])) (emit (c14-m" \o ToString(k) \o "))" ELSE "")
                \o (IF fail = "redef" THEN " (begin (define c14-z" \o ToString(k) \o " 1) (define c14-z" \o ToString(k) \o " 2))" ELSE "")
                \o (IF fail = "setlit" THEN " (set! 1 2)" ELSE "")
                \o (IF fail = "rt" THEN " (error \"c14-unit-failure\")" ELSE "")
         nocompile == fail \in {"free", "parse", "nomatch", "redef", "setlit"} \/ (errm.kind = "compile" /\ errm.m \in clo)
         rebroken == clo \cap broken # {}
         rtmod == errm.kind = "runtime" /\ InSeq(new, errm.m)
         desc == [specs |-> specs, own |-> ownseq, use |-> use, fail |-> fail]
     IN
     /\ units' = Append(units, desc)
     /\ uc' = k
     /\ IF rebroken
        THEN \* requiring a module whose body failed earlier: the property does not say whether
             \* the body is retried or the failure reported again - only that the engine survives;
             \* the history ends
             /\ hist' = hist \o <<Step(src, "noncrash", << >>, FALSE)>> \o AllProbes(top, TRUE)
             /\ stop' = TRUE
             /\ UNCHANGED <<inst, broken, top>>
        ELSE IF nocompile
        THEN \* the unit is rejected as a whole: module table and top level unchanged
             /\ hist' = hist \o <<Step(src, "err", << >>, TRUE)>> \o AllProbes(top, FALSE)
             /\ UNCHANGED <<inst, broken, top, stop>>
        ELSE IF rtmod
        THEN \* bodies run in order up to the failing one; the unit is abandoned there
             LET pos == IndexOf(new, errm.m)
                 envb == [l \in Locals |-> IF l \in mine THEN UnspecB ELSE top[l]] IN
             /\ hist' = hist \o <<Step(src, "err", InitEv(SubSeq(new, 1, pos)), TRUE)>> \o AllProbes(envb, FALSE)
             /\ inst' = inst \o SubSeq(new, 1, pos - 1)
             /\ broken' = broken \cup {errm.m}
             /\ top' = envb
             /\ UNCHANGED stop
        ELSE /\ hist' = hist \o <<Step(src, IF fail = "rt" THEN "err" ELSE "ok",
                                       Append(InitEv(new), marker), TRUE)>>
                             \o AllProbes(env2, FALSE)
             /\ inst' = order
             /\ top' = env2
             /\ UNCHANGED <<broken, stop>>
  /\ phase' = "unit"
  /\ pend' = << >>
  /\ UNCHANGED <<nm, ms, errm>>

Next == ChooseNm \/ ChooseReqs \/ ChooseVis \/ ChooseErr \/ ChooseSpecs \/ ChooseRest \/ EvalUnit \/ Finish
Spec == Init /\ [][Next]_vars

-----------------------------------------------------------------------------
(* Design-level invariants of the model itself *)
InstOnce == \A a, b \in 1..Len(inst) : a # b => inst[a] # inst[b]
DepsFirst == \A a \in 1..Len(inst) : \A d \in Closure(ms, <<inst[a]>>) :
                d = inst[a] \/ \E b \in 1..(a-1) : inst[b] = d
(* a name visible at top level denotes a provided definition, a re-exported one, or a unit's own *)
OnlyProvided == \A l \in Locals : top[l].k = "mod" => ms[top[l].m].vis[top[l].n] \in {"plain", "ctr"}
                                                      /\ (top[l].chk <=> ms[top[l].m].vis[top[l].n] = "ctr")
Sound == phase \in {"unit", "unit2", "unit3", "done"} => InstOnce /\ DepsFirst /\ OnlyProvided

CaseOf == [mods |-> [i \in 1..nm |-> [file |-> "m" \o ToString(i) \o ".scm", text |-> ModText(ms, i, errm)]],
           steps |-> hist,
           model |-> [nm |-> nm, errm |-> errm, units |-> units,
                      mreqs |-> [i \in 1..nm |-> ms[i].reqs],
                      vis |-> [i \in 1..nm |-> [n \in 1..Len(NameSeq) |-> ms[i].vis[NameSeq[n]]]]]]
Emit == (phase = "done") => PrintT(<<"REPLAY", ToJson(CaseOf)>>)
=============================================================================
