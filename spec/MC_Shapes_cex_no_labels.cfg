SPECIFICATION Spec
CONSTANTS
  FAMSEL = {"full", "func1"}
  MAXN = 3
  FULLN = 2
  LEAFS = {1}
  SEED = 1
  BRANCH = 2
  DEPTHS = {1000, 100000}
  BIGDEPTHS = {}
  TWINMOD = 8
  VARIANT = "no_labels"
  ALG = FALSE
INVARIANTS TypeOK ModelOK
CHECK_DEADLOCK FALSE
