SPECIFICATION Spec
CONSTANTS
  MaxGuards = 2
  MaxActs = 1
  Engines = 1
  RefLevel = "small"
  Places = {"global"}
  Derive = FALSE
  Pair = FALSE
  Threads = TRUE
  Defects = {"shared_stack", "no_wait"}
  EmitCases = TRUE
INVARIANTS TypeOK Emit
CHECK_DEADLOCK FALSE
