SPECIFICATION Spec
CONSTANTS
  ValNames = {"v"}
  FnNames = {"f", "g"}
  MaxSteps = 5
  Defects = {}
INVARIANTS C06 C07h
CHECK_DEADLOCK FALSE
