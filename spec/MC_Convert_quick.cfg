SPECIFICATION Spec
CONSTANTS
  Level = "quick"
INVARIANTS Emit
CHECK_DEADLOCK FALSE
