-------------------------------- MODULE Num --------------------------------
(***************************************************************************)
(* Reference model of Scheme's EXACT arithmetic and of the coherence of    *)
(* the numeric tower, used by TLC as GENERATOR and ORACLE for property C10.*)
(*                                                                         *)
(* TLC's own integers are 32-bit, and the whole point of C10 is what       *)
(* happens at and beyond 2^63, so the values under test are NOT TLC        *)
(* integers.  The model is an explicit algebra:                            *)
(*                                                                         *)
(*   natural   little-endian sequence of limbs, base 10 000 (9 999^2 +     *)
(*             carry < 2^31, so every limb-level step fits a TLC integer); *)
(*             no high zero limb; zero is << >>                            *)
(*   exact     [neg, num, den]: sign, numerator and denominator naturals;  *)
(*             CANONICAL: gcd(num, den) = 1, den >= 1, zero is +0/1.       *)
(*             An exact value whose den is 1 IS an integer (there is no    *)
(*             separate "integral rational"), the sign lives in front of   *)
(*             the numerator: exactly the canonical form C10 demands.      *)
(*   flonum    [c, neg, m, e]: finite m * 2^e (m an odd natural < 2^53 or  *)
(*             zero, sign kept for zero), or +-inf, or NaN.  Only the      *)
(*             EXACTLY DETERMINED fragment of IEEE-754 is modelled: an     *)
(*             operation on flonums (or on exact values that convert to a  *)
(*             double without rounding) whose mathematically exact result  *)
(*             is again a double has that double as its IEEE result,       *)
(*             because IEEE operations are correctly rounded.  Everything  *)
(*             else (a result or a conversion that would have to be        *)
(*             ROUNDED) is "undet" and no case is generated for it: the    *)
(*             model does not define rounding, and says so.  Comparisons   *)
(*             of an exact with an inexact number are always determined    *)
(*             (both denote exact rationals, or +-inf / NaN).              *)
(*                                                                         *)
(* Schoolbook Add / Sub / Mul, long division (Knuth's algorithm D with the *)
(* simple correction loop), Euclid's gcd, square-and-multiply powers,      *)
(* Newton integer square root, decimal / radix-r printing.  The algebra is *)
(* itself model-checked: the invariant `Laws` evaluates, in every          *)
(* generated state, the ring / ordering / division identities that pin the *)
(* operations down independently of any implementation (q*d + r = n with   *)
(* the sign convention of each division flavour, s^2 <= n < (s+1)^2, gcd   *)
(* divides, (a+b)-b = a, (a*b)/b = a, trichotomy, ...), and the ASSUMEs    *)
(* tie the hand-written boundary constants to the algebra (2^63 computed   *)
(* by NPow equals the limb literal).                                       *)
(*                                                                         *)
(* A behaviour: Init picks (family, operator, first operand); the single   *)
(* step Pick chooses the remaining operands; in the resulting terminal     *)
(* state the invariant Emit prints the case: for every CALL SHAPE (see     *)
(* section 7) the rendered Scheme source and the expected printed result.  *)
(* All shapes of one (operator, operands) tuple have the SAME expected     *)
(* value: that is the coherence half of the property.                      *)
(*                                                                         *)
(* Families (section 8): core  + - * = < <= > >=  on Operands x Operands;  *)
(* div  / max min;  int  the twelve integer divisions, gcd, lcm;  un  30   *)
(* unary operators;  nul  [+] and [*] without operands;  nary / nary4 /    *)
(* nary5  variadic calls with 3, 4, 5 operands;  iter  an accumulator that *)
(* changes representation inside a loop;  expt;  shift  arithmetic-shift;  *)
(* n2s / s2n / s2ng  number->string with radix, string->number on          *)
(* numerals derived from values and on EVERY string of 1..5 characters     *)
(* over the alphabet + - / 0 1 7 (section 6: the numeral grammar);  mix /  *)
(* mixun  mixed exact / inexact and flonum operands;  cplx  `=` on complex *)
(* numbers with exact parts;  ftab  the flonum table itself (validated     *)
(* against the host's IEEE doubles by the check module).                   *)
(*                                                                         *)
(* Named deviations of Steel from R7RS adopted on purpose (each visible in *)
(* Steel's own documentation / signatures):                                *)
(*   N1  `=` takes exactly two arguments (rvals.rs number_equality(left,   *)
(*       right), "= expected 2 arguments"); only binary `=` is generated.  *)
(*   N2  `gcd` and `lcm` take exactly two arguments (stdlib.scm            *)
(*       (define (gcd a b) ...)); only binary calls are generated.         *)
(*   N3  exact-integer-sqrt, floor/, truncate/, euclidean/ return a LIST   *)
(*       of the two results (printed `(q r)`), not multiple values.        *)
(*   N4  booleans print as #true / #false.                                 *)
(*   N5  `/` and the integer divisions raise an error for an exact zero    *)
(*       divisor (R7RS: "it is an error"); the expected class is `err`.    *)
(*       A flonum dividend with an EXACT zero divisor is left out (R7RS    *)
(*       makes it an error, IEEE on converted operands would give inf).    *)
(*   N6  [* 0 x] and [/ 0 x] with inexact x follow IEEE on the converted   *)
(*       operands (0.0, NaN, ...), as the property states, not the exact-0 *)
(*       shortcut R7RS also permits.                                       *)
(*   N7  flonums print in Rust's shortest round-trip form: positional for  *)
(*       1e-4 <= |x| < 1e16 (at least one fractional digit), else          *)
(*       d.ddde<x>.  The model prints a flonum only when its exact decimal *)
(*       expansion has <= 15 significant digits (then shortest round-trip  *)
(*       = the exact expansion); otherwise the case observes               *)
(*       (= result <exact decimal expansion>) instead of the printed form. *)
(* Not a deviation but a consequence of a reader defect that belongs to    *)
(* property C12: the source literal -0.0 is read as 0.0, so the negative   *)
(* zero operand is written (- 0.0).                                        *)
(* Operations R7RS leaves undefined are not generated: integer divisions,  *)
(* gcd, even?/odd? on non-integers, exact-integer-sqrt of a negative       *)
(* number, exact of inf / NaN, numerals with a zero denominator.           *)
(***************************************************************************)
EXTENDS Integers, Sequences, TLC, Json

CONSTANTS SEED,      \* selects the slice of every family whose modulus is > 1
          M_CORE,    \* modulus for + - * = < <= > >= over Operands x Operands (1 = all)
          M_DIV,     \* / max min
          M_INT,     \* quotient remainder modulo floor/ truncate/ ... gcd lcm
          M_UN,      \* unary operators
          M_NARY,    \* variadic calls with 3, 4, 5 operands
          M_EXPT,    \* expt, arithmetic-shift
          M_STR,     \* number->string with radix, string->number
          M_MIX,     \* mixed exact / inexact
          FAMILY       \* "all", or the name of the single family to generate

VARIABLES fam,   \* family of the case
          oi,    \* index of the operator in Ops(fam)
          op,    \* operator name (Scheme identifier) = Ops(fam)[oi]
          ix,    \* indexes of the operands chosen so far (into the family's operand tables)
          done   \* TRUE in the terminal state

vars == <<fam, oi, op, ix, done>>

Max(a, b) == IF a >= b THEN a ELSE b
Min(a, b) == IF a <= b THEN a ELSE b

-----------------------------------------------------------------------------
(* 1. Naturals: little-endian limb sequences, base 10 000 *)

BASE == 10000
Zero == << >>
One  == <<1>>
Two  == <<2>>

\* big-endian literal: BE(<<922, 3372, 368, 5477, 5808>>) is 922 3372 0368 5477 5808
BE(s) == [i \in 1..Len(s) |-> s[Len(s) + 1 - i]]

RECURSIVE Trim(_)
Trim(s) == IF s = << >> THEN s
           ELSE IF s[Len(s)] = 0 THEN Trim(SubSeq(s, 1, Len(s) - 1)) ELSE s

Limb(s, i) == IF i <= Len(s) THEN s[i] ELSE 0

RECURSIVE NSmall(_)          \* a TLC integer >= 0 as a natural
NSmall(n) == IF n = 0 THEN << >> ELSE <<n % BASE>> \o NSmall(n \div BASE)

RECURSIVE NCmpAt(_, _, _)
NCmpAt(a, b, i) == IF i = 0 THEN 0
                   ELSE IF a[i] < b[i] THEN -1
                   ELSE IF a[i] > b[i] THEN 1
                   ELSE NCmpAt(a, b, i - 1)
NCmp(a, b) == IF Len(a) < Len(b) THEN -1
              ELSE IF Len(a) > Len(b) THEN 1
              ELSE NCmpAt(a, b, Len(a))
NLt(a, b) == NCmp(a, b) < 0
NLe(a, b) == NCmp(a, b) <= 0

RECURSIVE NAddAt(_, _, _, _)     \* limbs i.. of a + b with incoming carry c
NAddAt(a, b, i, c) ==
  IF i > Len(a) /\ i > Len(b) THEN (IF c = 0 THEN << >> ELSE <<c>>)
  ELSE LET x == Limb(a, i) + Limb(b, i) + c
       IN <<x % BASE>> \o NAddAt(a, b, i + 1, x \div BASE)
NAdd(a, b) == IF a = << >> THEN b ELSE IF b = << >> THEN a ELSE NAddAt(a, b, 1, 0)

RECURSIVE NSubAt(_, _, _, _)     \* a - b for a >= b, with incoming borrow
NSubAt(a, b, i, br) ==
  IF i > Len(a) THEN << >>
  ELSE LET x == a[i] - Limb(b, i) - br
       IN IF x < 0 THEN <<x + BASE>> \o NSubAt(a, b, i + 1, 1)
                   ELSE <<x>> \o NSubAt(a, b, i + 1, 0)
NSub(a, b) == IF b = << >> THEN a ELSE Trim(NSubAt(a, b, 1, 0))

RECURSIVE NMulSmallAt(_, _, _, _)   \* a * d for one limb 0 < d < BASE
NMulSmallAt(a, d, i, c) ==
  IF i > Len(a) THEN (IF c = 0 THEN << >> ELSE <<c>>)
  ELSE LET x == a[i] * d + c          \* <= 9999*9999 + 9999 < 2^31
       IN <<x % BASE>> \o NMulSmallAt(a, d, i + 1, x \div BASE)
NMulSmall(a, d) == IF d = 0 \/ a = << >> THEN << >>
                   ELSE IF d = 1 THEN a ELSE NMulSmallAt(a, d, 1, 0)

NShift(a, k) == IF a = << >> \/ k = 0 THEN a ELSE [i \in 1..k |-> 0] \o a   \* a * BASE^k

RECURSIVE NMulAt(_, _, _)
NMulAt(a, b, j) == IF j > Len(b) THEN << >>
                   ELSE NAdd(NShift(NMulSmall(a, b[j]), j - 1), NMulAt(a, b, j + 1))
NMul(a, b) == IF a = << >> \/ b = << >> THEN << >>
              ELSE IF a = One THEN b ELSE IF b = One THEN a
              ELSE IF Len(b) <= Len(a) THEN NMulAt(a, b, 1) ELSE NMulAt(b, a, 1)

\* division by one limb: limbs i..1 of a with running remainder r < d; <<quotient limbs 1..i, remainder>>
RECURSIVE NDivSmallAt(_, _, _, _)
NDivSmallAt(a, d, i, r) ==
  IF i = 0 THEN << << >>, r >>
  ELSE LET x   == r * BASE + a[i]       \* < BASE * BASE
           rec == NDivSmallAt(a, d, i - 1, x % d)
       IN <<Append(rec[1], x \div d), rec[2]>>
NDivSmall(a, d) == LET qr == NDivSmallAt(a, d, Len(a), 0) IN <<Trim(qr[1]), qr[2]>>

\* largest q <= qh with b*q <= r (qh overestimates by at most 2 when b is normalised)
RECURSIVE QFix(_, _, _)
QFix(b, r, q) == IF q = 0 THEN 0
                 ELSE IF NCmp(NMulSmall(b, q), r) <= 0 THEN q ELSE QFix(b, r, q - 1)

\* schoolbook long division, divisor b with Len(b) >= 2 and top limb >= BASE/2:
\* bring down limb i of a, estimate the quotient limb from the top two limbs of the
\* running remainder and the top limb of b, correct downwards, subtract.
RECURSIVE NLongDiv(_, _, _, _)
NLongDiv(a, b, i, rem) ==
  IF i = 0 THEN << << >>, rem >>
  ELSE LET r1  == Trim(<<a[i]>> \o rem)                 \* rem * BASE + a[i]   (< b * BASE)
           n   == Len(b)
           top == IF Len(r1) < n THEN 0
                  ELSE (IF Len(r1) > n THEN r1[n + 1] * BASE ELSE 0) + r1[n]
           q   == QFix(b, r1, Min(top \div b[n], BASE - 1))
           r2  == IF q = 0 THEN r1 ELSE NSub(r1, NMulSmall(b, q))
           rec == NLongDiv(a, b, i - 1, r2)
       IN <<Append(rec[1], q), rec[2]>>

\* <<a div b, a mod b>> for b # 0
NDivMod(a, b) ==
  IF NCmp(a, b) < 0 THEN <<Zero, a>>
  ELSE IF Len(b) = 1 THEN LET qr == NDivSmall(a, b[1]) IN <<qr[1], NSmall(qr[2])>>
  ELSE LET f  == BASE \div (b[Len(b)] + 1)               \* normalisation factor
           qr == NLongDiv(NMulSmall(a, f), NMulSmall(b, f), Len(NMulSmall(a, f)), << >>)
       IN <<Trim(qr[1]), NDivSmall(qr[2], f)[1]>>
NDiv(a, b) == NDivMod(a, b)[1]
NMod(a, b) == NDivMod(a, b)[2]

RECURSIVE NGcd(_, _)
NGcd(a, b) == IF b = << >> THEN a ELSE NGcd(b, NMod(a, b))

RECURSIVE NPow(_, _)             \* a^k, k a TLC integer >= 0, square and multiply
NPow(a, k) == IF k = 0 THEN One
              ELSE IF k = 1 THEN a
              ELSE LET h == NPow(a, k \div 2)
                       s == NMul(h, h)
                   IN IF k % 2 = 0 THEN s ELSE NMul(s, a)

NHalf(a) == NDivSmall(a, 2)[1]
NIsOdd(a) == a # << >> /\ a[1] % 2 = 1

\* integer square root by Newton's iteration from above: x0 = BASE^ceil(Len/2) > sqrt(n)
RECURSIVE NSqrtIter(_, _)
NSqrtIter(n, x) == LET y == NHalf(NAdd(x, NDiv(n, x)))
                   IN IF NCmp(y, x) >= 0 THEN x ELSE NSqrtIter(n, y)
NSqrt(n) == IF n = << >> THEN << >> ELSE NSqrtIter(n, NShift(One, (Len(n) + 1) \div 2))

\* number of trailing binary zeros / odd part:  a = odd * 2^j  (a # 0)
\* (strip factors 2^13 = 8192 while they divide, then single factors: at most 12 of them)
RECURSIVE NOddSplitAt(_, _)
NOddSplitAt(a, j) == IF NIsOdd(a) THEN <<a, j>> ELSE NOddSplitAt(NHalf(a), j + 1)
RECURSIVE NOddSplitBig(_, _)
NOddSplitBig(a, j) == IF NIsOdd(a) THEN <<a, j>>
                      ELSE LET qr == NDivSmall(a, 8192)
                           IN IF qr[2] = 0 THEN NOddSplitBig(qr[1], j + 13) ELSE NOddSplitAt(a, j)
NOddSplit(a) == NOddSplitBig(a, 0)

\* k if a = 2^k, else -1
NLog2Exact(a) == LET s == NOddSplit(a) IN IF s[1] = One THEN s[2] ELSE -1

\* decimal printing: the top limb unpadded, every other limb as 4 digits
Pad4(n) == IF n < 10 THEN "000" \o ToString(n)
           ELSE IF n < 100 THEN "00" \o ToString(n)
           ELSE IF n < 1000 THEN "0" \o ToString(n) ELSE ToString(n)
RECURSIVE NStrAt(_, _)
NStrAt(a, i) == IF i = 0 THEN "" ELSE Pad4(a[i]) \o NStrAt(a, i - 1)
NStr(a) == IF a = << >> THEN "0" ELSE ToString(a[Len(a)]) \o NStrAt(a, Len(a) - 1)

\* radix-r digits (r <= 16), most significant first, as a string
HexDigit(d) == IF d < 10 THEN ToString(d)
               ELSE CASE d = 10 -> "a" [] d = 11 -> "b" [] d = 12 -> "c"
                      [] d = 13 -> "d" [] d = 14 -> "e" [] d = 15 -> "f"
RECURSIVE NRadixStr(_, _)
NRadixStr(a, r) == IF a = << >> THEN ""
                   ELSE LET qr == NDivSmall(a, r) IN NRadixStr(qr[1], r) \o HexDigit(qr[2])
NStrRadix(a, r) == IF r = 10 THEN NStr(a) ELSE IF a = << >> THEN "0" ELSE NRadixStr(a, r)

\* decimal digit sequence (most significant first), used for flonum printing
RECURSIVE NDigitsAt(_, _)
NDigitsAt(a, i) == IF i = 0 THEN << >>
                   ELSE <<a[i] \div 1000, (a[i] \div 100) % 10, (a[i] \div 10) % 10, a[i] % 10>>
                        \o NDigitsAt(a, i - 1)
RECURSIVE DropLeadingZeros(_)
DropLeadingZeros(d) == IF d # << >> /\ d[1] = 0 THEN DropLeadingZeros(Tail(d)) ELSE d
NDigits(a) == DropLeadingZeros(NDigitsAt(a, Len(a)))     \* << >> for zero

-----------------------------------------------------------------------------
(* 2. Exact numbers: canonical rationals *)

QZ    == [neg |-> FALSE, num |-> Zero, den |-> One]
QInt(neg, n) == IF n = Zero THEN QZ ELSE [neg |-> neg, num |-> n, den |-> One]
QOne  == QInt(FALSE, One)
QTwo  == QInt(FALSE, Two)

\* canonicalisation: n/d with sign, d # 0
MkQ(neg, n, d) ==
  IF n = Zero THEN QZ
  ELSE IF d = One THEN [neg |-> neg, num |-> n, den |-> One]
  ELSE LET g == NGcd(n, d)
       IN IF g = One THEN [neg |-> neg, num |-> n, den |-> d]
          ELSE [neg |-> neg, num |-> NDiv(n, g), den |-> NDiv(d, g)]
QHalf == MkQ(FALSE, One, Two)

QIsInt(x)  == x.den = One
QIsZero(x) == x.num = Zero
QSign(x)   == IF x.num = Zero THEN 0 ELSE IF x.neg THEN -1 ELSE 1

\* signed-magnitude addition: <<neg, magnitude>>
SAdd(na, a, nb, b) ==
  IF na = nb THEN <<na, NAdd(a, b)>>
  ELSE LET c == NCmp(a, b)
       IN IF c = 0 THEN <<FALSE, Zero>>
          ELSE IF c > 0 THEN <<na, NSub(a, b)>> ELSE <<nb, NSub(b, a)>>

QNeg(x) == IF x.num = Zero THEN x ELSE [x EXCEPT !.neg = ~x.neg]
QAbs(x) == [x EXCEPT !.neg = FALSE]
QAdd(x, y) ==
  IF x.den = One /\ y.den = One
  THEN LET s == SAdd(x.neg, x.num, y.neg, y.num) IN QInt(s[1], s[2])
  ELSE LET s == SAdd(x.neg, NMul(x.num, y.den), y.neg, NMul(y.num, x.den))
       IN MkQ(s[1], s[2], NMul(x.den, y.den))
QSub(x, y) == QAdd(x, QNeg(y))
QMul(x, y) == MkQ(x.neg # y.neg, NMul(x.num, y.num), NMul(x.den, y.den))
QInv(x)    == [neg |-> x.neg, num |-> x.den, den |-> x.num]      \* x # 0; stays canonical
QDiv(x, y) == QMul(x, QInv(y))                                    \* y # 0
QCmp(x, y) ==
  IF x.neg /\ ~y.neg THEN -1
  ELSE IF ~x.neg /\ y.neg THEN 1
  ELSE LET c == IF x.den = y.den THEN NCmp(x.num, y.num)
                ELSE NCmp(NMul(x.num, y.den), NMul(y.num, x.den))
       IN IF x.neg THEN -c ELSE c
QEq(x, y) == x = y          \* canonical forms: equal values are equal records

\* integer divisions (arguments integral, divisor # 0): <<quotient, remainder>>
TruncQR(a, b) == LET dm == NDivMod(a.num, b.num)
                 IN <<QInt(a.neg # b.neg, dm[1]), QInt(a.neg, dm[2])>>   \* remainder has the sign of a
FloorQR(a, b) == LET t == TruncQR(a, b)                                  \* remainder has the sign of b
                 IN IF t[2].num # Zero /\ (a.neg # b.neg)
                    THEN <<QSub(t[1], QOne), QAdd(t[2], b)>> ELSE t
EuclidQR(a, b) == LET t == TruncQR(a, b)                                 \* remainder >= 0
                  IN IF t[2].neg
                     THEN (IF b.neg THEN <<QAdd(t[1], QOne), QSub(t[2], b)>>
                                    ELSE <<QSub(t[1], QOne), QAdd(t[2], b)>>)
                     ELSE t

QFloor(x) == IF x.den = One THEN x
             ELSE FloorQR(QInt(x.neg, x.num), QInt(FALSE, x.den))[1]
QCeil(x)  == QNeg(QFloor(QNeg(x)))
QTrunc(x) == IF x.neg THEN QCeil(x) ELSE QFloor(x)
QRound(x) == LET h == QAdd(x, QHalf)      \* ties (x + 1/2 integral) go to the even neighbour
                 f == QFloor(h)
             IN IF h.den = One /\ NIsOdd(f.num) THEN QSub(f, QOne) ELSE f

QGcd(a, b) == QInt(FALSE, NGcd(a.num, b.num))
QLcm(a, b) == IF a.num = Zero \/ b.num = Zero THEN QZ
              ELSE QInt(FALSE, NDiv(NMul(a.num, b.num), NGcd(a.num, b.num)))

\* x^k for a TLC integer k (x # 0 when k < 0)
QExptNat(x, k) == IF k = 0 THEN QOne
                  ELSE IF x.num = Zero THEN QZ
                  ELSE [neg |-> x.neg /\ (k % 2 = 1), num |-> NPow(x.num, k), den |-> NPow(x.den, k)]
QExpt(x, k) == IF k >= 0 THEN QExptNat(x, k)
               ELSE LET p == QExptNat(x, -k) IN [neg |-> p.neg, num |-> p.den, den |-> p.num]

\* exact integer square root of an integer n >= 0: <<s, n - s^2>>
QISqrt(n) == LET s == NSqrt(n.num) IN <<QInt(FALSE, s), QInt(FALSE, NSub(n.num, NMul(s, s)))>>

\* arithmetic shift of an integer: n * 2^k, or floor(n / 2^(-k))
QShift(n, k) == IF k >= 0 THEN QMul(n, QInt(FALSE, NPow(Two, k)))
                ELSE FloorQR(n, QInt(FALSE, NPow(Two, -k)))[1]

QStrRadix(x, r) == (IF x.neg THEN "-" ELSE "") \o NStrRadix(x.num, r)
                   \o (IF x.den = One THEN "" ELSE "/" \o NStrRadix(x.den, r))
QStr(x) == QStrRadix(x, 10)


-----------------------------------------------------------------------------
(* 3. Flonums: the exactly determined fragment of IEEE-754 binary64 *)

P53 == BE(<<9007, 1992, 5474, 992>>)          \* 2^53

FNaN       == [c |-> "nan", neg |-> FALSE, m |-> Zero, e |-> 0]
FInf(neg)  == [c |-> "inf", neg |-> neg, m |-> Zero, e |-> 0]
FZero(neg) == [c |-> "fin", neg |-> neg, m |-> Zero, e |-> 0]
FFin(neg, m, e) == [c |-> "fin", neg |-> neg, m |-> m, e |-> e]     \* m odd, m < 2^53, -1074 <= e <= 971
Undet      == [c |-> "undet", neg |-> FALSE, m |-> Zero, e |-> 0]  \* "would need rounding": not modelled

\* the exact rational a finite flonum denotes
FVal(f) == IF f.m = Zero THEN QZ
           ELSE IF f.e >= 0 THEN QInt(f.neg, NMul(f.m, NPow(Two, f.e)))
           ELSE [neg |-> f.neg, num |-> f.m, den |-> NPow(Two, -f.e)]

\* the double EQUAL to the nonzero exact number q, if there is one (no rounding)
FOfQ(q) == LET k == NLog2Exact(q.den)
           IN IF k < 0 THEN Undet
              ELSE LET s == NOddSplit(q.num)
                       e == s[2] - k
                   IN IF NLt(s[1], P53) /\ e >= -1074 /\ e <= 971
                      THEN FFin(q.neg, s[1], e) ELSE Undet

FNegate(a) == IF a.c \in {"nan", "undet"} THEN a ELSE [a EXCEPT !.neg = ~a.neg]
FAbs(a)    == IF a.c \in {"nan", "undet"} THEN a ELSE [a EXCEPT !.neg = FALSE]

\* odd significand m and exponent e -> the flonum, if it is one
FChk(neg, m, e) == IF NLt(m, P53) /\ e >= -1074 /\ e <= 971 THEN FFin(neg, m, e) ELSE Undet
\* any nonzero significand: strip the factors of two first
FNorm(neg, m, e) == LET s == NOddSplit(m) IN FChk(neg, s[1], e + s[2])

\* IEEE operations where the exact result is a double (else Undet).  Finite nonzero operands are
\* dyadic rationals m1*2^e1, m2*2^e2 with odd m1, m2:
\*   sum:      2^min(e1,e2) * (m1*2^(e1-min) +- m2*2^(e2-min));  when the exponents differ by more
\*             than 64 the aligned sum is odd and longer than 53 bits: never a double
\*   product:  (m1*m2) * 2^(e1+e2), m1*m2 is odd
\*   quotient: a dyadic rational only when m2 divides m1; then (m1/m2) * 2^(e1-e2), m1/m2 odd
FAdd(a, b) ==
  IF a.c = "undet" \/ b.c = "undet" THEN Undet
  ELSE IF a.c = "nan" \/ b.c = "nan" THEN FNaN
  ELSE IF a.c = "inf" THEN (IF b.c = "inf" /\ a.neg # b.neg THEN FNaN ELSE a)
  ELSE IF b.c = "inf" THEN b
  ELSE IF a.m = Zero /\ b.m = Zero THEN FZero(a.neg /\ b.neg)      \* -0 + -0 = -0, else +0
  ELSE IF a.m = Zero THEN b
  ELSE IF b.m = Zero THEN a
  ELSE IF a.e - b.e > 64 \/ b.e - a.e > 64 THEN Undet
  ELSE LET e == Min(a.e, b.e)
           s == SAdd(a.neg, NMul(a.m, NPow(Two, a.e - e)), b.neg, NMul(b.m, NPow(Two, b.e - e)))
       IN IF s[2] = Zero THEN FZero(FALSE) ELSE FNorm(s[1], s[2], e)    \* x + (-x) = +0 (round to nearest)
FSub(a, b) == FAdd(a, FNegate(b))
FMul(a, b) ==
  IF a.c = "undet" \/ b.c = "undet" THEN Undet
  ELSE IF a.c = "nan" \/ b.c = "nan" THEN FNaN
  ELSE IF a.c = "inf" \/ b.c = "inf"
       THEN (IF (a.c = "fin" /\ a.m = Zero) \/ (b.c = "fin" /\ b.m = Zero) THEN FNaN
             ELSE FInf(a.neg # b.neg))
  ELSE IF a.m = Zero \/ b.m = Zero THEN FZero(a.neg # b.neg)
  ELSE FChk(a.neg # b.neg, NMul(a.m, b.m), a.e + b.e)
FDiv(a, b) ==
  IF a.c = "undet" \/ b.c = "undet" THEN Undet
  ELSE IF a.c = "nan" \/ b.c = "nan" THEN FNaN
  ELSE IF a.c = "inf" THEN (IF b.c = "inf" THEN FNaN ELSE FInf(a.neg # b.neg))
  ELSE IF b.c = "inf" THEN FZero(a.neg # b.neg)
  ELSE IF b.m = Zero THEN (IF a.m = Zero THEN FNaN ELSE FInf(a.neg # b.neg))
  ELSE IF a.m = Zero THEN FZero(a.neg # b.neg)
  ELSE LET dm == NDivMod(a.m, b.m)
       IN IF dm[2] = Zero THEN FChk(a.neg # b.neg, dm[1], a.e - b.e) ELSE Undet

\* rounding a flonum to an integral flonum: always exact; a zero result keeps the argument's sign
FRoundWith(a, Rnd(_)) ==
  IF a.c # "fin" \/ a.m = Zero THEN a
  ELSE LET r == Rnd(FVal(a)) IN IF QIsZero(r) THEN FZero(a.neg) ELSE FOfQ(r)

\* decimal expansion of a finite nonzero flonum:  |f| = N / 10^k,  D = digits of N
FDecN(f) == IF f.e >= 0 THEN NMul(f.m, NPow(Two, f.e)) ELSE NMul(f.m, NPow(<<5>>, -f.e))
FDecK(f) == IF f.e >= 0 THEN 0 ELSE -f.e

RECURSIVE DigitsStr(_)
DigitsStr(d) == IF d = << >> THEN "" ELSE ToString(d[1]) \o DigitsStr(Tail(d))
RECURSIVE DropTrailingZeros(_)
DropTrailingZeros(d) == IF d # << >> /\ d[Len(d)] = 0
                        THEN DropTrailingZeros(SubSeq(d, 1, Len(d) - 1)) ELSE d
ZeroDigits(k) == [i \in 1..k |-> 0]

\* positional notation of D / 10^k with at least one fractional digit
Positional(D, k) ==
  LET L == Len(D) IN
  IF L = 0 THEN "0.0"
  ELSE IF L > k
  THEN LET fr == DropTrailingZeros(SubSeq(D, L - k + 1, L))
       IN DigitsStr(SubSeq(D, 1, L - k)) \o "." \o (IF fr = << >> THEN "0" ELSE DigitsStr(fr))
  ELSE "0." \o DigitsStr(ZeroDigits(k - L)) \o DigitsStr(DropTrailingZeros(D))
\* scientific notation d.ddde<x> of the significant digits S with decimal exponent x
Scientific(S, x) == ToString(S[1]) \o (IF Len(S) > 1 THEN "." \o DigitsStr(Tail(S)) ELSE "")
                    \o "e" \o ToString(x)

FSigDigits(f) == DropTrailingZeros(NDigits(FDecN(f)))
\* N7: the printed form is modelled only for <= 15 significant decimal digits
FShort(f) == f.c # "fin" \/ f.m = Zero \/ Len(FSigDigits(f)) <= 15
FStr(f) ==
  IF f.c = "nan" THEN "+nan.0"
  ELSE IF f.c = "inf" THEN (IF f.neg THEN "-inf.0" ELSE "+inf.0")
  ELSE IF f.m = Zero THEN (IF f.neg THEN "-0.0" ELSE "0.0")
  ELSE LET D == NDigits(FDecN(f))
           k == FDecK(f)
           x == Len(D) - k - 1                 \* |f| = d.ddd * 10^x
       IN (IF f.neg THEN "-" ELSE "") \o
          (IF x >= 16 \/ x <= -5 THEN Scientific(DropTrailingZeros(D), x) ELSE Positional(D, k))
\* the exact decimal expansion as a literal (reads back as exactly f): for results that are not FShort
FExactLit(f) == (IF f.neg THEN "-" ELSE "") \o Positional(NDigits(FDecN(f)), FDecK(f))

-----------------------------------------------------------------------------
(* 4. Numbers (operands) and results *)

VQ(q)      == [t |-> "ex", q |-> q]
VF(f, lit) == [t |-> "fl", f |-> f, lit |-> lit]
IsEx(v)    == v.t = "ex"
Lit(v)     == IF IsEx(v) THEN QStr(v.q) ELSE v.lit           \* source text of an operand

\* conversion of an operand to a double, when that needs no rounding
ToFlo(v) == IF ~IsEx(v) THEN v.f ELSE IF QIsZero(v.q) THEN FZero(FALSE) ELSE FOfQ(v.q)

RQ(q)  == [t |-> "ex", q |-> q]
RF(f)  == IF f.c = "undet" THEN [t |-> "skip"] ELSE [t |-> "fl", f |-> f]
RB(b)  == [t |-> "bool", b |-> b]
RL2(x, y) == [t |-> "list", x |-> x, y |-> y]               \* N3: a two-element list of exact numbers
RS(s)  == [t |-> "str", s |-> s]
RErr   == [t |-> "err"]
RSkip  == [t |-> "skip"]                                    \* not determined by the model: no case
AsV(r) == IF r.t = "ex" THEN VQ(r.q) ELSE VF(r.f, "")       \* a result fed into the next operation

VClass(v) == IF IsEx(v) THEN "fin" ELSE v.f.c
VVal(v)   == IF IsEx(v) THEN v.q ELSE FVal(v.f)
VRank(v)  == IF VClass(v) = "inf" THEN (IF v.f.neg THEN -1 ELSE 1) ELSE 0
\* -1, 0, 1, or 2 = unordered (NaN); an exact and an inexact number compare by their exact values
NumCmp(v, w) ==
  IF VClass(v) = "nan" \/ VClass(w) = "nan" THEN 2
  ELSE IF VRank(v) # 0 \/ VRank(w) # 0
       THEN (IF VRank(v) < VRank(w) THEN -1 ELSE IF VRank(v) > VRank(w) THEN 1 ELSE 0)
  ELSE QCmp(VVal(v), VVal(w))
CmpHolds(o, c) == CASE o = "="  -> c = 0
                    [] o = "<"  -> c = -1
                    [] o = "<=" -> c \in {-1, 0}
                    [] o = ">"  -> c = 1
                    [] o = ">=" -> c \in {0, 1}

ARITH == {"+", "-", "*", "/"}
CMPS  == {"=", "<", "<=", ">", ">="}

\* one binary arithmetic step
Arith2(o, v, w) ==
  IF IsEx(v) /\ IsEx(w)
  THEN CASE o = "+" -> RQ(QAdd(v.q, w.q))
         [] o = "-" -> RQ(QSub(v.q, w.q))
         [] o = "*" -> RQ(QMul(v.q, w.q))
         [] o = "/" -> IF QIsZero(w.q) THEN RErr ELSE RQ(QDiv(v.q, w.q))        \* N5
  ELSE IF o = "/" /\ IsEx(w) /\ QIsZero(w.q) THEN RSkip                          \* N5
  ELSE LET a == ToFlo(v)
           b == ToFlo(w)
       IN RF(CASE o = "+" -> FAdd(a, b) [] o = "-" -> FSub(a, b)
               [] o = "*" -> FMul(a, b) [] o = "/" -> FDiv(a, b))

\* (o x1 x2 ... xn), n >= 2: left fold
RECURSIVE ArithFold(_, _, _, _)
ArithFold(o, acc, xs, i) ==
  IF i > Len(xs) \/ acc.t \in {"err", "skip"} THEN acc
  ELSE ArithFold(o, Arith2(o, AsV(acc), xs[i]), xs, i + 1)

ArithN(o, xs) ==
  IF Len(xs) = 0 THEN (IF o = "+" THEN RQ(QZ) ELSE IF o = "*" THEN RQ(QOne) ELSE RErr)
  ELSE IF Len(xs) = 1
       THEN (CASE o \in {"+", "*"} -> IF IsEx(xs[1]) THEN RQ(xs[1].q) ELSE RF(xs[1].f)
               [] o = "-" -> IF IsEx(xs[1]) THEN RQ(QNeg(xs[1].q)) ELSE RF(FNegate(xs[1].f))
               [] o = "/" -> Arith2("/", VQ(QOne), xs[1]))
  ELSE ArithFold(o, (IF IsEx(xs[1]) THEN RQ(xs[1].q) ELSE RF(xs[1].f)), xs, 2)

\* (o x1 ... xn) for a comparison: every adjacent pair must be in the relation
CmpN(o, xs) == RB(\A i \in 1..(Len(xs) - 1) : CmpHolds(o, NumCmp(xs[i], xs[i + 1])))

\* max / min with at least one inexact operand: R7RS 6.2.6 "if any argument is inexact, then the
\* result will also be inexact"; the larger / smaller operand by exact value, converted to a double
\* (undetermined when that conversion would round, or when an operand is NaN)
MaxMinMixed(o, v, w) ==
  LET c == NumCmp(v, w)
      pick == IF o = "max" THEN (IF c >= 0 THEN v ELSE w) ELSE (IF c <= 0 THEN v ELSE w)
  IN IF c = 2 THEN RSkip
     ELSE IF c = 0 /\ VClass(v) = "fin" /\ QIsZero(VVal(v)) THEN RSkip     \* 0.0 against -0.0: either
     ELSE RF(ToFlo(pick))

\* integer operators on two exact integers
INTOPS == <<"quotient", "remainder", "modulo",
            "truncate-quotient", "truncate-remainder", "truncate/",
            "floor-quotient", "floor-remainder", "floor/",
            "euclidean-quotient", "euclidean-remainder", "euclidean/",
            "gcd", "lcm">>
IntOp2(o, a, b) ==
  IF o = "gcd" THEN RQ(QGcd(a, b))
  ELSE IF o = "lcm" THEN RQ(QLcm(a, b))
  ELSE IF QIsZero(b) THEN RErr                                                   \* N5
  ELSE LET t == TruncQR(a, b)
           f == FloorQR(a, b)
           u == EuclidQR(a, b)
       IN CASE o \in {"quotient", "truncate-quotient"}   -> RQ(t[1])
            [] o \in {"remainder", "truncate-remainder"} -> RQ(t[2])
            [] o = "truncate/"                           -> RL2(t[1], t[2])
            [] o = "floor-quotient"                      -> RQ(f[1])
            [] o \in {"modulo", "floor-remainder"}       -> RQ(f[2])
            [] o = "floor/"                              -> RL2(f[1], f[2])
            [] o = "euclidean-quotient"                  -> RQ(u[1])
            [] o = "euclidean-remainder"                 -> RQ(u[2])
            [] o = "euclidean/"                          -> RL2(u[1], u[2])

\* unary operators on an exact number
UNOPS == <<"+", "-", "*", "/", "<", "add1", "sub1", "abs", "numerator", "denominator", "floor", "ceiling", "round",
           "truncate", "square", "exact-integer-sqrt", "number->string", "zero?", "positive?",
           "negative?", "even?", "odd?", "exact-integer?", "integer?", "rational?", "exact?",
           "inexact?", "exact", "inexact", "exact->inexact">>
UnEx(o, x) ==
  CASE o \in {"+", "-", "*", "/"} -> ArithN(o, <<VQ(x)>>)
    [] o = "<"            -> RB(TRUE)
    [] o = "add1"         -> RQ(QAdd(x, QOne))
    [] o = "sub1"         -> RQ(QSub(x, QOne))
    [] o = "abs"          -> RQ(QAbs(x))
    [] o = "numerator"    -> RQ(QInt(x.neg, x.num))
    [] o = "denominator"  -> RQ(QInt(FALSE, x.den))
    [] o = "floor"        -> RQ(QFloor(x))
    [] o = "ceiling"      -> RQ(QCeil(x))
    [] o = "round"        -> RQ(QRound(x))
    [] o = "truncate"     -> RQ(QTrunc(x))
    [] o = "square"       -> RQ(QMul(x, x))
    [] o = "exact-integer-sqrt" -> IF QIsInt(x) /\ ~x.neg
                                   THEN LET s == QISqrt(x) IN RL2(s[1], s[2]) ELSE RSkip
    [] o = "number->string" -> RS(QStr(x))
    [] o = "zero?"        -> RB(QIsZero(x))
    [] o = "positive?"    -> RB(QSign(x) = 1)
    [] o = "negative?"    -> RB(QSign(x) = -1)
    [] o = "even?"        -> IF QIsInt(x) THEN RB(~NIsOdd(x.num)) ELSE RSkip
    [] o = "odd?"         -> IF QIsInt(x) THEN RB(NIsOdd(x.num)) ELSE RSkip
    [] o = "exact-integer?" -> RB(QIsInt(x))
    [] o = "integer?"     -> RB(QIsInt(x))
    [] o = "rational?"    -> RB(TRUE)
    [] o = "exact?"       -> RB(TRUE)
    [] o = "inexact?"     -> RB(FALSE)
    [] o = "exact"        -> RQ(x)
    [] o \in {"inexact", "exact->inexact"} -> RF(ToFlo(VQ(x)))

\* unary operators on a flonum
FUNOPS == <<"-", "abs", "exact", "inexact->exact", "inexact", "number->string", "zero?", "positive?",
            "negative?", "integer?", "rational?", "exact?", "inexact?", "nan?", "infinite?", "finite?",
            "floor", "ceiling", "round", "truncate", "square", "/", "+">>
UnFl(o, f) ==
  LET fin  == f.c = "fin"
      sign == IF f.c = "nan" \/ (fin /\ f.m = Zero) THEN 0 ELSE IF f.neg THEN -1 ELSE 1
  IN
  CASE o = "-"       -> RF(FNegate(f))
    [] o = "+"       -> RF(f)
    [] o = "/"       -> RF(FDiv(FFin(FALSE, One, 0), f))
    [] o = "abs"     -> RF(FAbs(f))
    [] o \in {"exact", "inexact->exact"} -> IF fin THEN RQ(FVal(f)) ELSE RSkip
    [] o = "inexact" -> RF(f)
    [] o = "number->string" -> IF FShort(f) THEN RS(FStr(f)) ELSE RSkip
    [] o = "zero?"     -> RB(fin /\ f.m = Zero)
    [] o = "positive?" -> RB(sign = 1)
    [] o = "negative?" -> RB(sign = -1)
    [] o = "integer?"  -> RB(fin /\ (f.m = Zero \/ f.e >= 0))
    [] o = "rational?" -> RB(fin)
    [] o = "exact?"    -> RB(FALSE)
    [] o = "inexact?"  -> RB(TRUE)
    [] o = "nan?"      -> RB(f.c = "nan")
    [] o = "infinite?" -> RB(f.c = "inf")
    [] o = "finite?"   -> RB(fin)
    [] o = "floor"     -> RF(FRoundWith(f, QFloor))
    [] o = "ceiling"   -> RF(FRoundWith(f, QCeil))
    [] o = "round"     -> RF(FRoundWith(f, QRound))
    [] o = "truncate"  -> RF(FRoundWith(f, QTrunc))
    [] o = "square"    -> RF(FMul(f, f))

\* printed form of a result (what `emit` records)
RStr(r) == CASE r.t = "ex"   -> QStr(r.q)
             [] r.t = "fl"   -> FStr(r.f)
             [] r.t = "bool" -> IF r.b THEN "#true" ELSE "#false"              \* N4
             [] r.t = "list" -> "(" \o QStr(r.x) \o " " \o QStr(r.y) \o ")"
             [] r.t = "str"  -> "\"" \o r.s \o "\""

\* representation class of an exact number in Steel (for coverage accounting only)
P31 == BE(<<21, 4748, 3648>>)
P63 == BE(<<922, 3372, 368, 5477, 5808>>)
FitsSigned(neg, n, p) == IF neg THEN NLe(n, p) ELSE NLt(n, p)         \* -p <= +-n <= p-1
RepClass(q) == IF q.den = One THEN (IF FitsSigned(q.neg, q.num, P63) THEN "fix" ELSE "big")
               ELSE IF FitsSigned(q.neg, q.num, P31) /\ NLt(q.den, P31) THEN "rat" ELSE "bigrat"
VRep(v) == IF IsEx(v) THEN RepClass(v.q) ELSE "flo"
RRep(r) == CASE r.t = "ex" -> RepClass(r.q) [] r.t = "fl" -> "flo" [] r.t = "list" -> RepClass(r.x)
             [] OTHER -> r.t


-----------------------------------------------------------------------------
(* 5. The operand tables: values at and around every representation boundary *)

P32 == BE(<<42, 9496, 7296>>)                    \* 4 294 967 296
P62 == BE(<<461, 1686, 184, 2738, 7904>>)        \* 4 611 686 018 427 387 904
P64 == BE(<<1844, 6744, 737, 955, 1616>>)        \* 18 446 744 073 709 551 616
R63 == BE(<<30, 3700, 499>>)                     \* floor(sqrt(2^63)) = 3 037 000 499
T20 == NShift(One, 5)                            \* 10^20
T40 == NShift(One, 10)                           \* 10^40

\* the hand-written limb literals agree with the algebra
ASSUME /\ NPow(Two, 31) = P31 /\ NPow(Two, 32) = P32 /\ NPow(Two, 53) = P53
       /\ NPow(Two, 62) = P62 /\ NPow(Two, 63) = P63 /\ NPow(Two, 64) = P64
       /\ NPow(<<10>>, 20) = T20 /\ NPow(<<10>>, 40) = T40
       /\ NSqrt(P63) = R63 /\ NMul(P32, P32) = P64 /\ NAdd(P63, P63) = P64
       /\ NStr(P64) = "18446744073709551616" /\ NStr(T20) = "100000000000000000000"
       /\ NDivMod(P64, T20) = <<Zero, P64>> /\ NDivMod(NMul(P64, T20), P64) = <<T20, Zero>>
       /\ NGcd(NMul(P62, <<21>>), NMul(T20, <<35>>)) = NMul(NPow(Two, 20), <<7>>)

D28(k) == NMulSmall(NPow(Two, 28), k)             \* k * 2^28
Ip(n) == QInt(FALSE, n)
In(n) == QInt(TRUE, n)
Rp(n, d) == MkQ(FALSE, n, d)
Rn(n, d) == MkQ(TRUE, n, d)

\* integers first (1..NI), then proper rationals
EX == << QZ, Ip(One), In(One), Ip(Two), In(Two), Ip(<<3>>), In(<<7>>), Ip(<<10>>),
         Ip(<<9999>>), Ip(<<0, 1>>), In(<<0, 1>>),                                \* limb boundary
         Ip(NSub(P31, One)), Ip(P31), In(P31), In(NAdd(P31, One)), Ip(P32),       \* 32-bit boundary
         Ip(R63), Ip(NAdd(R63, One)),                                             \* squares straddle 2^63
         Ip(P53), Ip(NAdd(P53, One)),                                             \* double-precision boundary
         Ip(NSub(P62, One)), Ip(P62), In(P62),
         Ip(NSub(P63, One)), Ip(P63), In(NSub(P63, One)), In(P63), In(NAdd(P63, One)),   \* fixnum boundary
         Ip(NSub(P64, One)), Ip(P64), Ip(NAdd(P64, One)), In(P64),
         Ip(T20), In(T20), Ip(T40), Ip(NAdd(T40, One)), In(T40),
         \* rationals: small, 32-bit ratio boundary, 64-bit components, big / big
         Rp(One, Two), Rn(One, Two), Rp(Two, <<3>>), Rn(<<7>>, <<3>>),
         Rp(NSub(P31, One), Two), Rp(P31, <<3>>), Rn(NAdd(P31, One), Two), Rp(<<3>>, P31),
         Rp(NSub(P63, One), Two), Rn(P63, <<3>>), Rp(<<3>>, P63),
         Rp(T20, <<3>>), Rn(<<3>>, T20), Rp(NAdd(T40, One), P64), Rn(NAdd(P64, One), T20),
         \* boundaries of 32-bit INTERMEDIATES (operands and often the reduced result fit 32-bit
         \* components, but the lcm of the denominators, a scaled numerator or a product does not):
         \*   1/(3*2^28) + 1/(5*2^28) = 1/(15*2^25)  fits again;  1/(3*2^28) + 1/(7*2^28) = 5/(21*2^27) does not
         \*   x + x, x - (-x), x / (2x) for x = (2^31-1)/4;  (2^31-1)/k * k/(2^31-1) = 1 (cross-cancellation)
         \*   -2^31/3: numerator i32::MIN;  46341/2: the square leaves 32 bits, 46340/3: it does not
         Rp(One, D28(3)), Rp(One, D28(5)), Rp(One, D28(7)),
         Rp(NSub(P31, One), <<4>>), Rn(NSub(P31, One), <<4>>), Rp(Two, NSub(P31, One)),
         Rn(P31, <<3>>), Rp(NSub(P31, One), <<3>>), Rp(<<3>>, NPow(Two, 30)),
         Rp(<<6341, 4>>, Two), Rp(<<6340, 4>>, <<3>>) >>
NI == 37
NX == Len(EX)
ASSUME \A i \in 1..NX : (EX[i].den = One) <=> (i <= NI)

\* reduced operand set for calls with three and more operands (indexes into EX)
RX == <<1, 2, 3, 22, 24, 25, 27, 28, 30, 33, 38, 41, 46, 49, 53, 56>>
ASSUME QStr(EX[53]) = "1/805306368" /\ QStr(EX[54]) = "1/1342177280" /\ QStr(EX[56]) = "2147483647/4"
       /\ QStr(EX[59]) = "-2147483648/3" /\ QStr(EX[62]) = "46341/2"
       /\ QStr(QAdd(EX[53], EX[54])) = "1/503316480" /\ QStr(QAdd(EX[53], EX[55])) = "5/2818572288"
\* exponents for expt, shift amounts for arithmetic-shift (TLC integers)
EXPS   == <<0, 1, 2, 3, 4, 7, 8, 31, 62, 63, 64, 65, -1, -2, -3, -63, -64>>
SHIFTS == <<0, 1, 2, 31, 32, 61, 62, 63, 64, 65, -1, -2, -62, -63, -64, -65>>
SX     == <<1, 2, 3, 4, 6, 7, 13, 22, 24, 25, 27, 28, 30, 33>>      \* integers shifted (indexes into EX)
RADIXES == <<2, 8, 16>>
QOfInt(k) == IF k >= 0 THEN Ip(NSmall(k)) ELSE In(NSmall(-k))

\* flonum operands: source literal, sign, odd significand, binary exponent.  The check module
\* validates every row against the host's IEEE doubles (family "ftab").
FL(lit, neg, m, e) == VF(FFin(neg, m, e), lit)
FLOS == << VF(FZero(FALSE), "0.0"), VF(FZero(TRUE), "(- 0.0)"),
           FL("0.5", FALSE, One, -1), FL("-0.5", TRUE, One, -1), FL("1.0", FALSE, One, 0),
           FL("-1.0", TRUE, One, 0), FL("1.5", FALSE, <<3>>, -1), FL("2.0", FALSE, One, 1),
           FL("2.5", FALSE, <<5>>, -1), FL("-2.5", TRUE, <<5>>, -1), FL("3.5", FALSE, <<7>>, -1),
           FL("0.75", FALSE, <<3>>, -2),
           FL("0.1", FALSE, BE(<<3602, 8797, 189, 6397>>), -55),
           FL("0.3333333333333333", FALSE, BE(<<6004, 7995, 316, 661>>), -54),
           FL("4294967296.0", FALSE, One, 32),
           FL("9007199254740992.0", FALSE, One, 53),
           FL("9007199254740994.0", FALSE, BE(<<4503, 5996, 2737, 497>>), 1),
           FL("4611686018427387904.0", FALSE, One, 62),
           FL("9223372036854775808.0", FALSE, One, 63), FL("-9223372036854775808.0", TRUE, One, 63),
           FL("18446744073709551616.0", FALSE, One, 64),
           FL("1e20", FALSE, BE(<<95, 3674, 3164, 625>>), 20), FL("-1e20", TRUE, BE(<<95, 3674, 3164, 625>>), 20),
           FL("1e22", FALSE, BE(<<2384, 1857, 9101, 5625>>), 22),
           FL("1.7976931348623157e308", FALSE, BE(<<9007, 1992, 5474, 991>>), 971),
           FL("5e-324", FALSE, One, -1074),
           VF(FInf(FALSE), "+inf.0"), VF(FInf(TRUE), "-inf.0"), VF(FNaN, "+nan.0") >>
NF == Len(FLOS)
\* every finite row is canonical: the double equal to its value is the row itself
\* (checked by TLC in the "ftab" state, see Laws)
LawFtab == \A i \in 1..NF : (FLOS[i].f.c = "fin" /\ FLOS[i].f.m # Zero) => FOfQ(FVal(FLOS[i].f)) = FLOS[i].f

\* exact operands of the mixed family (indexes into EX)
MXE == <<1, 2, 3, 4, 13, 19, 20, 22, 24, 25, 27, 28, 30, 31, 33, 35, 38, 39, 40, 41, 46, 48, 49, 52>>
MX  == FLOS \o [i \in 1..Len(MXE) |-> VQ(EX[MXE[i]])]
NM  == Len(MX)

-----------------------------------------------------------------------------
(* 6. string->number: the grammar of exact real numerals *)

ALPHA == <<"+", "-", "/", "0", "1", "7">>
IsDigitCh(c) == c \in {"0", "1", "7"}
DigitVal(c) == CASE c = "0" -> 0 [] c = "1" -> 1 [] c = "7" -> 7
RECURSIVE DigitsNat(_, _)           \* value of a digit string, most significant first
DigitsNat(cs, acc) == IF cs = << >> THEN acc
                      ELSE DigitsNat(Tail(cs), NAdd(NMulSmall(acc, 10), NSmall(DigitVal(cs[1]))))
AllDigits(cs) == cs # << >> /\ \A i \in 1..Len(cs) : IsDigitCh(cs[i])
SlashPos(cs) == IF \E i \in 1..Len(cs) : cs[i] = "/"
                THEN CHOOSE i \in 1..Len(cs) : cs[i] = "/" /\ \A j \in 1..(i - 1) : cs[j] # "/"
                ELSE 0
\* <numeral> ::= [+|-] <digit>+ [ / <digit>+ ]    anything else is not a number: #false.
\* A zero denominator is left undetermined (R7RS is silent; Steel raises an error).
ParseExact(cs) ==
  LET signed == cs # << >> /\ cs[1] \in {"+", "-"}
      neg    == signed /\ cs[1] = "-"
      body   == IF signed THEN Tail(cs) ELSE cs
      sp     == SlashPos(body)
  IN IF sp = 0
     THEN (IF AllDigits(body) THEN RQ(QInt(neg, DigitsNat(body, Zero))) ELSE RB(FALSE))
     ELSE LET nu == SubSeq(body, 1, sp - 1)
              de == SubSeq(body, sp + 1, Len(body))
          IN IF AllDigits(nu) /\ AllDigits(de)
             THEN (IF DigitsNat(de, Zero) = Zero THEN RSkip
                   ELSE RQ(MkQ(neg, DigitsNat(nu, Zero), DigitsNat(de, Zero))))
             ELSE RB(FALSE)
RECURSIVE Concat(_)
Concat(cs) == IF cs = << >> THEN "" ELSE cs[1] \o Concat(Tail(cs))
StrLit(s) == "\"" \o s \o "\""

\* numerals derived from an exact value: canonical, explicit +, leading zeros, unreduced, radix 16 / 2
S2NVARIANTS == <<"canon", "plus", "zeros", "unreduced", "hex", "bin">>
S2NText(q, v) ==
  LET sg == IF q.neg THEN "-" ELSE "" IN
  CASE v = "canon" -> QStr(q)
    [] v = "plus"  -> (IF q.neg THEN "-" ELSE "+") \o QStr(QAbs(q))
    [] v = "zeros" -> sg \o "000" \o NStr(q.num) \o (IF q.den = One THEN "" ELSE "/00" \o NStr(q.den))
    [] v = "unreduced" -> sg \o NStr(NMulSmall(q.num, 6)) \o "/" \o NStr(NMulSmall(q.den, 6))
    [] v = "hex"   -> QStrRadix(q, 16)
    [] v = "bin"   -> QStrRadix(q, 2)
S2NArgs(q, v) == <<StrLit(S2NText(q, v))>> \o (CASE v = "hex" -> <<"16">> [] v = "bin" -> <<"2">> [] OTHER -> << >>)

-----------------------------------------------------------------------------
(* 7. Call shapes: the same operation through every code path that implements it *)
(*                                                                         *)
(*  fold     all operands literal: the compile-time constant folder        *)
(*  opq      every operand read through (opaque _): the interpreter's      *)
(*           arithmetic opcode (or the primitive, for non-inlined names)   *)
(*  litR / litL   one literal operand, the others opaque                   *)
(*  apply    the primitive as a first-class procedure                      *)
(*  let      operands in local variables at top level                      *)
(*  fn       body of a defined function, tail position (native code when   *)
(*           the JIT is on), operands are parameters                       *)
(*  fnarg    inside a function, argument position                          *)
(*  fnlitR / fnlitL  inside a function with one literal operand (the JIT   *)
(*           specialises on the inferred type of a literal operand)        *)
(*  fnloop   inside a self-tail-calling loop, result carried in a parameter*)
(*  fncap    operands are captured variables of a closure                  *)
(*  glob / fnglob   operands are global variables (read at top level /     *)
(*           inside a function)                                            *)
(*  if / fnif / fniflitR   result consumed as a branch condition           *)
(*  opqC / fnC / fnaccC   like opq / fn / fnacc, but the exact result is    *)
(*           observed through equal? / = / hashing against the expected    *)
(*           value read as a literal (canonical representation), not       *)
(*           through printing                                              *)

RECURSIVE JoinSp(_)
JoinSp(xs) == IF xs = << >> THEN "" ELSE " " \o xs[1] \o JoinSp(Tail(xs))
Call(o, args) == "(" \o o \o JoinSp(args) \o ")"
Opq(l) == "(opaque " \o l \o ")"
Front(s) == SubSeq(s, 1, Len(s) - 1)
TF(e) == "(if " \o e \o " (quote T) (quote F))"
RECURSIVE Bindings(_, _, _)
Bindings(xs, es, i) == IF i > Len(xs) THEN ""
                       ELSE "(" \o xs[i] \o " " \o es[i] \o ")" \o (IF i < Len(xs) THEN " " ELSE "")
                            \o Bindings(xs, es, i + 1)

RECURSIVE Globals(_, _)
Globals(es, i) == IF i > Len(es) THEN ""
                  ELSE "(define c10g" \o ToString(i) \o "-@@ " \o es[i] \o ")" \o (IF i < Len(es) THEN " " ELSE "")
                       \o Globals(es, i + 1)

\* N7: a flonum result that the model cannot print is observed through numeric equality
\* with its exact decimal expansion
NeedsEq(r) == r.t = "fl" /\ ~FShort(r.f)

\* Canonical REPRESENTATION of an exact result, observed without going through printing: a result
\* that prints like the expected value but is held in the wrong representation (a big ratio whose
\* components fit 32 bits again, a bignum that fits a fixnum, an unreduced ratio) is not `equal?` to,
\* not `=` to and does not hash like the same value read as a literal.  (`eqv?` is left out: in Steel
\* it is pointer equality on ratios and bignums, a finding of property C11, so it says nothing here.)
\* Exact results only (and lists of two exact results through equal? / hashing); inexact and NaN excluded.
CanonObservable(r) == r.t \in {"ex", "list"}
CanonLit(r) == IF r.t = "ex" THEN QStr(r.q) ELSE "(list " \o QStr(r.x) \o " " \o QStr(r.y) \o ")"
CanonObs(e, r) ==
  LET L == CanonLit(r) IN
  "((lambda (c10r) (list (equal? c10r " \o L \o ")"
     \o (IF r.t = "ex" THEN " (= c10r " \o L \o ")" ELSE "")
     \o " (hash-contains? (hash " \o L \o " 1) c10r))) " \o e \o ")"
CanonExpected(r) == IF r.t = "ex" THEN "(#true #true #true)" ELSE "(#true #true)"

Shapes(o, ls, r, full) ==
  LET n   == Len(ls)
      xs  == [i \in 1..n |-> "x" \o ToString(i)]
      oq  == [i \in 1..n |-> Opq(ls[i])]
      ne  == NeedsEq(r)
      txt == IF r.t = "err" THEN "" ELSE IF ne THEN "(#true #true)" ELSE RStr(r)
      tf  == IF r.t = "bool" THEN (IF r.b THEN "T" ELSE "F") ELSE ""
      F   == "c10f@@"
      gs  == [i \in 1..n |-> "c10g" \o ToString(i) \o "-@@"]          \* global variables holding the operands
      obsL == IF ne THEN "((lambda (c10r) (list (inexact? c10r) (= c10r " \o FExactLit(r.f) \o "))) " ELSE ""
      obsR == IF ne THEN ")" ELSE ""
      Obs(e) == obsL \o e \o obsR
      Em(e) == "(emit " \o Obs(e) \o ")"
      Def(ps, body) == "(define (" \o F \o JoinSp(ps) \o ") " \o body \o ")"
      T(sh, def, src, t) == [sh |-> sh, def |-> def, src |-> src, emit |-> t]
      base == << T("fold", "", Em(Call(o, ls)), txt),
                 T("opq", "", Em(Call(o, oq)), txt),
                 T("apply", "", Em("(apply " \o o \o " (list" \o JoinSp(oq) \o "))"), txt),
                 T("fn", Def(xs, Call(o, xs)), Em(Call(F, oq)), txt) >>
      canon == IF CanonObservable(r)
               THEN << T("opqC", "", "(emit " \o CanonObs(Call(o, oq), r) \o ")", CanonExpected(r)),
                       T("fnC", Def(xs, Call(o, xs)), "(emit " \o CanonObs(Call(F, oq), r) \o ")", CanonExpected(r)) >>
               ELSE << >>
      litr == IF n >= 2
              THEN << T("fnlitR", Def(Front(xs), Call(o, Front(xs) \o <<ls[n]>>)), Em(Call(F, Front(oq))), txt) >>
              ELSE << >>
      more == << T("let", "", Em("(let (" \o Bindings(xs, oq, 1) \o ") " \o Call(o, xs) \o ")"), txt),
                 T("fnarg", Def(xs, "(emit " \o Obs(Call(o, xs)) \o ") (quote done)"), Call(F, oq), txt),
                 T("fncap", "(define " \o F \o " (let (" \o Bindings(xs, oq, 1) \o ") (lambda () " \o Call(o, xs) \o ")))",
                   Em(Call(F, << >>)), txt),
                 T("glob", Globals(oq, 1), Em(Call(o, gs)), txt),
                 T("fnglob", Globals(oq, 1) \o " (define (" \o F \o ") " \o Call(o, gs) \o ")", Em(Call(F, << >>)), txt),
                 T("fnloop", Def(<<"k">> \o xs \o <<"acc">>,
                                 "(if (<= k 0) acc " \o Call(F, <<"(- k 1)">> \o xs \o <<Call(o, xs)>>) \o ")"),
                   Em(Call(F, <<"2">> \o oq \o <<"#f">>)), txt) >>
      lits == IF n >= 2
              THEN << T("litR", "", Em(Call(o, Front(oq) \o <<ls[n]>>)), txt),
                      T("litL", "", Em(Call(o, <<ls[1]>> \o Tail(oq))), txt),
                      T("fnlitL", Def(Tail(xs), Call(o, <<ls[1]>> \o Tail(xs))), Em(Call(F, Tail(oq))), txt) >>
              ELSE << >>
      cond == IF r.t # "bool" THEN << >>
              ELSE << T("if", "", "(emit " \o TF(Call(o, oq)) \o ")", tf),
                      T("fnif", Def(xs, TF(Call(o, xs))), "(emit " \o Call(F, oq) \o ")", tf) >>
                   \o (IF n >= 2
                       THEN << T("fniflitR", Def(Front(xs), TF(Call(o, Front(xs) \o <<ls[n]>>))),
                                 "(emit " \o Call(F, Front(oq)) \o ")", tf) >>
                       ELSE << >>)
  IN IF full THEN base \o canon \o litr \o more \o lits \o cond ELSE base \o canon \o litr

\* Accumulation shapes (family "iter"): acc := (o acc x), three times, starting from a.  The
\* accumulator changes representation while the same (native) code runs: fixnum -> bignum,
\* ratio -> integer, ...  Expected value: (o (o (o a x) x) x).
IterShapes(o, la, lx, r) ==
  LET txt == IF r.t = "err" THEN "" ELSE RStr(r)
      F   == "c10f@@"
      A   == Opq(la)
      X   == Opq(lx)
      T(sh, def, src, t) == [sh |-> sh, def |-> def, src |-> src, emit |-> t]
      Step(acc, x) == Call(o, <<acc, x>>)
  IN << T("nest", "", "(emit " \o Step(Step(Step(A, X), X), X) \o ")", txt),
        T("fnnest", "(define (" \o F \o " a x) " \o Step(Step(Step("a", "x"), "x"), "x") \o ")",
          "(emit " \o Call(F, <<A, X>>) \o ")", txt),
        T("fnacc", "(define (" \o F \o " k acc x) (if (<= k 0) acc " \o Call(F, <<"(- k 1)", Step("acc", "x"), "x">>) \o "))",
          "(emit " \o Call(F, <<"3", A, X>>) \o ")", txt),
        T("fnaccC", "(define (" \o F \o " k acc x) (if (<= k 0) acc " \o Call(F, <<"(- k 1)", Step("acc", "x"), "x">>) \o "))",
          "(emit " \o (IF CanonObservable(r) THEN CanonObs(Call(F, <<"3", A, X>>), r) ELSE Call(F, <<"3", A, X>>)) \o ")",
          IF CanonObservable(r) THEN CanonExpected(r) ELSE txt),
        T("fnacclit", "(define (" \o F \o " k acc) (if (<= k 0) acc " \o Call(F, <<"(- k 1)", Step("acc", lx)>>) \o "))",
          "(emit " \o Call(F, <<"3", A>>) \o ")", txt),
        T("namedlet", "",
          "(emit (let c10loop ((k 3) (acc " \o A \o ") (x " \o X \o ")) (if (<= k 0) acc (c10loop (- k 1) "
             \o Step("acc", "x") \o " x))))", txt),
        T("fnset", "(define (" \o F \o " acc x) (set! acc " \o Step("acc", "x") \o ") (set! acc " \o Step("acc", "x")
             \o ") (set! acc " \o Step("acc", "x") \o ") acc)",
          "(emit " \o Call(F, <<A, X>>) \o ")", txt) >>

\* complex numbers with exact parts, only through `=` (componentwise equality)
CPX(lit, re, im) == [lit |-> lit, re |-> re, im |-> im]
CX == << CPX("1+2i", QOne, QTwo), CPX("2+1i", QTwo, QOne), CPX("1+1i", QOne, QOne), CPX("2+2i", QTwo, QTwo),
         CPX("1-2i", QOne, QNeg(QTwo)), CPX("1/2+2i", QHalf, QTwo),
         CPX("9223372036854775808+2i", Ip(P63), QTwo) >>

-----------------------------------------------------------------------------
(* 8. The generator: families, operand choice, expected result *)

CORE  == <<"+", "-", "*", "=", "<", "<=", ">", ">=">>
DIVS  == <<"/", "max", "min">>
NARY  == <<"+", "-", "*", "/", "<", "<=", ">", ">=">>
NARY4 == <<"+", "-", "*">>
MIXOPS == <<"+", "-", "*", "/", "=", "<", "<=", ">", ">=", "max", "min">>

FAMS == {"core", "div", "int", "un", "nul", "nary", "nary4", "nary5", "iter", "expt", "shift",
         "n2s", "s2n", "s2nf", "s2ng", "mix", "mixun", "cplx", "ftab"}

Ops(f) == CASE f = "core"  -> CORE
            [] f = "div"   -> DIVS
            [] f = "int"   -> INTOPS
            [] f = "un"    -> UNOPS
            [] f = "nul"   -> <<"+", "*">>
            [] f = "nary"  -> NARY
            [] f \in {"nary4", "nary5", "iter"} -> NARY4
            [] f = "cplx"  -> <<"=">>
            [] f = "expt"  -> <<"expt">>
            [] f = "shift" -> <<"arithmetic-shift">>
            [] f = "n2s"   -> <<"number->string">>
            [] f \in {"s2n", "s2nf", "s2ng"} -> <<"string->number">>
            [] f = "mix"   -> MIXOPS
            [] f = "mixun" -> FUNOPS
            [] f = "ftab"  -> <<"table">>

\* number of choices at each operand position; position 1 is chosen by Init
Choices(f) == CASE f \in {"core", "div"} -> <<NX, NX>>
                [] f = "int"   -> <<NI, NI>>
                [] f = "un"    -> <<NX>>
                [] f \in {"nul", "ftab"} -> <<1>>
                [] f \in {"nary", "nary4", "nary5"} -> <<Len(RX), Len(RX), Len(RX)>>
                [] f = "iter"  -> <<NX, Len(RX)>>
                [] f = "cplx"  -> <<Len(CX), Len(CX)>>
                [] f = "expt"  -> <<NX, Len(EXPS)>>
                [] f = "shift" -> <<Len(SX), Len(SHIFTS)>>
                [] f = "n2s"   -> <<NX, Len(RADIXES)>>
                [] f = "s2n"   -> <<NX, Len(S2NVARIANTS)>>
                [] f = "s2nf"  -> <<NF>>
                [] f = "s2ng"  -> <<Len(ALPHA), Len(ALPHA) + 1, Len(ALPHA) + 1, Len(ALPHA) + 1, Len(ALPHA) + 1>>
                [] f = "mix"   -> <<NM, NM>>
                [] f = "mixun" -> <<NF>>

Modulus(f) == CASE f = "core" -> M_CORE
                [] f = "div" -> M_DIV
                [] f = "int" -> M_INT
                [] f \in {"nul", "ftab"} -> 1
                [] f \in {"un", "mixun"} -> M_UN
                [] f \in {"nary", "nary4", "nary5", "iter"} -> M_NARY
                [] f = "cplx" -> 1
                [] f \in {"expt", "shift"} -> M_EXPT
                [] f \in {"n2s", "s2n", "s2ng"} -> M_STR
                [] f = "s2nf" -> 1
                [] f = "mix" -> M_MIX

\* seeded slice of a family: every case has a hash; it is kept when hash = 0 modulo the family's modulus
RECURSIVE IxHash(_, _, _)
IxHash(s, i, acc) == IF i > Len(s) THEN acc
                     ELSE IxHash(s, i + 1, (acc * 131 + s[i] * 7919 + 17) % 1000003)
Selected(f, o, s) == Modulus(f) = 1
                     \/ (IxHash(<<o>> \o s, 1, (SEED % 9973) * 101 + 7) % Modulus(f)) = 0

\* the operand values of a finished choice
Operands(f, s) ==
  CASE f \in {"core", "div", "int"} -> <<VQ(EX[s[1]]), VQ(EX[s[2]])>>
    [] f = "un"    -> <<VQ(EX[s[1]])>>
    [] f \in {"nul", "ftab", "s2ng", "cplx"} -> << >>
    [] f = "s2nf"  -> <<FLOS[s[1]]>>
    [] f = "iter"  -> <<VQ(EX[s[1]]), VQ(EX[RX[s[2]]])>>
    [] f = "nary"  -> <<VQ(EX[RX[s[1]]]), VQ(EX[RX[s[2]]]), VQ(EX[RX[s[3]]])>>
    [] f = "nary4" -> <<VQ(EX[RX[s[1]]]), VQ(EX[RX[s[2]]]), VQ(EX[RX[s[3]]]), VQ(EX[RX[s[1]]])>>
    [] f = "nary5" -> <<VQ(EX[RX[s[1]]]), VQ(EX[RX[s[2]]]), VQ(EX[RX[s[3]]]), VQ(EX[RX[s[2]]]), VQ(EX[RX[s[1]]])>>
    [] f = "expt"  -> <<VQ(EX[s[1]]), VQ(QOfInt(EXPS[s[2]]))>>
    [] f = "shift" -> <<VQ(EX[SX[s[1]]]), VQ(QOfInt(SHIFTS[s[2]]))>>
    [] f = "n2s"   -> <<VQ(EX[s[1]]), VQ(QOfInt(RADIXES[s[2]]))>>
    [] f = "s2n"   -> <<VQ(EX[s[1]])>>
    [] f = "mix"   -> <<MX[s[1]], MX[s[2]]>>
    [] f = "mixun" -> <<FLOS[s[1]]>>

\* s2ng: the choice at position 1 is a character, at positions 2.. it is 1 = "the string has ended"
\* or 1 + a character; once ended it stays ended.  All strings of 1..5 characters over ALPHA.
S2ngEnded(s, i) == i > 1 /\ s[i] = 1
S2ngValid(s) == \A i \in 2..(Len(s) - 1) : S2ngEnded(s, i) => S2ngEnded(s, i + 1)
S2ngLen(s)   == Len(SelectSeq([i \in 1..Len(s) |-> S2ngEnded(s, i)], LAMBDA b : ~b))
S2ngChars(s) == [i \in 1..S2ngLen(s) |-> IF i = 1 THEN ALPHA[s[1]] ELSE ALPHA[s[i] - 1]]

\* argument source texts
Args(f, s) ==
  CASE f = "s2n"  -> S2NArgs(EX[s[1]], S2NVARIANTS[s[2]])
    [] f = "s2ng" -> <<StrLit(Concat(S2ngChars(s)))>>
    [] f = "cplx" -> <<CX[s[1]].lit, CX[s[2]].lit>>
    [] f = "s2nf" -> <<StrLit(IF FLOS[s[1]].lit = "(- 0.0)" THEN "-0.0" ELSE FLOS[s[1]].lit)>>   \* the numeral as a string
    [] OTHER      -> LET xs == Operands(f, s) IN [i \in 1..Len(xs) |-> Lit(xs[i])]

\* the expected result
Eval(f, o, s) ==
  LET xs == Operands(f, s) IN
  CASE f = "core"  -> IF o \in ARITH THEN ArithN(o, xs) ELSE CmpN(o, xs)
    [] f = "div"   -> IF o = "/" THEN ArithN(o, xs)
                      ELSE IF o = "max" THEN RQ(IF QCmp(xs[1].q, xs[2].q) >= 0 THEN xs[1].q ELSE xs[2].q)
                      ELSE RQ(IF QCmp(xs[1].q, xs[2].q) <= 0 THEN xs[1].q ELSE xs[2].q)
    [] f = "int"   -> IntOp2(o, xs[1].q, xs[2].q)
    [] f = "un"    -> UnEx(o, xs[1].q)
    [] f = "nul"   -> ArithN(o, xs)
    [] f \in {"nary", "nary4", "nary5"} -> IF o \in ARITH THEN ArithN(o, xs) ELSE CmpN(o, xs)
    [] f = "iter"  -> ArithN(o, <<xs[1], xs[2], xs[2], xs[2]>>)
    [] f = "cplx"  -> RB(CX[s[1]].re = CX[s[2]].re /\ CX[s[1]].im = CX[s[2]].im)
    [] f = "expt"  -> IF QIsZero(xs[1].q) /\ EXPS[s[2]] < 0 THEN RErr ELSE RQ(QExpt(xs[1].q, EXPS[s[2]]))
    [] f = "shift" -> RQ(QShift(xs[1].q, SHIFTS[s[2]]))
    [] f = "n2s"   -> RS(QStrRadix(xs[1].q, RADIXES[s[2]]))
    [] f = "s2n"   -> RQ(xs[1].q)
    [] f = "s2ng"  -> ParseExact(S2ngChars(s))
    [] f = "s2nf"  -> RF(xs[1].f)
    [] f = "mix"   -> IF o \in ARITH THEN ArithN(o, xs)
                      ELSE IF o \in CMPS THEN CmpN(o, xs)
                      ELSE MaxMinMixed(o, xs[1], xs[2])
    [] f = "mixun" -> UnFl(o, xs[1].f)

\* which families get the full shape set
FullShapes(f, o) == f \in {"core", "div", "nary", "mix", "nul"} \/ (f \in {"un", "mixun"} /\ o \in {"+", "-", "*", "/", "<"})

Init == \E f \in {g \in FAMS : FAMILY \in {"all", g} \/ g = "ftab"} : \E o \in 1..Len(Ops(f)) : \E i \in 1..Choices(f)[1] :
          fam = f /\ oi = o /\ op = Ops(f)[o] /\ ix = <<i>> /\ done = FALSE

RECURSIVE Tuples(_, _)       \* all completions of a partial index tuple
Tuples(f, s) == IF Len(s) = Len(Choices(f)) THEN {s}
                ELSE UNION {Tuples(f, Append(s, j)) : j \in 1..Choices(f)[Len(s) + 1]}

\* the largest double and the smallest subnormal make every exact operation on them hundreds of
\* limbs long: they take part in comparisons with a few partners and in the cheap unary operators only
EXTREME == {25, 26}                                                  \* rows of FLOS
ASSUME FLOS[25].f.e = 971 /\ FLOS[26].f.e = -1074
XPARTNERS == {1, 5, 24, 25, 26, 27, 28, 29} \cup {NF + 1, NF + 2, NF + 3, NF + 16, NF + 17, NF + 22}
XUNOPS == {"-", "abs", "zero?", "positive?", "negative?", "integer?", "rational?", "exact?", "inexact?",
           "nan?", "infinite?", "finite?", "inexact"}
Admissible(f, o, s) ==
  CASE f = "mix"  -> /\ ~(IsEx(MX[s[1]]) /\ IsEx(MX[s[2]]))         \* at least one flonum
                     /\ (s[1] \in EXTREME \/ s[2] \in EXTREME) =>
                          (o \in CMPS /\ s[1] \in XPARTNERS /\ s[2] \in XPARTNERS)
    [] f = "mixun" -> s[1] \in EXTREME => o \in XUNOPS
    [] f = "expt" -> LET k == EXPS[s[2]]                             \* keep the powers below ~70 limbs
                         b == EX[s[1]]
                     IN (Len(b.num) + Len(b.den)) * (IF k < 0 THEN -k ELSE k) <= 70
    [] f = "s2n"  -> ~(S2NVARIANTS[s[2]] = "plus" /\ EX[s[1]].neg)   \* same text as "canon"
    [] f = "s2ng" -> S2ngValid(s)
    [] OTHER      -> TRUE

Pick == /\ ~done
        /\ \E s \in Tuples(fam, ix) : /\ Admissible(fam, op, s)
                                       /\ Selected(fam, oi, s)
                                       /\ ix' = s
        /\ done' = TRUE
        /\ UNCHANGED <<fam, op, oi>>

Spec == Init /\ [][Pick]_vars

-----------------------------------------------------------------------------
(* 9. What TLC checks and prints *)

FtabRows == [i \in 1..NF |-> [lit |-> FLOS[i].lit, c |-> FLOS[i].f.c, neg |-> FLOS[i].f.neg,
                              m |-> NStr(FLOS[i].f.m), e |-> FLOS[i].f.e,
                              exact |-> IF FLOS[i].f.c = "fin" THEN FExactLit(FLOS[i].f) ELSE "",
                              printed |-> IF FShort(FLOS[i].f) THEN FStr(FLOS[i].f) ELSE ""]]

CaseOf(r) ==
  LET xs == Operands(fam, ix)
  IN [fam |-> fam, op |-> op, args |-> Args(fam, ix),
      cls |-> IF r.t = "err" THEN "err" ELSE "ok",
      rep |-> [i \in 1..Len(xs) |-> VRep(xs[i])] \o <<RRep(r)>>,
      tests |-> IF fam = "iter" THEN IterShapes(op, Args(fam, ix)[1], Args(fam, ix)[2], r)
                ELSE Shapes(op, Args(fam, ix), r, FullShapes(fam, op))]

Emit == done =>
          IF fam = "ftab" THEN PrintT(<<"REPLAY", ToJson([fam |-> fam, rows |-> FtabRows])>>)
          ELSE LET r == Eval(fam, op, ix) IN r.t # "skip" => PrintT(<<"REPLAY", ToJson(CaseOf(r))>>)

TypeOK == /\ fam \in FAMS /\ oi \in 1..Len(Ops(fam)) /\ op = Ops(fam)[oi]
          /\ done \in BOOLEAN
          /\ Len(ix) = (IF done THEN Len(Choices(fam)) ELSE 1)
          /\ \A i \in 1..Len(ix) : ix[i] \in 1..Choices(fam)[i]

\* ---- the algebra checks itself: identities that characterise each operation ----
Canon(q) == /\ q.den # Zero /\ Trim(q.num) = q.num /\ Trim(q.den) = q.den
            /\ (q.num = Zero => (~q.neg /\ q.den = One))
            /\ (q.num # Zero => NGcd(q.num, q.den) = One)
RCanon(r) == CASE r.t = "ex" -> Canon(r.q)
               [] r.t = "list" -> Canon(r.x) /\ Canon(r.y)
               [] r.t = "fl" -> (r.f.c = "fin" /\ r.f.m # Zero) => (NIsOdd(r.f.m) /\ NLt(r.f.m, P53))
               [] OTHER -> TRUE
QLt(x, y) == QCmp(x, y) < 0
QLe(x, y) == QCmp(x, y) <= 0
SameSignOrZero(r, x) == QIsZero(r) \/ r.neg = x.neg

LawBin(o, a, b) ==
  CASE o = "+" -> /\ QSub(QAdd(a, b), b) = a /\ QAdd(a, b) = QAdd(b, a)
                  /\ QCmp(QAdd(a, b), a) = QSign(b)
    [] o = "-" -> /\ QAdd(QSub(a, b), b) = a /\ QSign(QSub(a, b)) = QCmp(a, b)
                  /\ QSub(a, b) = QNeg(QSub(b, a))
    [] o = "*" -> /\ QMul(a, b) = QMul(b, a) /\ QSign(QMul(a, b)) = QSign(a) * QSign(b)
                  /\ (~QIsZero(b) => QDiv(QMul(a, b), b) = a)
                  /\ QMul(a, QAdd(b, QOne)) = QAdd(QMul(a, b), a)                 \* distributivity
    [] o = "/" -> ~QIsZero(b) => (QMul(QDiv(a, b), b) = a /\ QSign(QDiv(a, b)) = QSign(a) * QSign(b))
    [] o \in CMPS \cup {"max", "min"} ->
                  /\ QCmp(a, b) = -QCmp(b, a) /\ ((QCmp(a, b) = 0) <=> (a = b))
                  /\ QCmp(a, b) = QSign(QSub(a, b))
    [] OTHER -> TRUE

LawInt(a, b) ==
  /\ LET g == QGcd(a, b) IN
       /\ ~g.neg
       /\ (QIsZero(a) /\ QIsZero(b)) => QIsZero(g)
       /\ ~(QIsZero(a) /\ QIsZero(b)) =>
            /\ NMod(a.num, g.num) = Zero /\ NMod(b.num, g.num) = Zero
            /\ NGcd(NDiv(a.num, g.num), NDiv(b.num, g.num)) = One
       /\ QMul(g, QLcm(a, b)) = QAbs(QMul(a, b))
  /\ ~QIsZero(b) =>
       LET t == TruncQR(a, b)
           f == FloorQR(a, b)
           u == EuclidQR(a, b)
           ab == QAbs(b)
       IN /\ QAdd(QMul(t[1], b), t[2]) = a /\ QLt(QAbs(t[2]), ab) /\ SameSignOrZero(t[2], a)
          /\ QAdd(QMul(f[1], b), f[2]) = a /\ QLt(QAbs(f[2]), ab) /\ SameSignOrZero(f[2], b)
          /\ QAdd(QMul(u[1], b), u[2]) = a /\ QLt(u[2], ab) /\ ~u[2].neg
          /\ f[1] = QFloor(QDiv(a, b)) /\ t[1] = QTrunc(QDiv(a, b))
          /\ QIsInt(t[1]) /\ QIsInt(t[2]) /\ QIsInt(f[1]) /\ QIsInt(f[2])

LawUn(x) ==
  /\ LET f == QFloor(x) c == QCeil(x) t == QTrunc(x) r == QRound(x) d == QAbs(QSub(x, QRound(x))) IN
       /\ QIsInt(f) /\ QLe(f, x) /\ QLt(x, QAdd(f, QOne))
       /\ QIsInt(c) /\ QLe(x, c) /\ QLt(QSub(c, QOne), x)
       /\ QIsInt(t) /\ QLe(QAbs(t), QAbs(x)) /\ QLt(QAbs(x), QAdd(QAbs(t), QOne)) /\ SameSignOrZero(t, x)
       /\ QIsInt(r) /\ QLe(d, QHalf) /\ (d = QHalf => ~NIsOdd(r.num))
  /\ QDiv(QInt(x.neg, x.num), QInt(FALSE, x.den)) = x
  /\ QMul(QAbs(x), QAbs(x)) = QMul(x, x) /\ ~QAbs(x).neg
  /\ (QIsInt(x) /\ ~x.neg) =>
       LET s == QISqrt(x) IN /\ QAdd(QMul(s[1], s[1]), s[2]) = x /\ ~s[2].neg
                              /\ QLt(x, QMul(QAdd(s[1], QOne), QAdd(s[1], QOne)))
  /\ ~QIsZero(x) => QMul(x, QInv(x)) = QOne

LawExpt(x, k) == IF k >= 0 THEN QExpt(x, k + 1) = QMul(QExpt(x, k), x)
                 ELSE QIsZero(x) \/ QMul(QExpt(x, k), QExpt(x, -k)) = QOne
LawShift(n, k) == IF k >= 0 THEN QShift(QShift(n, k), -k) = n
                  ELSE LET r == QShift(n, k) p == QInt(FALSE, NPow(Two, -k)) IN
                       /\ QIsInt(r) /\ QLe(QMul(r, p), n) /\ QLt(n, QMul(QAdd(r, QOne), p))
Moderate(f) == f.c = "fin" /\ f.e > -200 /\ f.e < 200
LawFloArith(a, b) ==
  (Moderate(a) /\ Moderate(b) /\ a.m # Zero /\ b.m # Zero) =>
     LET chk(r, q) == r.c = "undet" \/ (IF QIsZero(q) THEN r.m = Zero ELSE FVal(r) = q /\ FOfQ(q) = r)
     IN /\ chk(FAdd(a, b), QAdd(FVal(a), FVal(b))) /\ chk(FSub(a, b), QSub(FVal(a), FVal(b)))
        /\ chk(FMul(a, b), QMul(FVal(a), FVal(b))) /\ chk(FDiv(a, b), QDiv(FVal(a), FVal(b)))
        /\ (FOfQ(QMul(FVal(a), FVal(b))).c = "undet" <=> FMul(a, b).c = "undet")
        /\ (FOfQ(QDiv(FVal(a), FVal(b))).c = "undet" <=> FDiv(a, b).c = "undet")
LawMix(v, w) == /\ (NumCmp(v, w) = 2 <=> NumCmp(w, v) = 2)
                /\ (ToFlo(v).c \in {"fin"} /\ ToFlo(w).c \in {"fin"}) => LawFloArith(ToFlo(v), ToFlo(w))
                /\ NumCmp(v, w) # 2 => NumCmp(w, v) = -NumCmp(v, w)
                /\ NumCmp(v, v) \in {0, 2}

Laws ==
  done =>
    LET xs == Operands(fam, ix) IN
    /\ (fam # "ftab" => RCanon(Eval(fam, op, ix)))
    /\ CASE fam \in {"core", "div"} -> LawBin(op, xs[1].q, xs[2].q)
         [] fam = "int"   -> (oi = 1 => LawInt(xs[1].q, xs[2].q))    \* independent of the operator:
         [] fam = "un"    -> (oi = 1 => LawUn(xs[1].q))               \* once per operand tuple
         [] fam = "expt"  -> LawExpt(xs[1].q, EXPS[ix[2]])
         [] fam = "shift" -> LawShift(xs[1].q, SHIFTS[ix[2]])
         [] fam = "mix"   -> (oi = 1 => LawMix(xs[1], xs[2]))
         [] fam = "ftab"  -> LawFtab
         [] OTHER -> TRUE

=============================================================================
