SPECIFICATION Spec
CONSTANTS
  FAM = "leaf"
  N = 0
  LEAFS = {"i1", "i1b", "i2", "i0", "f1", "f0", "fn0", "nan", "big", "big2", "rat", "rat2", "brat", "brat2", "cx", "cx2", "sa", "sa2", "sb", "se", "ya", "ya2", "yb", "ca", "ca2", "cb", "t", "f", "nil", "nil2", "bv", "bv2", "bw"}
  KINDS = {"none", "list1", "cons", "list2", "ivec1", "mvec2", "box", "hash1", "hins", "hset1", "sP"}
  MUTANTS = FALSE
INVARIANTS TypeOK OracleOK Emit
CHECK_DEADLOCK FALSE
