SPECIFICATION HSpec
CONSTANTS
  RICH = FALSE
  MINNODES = 0
  MAXSTACK = 99
  BUDGET = 0
  FUEL = 3000
  MAXINT = 100000
  CTXS = {}
  PLACES = {}
  VALS = {}
  NEST = FALSE
  PAIRS = FALSE
  INTF = {}
  PATLEN = 3
  INLEN = 3
  ELEMKINDS = {"v", "k", "c", "le"}
  INKINDS = {"1", "k", "7", "l2"}
INVARIANTS InDomain SynErrSilent GlobalsSuffixed IntfConsistent HEmit
CHECK_DEADLOCK FALSE
