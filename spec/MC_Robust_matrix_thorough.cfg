SPECIFICATION Spec
CONSTANTS
  MODE = "matrix"
  SEED = 1
  T1 = 4
  T2 = 2
  T3 = 1
  NS2 = 200
  NS3 = 100
  NSBIG = 40
  NCAP = 10
  HOF = 2
  MAXD = 1
  MAXDSLOW = 1
  LEN = 1
  MUTANT = FALSE
INVARIANTS TypeOK Emit Proto
CHECK_DEADLOCK FALSE
