SPECIFICATION Spec
CONSTANTS
  MODE = "matrix"
  SEED = 1
  T1 = 4
  T2 = 3
  T3 = 1
  NS2 = 200
  NS3 = 300
  NSBIG = 40
  NCAP = 30
  MAXD = 1
  LEN = 1
  MUTANT = FALSE
INVARIANTS TypeOK Emit Proto
CHECK_DEADLOCK FALSE
