SPECIFICATION Spec
INVARIANTS C15 C17
POSTCONDITION Accepted
CHECK_DEADLOCK FALSE
