----------------------------- MODULE BiasedRc -----------------------------
(***************************************************************************)
(* The biased reference-count word of crates/steel-rc (C05; feeds C03/C19).*)
(*                                                                         *)
(* One object, several threads.  EVERY memory access of the code is one    *)
(* action, named after the hook point that the instrumented crate passes   *)
(* (crates/steel-rc/src/lib.rs, cfg(steel_verif)); a CAS loop is           *)
(* Load ; Cas(ok | fail -> retry).  A behaviour is therefore a schedule    *)
(* that the harness (harness/src/bin/rcsched.rs) replays on the REAL crate *)
(* step for step: `hist` is the sequence of <<thread, point>> pairs.       *)
(*                                                                         *)
(*   RcWord = { thread_id: Cell<Option<ThreadId>>   -> owner               *)
(*              biased_counter: Cell<u32>           -> local               *)
(*              shared: AtomicU32 (cnt:30, queued, merged) -> cnt,queued,merged }*)
(*   QueueHandle { map (registered threads), unregistered }                *)
(*                                                                         *)
(* Ghost state: h[t] handles held by t; freed = number of destructions;    *)
(* uaf = some access touched the box after it was destroyed; excl =        *)
(* exclusive access granted while another handle existed.                  *)
(*                                                                         *)
(* Deviations of the code from a correct protocol are kept as NAMED steps  *)
(* switched by the constant Defects (see known_findings.json):             *)
(*   "late_settid"  fast_decrement / merge write thread_id AFTER the CAS   *)
(*                  that publishes `merged` (another thread may already    *)
(*                  have destroyed the box)                                *)
(*   "uniq_writes"  has_unique_ref on a merged object tests uniqueness     *)
(*                  with CAS(cnt 1 -> 0), i.e. it WRITES 0 (copied from    *)
(*                  try_unwrap) -- repaired by a fix: commit; kept so that *)
(*                  the model can show the original counterexample         *)
(*   "dangling_queue" an object filed in a merge queue (cnt went negative)   *)
(*                  can still be destroyed by the owner's last decrement,  *)
(*                  by try_unwrap or by a non-owner decrement once the     *)
(*                  counter is back at 0; the queue entry then dangles and *)
(*                  enqueue / explicit_merge touch (and destroy) it again. *)
(*                  Repaired design in the model: nobody destroys while    *)
(*                  `queued`; the merge clears `queued` and destroys.      *)
(*   "unreg_leak"   a non-owner decrement below zero after the owner       *)
(*                  thread deregistered parks the object in `unregistered` *)
(*                  where nobody merges it                                 *)
(***************************************************************************)
EXTENDS Naturals, Integers, Sequences, FiniteSets, TLC, Json

CONSTANTS Thread, Creator, MaxHandles, MaxOps, Defects, OpKinds,
          TrackCov     \* TRUE: remember which classes of count-word updates the schedule went through (coverage-directed generation)
None == "none"

VARIABLES owner, local, cnt, merged, queued,   \* the RcWord
          queue, unreg, registered, alive,      \* QueueHandle / thread liveness
          h,                                    \* ghost: handles held per thread
          freed, uaf, excl,                     \* ghost verdicts
          pc, old, new, key, ops,
          exitq, lockU, lockM, mph, lost,       \* merge bookkeeping (see QueueHandle below)
          retries,                              \* ghost: failed CAS attempts so far (capped), for coverage-directed generation
          cov,                                  \* ghost: classes <<step, merged, queued, sign of the counter>> of successful non-owner decrements / increments
          hist                                  \* schedule so far (hidden by VIEW)
vars == <<owner, local, cnt, merged, queued, queue, unreg, registered, alive, h, freed, uaf, excl,
          pc, old, new, key, ops, exitq, lockU, lockM, mph, lost, retries, cov, hist>>
view == <<owner, local, cnt, merged, queued, queue, unreg, registered, alive, h, freed, uaf, excl,
          pc, old, new, key, ops, exitq, lockU, lockM, mph, lost, retries, cov>>

RECURSIVE SumH(_)
SumH(s) == IF s = {} THEN 0 ELSE LET x == CHOOSE x \in s : TRUE IN h[x] + SumH(s \ {x})
Total == SumH(Thread)
Word == [c |-> cnt, m |-> merged, q |-> queued]

Init == /\ owner = Creator /\ local = 1 /\ cnt = 0 /\ merged = FALSE /\ queued = FALSE
        /\ queue = [t \in Thread |-> 0] /\ unreg = [t \in Thread |-> 0]
        /\ registered = {Creator} /\ alive = Thread
        /\ h = [t \in Thread |-> IF t = Creator THEN 1 ELSE 0]
        /\ freed = 0 /\ uaf = "" /\ excl = FALSE
        /\ pc = [t \in Thread |-> "idle"] /\ old = [t \in Thread |-> Word] /\ new = [t \in Thread |-> Word]
        /\ key = [t \in Thread |-> None] /\ ops = 0 /\ hist = << >>
        /\ exitq = [t \in Thread |-> 0] /\ lockU = None /\ lockM = None
        /\ mph = [t \in Thread |-> "none"] /\ lost = 0 /\ retries = 0 /\ cov = {}

\* every step that dereferences the box; uaf remembers the FIRST point that touched a destroyed box
Touch(p) == uaf' = (IF uaf = "" /\ freed > 0 THEN p ELSE uaf)
Goto(t, l) == pc' = [pc EXCEPT ![t] = l]
Dealloc == freed' = freed + 1
Log(t, p) == hist' = Append(hist, <<t, p>>)
QBlocks == "dangling_queue" \notin Defects    \* repaired design: a filed object is not destroyed
QUnch == UNCHANGED <<exitq, lockU, lockM, mph, lost>>

\* continue with the next queued entry of the current list, or leave the list
AfterValue(t) ==
  CASE mph[t] = "unreg" ->
         IF unreg[t] > 0 THEN /\ unreg' = [unreg EXCEPT ![t] = @ - 1] /\ Goto(t, "MERGE_LOAD")
                              /\ UNCHANGED <<queue, exitq, lockU, lockM, mph>>
         ELSE /\ lockU' = None /\ Goto(t, "MERGE_BEGIN_M") /\ mph' = [mph EXCEPT ![t] = "none"]
              /\ UNCHANGED <<queue, unreg, exitq, lockM>>
    [] mph[t] = "map" ->
         IF queue[t] > 0 THEN /\ queue' = [queue EXCEPT ![t] = @ - 1] /\ Goto(t, "MERGE_LOAD")
                              /\ UNCHANGED <<unreg, exitq, lockU, lockM, mph>>
         ELSE /\ lockM' = None /\ Goto(t, "MERGE_END") /\ mph' = [mph EXCEPT ![t] = "none"]
              /\ UNCHANGED <<queue, unreg, exitq, lockU>>
    [] mph[t] = "exit" ->
         IF exitq[t] > 0 THEN /\ exitq' = [exitq EXCEPT ![t] = @ - 1] /\ Goto(t, "MERGE_LOAD")
                              /\ UNCHANGED <<queue, unreg, lockU, lockM, mph>>
         ELSE /\ Goto(t, "dead") /\ mph' = [mph EXCEPT ![t] = "none"]
              /\ UNCHANGED <<queue, unreg, exitq, lockU, lockM>>
    [] OTHER -> /\ Goto(t, "idle") /\ UNCHANGED <<queue, unreg, exitq, lockU, lockM, mph>>

-----------------------------------------------------------------------------
(* Starting an operation (the harness's per-thread script).  Moving a handle to
   another thread (Send) changes no count.                                     *)
Start(t) ==
  /\ pc[t] = "idle" /\ t \in alive /\ ops < MaxOps /\ ops' = ops + 1
  /\ \/ /\ "clone" \in OpKinds /\ h[t] >= 1 /\ Total < MaxHandles /\ Goto(t, "INC_READ_TID")
        /\ Log(t, "op:clone") /\ UNCHANGED <<h, registered>>
     \/ /\ "drop" \in OpKinds /\ h[t] >= 1 /\ Goto(t, "DEC_READ_TID") /\ h' = [h EXCEPT ![t] = @ - 1]
        /\ Log(t, "op:drop") /\ UNCHANGED registered
     \/ /\ "get_mut" \in OpKinds /\ h[t] >= 1 /\ Goto(t, "UNIQ_READ_TID")
        /\ Log(t, "op:get_mut") /\ UNCHANGED <<h, registered>>
     \/ /\ "try_unwrap" \in OpKinds /\ h[t] >= 1 /\ Goto(t, "TU_READ_TID")
        /\ Log(t, "op:try_unwrap") /\ UNCHANGED <<h, registered>>
     \/ /\ "send" \in OpKinds /\ h[t] >= 1
        /\ \E u \in alive \ {t} : /\ h' = [h EXCEPT ![t] = @ - 1, ![u] = @ + 1]
                                  /\ Log(t, "op:send:" \o ToString(u))
        /\ UNCHANGED <<pc, registered>>
     \/ /\ "merge" \in OpKinds /\ t \in registered /\ Goto(t, "MERGE_BEGIN_U")
        /\ Log(t, "op:merge") /\ UNCHANGED <<h, registered>>
     \/ /\ "register" \in OpKinds /\ t \notin registered /\ lockM = None /\ registered' = registered \cup {t}
        /\ Log(t, "op:register") /\ UNCHANGED <<h, pc>>
  /\ UNCHANGED <<owner, local, cnt, merged, queued, queue, unreg, alive, freed, uaf, excl, old, new, key>>
  /\ QUnch
-----------------------------------------------------------------------------
(* increment *)
IncReadTid(t) ==
  /\ pc[t] = "INC_READ_TID" /\ Touch("INC_READ_TID") /\ Log(t, "INC_READ_TID")
  /\ Goto(t, IF owner = t THEN "FINC" ELSE "SINC_LOAD")
  /\ UNCHANGED <<owner, local, cnt, merged, queued, queue, unreg, registered, alive, h, freed, excl, old, new, key, ops>>
  /\ QUnch
FInc(t) ==
  /\ pc[t] = "FINC" /\ Touch("FINC") /\ Log(t, "FINC")
  /\ local' = local + 1 /\ h' = [h EXCEPT ![t] = @ + 1] /\ Goto(t, "idle")
  /\ UNCHANGED <<owner, cnt, merged, queued, queue, unreg, registered, alive, freed, excl, old, new, key, ops>>
  /\ QUnch
SIncLoad(t) ==
  /\ pc[t] = "SINC_LOAD" /\ Touch("SINC_LOAD") /\ Log(t, "SINC_LOAD")
  /\ old' = [old EXCEPT ![t] = Word] /\ Goto(t, "SINC_CAS")
  /\ UNCHANGED <<owner, local, cnt, merged, queued, queue, unreg, registered, alive, h, freed, excl, new, key, ops>>
  /\ QUnch
SIncCas(t) ==
  /\ pc[t] = "SINC_CAS" /\ Touch("SINC_CAS") /\ Log(t, "SINC_CAS")
  /\ IF old[t] = Word
       THEN /\ cnt' = cnt + 1 /\ h' = [h EXCEPT ![t] = @ + 1] /\ Goto(t, "idle") /\ UNCHANGED old
       ELSE /\ old' = [old EXCEPT ![t] = Word] /\ UNCHANGED <<cnt, h, pc>>
  /\ UNCHANGED <<owner, local, merged, queued, queue, unreg, registered, alive, freed, excl, new, key, ops>>
  /\ QUnch
-----------------------------------------------------------------------------
(* decrement *)
DecReadTid(t) ==
  /\ pc[t] = "DEC_READ_TID" /\ Touch("DEC_READ_TID") /\ Log(t, "DEC_READ_TID")
  /\ Goto(t, IF owner = t THEN "FDEC_LOCAL" ELSE "SDEC_LOAD")
  /\ UNCHANGED <<owner, local, cnt, merged, queued, queue, unreg, registered, alive, h, freed, excl, old, new, key, ops>>
  /\ QUnch
FDecLocal(t) ==
  /\ pc[t] = "FDEC_LOCAL" /\ Touch("FDEC_LOCAL") /\ Log(t, "FDEC_LOCAL")
  /\ local' = local - 1
  /\ Goto(t, IF local - 1 > 0 THEN "idle" ELSE "FDEC_LOAD")
  /\ UNCHANGED <<owner, cnt, merged, queued, queue, unreg, registered, alive, h, freed, excl, old, new, key, ops>>
  /\ QUnch
FDecLoad(t) ==
  /\ pc[t] = "FDEC_LOAD" /\ Touch("FDEC_LOAD") /\ Log(t, "FDEC_LOAD")
  /\ old' = [old EXCEPT ![t] = Word] /\ Goto(t, "FDEC_CAS")
  /\ UNCHANGED <<owner, local, cnt, merged, queued, queue, unreg, registered, alive, h, freed, excl, new, key, ops>>
  /\ QUnch
\* the CAS publishes `merged`; from here on another thread's slow_decrement may deallocate
FDecCas(t) ==
  /\ pc[t] = "FDEC_CAS" /\ Touch("FDEC_CAS") /\ Log(t, "FDEC_CAS")
  /\ IF old[t] = Word
       THEN /\ merged' = TRUE /\ new' = [new EXCEPT ![t] = [Word EXCEPT !.m = TRUE]]
            /\ IF cnt = 0 /\ ~(QBlocks /\ queued) THEN /\ Goto(t, "DEALLOC") /\ UNCHANGED owner
               ELSE IF "late_settid" \in Defects THEN /\ Goto(t, "FDEC_SET_TID") /\ UNCHANGED owner
               ELSE /\ owner' = None /\ Goto(t, "idle")      \* repaired design: no access after publishing
            /\ UNCHANGED old
       ELSE /\ old' = [old EXCEPT ![t] = Word] /\ UNCHANGED <<merged, new, pc, owner>>
  /\ UNCHANGED <<local, cnt, queued, queue, unreg, registered, alive, h, freed, excl, key, ops>>
  /\ QUnch
FDecSetTid(t) ==        \* Defect "late_settid": self.rcword.thread_id.set(None) after the CAS
  /\ pc[t] = "FDEC_SET_TID" /\ Touch("FDEC_SET_TID") /\ Log(t, "FDEC_SET_TID")
  /\ owner' = None /\ Goto(t, "idle")
  /\ UNCHANGED <<local, cnt, merged, queued, queue, unreg, registered, alive, h, freed, excl, old, new, key, ops>>
  /\ QUnch
SDecLoad(t) ==
  /\ pc[t] = "SDEC_LOAD" /\ Touch("SDEC_LOAD") /\ Log(t, "SDEC_LOAD")
  /\ old' = [old EXCEPT ![t] = Word] /\ Goto(t, "SDEC_CAS")
  /\ UNCHANGED <<owner, local, cnt, merged, queued, queue, unreg, registered, alive, h, freed, excl, new, key, ops>>
  /\ QUnch
SDecCas(t) ==
  /\ pc[t] = "SDEC_CAS" /\ Touch("SDEC_CAS") /\ Log(t, "SDEC_CAS")
  /\ IF old[t] = Word
       THEN LET c2 == cnt - 1
                q2 == IF c2 < 0 THEN TRUE ELSE queued IN
            /\ cnt' = c2 /\ queued' = q2
            /\ new' = [new EXCEPT ![t] = [c |-> c2, m |-> merged, q |-> q2]]
            /\ Goto(t, IF queued # q2 THEN "ENQ_READ_TID"
                       ELSE IF merged /\ c2 = 0 /\ ~(QBlocks /\ q2) THEN "DEALLOC" ELSE "idle")
            /\ UNCHANGED old
       ELSE /\ old' = [old EXCEPT ![t] = Word] /\ UNCHANGED <<cnt, queued, new, pc>>
  /\ UNCHANGED <<owner, local, merged, queue, unreg, registered, alive, h, freed, excl, key, ops>>
  /\ QUnch
\* QueueHandle::enqueue, first half: re-reads thread_id (the key under which it will file)
Enq(t) ==
  /\ pc[t] = "ENQ_READ_TID" /\ Touch("ENQ_READ_TID") /\ Log(t, "ENQ_READ_TID")
  /\ key' = [key EXCEPT ![t] = owner] /\ Goto(t, "ENQ_PUSH")
  /\ UNCHANGED <<owner, local, cnt, merged, queued, queue, unreg, registered, alive, h, freed, excl, old, new, ops>>
  /\ QUnch
\* drop_contents_and_maybe_box: destructor + free
DoDealloc(t) ==
  /\ pc[t] = "DEALLOC" /\ Log(t, "DEALLOC")
  /\ Dealloc /\ AfterValue(t)
  /\ UNCHANGED <<owner, local, cnt, merged, queued, registered, alive, h, uaf, excl, old, new, key, ops, lost>>
-----------------------------------------------------------------------------
(* has_unique_ref (get_mut / make_mut) *)
UniqReadTid(t) ==
  /\ pc[t] = "UNIQ_READ_TID" /\ Touch("UNIQ_READ_TID") /\ Log(t, "UNIQ_READ_TID")
  /\ IF owner = None THEN Goto(t, "UNIQ_LOAD")
     ELSE IF owner = t THEN (IF local = 1 THEN Goto(t, "UNIQ_LOAD_OWN") ELSE Goto(t, "idle"))
     ELSE Goto(t, "idle")
  /\ UNCHANGED <<owner, local, cnt, merged, queued, queue, unreg, registered, alive, h, freed, excl, old, new, key, ops>>
  /\ QUnch
UniqLoadOwn(t) ==     \* owner, local = 1: unique iff the shared counter is 0
  /\ pc[t] = "UNIQ_LOAD_OWN" /\ Touch("UNIQ_LOAD") /\ Log(t, "UNIQ_LOAD")
  /\ excl' = (excl \/ (cnt = 0 /\ Total # 1)) /\ Goto(t, "idle")
  /\ UNCHANGED <<owner, local, cnt, merged, queued, queue, unreg, registered, alive, h, freed, old, new, key, ops>>
  /\ QUnch
UniqLoad(t) ==
  /\ pc[t] = "UNIQ_LOAD" /\ Touch("UNIQ_LOAD") /\ Log(t, "UNIQ_LOAD")
  /\ old' = [old EXCEPT ![t] = Word] /\ Goto(t, "UNIQ_CAS")
  /\ UNCHANGED <<owner, local, cnt, merged, queued, queue, unreg, registered, alive, h, freed, excl, new, key, ops>>
  /\ QUnch
UniqCas(t) ==         \* expected = loaded word with counter forced to 1
  /\ pc[t] = "UNIQ_CAS" /\ Touch("UNIQ_CAS") /\ Log(t, "UNIQ_CAS")
  /\ IF [old[t] EXCEPT !.c = 1] = Word
       THEN /\ cnt' = (IF "uniq_writes" \in Defects THEN 0 ELSE cnt)
            /\ excl' = (excl \/ Total # 1)
       ELSE UNCHANGED <<cnt, excl>>
  /\ Goto(t, "idle")
  /\ UNCHANGED <<owner, local, merged, queued, queue, unreg, registered, alive, h, freed, old, new, key, ops>>
  /\ QUnch
-----------------------------------------------------------------------------
(* try_unwrap: on success the payload is moved out and the box freed (counts as the destruction) *)
TuReadTid(t) ==
  /\ pc[t] = "TU_READ_TID" /\ Touch("TU_READ_TID") /\ Log(t, "TU_READ_TID")
  /\ IF owner = None THEN Goto(t, "TU_LOAD")
     ELSE IF owner = t THEN (IF local = 1 THEN Goto(t, "TU_LOAD_OWN") ELSE Goto(t, "idle"))
     ELSE Goto(t, "idle")
  /\ UNCHANGED <<owner, local, cnt, merged, queued, queue, unreg, registered, alive, h, freed, excl, old, new, key, ops>>
  /\ QUnch
TuLoadOwn(t) ==
  /\ pc[t] = "TU_LOAD_OWN" /\ Touch("TU_LOAD") /\ Log(t, "TU_LOAD")
  /\ IF cnt = 0 /\ ~(QBlocks /\ queued)
       THEN /\ excl' = (excl \/ Total # 1) /\ h' = [h EXCEPT ![t] = @ - 1] /\ Goto(t, "TU_DEALLOC")
       ELSE /\ Goto(t, "idle") /\ UNCHANGED <<excl, h>>
  /\ UNCHANGED <<owner, local, cnt, merged, queued, queue, unreg, registered, alive, freed, old, new, key, ops>>
  /\ QUnch
TuLoad(t) ==
  /\ pc[t] = "TU_LOAD" /\ Touch("TU_LOAD") /\ Log(t, "TU_LOAD")
  /\ old' = [old EXCEPT ![t] = Word] /\ Goto(t, "TU_CAS")
  /\ UNCHANGED <<owner, local, cnt, merged, queued, queue, unreg, registered, alive, h, freed, excl, new, key, ops>>
  /\ QUnch
TuCas(t) ==
  /\ pc[t] = "TU_CAS" /\ Touch("TU_CAS") /\ Log(t, "TU_CAS")
  /\ IF [old[t] EXCEPT !.c = 1] = Word /\ ~(QBlocks /\ queued)
       THEN /\ cnt' = 0 /\ excl' = (excl \/ Total # 1) /\ h' = [h EXCEPT ![t] = @ - 1] /\ Goto(t, "TU_DEALLOC")
       ELSE /\ Goto(t, "idle") /\ UNCHANGED <<cnt, excl, h>>
  /\ UNCHANGED <<owner, local, merged, queued, queue, unreg, registered, alive, freed, old, new, key, ops>>
  /\ QUnch
TuDealloc(t) ==
  /\ pc[t] = "TU_DEALLOC" /\ Log(t, "TU_DEALLOC")
  /\ Dealloc /\ Goto(t, "idle")
  /\ UNCHANGED <<owner, local, cnt, merged, queued, queue, unreg, registered, alive, h, uaf, excl, old, new, key, ops>>
  /\ QUnch
-----------------------------------------------------------------------------------------------------------------------------------------------------
(* QueueHandle.  `map` and `unregistered` are DashMaps: get_mut/insert/remove take the shard
   lock, and run_explicit_merge holds the guard for the WHOLE merge loop
   (`.get_mut(..).map(|mut x| Self::explicit_merge(&mut x))`).  The model uses one lock per map
   (an under-approximation of sharding that the harness scheduler enforces too, so that no
   thread ever blocks in the kernel).  mph[t]: which list thread t is merging. *)


\* QueueHandle::enqueue after the key was read: files the object under map[key] if that thread
\* is registered, else under unregistered[key] (needs both shard locks free: await point)
EnqPush(t) ==
  /\ pc[t] = "ENQ_PUSH" /\ lockM = None /\ lockU = None /\ Log(t, "ENQ_PUSH")
  /\ IF key[t] # None /\ key[t] \in registered
       THEN queue' = [queue EXCEPT ![key[t]] = @ + 1] /\ UNCHANGED <<unreg, lost>>
       ELSE IF key[t] # None THEN unreg' = [unreg EXCEPT ![key[t]] = @ + 1] /\ UNCHANGED <<queue, lost>>
       ELSE lost' = lost + 1 /\ UNCHANGED <<queue, unreg>>      \* key None: parked under None forever
  /\ Goto(t, "idle")
  /\ UNCHANGED <<owner, local, cnt, merged, queued, registered, alive, h, freed, uaf, excl, old, new, key, ops,
                 exitq, lockU, lockM, mph>>

\* run_explicit_merge, first half: unregistered[current]
MergeBeginU(t) ==
  /\ pc[t] = "MERGE_BEGIN_U" /\ lockU = None /\ Log(t, "MERGE_BEGIN_U")
  /\ IF unreg[t] > 0
       THEN /\ lockU' = t /\ mph' = [mph EXCEPT ![t] = "unreg"] /\ unreg' = [unreg EXCEPT ![t] = @ - 1]
            /\ Goto(t, "MERGE_LOAD")
       ELSE /\ Goto(t, "MERGE_BEGIN_M") /\ UNCHANGED <<lockU, mph, unreg>>
  /\ UNCHANGED <<owner, local, cnt, merged, queued, queue, registered, alive, h, freed, uaf, excl, old, new, key, ops,
                 exitq, lockM, lost>>
\* second half: map[current]
MergeBeginM(t) ==
  /\ pc[t] = "MERGE_BEGIN_M" /\ lockM = None /\ Log(t, "MERGE_BEGIN_M")
  /\ IF t \in registered /\ queue[t] > 0
       THEN /\ lockM' = t /\ mph' = [mph EXCEPT ![t] = "map"] /\ queue' = [queue EXCEPT ![t] = @ - 1]
            /\ Goto(t, "MERGE_LOAD")
       ELSE /\ Goto(t, "MERGE_END") /\ UNCHANGED <<lockM, mph, queue>>
  /\ UNCHANGED <<owner, local, cnt, merged, queued, unreg, registered, alive, h, freed, uaf, excl, old, new, key, ops,
                 exitq, lockU, lost>>
MergeEnd(t) ==
  /\ pc[t] = "MERGE_END" /\ Log(t, "MERGE_END") /\ Goto(t, "idle")
  /\ UNCHANGED <<owner, local, cnt, merged, queued, queue, unreg, registered, alive, h, freed, uaf, excl, old, new,
                 key, ops, exitq, lockU, lockM, mph, lost>>
MergeLoad(t) ==
  /\ pc[t] = "MERGE_LOAD" /\ Touch("MERGE_LOAD") /\ Log(t, "MERGE_LOAD")
  /\ old' = [old EXCEPT ![t] = Word] /\ Goto(t, "MERGE_CAS")
  /\ UNCHANGED <<owner, local, cnt, merged, queued, queue, unreg, registered, alive, h, freed, excl, new, key, ops,
                 exitq, lockU, lockM, mph, lost>>
MergeCas(t) ==        \* cnt += local, merged := TRUE
  /\ pc[t] = "MERGE_CAS" /\ Touch("MERGE_CAS") /\ Log(t, "MERGE_CAS")
  /\ IF old[t] = Word
       THEN /\ cnt' = cnt + local /\ merged' = TRUE
            /\ queued' = (IF QBlocks THEN FALSE ELSE queued)
            /\ new' = [new EXCEPT ![t] = [c |-> cnt + local, m |-> TRUE, q |-> queued]]
            /\ IF cnt + local = 0 THEN /\ Goto(t, "DEALLOC") /\ UNCHANGED <<owner, queue, unreg, exitq, lockU, lockM, mph>>
               ELSE IF "late_settid" \in Defects
                 THEN /\ Goto(t, "MERGE_SET_TID") /\ UNCHANGED <<owner, queue, unreg, exitq, lockU, lockM, mph>>
               ELSE /\ owner' = None /\ AfterValue(t)
            /\ UNCHANGED old
       ELSE /\ old' = [old EXCEPT ![t] = Word]
            /\ UNCHANGED <<cnt, merged, queued, new, pc, owner, queue, unreg, exitq, lockU, lockM, mph>>
  /\ UNCHANGED <<local, registered, alive, h, freed, excl, key, ops, lost>>
MergeSetTid(t) ==     \* Defect "late_settid"
  /\ pc[t] = "MERGE_SET_TID" /\ Touch("MERGE_SET_TID") /\ Log(t, "MERGE_SET_TID")
  /\ owner' = None /\ AfterValue(t)
  /\ UNCHANGED <<local, cnt, merged, queued, registered, alive, h, freed, excl, old, new, key, ops, lost>>

\* thread exit = finish_thread_merge: remove map[t] (deregisters), then merge what it held,
\* without any lock.  Only threads holding no handle exit.
Exit(t) ==
  /\ "exit" \in OpKinds
  /\ pc[t] = "idle" /\ t \in alive /\ h[t] = 0 /\ Cardinality(alive) > 1 /\ ops < MaxOps /\ ops' = ops + 1
  /\ lockM = None
  /\ alive' = alive \ {t} /\ registered' = registered \ {t}
  /\ Log(t, "op:exit")
  /\ IF t \in registered /\ queue[t] > 0
       THEN /\ exitq' = [exitq EXCEPT ![t] = queue[t] - 1] /\ queue' = [queue EXCEPT ![t] = 0]
            /\ mph' = [mph EXCEPT ![t] = "exit"] /\ Goto(t, "MERGE_LOAD")
       ELSE /\ Goto(t, "dead") /\ UNCHANGED <<exitq, queue, mph>>
  /\ UNCHANGED <<owner, local, cnt, merged, queued, unreg, h, freed, uaf, excl, old, new, key, lockU, lockM, lost>>

Step(t) == \/ Start(t) \/ IncReadTid(t) \/ FInc(t) \/ SIncLoad(t) \/ SIncCas(t)
           \/ DecReadTid(t) \/ FDecLocal(t) \/ FDecLoad(t) \/ FDecCas(t) \/ FDecSetTid(t)
           \/ SDecLoad(t) \/ SDecCas(t) \/ Enq(t) \/ EnqPush(t) \/ DoDealloc(t)
           \/ UniqReadTid(t) \/ UniqLoadOwn(t) \/ UniqLoad(t) \/ UniqCas(t)
           \/ TuReadTid(t) \/ TuLoadOwn(t) \/ TuLoad(t) \/ TuCas(t) \/ TuDealloc(t)
           \/ MergeBeginU(t) \/ MergeBeginM(t) \/ MergeEnd(t) \/ MergeLoad(t) \/ MergeCas(t) \/ MergeSetTid(t)
           \/ Exit(t)
\* a CAS of thread t is about to fail (its expected word is stale): coverage ghost only
CasFail(t) == pc[t] \in {"SINC_CAS", "FDEC_CAS", "SDEC_CAS", "MERGE_CAS"} /\ old[t] # Word
\* the class of a successful update of the shared count word by a slow (non-owner / post-merge) decrement or increment
Sgn(n) == IF n < 0 THEN "neg" ELSE IF n = 0 THEN "zero" ELSE "pos"
CovClass(t) == IF TrackCov /\ pc[t] \in {"SDEC_CAS", "SINC_CAS"} /\ old[t] = Word
               THEN {<<pc[t], merged, queued, Sgn(cnt)>>} ELSE {}
Next == \E t \in Thread : /\ Step(t)
                          /\ retries' = (IF CasFail(t) /\ retries < 2 THEN retries + 1 ELSE retries)
                          /\ cov' = cov \cup CovClass(t)
Spec == Init /\ [][Next]_vars

-----------------------------------------------------------------------------
(* C05 *)
SetTidPoints == {"FDEC_SET_TID", "MERGE_SET_TID"}
\* the two known use-after-free shapes, separated so that TLC can exhibit each of them
NoUafLateSetTid == uaf \notin SetTidPoints
NoUafOther == uaf \in SetTidPoints \cup {""}
AtMostOnce == freed <= 1                                  \* destroyed at most once
NotWhileHeld == freed >= 1 => Total = 0                   \* only after the last reference is gone
NoUseAfterFree == uaf = ""                                    \* while any reference exists every access sees intact contents
Exclusive == ~excl                                        \* exclusive access only to the only holder
\* "exactly once": when nothing is running, no handle exists and every alive registered thread
\* has merged, the object has been destroyed (exposes the unregistered-queue leak)
Quiet == \A t \in Thread : pc[t] \in {"idle", "dead"}
NoLeak == (Quiet /\ Total = 0 /\ \A t \in Thread : queue[t] = 0 /\ (t \in alive => unreg[t] = 0)) => freed = 1
\* the counting invariant the protocol rests on (checked when no operation is in flight)
Counting == (Quiet /\ freed = 0) =>
              (IF merged THEN cnt = Total ELSE local + cnt = Total)

\* Terminal states print their schedule for the replayer.
Done == Quiet /\ (ops = MaxOps \/ Total = 0)
\* coverage-directed generation: with the schedule hidden by VIEW, BFS reaches every distinct terminal
\* state once; those reached through at least one failed CAS are printed (one witness schedule each)
EmitRetry == (Done /\ retries > 0) => PrintT(<<"REPLAY", ToJson([hist |-> hist, freed |-> freed, total |-> Total,
                                          uaf |-> uaf, excl |-> excl,
                                          proj |-> [owner_some |-> owner # None, local |-> local, cnt |-> cnt,
                                                    merged |-> merged, queued |-> queued]])>>)
Emit == Done => PrintT(<<"REPLAY", ToJson([hist |-> hist, freed |-> freed, total |-> Total,
                                          uaf |-> uaf, excl |-> excl,
                                          proj |-> [owner_some |-> owner # None, local |-> local, cnt |-> cnt,
                                                    merged |-> merged, queued |-> queued]])>>)
=============================================================================
