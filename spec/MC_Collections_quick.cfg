SPECIFICATION Spec
CONSTANTS
  TYPES = {"list", "ivec", "hash", "hset", "str", "bytes", "mvec", "ctor"}
  MODES = {"ex", "sp"}
  KEX = 2
  KSP = 5
  SEED = 1
  BRANCH = 4
  MAXLEN = 6
INVARIANTS TypeOK FunctionOK Emit
CHECK_DEADLOCK FALSE
