SPECIFICATION Spec
CONSTANTS
  MODE = "data"
  NODES = 1
  LEAFSET = "full"
  MAXLEN = 0
  STRICT = TRUE
INVARIANTS TypeOK Emit
CHECK_DEADLOCK FALSE
