SPECIFICATION Spec
CONSTANTS
  ValNames = {"v"}
  FnNames = {"f", "g"}
  MaxSteps = 7
  Defects = {"no_transitive"}
INVARIANTS CexC06
CHECK_DEADLOCK FALSE
