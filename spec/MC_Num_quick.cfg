SPECIFICATION Spec
CONSTANTS
  SEED = 1
  M_CORE = 3
  M_DIV = 6
  M_INT = 12
  M_UN = 1
  M_NARY = 24
  M_EXPT = 4
  M_STR = 6
  M_MIX = 6
  FAMILY = "all"
INVARIANTS TypeOK Laws Emit
CHECK_DEADLOCK FALSE
