SPECIFICATION Spec
CONSTANTS
  MODE = "strings"
  NODES = 1
  LEAFSET = "core"
  MAXLEN = 4
  STRICT = FALSE
INVARIANTS TypeOK Emit
CHECK_DEADLOCK FALSE
