SPECIFICATION Spec
CONSTANTS
  FAMSEL = {"list", "vec", "hset", "struct", "box", "sim"}
  NBUMP = 1
  SEED = 1
  BRANCH = 4
INVARIANTS TypeOK OracleOK Emit
CHECK_DEADLOCK FALSE
