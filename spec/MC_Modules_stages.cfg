SPECIFICATION Spec
CONSTANTS
  MaxMods = 2
  NmMin = 2
  VisSet = {"plain"}
  ModModsM = {"plain"}
  ModModsP = {"plain"}
  MaxSpecsM = 1
  MaxSpecsP = 1
  OwnSets = {{}}
  UseSet = {FALSE}
  FailSet = {"none", "parse", "nomatch", "redef", "setlit"}
  ErrKinds = {"none"}
  MaxUnits = 3
  ProbeNames = {"va", "helper", "p.va"}
  Avoid = {}
INVARIANTS Emit Sound
CHECK_DEADLOCK FALSE
