SPECIFICATION Spec
CONSTANTS
  MaxStack = 3
  MaxFrames = 2
  MaxDepth = 1
  NCodes = 1
  MaxIp = 1
  MaxArgs = 1
  NMarks = 1
  MaxFresh = 7
  Ghost = TRUE
  Defects = {}
INVARIANTS TypeOK FramesOk CallerIntact OuterFramesKept
PROPERTIES NestedErrorKeepsCallerFrames TailNoGrowth ContRestores UnwindToHandler
CONSTRAINT StateBound
CHECK_DEADLOCK FALSE
