SPECIFICATION HSpec
CONSTANTS
  RICH = FALSE
  MINNODES = 0
  MAXSTACK = 99
  BUDGET = 0
  FUEL = 3000
  MAXINT = 100000
  CTXS = {"none", "let", "lambda", "idef", "let*", "letrec", "nlet", "ifn", "fnparam"}
  PLACES = {"later", "same", "fnbody"}
  VALS = {"num", "fn"}
  NEST = FALSE
  PAIRS = FALSE
  INTF = {}
  PATLEN = 0
  INLEN = 0
  ELEMKINDS = {}
  INKINDS = {}
INVARIANTS InDomain SynErrSilent GlobalsSuffixed IntfConsistent HEmit
CHECK_DEADLOCK FALSE
