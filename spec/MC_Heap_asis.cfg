SPECIFICATION Spec
CONSTANTS
  N = 3
  Holders = {"global", "stack", "handler"}
  Scanned = {"global", "stack"}
  MaxOps = 7
INVARIANTS C04
CHECK_DEADLOCK FALSE
