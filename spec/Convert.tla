------------------------------ MODULE Convert ------------------------------
(***************************************************************************)
(* Conversions at the host boundary (C20, second half), table driven.      *)
(*                                                                         *)
(*   primitives.rs   FromSteelVal / IntoSteelVal for the scalar types      *)
(*                   (try_from_impl!, from_for_isize!, from_f64!)          *)
(*   conversions.rs  Vec, HashMap, HashSet, (A, B), Cow<str>               *)
(*   values/structs.rs  Result<T, E>                                       *)
(*   rvals.rs        Custom types (by value: Clone; `&T` / `&mut T`)       *)
(*   steel_vm/register_fn.rs  generated wrappers: arity check, one         *)
(*                   from_steelval per parameter, into_steelval on return  *)
(*   steel_vm/engine.rs  extract, register_external_value,                 *)
(*                   call_function_by_name_with_args                       *)
(*                                                                         *)
(* The model is an algebra, not a machine: there is no history.            *)
(*                                                                         *)
(*   script values  v ::= int z | flo f | str s | chr c | bool b | void    *)
(*                      | sym | rat | list <v..> | vec <v..> | mvec <v..>   *)
(*                      | hash <<k,v>..>                                   *)
(*                      | set <v..> | okS v | errS v | p(x, s) | q         *)
(*   host types     T ::= iN | uN | isize | usize | f32 | f64 | bool | char*)
(*                      | String | () | Option<T> | Vec<T> | HashMap<K, V> *)
(*                      | HashSet<T> | (A, B) | Result<T, E> | P           *)
(*   Conv(T, v)     the host value of type T denoted by v, or FAIL: the    *)
(*                  RANGE PREDICATE of the type (integers: Min(T) <= z <=  *)
(*                  Max(T) in exact arithmetic) and the kind check         *)
(*   Into(T, h)     the script value a host value h : T must become        *)
(*   Back(T, h)     Conv(T, Into(T, h)): what the host gets back           *)
(*                                                                         *)
(* Integers are NOT TLC integers (TLC has 32 bits, the subject is what     *)
(* happens at 2^7 .. 2^128): naturals are little-endian decimal digit      *)
(* sequences with doubling, increment, decrement and comparison; the       *)
(* bounds of every integer type are COMPUTED as 2^(w-1), 2^w - 1.          *)
(*                                                                         *)
(* Expected observables (one behaviour per (type, value, direction)):      *)
(*   arg      (id-T v) through a registered recording function `T -> T`:   *)
(*            Conv(T, v) defined => the function received exactly that     *)
(*            host value and the script gets Into(T, Conv(T, v)) back;     *)
(*            FAIL => an error and the function body did NOT run           *)
(*   extract  Engine::extract::<T> of a global bound to v: the same        *)
(*   h2s      host value h -> IntoSteelVal -> argument of a script         *)
(*            function -> its result -> FromSteelVal: the script sees      *)
(*            Into(T, h), the host gets Back(T, h) (= h up to D2)          *)
(*   ext      Engine::register_external_value, then the script reads it    *)
(*   call     a registered function of arity 0..4 (and one of 16) applied  *)
(*            to too few / too many / wrong-kind / out-of-range / correct  *)
(*            arguments: the body runs IFF the arity matches and EVERY     *)
(*            argument converts; then with exactly the converted values    *)
(*                                                                         *)
(* Named deviations of Steel adopted on purpose (all documented in         *)
(* docs/src/engine/register_function.md or fixed by maintainer tests):     *)
(*  D1 Vec<T> -> list; a list OR an immutable vector converts to Vec<T>    *)
(*     (conversions.rs tests vec_into_list, vec_from_list, vec_from_vector);*)
(*     a MUTABLE vector, what (vector ..) makes, is a different kind       *)
(*  D2 Option<T>: None <-> #false, Some(x) <-> x ("Option<T> -> if Some(T) *)
(*     then T else #false").  The encoding is not injective: Some(false)   *)
(*     and Some(None) come back as None; Back() models exactly that.       *)
(*  D3 Result<T, E> as a RETURN value: Ok(x) -> x, Err(e) -> a raised      *)
(*     error ("if Ok(T) then T else (error E)"); as an ARGUMENT it is the  *)
(*     (Ok x) / (Err e) struct.  So id-res is not an identity.             *)
(*  D4 String also accepts a symbol (explicit `StringV(s) | SymbolV(s)`    *)
(*     arms in FromSteelVal and both TryFrom impls) and gives a string back*)
(*  D5 f32 / f64 take flonums only: an exact integer is the wrong KIND     *)
(*     (refusing is lossless; accepting would round above 2^53)            *)
(*  D6 integer types take exact integers only: 1.0 is the wrong kind       *)
(*  D7 a tuple (A, B) is a two-element list                                *)
(*  D8 a slice parameter `&[T]` takes a list only                          *)
(* Not a deviation, a demand of the property: f64 -> f32 must fail when    *)
(* the value is not exactly an f32 (overflow to inf, underflow to 0,       *)
(* rounding are all losses).                                               *)
(***************************************************************************)
EXTENDS Integers, Sequences, FiniteSets, TLC, Json

CONSTANTS Level     \* "quick" | "thorough": how many middle values per type

VARIABLES c
vars == <<c>>

-----------------------------------------------------------------------------
(* 1. Exact integers *)
RECURSIVE DblC(_, _), Pow2(_), Inc(_), DecR(_), Trim(_), CmpAt(_, _, _), NatStrFrom(_, _)
DblC(d, carry) == IF d = << >> THEN (IF carry = 0 THEN << >> ELSE <<carry>>)
                  ELSE LET x == 2 * Head(d) + carry IN <<x % 10>> \o DblC(Tail(d), x \div 10)
Pow2(k) == IF k = 0 THEN <<1>> ELSE DblC(Pow2(k - 1), 0)
Inc(d) == IF d = << >> THEN <<1>>
          ELSE IF Head(d) < 9 THEN <<Head(d) + 1>> \o Tail(d) ELSE <<0>> \o Inc(Tail(d))
DecR(d) == IF Head(d) > 0 THEN <<Head(d) - 1>> \o Tail(d) ELSE <<9>> \o DecR(Tail(d))    \* d > 0
Trim(d) == IF d # << >> /\ d[Len(d)] = 0 THEN Trim(SubSeq(d, 1, Len(d) - 1)) ELSE d
Dec(d) == Trim(DecR(d))
CmpAt(a, b, i) == IF i = 0 THEN 0 ELSE IF a[i] < b[i] THEN -1 ELSE IF a[i] > b[i] THEN 1 ELSE CmpAt(a, b, i - 1)
NatCmp(a, b) == IF Len(a) < Len(b) THEN -1 ELSE IF Len(a) > Len(b) THEN 1 ELSE CmpAt(a, b, Len(a))
NatStrFrom(d, i) == IF i = 0 THEN "" ELSE ToString(d[i]) \o NatStrFrom(d, i - 1)
NatStr(d) == IF d = << >> THEN "0" ELSE NatStrFrom(d, Len(d))

Z(neg, mag) == [neg |-> neg /\ mag # << >>, mag |-> mag]
ZNeg(z) == Z(~z.neg, z.mag)
ZInc(z) == IF ~z.neg THEN Z(FALSE, Inc(z.mag)) ELSE Z(TRUE, Dec(z.mag))
ZDec(z) == IF z.neg THEN Z(TRUE, Inc(z.mag)) ELSE IF z.mag = << >> THEN Z(TRUE, <<1>>) ELSE Z(FALSE, Dec(z.mag))
ZLe(a, b) == IF a.neg /\ ~b.neg THEN TRUE
             ELSE IF ~a.neg /\ b.neg THEN FALSE
             ELSE IF a.neg THEN NatCmp(a.mag, b.mag) >= 0 ELSE NatCmp(a.mag, b.mag) <= 0
ZStr(z) == (IF z.neg THEN "-" ELSE "") \o NatStr(z.mag)
RECURSIVE Digits(_)
Digits(m) == IF m = 0 THEN << >> ELSE <<m % 10>> \o Digits(m \div 10)
ZSmall(n) == IF n < 0 THEN Z(TRUE, Digits(-n)) ELSE Z(FALSE, Digits(n))

ASSUME NatStr(Pow2(64)) = "18446744073709551616"
ASSUME NatStr(Dec(Pow2(127))) = "170141183460469231731687303715884105727"
ASSUME ZStr(ZDec(ZNeg(Z(FALSE, Pow2(63))))) = "-9223372036854775809"

-----------------------------------------------------------------------------
(* 2. Host types *)
PtrBits == 64
IT(n, s, b) == [t |-> "int", name |-> n, signed |-> s, bits |-> b]
IntTypes == <<IT("i8", TRUE, 8), IT("i16", TRUE, 16), IT("i32", TRUE, 32), IT("i64", TRUE, 64),
              IT("isize", TRUE, PtrBits), IT("u8", FALSE, 8), IT("u16", FALSE, 16), IT("u32", FALSE, 32),
              IT("u64", FALSE, 64), IT("usize", FALSE, PtrBits)>>
TInt(n) == CHOOSE i \in {IntTypes[j] : j \in 1..Len(IntTypes)} : i.name = n
MinOf(T) == IF T.signed THEN Z(TRUE, Pow2(T.bits - 1)) ELSE Z(FALSE, << >>)
MaxOf(T) == IF T.signed THEN Z(FALSE, Dec(Pow2(T.bits - 1))) ELSE Z(FALSE, Dec(Pow2(T.bits)))
InRange(T, z) == ZLe(MinOf(T), z) /\ ZLe(z, MaxOf(T))

TF64 == [t |-> "f64", name |-> "f64"]
TF32 == [t |-> "f32", name |-> "f32"]
TBool == [t |-> "bool", name |-> "bool"]
TChar == [t |-> "char", name |-> "char"]
TStr == [t |-> "string", name |-> "string"]
TUnit == [t |-> "unit", name |-> "unit"]
TOpt(n, T) == [t |-> "opt", name |-> n, of |-> T]
TVec(n, T) == [t |-> "vec", name |-> n, of |-> T]
TSet(n, T) == [t |-> "set", name |-> n, of |-> T]
TMap(n, K, V) == [t |-> "map", name |-> n, key |-> K, val |-> V]
TPair(n, A, B) == [t |-> "pair", name |-> n, a |-> A, b |-> B]
TRes(n, A, B) == [t |-> "res", name |-> n, a |-> A, b |-> B]
TP == [t |-> "p", name |-> "p"]
\* receivers of a registered struct by reference (only as parameters of registered functions)
TPRef == [t |-> "pref", name |-> "&p"]
TPMut == [t |-> "pmut", name |-> "&mut p"]

-----------------------------------------------------------------------------
(* 3. Script values *)
VInt(z) == [k |-> "int", z |-> z]
VI(n) == VInt(ZSmall(n))
VFlo(f) == [k |-> "flo", f |-> f]
VStr(s) == [k |-> "str", s |-> s]          \* s: [cps, lit]
VChr(cp) == [k |-> "chr", cp |-> cp]
VBool(b) == [k |-> "bool", b |-> b]
VVoid == [k |-> "void"]
VSym == [k |-> "sym", s |-> [cps |-> <<97, 98, 99>>, lit |-> "\"abc\""]]
VRat == [k |-> "rat"]
VList(xs) == [k |-> "list", xs |-> xs]
VVec(xs) == [k |-> "vec", xs |-> xs]          \* immutable vector
VMVec(xs) == [k |-> "mvec", xs |-> xs]        \* mutable vector: (vector ...)
VHash(kvs) == [k |-> "hash", kvs |-> kvs]
VSet(xs) == [k |-> "set", xs |-> xs]
VOk(x) == [k |-> "okS", x |-> x]
VErr(x) == [k |-> "errS", x |-> x]
VP(x, s) == [k |-> "p", x |-> x, s |-> s]
VQ == [k |-> "q"]

\* host-only shapes (results of Conv): none / some / rok / rerr / pair reuse the records above
HNone == [k |-> "none"]
HSome(x) == [k |-> "some", x |-> x]
HOk(x) == [k |-> "rok", x |-> x]
HErr(x) == [k |-> "rerr", x |-> x]

\* strings: code points, plus the literal when it is plain printable ASCII
S(cps, lit) == [cps |-> cps, lit |-> lit]
SEmpty == S(<< >>, "\"\"")
SA == S(<<97>>, "\"a\"")
SB == S(<<98>>, "\"b\"")
SHello == S(<<104, 101, 108, 108, 111, 32, 119, 111, 114, 108, 100>>, "\"hello world\"")
SHi == S(<<104, 105>>, "\"hi\"")
SUni == S(<<955, 8594, 127881, 233>>, "")              \* lambda, arrow, party popper (astral), e-acute
SEsc == S(<<113, 34, 98, 92, 115, 10, 116>>, "")       \* quote, backslash, newline inside
SNul == S(<<97, 0, 98>>, "")

\* flonums: src (Scheme), h64 / h32 (Rust {:?}), pr (Steel Display, "" = compare numerically),
\* f32: "exact" (is an f32) | "over" | "under" | "round" (finite, not an f32)
F(id, src, h64, h32, pr, f32) == [id |-> id, src |-> src, h64 |-> h64, h32 |-> h32, pr |-> pr, f32 |-> f32]
Flos == <<F("zero", "0.0", "0.0", "0.0", "0.0", "exact"),
          F("nzero", "(- 0.0)", "-0.0", "-0.0", "-0.0", "exact"),
          F("1.5", "1.5", "1.5", "1.5", "1.5", "exact"),
          F("-2.5", "-2.5", "-2.5", "-2.5", "-2.5", "exact"),
          F("pinf", "+inf.0", "inf", "inf", "+inf.0", "exact"),
          F("ninf", "-inf.0", "-inf", "-inf", "-inf.0", "exact"),
          F("nan", "+nan.0", "NaN", "NaN", "+nan.0", "exact"),
          F("f32max", "3.4028234663852886e38", "3.4028234663852886e38", "3.4028235e38", "", "exact"),
          F("f32min", "1.401298464324817e-45", "1.401298464324817e-45", "1e-45", "", "exact"),
          F("2p24", "16777216.0", "16777216.0", "16777216.0", "16777216.0", "exact"),
          F("1e300", "1e300", "1e300", "", "", "over"),
          F("-1e300", "-1e300", "-1e300", "", "", "over"),
          F("3.5e38", "3.5e38", "3.5e38", "", "", "over"),
          F("f64max", "1.7976931348623157e308", "1.7976931348623157e308", "", "", "over"),
          F("1e-300", "1e-300", "1e-300", "", "", "under"),
          F("f64min", "5e-324", "5e-324", "", "", "under"),
          F("2p24+1", "16777217.0", "16777217.0", "", "16777217.0", "round"),
          F("0.1", "0.1", "0.1", "", "0.1", "round"),
          F("2p53", "9007199254740992.0", "9007199254740992.0", "9007199000000000.0", "", "exact")>>
Flo(id) == CHOOSE f \in {Flos[i] : i \in 1..Len(Flos)} : f.id = id

-----------------------------------------------------------------------------
(* 4. The conversion algebra *)
FAIL == [ok |-> FALSE]
OK(h) == [ok |-> TRUE, h |-> h]
RECURSIVE Conv(_, _), ConvAll(_, _), ConvKVs(_, _, _), Into(_, _), IntoAll(_, _)

\* script value -> host value of type T (or FAIL)
Conv(T, v) ==
  CASE T.t = "int" -> IF v.k = "int" /\ InRange(T, v.z) THEN OK(v) ELSE FAIL
    [] T.t = "f64" -> IF v.k = "flo" THEN OK(v) ELSE FAIL                                   \* D5
    [] T.t = "f32" -> IF v.k = "flo" /\ v.f.f32 = "exact" THEN OK(v) ELSE FAIL
    [] T.t = "bool" -> IF v.k = "bool" THEN OK(v) ELSE FAIL
    [] T.t = "char" -> IF v.k = "chr" THEN OK(v) ELSE FAIL
    [] T.t = "string" -> IF v.k = "str" THEN OK(v) ELSE IF v.k = "sym" THEN OK(VStr(v.s)) ELSE FAIL   \* D4
    [] T.t = "unit" -> IF v.k = "void" THEN OK(v) ELSE FAIL
    [] T.t = "opt" -> IF v.k = "bool" /\ ~v.b THEN OK(HNone)                                \* D2
                      ELSE LET r == Conv(T.of, v) IN IF r.ok THEN OK(HSome(r.h)) ELSE FAIL
    [] T.t = "vec" -> IF v.k \in {"list", "vec"}                                            \* D1
                        THEN LET r == ConvAll(T.of, v.xs) IN IF r.ok THEN OK(VList(r.h)) ELSE FAIL
                        ELSE FAIL
    [] T.t = "set" -> IF v.k = "set"
                        THEN LET r == ConvAll(T.of, v.xs) IN IF r.ok THEN OK(VSet(r.h)) ELSE FAIL
                        ELSE FAIL
    [] T.t = "map" -> IF v.k = "hash"
                        THEN LET r == ConvKVs(T.key, T.val, v.kvs) IN IF r.ok THEN OK(VHash(r.h)) ELSE FAIL
                        ELSE FAIL
    [] T.t = "pair" -> IF v.k = "list" /\ Len(v.xs) = 2                                     \* D7
                         THEN LET ra == Conv(T.a, v.xs[1])
                                  rb == Conv(T.b, v.xs[2]) IN
                                IF ra.ok /\ rb.ok THEN OK(VList(<<ra.h, rb.h>>)) ELSE FAIL
                         ELSE FAIL
    [] T.t = "res" -> IF v.k = "okS" THEN LET r == Conv(T.a, v.x) IN IF r.ok THEN OK(HOk(r.h)) ELSE FAIL
                      ELSE IF v.k = "errS" THEN LET r == Conv(T.b, v.x) IN IF r.ok THEN OK(HErr(r.h)) ELSE FAIL
                      ELSE FAIL
    [] T.t \in {"p", "pref", "pmut"} -> IF v.k = "p" THEN OK(v) ELSE FAIL
ConvAll(T, xs) ==
  IF xs = << >> THEN OK(<< >>)
  ELSE LET r == Conv(T, Head(xs))
           rs == ConvAll(T, Tail(xs)) IN
         IF r.ok /\ rs.ok THEN OK(<<r.h>> \o rs.h) ELSE FAIL
ConvKVs(K, V, kvs) ==
  IF kvs = << >> THEN OK(<< >>)
  ELSE LET rk == Conv(K, Head(kvs)[1])
           rv == Conv(V, Head(kvs)[2])
           rs == ConvKVs(K, V, Tail(kvs)) IN
         IF rk.ok /\ rv.ok /\ rs.ok THEN OK(<<<<rk.h, rv.h>>>> \o rs.h) ELSE FAIL

\* WHY a conversion fails ("" when it does not): the first failing leaf, in the order Conv visits them
RECURSIVE Why(_, _), WhyAll(_, _), WhyKVs(_, _, _)
Why(T, v) ==
  CASE T.t = "int" -> IF v.k # "int" THEN "kind" ELSE IF InRange(T, v.z) THEN "" ELSE "range-" \o T.name
    [] T.t = "f32" -> IF v.k # "flo" THEN "kind" ELSE IF v.f.f32 = "exact" THEN "" ELSE "f32-" \o v.f.f32
    [] T.t = "opt" -> IF v.k = "bool" /\ ~v.b THEN "" ELSE Why(T.of, v)
    [] T.t = "vec" -> IF v.k \in {"list", "vec"} THEN WhyAll(T.of, v.xs) ELSE "kind"
    [] T.t = "set" -> IF v.k = "set" THEN WhyAll(T.of, v.xs) ELSE "kind"
    [] T.t = "map" -> IF v.k = "hash" THEN WhyKVs(T.key, T.val, v.kvs) ELSE "kind"
    [] T.t = "pair" -> IF v.k = "list" /\ Len(v.xs) = 2
                         THEN (IF Why(T.a, v.xs[1]) # "" THEN Why(T.a, v.xs[1]) ELSE Why(T.b, v.xs[2]))
                         ELSE "kind"
    [] T.t = "res" -> IF v.k = "okS" THEN Why(T.a, v.x) ELSE IF v.k = "errS" THEN Why(T.b, v.x) ELSE "kind"
    [] OTHER -> IF Conv(T, v).ok THEN "" ELSE "kind"
WhyAll(T, xs) == IF xs = << >> THEN "" ELSE IF Why(T, Head(xs)) # "" THEN Why(T, Head(xs)) ELSE WhyAll(T, Tail(xs))
WhyKVs(K, V, kvs) ==
  IF kvs = << >> THEN ""
  ELSE IF Why(K, Head(kvs)[1]) # "" THEN Why(K, Head(kvs)[1])
  ELSE IF Why(V, Head(kvs)[2]) # "" THEN Why(V, Head(kvs)[2])
  ELSE WhyKVs(K, V, Tail(kvs))
\* host value of type T -> the script value it must become
Into(T, h) ==
  CASE T.t \in {"int", "f64", "f32", "bool", "char", "string", "unit", "p", "pref", "pmut"} -> h
    [] T.t = "opt" -> IF h.k = "none" THEN VBool(FALSE) ELSE Into(T.of, h.x)
    [] T.t = "vec" -> VList(IntoAll(T.of, h.xs))
    [] T.t = "set" -> VSet(IntoAll(T.of, h.xs))
    [] T.t = "map" -> VHash([i \in 1..Len(h.kvs) |-> <<Into(T.key, h.kvs[i][1]), Into(T.val, h.kvs[i][2])>>])
    [] T.t = "pair" -> VList(<<Into(T.a, h.xs[1]), Into(T.b, h.xs[2])>>)
    [] T.t = "res" -> IF h.k = "rok" THEN Into(T.a, h.x) ELSE [k |-> "raise"]              \* D3
IntoAll(T, xs) == [i \in 1..Len(xs) |-> Into(T, xs[i])]
\* what the host gets back after host -> script -> host
Back(T, h) == Conv(T, Into(T, h))

-----------------------------------------------------------------------------
(* 5. Rendering: Scheme source, host JSON, observation *)
RECURSIVE Src(_), SrcAll(_), SrcKVs(_), HJ(_, _), HJAll(_, _), CpList(_)
CpList(cps) == IF cps = << >> THEN "" ELSE " (integer->char " \o ToString(Head(cps)) \o ")" \o CpList(Tail(cps))
StrSrc(s) == IF s.lit # "" THEN s.lit ELSE "(string" \o CpList(s.cps) \o ")"
Src(v) ==
  CASE v.k = "int" -> ZStr(v.z)
    [] v.k = "flo" -> v.f.src
    [] v.k = "str" -> StrSrc(v.s)
    [] v.k = "chr" -> "(integer->char " \o ToString(v.cp) \o ")"
    [] v.k = "bool" -> IF v.b THEN "#t" ELSE "#f"
    [] v.k = "void" -> "void"
    [] v.k = "sym" -> "'abc"
    [] v.k = "rat" -> "1/2"
    [] v.k = "list" -> "(list" \o SrcAll(v.xs) \o ")"
    [] v.k = "vec" -> "(immutable-vector" \o SrcAll(v.xs) \o ")"
    [] v.k = "mvec" -> "(vector" \o SrcAll(v.xs) \o ")"
    [] v.k = "hash" -> "(hash" \o SrcKVs(v.kvs) \o ")"
    [] v.k = "set" -> "(hashset" \o SrcAll(v.xs) \o ")"
    [] v.k = "okS" -> "(Ok " \o Src(v.x) \o ")"
    [] v.k = "errS" -> "(Err " \o Src(v.x) \o ")"
    [] v.k = "p" -> "(mk-p " \o ZStr(v.x) \o " " \o StrSrc(v.s) \o ")"
    [] v.k = "q" -> "(mk-q 7)"
SrcAll(xs) == IF xs = << >> THEN "" ELSE " " \o Src(Head(xs)) \o SrcAll(Tail(xs))
SrcKVs(kvs) == IF kvs = << >> THEN "" ELSE " " \o Src(Head(kvs)[1]) \o " " \o Src(Head(kvs)[2]) \o SrcKVs(Tail(kvs))

\* JSON rendering of a host value, the same the replayer produces from the Rust value (integers as
\* decimal strings, floats as Rust's {:?}, strings and chars by code point: re-encoded by the check)
HJ(T, h) ==
  CASE T.t = "int" -> ZStr(h.z)
    [] T.t = "f64" -> h.f.h64
    [] T.t = "f32" -> h.f.h32
    [] T.t = "bool" -> h.b
    [] T.t = "char" -> [cp |-> h.cp]
    [] T.t = "string" -> [cps |-> h.s.cps]
    [] T.t = "unit" -> "unit"
    [] T.t = "opt" -> IF h.k = "none" THEN << >> ELSE <<HJ(T.of, h.x)>>
    [] T.t \in {"vec", "set"} -> HJAll(T.of, h.xs)
    [] T.t = "map" -> [i \in 1..Len(h.kvs) |-> <<HJ(T.key, h.kvs[i][1]), HJ(T.val, h.kvs[i][2])>>]
    [] T.t = "pair" -> <<HJ(T.a, h.xs[1]), HJ(T.b, h.xs[2])>>
    [] T.t = "res" -> IF h.k = "rok" THEN [ok |-> HJ(T.a, h.x)] ELSE [err |-> HJ(T.b, h.x)]
    [] T.t \in {"p", "pref", "pmut"} -> [x |-> ZStr(h.x), s |-> [cps |-> h.s.cps]]
HJAll(T, xs) == [i \in 1..Len(xs) |-> HJ(T, xs[i])]

\* the observation of expression x that must yield script value w: <<scheme text, expected emit>>
Obs(w, x) ==
  CASE w.k = "int" -> <<x, ZStr(w.z)>>
    [] w.k = "flo" -> IF w.f.id = "nan" THEN <<"(nan? " \o x \o ")", "#true">>
                      ELSE IF w.f.pr # "" THEN <<x, w.f.pr>>
                      ELSE <<"(= " \o x \o " " \o w.f.src \o ")", "#true">>
    [] w.k = "chr" -> <<"(char->integer " \o x \o ")", ToString(w.cp)>>
    [] w.k = "bool" -> <<x, IF w.b THEN "#true" ELSE "#false">>
    [] w.k = "void" -> <<"(void? " \o x \o ")", "#true">>
    [] w.k = "p" -> <<"(let ((o " \o x \o ")) (list (p-get-x o) (equal? (p-get-s o) " \o StrSrc(w.s) \o ")))",
                      "(" \o ZStr(w.x) \o " #true)">>
    [] OTHER -> <<"(equal? " \o x \o " " \o Src(w) \o ")", "#true">>

-----------------------------------------------------------------------------
(* 6. The value tables *)
Range(s) == {s[i] : i \in 1..Len(s)}
P63 == Z(FALSE, Pow2(63))
\* boundaries of every integer type: min, max, min - 1, max + 1
Bnds == UNION {{MinOf(T), MaxOf(T), ZDec(MinOf(T)), ZInc(MaxOf(T))} : T \in Range(IntTypes)}
\* 128-bit boundaries are out of range for every type under test; they must still be refused
Extra == {ZSmall(0), ZSmall(1), ZSmall(-1), ZSmall(42), ZInc(Z(FALSE, Pow2(53))), ZNeg(ZInc(Z(FALSE, Pow2(53)))),
          Z(FALSE, Pow2(127)), Z(FALSE, Dec(Pow2(128))), Z(TRUE, Pow2(127)), ZDec(Z(TRUE, Pow2(127))),
          Z(FALSE, Pow2(128))}
IntVals == {VInt(z) : z \in Bnds \cup Extra}
FloVals == {VFlo(Flos[i]) : i \in 1..Len(Flos)}
StrVals == {VStr(s) : s \in {SEmpty, SA, SHello, SUni, SEsc, SNul}}
ChrVals == {VChr(cp) : cp \in {0, 65, 955, 55295, 57344, 65533, 1114111}}
BoolVals == {VBool(TRUE), VBool(FALSE)}
\* one value of every other kind
Kinds == {VI(1), VFlo(Flo("1.5")), VStr(SA), VChr(97), VBool(TRUE), VBool(FALSE), VVoid, VSym, VRat,
          VList(<< >>), VList(<<VI(1)>>), VVec(<<VI(1)>>), VMVec(<<VI(1)>>), VHash(<<<<VStr(SA), VI(1)>>>>), VSet(<<VI(1)>>),
          VOk(VI(1)), VErr(VStr(SA)), VP(ZSmall(5), SHi), VQ}

T_i32 == TInt("i32")
T_u8 == TInt("u8")
Scalars == <<TF64, TF32, TBool, TChar, TStr, TUnit>>
Composites ==
  <<TOpt("opt-i32", T_i32), TOpt("opt-bool", TBool), TOpt("opt-string", TStr),
    TOpt("opt-opt-i32", TOpt("opt-i32", T_i32)), TOpt("opt-vec-i32", TVec("vec-i32", T_i32)),
    TVec("vec-i32", T_i32), TVec("vec-u8", T_u8), TVec("vec-string", TStr),
    TVec("vec-vec-i32", TVec("vec-i32", T_i32)), TVec("vec-opt-i32", TOpt("opt-i32", T_i32)),
    TMap("map-string-i32", TStr, T_i32), TMap("map-i32-vec-i32", T_i32, TVec("vec-i32", T_i32)),
    TSet("set-i32", T_i32), TSet("set-string", TStr),
    TPair("pair-i32-string", T_i32, TStr), TRes("res-i32-string", T_i32, TStr), TP>>

I32Max == VInt(MaxOf(T_i32))
I32Over == VInt(ZInc(MaxOf(T_i32)))
\* candidate script values of a composite type: empty / boundary / nested / one bad element
Cands(T) ==
  CASE T.name = "opt-i32" -> {VBool(FALSE), VI(5), I32Max, I32Over, VStr(SA), VBool(TRUE), VList(<< >>)}
    [] T.name = "opt-bool" -> {VBool(FALSE), VBool(TRUE), VI(0)}
    [] T.name = "opt-string" -> {VBool(FALSE), VStr(SEmpty), VStr(SUni), VI(1)}
    [] T.name = "opt-opt-i32" -> {VBool(FALSE), VI(7), VStr(SA)}
    [] T.name = "opt-vec-i32" -> {VBool(FALSE), VList(<< >>), VList(<<VI(1), VI(2)>>), VList(<<VBool(FALSE)>>)}
    [] T.name = "vec-i32" -> {VList(<< >>), VList(<<VI(1), VI(-2), I32Max>>), VVec(<<VI(3), VI(4)>>), VVec(<< >>),
                              VList(<<VI(1), I32Over>>), VList(<<VI(1), VStr(SA)>>), VVec(<<VI(1), VFlo(Flo("1.5"))>>), VMVec(<<VI(3), VI(4)>>),
                              VI(1), VHash(<< >>), VSet(<<VI(1)>>)}
    [] T.name = "vec-u8" -> {VList(<<VI(0), VI(255)>>), VList(<<VI(256)>>), VList(<<VI(-1)>>)}
    [] T.name = "vec-string" -> {VList(<<VStr(SEmpty), VStr(SUni)>>), VList(<<VStr(SA), VI(1)>>), VList(<<VSym>>)}
    [] T.name = "vec-vec-i32" -> {VList(<<VList(<<VI(1)>>), VList(<< >>), VVec(<<VI(2), VI(3)>>)>>),
                                  VList(<<VList(<<VI(1)>>), VI(2)>>), VList(<<VList(<<I32Over>>)>>)}
    [] T.name = "vec-opt-i32" -> {VList(<<VI(1), VBool(FALSE), VI(3)>>), VList(<<VBool(TRUE)>>)}
    [] T.name = "map-string-i32" -> {VHash(<< >>), VHash(<<<<VStr(SA), VI(1)>>, <<VStr(SB), VI(-2)>>>>),
                                     VHash(<<<<VStr(SA), I32Over>>>>), VHash(<<<<VI(1), VI(1)>>>>),
                                     VHash(<<<<VStr(SUni), VI(1)>>>>), VList(<< >>), VI(1)}
    [] T.name = "map-i32-vec-i32" -> {VHash(<<<<VI(1), VList(<<VI(1), VI(2)>>)>>, <<VI(2), VList(<< >>)>>>>),
                                      VHash(<<<<VI(1), VI(2)>>>>)}
    [] T.name = "set-i32" -> {VSet(<< >>), VSet(<<VI(1), VI(2), VI(3)>>), VSet(<<VI(1), VStr(SA)>>), VSet(<<I32Over>>),
                              VList(<<VI(1)>>), VHash(<< >>)}
    [] T.name = "set-string" -> {VSet(<<VStr(SA), VStr(SB)>>), VSet(<<VSym>>)}
    [] T.name = "pair-i32-string" -> {VList(<<VI(1), VStr(SA)>>), VList(<<VStr(SA), VI(1)>>), VList(<<VI(1)>>),
                                      VList(<<VI(1), VStr(SA), VI(3)>>), VList(<<I32Over, VStr(SA)>>), VVec(<<VI(1), VStr(SA)>>)}
    [] T.name = "res-i32-string" -> {VOk(VI(5)), VErr(VStr(SA)), VOk(VStr(SA)), VErr(VI(1)), VOk(I32Over), VI(5), VStr(SA)}
    [] T.name = "p" -> {VP(ZSmall(5), SHi), VP(ZSmall(-1), SUni), VQ, VI(5), VList(<<VI(5), VStr(SHi)>>)}

\* host values that no script value denotes: Some(false), Some(None) (D2) and Err (D3: raised)
HostOnly(T) ==
  CASE T.name = "opt-bool" -> {HSome(VBool(FALSE)), HSome(VBool(TRUE))}
    [] T.name = "opt-opt-i32" -> {HSome(HNone), HSome(HSome(VI(7))), HNone}
    [] T.name = "res-i32-string" -> {HOk(VI(5)), HErr(VStr(SA))}
    [] OTHER -> {}

Values(T) ==
  CASE T.t = "int" -> IntVals \cup Kinds
    [] T.t \in {"f64", "f32"} -> FloVals \cup Kinds \cup {VInt(ZInc(Z(FALSE, Pow2(53))))}
    [] T.t = "bool" -> BoolVals \cup Kinds
    [] T.t = "char" -> ChrVals \cup Kinds
    [] T.t = "string" -> StrVals \cup Kinds
    [] T.t = "unit" -> Kinds
    [] OTHER -> Cands(T) \cup (IF Level = "thorough" THEN Kinds ELSE {})

-----------------------------------------------------------------------------
(* 7. Behaviours *)
YN(b) == IF b THEN "ok" ELSE "err"
VTag(T, v) == IF v.k = "int" THEN ZStr(v.z) ELSE IF v.k = "flo" THEN v.f.id ELSE v.k
Tag(fam, T, dir, v, ok) == "conv|fam=" \o fam \o "|ty=" \o T.name \o "|dir=" \o dir \o "|v=" \o VTag(T, v) \o "|exp=" \o YN(ok)
                           \o "|why=" \o (IF v.k = "host-only" THEN "" ELSE Why(T, v)) \o "|"

\* (id-T v): script -> host -> script
ArgCase(fam, T, v) ==
  LET r == Conv(T, v)
      isres == T.t = "res"
      w == IF r.ok THEN Into(T, r.h) ELSE v
      raises == r.ok /\ isres /\ r.h.k = "rerr"                                                \* D3
      call == "(id-" \o T.name \o " " \o Src(v) \o ")"
      ob == IF r.ok /\ ~raises THEN Obs(w, call) ELSE <<call, "">> IN
    [tag |-> Tag(fam, T, "arg", v, r.ok),
     steps |-> <<[src |-> "(emit " \o ob[1] \o ")",
                  class |-> YN(r.ok /\ ~raises),
                  emit |-> IF r.ok /\ ~raises THEN <<ob[2]>> ELSE << >>,
                  calls |-> IF r.ok THEN <<[fn |-> "id-" \o T.name, args |-> <<HJ(T, r.h)>>]>> ELSE << >>]>>]

ExtractCase(fam, T, v) ==
  LET r == Conv(T, v) IN
    [tag |-> Tag(fam, T, "extract", v, r.ok),
     steps |-> <<[src |-> "(define cx@@ " \o Src(v) \o ")", class |-> "ok"],
                 IF r.ok THEN [h |-> "extract", ty |-> T.name, name |-> "cx@@", src |-> "#host extract " \o T.name \o " cx@@",
                               class |-> "ok", back |-> HJ(T, r.h)]
                 ELSE [h |-> "extract", ty |-> T.name, name |-> "cx@@", src |-> "#host extract " \o T.name \o " cx@@",
                       class |-> "err"]>>]

\* host value h -> script function -> host
H2SCase(fam, T, h, v) ==
  LET w == Into(T, h)
      raises == w.k = "raise"
      b == IF raises THEN FAIL ELSE Back(T, h)
      ob == IF raises THEN <<"x", "">> ELSE Obs(w, "x") IN
    [tag |-> Tag(fam, T, "h2s", v, TRUE),
     steps |-> <<[src |-> "(define (hp@@ x) (emit " \o ob[1] \o ") x)", class |-> "ok"],
                 IF raises
                   THEN [h |-> "h2s", ty |-> T.name, host |-> HJ(T, h), fn |-> "hp@@", src |-> "#host h2s " \o T.name,
                         class |-> "err", emit |-> << >>]
                 ELSE IF ~b.ok        \* D3: an Ok(x) arrives as plain x, which is not a Result for the way back
                   THEN [h |-> "h2s", ty |-> T.name, host |-> HJ(T, h), fn |-> "hp@@", src |-> "#host h2s " \o T.name,
                         class |-> "err", emit |-> <<ob[2]>>]
                   ELSE [h |-> "h2s", ty |-> T.name, host |-> HJ(T, h), fn |-> "hp@@", src |-> "#host h2s " \o T.name,
                         class |-> "ok", emit |-> <<ob[2]>>, back |-> HJ(T, b.h)]>>]

ExtCase(fam, T, h, v) ==
  LET w == Into(T, h)
      raises == w.k = "raise"
      ob == IF raises THEN <<"ex@@", "">> ELSE Obs(w, "ex@@") IN
    [tag |-> Tag(fam, T, "ext", v, TRUE),
     steps |-> <<[h |-> "ext", ty |-> T.name, host |-> HJ(T, h), name |-> "ex@@", src |-> "#host ext " \o T.name,
                  class |-> YN(~raises)]>>
               \o (IF raises THEN << >> ELSE <<[src |-> "(emit " \o ob[1] \o ")", class |-> "ok", emit |-> <<ob[2]>>]>>)]

AllTypes == IntTypes \o Scalars \o Composites
Fam(T) == IF T.t = "int" THEN "int" ELSE IF T.t \in {"f64", "f32"} THEN "flo"
          ELSE IF T.t \in {"bool", "char", "string", "unit"} THEN "scalar" ELSE "comp"
\* A behaviour is identified by a KEY (type index, value, direction); the case is computed from it.
ConvKeys ==
  UNION {
    {[fam |-> "conv", ti |-> i, v |-> v, dir |-> d] : v \in Values(AllTypes[i]), d \in {"arg", "extract"}}
    \cup {[fam |-> "conv", ti |-> i, v |-> v, dir |-> d]
            : v \in {x \in Values(AllTypes[i]) : Conv(AllTypes[i], x).ok}, d \in {"h2s", "ext"}}
    \cup {[fam |-> "hostonly", ti |-> i, hv |-> h, dir |-> d] : h \in HostOnly(AllTypes[i]), d \in {"h2s", "ext"}}
    : i \in 1..Len(AllTypes)}
ConvCaseOf(key) ==
  LET T == AllTypes[key.ti] IN
    IF key.fam = "hostonly"
      THEN (IF key.dir = "h2s" THEN H2SCase(Fam(T), T, key.hv, [k |-> "host-only"])
            ELSE ExtCase(Fam(T), T, key.hv, [k |-> "host-only"]))
    ELSE CASE key.dir = "arg" -> ArgCase(Fam(T), T, key.v)
           [] key.dir = "extract" -> ExtractCase(Fam(T), T, key.v)
           [] key.dir = "h2s" -> H2SCase(Fam(T), T, Conv(T, key.v).h, key.v)
           [] key.dir = "ext" -> ExtCase(Fam(T), T, Conv(T, key.v).h, key.v)

\* one-directional host types: u128 (IntoSteelVal only) and &str
IntoKeys ==
  {[fam |-> "into128", z |-> z]
     : z \in {ZSmall(0), MaxOf(TInt("i64")), ZInc(MaxOf(TInt("i64"))), MaxOf(TInt("u64")), Z(FALSE, Pow2(64)),
              Z(FALSE, Dec(Pow2(128)))}}
  \cup {[fam |-> "intostr", s |-> s] : s \in {SEmpty, SHello, SUni, SEsc, SNul}}
IntoCaseOf(key) ==
  IF key.fam = "into128"
    THEN [tag |-> "conv|fam=into|ty=u128|dir=into|v=" \o ZStr(key.z) \o "|exp=ok|why=|",
          steps |-> <<[h |-> "into", ty |-> "u128", host |-> ZStr(key.z), name |-> "ex@@", src |-> "#host into u128", class |-> "ok"],
                      [src |-> "(emit ex@@)", class |-> "ok", emit |-> <<ZStr(key.z)>>]>>]
    ELSE [tag |-> "conv|fam=into|ty=str|dir=into|v=str|exp=ok|why=|",
          steps |-> <<[h |-> "into", ty |-> "str", host |-> [cps |-> key.s.cps], name |-> "ex@@", src |-> "#host into &str", class |-> "ok"],
                      [src |-> "(emit (equal? ex@@ " \o StrSrc(key.s) \o "))", class |-> "ok", emit |-> <<"#true">>]>>]

-----------------------------------------------------------------------------
(* 8. Registered functions: arity and argument kinds *)
Shape(n, ps) == [name |-> n, params |-> ps]
Shapes == <<Shape("f0", << >>), Shape("f1", <<T_i32>>), Shape("f2", <<T_i32, TStr>>), Shape("f3", <<T_i32, TStr, TBool>>),
            Shape("f4", <<T_i32, TStr, TBool, TChar>>), Shape("fo", <<TOpt("opt-i32", T_i32), T_u8>>),
            Shape("p-x", <<TPRef>>), Shape("p-add", <<TPRef, T_i32, TStr>>), Shape("p-set-x!", <<TPMut, T_i32>>),
            Shape("p-bump!", <<TPMut>>), Shape("p-same-x?", <<TPRef, TPRef>>), Shape("p-scale", <<T_i32, TPRef>>),
            Shape("f16", [i \in 1..16 |-> T_i32]),
            Shape("m-f2", <<T_i32, TStr>>)>>       \* registered in a BuiltInModule (separately generated wrapper)
\* a good value per parameter type, and the values that must be refused
Good(T, i) == CASE T.t = "int" -> IF T.name = "u8" THEN VI(200 + i) ELSE VI(10 * i)
                [] T.t = "string" -> VStr(SHello)
                [] T.t = "bool" -> VBool(TRUE)
                [] T.t = "char" -> VChr(955)
                [] T.t = "opt" -> IF i = 1 THEN VI(5) ELSE VBool(FALSE)
                [] T.t \in {"pref", "pmut"} -> VP(ZSmall(5), SHi)
Bad(T) == CASE T.t = "int" -> {VStr(SA), VFlo(Flo("1.5")), VInt(ZInc(MaxOf(T))), VInt(ZDec(MinOf(T))), VBool(TRUE)}
            [] T.t = "string" -> {VI(1), VChr(97), VList(<< >>)}
            [] T.t = "bool" -> {VI(0), VStr(SA)}
            [] T.t = "char" -> {VStr(SA), VI(97)}
            [] T.t = "opt" -> {VStr(SA), VBool(TRUE)}
            [] T.t \in {"pref", "pmut"} -> {VQ, VI(5), VStr(SHi), VBool(FALSE)}

\* inside a call case the registered struct values live in globals (made by a set-up step)
ASrc(v) == IF v.k = "p" THEN "pv@@" ELSE IF v.k = "q" THEN "qv@@" ELSE Src(v)
RECURSIVE ASrcAll(_)
ASrcAll(xs) == IF xs = << >> THEN "" ELSE " " \o ASrc(Head(xs)) \o ASrcAll(Tail(xs))
GoodArgs(sh) == [i \in 1..Len(sh.params) |-> Good(sh.params[i], i)]
CallOK(sh, args) == Len(args) = Len(sh.params) /\ \A i \in 1..Len(args) : Conv(sh.params[i], args[i]).ok
RECURSIVE CallWhyFrom(_, _, _)
CallWhyFrom(sh, args, i) == IF i > Len(args) THEN ""
                            ELSE IF Why(sh.params[i], args[i]) # "" THEN Why(sh.params[i], args[i])
                            ELSE CallWhyFrom(sh, args, i + 1)
CallWhy(sh, args) == IF Len(args) # Len(sh.params) THEN "arity" ELSE CallWhyFrom(sh, args, 1)
CallCase(sh, args, what) ==
  LET ok == CallOK(sh, args) IN
    [tag |-> "conv|fam=call|ty=" \o sh.name \o "|dir=call|v=" \o what \o "|exp=" \o YN(ok) \o "|why=" \o CallWhy(sh, args) \o "|",
     steps |-> <<[src |-> "(define pv@@ (mk-p 5 \"hi\"))", class |-> "ok"],
                 [src |-> "(define qv@@ (mk-q 7))", class |-> "ok"],
                 [src |-> "(" \o sh.name \o ASrcAll(args) \o ")", class |-> YN(ok),
                  calls |-> IF ok THEN <<[fn |-> sh.name,
                                          args |-> [i \in 1..Len(args) |-> HJ(sh.params[i], Conv(sh.params[i], args[i]).h)]]>>
                            ELSE << >>]>>
               \* a `&mut P` receiver really mutates the registered value
               \o (IF ok /\ sh.name = "p-set-x!" THEN <<[src |-> "(emit (p-x pv@@))", class |-> "ok", emit |-> <<ZStr(args[2].z)>>]>>
                   ELSE IF ok /\ sh.name = "p-bump!" THEN <<[src |-> "(emit (p-x pv@@))", class |-> "ok", emit |-> <<"6">>]>>
                   ELSE << >>)]
Replace(s, i, x) == [s EXCEPT ![i] = x]
CK(n, args, what) == [fam |-> "call", n |-> n, args |-> args, what |-> what]
CallKeys ==
  UNION {
    LET sh == Shapes[n]
        g == GoodArgs(sh)
        np == Len(sh.params) IN
      {CK(n, g, "good")}
      \cup {CK(n, g \o <<VI(1)>>, "toomany")}
      \cup (IF np > 0 THEN {CK(n, SubSeq(g, 1, np - 1), "toofew")} ELSE {})
      \cup (IF np > 1 THEN {CK(n, << >>, "none")} ELSE {})
      \cup UNION {{CK(n, Replace(g, i, b), "bad" \o ToString(i) \o "-" \o VTag(sh.params[i], b))
                      : b \in Bad(sh.params[i])}
                  : i \in (IF sh.name = "f16" THEN {1, 14, 16} ELSE 1..np)}
    : n \in 1..Len(Shapes)}

-----------------------------------------------------------------------------
(* 9. Signature shapes with a LENT receiver (`&mut SELF` of a CustomReference type) and a slice:
      Fn(&mut SELF, &[i64], i64), Fn(&mut SELF, &[i64]), Fn(&mut SELF); each registered on the Engine and in
      a BuiltInModule ("m-" prefix).  The call happens inside a lending call of object A (value 100).
      D8: a slice parameter takes a LIST only (AsRefSteelValFromUnsized matches ListV). *)
TCell == [t |-> "cellmut", name |-> "&mut cell"]
TSlice == [t |-> "slice", name |-> "&[i64]"]
T_i64 == TInt("i64")
VHandle == [k |-> "handle"]
RConv(T, v) == CASE T.t = "cellmut" -> v.k = "handle"
                 [] T.t = "slice" -> v.k = "list" /\ \A i \in 1..Len(v.xs) : Conv(T_i64, v.xs[i]).ok
                 [] OTHER -> Conv(T, v).ok
RSrc(v) == IF v.k = "handle" THEN "r1_0" ELSE Src(v)
RECURSIVE RSrcAll(_)
RSrcAll(xs) == IF xs = << >> THEN "" ELSE " " \o RSrc(Head(xs)) \o RSrcAll(Tail(xs))
RFn(n, rec, acc, ps) == [name |-> n, rec |-> rec, acc |-> acc, params |-> ps]
RFns == <<RFn("cell-addall", "cell-addall", "addall", <<TCell, TSlice, T_i64>>),
          RFn("m-cell-addall", "cell-addall", "addall", <<TCell, TSlice, T_i64>>),
          RFn("cell-sumall", "cell-sumall", "sumall", <<TCell, TSlice>>),
          RFn("m-cell-sumall", "cell-sumall", "sumall", <<TCell, TSlice>>),
          RFn("m-cell-get-mut", "", "get_mut", <<TCell>>)>>
RGood(T) == CASE T.t = "cellmut" -> VHandle [] T.t = "slice" -> VList(<<VI(1), VI(2), VI(3)>>) [] OTHER -> VI(10)
RBad(T) == CASE T.t = "cellmut" -> {VI(5), VStr(SA), VP(ZSmall(5), SHi)}
             [] T.t = "slice" -> {VList(<<VI(1), VStr(SA)>>), VI(1), VVec(<<VI(1), VI(2)>>), VList(<<VInt(P63)>>)}
             [] OTHER -> {VStr(SA), VInt(P63)}
\* the small sums of the good arguments are TLC integers
RResult(f, args) == 100 + (IF Len(f.params) >= 2 THEN 6 ELSE 0) + (IF Len(f.params) = 3 THEN 10 ELSE 0)
ROK(f, args) == Len(args) = Len(f.params) /\ \A i \in 1..Len(args) : RConv(f.params[i], args[i])
RK(n, args, what) == [fam |-> "refcall", n |-> n, args |-> args, what |-> what]
RefKeys ==
  UNION {
    LET f == RFns[n]
        g == [i \in 1..Len(f.params) |-> RGood(f.params[i])]
        np == Len(f.params) IN
      {RK(n, g, "good"), RK(n, g \o <<VI(1)>>, "toomany"), RK(n, SubSeq(g, 1, np - 1), "toofew")}
      \cup UNION {{RK(n, Replace(g, i, b), "bad" \o ToString(i) \o "-" \o VTag(f.params[i], b)) : b \in RBad(f.params[i])}
                  : i \in 1..np}
    : n \in 1..Len(RFns)}
RefCaseOf(key) ==
  LET f == RFns[key.n]
      ok == ROK(f, key.args) IN
    [tag |-> "conv|fam=refcall|ty=" \o f.name \o "|dir=call|v=" \o key.what \o "|exp=" \o YN(ok) \o "|why=|",
     steps |-> <<[h |-> "open", g |-> 1, eng |-> 1, refs |-> <<[obj |-> "A", mode |-> "mut"]>>, src |-> "#host open g1 e1 [A:mut]"],
                 [h |-> "enter", g |-> 1, api |-> "consume_once", src |-> "#host enter g1"],
                 [src |-> "(emit (" \o f.name \o RSrcAll(key.args) \o "))", class |-> YN(ok),
                  emit |-> IF ok THEN <<ToString(RResult(f, key.args))>> ELSE << >>,
                  acc |-> IF ok THEN <<"A." \o f.acc>> ELSE << >>,
                  calls |-> IF ok /\ f.rec # ""
                              THEN <<[fn |-> f.rec,
                                      args |-> [i \in 1..(Len(key.args) - 1) |->
                                                  IF f.params[i + 1].t = "slice" THEN HJAll(T_i64, key.args[i + 1].xs)
                                                  ELSE HJ(T_i64, key.args[i + 1])]]>>
                              ELSE << >>],
                 [h |-> "exit", g |-> 1, src |-> "#host exit g1"]>>]

Keys == ConvKeys \cup IntoKeys \cup CallKeys \cup RefKeys
CaseOf(key) == CASE key.fam \in {"conv", "hostonly"} -> ConvCaseOf(key)
                 [] key.fam \in {"into128", "intostr"} -> IntoCaseOf(key)
                 [] key.fam = "call" -> CallCase(Shapes[key.n], key.args, key.what)
                 [] key.fam = "refcall" -> RefCaseOf(key)

Init == c \in Keys
Next == UNCHANGED c
Spec == Init /\ [][Next]_vars
Emit == PrintT(<<"REPLAY", ToJson(CaseOf(c))>>)
=============================================================================
