SPECIFICATION Spec
CONSTANTS
  MaxMods = 2
  NmMin = 2
  VisSet = {"priv", "ctr", "reexp"}
  ModModsM = {"plain", "pre", "ren", "only_a"}
  ModModsP = {"plain"}
  MaxSpecsM = 1
  MaxSpecsP = 1
  OwnSets = {{}, {"helper", "p.va"}}
  UseSet = {TRUE}
  FailSet = {"none"}
  ErrKinds = {"none"}
  MaxUnits = 1
  ProbeNames = {"va", "vb", "helper", "vz", "p.va", "p.vb", "p.helper", "p.vz"}
  Avoid = {}
INVARIANTS Emit Sound
CHECK_DEADLOCK FALSE
