SPECIFICATION Spec
CONSTANTS
  TrackCov = FALSE
  Thread = {"t1", "t2", "t3"}
  Creator = "t1"
  MaxHandles = 4
  MaxOps = 12
  Defects = {"late_settid", "dangling_queue"}
  OpKinds = {"clone", "drop", "get_mut", "try_unwrap", "send", "merge", "register", "exit"}
INVARIANTS Emit
CHECK_DEADLOCK FALSE
