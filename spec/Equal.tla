------------------------------- MODULE Equal -------------------------------
(***************************************************************************)
(* C11, first half: `equal?` is structural, is an equivalence, ignores     *)
(* sharing, and hashing agrees with it.                                    *)
(*                                                                         *)
(* WHAT IS MODELLED.  A *heap* is a finite sequence of nodes g[1..n]; node *)
(* i is an aggregate constructor applied to child slots; a slot is either  *)
(* a leaf constant or a reference to an EARLIER node (so g is a DAG with   *)
(* arbitrary sharing: the same node may be referenced from several slots   *)
(* of several nodes, and equal but separately allocated nodes co-exist).   *)
(* Every node of the heap is a value under test ("rooted DAG" = heap +     *)
(* chosen node), all nodes are `let*`-bound in ONE scope, so that the      *)
(* values of one case share structure with each other exactly as g says.   *)
(*                                                                         *)
(* The meaning of a node is its DENOTATION Den: the mathematical value     *)
(* obtained by unfolding the DAG into a tree and reading constructors      *)
(* mathematically: lists and pairs are cons cells ending in nil (so        *)
(* (cons a (list b)) and (list a b) are the same value), vectors are       *)
(* finite sequences (mutable or immutable alike), hash maps are finite     *)
(* functions key -> value (a later insertion of an equal key replaces the  *)
(* earlier one), hash sets are sets, transparent struct instances are      *)
(* tagged tuples, boxes are 1-tuples, leaves are themselves.               *)
(*        StructEq(x, y)  ==  Den(x) = Den(y)      (TLA+ equality)         *)
(* Sharing cannot matter because Den forgets it; StructEq is an            *)
(* equivalence because `=` is.                                             *)
(*                                                                         *)
(* WHAT A CASE OBSERVES (the table `Probes`, printed once as PROBES line): *)
(* for ordered pairs (x, y) of value handles - heap nodes n_i, fully       *)
(* unshared fresh copies c_i (= the unfolded tree of n_i, built again      *)
(* without any `let`), and one-leaf mutants of those copies -              *)
(*   equal? both ways                       = StructEq                     *)
(*   hash-map / hash-set lookups of y in a collection keyed by x, and      *)
(*   duplicate-key collapsing               hit / 1 entry  iff StructEq    *)
(*   (= (hash-code x) (hash-code y))        #true          if  StructEq    *)
(*   eqv? / eq?  only where R7RS determines them (same variable; leaves    *)
(*   whose identity is their value: exact numbers, symbols, booleans, (),  *)
(*   characters; different-content leaves).                                *)
(* The spec computes the expectation and a *feature string* per pair: the  *)
(* semantic preconditions of the defects recorded in known_findings.d      *)
(* (sharing present, set-size coincidence, ...).  A mismatch whose pair    *)
(* lacks the feature of every known finding is reported as a VIOLATION.    *)
(* The check additionally tests the OBSERVED equal? relation of every case *)
(* for reflexivity, symmetry and transitivity without using the oracle.    *)
(*                                                                         *)
(* FAMILIES (table Fams, selected by the constant FAMSEL):                 *)
(*  graph families: the build phase adds one node per step, every node     *)
(*           choice over kinds x slots(leafs, earlier nodes); BFS = all    *)
(*           heaps of exactly n nodes; family "sim" follows only a SEED-   *)
(*           selected sparse sub-tree and so samples larger heaps over all *)
(*           kinds reproducibly                                            *)
(*  "leaf"   all ordered pairs of leaves (numeric tower subtleties, values *)
(*           built two ways) x a wrapper kind (or none)                    *)
(*                                                                         *)
(* NAMED MODELLING CHOICES (Steel is not R7RS here, on purpose):           *)
(*  M1  boxes and mutable vectors are compared structurally by equal? and  *)
(*      hashed by content (Racket semantics; R7RS has no boxes); a mutable *)
(*      and an immutable vector with the same elements are equal? (one     *)
(*      vector type in R7RS, both print as #(...))                         *)
(*  M2  proper lists are a distinct representation from pairs, but         *)
(*      (cons a lst) is a list: representation is invisible to equal?      *)
(*  M3  hash maps / hash sets / transparent structs are not R7RS; their    *)
(*      equal? is extensional (docs/src/builtins: "equal recursively       *)
(*      structurally")                                                     *)
(* NOT adopted (R7RS kept, Steel deviates, see known_findings.d/C11.json): *)
(*  0.0 and -0.0 are different values (eqv? #f  =>  equal? #f).            *)
(*  NaN: R7RS leaves (eqv? +nan.0 +nan.0) unspecified; the property says   *)
(*  equal? is an equivalence, so reflexivity is demanded (Den(nan) = nan). *)
(***************************************************************************)
EXTENDS Integers, Sequences, TLC, Json, FiniteSets, SequencesExt

CONSTANTS FAMSEL,   \* the families (names in Fams below) explored by this run
          NBUMP,    \* added to the node count of every graph family (thorough tier)
          SEED,     \* sparse families: selects the pseudo-random sub-tree of the build tree
          BRANCH    \* sparse families: expected number of node choices kept per step

VARIABLES fam,      \* the family of this behaviour
          g,        \* the heap built so far
          phase     \* "build" | "done"
vars == <<fam, g, phase>>

(* Families.  n = heap nodes per case, leafs = leaf ids usable in child slots, kinds = node   *)
(* kinds usable ("leaf" family: the wrapper put around both leaves; "none" = bare), mut = add *)
(* one-leaf mutants of the unshared copies as further values.                                 *)
LeafOrder == <<"i1", "i1b", "i2", "i0", "f1", "f0", "fn0", "nan", "big", "big2", "rat", "rat2", "brat", "brat2",
               "cx", "cx2", "sa", "sa2", "sb", "se", "ya", "ya2", "yb", "ca", "ca2", "cb", "t", "f", "nil", "nil2",
               "bv", "bv2", "bw", "fcar", "fcar2", "fcdr", "vd",
               "rg3", "rg4", "rg4m", "rg5", "rg11", "rg12", "rg12m", "rg13", "rg27", "rg28", "rg29">>
AllLeafIds == {LeafOrder[i] : i \in 1..Len(LeafOrder)}
Fams == [
  list   |-> [n |-> 3, leafs |-> {"i1", "nil"}, kinds |-> {"cons", "list1"}, mut |-> TRUE],
  vec    |-> [n |-> 3, leafs |-> {"i1"},        kinds |-> {"ivec1", "ivec2", "mvec2", "list1"}, mut |-> TRUE],
  hash   |-> [n |-> 3, leafs |-> {"i1", "i2"},  kinds |-> {"hash1", "hins"}, mut |-> TRUE],
  hset   |-> [n |-> 3, leafs |-> {"i1", "i2"},  kinds |-> {"hset1", "hset2"}, mut |-> TRUE],
  struct |-> [n |-> 3, leafs |-> {"i1"},        kinds |-> {"sP", "sQ", "list1"}, mut |-> TRUE],
  box    |-> [n |-> 3, leafs |-> {"i1"},        kinds |-> {"box", "mvec1", "list2"}, mut |-> TRUE],
  strs   |-> [n |-> 3, leafs |-> {"sa", "big2"}, kinds |-> {"lf", "list2"}, mut |-> TRUE],
  mixed  |-> [n |-> 2, leafs |-> {"i1", "nil"},
              kinds |-> {"cons", "list1", "list2", "ivec1", "ivec2", "mvec1", "mvec2", "box", "hash1", "hins",
                         "hset1", "hset2", "sP", "sQ"}, mut |-> TRUE],
  \* sparse: only a SEED-selected pseudo-random subset of the node choices is followed at each
  \* step (about BRANCH of them), so that larger heaps over all kinds are sampled reproducibly
  sim    |-> [n |-> 5, leafs |-> {"i1", "i2", "nil", "sa"},
              kinds |-> {"cons", "list1", "list2", "ivec1", "ivec2", "mvec1", "mvec2", "box", "hash1", "hins",
                         "hset1", "hset2", "sP", "sQ", "lf"}, mut |-> TRUE],
  \* lists of different length that PHYSICALLY share a long tail (the first node is a long list, every
  \* later node conses a symbol onto an earlier node): (a . T), (b . T), (a b . T), (a a . T) ... with T
  \* at and around the chunk sizes of the list representation; node choices: TailChoices below
  tails  |-> [n |-> 4, leafs |-> {"ya", "yb"}, kinds |-> {"lf", "cons"}, mut |-> TRUE],
  leaf   |-> [n |-> 0, leafs |-> AllLeafIds,
              kinds |-> {"none", "list1", "cons", "list2", "ivec1", "mvec2", "box", "hash1", "hins", "hset1", "sP"},
              mut |-> FALSE] ]
FAM     == fam
N       == Fams[fam].n + (IF fam \in {"leaf", "tails"} THEN 0 ELSE NBUMP)
LEAFS   == Fams[fam].leafs
TailLeafs == {"rg3", "rg4", "rg4m", "rg5", "rg11", "rg12", "rg12m", "rg13", "rg27", "rg28", "rg29"}
KINDS   == Fams[fam].kinds
MUTANTS == Fams[fam].mut
SPARSE  == fam = "sim"

-----------------------------------------------------------------------------
(* Leaves.  id, Scheme source, denotation id, class.  Two ids with the same  *)
(* den are the same value built two ways (literal vs computed at run time;   *)
(* `opaque` is a host identity function that defeats constant folding).      *)
LeafTab == {
  [id |-> "i1",   src |-> "1",                                        den |-> "i1",   cls |-> "exact"],
  [id |-> "i1b",  src |-> "(- (opaque 3) 2)",                         den |-> "i1",   cls |-> "exact"],
  [id |-> "i2",   src |-> "2",                                        den |-> "i2",   cls |-> "exact"],
  [id |-> "i0",   src |-> "0",                                        den |-> "i0",   cls |-> "exact"],
  [id |-> "f1",   src |-> "1.0",                                      den |-> "f1",   cls |-> "flo"],
  [id |-> "f0",   src |-> "0.0",                                      den |-> "f0",   cls |-> "flo"],
  [id |-> "fn0",  src |-> "(- (opaque 0.0))",                         den |-> "fn0",  cls |-> "flo"],
  [id |-> "nan",  src |-> "(/ (opaque 0.0) 0.0)",                     den |-> "nan",  cls |-> "nan"],
  [id |-> "big",  src |-> "73786976294838206464",                     den |-> "big",  cls |-> "bigint"],
  [id |-> "big2", src |-> "(* (opaque 4294967296) 4294967296 4)",     den |-> "big",  cls |-> "bigint"],
  [id |-> "rat",  src |-> "1/2",                                      den |-> "r12",  cls |-> "ratio"],
  [id |-> "rat2", src |-> "(/ (opaque 2) 4)",                         den |-> "r12",  cls |-> "ratio"],
  [id |-> "brat", src |-> "(/ 73786976294838206464 3)",               den |-> "brat", cls |-> "bigratio"],
  [id |-> "brat2",src |-> "(/ (* (opaque 4294967296) 4294967296 4) 3)", den |-> "brat", cls |-> "bigratio"],
  [id |-> "cx",   src |-> "(make-rectangular 1 2)",                   den |-> "cx12", cls |-> "complex"],
  [id |-> "cx2",  src |-> "(make-rectangular (opaque 1) 2)",          den |-> "cx12", cls |-> "complex"],
  [id |-> "sa",   src |-> "\"ab\"",                                   den |-> "s:ab", cls |-> "str"],
  [id |-> "sa2",  src |-> "(string-append \"a\" (opaque \"b\"))",     den |-> "s:ab", cls |-> "str"],
  [id |-> "sb",   src |-> "\"ac\"",                                   den |-> "s:ac", cls |-> "str"],
  [id |-> "se",   src |-> "\"\"",                                     den |-> "s:",   cls |-> "str"],
  [id |-> "ya",   src |-> "'a",                                       den |-> "y:a",  cls |-> "sym"],
  [id |-> "ya2",  src |-> "(string->symbol (opaque \"a\"))",          den |-> "y:a",  cls |-> "sym"],
  [id |-> "yb",   src |-> "'b",                                       den |-> "y:b",  cls |-> "sym"],
  [id |-> "ca",   src |-> "#\\a",                                     den |-> "c:a",  cls |-> "chr"],
  [id |-> "ca2",  src |-> "(integer->char (opaque 97))",              den |-> "c:a",  cls |-> "chr"],
  [id |-> "cb",   src |-> "#\\b",                                     den |-> "c:b",  cls |-> "chr"],
  [id |-> "t",    src |-> "#t",                                       den |-> "t",    cls |-> "bool"],
  [id |-> "f",    src |-> "#f",                                       den |-> "f",    cls |-> "bool"],
  [id |-> "nil",  src |-> "'()",                                      den |-> "nil",  cls |-> "nil"],
  [id |-> "nil2", src |-> "(list)",                                   den |-> "nil",  cls |-> "nil"],
  [id |-> "bv",   src |-> "(bytes 1 2)",                              den |-> "b:12", cls |-> "bytes"],
  [id |-> "bv2",  src |-> "(bytes-append (bytes 1) (bytes 2))",       den |-> "b:12", cls |-> "bytes"],
  [id |-> "bw",   src |-> "(bytes 1 3)",                              den |-> "b:13", cls |-> "bytes"],
  \* kinds without structure: primitive procedures (identity = the primitive) and void
  [id |-> "fcar", src |-> "car",                                      den |-> "p:car", cls |-> "proc"],
  [id |-> "fcar2",src |-> "(opaque car)",                             den |-> "p:car", cls |-> "proc"],
  [id |-> "fcdr", src |-> "cdr",                                      den |-> "p:cdr", cls |-> "proc"],
  [id |-> "vd",   src |-> "void",                                     den |-> "void",  cls |-> "void"],
  \* long proper lists of exact integers (family "tails"): lengths at and around the sizes at which a
  \* chunked list representation starts a new chunk (4, 12 = 4 + 8, 28 = 4 + 8 + 16), built by `range`
  \* and (the "m" ids, same value) by `map`.  They are leaves here - their elements are integers and
  \* no other leaf of the family is one, so no cons-built value can coincide with one of them.
  [id |-> "rg3",  src |-> "(range 0 3)",                              den |-> "l:rg3",  cls |-> "ilist"],
  [id |-> "rg4",  src |-> "(range 0 4)",                              den |-> "l:rg4",  cls |-> "ilist"],
  [id |-> "rg4m", src |-> "(map (lambda (x) (- x 1)) (range 1 5))",   den |-> "l:rg4",  cls |-> "ilist"],
  [id |-> "rg5",  src |-> "(range 0 5)",                              den |-> "l:rg5",  cls |-> "ilist"],
  [id |-> "rg11", src |-> "(range 0 11)",                             den |-> "l:rg11", cls |-> "ilist"],
  [id |-> "rg12", src |-> "(range 0 12)",                             den |-> "l:rg12", cls |-> "ilist"],
  [id |-> "rg12m",src |-> "(map (lambda (x) (- x 1)) (range 1 13))",  den |-> "l:rg12", cls |-> "ilist"],
  [id |-> "rg13", src |-> "(range 0 13)",                             den |-> "l:rg13", cls |-> "ilist"],
  [id |-> "rg27", src |-> "(range 0 27)",                             den |-> "l:rg27", cls |-> "ilist"],
  [id |-> "rg28", src |-> "(range 0 28)",                             den |-> "l:rg28", cls |-> "ilist"],
  [id |-> "rg29", src |-> "(range 0 29)",                             den |-> "l:rg29", cls |-> "ilist"] }

LeafIds == {r.id : r \in LeafTab}
LF == [i \in LeafIds |-> CHOOSE r \in LeafTab : r.id = i]
LeafSrc(i) == LF[i].src
LeafDen(i) == LF[i].den
LeafCls(i) == LF[i].cls

\* classes whose eqv?-identity is their value (R7RS 6.1)
ValueCls  == {"exact", "bigint", "ratio", "bigratio", "complex", "flo", "sym", "chr", "bool", "nil", "proc", "void"}
NumberCls == {"exact", "bigint", "ratio", "bigratio", "complex", "flo", "nan"}
\* classes for which Steel's worklist comparison has no arm (finding C11-nested-*)
ExoticCls == {"ratio", "bigratio", "complex", "bytes"}

\* the leaf that replaces leaf `i` in a mutant (a different value)
MutLeaf(i) == IF LeafDen(i) = "i2" THEN "i1" ELSE "i2"

-----------------------------------------------------------------------------
(* Heap nodes *)
LeafSlot(l) == [r |-> 0, l |-> l]
RefSlot(j)  == [r |-> j, l |-> ""]

Arity(k) == CASE k \in {"list1", "ivec1", "mvec1", "box", "hset1", "lf"} -> 1
              [] k \in {"cons", "list2", "ivec2", "mvec2", "hash1", "hset2", "sP", "sQ"} -> 2
              [] k = "hins" -> 3
AllKinds == {"cons", "list1", "list2", "ivec1", "ivec2", "mvec1", "mvec2", "box",
             "hash1", "hins", "hset1", "hset2", "sP", "sQ", "lf"}
MapKinds == {"hash1", "hins"}

Ctor(k) == CASE k = "cons" -> "cons"
             [] k \in {"list1", "list2"} -> "list"
             [] k \in {"ivec1", "ivec2"} -> "immutable-vector"
             [] k \in {"mvec1", "mvec2"} -> "vector"
             [] k = "box" -> "box"
             [] k = "hash1" -> "hash"
             [] k = "hins" -> "hash-insert"
             [] k \in {"hset1", "hset2"} -> "hashset"
             [] k = "sP" -> "P@@"
             [] k = "sQ" -> "Q@@"

Slots(h) == {LeafSlot(l) : l \in LEAFS} \cup {RefSlot(j) : j \in 1..Len(h)}

\* every node that may be appended to heap h
TailChoices(h) ==
  IF h = << >> THEN {[k |-> "lf", c |-> <<LeafSlot(l)>>] : l \in TailLeafs}
  ELSE {[k |-> "cons", c |-> <<LeafSlot(x), RefSlot(j)>>] : x \in LEAFS, j \in 1..Len(h)}
NodeChoices(h) ==
  IF fam = "tails" THEN TailChoices(h) ELSE
  UNION { CASE k = "lf"   -> {[k |-> k, c |-> <<LeafSlot(l)>>] : l \in LEAFS}
            [] k = "hins" -> {[k |-> k, c |-> <<RefSlot(j), s2, s3>>] :
                                j \in {j \in 1..Len(h) : h[j].k \in MapKinds}, s2 \in Slots(h), s3 \in Slots(h)}
            [] Arity(k) = 1 /\ k # "lf" -> {[k |-> k, c |-> <<s1>>] : s1 \in Slots(h)}
            [] OTHER -> {[k |-> k, c |-> <<s1, s2>>] : s1 \in Slots(h), s2 \in Slots(h)}
          : k \in KINDS \cap AllKinds }

\* Seeded pseudo-random thinning of the build tree (a pure function of heap, node and SEED, so
\* the exploration is reproducible and independent of the number of TLC workers).
KindOrder == <<"cons", "list1", "list2", "ivec1", "ivec2", "mvec1", "mvec2", "box", "hash1", "hins", "hset1",
               "hset2", "sP", "sQ", "lf">>
IdxIn(seq, x) == CHOOSE i \in 1..Len(seq) : seq[i] = x
SlotCode(sl) == IF sl.r = 0 THEN IdxIn(LeafOrder, sl.l) ELSE 40 + sl.r
Mx(a, b) == (a * 251 + b) % 9973
NodeCode(nd) == Mx(Mx(Mx(IdxIn(KindOrder, nd.k), SlotCode(nd.c[1])),
                      IF Len(nd.c) >= 2 THEN SlotCode(nd.c[2]) ELSE 7),
                   IF Len(nd.c) >= 3 THEN SlotCode(nd.c[3]) ELSE 11)
RECURSIVE HeapCode(_, _)
HeapCode(h, i) == IF i = 0 THEN SEED % 9973 ELSE Mx(HeapCode(h, i - 1), NodeCode(h[i]))
Kept3(choices, hc, m) == {nd \in choices : (Mx(Mx(hc, NodeCode(nd)), 4001) % m) < BRANCH}
Kept(h, choices) == Kept3(choices, HeapCode(h, Len(h)), Cardinality(choices))

-----------------------------------------------------------------------------
(* TLC evaluation note.  TLC re-evaluates a LET definition and the body of a  *)
(* function constructor at every use; only operator ARGUMENTS are evaluated   *)
(* once.  Intermediate results are therefore passed as arguments of helper    *)
(* operators (named ...2, ...3), and sequences are made concrete with Force.  *)
Force(f) == f \o << >>

-----------------------------------------------------------------------------
(* Unfolding: the term (tree) of a node.  Sharing disappears here. *)
LeafTerm(l) == [k |-> "leaf", id |-> l, c |-> << >>]

RECURSIVE Term(_, _)
SlotTerm(h, s) == IF s.r = 0 THEN LeafTerm(s.l) ELSE Term(h, s.r)
Term(h, i) == IF h[i].k = "lf" THEN LeafTerm(h[i].c[1].l)
              ELSE [k |-> h[i].k, id |-> "", c |-> Force([p \in 1..Len(h[i].c) |-> SlotTerm(h, h[i].c[p])])]

RECURSIVE LeafCount(_)
LeafCount(t) == IF t.k = "leaf" THEN 1
                ELSE LeafCount(t.c[1]) + (IF Len(t.c) >= 2 THEN LeafCount(t.c[2]) ELSE 0)
                                       + (IF Len(t.c) >= 3 THEN LeafCount(t.c[3]) ELSE 0)

\* replace the p-th leaf (pre-order, 1-based) of t by another leaf
RECURSIVE Mutate(_, _)
Mutate3(t, p, n1, n2) ==
  [t EXCEPT !.c = Force([q \in 1..Len(t.c) |->
      IF q = 1 /\ p <= n1 THEN Mutate(t.c[1], p)
      ELSE IF q = 2 /\ p > n1 /\ p <= n1 + n2 THEN Mutate(t.c[2], p - n1)
      ELSE IF q = 3 /\ p > n1 + n2 THEN Mutate(t.c[3], p - n1 - n2)
      ELSE t.c[q]])]
Mutate(t, p) == IF t.k = "leaf" THEN LeafTerm(MutLeaf(t.id))
                ELSE Mutate3(t, p, LeafCount(t.c[1]), IF Len(t.c) >= 2 THEN LeafCount(t.c[2]) ELSE 0)

-----------------------------------------------------------------------------
(* Denotation.  DenNode gives the value of a node from the values of its      *)
(* children; mode "std" is the meaning, the other modes are the readings      *)
(* under which known Steel defects become explicable:                         *)
(*   "setsize"  a hash set is only its cardinality                            *)
(*   "zero"     0.0 and -0.0 are identified                                   *)
(*   "mut"      (a refinement) mutable and immutable vectors are different    *)
(*              kinds of value - what Steel's Hash sees                       *)
NilD == <<"leaf", "nil">>
LeafD(i, mode) == IF mode = "zero" /\ LeafDen(i) = "fn0" THEN <<"leaf", "f0">> ELSE <<"leaf", LeafDen(i)>>
VecTag(k, mode) == IF mode = "mut" THEN (IF k \in {"mvec1", "mvec2"} THEN "mvec" ELSE "ivec") ELSE "vec"

\* k: node kind, d: children's values in mode m, s: children's values in mode "std"
DenNode(k, d, s, m) ==
  CASE k = "cons"  -> <<"cons", d[1], d[2]>>
    [] k = "list1" -> <<"cons", d[1], NilD>>
    [] k = "list2" -> <<"cons", d[1], <<"cons", d[2], NilD>>>>
    [] k \in {"ivec1", "mvec1"} -> <<VecTag(k, m), <<d[1]>>>>
    [] k \in {"ivec2", "mvec2"} -> <<VecTag(k, m), <<d[1], d[2]>>>>
    [] k = "box"   -> <<"box", d[1]>>
    [] k = "hash1" -> <<"map", {<<d[1], d[2]>>}>>
    \* insertion into the finite function d[1]: an entry with an equal key is replaced
    [] k = "hins"  -> <<"map", {e \in d[1][2] : e[1] # d[2]} \cup {<<d[2], d[3]>>}>>
    [] k = "hset1" -> IF m = "setsize" THEN <<"set#", 1>> ELSE <<"set", {d[1]}>>
    [] k = "hset2" -> IF m = "setsize" THEN <<"set#", Cardinality({s[1], s[2]})>> ELSE <<"set", {d[1], d[2]}>>
    [] k = "sP"    -> <<"struct", "P", <<d[1], d[2]>>>>
    [] k = "sQ"    -> <<"struct", "Q", <<d[1], d[2]>>>>

RECURSIVE DenM(_, _)
DenM(t, m) == IF t.k = "leaf" THEN LeafD(t.id, m)
              ELSE DenNode(t.k, Force([p \in 1..Len(t.c) |-> DenM(t.c[p], m)]),
                                Force([p \in 1..Len(t.c) |-> DenM(t.c[p], "std")]), m)
Den(t) == DenM(t, "std")
StructEq(x, y) == Den(x) = Den(y)

-----------------------------------------------------------------------------
(* Everything the case printer needs to know about a term, computed in one    *)
(* bottom-up pass: the four readings and the features that are preconditions  *)
(* of known findings.                                                         *)
(*   d, ds, dz, dm   value in mode std / setsize / zero / mut                 *)
(*   nan             a NaN leaf occurs                                        *)
(*   exo             a leaf of a class without comparison arm occurs          *)
(*   big             a hash map / set with >= 2 entries occurs                *)
(*   bigkey          ... inside a key / member of a hash map / set            *)
(*   msplit          a hash map / set has two keys that are equal as values   *)
(*                   but differ in vector mutability (Steel keeps both)       *)
KeyPos(k) == CASE k = "hash1" -> {1} [] k = "hins" -> {2} [] k \in {"hset1", "hset2"} -> {1, 2} [] OTHER -> {}
IsColl(k) == k \in {"hash1", "hins", "hset1", "hset2"}
Col(ci, f) == Force([p \in 1..Len(ci) |-> ci[p][f]])

LeafInfo(i) == [leaf |-> TRUE, d |-> LeafD(i, "std"), ds |-> LeafD(i, "std"), dz |-> LeafD(i, "zero"),
                dm |-> LeafD(i, "std"), nan |-> LeafCls(i) = "nan", exo |-> LeafCls(i) \in ExoticCls,
                big |-> FALSE, bigkey |-> FALSE, msplit |-> FALSE]
NodeInfo3(k, ci, d, dm) ==
  [leaf |-> FALSE, d |-> d, dm |-> dm,
   ds |-> DenNode(k, Col(ci, "ds"), Col(ci, "d"), "setsize"),
   dz |-> DenNode(k, Col(ci, "dz"), Col(ci, "d"), "zero"),
   nan |-> \E p \in 1..Len(ci) : ci[p].nan,
   exo |-> \E p \in 1..Len(ci) : ci[p].exo,
   big |-> (IsColl(k) /\ Cardinality(d[2]) >= 2) \/ \E p \in 1..Len(ci) : ci[p].big,
   bigkey |-> (\E p \in KeyPos(k) \cap 1..Len(ci) : ci[p].big) \/ \E p \in 1..Len(ci) : ci[p].bigkey,
   msplit |-> (IsColl(k) /\ Cardinality(d[2]) # Cardinality(dm[2])) \/ \E p \in 1..Len(ci) : ci[p].msplit]
NodeInfo2(k, ci) == NodeInfo3(k, ci, DenNode(k, Col(ci, "d"), Col(ci, "d"), "std"),
                                     DenNode(k, Col(ci, "dm"), Col(ci, "d"), "mut"))
RECURSIVE TInfo(_)
TInfo(t) == IF t.k = "leaf" THEN LeafInfo(t.id)
            ELSE NodeInfo2(t.k, Force([p \in 1..Len(t.c) |-> TInfo(t.c[p])]))

\* node identities met when node i is traversed completely (with repetition)
RECURSIVE OccSeq(_, _)
SlotOcc(h, s) == IF s.r = 0 THEN << >> ELSE OccSeq(h, s.r)
OccSeq2(h, i, c) == <<i>> \o SlotOcc(h, c[1]) \o (IF Len(c) >= 2 THEN SlotOcc(h, c[2]) ELSE << >>)
                          \o (IF Len(c) >= 3 THEN SlotOcc(h, c[3]) ELSE << >>)
OccSeq(h, i) == IF h[i].k = "lf" THEN << >> ELSE OccSeq2(h, i, h[i].c)
DupIds(s) == {s[a] : a \in {a \in 1..Len(s) : \E b \in 1..Len(s) : a # b /\ s[a] = s[b]}}
\* "V": an immutable vector is met twice (Steel then answers "different");
\* "S": a node of another kind is met twice (Steel then skips the second comparison)
ShareFeat2(h, d) ==
     (IF \E i \in d : h[i].k \notin {"ivec1", "ivec2"} THEN "S" ELSE "")
  \o (IF \E i \in d : h[i].k \in {"ivec1", "ivec2"} THEN "V" ELSE "")
ShareFeat(h, s) == ShareFeat2(h, DupIds(s))

-----------------------------------------------------------------------------
(* Rendering *)
RSlot(s) == IF s.r = 0 THEN LeafSrc(s.l) ELSE "n" \o ToString(s.r)
RNode(nd) == IF nd.k = "lf" THEN LeafSrc(nd.c[1].l)
             ELSE "(" \o Ctor(nd.k) \o " " \o RSlot(nd.c[1])
                  \o (IF Len(nd.c) >= 2 THEN " " \o RSlot(nd.c[2]) ELSE "")
                  \o (IF Len(nd.c) >= 3 THEN " " \o RSlot(nd.c[3]) ELSE "") \o ")"
RECURSIVE RTerm(_)
RTerm(t) == IF t.k = "leaf" THEN LeafSrc(t.id)
            ELSE "(" \o Ctor(t.k) \o " " \o RTerm(t.c[1])
                 \o (IF Len(t.c) >= 2 THEN " " \o RTerm(t.c[2]) ELSE "")
                 \o (IF Len(t.c) >= 3 THEN " " \o RTerm(t.c[3]) ELSE "") \o ")"
RECURSIVE RLets(_, _)
RLets(h, i) == IF i > Len(h) THEN ""
               ELSE "(n" \o ToString(i) \o " " \o RNode(h[i]) \o ") " \o RLets(h, i + 1)

UsesStruct(h) == \E i \in 1..Len(h) : h[i].k \in {"sP", "sQ"}
Prelude(h) == IF UsesStruct(h)
              THEN "(struct P@@ (a b) #:transparent) (struct Q@@ (a b) #:transparent)" ELSE ""

-----------------------------------------------------------------------------
(* The probe battery: Scheme templates over $x, $y with the expectation when *)
(* StructEq holds / does not hold.  grp "eq": every pair; grp "hash": pairs  *)
(* flagged for hashing.  $b is a 12-entry base map bound once per case.      *)
Probes == <<
  [name |-> "equal",    grp |-> "eq",   tpl |-> "(equal? $x $y)",                              eq |-> "#true",  ne |-> "#false"],
  [name |-> "equal-r",  grp |-> "eq",   tpl |-> "(equal? $y $x)",                              eq |-> "#true",  ne |-> "#false"],
  [name |-> "tryget",   grp |-> "hash", tpl |-> "(hash-try-get (hash $x 1) $y)",               eq |-> "1",      ne |-> "#false"],
  [name |-> "contains", grp |-> "hash", tpl |-> "(hash-contains? (hash-insert $b $x 1) $y)",   eq |-> "#true",  ne |-> "#false"],
  [name |-> "set",      grp |-> "hash", tpl |-> "(hashset-contains? (hashset $x) $y)",         eq |-> "#true",  ne |-> "#false"],
  [name |-> "dupkey",   grp |-> "hash", tpl |-> "(hash-length (hash $x 1 $y 2))",              eq |-> "1",      ne |-> "2"],
  [name |-> "dupkey-v", grp |-> "hash", tpl |-> "(with-handler (lambda (e) 'miss) (hash-ref (hash $x 1 $y 2) $x))", eq |-> "2", ne |-> "1"],
  [name |-> "dupset",   grp |-> "hash", tpl |-> "(hashset-length (hashset-insert (hashset $x) $y))", eq |-> "1", ne |-> "2"],
  \* hashing alone (eq: the codes must agree; ne: collisions are allowed, nothing is asserted)
  [name |-> "hashcode", grp |-> "hash", tpl |-> "(= (hash-code $x) (hash-code $y))",           eq |-> "#true",  ne |-> "*"],
  [name |-> "eqv",      grp |-> "eqv",  tpl |-> "(eqv? $x $y)",                                eq |-> "#true",  ne |-> "#false"],
  [name |-> "eq",       grp |-> "eqp",  tpl |-> "(eq? $x $y)",                                 eq |-> "#true",  ne |-> "#false"] >>
BaseMap == "(hash 'k0 0 'k1 0 'k2 0 'k3 0 'k4 0 'k5 0 'k6 0 'k7 0 'k8 0 'k9 0 'k10 0 'k11 0)"

-----------------------------------------------------------------------------
(* eqv? / eq? where R7RS determines them.  "t" / "f" / "-" (not determined)  *)
\* ti, tj: the terms of heap nodes i, j (two variables of the same scope)
EqvExp(i, j, ti, tj) ==
  IF i = j THEN (IF ti.k = "leaf" /\ LeafCls(ti.id) = "nan" THEN "-" ELSE "t")   \* same object
  ELSE IF ti.k = "leaf" /\ tj.k = "leaf"
       THEN IF LeafCls(ti.id) = "nan" \/ LeafCls(tj.id) = "nan"
            THEN (IF LeafCls(ti.id) = LeafCls(tj.id) THEN "-" ELSE "f")
            ELSE IF LeafCls(ti.id) \in ValueCls /\ LeafCls(tj.id) \in ValueCls
                 THEN (IF LeafDen(ti.id) = LeafDen(tj.id) THEN "t" ELSE "f")
                 ELSE (IF LeafDen(ti.id) # LeafDen(tj.id) THEN "f" ELSE "-")
       ELSE "-"      \* freshly allocated aggregates: never asserted
EqExp2(i, j, ti, v) ==
  IF v = "f" THEN "f"
  ELSE IF v = "-" THEN "-"
  ELSE IF ti.k # "leaf" THEN "t"                                   \* same aggregate object
  ELSE IF LeafCls(ti.id) \in NumberCls \cup {"chr"} THEN "-"       \* R7RS: eq? on numbers/chars unspecified
  ELSE IF i = j THEN "t"
  ELSE IF LeafCls(ti.id) \in {"sym", "bool", "nil", "proc", "void"} THEN "t" ELSE "-"
EqExp(i, j, ti, tj) == EqExp2(i, j, ti, EqvExp(i, j, ti, tj))

-----------------------------------------------------------------------------
(* Handles and pairs of one case *)
\* feature letters: S / V a node is met twice during the traversal (see ShareFeat), H equal when
\* sets are sizes, Z equal when -0.0 = 0.0, M equal but for vector mutability, N a map/set inside
\* has two keys that differ only in vector mutability, A a NaN leaf, X a leaf without comparison
\* arm nested in an aggregate, B a map/set with >= 2 entries inside, K such a map/set inside a key,
\* I the object is of a kind without identity arm (eqv/eq on the same variable),
\* Q eqv? on heap-allocated exact numbers
FeatT(x, y) ==          \* x, y: TInfo records
     (IF x.d # y.d /\ x.ds = y.ds THEN "H" ELSE "")
  \o (IF x.d # y.d /\ x.dz = y.dz THEN "Z" ELSE "")
  \o (IF x.d = y.d /\ x.dm # y.dm THEN "M" ELSE "")
  \o (IF x.msplit \/ y.msplit THEN "N" ELSE "")
  \o (IF x.nan \/ y.nan THEN "A" ELSE "")
  \o (IF (~x.leaf /\ x.exo) \/ (~y.leaf /\ y.exo) THEN "X" ELSE "")
  \o (IF x.big \/ y.big THEN "B" ELSE "")
  \o (IF x.bigkey \/ y.bigkey THEN "K" ELSE "")
HeapNumCls == {"bigint", "ratio", "bigratio", "complex"}
\* kinds of object for which Steel's eq?/eqv? has no identity arm (SteelVal::ptr_eq)
NoIdentCls == {"ratio", "bigratio", "complex"}
FeatId(x, y) ==         \* x, y: terms
     (IF x.k \in {"box", "sP", "sQ"} \/ (x.k = "leaf" /\ LeafCls(x.id) \in NoIdentCls) THEN "I" ELSE "")
  \o (IF x.k = "leaf" /\ y.k = "leaf" /\ LeafCls(x.id) \in HeapNumCls /\ LeafCls(y.id) \in HeapNumCls THEN "Q" ELSE "")

B2S(b) == IF b THEN 1 ELSE 0

\* a pair is printed compactly as "x,y,same,hash,eqv,eq,features": x, y = handle indices
\* (1-based into `handles`), same = StructEq, hash = battery level: 2 whole hash battery,
\* 1 only "tryget", 0 none
PairStr(x, y, same, hashed, eqv, eqp, ft) ==
  ToString(x) \o "," \o ToString(y) \o "," \o ToString(same) \o "," \o ToString(hashed) \o ","
  \o eqv \o "," \o eqp \o "," \o ft

\* both handles are heap nodes i, j
NodePair(h, i, j, hashed, terms, infos, occs) ==
  PairStr(i, j, B2S(infos[i].d = infos[j].d), hashed,
          EqvExp(i, j, terms[i], terms[j]), EqExp(i, j, terms[i], terms[j]),
          (IF i # j THEN ShareFeat(h, occs[i] \o occs[j]) ELSE "")
            \o FeatT(infos[i], infos[j]) \o FeatId(terms[i], terms[j]))
\* x = node i of the heap, y = a separately built tree with info iy (handle index yi)
TreePair(h, i, iy, yi, hashed, infos, occs) ==
  PairStr(i, yi, B2S(infos[i].d = iy.d), hashed, "-", "-", ShareFeat(h, occs[i]) \o FeatT(infos[i], iy))

RECURSIVE Flatten(_)
Flatten(ss) == IF Len(ss) = 0 THEN << >> ELSE Head(ss) \o Flatten(Tail(ss))

\* mutants of a term: at most five leaf positions (first three, last two)
MutPos(n) == {p \in 1..n : p <= 3 \/ p >= n - 1}
MutantsOf2(i, t, ps) == Force([q \in 1..Len(ps) |-> [of |-> i, t |-> Mutate(t, ps[q])]])
MutantsOf(i, t) == IF MUTANTS /\ t.k # "leaf" THEN MutantsOf2(i, t, SetToSortSeq(MutPos(LeafCount(t)), <)) ELSE << >>
AllMutants(rs, terms) == Flatten(Force([a \in 1..Len(rs) |-> MutantsOf(rs[a], terms[rs[a]])]))

\* rs = the heap nodes that are values under test (sorted)
CaseOf5(h, rs, terms, infos, occs, muts, minfos) ==
  [fam |-> FAM, pre |-> Prelude(h), lets |-> RLets(h, 1),
   \* handles: 1..n nodes, n+1..2n unshared copies, 2n+1.. mutants of the copies
   handles |-> [i \in 1..Len(h) |-> "n" \o ToString(i)]
               \o [i \in 1..Len(h) |-> RTerm(terms[i])]
               \o [q \in 1..Len(muts) |-> RTerm(muts[q].t)],
   pairs |->
      Flatten([a \in 1..Len(rs) |-> [b \in 1..Len(rs) |->
                 NodePair(h, rs[a], rs[b], IF a = b THEN 0 ELSE 1, terms, infos, occs)]])
      \o Flatten([a \in 1..Len(rs) |-> [b \in 1..Len(rs) |->
                 TreePair(h, rs[a], infos[rs[b]], Len(h) + rs[b], 2, infos, occs)]])
      \* a node against its own mutants
      \o [q \in 1..Len(muts) |-> TreePair(h, muts[q].of, minfos[q], 2 * Len(h) + q, 1, infos, occs)]]
CaseOf4(h, rs, terms, infos, occs, muts) ==
  CaseOf5(h, rs, terms, infos, occs, muts, Force([q \in 1..Len(muts) |-> TInfo(muts[q].t)]))
CaseOf3(h, rs, terms) ==
  CaseOf4(h, rs, terms, Force([i \in 1..Len(h) |-> TInfo(terms[i])]),
          Force([i \in 1..Len(h) |-> OccSeq(h, i)]), AllMutants(rs, terms))
CaseOf(h, roots) == CaseOf3(h, SetToSortSeq(roots, <), Force([i \in 1..Len(h) |-> Term(h, i)]))
-----------------------------------------------------------------------------
(* Leaf family: heaps  <<x, y>>  or  <<x, y, W(x), W(y)>>  *)
Wrap(k, j) == CASE k = "cons"  -> [k |-> k, c |-> <<RefSlot(j), LeafSlot("i1")>>]
                [] k = "list2" -> [k |-> k, c |-> <<LeafSlot("i1"), RefSlot(j)>>]
                [] k = "ivec2" -> [k |-> k, c |-> <<RefSlot(j), LeafSlot("i1")>>]
                [] k = "mvec2" -> [k |-> k, c |-> <<LeafSlot("i1"), RefSlot(j)>>]
                [] k = "hash1" -> [k |-> k, c |-> <<RefSlot(j), LeafSlot("i1")>>]     \* as key
                [] k = "hins"  -> [k |-> "hash1", c |-> <<LeafSlot("i1"), RefSlot(j)>>] \* as value
                [] k = "hset2" -> [k |-> k, c |-> <<RefSlot(j), LeafSlot("i1")>>]
                [] k = "sP"    -> [k |-> k, c |-> <<RefSlot(j), LeafSlot("i1")>>]
                [] k = "sQ"    -> [k |-> "sP", c |-> <<LeafSlot("i1"), RefSlot(j)>>]
                [] OTHER       -> [k |-> k, c |-> <<RefSlot(j)>>]       \* list1 ivec1 mvec1 box hset1
LeafHeap(x, y, w) ==
  LET base == << [k |-> "lf", c |-> <<LeafSlot(x)>>], [k |-> "lf", c |-> <<LeafSlot(y)>>] >> IN
  IF w = "none" THEN base ELSE base \o << Wrap(w, 1), Wrap(w, 2) >>
\* bare: all ordered pairs of leaves; wrapped: pairs of the same kind of thing (all numbers count
\* as one kind, so 1 vs 1.0 and 1/2 vs 0.5-like confusions are inside every wrapper)
Super(c) == IF c \in NumberCls THEN "number" ELSE c
LeafHeaps ==
  (IF "none" \in KINDS THEN {LeafHeap(x, y, "none") : x \in LEAFS, y \in LEAFS} ELSE {})
  \cup {LeafHeap(p[1], p[2], w) :
          p \in {q \in LEAFS \X LEAFS : Super(LeafCls(q[1])) = Super(LeafCls(q[2]))}, w \in KINDS \ {"none"}}
Roots(h) == IF FAM = "leaf" THEN (IF Len(h) = 2 THEN {1, 2} ELSE {3, 4}) ELSE 1..Len(h)

-----------------------------------------------------------------------------
(* The state machine *)
Init == /\ PrintT(<<"PROBES", ToJson([probes |-> Probes, base |-> BaseMap])>>)
        /\ fam \in FAMSEL
        /\ IF fam = "leaf" THEN g \in LeafHeaps /\ phase = "done"
           ELSE g = << >> /\ phase = "build"

AddNode == /\ phase = "build" /\ Len(g) < N
           /\ \E nd \in (IF SPARSE THEN Kept(g, NodeChoices(g)) ELSE NodeChoices(g)) : g' = Append(g, nd)
           /\ phase' = IF Len(g) + 1 = N THEN "done" ELSE "build"
           /\ UNCHANGED fam
Next == AddNode
Spec == Init /\ [][Next]_vars

-----------------------------------------------------------------------------
(* Properties of the model itself *)
TypeOK == /\ phase \in {"build", "done"}
          /\ \A i \in 1..Len(g) : \A p \in 1..Len(g[i].c) : g[i].c[p].r < i      \* a DAG
\* the oracle is an equivalence and does not see sharing: checked on every finished heap
OracleOK == phase = "done" =>
              \A i \in 1..Len(g) :
                 /\ StructEq(Term(g, i), Term(g, i))
                 /\ \A j \in 1..Len(g) : StructEq(Term(g, i), Term(g, j)) = StructEq(Term(g, j), Term(g, i))
Emit == (phase = "done") => PrintT(<<"REPLAY", ToJson(CaseOf(g, Roots(g)))>>)
=============================================================================
