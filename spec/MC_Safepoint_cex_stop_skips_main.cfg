SPECIFICATION Spec
CONSTANTS
  Thread = {"m", "a", "b"}
  BMain = 3
  BOther = 2
  Kinds = {"plain", "prim", "alloc", "setg", "spawn", "join"}
  Defects = {"stop_skips_main"}
  WithIrq = TRUE
INVARIANTS C15 C17
CHECK_DEADLOCK TRUE
