\* one action after the base: every holder kind of the base x every holder kind of the result x every
\* operation x every via (exhaustive when KEEP1 = 1000; the check thins it by seed in the quick tier)
SPECIFICATION Spec
CONSTANTS
  FAMS = {"alias"}
  TYPES = {"hash", "hset", "ivec", "list", "str"}
  DEPTH = 1
  KINDS0 = {"G", "P", "L", "M", "B", "C", "EL", "EP", "EV", "EI", "EH", "EK", "ES", "EM", "S", "PR", "RA", "K", "WL", "WM", "WE"}
  KINDS1 = {"G", "L", "M", "B", "C", "EL", "EP", "EV", "EI", "EH", "EK", "ES", "EM", "S", "PR", "RA", "K", "WL", "WM", "WE"}
  KINDSR = {}
  KEEP1 = 1000
  KEEP2 = 1000
  KEEPR = 1000
  SEED = 1
  VIAS = {"d", "f", "g", "a", "m", "k"}
  ACTS = {"share", "upd", "upd2"}
  MAXBASE = 1
  MAXLEN = 6
  BASESET = "small"
  LOOPN = {}
  LOOPEVERY = {}
  LOOPSTYLES = {}
  SWEEPSHAPES = {}
INVARIANTS TypeOK FunctionOK Emit
PROPERTIES Immutable
CHECK_DEADLOCK FALSE
