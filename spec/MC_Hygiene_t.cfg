SPECIFICATION HSpec
CONSTANTS
  BUDGET = 0
  FUEL = 3000
  MAXINT = 100000
  CTXS = {"none", "let"}
  PLACES = {"later"}
  VALS = {"fn"}
  NEST = FALSE
  PAIRS = FALSE
  PATLEN = 0
  INLEN = 0
  ELEMKINDS = {"v"}
  INKINDS = {"1"}
INVARIANTS InDomain SynErrSilent GlobalsSuffixed HEmit
CHECK_DEADLOCK FALSE
