--------------------------------- MODULE Vm ---------------------------------
(***************************************************************************)
(* The frame / operand-stack / control discipline of Steel's bytecode VM   *)
(* (crates/steel-core/src/steel_vm/vm.rs, `VmCore::vm` and the functions   *)
(* it dispatches to), one action per kind of control transfer, written to  *)
(* be BOUND: Trace_Vm.tla replays event traces recorded at the head of the *)
(* real dispatch loop through these same actions (C08, C09, C07, C01).     *)
(*                                                                         *)
(* STATE (what the code holds, projected):                                 *)
(*   stk    operand stack `thread.stack`; only its LENGTH is observable in *)
(*          a trace, the elements are ghost value identities that let TLC  *)
(*          check which values survive a control transfer                  *)
(*   fr     `thread.stack_frames`: <<[sp, rip, rcode, hnd, mk]>>           *)
(*            sp    index of the frame's first local in stk                *)
(*            rip / rcode   return address (instruction index, code id)    *)
(*            hnd   an exception handler is attached to the frame          *)
(*            mk    continuation mark attached by call/cc (0 = none)       *)
(*   ip, code   instruction pointer and current instruction sequence       *)
(*   pc     `pop_count`: frames the current interpreter instalment may pop *)
(*          before `vm()` returns to its Rust caller                       *)
(*   inst   suspended outer instalments (a builtin re-entered the VM       *)
(*          through call_with_instructions_and_reset_state): <<[ip, code,  *)
(*          pc]>>; Len(inst) is the code's `depth`                         *)
(*   marks  continuation marks: what call/cc captured                      *)
(*   phase  "run" | "exited" (vm() returned, Rust caller in control) |     *)
(*          "raised" (vm() returned an error, unwinder in control) |       *)
(*          "failed" (no handler: the error goes to the Rust caller)       *)
(*                                                                         *)
(* The register `sp` of the code is not a variable: it is Top (the sp of   *)
(* the innermost frame, 0 without frames) whenever an instruction is       *)
(* dispatched - invariant SpIsTop of the trace specification.              *)
(*                                                                         *)
(* ACTIONS take their free choices as parameters.  The generative          *)
(* specification (Next) draws them from small sets - every bytecode        *)
(* program over the modelled instruction classes, any callee behaviour -   *)
(* and TLC checks the invariants below in every reachable state.  The      *)
(* trace specification binds the parameters to the fields logged by the    *)
(* next event and demands that the successor state equals that event.      *)
(*                                                                         *)
(* PROPERTIES                                                              *)
(*   FramesOk        frame bases are ordered and inside the stack; pc      *)
(*                   counts the frames of the instalment                   *)
(*   CallerIntact    (C08) a frame's caller operands - stk below its sp -  *)
(*                   are exactly what they were when the frame was pushed, *)
(*                   whatever the callee did, until the frame is left by   *)
(*                   return, unwinding or a continuation                   *)
(*   ContRestores    (C08) re-instating a continuation yields the frames,  *)
(*                   operands, return address and pop count captured       *)
(*   TailNoGrowth    (C09) a tail call leaves the number of frames         *)
(*                   unchanged and the stack at frame base + arity         *)
(*   UnwindToHandler (C08/C07) an error leaves the stack at the handler    *)
(*                   frame's base plus the error value; without a handler  *)
(*                   the instalment ends with an error                     *)
(***************************************************************************)
EXTENDS Integers, Sequences, FiniteSets, TLC

CONSTANTS MaxStack,    \* generative mode: bound on Len(stk)
          MaxFrames,   \* generative mode: bound on Len(fr)   (the code: STACK_LIMIT)
          MaxDepth,    \* generative mode: bound on nested instalments
          NCodes,      \* generative mode: code identities 1..NCodes
          MaxIp,       \* generative mode: instruction addresses 0..MaxIp
          MaxArgs,     \* generative mode: operands of a call
          NMarks,      \* generative mode: continuation marks 1..NMarks
          MaxFresh,    \* generative mode: bound on the ghost identities handed out (state constraint)
          Ghost,       \* TRUE: stack elements are distinct identities (model checking)
                       \* FALSE: all 0 (trace validation: only lengths are observable)
          Defects      \* named deviations of the code from the design that are switched on:
                       \*   "nested_unwind_pops_outer"  the unwinder of a nested instalment pops one frame of its
                       \*        CALLER before it notices that its own frames are used up, and returns without
                       \*        restoring the caller's registers (the pinned commit; repaired by a fix: commit)

VARIABLES stk, fr, ip, code, pc, inst, marks, phase, fresh, saved, last,
          iid      \* the running instalment (ghost): <<its identity, next unused identity, Len(fr) when it was entered>>
vars == <<stk, fr, ip, code, pc, inst, marks, phase, fresh, saved, last, iid>>

NoMark == [st |-> "none"]
\* marks is a function on the mark identities seen so far (the trace specification extends its domain)
MarkOf(m) == IF m \in DOMAIN marks THEN marks[m] ELSE NoMark
SetMark(m, r) == [x \in (DOMAIN marks) \cup {m} |-> IF x = m THEN r ELSE marks[x]]
Top  == IF fr = << >> THEN 0 ELSE fr[Len(fr)].sp
SLen == Len(stk)
Prefix(s, n) == SubSeq(s, 1, n)
Front(s) == SubSeq(s, 1, Len(s) - 1)
\* k new values
RECURSIVE News(_, _)
News(k, f) == IF k = 0 THEN << >> ELSE <<(IF Ghost THEN f ELSE 0)>> \o News(k - 1, f + 1)
Min2(a, b) == IF a < b THEN a ELSE b
\* ghost copy of a caller's operands (model checking only; a trace shows lengths, not values)
Keep(s) == IF Ghost THEN s ELSE << >>
Frame(sp, rip, rcode, hnd, mk) == [sp |-> sp, rip |-> rip, rcode |-> rcode, hnd |-> hnd, mk |-> mk]

-----------------------------------------------------------------------------
(* Instruction classes.  Effect of an instruction that stays inside the     *)
(* current frame and code: operands popped / pushed and the next address.   *)
(* `pl` is the instruction's payload, `n1p` the payload of the following    *)
(* pseudo instruction (arity of a global call).                             *)

Push1   == {"PUSHCONST", "PUSH", "READCAPTURED", "TRUE", "FALSE", "LOADINT0", "LOADINT1", "LOADINT2", "VOID"}
\* reads of a local: the slot must lie inside the current frame
ReadLoc == {"READLOCAL", "READLOCAL0", "READLOCAL1", "READLOCAL2", "READLOCAL3",
            "MOVEREADLOCAL", "MOVEREADLOCAL0", "MOVEREADLOCAL1", "MOVEREADLOCAL2", "MOVEREADLOCAL3"}
\* fused "read local, constant, primitive": push 1, skip the fused instruction
Reg2    == {"SUBREGISTER1", "ADDREGISTER", "SUBREGISTER", "LTEREGISTER", "ADDIMMEDIATE", "SUBIMMEDIATE", "LTEIMMEDIATE"}
\* primitive op codes; the next slot holds a pseudo instruction, so ip advances by 2
Unary2  == {"CAR", "CDR", "UNBOX", "NEWBOX", "NOT", "NULL"}
Binary2 == {"CONS", "SETBOX", "LISTREF", "VECTORREF", "EQUAL2", "BINOPADD", "BINOPSUB"}
Nary2   == {"ADD", "SUB", "MUL", "DIV", "EQUAL", "NUMEQUAL", "LTE", "LT", "GT", "GTE", "LIST"}
Nop1    == {"BEGINSCOPE", "LetVar", "PASS", "Arity", "SDEF", "EDEF"}
CallOps     == {"CALLGLOBAL", "CALLPRIMITIVE", "CALLGLOBALNOARITY", "FUNC", "FUNCNOARITY", "UNBOXCALL",
                "READLOCAL0CALLGLOBAL", "READLOCAL1CALLGLOBAL"}
TailCallOps == {"CALLGLOBALTAIL", "CALLPRIMITIVETAIL", "CALLGLOBALTAILNOARITY", "TAILCALL", "TAILCALLNOARITY", "UNBOXTAIL"}
SelfTailOps == {"TCOJMP", "SELFTAILCALLNOARITY"}
ReturnOps   == {"POPPURE", "POPJMP"}
\* op codes of call instructions that take the callee from a global slot (arity in the next slot)
GlobalCall  == {"CALLGLOBAL", "CALLPRIMITIVE", "CALLGLOBALNOARITY", "CALLGLOBALTAIL", "CALLPRIMITIVETAIL",
                "CALLGLOBALTAILNOARITY", "READLOCAL0CALLGLOBAL", "READLOCAL1CALLGLOBAL"}
\* the callee is popped from the operand stack
StackCallee == {"FUNC", "FUNCNOARITY", "TAILCALL", "TAILCALLNOARITY", "UNBOXCALL", "UNBOXTAIL"}
FusedRead   == {"READLOCAL0CALLGLOBAL", "READLOCAL1CALLGLOBAL"}

\* number of arguments of a call instruction
NArgs(op, pl, n1p, n2p) == IF op \in FusedRead THEN n2p ELSE IF op \in GlobalCall THEN n1p ELSE pl
\* operands a call instruction removes besides the arguments (the callee value) / adds before the call (fused read)
CalleePops(op) == IF op \in StackCallee THEN 1 ELSE 0
FusedPush(op)  == IF op \in FusedRead THEN 1 ELSE 0
\* return address stored in the frame of a closure call
\* (a callee taken from the operand stack has no pseudo instruction behind the call: i + 1; UNBOXCALL /
\* UNBOXTAIL advance by 2 before they call)
RetIp(op, i) == CASE op \in {"FUNC", "FUNCNOARITY", "TAILCALL", "TAILCALLNOARITY"} -> i + 1
                  [] op \in FusedRead \cup {"UNBOXCALL", "UNBOXTAIL"} -> i + 3
                  [] OTHER -> i + 2
\* address after a call that completed without a frame (primitive / builtin callee)
AfterCallIp(op, i) == RetIp(op, i)

\* local effect: [pop, push, nips] (nips = set of possible next addresses); "none" if the class is not local
LocalEffect(op, pl, n1p, n2p, i, top, sl) ==
  CASE op \in Push1   -> [pop |-> 0, push |-> 1, nips |-> {i + 1}, ok |-> TRUE]
    [] op \in ReadLoc -> [pop |-> 0, push |-> 1, nips |-> {i + 1}, ok |-> pl < sl - top]
    [] op \in Reg2    -> [pop |-> 0, push |-> 1, nips |-> {i + 2}, ok |-> TRUE]
    [] op \in Unary2  -> [pop |-> 1, push |-> 1, nips |-> {i + 2}, ok |-> TRUE]
    [] op \in Binary2 -> [pop |-> 2, push |-> 1, nips |-> {i + 2}, ok |-> TRUE]
    [] op \in Nary2   -> [pop |-> pl, push |-> 1, nips |-> {i + 2}, ok |-> TRUE]
    [] op \in Nop1    -> [pop |-> 0, push |-> 0, nips |-> {i + 1}, ok |-> TRUE]
    [] op = "VEC"     -> [pop |-> pl \div 2, push |-> 1, nips |-> {i + 1}, ok |-> TRUE]
    [] op = "IF"      -> [pop |-> 1, push |-> 0, nips |-> {i + 1, pl}, ok |-> TRUE]
    [] op = "JMP"     -> [pop |-> 0, push |-> 0, nips |-> {pl}, ok |-> TRUE]
    [] op = "LTEIMMEDIATEIF" -> [pop |-> 0, push |-> 0, nips |-> {i + 3, n2p}, ok |-> TRUE]
    [] op = "SET"     -> [pop |-> 1, push |-> 1, nips |-> {i + 1}, ok |-> TRUE]      \* set! yields the old value
    [] op = "BIND"    -> [pop |-> 1, push |-> 0, nips |-> {i + 1}, ok |-> TRUE]
    [] op = "POPSINGLE" -> [pop |-> 1, push |-> 0, nips |-> {i + 1}, ok |-> TRUE]
    [] op = "POPN"    -> [pop |-> pl + 1, push |-> 1, nips |-> {i + 1}, ok |-> TRUE]
    \* closure creation jumps over the body that follows
    [] op \in {"NEWSCLOSURE", "PUREFUNC"} -> [pop |-> 0, push |-> 1, nips |-> {i + pl + 1}, ok |-> TRUE]
    \* end of a let scope: the locals from slot `pl` of the frame upwards are dropped, the result stays
    [] op = "LETENDSCOPE" -> [pop |-> sl - (top + pl), push |-> 1, nips |-> {i + 1}, ok |-> sl - 1 >= top + pl]
    [] OTHER -> [pop |-> 0, push |-> 0, nips |-> {}, ok |-> FALSE]
IsLocal(op) == op \in Push1 \cup ReadLoc \cup Reg2 \cup Unary2 \cup Binary2 \cup Nary2 \cup Nop1
                      \cup {"VEC", "IF", "JMP", "LTEIMMEDIATEIF", "SET", "BIND", "POPSINGLE", "POPN",
                            "NEWSCLOSURE", "PUREFUNC", "LETENDSCOPE"}

-----------------------------------------------------------------------------
(* Actions *)

\* an instruction that stays in its frame: pops only operands of the current frame
Local(pop, push, nip) ==
  /\ phase = "run"
  /\ SLen - pop >= Top
  /\ stk' = Prefix(stk, SLen - pop) \o News(push, fresh) /\ fresh' = fresh + push
  /\ ip' = nip /\ last' = "Local"
  /\ UNCHANGED <<fr, code, pc, inst, marks, phase, saved, iid>>

\* call of a closure: `extra` operands are removed first (the callee value), n arguments become the
\* new frame's locals; a variadic callee gets its rest arguments collected into one list, so the
\* stack ends at nsl with  base <= nsl <= base + n + 1
CallClosure(extra, n, nsl, rip, ncode) ==
  LET base == SLen - extra - n IN
  /\ phase = "run"
  /\ base >= Top /\ (nsl = base + n \/ (nsl >= base + 1 /\ nsl <= base + n + 1))
  /\ stk' = IF nsl = base + n THEN Prefix(stk, base + n)
            ELSE Prefix(stk, Min2(nsl - 1, base + n)) \o News(1, fresh)
  /\ fresh' = fresh + 1
  /\ fr' = Append(fr, Frame(base, rip, code, FALSE, 0))
  /\ saved' = Append(saved, Keep(Prefix(stk, base)))
  /\ ip' = 0 /\ code' = ncode /\ pc' = pc + 1 /\ last' = "CallClosure"
  /\ UNCHANGED <<inst, marks, phase, iid>>

\* tail call of a closure: the current frame is reused, its locals are replaced by the arguments
TailCallClosure(extra, n, nsl, ncode) ==
  LET base == SLen - extra - n
      ar   == nsl - Top IN
  /\ phase = "run" /\ fr # << >>
  /\ base >= Top /\ (ar = n \/ (ar >= 1 /\ ar <= n + 1))
  /\ stk' = Prefix(stk, Top) \o (IF ar = n THEN SubSeq(stk, base + 1, base + n)
                                  ELSE SubSeq(stk, base + 1, base + Min2(ar - 1, n)) \o News(1, fresh))
  /\ fresh' = fresh + 1
  /\ ip' = 0 /\ code' = ncode /\ last' = "TailCall"
  /\ UNCHANGED <<fr, pc, inst, marks, phase, saved, iid>>

\* return: the innermost frame is popped, one result replaces its locals
Return ==
  /\ phase = "run" /\ fr # << >> /\ pc > 1
  /\ SLen >= Top + 1
  /\ LET f == fr[Len(fr)] IN
       /\ stk' = Prefix(stk, f.sp) \o <<stk[SLen]>>
       /\ ip' = f.rip /\ code' = f.rcode
  /\ fr' = Front(fr) /\ saved' = Front(saved) /\ pc' = pc - 1 /\ last' = "Return"
  /\ UNCHANGED <<inst, marks, phase, fresh, iid>>

\* a primitive called in tail position: its result is returned at once (handle_pop_pure_value)
ReturnValue(extra, n) ==
  /\ phase = "run" /\ fr # << >> /\ pc > 1
  /\ SLen - extra - n >= Top
  /\ LET f == fr[Len(fr)] IN
       /\ stk' = Prefix(stk, f.sp) \o News(1, fresh)
       /\ ip' = f.rip /\ code' = f.rcode
  /\ fresh' = fresh + 1
  /\ fr' = Front(fr) /\ saved' = Front(saved) /\ pc' = pc - 1 /\ last' = "Return"
  /\ UNCHANGED <<inst, marks, phase, iid>>

\* return with pc = 1: vm() hands the result to its Rust caller; the frame (if any) is dropped and the
\* stack is cut at its base
Finish ==
  /\ phase = "run" /\ pc = 1
  /\ stk' = Prefix(stk, Top)
  /\ fr' = IF fr = << >> THEN fr ELSE Front(fr)
  /\ saved' = IF fr = << >> THEN saved ELSE Front(saved)
  /\ pc' = 0 /\ phase' = "exited" /\ ip' = ip + 1 /\ last' = "Finish"
  /\ UNCHANGED <<code, inst, marks, fresh, iid>>

\* a builtin re-enters the interpreter for a closure (call_with_instructions_and_reset_state):
\* the caller's ip, code and pc are saved, a frame for the closure is pushed with its k arguments
EnterNested(k, ncode) ==
  /\ phase = "run"
  /\ inst' = Append(inst, [ip |-> ip, code |-> code, pc |-> pc, base |-> Len(fr), iid |-> iid[1], cbase |-> iid[3]])
  /\ iid' = <<iid[2], iid[2] + 1, Len(fr)>>
  /\ fr' = Append(fr, Frame(SLen, ip, code, FALSE, 0))
  /\ saved' = Append(saved, Keep(stk))
  /\ stk' = stk \o News(k, fresh) /\ fresh' = fresh + k
  /\ ip' = 0 /\ code' = ncode /\ pc' = 1 /\ last' = "EnterNested"
  /\ UNCHANGED <<marks, phase>>

\* ... and gets control back: the saved registers are restored.  `ph` is "run" when the caller is a
\* builtin of an instruction in flight, "exited" when the host had called in on an idle engine
LeaveTo(ph) ==
  /\ phase \in {"exited", "failed"} /\ inst # << >>
  /\ LET o == inst[Len(inst)] IN ip' = o.ip /\ code' = o.code /\ pc' = o.pc
  /\ inst' = Front(inst) /\ phase' = ph /\ last' = "Leave" /\ iid' = <<inst[Len(inst)].iid, iid[2], inst[Len(inst)].cbase>>
  /\ UNCHANGED <<stk, fr, marks, fresh, saved>>
Leave == LeaveTo("run")

\* call/cc: the continuation mark records the whole control state; the receiver runs in a new frame
\* that carries the mark (the frame's base is the stack top, the continuation is its one local)
Capture(m, rip, ncode) ==
  /\ phase = "run"
  /\ marks' = SetMark(m, [st |-> "open", fr |-> fr, stk |-> stk, sv |-> saved, ip |-> rip - 1, code |-> code,
                                    pc |-> pc, iid |-> iid[1]])
  /\ fr' = Append(fr, Frame(SLen, rip, code, FALSE, m))
  /\ saved' = Append(saved, Keep(stk))
  /\ stk' = stk \o News(1, fresh) /\ fresh' = fresh + 1
  /\ ip' = 0 /\ code' = ncode /\ pc' = pc + 1 /\ last' = "Capture"
  /\ UNCHANGED <<inst, phase, iid>>

\* a continuation is applied to one value: frames, operands, registers are those captured; the value
\* is the result of the call/cc expression
Invoke(m) ==
  /\ phase = "run" /\ MarkOf(m).st # "none"
  \* a continuation belongs to the interpreter instalment that captured it: the frames it restores are
  \* frames of that instalment's Rust activation.  Re-instating it from another instalment (out of or
  \* into a callback of a builtin) is the named deviation "invoke_across_instalments"
  /\ (marks[m].iid = iid[1] \/ "invoke_across_instalments" \in Defects)
  /\ fr' = marks[m].fr /\ saved' = marks[m].sv
  /\ stk' = marks[m].stk \o News(1, fresh) /\ fresh' = fresh + 1
  /\ ip' = marks[m].ip + 1 /\ code' = marks[m].code /\ pc' = marks[m].pc /\ last' = "Invoke"
  /\ UNCHANGED <<inst, marks, phase, iid>>

\* call-with-exception-handler: the thunk runs in a new frame that carries the handler
HandlerFrame(rip, ncode) ==
  /\ phase = "run"
  /\ fr' = Append(fr, Frame(SLen, rip, code, TRUE, 0))
  /\ saved' = Append(saved, Keep(stk))
  /\ ip' = 0 /\ code' = ncode /\ pc' = pc + 1 /\ last' = "HandlerFrame"
  /\ UNCHANGED <<stk, inst, marks, phase, fresh, iid>>

\* any instruction may fail, after it consumed k of its operands: vm() returns the error to the unwinder
\* of its instalment
Raise(k) ==
  /\ phase = "run" /\ SLen - k >= Top
  /\ stk' = Prefix(stk, SLen - k)
  /\ phase' = "raised" /\ last' = "Raise"
  /\ UNCHANGED <<fr, ip, code, pc, inst, marks, fresh, saved, iid>>

\* frames the unwinder may pop: pc counts the frames of the current instalment
Unwindable == Min2(pc, Len(fr))
\* the innermost of them that carries a handler (0 = none)
HandlerIdx == LET c == {h \in (Len(fr) - Unwindable + 1)..Len(fr) : fr[h].hnd}
              IN IF c = {} THEN 0 ELSE CHOOSE h \in c : \A g \in c : g <= h

\* the unwinder pops frames down to the innermost frame with a handler; that frame stays, now running
\* the handler procedure on the error value, at the frame's own base
Unwind(ncode) ==
  /\ phase = "raised" /\ HandlerIdx # 0
  /\ LET h == HandlerIdx IN
       /\ fr' = Prefix(fr, h - 1) \o <<[fr[h] EXCEPT !.hnd = FALSE, !.mk = 0]>>
       /\ saved' = Prefix(saved, h)
       /\ stk' = Prefix(stk, fr[h].sp) \o News(1, fresh)
       /\ pc' = pc - (Len(fr) - h)
  /\ fresh' = fresh + 1 /\ ip' = 0 /\ code' = ncode /\ phase' = "run" /\ last' = "Unwind"
  /\ UNCHANGED <<inst, marks, iid>>

\* no handler among them: the frames of the instalment are dropped and the error is handed to the Rust
\* caller (the engine clears the operand stack at depth 0; a nested instalment leaves it to its caller)
UnwindAllBody(s) ==
  /\ fr' = Prefix(fr, Len(fr) - Unwindable) /\ saved' = Prefix(saved, Len(fr) - Unwindable)
  /\ stk' = IF inst = << >> THEN << >> ELSE s
  /\ pc' = pc - Unwindable /\ phase' = "failed" /\ last' = "UnwindAll"
  /\ UNCHANGED <<ip, code, inst, marks, fresh, iid>>
UnwindAll ==
  /\ phase = "raised" /\ HandlerIdx = 0
  /\ ~("nested_unwind_pops_outer" \in Defects /\ inst # << >> /\ Len(fr) > Unwindable)
  /\ UnwindAllBody(stk)
\* an instruction fails and no frame of the instalment carries a handler (Raise, then UnwindAll, as one step)
RaiseUnhandled(k) ==
  /\ phase = "run" /\ HandlerIdx = 0 /\ SLen - k >= Top
  /\ ~("nested_unwind_pops_outer" \in Defects /\ inst # << >> /\ Len(fr) > Unwindable)
  /\ UnwindAllBody(Prefix(stk, SLen - k))

\* AS THE PINNED CODE DOES IT (named deviation): in a nested instalment the loop pops a frame first and
\* only then tests `pop_count == 0`; the frame it popped belongs to the caller of the builtin, and the
\* early return skips the restoration of ip / code / pc / depth - the error can no longer be caught by
\* a handler of the caller, whose frame count and registers are wrong from here on
UnwindAll_PopsOuter ==
  /\ "nested_unwind_pops_outer" \in Defects
  /\ phase = "raised" /\ HandlerIdx = 0 /\ inst # << >> /\ Len(fr) > Unwindable
  /\ fr' = Prefix(fr, Len(fr) - Unwindable - 1) /\ saved' = Prefix(saved, Len(fr) - Unwindable - 1)
  /\ pc' = 0 /\ inst' = Front(inst) /\ phase' = "raised" /\ last' = "UnwindAll_PopsOuter"
  /\ iid' = <<inst[Len(inst)].iid, iid[2], inst[Len(inst)].cbase>>
  /\ UNCHANGED <<stk, ip, code, marks, fresh>>

-----------------------------------------------------------------------------
(* Generative specification: every program, every callee *)

Code == 1..NCodes
Init == /\ stk = << >> /\ fr = << >> /\ ip = 0 /\ code = 1 /\ pc = 1 /\ inst = << >>
        /\ marks = [m \in 1..NMarks |-> NoMark] /\ phase = "run" /\ fresh = 1 /\ saved = << >> /\ last = "Init" /\ iid = <<0, 1, 0>>

Next ==
  \/ \E pop \in 0..2, push \in 0..1, nip \in 0..MaxIp : SLen - pop + push <= MaxStack /\ Local(pop, push, nip)
  \/ \E extra \in 0..1, n \in 0..MaxArgs, d \in -1..1, rip \in 1..MaxIp, c \in Code :
        /\ Len(fr) < MaxFrames
        /\ CallClosure(extra, n, SLen - extra + d, rip, c) /\ SLen - extra + d <= MaxStack
  \/ \E extra \in 0..1, n \in 0..MaxArgs, ar \in 0..(MaxArgs + 1), c \in Code :
        Top + ar <= MaxStack /\ TailCallClosure(extra, n, Top + ar, c)
  \/ Return
  \/ \E extra \in 0..1, n \in 0..MaxArgs : ReturnValue(extra, n)
  \/ Finish
  \/ \E k \in 0..MaxArgs, c \in Code : Len(inst) < MaxDepth /\ Len(fr) < MaxFrames /\ SLen + k <= MaxStack /\ EnterNested(k, c)
  \/ Leave
  \/ \E m \in 1..NMarks, rip \in 1..MaxIp, c \in Code :
        marks[m].st = "none" /\ Len(fr) < MaxFrames /\ SLen < MaxStack /\ Capture(m, rip, c)
  \/ \E m \in 1..NMarks : SLen < MaxStack + 1 /\ marks[m].st # "none" /\ Invoke(m)
  \/ \E rip \in 1..MaxIp, c \in Code : Len(fr) < MaxFrames /\ HandlerFrame(rip, c)
  \/ \E k \in 0..2 : Raise(k)
  \/ \E c \in Code : Unwind(c)
  \/ UnwindAll
  \/ UnwindAll_PopsOuter
Spec == Init /\ [][Next]_vars
\* state constraint of the bounded configurations (the ghost counters are the only unbounded parts)
StateBound == fresh <= MaxFresh /\ iid[2] <= MaxDepth + 2

-----------------------------------------------------------------------------
(* Properties *)

TypeOK == /\ phase \in {"run", "exited", "raised", "failed"} /\ pc \in Nat /\ ip \in Nat
          /\ Len(saved) = Len(fr)

FramesOk ==
  /\ \A i \in 1..Len(fr) : fr[i].sp <= SLen /\ (i > 1 => fr[i - 1].sp <= fr[i].sp)
  /\ phase = "run" => pc >= 1

\* a nested instalment never removes frames of the instalments that wait for it
OuterFramesKept == Len(fr) >= iid[3] /\ \A i \in 1..Len(inst) : Len(fr) >= inst[i].base

\* (C08) when a nested instalment ends with an error, the frames of its caller are all still there, so
\* that the caller's unwinder can find the caller's handlers
NestedErrorKeepsCallerFrames ==
  [][(inst # << >> /\ last' \in {"UnwindAll", "UnwindAll_PopsOuter"}) => Len(fr') >= iid[3]]_vars

\* the operands of every caller are what they were when its callee's frame was pushed
CallerIntact == \A i \in 1..Len(fr) : Prefix(stk, fr[i].sp) = saved[i]

\* tail calls do not push frames and leave the stack at the frame's base plus the new arguments
TailNoGrowth == [][last' = "TailCall" => (Len(fr') = Len(fr) /\ Top' = Top /\ pc' = pc)]_vars

\* a re-instated continuation restores what was captured (frames, operands below the result, registers)
ContRestores ==
  [][last' = "Invoke" => \E m \in 1..NMarks :
        /\ marks[m].st # "none" /\ fr' = marks[m].fr /\ Prefix(stk', Len(stk') - 1) = marks[m].stk
        /\ ip' = marks[m].ip + 1 /\ code' = marks[m].code /\ pc' = marks[m].pc]_vars

\* after unwinding to a handler the stack is the handler frame's caller operands plus the error value
UnwindToHandler ==
  [][last' = "Unwind" => /\ Len(fr') <= Len(fr) /\ ~fr'[Len(fr')].hnd
                         /\ Len(stk') = fr'[Len(fr')].sp + 1
                         /\ Prefix(stk', Len(stk') - 1) = saved'[Len(fr')]]_vars
=============================================================================
