SPECIFICATION Spec
CONSTANTS
  SEED = 1
  M_CORE = 12
  M_DIV = 12
  M_INT = 12
  M_UN = 12
  M_NARY = 12
  M_EXPT = 12
  M_STR = 12
  M_MIX = 12
  FAMILY = "mix"
INVARIANTS TypeOK Laws Emit
CHECK_DEADLOCK FALSE
