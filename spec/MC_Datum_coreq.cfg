SPECIFICATION Spec
CONSTANTS
  MODE = "data"
  NODES = 4
  LEAFSET = "coreq"
  MAXLEN = 0
  STRICT = FALSE
INVARIANTS TypeOK Emit
CHECK_DEADLOCK FALSE
