------------------------------- MODULE Datum -------------------------------
(***************************************************************************)
(* C12 - "Reading is total and inverse to writing".                        *)
(*                                                                         *)
(* What is modelled.  (1) The DATUM data type of R7RS (section 2, 6, 7.1): *)
(* exact integers of any size (sign + decimal digit sequence), exact       *)
(* rationals, decimals that are exactly representable, infinities,         *)
(* booleans, characters (code points), strings and symbols (sequences of   *)
(* code points), the empty list, pairs, vectors and byte vectors.  Lists,  *)
(* dotted lists and the quotation forms (quote x) (quasiquote x)           *)
(* (unquote x) (unquote-splicing x) are pairs.  (2) Its EXTERNAL           *)
(* REPRESENTATION as a function datum -> text (`Ext`, what `write` must    *)
(* produce) and two families of ALTERNATIVE SPELLINGS of the same datum    *)
(* (`Alt(d,1)`, `Alt(d,2)`: radix / exactness prefixes, exponents, #t/#f,  *)
(* #\x41, \x41; escapes, |...| symbols, ' ` , ,@ shorthands, dotted forms, *)
(* comments between elements) that `read` must map to the same datum.      *)
(* TEXT is a sequence of Unicode code points (naturals); no TLA+ string is *)
(* ever used for text that has to reach the implementation, so the model   *)
(* is exact for NUL, combining marks and astral characters.  (3) A reader- *)
(* free constructor expression `Ctor(d)` (arithmetic, integer->char,       *)
(* list->string, string->symbol, cons/list/vector/bytevector).             *)
(*                                                                         *)
(* Two state machines, selected by MODE:                                   *)
(*  "data":    a bottom-up builder (stack of finished data).  Every state  *)
(*             whose stack holds exactly one datum is a CASE; the invariant*)
(*             `Emit` prints it: constructor, the three texts, and the     *)
(*             replay steps with the expected observations.  BFS = all     *)
(*             data within NODES nodes over the leaf alphabet LEAFSET.     *)
(*  "esc":     the escape-syntax generator: context x syntax x hex digits;  *)
(*             the spec decides which character the text denotes or that  *)
(*             it must be rejected (too many digits, > U+10FFFF, surrogate)*)
(*  "strings": the Strings generator: one symbol of the delimiter-heavy    *)
(*             alphabet is appended per step; every visited state is a     *)
(*             case (totality: the reader/parser must accept or reject it).*)
(*                                                                         *)
(* Named deviations of Steel from R7RS adopted ON PURPOSE in `Ext` (each   *)
(* is an alternative external representation that R7RS readers or Steel's  *)
(* reader map to the same datum; switch: STRICT = TRUE gives pure R7RS):   *)
(*  D-BOOL   booleans are written #true / #false (R7RS allows both).       *)
(*  D-CHAR   only space, null, tab, newline, return are written by name;   *)
(*           every other non-graphic character is written #\uNNNN (>= 4    *)
(*           lower-case hex digits).  Intended: code comment "escape char  *)
(*           as #\uNNNN" rvals/cycles.rs:187, tokens.rs:470; maintainer    *)
(*           test lexer.rs:1129 test_unicode_escapes reads #\u0540.        *)
(*  D-STR    in strings, non-graphic characters other than \t \n \r are    *)
(*           written \u{h..} and NUL is written \0 (Rust's Debug escapes,  *)
(*           rvals/cycles.rs:155); the lexer has explicit arms for both    *)
(*           (read_string_escape: '0', 'u' + '{'); the same maintainer     *)
(*           test reads "\u{045}".                                         *)
(*  D-BYTES  byte vectors are written #u8(#x01 #xFF): two upper-case hex   *)
(*           digits per byte (rvals/cycles.rs:157-171, explicit format).   *)
(*  D-PAIR   a pair whose cdr chain does not end in () is written fully    *)
(*           dotted: (1 . (2 . 3)) (same as Lang.tla D5; explicit printer  *)
(*           arm cycles.rs:192-201; weakest evidence of the five).         *)
(* NOT adopted - these stay findings (known_findings.d/C12.json): symbols  *)
(* written without |...|; the reader's buffer shared by all ports; -0.0    *)
(* read as 0.0; `+a` read as two tokens; #e / #i not read; lambda aliases  *)
(* read as keywords; unquote renamed under quasiquote; datum labels for    *)
(* shared lists; literals not delimited by `;`; parser panics.             *)
(*                                                                         *)
(* Budget knobs are structural only: tiers choose LEAFSET / NODES / MAXLEN *)
(* and checks/c12.py samples (seeded) the data with >= 2 quotation forms   *)
(* and the 5-node data; nothing is selected by looking at an outcome.      *)
(***************************************************************************)
EXTENDS Integers, Sequences, TLC, Json, FiniteSets

CONSTANTS MODE,      \* "data" | "strings" | "esc"
          NODES,     \* data: maximal number of nodes of a datum
          LEAFSET,   \* data: "full" | "mid" | "core" | "prog" | "midq" | "coreq"
          MAXLEN,    \* strings: maximal length
          STRICT     \* TRUE = pure R7RS external representation (no deviation)

VARIABLES stack,     \* data: sequence of finished data (last = most recent)
          nodes,     \* data: nodes used so far
          txt        \* strings: the text so far (sequence of code points)

vars == <<stack, nodes, txt>>

-----------------------------------------------------------------------------
(* Characters and text.  A character is its code point.                    *)

Asc == << " ", "!", "\"", "#", "$", "%", "&", "'", "(", ")", "*", "+", ",", "-", ".", "/",
          "0", "1", "2", "3", "4", "5", "6", "7", "8", "9", ":", ";", "<", "=", ">", "?",
          "@", "A", "B", "C", "D", "E", "F", "G", "H", "I", "J", "K", "L", "M", "N", "O",
          "P", "Q", "R", "S", "T", "U", "V", "W", "X", "Y", "Z", "[", "\\", "]", "^", "_",
          "`", "a", "b", "c", "d", "e", "f", "g", "h", "i", "j", "k", "l", "m", "n", "o",
          "p", "q", "r", "s", "t", "u", "v", "w", "x", "y", "z", "{", "|", "}", "~" >>

Code(ch) == 31 + (CHOOSE i \in 1..Len(Asc) : Asc[i] = ch)     \* "a" -> 97
T(s) == [i \in 1..Len(s) |-> Code(s[i])]                      \* <<"a","b">> -> <<97,98>>

RECURSIVE Cat(_)
Cat(ss) == IF ss = << >> THEN << >> ELSE Head(ss) \o Cat(Tail(ss))

RECURSIVE Join(_, _)
Join(ss, sep) == IF ss = << >> THEN << >>
                 ELSE IF Len(ss) = 1 THEN ss[1]
                 ELSE ss[1] \o sep \o Join(Tail(ss), sep)

SP == <<32>>     LP == <<40>>     RP == <<41>>     DQ == <<34>>     BSL == <<92>>
BAR == <<124>>   NL == <<10>>

HexDigit(n)  == IF n < 10 THEN 48 + n ELSE 87 + n       \* lower case
HexDigitU(n) == IF n < 10 THEN 48 + n ELSE 55 + n       \* upper case
RECURSIVE Hex(_)
Hex(n) == IF n < 16 THEN <<HexDigit(n)>> ELSE Hex(n \div 16) \o <<HexDigit(n % 16)>>
RECURSIVE Bin(_)
Bin(n) == IF n < 2 THEN <<48 + n>> ELSE Bin(n \div 2) \o <<48 + (n % 2)>>
RECURSIVE PadTo(_, _)
PadTo(s, n) == IF Len(s) >= n THEN s ELSE PadTo(<<48>> \o s, n)
RECURSIVE DecOf(_)
DecOf(n) == IF n < 10 THEN <<48 + n>> ELSE DecOf(n \div 10) \o <<48 + (n % 10)>>

\* The code points this module uses and what the reader / writer have to distinguish about them.
\* BOUNDARIES: for every hex-digit length 1..6 the smallest and the largest code point of that
\* length, and the neighbours of the surrogate gap D800..DFFF (which holds no character).
HexLenBounds == {0, 15, 16, 255, 256, 4095, 4096, 65535, 65536, 1048575, 1048576, 1114111}
SurrogateNeighbours == {55295, 57344}                      \* U+D7FF, U+E000
MaxScalar == 1114111                                        \* U+10FFFF
IsSurrogate(v) == v \in 55296..57343

\* Unicode general category (UnicodeData) of every non-ASCII code point used here.
\* GRAPHIC = a visible glyph of its own: categories L*, N*, P*, S* (and ASCII 33..126).
\* NOT graphic: Cc control, Cf format, Co private use, Cn unassigned / noncharacter, Z* separators,
\* Mn / Me combining marks (they extend the preceding grapheme).
GraphicNonAscii ==
  { 233,      \* U+00E9  Ll  e-acute
    255,      \* U+00FF  Ll  y-diaeresis          largest 2-digit
    256,      \* U+0100  Lu  A-macron             smallest 3-digit
    955,      \* U+03BB  Ll  lambda
    4096,     \* U+1000  Lo  MYANMAR LETTER KA    smallest 4-digit
    65536,    \* U+10000 Lo  LINEAR B SYLLABLE    smallest 5-digit (plane 1)
    128512,   \* U+1F600 So  emoji                (plane 1)
    131072 }  \* U+20000 Lo  CJK ideograph        (plane 2)
NonGraphicNonAscii ==
  { 160,      \* U+00A0  Zs  no-break space
    173,      \* U+00AD  Cf  soft hyphen
    769,      \* U+0301  Mn  combining acute
    4095,     \* U+0FFF  Cn  unassigned           largest 3-digit
    8232,     \* U+2028  Zl  line separator
    55295,    \* U+D7FF  Cn  unassigned           last before the surrogates
    57344,    \* U+E000  Co  private use          first after the surrogates
    63743,    \* U+F8FF  Co  private use          (end of the BMP private-use area)
    65535,    \* U+FFFF  Cn  noncharacter         largest 4-digit
    917505,   \* U+E0001 Cf  language tag         (plane 14)
    917760,   \* U+E0100 Mn  variation selector   (plane 14)
    983040,   \* U+F0000 Co  private use          (plane 15)
    1048575,  \* U+FFFFF Cn  noncharacter         largest 5-digit (plane 15)
    1048576,  \* U+100000 Co private use          smallest 6-digit (plane 16)
    1114111 } \* U+10FFFF Cn noncharacter         largest scalar value
Graphic(c) == c \in 33..126 \/ c \in GraphicNonAscii

IsDigit(c) == c \in 48..57
Digs(ds) == [i \in 1..Len(ds) |-> 48 + ds[i]]                 \* digit values -> text

RECURSIVE Val(_)
Val(ds) == IF ds = << >> THEN 0 ELSE 10 * Val(SubSeq(ds, 1, Len(ds) - 1)) + ds[Len(ds)]

-----------------------------------------------------------------------------
(* The datum type.                                                         *)

IntD(neg, ds)       == [k |-> "int", neg |-> neg, ds |-> ds]             \* ds: digits, no leading 0
RatD(neg, ns, dn)   == [k |-> "rat", neg |-> neg, ns |-> ns, dn |-> dn]  \* lowest terms, dn >= 2
DecD(neg, ip, fp)   == [k |-> "dec", neg |-> neg, ip |-> ip, fp |-> fp]  \* ip.fp, exactly representable
InfD(neg)           == [k |-> "inf", neg |-> neg]
BoolD(b)            == [k |-> "bool", b |-> b]
CharD(c)            == [k |-> "char", c |-> c]
StrD(cs)            == [k |-> "str", cs |-> cs]
SymD(nm)            == [k |-> "sym", nm |-> nm]
NilD                == [k |-> "nil"]
PairD(a, d)         == [k |-> "pair", a |-> a, d |-> d]
VecD(es)            == [k |-> "vec", es |-> es]
BytesD(bs)          == [k |-> "bytes", bs |-> bs]

RECURSIVE ListD(_)
ListD(es) == IF es = << >> THEN NilD ELSE PairD(Head(es), ListD(Tail(es)))
RECURSIVE DottedD(_, _)
DottedD(es, tl) == IF es = << >> THEN tl ELSE PairD(Head(es), DottedD(Tail(es), tl))

RECURSIVE IsList(_)
IsList(d) == IF d.k = "nil" THEN TRUE ELSE IF d.k = "pair" THEN IsList(d.d) ELSE FALSE
RECURSIVE Elems(_)       \* the cars along the cdr chain
Elems(d) == IF d.k = "pair" THEN <<d.a>> \o Elems(d.d) ELSE << >>
RECURSIVE LastCdr(_)
LastCdr(d) == IF d.k = "pair" THEN LastCdr(d.d) ELSE d

QuoteNames == [quote |-> T(<<"q","u","o","t","e">>),
               quasiquote |-> T(<<"q","u","a","s","i","q","u","o","t","e">>),
               unquote |-> T(<<"u","n","q","u","o","t","e">>),
               unquotesplicing |-> T(<<"u","n","q","u","o","t","e","-","s","p","l","i","c","i","n","g">>)]
QuoteKinds == {"quote", "quasiquote", "unquote", "unquotesplicing"}
Shorthand == [quote |-> <<39>>, quasiquote |-> <<96>>, unquote |-> <<44>>, unquotesplicing |-> <<44, 64>>]

\* (quote x) etc.: a two-element list whose head is one of the four symbols
IsQuoteForm(d) == /\ d.k = "pair" /\ d.a.k = "sym"
                  /\ \E q \in QuoteKinds : d.a.nm = QuoteNames[q]
                  /\ d.d.k = "pair" /\ d.d.d.k = "nil"
QuoteKindOf(d) == CHOOSE q \in QuoteKinds : d.a.nm = QuoteNames[q]

-----------------------------------------------------------------------------
(* Lexical classes of symbols (R7RS 2.1, 7.1.1).                           *)

\* characters that end a token or start another one, plus | and \
Delims == {32, 10, 9, 13, 40, 41, 91, 93, 123, 125, 34, 59, 39, 96, 44, 124, 92}

Count(s, c) == Cardinality({i \in 1..Len(s) : s[i] = c})
Pos(s, c) == CHOOSE i \in 1..Len(s) : s[i] = c
AllDigits(s) == Len(s) > 0 /\ \A i \in 1..Len(s) : IsDigit(s[i])
Unsigned(s) == IF Len(s) > 0 /\ s[1] \in {43, 45} THEN Tail(s) ELSE s
IsUReal(r) ==
  \/ AllDigits(r)
  \/ /\ Count(r, 47) = 1                                       \* digits / digits
     /\ AllDigits(SubSeq(r, 1, Pos(r, 47) - 1)) /\ AllDigits(SubSeq(r, Pos(r, 47) + 1, Len(r)))
  \/ /\ Count(r, 46) = 1 /\ Len(r) > 1                         \* digits . digits (one side may be empty)
     /\ \A i \in 1..Len(r) : r[i] = 46 \/ IsDigit(r[i])
  \/ /\ Count(r, 101) = 1 /\ Pos(r, 101) > 1 /\ Pos(r, 101) < Len(r)   \* digits e [sign] digits
     /\ AllDigits(SubSeq(r, 1, Pos(r, 101) - 1))
     /\ AllDigits(Unsigned(SubSeq(r, Pos(r, 101) + 1, Len(r))))
SpecialNums == { T(<<"+","i","n","f",".","0">>), T(<<"-","i","n","f",".","0">>),
                 T(<<"+","n","a","n",".","0">>), T(<<"-","n","a","n",".","0">>),
                 T(<<"+","i">>), T(<<"-","i">>) }
LooksNumeric(nm) == IsUReal(Unsigned(nm)) \/ nm \in SpecialNums

\* A symbol must be written |...| when its bare name would not be read back as that symbol.
NeedsBars(nm) == \/ nm = << >>
                 \/ nm = <<46>>                                               \* a single dot
                 \/ \E i \in 1..Len(nm) : nm[i] \in Delims \/ ~Graphic(nm[i])
                 \/ nm[1] = 35                                                \* starts with #
                 \/ LooksNumeric(nm)

-----------------------------------------------------------------------------
(* External representation: leaves.                                        *)

CharNamesR7 == [c \in {7, 8, 127, 27, 10, 0, 13, 32, 9} |->
                 CASE c = 7 -> T(<<"a","l","a","r","m">>)
                   [] c = 8 -> T(<<"b","a","c","k","s","p","a","c","e">>)
                   [] c = 127 -> T(<<"d","e","l","e","t","e">>)
                   [] c = 27 -> T(<<"e","s","c","a","p","e">>)
                   [] c = 10 -> T(<<"n","e","w","l","i","n","e">>)
                   [] c = 0 -> T(<<"n","u","l","l">>)
                   [] c = 13 -> T(<<"r","e","t","u","r","n">>)
                   [] c = 32 -> T(<<"s","p","a","c","e">>)
                   [] c = 9 -> T(<<"t","a","b">>)]
CharNamed(c) == IF STRICT THEN c \in DOMAIN CharNamesR7 ELSE c \in {32, 0, 9, 10, 13}   \* D-CHAR

HashBs == <<35, 92>>                                          \*  #\
CharExt(c) == IF CharNamed(c) THEN HashBs \o CharNamesR7[c]
              ELSE IF Graphic(c) THEN HashBs \o <<c>>
              ELSE IF STRICT THEN HashBs \o <<120>> \o Hex(c)
              ELSE HashBs \o <<117>> \o PadTo(Hex(c), 4)                          \* D-CHAR

\* mnemonic escapes shared by strings and |symbols| (R7RS 6.7)
Mnemonic == [c \in {7, 8, 9, 10, 13} |->
               CASE c = 7 -> <<92, 97>> [] c = 8 -> <<92, 98>> [] c = 9 -> <<92, 116>>
                 [] c = 10 -> <<92, 110>> [] c = 13 -> <<92, 114>>]
HexEsc(c) == <<92, 120>> \o Hex(c) \o <<59>>                   \*  \x41;

StrCharR7(c) == IF c = 34 THEN <<92, 34>> ELSE IF c = 92 THEN <<92, 92>>
                ELSE IF c \in DOMAIN Mnemonic THEN Mnemonic[c]
                ELSE IF Graphic(c) \/ c = 32 THEN <<c>>
                ELSE HexEsc(c)
StrCharSteel(c) == IF c = 34 THEN <<92, 34>> ELSE IF c = 92 THEN <<92, 92>>    \* D-STR
                   ELSE IF c \in {9, 10, 13} THEN Mnemonic[c]
                   ELSE IF c = 0 THEN <<92, 48>>
                   ELSE IF Graphic(c) \/ c = 32 THEN <<c>>
                   ELSE <<92, 117, 123>> \o Hex(c) \o <<125>>
StrChar(c) == IF STRICT THEN StrCharR7(c) ELSE StrCharSteel(c)
StrExt(cs) == DQ \o Cat([i \in 1..Len(cs) |-> StrChar(cs[i])]) \o DQ

BarChar(c) == IF c = 124 THEN <<92, 124>> ELSE IF c = 92 THEN <<92, 92>>
              ELSE IF c \in DOMAIN Mnemonic THEN Mnemonic[c]
              ELSE IF Graphic(c) \/ c = 32 THEN <<c>>
              ELSE HexEsc(c)
SymExt(nm) == IF NeedsBars(nm) THEN BAR \o Cat([i \in 1..Len(nm) |-> BarChar(nm[i])]) \o BAR
              ELSE nm

Sign(neg) == IF neg THEN <<45>> ELSE << >>
IntExt(d) == Sign(d.neg) \o Digs(d.ds)
RatExt(d) == Sign(d.neg) \o Digs(d.ns) \o <<47>> \o Digs(d.dn)
DecExt(d) == Sign(d.neg) \o Digs(d.ip) \o <<46>> \o Digs(d.fp)
InfExt(d) == (IF d.neg THEN <<45>> ELSE <<43>>) \o T(<<"i","n","f",".","0">>)
BoolExt(d) == IF STRICT THEN (IF d.b THEN T(<<"#","t">>) ELSE T(<<"#","f">>))
              ELSE (IF d.b THEN T(<<"#","t","r","u","e">>) ELSE T(<<"#","f","a","l","s","e">>))  \* D-BOOL
ByteExt(b) == IF STRICT THEN DecOf(b) ELSE <<35, 120, HexDigitU(b \div 16), HexDigitU(b % 16)>>   \* D-BYTES
U8 == T(<<"#","u","8","(">>)
BytesExt(d) == U8 \o Join([i \in 1..Len(d.bs) |-> ByteExt(d.bs[i])], SP) \o RP

IsLeaf(d) == d.k \notin {"pair", "vec"}
LeafExt(d) == CASE d.k = "int" -> IntExt(d) [] d.k = "rat" -> RatExt(d) [] d.k = "dec" -> DecExt(d)
                [] d.k = "inf" -> InfExt(d) [] d.k = "bool" -> BoolExt(d) [] d.k = "char" -> CharExt(d.c)
                [] d.k = "str" -> StrExt(d.cs) [] d.k = "sym" -> SymExt(d.nm)
                [] d.k = "nil" -> LP \o RP [] d.k = "bytes" -> BytesExt(d)

(* External representation: the whole datum (what `write` must produce).   *)
RECURSIVE Ext(_)
Ext(d) ==
  IF d.k = "pair" THEN
       IF IsList(d) \/ STRICT
       THEN LP \o Join([i \in 1..Len(Elems(d)) |-> Ext(Elems(d)[i])], SP)
               \o (IF IsList(d) THEN << >> ELSE T(<<" ","."," ">>) \o Ext(LastCdr(d))) \o RP
       ELSE LP \o Ext(d.a) \o T(<<" ","."," ">>) \o Ext(d.d) \o RP                    \* D-PAIR
  ELSE IF d.k = "vec" THEN <<35, 40>> \o Join([i \in 1..Len(d.es) |-> Ext(d.es[i])], SP) \o RP
  ELSE LeafExt(d)

-----------------------------------------------------------------------------
(* Alternative spellings: texts that must READ as the same datum.          *)

Small(ds) == Len(ds) <= 8
HexPfx == <<35, 120>>   BinPfx == <<35, 98>>   DecPfx == <<35, 100>>
ExactPfx == <<35, 101>>  InexactPfx == <<35, 105>>
StripZeros(ds) == LET nz == {i \in 1..Len(ds) : ds[i] # 0}
                  IN IF nz = {} THEN <<0>> ELSE SubSeq(ds, CHOOSE i \in nz : \A j \in nz : i <= j, Len(ds))

LeafAlt(d, j) ==
  CASE d.k = "int" ->
         IF j = 1 THEN (IF Small(d.ds) THEN HexPfx \o Sign(d.neg) \o Hex(Val(d.ds))     \*  #x-1f
                        ELSE IF d.neg THEN DecPfx \o IntExt(d) ELSE <<43>> \o IntExt(d))  \*  #d-12.. / +12..
         ELSE (IF Small(d.ds) THEN BinPfx \o Sign(d.neg) \o Bin(Val(d.ds)) ELSE DecPfx \o IntExt(d))
    [] d.k = "rat" ->
         IF j = 1 THEN (IF Small(d.ns) /\ Small(d.dn)
                        THEN HexPfx \o Sign(d.neg) \o Hex(Val(d.ns)) \o <<47>> \o Hex(Val(d.dn))
                        ELSE (IF d.neg THEN << >> ELSE <<43>>) \o RatExt(d))
         ELSE ExactPfx \o RatExt(d)                                                        \*  #e1/2
    [] d.k = "dec" ->
         IF j = 1 THEN Sign(d.neg) \o Digs(StripZeros(d.ip \o d.fp)) \o <<101, 45>> \o DecOf(Len(d.fp))  \* 15e-1
         ELSE IF d.fp = <<0>> THEN Sign(d.neg) \o Digs(d.ip) \o <<46>>                     \*  2.
         ELSE IF d.ip = <<0>> THEN Sign(d.neg) \o <<46>> \o Digs(d.fp)                     \*  .5
         ELSE InexactPfx \o Sign(d.neg) \o Digs(StripZeros(d.ip \o d.fp)) \o <<47, 49>>    \*  #i15/10
                         \o [i \in 1..Len(d.fp) |-> 48]
    [] d.k = "inf" -> InfExt(d)
    [] d.k = "bool" -> IF (j = 1) = STRICT
                       THEN (IF d.b THEN T(<<"#","t","r","u","e">>) ELSE T(<<"#","f","a","l","s","e">>))
                       ELSE (IF d.b THEN T(<<"#","t">>) ELSE T(<<"#","f">>))
    [] d.k = "char" -> IF j = 1 THEN HashBs \o <<120>> \o Hex(d.c)                         \*  #\x41
                       ELSE IF d.c \in DOMAIN CharNamesR7 THEN HashBs \o CharNamesR7[d.c]    \*  R7RS name
                       ELSE IF Graphic(d.c) THEN HashBs \o <<d.c>> ELSE HashBs \o <<120>> \o Hex(d.c)
    [] d.k = "str" -> IF j = 1 THEN DQ \o Cat([i \in 1..Len(d.cs) |-> HexEsc(d.cs[i])]) \o DQ
                      ELSE DQ \o Cat([i \in 1..Len(d.cs) |->                                 \* R7RS mnemonics and a
                                       StrCharR7(d.cs[i]) \o (IF i = 1 /\ (Len(d.cs) = 1 \/ d.cs[2] \notin {32, 9})
                                                               THEN <<92, 10, 32, 32>> ELSE << >>)]) \o DQ
                                       \* line continuation \<newline><indentation> (it would swallow a following blank)
    [] d.k = "sym" -> IF j = 1 THEN BAR \o Cat([i \in 1..Len(d.nm) |-> HexEsc(d.nm[i])]) \o BAR
                      ELSE BAR \o Cat([i \in 1..Len(d.nm) |-> BarChar(d.nm[i])]) \o BAR
    [] d.k = "nil" -> IF j = 1 THEN LP \o RP ELSE LP \o SP \o RP
    [] d.k = "bytes" -> U8 \o Join([i \in 1..Len(d.bs) |-> DecOf(d.bs[i])], IF j = 1 THEN SP ELSE NL) \o RP

\* separators of the second family: a line comment that follows the element WITHOUT a blank
\* (";" is a delimiter), a block comment, a datum comment
Sep2(i) == CASE i % 3 = 1 -> T(<<";"," ","c">>) \o NL
             [] i % 3 = 2 -> T(<<" ","#","|","c","|","#"," ">>)
             [] i % 3 = 0 -> T(<<" ","#",";","0"," ">>)
RECURSIVE Join2(_, _)
Join2(ss, i) == IF Len(ss) = 1 THEN ss[1] ELSE ss[1] \o Sep2(i) \o Join2(Tail(ss), i + 1)

\* Alt(d, 1): shorthands everywhere, compact dotted lists.
\* Alt(d, 2): comments as separators, fully dotted one-element lists, and quotation forms that
\*            alternate between the shorthand and the long form: `(unquote x), (quote 'x) ...
\*            (AltQ's flag says whether the enclosing form was written long).
RECURSIVE Alt(_, _), AltQ(_, _)
AltQ(d, long) ==
  IF d.k = "pair" THEN
       IF IsQuoteForm(d) /\ long THEN Shorthand[QuoteKindOf(d)] \o AltQ(d.d.a, FALSE)
       ELSE IF IsQuoteForm(d)
            THEN LP \o QuoteNames[QuoteKindOf(d)] \o Sep2(2) \o AltQ(d.d.a, TRUE) \o RP       \*  (unquote #|c|# x)
       ELSE IF Len(Elems(d)) >= 2
            THEN LP \o Join2([i \in 1..Len(Elems(d)) |-> AltQ(Elems(d)[i], TRUE)], 1)
                    \o (IF IsList(d) THEN << >> ELSE T(<<" ","."," ">>) \o AltQ(LastCdr(d), TRUE)) \o RP
            ELSE LP \o AltQ(d.a, TRUE) \o T(<<" ","."," ">>) \o AltQ(d.d, TRUE) \o RP                 \*  (a . ())
  ELSE IF d.k = "vec" THEN
       IF Len(d.es) = 0 THEN <<35, 40>> \o RP
       ELSE <<35, 40>> \o Join2([i \in 1..Len(d.es) |-> AltQ(d.es[i], TRUE)], 2) \o RP
  ELSE LeafAlt(d, 2)
Alt(d, j) ==
  IF j = 2 THEN AltQ(d, TRUE)
  ELSE IF d.k = "pair" THEN
       IF IsQuoteForm(d) THEN Shorthand[QuoteKindOf(d)] \o Alt(d.d.a, 1)                 \*  'x `x ,x ,@x
       ELSE LP \o Join([i \in 1..Len(Elems(d)) |-> Alt(Elems(d)[i], 1)], SP)             \*  (a b . c)
               \o (IF IsList(d) THEN << >> ELSE T(<<" ","."," ">>) \o Alt(LastCdr(d), 1)) \o RP
  ELSE IF d.k = "vec" THEN <<35, 40>> \o Join([i \in 1..Len(d.es) |-> Alt(d.es[i], 1)], SP) \o RP
  ELSE LeafAlt(d, 1)

-----------------------------------------------------------------------------
(* Reader-free constructor expressions (ASCII Scheme source as TLA+ string) *)

RECURSIVE StrJoin(_, _)
StrJoin(ss, sep) == IF ss = << >> THEN "" ELSE IF Len(ss) = 1 THEN ss[1]
                    ELSE ss[1] \o sep \o StrJoin(Tail(ss), sep)
RECURSIVE SCat(_)
SCat(ss) == IF ss = << >> THEN "" ELSE Head(ss) \o SCat(Tail(ss))
CodeArgs(cs) == StrJoin([i \in 1..Len(cs) |-> ToString(cs[i])], " ")

\* natural number of any size from <= 9-digit chunks (plain small literals are the trusted base)
RECURSIVE NatCtor(_)
NatCtor(ds) == IF Len(ds) <= 9 THEN ToString(Val(ds))
               ELSE "(+ (* " \o NatCtor(SubSeq(ds, 1, Len(ds) - 9)) \o " 1000000000) "
                    \o ToString(Val(SubSeq(ds, Len(ds) - 8, Len(ds)))) \o ")"
Neg(neg, s) == IF neg THEN "(- " \o s \o ")" ELSE s
RECURSIVE Pow10(_)
Pow10(n) == IF n = 0 THEN << 1 >> ELSE Pow10(n - 1) \o <<0>>

\* a string from its code points, without a string literal
MkStr(cs) == "(list->string (map integer->char (list" \o (IF cs = << >> THEN "" ELSE " " \o CodeArgs(cs)) \o ")))"

RECURSIVE Ctor(_)
Ctor(d) ==
  CASE d.k = "int" -> Neg(d.neg, NatCtor(d.ds))
    [] d.k = "rat" -> Neg(d.neg, "(/ " \o NatCtor(d.ns) \o " " \o NatCtor(d.dn) \o ")")
    [] d.k = "dec" -> Neg(d.neg, "(exact->inexact (/ " \o NatCtor(StripZeros(d.ip \o d.fp)) \o " "
                                   \o NatCtor(Pow10(Len(d.fp))) \o "))")
    [] d.k = "inf" -> Neg(d.neg, "(/ (exact->inexact 1) (exact->inexact 0))")
    [] d.k = "bool" -> IF d.b THEN "(= 0 0)" ELSE "(= 0 1)"
    [] d.k = "char" -> "(integer->char " \o ToString(d.c) \o ")"
    [] d.k = "str" -> MkStr(d.cs)
    [] d.k = "sym" -> "(string->symbol " \o MkStr(d.nm) \o ")"
    [] d.k = "nil" -> "(list)"
    [] d.k = "bytes" -> "(bytevector" \o (IF d.bs = << >> THEN "" ELSE " " \o CodeArgs(d.bs)) \o ")"
    [] d.k = "vec" -> "(vector" \o SCat([i \in 1..Len(d.es) |-> " " \o Ctor(d.es[i])]) \o ")"
    [] d.k = "pair" -> IF IsList(d) THEN "(list" \o SCat([i \in 1..Len(Elems(d)) |-> " " \o Ctor(Elems(d)[i])]) \o ")"
                       ELSE "(cons " \o Ctor(d.a) \o " " \o Ctor(d.d) \o ")"

-----------------------------------------------------------------------------
(* Leaf alphabets.                                                         *)

I(neg, ds) == IntD(neg, ds)
SymT(s) == SymD(T(s))
StrT(s) == StrD(T(s))
Big23 == <<1,2,3,4,5,6,7,8,9,0,1,2,3,4,5,6,7,8,9,0,1,2,3>>
I64Max == <<9,2,2,3,3,7,2,0,3,6,8,5,4,7,7,5,8,0,7>>
I64MaxP1 == <<9,2,2,3,3,7,2,0,3,6,8,5,4,7,7,5,8,0,8>>

NumLeaves ==
  { I(FALSE, <<0>>), I(FALSE, <<7>>), I(TRUE, <<5>>), I(FALSE, <<2,5,5>>), I(FALSE, Big23), I(TRUE, Big23),
    I(FALSE, I64Max), I(FALSE, I64MaxP1), I(TRUE, I64MaxP1), I(FALSE, <<4,2,9,4,9,6,7,2,9,6>>),
    RatD(FALSE, <<1>>, <<2>>), RatD(TRUE, <<7>>, <<3>>), RatD(FALSE, Big23, <<2>>), RatD(TRUE, <<1>>, I64MaxP1),
    DecD(FALSE, <<0>>, <<0>>), DecD(TRUE, <<0>>, <<0>>), DecD(FALSE, <<1>>, <<5>>), DecD(TRUE, <<0>>, <<2,5>>),
    DecD(FALSE, <<1,0,0>>, <<0>>), DecD(FALSE, <<0>>, <<5>>), DecD(FALSE, <<1,2,3,4,5,6>>, <<7,5>>),
    InfD(FALSE), InfD(TRUE) }

CharLeaves == { CharD(c) : c \in {97, 65, 120, 117, 49, 32, 10, 9, 0, 13, 7, 8, 127, 27, 40, 41, 34, 92, 35, 59, 39,
                                   124, 955, 233, 128512, 769}
                                  \cup HexLenBounds \cup GraphicNonAscii \cup NonGraphicNonAscii }

StrLeaves ==
  { StrD(<< >>), StrT(<<"a">>), StrT(<<"a"," ","b">>), StrD(<<10, 9, 92, 34>>), StrD(<<955>>), StrD(<<233, 128512>>),
    StrD(<<7>>), StrD(<<0>>), StrD(<<127>>), StrD(<<13>>), StrD(<<27, 8>>), StrD(<<101, 769>>),
    StrT(<<"a",";","b">>), StrT(<<"(">>), StrT(<<"|">>), StrT(<<"'">>), StrT(<<"#","\\","a">>), StrT(<<"x","4","1",";">>),
    \* an escape followed by hex digits / a letter (where does the escape end?), mixed planes
    StrD(<<1048576, 97>>), StrD(<<65, 1114111, 48>>), StrD(<<15, 102>>), StrD(<<65535, 65536, 1048575, 1048576>>),
    StrD(<<255, 256, 4095, 4096>>) }
  \cup { StrD(<<c>>) : c \in HexLenBounds \cup GraphicNonAscii \cup NonGraphicNonAscii }

SymLeaves ==
  { SymT(<<"a">>), SymT(<<"a","b","c">>), SymT(<<"a"," ","b">>), SymD(<< >>), SymT(<<"a","(","b">>), SymT(<<"a",")">>),
    SymT(<<"1","2">>), SymT(<<".">>), SymT(<<"a","|","b">>), SymT(<<"A">>), SymD(<<955, 120>>), SymT(<<"#","a">>),
    SymT(<<"a","#">>), SymT(<<"a",";","b">>), SymT(<<"+">>), SymT(<<"-">>), SymT(<<".",".",".">>), SymT(<<"+","a">>),
    SymT(<<"-",">","x">>), SymT(<<"1","+">>), SymT(<<"a",".","b">>), SymT(<<"a","'","b">>), SymT(<<"a","\"","b">>),
    SymT(<<"1","/","2">>), SymT(<<"-","1",".","5">>), SymT(<<"+","i","n","f",".","0">>), SymT(<<"1","e","3">>),
    SymT(<<"a","\\","b">>), SymT(<<"i","f">>), SymT(<<"q","u","o","t","e">>), SymT(<<"d","e","f","i","n","e">>),
    SymT(<<"l","a","m","b","d","a">>), SymD(<<955>>), SymD(<<97, 10, 98>>), SymT(<<"[">>), SymT(<<"{","a","}">>),
    SymT(<<"a",",","b">>), SymT(<<"`","a">>), SymT(<<"f","n">>), SymD(<<256>>), SymD(<<4096, 65536>>) }
  \cup { SymD(<<97, c>>) : c \in {15, 160, 255, 256, 4095, 65535, 65536, 131072, 1048575, 1048576, 1114111, 55295, 57344} }

OtherLeaves == { BoolD(TRUE), BoolD(FALSE), NilD, BytesD(<< >>), BytesD(<<0, 255, 16>>), BytesD(<<1>>) }

FullLeaves == NumLeaves \cup CharLeaves \cup StrLeaves \cup SymLeaves \cup OtherLeaves

MidLeaves ==
  { I(FALSE, <<0>>), I(TRUE, <<5>>), I(FALSE, Big23), RatD(FALSE, <<1>>, <<2>>), DecD(FALSE, <<1>>, <<5>>),
    DecD(TRUE, <<0>>, <<0>>), InfD(FALSE), BoolD(TRUE), BoolD(FALSE),
    CharD(97), CharD(32), CharD(40), CharD(41), CharD(955), CharD(7),
    StrD(<< >>), StrT(<<"a"," ","b">>), StrD(<<10, 9, 92, 34>>), StrD(<<955>>),
    SymT(<<"a">>), SymT(<<"a"," ","b">>), SymD(<< >>), SymT(<<"a","(","b">>), SymT(<<"1","2">>), SymT(<<".">>),
    SymT(<<"+","a">>), SymT(<<"q","u","o","t","e">>), SymD(<<955, 120>>), SymT(<<".",".",".">>),
    NilD, BytesD(<<0, 255, 16>>) }

\* quick-tier variants (smaller alphabets, same shape)
MidQLeaves ==
  { I(FALSE, <<0>>), I(TRUE, <<5>>), I(FALSE, Big23), RatD(FALSE, <<1>>, <<2>>), DecD(FALSE, <<1>>, <<5>>),
    DecD(TRUE, <<0>>, <<0>>), BoolD(TRUE), CharD(97), CharD(40), CharD(955),
    StrD(<< >>), StrT(<<"a"," ","b">>), StrD(<<10, 9, 92, 34>>),
    SymT(<<"a">>), SymT(<<"a"," ","b">>), SymD(<< >>), SymT(<<"1","2">>), SymT(<<".">>),
    SymT(<<"+","a">>), SymT(<<"q","u","o","t","e">>), NilD, BytesD(<<0, 255, 16>>),
    CharD(1048576), StrD(<<1048576, 97>>) }
CoreQLeaves ==
  { I(FALSE, <<1>>), DecD(FALSE, <<1>>, <<5>>), CharD(97), StrT(<<"a"," ","b">>), SymT(<<"a">>), SymT(<<"a"," ","b">>), NilD }

CoreLeaves ==
  { I(FALSE, <<1>>), I(TRUE, <<5>>), DecD(FALSE, <<1>>, <<5>>), BoolD(TRUE), CharD(97), CharD(41),
    StrT(<<"a"," ","b">>), SymT(<<"a">>), SymT(<<"a"," ","b">>), NilD }

\* program-shaped data: the leaves of small programs (the compiler's parser gives the
\* special forms their own syntax-tree nodes; their printed form is checked by part (b))
ProgLeaves ==
  { I(FALSE, <<1>>), SymT(<<"x">>), SymT(<<"y">>), StrT(<<"s","\"">>), CharD(97), BoolD(TRUE), NilD }

Leaves == CASE LEAFSET = "full" -> FullLeaves [] LEAFSET = "mid" -> MidLeaves
            [] LEAFSET = "core" -> CoreLeaves [] LEAFSET = "prog" -> ProgLeaves
            [] LEAFSET = "midq" -> MidQLeaves [] LEAFSET = "coreq" -> CoreQLeaves

-----------------------------------------------------------------------------
(* The data builder.                                                       *)

Top(n) == SubSeq(stack, Len(stack) - n + 1, Len(stack))
Pop(n) == SubSeq(stack, 1, Len(stack) - n)

\* nodes still needed to join a forest of k trees into one datum (lists of <= 3)
Need(k) == IF k <= 1 THEN 0 ELSE IF k <= 3 THEN 1 ELSE 2
Fits(st, n) == n + Need(Len(st)) <= NODES /\ Len(st) <= 4

Push(d, cost) == /\ Fits(Append(stack, d), nodes + cost)
                 /\ stack' = Append(stack, d) /\ nodes' = nodes + cost /\ UNCHANGED txt
Replace(n, d) == /\ Len(stack) >= n
                 /\ Fits(Append(Pop(n), d), nodes + 1)
                 /\ stack' = Append(Pop(n), d) /\ nodes' = nodes + 1 /\ UNCHANGED txt

PushLeaf == \E l \in Leaves : Push(l, 1)
MkList   == \E n \in 1..3 : Len(stack) >= n /\ Replace(n, ListD(Top(n)))
MkDotted == \E n \in 2..3 : /\ Len(stack) >= n                 \* n-1 elements and a tail
                            /\ Top(n)[n].k \notin {"nil", "pair"}   \* (otherwise it is MkList's datum)
                            /\ Replace(n, DottedD(SubSeq(Top(n), 1, n - 1), Top(n)[n]))
MkVec    == \/ Push(VecD(<< >>), 1)
            \/ \E n \in 1..2 : Len(stack) >= n /\ Replace(n, VecD(Top(n)))
MkQuote  == \E q \in QuoteKinds : Len(stack) >= 1 /\ Replace(1, ListD(<<SymD(QuoteNames[q]), Top(1)[1]>>))

\* program forms (LEAFSET = "prog"): each is the datum whose text is the program
X == SymT(<<"x">>)   Y == SymT(<<"y">>)   F == SymT(<<"f">>)
Kw(s) == SymT(s)
MkForm ==
  /\ LEAFSET = "prog" /\ Len(stack) >= 1
  /\ LET e == Top(1)[1] IN
     \E form \in {
        ListD(<<Kw(<<"d","e","f","i","n","e">>), X, e>>),                                   \* (define x E)
        ListD(<<Kw(<<"d","e","f","i","n","e">>), ListD(<<F, X>>), e>>),                     \* (define (f x) E)
        ListD(<<Kw(<<"d","e","f","i","n","e">>), DottedD(<<F, X>>, Y), e>>),                \* (define (f x . y) E)
        ListD(<<Kw(<<"l","a","m","b","d","a">>), ListD(<<X>>), e>>),                        \* (lambda (x) E)
        ListD(<<Kw(<<"l","a","m","b","d","a">>), DottedD(<<X>>, Y), e>>),                   \* (lambda (x . y) E)
        ListD(<<Kw(<<"l","a","m","b","d","a">>), X, e>>),                                   \* (lambda x E)
        ListD(<<Kw(<<"l","a","m","b","d","a">>), NilD, e, e>>),                             \* (lambda () E E)
        ListD(<<Kw(<<"i","f">>), e, e, X>>),                                                \* (if E E x)
        ListD(<<Kw(<<"l","e","t">>), ListD(<<ListD(<<X, e>>)>>), X>>),                      \* (let ((x E)) x)
        ListD(<<Kw(<<"b","e","g","i","n">>), e, X>>),                                       \* (begin E x)
        ListD(<<Kw(<<"s","e","t","!">>), X, e>>),                                           \* (set! x E)
        ListD(<<F, e>>) } :                                                                 \* (f E)
       Replace(1, form)

DataNext == PushLeaf \/ MkList \/ MkDotted \/ MkVec \/ MkQuote \/ MkForm

-----------------------------------------------------------------------------
(* The Strings generator (part c).                                         *)

Alphabet == { Code(c) : c \in {"(", ")", "[", "]", "{", "}", "'", "`", ",", "@", "#", "\\", "\"", "|", ";",
                               ".", "+", "-", "1", "a", "e", "x", " ", "/", "0"} } \cup {10, 233}
\* (10 = newline; 233 = U+00E9, a character of more than one byte: every lexer arm that slices the
\*  text by position meets it in every position; "/" and "0": rationals, also with denominator zero)

StrNext == /\ Len(txt) < MAXLEN
           /\ \E c \in Alphabet : txt' = Append(txt, c)
           /\ UNCHANGED <<stack, nodes>>

-----------------------------------------------------------------------------
(* The escape-syntax generator (MODE = "esc").  One step: choose a context (character literal,  *)
(* string, |symbol|), an escape syntax and a hex-digit string; the spec DECIDES whether the text *)
(* denotes a character (then which one) or must be rejected.                                     *)
(*   syntaxes: "x"  \x<hex>;   #\x<hex>        R7RS                                             *)
(*             "u"  \u<hex>;   #\u<hex>        Steel extension (maintainer test lexer.rs:1129)  *)
(*             "ub" \u{<hex>}  #\u{<hex>}      Steel extension (what its writer prints)         *)
(*             "xn" \x<hex>  without the terminating ; (strings / symbols): always an error      *)
(* <hex> is any number of hex digits, either case, leading zeros allowed; it must denote a      *)
(* Unicode scalar value: at most U+10FFFF and not a surrogate (R7RS 6.6 / 7.1.1).               *)

HexDigVal(c) == IF c \in 48..57 THEN c - 48 ELSE IF c \in 97..102 THEN c - 87
                ELSE IF c \in 65..70 THEN c - 55 ELSE -1
IsHex(h) == Len(h) > 0 /\ \A i \in 1..Len(h) : HexDigVal(h[i]) >= 0
RECURSIVE StripLeadingZeros(_)
StripLeadingZeros(h) == IF Len(h) > 1 /\ h[1] = 48 THEN StripLeadingZeros(Tail(h)) ELSE h
RECURSIVE HexNum(_)
HexNum(h) == IF h = << >> THEN 0 ELSE 16 * HexNum(SubSeq(h, 1, Len(h) - 1)) + HexDigVal(h[Len(h)])
\* the scalar value a hex-digit string denotes, -1 if none (no digits, a non-digit, more than six
\* significant digits, beyond U+10FFFF, a surrogate)
ScalarOf(h) == IF ~IsHex(h) THEN -1
               ELSE LET z == StripLeadingZeros(h) IN
                    IF Len(z) > 6 THEN -1
                    ELSE LET v == HexNum(z) IN IF v > MaxScalar \/ IsSurrogate(v) THEN -1 ELSE v

RECURSIVE HexUp(_)
HexUp(n) == IF n < 16 THEN <<HexDigitU(n)>> ELSE HexUp(n \div 16) \o <<HexDigitU(n % 16)>>

EscCodePoints == HexLenBounds \cup SurrogateNeighbours \cup {65, 233, 955, 128512, 160}
\* minimal digits in both cases, zero-padded to 6 and to 8 digits
GoodHex == UNION { { Hex(c), HexUp(c), PadTo(Hex(c), 6), PadTo(HexUp(c), 8) } : c \in EscCodePoints }
BadHex == { << >>,                                                 \* no digit
            T(<<"g">>), T(<<"4","g">>), T(<<"4","1","-">>),        \* not a hex digit
            T(<<"D","8","0","0">>), T(<<"d","f","f","f">>), T(<<"0","0","D","8","0","0">>),   \* surrogates
            T(<<"1","1","0","0","0","0">>), T(<<"0","0","1","1","0","0","0","0">>),           \* > U+10FFFF
            T(<<"F","F","F","F","F","F">>), T(<<"F","F","F","F","F","F","F","F">>),
            T(<<"1","0","0","0","0","0","0","0","0">>),            \* 2^32: wraps to 0 in 32 bits
            T(<<"1","0","0","0","0","0","0","4","1">>),            \* 2^32 + 0x41
            T(<<"0","0","0","0","0","0","0","0","4","1">>) }       \* ten digits, value 0x41: legal
HexForms == GoodHex \cup BadHex

\* mnemonic escapes \t \n \r \a \b and the escaped delimiters \" \\ (strings) and \| (symbols), R7RS 6.7 / 7.1.1
MnVal(c) == CASE c = 116 -> 9 [] c = 110 -> 10 [] c = 114 -> 13 [] c = 97 -> 7 [] c = 98 -> 8
              [] c = 92 -> 92 [] c = 124 -> 124 [] c = 34 -> 34 [] OTHER -> -1
\* "wrapped" contexts (strw, symw): the escape stands between a prefix and a suffix of ordinary characters
\* of every UTF-8 length (1 byte a f, 2 bytes U+E9 U+3BB, 3 bytes U+20AC, 4 bytes U+1F600): a lexer that
\* copies the text scanned so far when it meets the first escape must count characters and bytes alike
PfxTab == << <<955>>, <<955, 955>>, <<8364, 97>>, <<128512>>, <<97, 955>>, <<233, 8364, 128512>> >>
SfxTab == << << >>, <<955>>, <<98>> >>
WrapEscapes(ctx) == { [syn |-> "x", hex |-> <<52, 49>>], [syn |-> "x", hex |-> <<51, 98, 98>>],
                      [syn |-> "x", hex |-> <<49, 70, 54, 48, 48>>],
                      [syn |-> "mn", hex |-> <<116>>], [syn |-> "mn", hex |-> <<110>>],
                      [syn |-> "mn", hex |-> IF ctx = "symw" THEN <<124>> ELSE <<34>>] }
                    \cup (IF ctx = "strw" THEN {[syn |-> "mn", hex |-> <<92>>]} ELSE {})
EscBody(syn, h) == CASE syn = "x"  -> <<92, 120>> \o h \o <<59>>
                     [] syn = "mn" -> <<92>> \o h
                     [] syn = "u"  -> <<92, 117>> \o h \o <<59>>
                     [] syn = "ub" -> <<92, 117, 123>> \o h \o <<125>>
                     [] syn = "xn" -> <<92, 120>> \o h
EscCharBody(syn, h) == CASE syn = "x"  -> <<120>> \o h
                         [] syn = "u"  -> <<117>> \o h
                         [] syn = "ub" -> <<117, 123>> \o h \o <<125>>
EscText(r) == CASE r.ctx = "str"  -> DQ \o EscBody(r.syn, r.hex) \o DQ
                [] r.ctx = "sym"  -> BAR \o EscBody(r.syn, r.hex) \o BAR
                [] r.ctx = "strf" -> DQ \o <<48>> \o EscBody(r.syn, r.hex) \o <<102>> \o DQ     \* "0<esc>f": hex digits around
                [] r.ctx = "symf" -> BAR \o <<97>> \o EscBody(r.syn, r.hex) \o <<102>> \o BAR
                [] r.ctx = "char" -> HashBs \o EscCharBody(r.syn, r.hex)
                [] r.ctx = "strw" -> DQ \o r.pfx \o EscBody(r.syn, r.hex) \o r.sfx \o DQ
                [] r.ctx = "symw" -> BAR \o r.pfx \o EscBody(r.syn, r.hex) \o r.sfx \o BAR
\* the code point the text denotes, -1 = the text must be rejected
EscValue(r) == IF r.syn = "mn" THEN MnVal(r.hex[1])
               ELSE IF r.syn = "xn" \/ (STRICT /\ r.syn # "x") THEN -1
               ELSE IF r.ctx = "char" /\ r.hex = << >> /\ r.syn = "x" THEN 120      \* #\x is the letter x
               ELSE IF r.ctx = "char" /\ r.hex = << >> /\ r.syn = "u" THEN 117      \* #\u is the letter u
               ELSE ScalarOf(r.hex)
EscDatum(r) == LET v == EscValue(r) IN
               CASE r.ctx = "str" -> StrD(<<v>>) [] r.ctx = "sym" -> SymD(<<v>>) [] r.ctx = "char" -> CharD(v)
                 [] r.ctx = "strf" -> StrD(<<48, v, 102>>) [] r.ctx = "symf" -> SymD(<<97, v, 102>>)
                 [] r.ctx = "strw" -> StrD(r.pfx \o <<v>> \o r.sfx) [] r.ctx = "symw" -> SymD(r.pfx \o <<v>> \o r.sfx)

EscNext == /\ stack = << >>
           /\ \/ \E ctx \in {"str", "sym", "char", "strf", "symf"}, syn \in {"x", "u", "ub", "xn"}, h \in HexForms :
                    /\ ~(ctx = "char" /\ syn = "xn")
                    /\ stack' = << [k |-> "esc", ctx |-> ctx, syn |-> syn, hex |-> h] >>
              \/ \E ctx \in {"strw", "symw"}, p \in 1..Len(PfxTab), q \in 1..Len(SfxTab) : \E e \in WrapEscapes(ctx) :
                    stack' = << [k |-> "esc", ctx |-> ctx, syn |-> e.syn, hex |-> e.hex, pfx |-> PfxTab[p], sfx |-> SfxTab[q]] >>
           /\ UNCHANGED <<nodes, txt>>

-----------------------------------------------------------------------------
(* The numeric-literal generator (MODE = "numlit"): the R7RS grammar of decimal reals and rectangular  *)
(* complex numbers  <sign> <digits> [. <digits>] [e <sign> <digits>]  [ <sign> <ureal> i ].  Every text *)
(* of the grammar denotes a number - in the source text of a program, for `read` and for                *)
(* string->number - and a real written with a point or an exponent is inexact.  (The VALUE of inexact   *)
(* literals is C10's matter; here only "it is a number, of this exactness, and number->string of it is  *)
(* read back as a number again".)                                                                       *)
NumSigns == <<"", "+", "-">>
NumMants == <<"1", "12", "1.5", "0.25">>
NumExps  == <<"", "e7", "e-7", "e+7", "E-9">>
NumLitNext ==
  /\ stack = << >>
  /\ \E rs \in 1..3, rm \in 1..4, re \in 1..5 :
        \/ stack' = << [k |-> "numlit", text |-> NumSigns[rs] \o NumMants[rm] \o NumExps[re], cplx |-> FALSE,
                         inexact |-> (rm >= 3 \/ re >= 2)] >>
        \/ \E is \in 2..3, im \in 1..4, ie \in 1..5 :
              stack' = << [k |-> "numlit", cplx |-> TRUE, inexact |-> TRUE,
                           text |-> NumSigns[rs] \o NumMants[rm] \o NumExps[re] \o NumSigns[is] \o NumMants[im] \o NumExps[ie] \o "i"] >>
  /\ UNCHANGED <<nodes, txt>>

-----------------------------------------------------------------------------
Init == stack = << >> /\ nodes = 0 /\ txt = << >>
Next == CASE MODE = "data" -> DataNext [] MODE = "esc" -> EscNext [] MODE = "numlit" -> NumLitNext [] OTHER -> StrNext
Spec == Init /\ [][Next]_vars

TypeOK == /\ nodes \in 0..NODES
          /\ Len(txt) <= MAXLEN
          /\ \A i \in 1..Len(txt) : txt[i] \in Alphabet

-----------------------------------------------------------------------------
(* Cases: rendered replay steps and expected observations.                 *)

\* the text of a code sequence as a Scheme list of integers: "(40 41)"
CodeList(cs) == "(" \o CodeArgs(cs) \o ")"

\* Scheme phrases (all inline: a case needs no definitions)
Written(x) == "(let ((p (open-output-string))) (write " \o x \o " p) (get-output-string p))"   \* write to a string
CodesOf(x) == "(map char->integer (string->list " \o x \o "))"
ReadOf(x)  == "(read (open-input-string " \o x \o "))"
NothingLeft == "(eof-object? " \o ReadOf(MkStr(<< >>)) \o ")"    \* a fresh empty port gives eof

\* src is a sequence of pieces: a TLA+ string (ASCII) or a text (sequence of code points)
ReadStep(name, d, text) ==
  [name |-> name, reads |-> TRUE,
   src |-> <<"(let ((d2 " \o ReadOf(MkStr(text)) \o ")) (emit (equal? " \o Ctor(d)
             \o " d2)) (emit " \o NothingLeft \o ") d2)">>,
   emit |-> <<"#true", "#true">>]
QuoteStep(name, d, text) ==
  [name |-> name, reads |-> FALSE,
   src |-> <<"(emit (equal? " \o Ctor(d) \o " (quote ", text, ")))">>,
   emit |-> <<"#true">>]

\* number of quotation forms in a datum (tiers sample the data with two or more of them)
RECURSIVE QCount(_)
QCount(d) == CASE d.k = "pair" -> (IF IsQuoteForm(d) THEN 1 ELSE 0) + QCount(d.a) + QCount(d.d)
               [] d.k = "vec" -> IF d.es = << >> THEN 0 ELSE QCount(d.es[1]) + (IF Len(d.es) > 1 THEN QCount(d.es[2]) ELSE 0)
               [] OTHER -> 0

CaseOf(d) ==
  [kind |-> "datum", nodes |-> nodes, qn |-> QCount(d),
   ctor |-> Ctor(d), ext |-> Ext(d), alt1 |-> Alt(d, 1), alt2 |-> Alt(d, 2),
   steps |-> <<
     \* (4) the written text is the external representation
     [name |-> "w", reads |-> FALSE,
      src |-> <<"(emit " \o CodesOf(Written(Ctor(d))) \o ")">>,
      emit |-> <<CodeList(Ext(d))>>],
     \* (1)-(3) write, read back: equal, nothing left in the reader, and written the same again
     [name |-> "rt", reads |-> TRUE,
      src |-> <<"(let* ((d " \o Ctor(d) \o ") (t " \o Written("d") \o ") (d2 " \o ReadOf("t") \o ")) (emit (equal? d d2)) "
                \o "(emit " \o NothingLeft \o ") (emit (if (eof-object? d2) 0 (equal? t " \o Written("d2") \o "))) (list t d2))">>,
      emit |-> <<"#true", "#true", "#true">>],
     \* reading the spec's texts at run time gives the datum
     ReadStep("rd-ext", d, Ext(d)), ReadStep("rd-alt1", d, Alt(d, 1)), ReadStep("rd-alt2", d, Alt(d, 2)),
     \* ... and so does the compiler's reader (quote)
     QuoteStep("q-ext", d, Ext(d)), QuoteStep("q-alt1", d, Alt(d, 1)), QuoteStep("q-alt2", d, Alt(d, 2)) >>]

EscCaseOf(r) ==
  LET ok == EscValue(r) >= 0  t == EscText(r) IN
  [kind |-> "esc", accept |-> ok, ctx |-> r.ctx, syn |-> r.syn, text |-> t,
   steps |-> IF ok THEN << ReadStep("rd-esc", EscDatum(r), t), QuoteStep("q-esc", EscDatum(r), t) >> ELSE << >>]

Emit == CASE MODE = "data" -> (Len(stack) = 1 => PrintT(<<"REPLAY", ToJson(CaseOf(stack[1]))>>))
          [] MODE = "esc"  -> (Len(stack) = 1 => PrintT(<<"REPLAY", ToJson(EscCaseOf(stack[1]))>>))
          [] MODE = "numlit" -> (Len(stack) = 1 => PrintT(<<"REPLAY", ToJson([kind |-> "numlit", text |-> stack[1].text,
                                                                  cplx |-> stack[1].cplx, inexact |-> stack[1].inexact])>>))
          [] OTHER -> PrintT(<<"REPLAY", ToJson([kind |-> "text", text |-> txt])>>)
=============================================================================
