\* every builtin of the engine applied to a shared immutable value (the check instantiates $p)
SPECIFICATION Spec
CONSTANTS
  FAMS = {"sweep"}
  TYPES = {"hash", "hset", "ivec", "list", "str"}
  DEPTH = 0
  KINDS0 = {"G", "P", "L", "M", "B", "C", "EL", "EP", "EV", "EI", "EH", "ES", "K", "WL", "WM"}
  KINDS1 = {"G", "L", "M", "B", "C", "EL", "EP", "EV", "EI", "EH", "ES", "K", "WL", "WM"}
  KINDSR = {}
  KEEP1 = 1000
  KEEP2 = 1000
  KEEPR = 1000
  SEED = 1
  VIAS = {"d", "f", "g", "k"}
  ACTS = {"share", "upd", "upd2"}
  MAXBASE = 1
  MAXLEN = 6
  BASESET = "small"
  LOOPN = {}
  LOOPEVERY = {}
  LOOPSTYLES = {}
  SWEEPSHAPES = {"LG", "MG", "ME", "MC"}
INVARIANTS TypeOK FunctionOK Emit
PROPERTIES Immutable
CHECK_DEADLOCK FALSE
