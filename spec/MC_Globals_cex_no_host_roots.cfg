SPECIFICATION Spec
CONSTANTS
  ValNames = {"v"}
  FnNames = {"f", "g"}
  MaxSteps = 7
  Defects = {"no_host_roots"}
INVARIANTS CexC06
CHECK_DEADLOCK FALSE
