SPECIFICATION Spec
CONSTANTS
  N = 3
  Holders = {"global", "stack", "handler"}
  Scanned = {"global", "stack", "handler"}
  MaxOps = 7
INVARIANTS C04 C19a C19b
CHECK_DEADLOCK FALSE
