\* binary updates (hash-union / append / ... of TWO aliases): two bases or two references to one object, either
\* operand moved or not, the other one held by any holder kind
SPECIFICATION Spec
CONSTANTS
  FAMS = {"alias"}
  TYPES = {"hash", "hset", "ivec", "list", "str"}
  DEPTH = 3
  KINDS0 = {"G", "P", "L", "M", "B", "C", "EL", "EP", "EV", "EI", "EH", "EK", "ES", "EM", "S", "PR", "RA", "K", "WL", "WM", "WE"}
  KINDS1 = {"L", "M", "G", "C", "EL", "WM"}
  KINDSR = {"L", "M"}
  KEEP1 = 1000
  KEEP2 = 200
  KEEPR = 100
  SEED = 1
  VIAS = {"d", "f"}
  ACTS = {"base", "share", "upd2"}
  MAXBASE = 2
  MAXLEN = 6
  BASESET = "small"
  LOOPN = {}
  LOOPEVERY = {}
  LOOPSTYLES = {}
  SWEEPSHAPES = {}
INVARIANTS TypeOK FunctionOK Emit
PROPERTIES Immutable
CHECK_DEADLOCK FALSE
