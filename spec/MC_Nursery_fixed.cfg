SPECIFICATION Spec
CONSTANTS
  MaxGuards = 3
  MaxActs = 3
  Engines = 2
  RefLevel = "full"
  Places = {"global"}
  Derive = TRUE
  Pair = FALSE
  Threads = FALSE
  Defects = {}
  EmitCases = FALSE
INVARIANTS TypeOK InvNoDangling InvFaithful InvChildLive InvNoResidue
CHECK_DEADLOCK FALSE
VIEW DesignView
