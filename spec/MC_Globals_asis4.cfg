SPECIFICATION Spec
CONSTANTS
  ValNames = {"v"}
  FnNames = {"f", "g"}
  MaxSteps = 4
  Defects = {"no_host_roots"}
INVARIANTS Emit
CHECK_DEADLOCK FALSE
