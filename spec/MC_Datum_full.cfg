SPECIFICATION Spec
CONSTANTS
  MODE = "data"
  NODES = 2
  LEAFSET = "full"
  MAXLEN = 0
  STRICT = FALSE
INVARIANTS TypeOK Emit
CHECK_DEADLOCK FALSE
