SPECIFICATION HSpec
CONSTANTS
  RICH = FALSE
  MINNODES = 0
  MAXSTACK = 99
  BUDGET = 0
  FUEL = 3000
  MAXINT = 100000
  CTXS = {}
  PLACES = {}
  VALS = {}
  NEST = FALSE
  PAIRS = FALSE
  INTF = {"sep", "one", "late", "expr"}
  PATLEN = 0
  INLEN = 0
  ELEMKINDS = {}
  INKINDS = {}
INVARIANTS InDomain SynErrSilent GlobalsSuffixed IntfConsistent HEmit
CHECK_DEADLOCK FALSE
