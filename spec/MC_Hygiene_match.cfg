SPECIFICATION HSpec
CONSTANTS
  RICH = FALSE
  MINNODES = 0
  MAXSTACK = 99
  BUDGET = 0
  FUEL = 3000
  MAXINT = 100000
  CTXS = {}
  PLACES = {}
  VALS = {}
  NEST = FALSE
  PAIRS = FALSE
  INTF = {}
  PATLEN = 2
  INLEN = 3
  ELEMKINDS = {"v", "u", "k", "l2", "le", "lbe", "ld", "lde"}
  INKINDS = {"1", "k", "l2", "ll", "d3"}
INVARIANTS InDomain SynErrSilent GlobalsSuffixed IntfConsistent HEmit
CHECK_DEADLOCK FALSE
