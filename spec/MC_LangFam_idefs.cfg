SPECIFICATION SpecFam
CONSTANTS
  RICH = FALSE
  MINNODES = 0
  MAXSTACK = 99
  BUDGET = 0
  FUEL = 4000
  MAXINT = 100000000
  FAMILY = "idefs"
INVARIANTS TypeOK EnvOK BoundaryOK EmitFam
CHECK_DEADLOCK FALSE
