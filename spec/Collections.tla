---------------------------- MODULE Collections ----------------------------
(***************************************************************************)
(* C11, second half: any sequence of operations on lists, immutable        *)
(* vectors, hash maps, hash sets, strings and byte vectors yields what the *)
(* same sequence yields on the corresponding mathematical object.          *)
(*                                                                         *)
(* MODEL.  A collection under test is a mathematical value:                *)
(*   list, ivec   finite sequence of integers                              *)
(*   str          finite sequence of characters over {a b ~ A B ^} where   *)
(*                ~ and ^ stand for U+03BB and U+039B (two UTF-8 bytes     *)
(*                each; the check substitutes the real characters)         *)
(*   bytes, mvec  finite sequence of integers (bytes: 0..255), with OBJECT *)
(*                IDENTITY (byte vectors and `vector`s are mutable: in-    *)
(*                place operations change every alias, copying operations  *)
(*                create a new object)                                     *)
(*   hash         finite function key -> integer   (set of <<key, val>>)   *)
(*   hset         finite set of keys                                       *)
(* Keys come from a universe of values of different kinds, several of them *)
(* collections themselves; every key has two spellings (e.g. "ab" and      *)
(* (string-append "a" "b")) - updates use the first, queries the second -  *)
(* so key identity is equal?, never pointer identity.                      *)
(*                                                                         *)
(* A behaviour: Init picks a type, a base value (empty, singleton, longer,  *)
(* with duplicate keys) and a mode; every step applies one operation of    *)
(* the type to the current value with arguments drawn from the boundary    *)
(* set {-1, 0, 1, len-1, len, len+1} (indices) / the key universe / small  *)
(* constant collections.  The model computes the result:                   *)
(*   "val"     a new current value; the battery of queries of its type is  *)
(*             then observed on it (printed form, length, first/last       *)
(*             element, boundary lookups, every key of the universe ...)   *)
(*   "err"     the operation is outside its domain: the program must       *)
(*             signal an error (class only); the behaviour ends            *)
(*   "unspec"  neither Steel's documentation nor R7RS/SRFI fix the result: *)
(*             only "does not crash" is required; the behaviour ends       *)
(* A behaviour also ends after K operations; then the base value c0 is     *)
(* observed again (persistence: updates never change their argument -      *)
(* except byte vectors, whose aliasing the model tracks).                  *)
(* mode "ex": all sequences of <= KEX operations; mode "sp": a SEED-       *)
(* selected pseudo-random sub-tree (about BRANCH operations kept per step) *)
(* of the sequences of <= KSP operations.                                  *)
(*                                                                         *)
(* Hash maps / sets are never observed through their print order: only     *)
(* through lookups of every key, lengths, order-independent folds, and     *)
(* equal? against a freshly constructed expected value.                    *)
(*                                                                         *)
(* NAMED DEVIATIONS adopted (documented behaviour of Steel):               *)
(*  D1  list-drop saturates: (list-drop '() 3) => '() (doc example in      *)
(*      primitives/lists.rs)                                               *)
(*  D2  hashset-difference is the SYMMETRIC difference (doc example:       *)
(*      (hashset-difference (hashset 10 20 30) (hashset 20 30 40)) =>      *)
(*      (hashset 40 10), primitives/hashsets.rs)                           *)
(*  D3  hash-union keeps the LEFT value for common keys (documented)       *)
(*  D4  (hash k v k w) / (hashset k k): the later duplicate wins / is      *)
(*      absorbed (maintainer tests hm_construct_...)                       *)
(*  D5  mutable-vector-pop! / try-list-ref / hash-try-get answer #false    *)
(*      instead of signalling (documented "try" variants)                  *)
(* "unspec" (not decided): take / immutable-vector-take / -drop with a     *)
(* count greater than the length; immutable-vector-rest of an empty vector;*)
(* vector-copy! into too little room (R7RS: "it is an error", no signal    *)
(* demanded).                                                              *)
(* NOT adopted: a negative count or index is outside every operation's     *)
(* domain => "err" (Steel converts some of them to huge unsigned numbers). *)
(***************************************************************************)
EXTENDS Integers, Sequences, TLC, Json, FiniteSets, SequencesExt

CONSTANTS TYPES,    \* subset of {"list", "ivec", "mvec", "hash", "hset", "str", "bytes", "ctor"}
          MODES,    \* subset of {"ex", "sp"}
          KEX,      \* operations per exhaustive sequence
          KSP,      \* operations per sparse sequence
          SEED, BRANCH,
          MAXLEN    \* growth bound of the collection

VARIABLES mode, cur, base, alias, k, code, src, exps, labs, optags, status
vars == <<mode, cur, base, alias, k, code, src, exps, labs, optags, status>>

Force(f) == f \o << >>          \* TLC: make a lazily built sequence concrete (see Equal.tla)

-----------------------------------------------------------------------------
(* Values *)
Coll(ty, s, e) == [ty |-> ty, s |-> s, e |-> e]
SeqTypes == {"list", "ivec", "mvec", "str", "bytes"}

\* key universe: id, spelling used by updates, spelling used by queries
KeyTab == <<
  [id |-> "k1", a |-> "1",                        b |-> "(- (opaque 2) 1)"],
  [id |-> "kf", a |-> "1.0",                      b |-> "(exact->inexact (opaque 1))"],
  [id |-> "kl", a |-> "(list 1 2)",               b |-> "(cons 1 (list 2))"],
  [id |-> "ks", a |-> "\"ab\"",                   b |-> "(string-append \"a\" (opaque \"b\"))"],
  [id |-> "kh", a |-> "(hash 1 2)",               b |-> "(hash-insert (hash) 1 2)"],
  [id |-> "kv", a |-> "(immutable-vector 1 2)",   b |-> "(list->vector (list 1 2))"],
  \* a key that is a map with two entries, written in two insertion orders
  [id |-> "kH", a |-> "(hash 1 2 3 4)",           b |-> "(hash 3 4 1 2)"] >>
KU == {KeyTab[i].id : i \in 1..Len(KeyTab)}
KeySeq == [i \in 1..Len(KeyTab) |-> KeyTab[i].id]
KRec(id) == KeyTab[CHOOSE i \in 1..Len(KeyTab) : KeyTab[i].id = id]
KA(id) == KRec(id).a
KB(id) == KRec(id).b

\* constant collections used as second operands: "e" empty, "a" one element, "b" two
ConstSeq(ty, y) ==
  CASE ty \in {"list", "ivec", "mvec"} -> (CASE y = "e" -> << >> [] y = "a" -> <<3>> [] y = "b" -> <<3, 1>>)
    [] ty = "str"   -> (CASE y = "e" -> << >> [] y = "a" -> <<"b">> [] y = "b" -> <<"~", "a">>)
    [] ty = "bytes" -> (CASE y = "e" -> << >> [] y = "a" -> <<9>> [] y = "b" -> <<0, 255>>)
ConstMap(y) == CASE y = "e" -> {} [] y = "a" -> {<<"k1", 9>>} [] y = "b" -> {<<"kl", 9>>, <<"kf", 9>>}
ConstSet(y) == CASE y = "e" -> {} [] y = "a" -> {"k1"} [] y = "b" -> {"kl", "kf"}

-----------------------------------------------------------------------------
(* Printed forms (what `emit` records) *)
RECURSIVE Join(_, _)
Join(ss, sep) == IF Len(ss) = 0 THEN "" ELSE IF Len(ss) = 1 THEN ss[1] ELSE ss[1] \o sep \o Join(Tail(ss), sep)
RBool(b) == IF b THEN "#true" ELSE "#false"
RInts(s) == Join(Force([i \in 1..Len(s) |-> ToString(s[i])]), " ")
RList(s) == "(" \o RInts(s) \o ")"
RIvec(s) == "#(" \o RInts(s) \o ")"
RStr(s)  == "\"" \o Join(s, "") \o "\""
RChar(c) == "#\\" \o c
RChars(s) == "(" \o Join(Force([i \in 1..Len(s) |-> RChar(s[i])]), " ") \o ")"
HexD == <<"0", "1", "2", "3", "4", "5", "6", "7", "8", "9", "A", "B", "C", "D", "E", "F">>
Hex2(b) == "#x" \o HexD[(b \div 16) + 1] \o HexD[(b % 16) + 1]
RBytes(s) == "#u8(" \o Join(Force([i \in 1..Len(s) |-> Hex2(s[i])]), " ") \o ")"
RSeq(ty, s) == CASE ty = "list" -> RList(s) [] ty \in {"ivec", "mvec"} -> RIvec(s) [] ty = "str" -> RStr(s) [] ty = "bytes" -> RBytes(s)

\* Scheme source that constructs a value afresh
CtorName(ty) == CASE ty = "list" -> "list" [] ty = "ivec" -> "immutable-vector" [] ty = "mvec" -> "vector" [] ty = "bytes" -> "bytes"
SrcSeq(ty, s) == IF ty = "str" THEN RStr(s)
                 ELSE "(" \o CtorName(ty) \o (IF Len(s) = 0 THEN "" ELSE " " \o RInts(s)) \o ")"
SrcMap(e) == LET ks == SetToSeq(e) IN
             "(hash" \o Join(Force([i \in 1..Len(ks) |-> " " \o KB(ks[i][1]) \o " " \o ToString(ks[i][2])]), "") \o ")"
SrcSet(e) == LET ks == SetToSeq(e) IN
             "(hashset" \o Join(Force([i \in 1..Len(ks) |-> " " \o KB(ks[i])]), "") \o ")"

-----------------------------------------------------------------------------
(* Characters *)
Up(c)   == CASE c = "a" -> "A" [] c = "b" -> "B" [] c = "~" -> "^" [] OTHER -> c
Down(c) == CASE c = "A" -> "a" [] c = "B" -> "b" [] c = "^" -> "~" [] OTHER -> c
Utf8Len(s) == Len(s) + Cardinality({i \in 1..Len(s) : s[i] \in {"~", "^"}})
RECURSIVE Replace(_, _, _)                 \* every occurrence of the 1-character string x by y
Replace(s, x, y) == IF Len(s) = 0 THEN << >> ELSE <<IF s[1] = x THEN y ELSE s[1]>> \o Replace(Tail(s), x, y)
RECURSIVE MemberTail(_, _)                 \* (member x s): the tail starting at the first x, or << >>
MemberTail(s, x) == IF Len(s) = 0 THEN << >> ELSE IF s[1] = x THEN s ELSE MemberTail(Tail(s), x)
Rev(s) == [i \in 1..Len(s) |-> s[Len(s) + 1 - i]]
Sub(s, a, b) == SubSeq(s, a + 1, b)        \* 0-based half-open [a, b)

MapGet(e, kid) == IF \E p \in e : p[1] = kid THEN (CHOOSE p \in e : p[1] = kid)[2] ELSE -1
MapDom(e) == {p[1] : p \in e}
MapPut(e, kid, v) == {p \in e : p[1] # kid} \cup {<<kid, v>>}
MapUnion(l, r) == l \cup {p \in r : p[1] \notin MapDom(l)}           \* D3: left value wins
RECURSIVE SumVals(_)
SumVals(e) == IF e = {} THEN 0 ELSE LET p == CHOOSE q \in e : TRUE IN p[2] + SumVals(e \ {p})

-----------------------------------------------------------------------------
(* Operations.  An operation instance is [o, a, b, x]; Res(kind, value).    *)
Op(o, a, b, x) == [o |-> o, a |-> a, b |-> b, x |-> x]
Val(c)   == [kind |-> "val", v |-> c, inplace |-> FALSE]
ValIn(c) == [kind |-> "val", v |-> c, inplace |-> TRUE]
Err      == [kind |-> "err", v |-> Coll("list", << >>, {}), inplace |-> FALSE]
Unspec   == [kind |-> "unspec", v |-> Coll("list", << >>, {}), inplace |-> FALSE]

Idx(n) == {-1, 0, 1, n - 1, n, n + 1}
Ranges(n) == {<<0, n>>, <<1, n>>, <<0, n - 1>>, <<n, n>>, <<0, 0>>, <<1, 0>>, <<-1, n>>, <<0, n + 1>>, <<n + 1, n + 1>>}
Consts == {"e", "a", "b"}

\* ---- lists
ListOps(s) ==
  LET n == Len(s) IN
     (IF n < MAXLEN THEN {Op("cons", x, 0, "") : x \in {1, 2}} \cup {Op("pushb", 2, 0, "")} ELSE {})
  \cup {Op("cdr", 0, 0, ""), Op("rest", 0, 0, ""), Op("reverse", 0, 0, ""), Op("sort", 0, 0, ""), Op("l2v", 0, 0, "")}
  \cup (IF n + 2 <= MAXLEN THEN {Op(o, 0, 0, y) : o \in {"appR", "appL"}, y \in Consts} ELSE {})
  \cup {Op(o, i, 0, "") : o \in {"take", "tail", "ldrop", "drop"}, i \in Idx(n)}
  \* error-only (their ordinary results are in the query battery)
  \cup (IF n = 0 THEN {Op(o, 0, 0, "") : o \in {"car", "first", "last"}} ELSE {})
  \cup {Op("ref", i, 0, "") : i \in {-1, n}}
  \cup (IF n < 2 THEN {Op("second", 0, 0, "")} ELSE {})
  \cup (IF n < 3 THEN {Op("third", 0, 0, "")} ELSE {})
ListStep(s, op) ==
  LET n == Len(s)  L(t) == Val(Coll("list", t, {})) IN
  CASE op.o = "cons"    -> L(<<op.a>> \o s)
    [] op.o = "pushb"   -> L(s \o <<op.a>>)
    [] op.o \in {"cdr", "rest"} -> IF n = 0 THEN Err ELSE L(Tail(s))
    [] op.o = "reverse" -> L(Rev(s))
    [] op.o = "sort"    -> L(SortSeq(s, <))
    [] op.o = "l2v"     -> Val(Coll("ivec", s, {}))
    [] op.o = "appR"    -> L(s \o ConstSeq("list", op.x))
    [] op.o = "appL"    -> L(ConstSeq("list", op.x) \o s)
    [] op.o = "take"    -> IF op.a < 0 THEN Err ELSE IF op.a > n THEN Unspec ELSE L(Sub(s, 0, op.a))
    [] op.o = "tail"    -> IF op.a < 0 \/ op.a > n THEN Err ELSE L(Sub(s, op.a, n))
    [] op.o = "ldrop"   -> IF op.a < 0 THEN Err ELSE IF op.a >= n THEN L(<< >>) ELSE L(Sub(s, op.a, n))   \* D1
    [] op.o = "drop"    -> IF op.a < 0 \/ op.a > n THEN Err ELSE L(Sub(s, op.a, n))
    [] OTHER            -> Err          \* car first last ref second third: only offered when they fail
ListRender(op, v) ==
  CASE op.o = "cons"    -> "(cons " \o ToString(op.a) \o " " \o v \o ")"
    [] op.o = "pushb"   -> "(push-back " \o v \o " " \o ToString(op.a) \o ")"
    [] op.o = "cdr"     -> "(cdr " \o v \o ")"
    [] op.o = "rest"    -> "(rest " \o v \o ")"
    [] op.o = "reverse" -> "(reverse " \o v \o ")"
    [] op.o = "sort"    -> "(sort " \o v \o " <)"
    [] op.o = "l2v"     -> "(list->vector " \o v \o ")"
    [] op.o = "appR"    -> "(append " \o v \o " " \o SrcSeq("list", ConstSeq("list", op.x)) \o ")"
    [] op.o = "appL"    -> "(append " \o SrcSeq("list", ConstSeq("list", op.x)) \o " " \o v \o ")"
    [] op.o = "take"    -> "(take " \o v \o " " \o ToString(op.a) \o ")"
    [] op.o = "tail"    -> "(list-tail " \o v \o " " \o ToString(op.a) \o ")"
    [] op.o = "ldrop"   -> "(list-drop " \o v \o " " \o ToString(op.a) \o ")"
    [] op.o = "drop"    -> "(drop " \o v \o " " \o ToString(op.a) \o ")"
    [] op.o = "car"     -> "(car " \o v \o ")"
    [] op.o = "first"   -> "(first " \o v \o ")"
    [] op.o = "last"    -> "(last " \o v \o ")"
    [] op.o = "ref"     -> "(list-ref " \o v \o " " \o ToString(op.a) \o ")"
    [] op.o = "second"  -> "(second " \o v \o ")"
    [] op.o = "third"   -> "(third " \o v \o ")"
\* query battery: <<label, source, expected>>
ListObs(s, v) ==
  LET n == Len(s) IN
  << <<"print", v, RList(s)>>,
     <<"length", "(length " \o v \o ")", ToString(n)>>,
     <<"empty?", "(list (empty? " \o v \o ") (null? " \o v \o ") (pair? " \o v \o "))",
                 "(" \o RBool(n = 0) \o " " \o RBool(n = 0) \o " " \o RBool(n > 0) \o ")">>,
     <<"try-ref-0", "(try-list-ref " \o v \o " 0)", IF n > 0 THEN ToString(s[1]) ELSE "#false">>,
     <<"try-ref-len", "(try-list-ref " \o v \o " " \o ToString(n) \o ")", "#false">>,
     <<"member", "(member 2 " \o v \o ")", IF MemberTail(s, 2) = << >> THEN "#false" ELSE RList(MemberTail(s, 2))>>,
     <<"reverse", "(reverse " \o v \o ")", RList(Rev(s))>>,
     <<"equal-fresh", "(equal? " \o v \o " " \o SrcSeq("list", s) \o ")", "#true">> >>
  \o (IF n = 0 THEN << >> ELSE
      << <<"ends", "(list (car " \o v \o ") (first " \o v \o ") (last " \o v \o ") (list-ref " \o v \o " " \o ToString(n - 1) \o "))",
                   "(" \o ToString(s[1]) \o " " \o ToString(s[1]) \o " " \o ToString(s[n]) \o " " \o ToString(s[n]) \o ")">>,
         <<"cdr", "(cdr " \o v \o ")", RList(Tail(s))>> >>)

\* ---- immutable vectors
IvecOps(s) ==
  LET n == Len(s) IN
     (IF n < MAXLEN THEN {Op("push", 2, 0, ""), Op("pushf", 2, 0, "")} ELSE {})
  \cup {Op("set", i, 9, "") : i \in {-1, 0, n - 1, n}}
  \cup {Op("rest", 0, 0, ""), Op("v2l", 0, 0, "")}
  \cup (IF n + 2 <= MAXLEN THEN {Op(o, 0, 0, y) : o \in {"appR", "appL"}, y \in Consts} ELSE {})
  \cup {Op(o, i, 0, "") : o \in {"take", "drop", "copy1"}, i \in Idx(n)}
  \cup {Op("copy", r[1], r[2], "") : r \in Ranges(n)}
  \cup {Op("ref", i, 0, "") : i \in {-1, n}}
  \cup (IF n = 0 THEN {Op("popf", 0, 0, "")} ELSE {})
IvecStep(s, op) ==
  LET n == Len(s)  V(t) == Val(Coll("ivec", t, {})) IN
  CASE op.o = "push"  -> V(s \o <<op.a>>)
    [] op.o = "pushf" -> V(<<op.a>> \o s)
    [] op.o = "set"   -> IF op.a < 0 \/ op.a >= n THEN Err ELSE V([s EXCEPT ![op.a + 1] = op.b])
    [] op.o = "rest"  -> IF n = 0 THEN Unspec ELSE V(Tail(s))
    [] op.o = "v2l"   -> Val(Coll("list", s, {}))
    [] op.o = "appR"  -> V(s \o ConstSeq("ivec", op.x))
    [] op.o = "appL"  -> V(ConstSeq("ivec", op.x) \o s)
    [] op.o = "take"  -> IF op.a < 0 THEN Err ELSE IF op.a > n THEN Unspec ELSE V(Sub(s, 0, op.a))
    [] op.o = "drop"  -> IF op.a < 0 THEN Err ELSE IF op.a > n THEN Unspec ELSE V(Sub(s, op.a, n))
    [] op.o = "copy1" -> IF op.a < 0 \/ op.a > n THEN Err ELSE V(Sub(s, op.a, n))
    [] op.o = "copy"  -> IF op.a < 0 \/ op.b > n \/ op.a > op.b THEN Err ELSE V(Sub(s, op.a, op.b))
    [] OTHER          -> Err          \* ref popf
IvecRender(op, v) ==
  CASE op.o = "push"  -> "(immutable-vector-push " \o v \o " " \o ToString(op.a) \o ")"
    [] op.o = "pushf" -> "(vector-push-front " \o v \o " " \o ToString(op.a) \o ")"
    [] op.o = "set"   -> "(immutable-vector-set " \o v \o " " \o ToString(op.a) \o " " \o ToString(op.b) \o ")"
    [] op.o = "rest"  -> "(immutable-vector-rest " \o v \o ")"
    [] op.o = "v2l"   -> "(immutable-vector->list " \o v \o ")"
    [] op.o = "appR"  -> "(immutable-vector-append " \o v \o " " \o SrcSeq("ivec", ConstSeq("ivec", op.x)) \o ")"
    [] op.o = "appL"  -> "(immutable-vector-append " \o SrcSeq("ivec", ConstSeq("ivec", op.x)) \o " " \o v \o ")"
    [] op.o = "take"  -> "(immutable-vector-take " \o v \o " " \o ToString(op.a) \o ")"
    [] op.o = "drop"  -> "(immutable-vector-drop " \o v \o " " \o ToString(op.a) \o ")"
    [] op.o = "copy1" -> "(immutable-vector-copy " \o v \o " " \o ToString(op.a) \o ")"
    [] op.o = "copy"  -> "(immutable-vector-copy " \o v \o " " \o ToString(op.a) \o " " \o ToString(op.b) \o ")"
    [] op.o = "ref"   -> "(vector-ref " \o v \o " " \o ToString(op.a) \o ")"
    [] op.o = "popf"  -> "(pop-front " \o v \o ")"
IvecObs(s, v) ==
  LET n == Len(s) IN
  << <<"print", v, RIvec(s)>>,
     <<"length", "(vector-length " \o v \o ")", ToString(n)>>,
     <<"->list", "(immutable-vector->list " \o v \o ")", RList(s)>>,
     <<"->list-range", "(immutable-vector->list " \o v \o " 0 " \o ToString(n) \o ")", RList(s)>>,
     <<"equal-fresh", "(equal? " \o v \o " " \o SrcSeq("ivec", s) \o ")", "#true">> >>
  \o (IF n = 0 THEN << >> ELSE
      << <<"ends", "(list (vector-ref " \o v \o " 0) (vector-ref " \o v \o " " \o ToString(n - 1) \o ") (pop-front " \o v \o "))",
                   "(" \o ToString(s[1]) \o " " \o ToString(s[n]) \o " " \o ToString(s[1]) \o ")">> >>)

\* ---- hash maps
\* keys offered to updates: the two-entry map key only in the sparse mode (every query looks it up)
KUpd == IF mode = "sp" THEN KU ELSE KU \ {"kH"}
HashOps(e) ==
     (IF Cardinality(e) < MAXLEN THEN {Op("ins", v, 0, kid) : kid \in KUpd, v \in {7, 8}} ELSE {})
  \cup {Op("rem", 0, 0, kid) : kid \in KUpd}
  \cup {Op(o, 0, 0, y) : o \in {"unionR", "unionL"}, y \in Consts}
  \cup {Op("clear", 0, 0, "")}
  \cup {Op("href", 0, 0, kid) : kid \in KUpd \ MapDom(e)}
HashStep(e, op) ==
  LET H(f) == Val(Coll("hash", << >>, f)) IN
  CASE op.o = "ins"    -> H(MapPut(e, op.x, op.a))
    [] op.o = "rem"    -> H({p \in e : p[1] # op.x})
    [] op.o = "unionR" -> H(MapUnion(e, ConstMap(op.x)))
    [] op.o = "unionL" -> H(MapUnion(ConstMap(op.x), e))
    [] op.o = "clear"  -> H({})
    [] OTHER           -> Err
\* constant operands are built with the first spelling of the keys
SrcMapA(e) == LET ks == SetToSeq(e) IN
              "(hash" \o Join(Force([i \in 1..Len(ks) |-> " " \o KA(ks[i][1]) \o " " \o ToString(ks[i][2])]), "") \o ")"
HashRender(op, v) ==
  CASE op.o = "ins"    -> "(hash-insert " \o v \o " " \o KA(op.x) \o " " \o ToString(op.a) \o ")"
    [] op.o = "rem"    -> "(hash-remove " \o v \o " " \o KA(op.x) \o ")"
    [] op.o = "unionR" -> "(hash-union " \o v \o " " \o SrcMapA(ConstMap(op.x)) \o ")"
    [] op.o = "unionL" -> "(hash-union " \o SrcMapA(ConstMap(op.x)) \o " " \o v \o ")"
    [] op.o = "clear"  -> "(hash-clear " \o v \o ")"
    [] op.o = "href"   -> "(hash-ref " \o v \o " " \o KB(op.x) \o ")"
HashObs(e, v) ==
  << <<"length", "(list (hash-length " \o v \o ") (hash-empty? " \o v \o ") (length (hash-keys->list " \o v
                 \o ")) (length (hash-values->list " \o v \o ")) (length (hash->list " \o v \o ")))",
                 "(" \o ToString(Cardinality(e)) \o " " \o RBool(e = {}) \o " " \o ToString(Cardinality(e)) \o " "
                 \o ToString(Cardinality(e)) \o " " \o ToString(Cardinality(e)) \o ")">>,
     <<"sum", "(apply + (hash-values->list " \o v \o "))", ToString(SumVals(e))>>,
     <<"equal-fresh", "(equal? " \o v \o " " \o SrcMap(e) \o ")", "#true">> >>
  \o Force([i \in 1..Len(KeySeq) |->
        <<"key-" \o KeySeq[i],
          "(list (hash-try-get " \o v \o " " \o KB(KeySeq[i]) \o ") (hash-contains? " \o v \o " " \o KB(KeySeq[i]) \o "))",
          "(" \o (IF KeySeq[i] \in MapDom(e) THEN ToString(MapGet(e, KeySeq[i])) ELSE "#false") \o " "
              \o RBool(KeySeq[i] \in MapDom(e)) \o ")">>])

\* ---- hash sets
HsetOps(e) ==
     (IF Cardinality(e) < MAXLEN THEN {Op("ins", 0, 0, kid) : kid \in KUpd} ELSE {})
  \cup {Op(o, 0, 0, y) : o \in {"unionR", "unionL", "interR", "interL", "diffR", "diffL"}, y \in Consts}
  \cup {Op("clear", 0, 0, ""), Op("rt", 0, 0, "")}
HsetStep(e, op) ==
  LET S(f) == Val(Coll("hset", << >>, f))  c == ConstSet(op.x) IN
  CASE op.o = "ins"    -> S(e \cup {op.x})
    [] op.o \in {"unionR", "unionL"} -> S(e \cup c)
    [] op.o \in {"interR", "interL"} -> S(e \cap c)
    [] op.o \in {"diffR", "diffL"}   -> S((e \ c) \cup (c \ e))          \* D2
    [] op.o = "clear"  -> S({})
    [] op.o = "rt"     -> S(e)
SrcSetA(e) == LET ks == SetToSeq(e) IN "(hashset" \o Join(Force([i \in 1..Len(ks) |-> " " \o KA(ks[i])]), "") \o ")"
HsetFn(o) == CASE o \in {"unionR", "unionL"} -> "hashset-union" [] o \in {"interR", "interL"} -> "hashset-intersection"
               [] o \in {"diffR", "diffL"} -> "hashset-difference"
HsetRender(op, v) ==
  CASE op.o = "ins"   -> "(hashset-insert " \o v \o " " \o KA(op.x) \o ")"
    [] op.o \in {"unionR", "interR", "diffR"} -> "(" \o HsetFn(op.o) \o " " \o v \o " " \o SrcSetA(ConstSet(op.x)) \o ")"
    [] op.o \in {"unionL", "interL", "diffL"} -> "(" \o HsetFn(op.o) \o " " \o SrcSetA(ConstSet(op.x)) \o " " \o v \o ")"
    [] op.o = "clear" -> "(hashset-clear " \o v \o ")"
    [] op.o = "rt"    -> "(list->hashset (hashset->list " \o v \o "))"
HsetObs(e, v) ==
  << <<"length", "(list (hashset-length " \o v \o ") (length (hashset->list " \o v \o ")) (vector-length (hashset->vector " \o v \o ")))",
                 "(" \o ToString(Cardinality(e)) \o " " \o ToString(Cardinality(e)) \o " " \o ToString(Cardinality(e)) \o ")">>,
     <<"subset", "(list (hashset-subset? " \o v \o " " \o SrcSet(ConstSet("b")) \o ") (hashset-subset? " \o SrcSet(ConstSet("a")) \o " " \o v
                 \o ") (hashset-subset? " \o v \o " " \o v \o "))",
                 "(" \o RBool(e \subseteq ConstSet("b")) \o " " \o RBool(ConstSet("a") \subseteq e) \o " #true)">>,
     <<"equal-fresh", "(equal? " \o v \o " " \o SrcSet(e) \o ")", "#true">> >>
  \o Force([i \in 1..Len(KeySeq) |->
        <<"key-" \o KeySeq[i], "(hashset-contains? " \o v \o " " \o KB(KeySeq[i]) \o ")", RBool(KeySeq[i] \in e)>>])

\* ---- strings
StrOps(s) ==
  LET n == Len(s) IN
     (IF n + 2 <= MAXLEN THEN {Op(o, 0, 0, y) : o \in {"appR", "appL"}, y \in Consts} ELSE {})
  \cup {Op("sub", r[1], r[2], "") : r \in Ranges(n)}
  \cup {Op("sub1", i, 0, "") : i \in Idx(n)}
  \cup {Op(o, 0, 0, "") : o \in {"up", "down", "rt", "rev", "repl"}}
  \cup {Op("ref", i, 0, "") : i \in {-1, n}}
StrStep(s, op) ==
  LET n == Len(s)  T(t) == Val(Coll("str", t, {})) IN
  CASE op.o = "appR" -> T(s \o ConstSeq("str", op.x))
    [] op.o = "appL" -> T(ConstSeq("str", op.x) \o s)
    [] op.o = "sub"  -> IF op.a < 0 \/ op.b > n \/ op.a > op.b THEN Err ELSE T(Sub(s, op.a, op.b))
    [] op.o = "sub1" -> IF op.a < 0 \/ op.a > n THEN Err ELSE T(Sub(s, op.a, n))
    [] op.o = "up"   -> T([i \in 1..n |-> Up(s[i])])
    [] op.o = "down" -> T([i \in 1..n |-> Down(s[i])])
    [] op.o = "rt"   -> T(s)
    [] op.o = "rev"  -> T(Rev(s))
    [] op.o = "repl" -> T(Replace(s, "a", "b"))
    [] OTHER         -> Err
StrRender(op, v) ==
  CASE op.o = "appR" -> "(string-append " \o v \o " " \o RStr(ConstSeq("str", op.x)) \o ")"
    [] op.o = "appL" -> "(string-append " \o RStr(ConstSeq("str", op.x)) \o " " \o v \o ")"
    [] op.o = "sub"  -> "(substring " \o v \o " " \o ToString(op.a) \o " " \o ToString(op.b) \o ")"
    [] op.o = "sub1" -> "(substring " \o v \o " " \o ToString(op.a) \o ")"
    [] op.o = "up"   -> "(string-upcase " \o v \o ")"
    [] op.o = "down" -> "(string-downcase " \o v \o ")"
    [] op.o = "rt"   -> "(list->string (string->list " \o v \o "))"
    [] op.o = "rev"  -> "(list->string (reverse (string->list " \o v \o ")))"
    [] op.o = "repl" -> "(string-replace " \o v \o " \"a\" \"b\")"
    [] op.o = "ref"  -> "(string-ref " \o v \o " " \o ToString(op.a) \o ")"
StrObs(s, v) ==
  LET n == Len(s) IN
  << <<"print", v, RStr(s)>>,
     <<"length", "(list (string-length " \o v \o ") (utf8-length " \o v \o "))",
                 "(" \o ToString(n) \o " " \o ToString(Utf8Len(s)) \o ")">>,
     <<"->list", "(string->list " \o v \o ")", RChars(s)>>,
     <<"equal-fresh", "(list (string=? " \o v \o " " \o RStr(s) \o ") (equal? " \o v \o " (string-append " \o RStr(s) \o " (opaque \"\"))))",
                      "(#true #true)">> >>
  \o (IF n = 0 THEN << >> ELSE
      << <<"ends", "(list (string-ref " \o v \o " 0) (string-ref " \o v \o " " \o ToString(n - 1) \o "))",
                   "(" \o RChar(s[1]) \o " " \o RChar(s[n]) \o ")">> >>)

\* ---- byte vectors (mutable: in-place operations return the same object)
BytesOps(s) ==
  LET n == Len(s) IN
     (IF n + 2 <= MAXLEN THEN {Op(o, 0, 0, y) : o \in {"appR", "appL"}, y \in Consts} ELSE {})
  \cup {Op("copy", r[1], r[2], "") : r \in Ranges(n)}
  \cup {Op("copy1", i, 0, "") : i \in Idx(n)}
  \cup {Op("copy0", 0, 0, ""), Op("rt", 0, 0, ""), Op("clear!", 0, 0, "")}
  \cup {Op("set!", i, b, "") : i \in {-1, 0, n - 1, n}, b \in {0, 255}}
  \cup {Op("set!", 0, 256, "")}
  \cup (IF n < MAXLEN THEN {Op("push!", b, 0, "") : b \in {7, 256}} ELSE {})
  \cup {Op("ref", i, 0, "") : i \in {-1, n}}
BytesStep(s, op) ==
  LET n == Len(s)  B(t) == Val(Coll("bytes", t, {}))  BI(t) == ValIn(Coll("bytes", t, {})) IN
  CASE op.o = "appR"  -> B(s \o ConstSeq("bytes", op.x))
    [] op.o = "appL"  -> B(ConstSeq("bytes", op.x) \o s)
    [] op.o = "copy"  -> IF op.a < 0 \/ op.b > n \/ op.a > op.b THEN Err ELSE B(Sub(s, op.a, op.b))
    [] op.o = "copy1" -> IF op.a < 0 \/ op.a > n THEN Err ELSE B(Sub(s, op.a, n))
    [] op.o \in {"copy0", "rt"} -> B(s)
    [] op.o = "clear!" -> BI(<< >>)
    [] op.o = "set!"  -> IF op.a < 0 \/ op.a >= n \/ op.b > 255 THEN Err ELSE BI([s EXCEPT ![op.a + 1] = op.b])
    [] op.o = "push!" -> IF op.a > 255 THEN Err ELSE BI(s \o <<op.a>>)
    [] OTHER          -> Err
BytesRender(op, v) ==
  CASE op.o = "appR"  -> "(bytes-append " \o v \o " " \o SrcSeq("bytes", ConstSeq("bytes", op.x)) \o ")"
    [] op.o = "appL"  -> "(bytes-append " \o SrcSeq("bytes", ConstSeq("bytes", op.x)) \o " " \o v \o ")"
    [] op.o = "copy"  -> "(bytes-copy " \o v \o " " \o ToString(op.a) \o " " \o ToString(op.b) \o ")"
    [] op.o = "copy1" -> "(bytes-copy " \o v \o " " \o ToString(op.a) \o ")"
    [] op.o = "copy0" -> "(bytes-copy " \o v \o ")"
    [] op.o = "rt"    -> "(list->bytes (bytes->list " \o v \o "))"
    [] op.o = "clear!" -> "(begin (bytes-clear! " \o v \o ") " \o v \o ")"
    [] op.o = "set!"  -> "(begin (bytes-set! " \o v \o " " \o ToString(op.a) \o " " \o ToString(op.b) \o ") " \o v \o ")"
    [] op.o = "push!" -> "(begin (bytes-push! " \o v \o " " \o ToString(op.a) \o ") " \o v \o ")"
    [] op.o = "ref"   -> "(bytes-ref " \o v \o " " \o ToString(op.a) \o ")"
BytesObs(s, v) ==
  LET n == Len(s) IN
  << <<"print", v, RBytes(s)>>,
     <<"length", "(bytes-length " \o v \o ")", ToString(n)>>,
     <<"->list", "(bytes->list " \o v \o ")", RList(s)>>,
     <<"equal-fresh", "(equal? " \o v \o " " \o SrcSeq("bytes", s) \o ")", "#true">> >>
  \o (IF n = 0 THEN << >> ELSE
      << <<"ends", "(list (bytes-ref " \o v \o " 0) (bytes-ref " \o v \o " " \o ToString(n - 1) \o "))",
                   "(" \o ToString(s[1]) \o " " \o ToString(s[n]) \o ")">> >>)

\* ---- mutable vectors (in-place operations return the same object)
MvecOps(s) ==
  LET n == Len(s) IN
     (IF n + 2 <= MAXLEN THEN {Op(o, 0, 0, y) : o \in {"appR", "appL", "append!"}, y \in Consts} ELSE {})
  \cup {Op("copy", r[1], r[2], "") : r \in Ranges(n)}
  \cup {Op("copy1", i, 0, "") : i \in Idx(n)}
  \cup {Op(o, 0, 0, "") : o \in {"copy0", "m2l", "clear!", "pop!", "fill!"}}
  \cup {Op("set!", i, 9, "") : i \in {-1, 0, n - 1, n}}
  \cup {Op("swap!", r[1], r[2], "") : r \in {<<0, n - 1>>, <<0, n>>, <<-1, 0>>, <<n - 1, n - 1>>}}
  \cup (IF n < MAXLEN THEN {Op("push!", 2, 0, "")} ELSE {})
  \cup {Op("copy!", i, 0, "") : i \in {-1, 0, n - 2, n - 1, n, n + 1}}
  \cup (IF n >= 2 THEN {Op("selfcopy!", 1, 0, ""), Op("selfcopy!", 0, 1, "")} ELSE {})
  \cup {Op("ref", i, 0, "") : i \in {-1, n}}
MvecStep(s, op) ==
  LET n == Len(s)  M(t) == Val(Coll("mvec", t, {}))  MI(t) == ValIn(Coll("mvec", t, {})) IN
  CASE op.o = "appR"  -> M(s \o ConstSeq("mvec", op.x))
    [] op.o = "appL"  -> M(ConstSeq("mvec", op.x) \o s)
    [] op.o = "append!" -> MI(s \o ConstSeq("mvec", op.x))
    [] op.o = "copy"  -> IF op.a < 0 \/ op.b > n \/ op.a > op.b THEN Err ELSE M(Sub(s, op.a, op.b))
    [] op.o = "copy1" -> IF op.a < 0 \/ op.a > n THEN Err ELSE M(Sub(s, op.a, n))
    [] op.o = "copy0" -> M(s)
    [] op.o = "m2l"   -> Val(Coll("list", s, {}))
    [] op.o = "clear!" -> MI(<< >>)
    [] op.o = "pop!"  -> IF n = 0 THEN MI(s) ELSE MI(Sub(s, 0, n - 1))                 \* D5: #false on empty
    [] op.o = "fill!" -> MI([i \in 1..n |-> 0])
    [] op.o = "set!"  -> IF op.a < 0 \/ op.a >= n THEN Err ELSE MI([s EXCEPT ![op.a + 1] = op.b])
    [] op.o = "swap!" -> IF op.a < 0 \/ op.a >= n \/ op.b < 0 \/ op.b >= n THEN Err
                         ELSE MI([s EXCEPT ![op.a + 1] = s[op.b + 1], ![op.b + 1] = s[op.a + 1]])
    [] op.o = "push!" -> MI(s \o <<op.a>>)
    \* (vector-copy! c at (vector 7 8)): R7RS makes too little room "an error" without demanding a signal
    [] op.o = "copy!" -> IF op.a < 0 \/ op.a > n THEN Err ELSE IF n - op.a < 2 THEN Unspec
                         ELSE MI([i \in 1..n |-> IF i = op.a + 1 THEN 7 ELSE IF i = op.a + 2 THEN 8 ELSE s[i]])
    \* overlapping copy within one vector behaves like memmove: a = 1: shift right, a = 0: shift left
    [] op.o = "selfcopy!" -> IF op.a = 1 THEN MI([i \in 1..n |-> IF i = 1 THEN s[1] ELSE s[i - 1]])
                             ELSE MI([i \in 1..n |-> IF i = n THEN s[n] ELSE s[i + 1]])
    [] OTHER          -> Err
MvecRender(op, v) ==
  CASE op.o = "appR"  -> "(vector-append " \o v \o " " \o SrcSeq("mvec", ConstSeq("mvec", op.x)) \o ")"
    [] op.o = "appL"  -> "(vector-append " \o SrcSeq("mvec", ConstSeq("mvec", op.x)) \o " " \o v \o ")"
    [] op.o = "append!" -> "(begin (vector-append! " \o v \o " " \o SrcSeq("mvec", ConstSeq("mvec", op.x)) \o ") " \o v \o ")"
    [] op.o = "copy"  -> "(vector-copy " \o v \o " " \o ToString(op.a) \o " " \o ToString(op.b) \o ")"
    [] op.o = "copy1" -> "(vector-copy " \o v \o " " \o ToString(op.a) \o ")"
    [] op.o = "copy0" -> "(vector-copy " \o v \o ")"
    [] op.o = "m2l"   -> "(mutable-vector->list " \o v \o ")"
    [] op.o = "clear!" -> "(begin (mutable-vector->clear " \o v \o ") " \o v \o ")"
    [] op.o = "pop!"  -> "(begin (mutable-vector-pop! " \o v \o ") " \o v \o ")"
    [] op.o = "fill!" -> "(begin (vector-fill! " \o v \o " 0) " \o v \o ")"
    [] op.o = "set!"  -> "(begin (vector-set! " \o v \o " " \o ToString(op.a) \o " " \o ToString(op.b) \o ") " \o v \o ")"
    [] op.o = "swap!" -> "(begin (vector-swap! " \o v \o " " \o ToString(op.a) \o " " \o ToString(op.b) \o ") " \o v \o ")"
    [] op.o = "push!" -> "(begin (vector-push! " \o v \o " " \o ToString(op.a) \o ") " \o v \o ")"
    [] op.o = "copy!" -> "(begin (vector-copy! " \o v \o " " \o ToString(op.a) \o " (vector 7 8)) " \o v \o ")"
    [] op.o = "selfcopy!" -> IF op.a = 1
         THEN "(begin (vector-copy! " \o v \o " 1 " \o v \o " 0 (- (vector-length " \o v \o ") 1)) " \o v \o ")"
         ELSE "(begin (vector-copy! " \o v \o " 0 " \o v \o " 1 (vector-length " \o v \o ")) " \o v \o ")"
    [] op.o = "ref"   -> "(vector-ref " \o v \o " " \o ToString(op.a) \o ")"
MvecObs(s, v) ==
  LET n == Len(s) IN
  << <<"print", v, RIvec(s)>>,
     <<"length", "(list (vector-length " \o v \o ") (mut-vec-len " \o v \o "))", "(" \o ToString(n) \o " " \o ToString(n) \o ")">>,
     <<"->list", "(vector->list " \o v \o ")", RList(s)>>,
     <<"->list-range", "(mutable-vector->list " \o v \o " 0 " \o ToString(n) \o ")", RList(s)>>,
     <<"equal-fresh", "(equal? " \o v \o " " \o SrcSeq("mvec", s) \o ")", "#true">> >>
  \o (IF n = 0 THEN << >> ELSE
      << <<"ends", "(list (vector-ref " \o v \o " 0) (mut-vector-ref " \o v \o " " \o ToString(n - 1) \o "))",
                   "(" \o ToString(s[1]) \o " " \o ToString(s[n]) \o ")">> >>)

\* ---- dispatch
Ops(c) == CASE c.ty = "list" -> ListOps(c.s) [] c.ty = "ivec" -> IvecOps(c.s) [] c.ty = "hash" -> HashOps(c.e)
            [] c.ty = "hset" -> HsetOps(c.e) [] c.ty = "str" -> StrOps(c.s) [] c.ty = "bytes" -> BytesOps(c.s)
            [] c.ty = "mvec" -> MvecOps(c.s)
Step(c, op) == CASE c.ty = "list" -> ListStep(c.s, op) [] c.ty = "ivec" -> IvecStep(c.s, op) [] c.ty = "hash" -> HashStep(c.e, op)
                 [] c.ty = "hset" -> HsetStep(c.e, op) [] c.ty = "str" -> StrStep(c.s, op) [] c.ty = "bytes" -> BytesStep(c.s, op)
                 [] c.ty = "mvec" -> MvecStep(c.s, op)
Render(c, op, v) == CASE c.ty = "list" -> ListRender(op, v) [] c.ty = "ivec" -> IvecRender(op, v) [] c.ty = "hash" -> HashRender(op, v)
                      [] c.ty = "hset" -> HsetRender(op, v) [] c.ty = "str" -> StrRender(op, v) [] c.ty = "bytes" -> BytesRender(op, v)
                      [] c.ty = "mvec" -> MvecRender(op, v)
Obs(c, v) == CASE c.ty = "list" -> ListObs(c.s, v) [] c.ty = "ivec" -> IvecObs(c.s, v) [] c.ty = "hash" -> HashObs(c.e, v)
               [] c.ty = "hset" -> HsetObs(c.e, v) [] c.ty = "str" -> StrObs(c.s, v) [] c.ty = "bytes" -> BytesObs(c.s, v)
               [] c.ty = "mvec" -> MvecObs(c.s, v)

\* the boundary class of an operation's first integer argument relative to the size n
SizeOf(c) == IF c.ty \in SeqTypes THEN Len(c.s) ELSE Cardinality(c.e)
ArgClass(a, n) == IF a < 0 THEN "neg" ELSE IF a > n THEN "gt" ELSE IF a = n THEN "len"
                  ELSE IF a = 0 THEN "zero" ELSE IF a = n - 1 THEN "last" ELSE "in"
HasIndex(o) == o \in {"take", "tail", "ldrop", "drop", "ref", "set", "set!", "copy", "copy1", "sub", "sub1", "swap!", "copy!"}
OpTag(c, op) == c.ty \o ":" \o op.o \o (IF HasIndex(op.o) THEN ":" \o ArgClass(op.a, SizeOf(c)) ELSE "")
                     \o (IF op.o \in {"copy", "sub", "swap!"} THEN ":" \o ArgClass(op.b, SizeOf(c)) ELSE "")
                     \o (IF op.o \in {"set!", "push!"} /\ (op.a > 255 \/ op.b > 255) THEN ":byte-gt" ELSE "")
                     \o (IF op.x \in KU THEN ":" \o op.x ELSE "")

-----------------------------------------------------------------------------
(* Base values (written as Scheme source: duplicate keys are in the source)  *)
Bases == [
  list  |-> << [v |-> Coll("list", << >>, {}), src |-> "(list)"],
               [v |-> Coll("list", <<1>>, {}), src |-> "(list 1)"],
               [v |-> Coll("list", <<2, 1, 3>>, {}), src |-> "(list 2 1 3)"],
               [v |-> Coll("list", <<0, 1, 2>>, {}), src |-> "(range 0 3)"] >>,
  ivec  |-> << [v |-> Coll("ivec", << >>, {}), src |-> "(immutable-vector)"],
               [v |-> Coll("ivec", <<1>>, {}), src |-> "(immutable-vector 1)"],
               [v |-> Coll("ivec", <<2, 1, 3>>, {}), src |-> "(immutable-vector 2 1 3)"] >>,
  hash  |-> << [v |-> Coll("hash", << >>, {}), src |-> "(hash)"],
               [v |-> Coll("hash", << >>, {<<"k1", 1>>}), src |-> "(hash 1 1)"],
               [v |-> Coll("hash", << >>, {<<"kl", 3>>, <<"ks", 2>>}), src |-> "(hash (list 1 2) 1 \"ab\" 2 (cons 1 (list 2)) 3)"] >>,
  hset  |-> << [v |-> Coll("hset", << >>, {}), src |-> "(hashset)"],
               [v |-> Coll("hset", << >>, {"k1"}), src |-> "(hashset 1)"],
               [v |-> Coll("hset", << >>, {"kl", "kf"}), src |-> "(hashset (list 1 2) 1.0 (cons 1 (list 2)))"] >>,
  str   |-> << [v |-> Coll("str", << >>, {}), src |-> "\"\""],
               [v |-> Coll("str", <<"a">>, {}), src |-> "\"a\""],
               [v |-> Coll("str", <<"a", "~", "b">>, {}), src |-> "(string-append \"a~\" (opaque \"b\"))"] >>,
  mvec  |-> << [v |-> Coll("mvec", << >>, {}), src |-> "(vector)"],
               [v |-> Coll("mvec", <<1>>, {}), src |-> "(vector 1)"],
               [v |-> Coll("mvec", <<2, 1, 3>>, {}), src |-> "(vector 2 1 3)"] >>,
  bytes |-> << [v |-> Coll("bytes", << >>, {}), src |-> "(bytes)"],
               [v |-> Coll("bytes", <<1>>, {}), src |-> "(bytes 1)"],
               [v |-> Coll("bytes", <<1, 2, 255>>, {}), src |-> "(bytes 1 2 255)"] >> ]

\* Constructors with a size / element argument at the boundary: one-step cases
Rep(n, x) == [i \in 1..n |-> x]
CtorCases ==
     {[tag |-> "ctor:make-string:" \o ArgClass(n, 1), src |-> "(make-string " \o ToString(n) \o " #\\b)",
       class |-> IF n < 0 THEN "err" ELSE "ok", exp |-> IF n < 0 THEN "" ELSE RStr(Rep(n, "b"))] : n \in {-1, 0, 2}}
  \cup {[tag |-> "ctor:make-bytes:" \o ArgClass(n, 1) \o (IF b > 255 THEN ":byte-gt" ELSE ""),
        src |-> "(make-bytes " \o ToString(n) \o " " \o ToString(b) \o ")",
        class |-> IF n < 0 \/ b > 255 THEN "err" ELSE "ok", exp |-> IF n < 0 \/ b > 255 THEN "" ELSE RBytes(Rep(n, b))]
        : n \in {-1, 0, 2}, b \in {7, 255, 256}}
  \cup {[tag |-> "ctor:make-immutable-vector:" \o ArgClass(n, 1), src |-> "(make-immutable-vector " \o ToString(n) \o " 7)",
        class |-> IF n < 0 THEN "err" ELSE "ok", exp |-> IF n < 0 THEN "" ELSE RIvec(Rep(n, 7))] : n \in {-1, 0, 2}}
  \cup {[tag |-> "ctor:bytes:" \o (IF b > 255 \/ b < 0 THEN "byte-out" ELSE "in"), src |-> "(bytes 1 " \o ToString(b) \o ")",
        class |-> IF b > 255 \/ b < 0 THEN "err" ELSE "ok", exp |-> IF b > 255 \/ b < 0 THEN "" ELSE RBytes(<<1, b>>)]
        : b \in {-1, 0, 255, 256}}
  \cup {[tag |-> "ctor:range", src |-> "(range " \o ToString(a) \o " " \o ToString(b) \o ")", class |-> "ok",
        exp |-> RList([i \in 1..(IF b > a THEN b - a ELSE 0) |-> a + i - 1])] : a \in {0, 2}, b \in {0, 2, 3}}

-----------------------------------------------------------------------------
(* Program text.  c0 is the base, cK the value after K operations.           *)
Var(i) == "c" \o ToString(i)
ObsSrc(o)  == Join(Force([i \in 1..Len(o) |-> "(emit " \o o[i][2] \o ")"]), " ")
ObsExp(o)  == Force([i \in 1..Len(o) |-> o[i][3]])
ObsLab(o, step) == Force([i \in 1..Len(o) |-> ToString(step) \o ":" \o o[i][1]])
RECURSIVE Parens(_)
Parens(n) == IF n = 0 THEN "" ELSE ")" \o Parens(n - 1)

\* seeded thinning (mode "sp"), see Equal.tla
Mx(a, b) == (a * 251 + b) % 9973
OpNames == <<"cons", "pushb", "cdr", "rest", "reverse", "sort", "l2v", "appR", "appL", "take", "tail", "ldrop", "drop",
             "car", "first", "last", "ref", "second", "third", "push", "pushf", "set", "v2l", "copy1", "copy", "popf",
             "ins", "rem", "unionR", "unionL", "clear", "href", "interR", "interL", "diffR", "diffL", "rt",
             "sub", "sub1", "up", "down", "rev", "repl", "copy0", "clear!", "set!", "push!",
             "append!", "m2l", "pop!", "fill!", "swap!", "copy!", "selfcopy!">>
IdxIn(seq, x) == CHOOSE i \in 1..Len(seq) : seq[i] = x
XCode(x) == IF x = "" THEN 0 ELSE IF x \in Consts THEN IdxIn(<<"e", "a", "b">>, x) ELSE 10 + IdxIn(KeySeq, x)
OpCode(op) == Mx(Mx(Mx(IdxIn(OpNames, op.o), op.a + 5), op.b + 5), XCode(op.x))
Kept3(ops, cd, m) == {op \in ops : (Mx(Mx(cd, OpCode(op)), 4001) % m) < BRANCH}
Offered(c) == IF mode = "sp" THEN Kept3(Ops(c), code, Cardinality(Ops(c))) ELSE Ops(c)
KMax == IF mode = "sp" THEN KSP ELSE KEX

-----------------------------------------------------------------------------
(* The state machine *)
InitCtor ==
  /\ mode = "ex" /\ "ctor" \in TYPES
  /\ \E c \in CtorCases :
        /\ src = "(begin (emit " \o c.src \o ")"
        /\ exps = IF c.class = "ok" THEN <<c.exp>> ELSE << >>
        /\ labs = IF c.class = "ok" THEN <<"0:print">> ELSE << >>
        /\ optags = <<c.tag>>
        /\ status = IF c.class = "ok" THEN "done" ELSE "err"
  /\ cur = Coll("ctor", << >>, {}) /\ base = cur /\ alias = TRUE /\ k = 0 /\ code = 0

InitColl ==
  /\ mode \in MODES
  /\ \E ty \in TYPES \ {"ctor"} : \E bi \in 1..Len(Bases[ty]) :
        /\ cur = Bases[ty][bi].v
        /\ base = Bases[ty][bi].v
        /\ src = "(let ((c0 " \o Bases[ty][bi].src \o ")) " \o ObsSrc(Obs(Bases[ty][bi].v, "c0"))
        /\ exps = ObsExp(Obs(Bases[ty][bi].v, "c0"))
        /\ labs = ObsLab(Obs(Bases[ty][bi].v, "c0"), 0)
        /\ code = Mx(Mx(SEED % 9973, IdxIn(<<"list", "ivec", "hash", "hset", "str", "bytes", "mvec">>, ty)), bi)
  /\ alias = TRUE /\ k = 0 /\ optags = << >> /\ status = "run"
Init == InitColl \/ InitCtor

\* r = Step(cur, op), o = Obs(new value, new variable)
Apply3(op, r, o) ==
  /\ k' = k + 1
  /\ code' = Mx(code, OpCode(op))
  /\ optags' = Append(optags, OpTag(cur, op))
  /\ mode' = mode
  /\ IF r.kind = "val"
     THEN /\ cur' = r.v
          /\ alias' = (alias /\ r.inplace)
          /\ base' = IF alias /\ r.inplace THEN r.v ELSE base
          /\ src' = src \o " (let ((" \o Var(k + 1) \o " " \o Render(cur, op, Var(k)) \o ")) " \o ObsSrc(o)
          /\ exps' = exps \o ObsExp(o)
          /\ labs' = labs \o ObsLab(o, k + 1)
          /\ status' = IF k + 1 = KMax THEN "done" ELSE "run"
     ELSE /\ UNCHANGED <<cur, alias, base, exps, labs>>
          \* an operation outside its domain: the value would be emitted, but evaluation must not get there
          /\ src' = src \o (IF r.kind = "err" THEN " (emit " \o Render(cur, op, Var(k)) \o ")"
                            ELSE " (begin " \o Render(cur, op, Var(k)) \o " void)")
          /\ status' = r.kind
Apply2(op, r) == Apply3(op, r, IF r.kind = "val" THEN Obs(r.v, Var(k + 1)) ELSE << >>)
Apply == /\ status = "run" /\ k < KMax
         /\ \E op \in Offered(cur) : Apply2(op, Step(cur, op))
Next == Apply
Spec == Init /\ [][Next]_vars

-----------------------------------------------------------------------------
TypeOK == /\ status \in {"run", "done", "err", "unspec"}
          /\ k \in 0..KMax /\ Len(exps) = Len(labs) /\ (cur.ty # "ctor" => Len(optags) = k)
          /\ SizeOf(cur) <= MAXLEN + 2
\* model sanity: a hash value is a function (no two entries with the same key)
FunctionOK == cur.ty = "hash" => \A p, q \in cur.e : p[1] = q[1] => p = q

\* persistence: observe the base object again after the last operation
FinalObs == IF base.ty = "ctor" THEN << >> ELSE Obs(base, "c0")
CaseOf2(fo) ==
  [ty |-> base.ty, mode |-> mode, nops |-> k, optags |-> optags,
   class |-> CASE status = "done" -> "ok" [] status = "err" -> "err" [] status = "unspec" -> "noncrash",
   src  |-> src \o (IF status = "done" THEN " " \o ObsSrc(fo) ELSE "")
                \o Parens(IF base.ty = "ctor" THEN 1 ELSE IF status = "done" THEN k + 1 ELSE k),
   emit |-> IF status = "done" THEN exps \o ObsExp(fo) ELSE exps,
   labs |-> IF status = "done" THEN labs \o ObsLab(fo, 99) ELSE labs]
Emit == (status \in {"done", "err", "unspec"}) => PrintT(<<"REPLAY", ToJson(CaseOf2(FinalObs))>>)
=============================================================================
