SPECIFICATION Spec
CONSTANTS
  MODE = "matrix"
  SEED = 1
  T1 = 1
  T2 = 1
  T3 = 0
  NS2 = 0
  NS3 = 4
  NSBIG = 2
  NCAP = 0
  HOF = 0
  MAXD = 1
  MAXDSLOW = 1
  LEN = 1
  MUTANT = FALSE
INVARIANTS TypeOK Emit Proto
CHECK_DEADLOCK FALSE
