SPECIFICATION Spec
CONSTANTS
  MODE = "matrix"
  SEED = 1
  T1 = 2
  T2 = 1
  T3 = 0
  NS2 = 0
  NS3 = 6
  NSBIG = 3
  NCAP = 0
  MAXD = 1
  LEN = 1
  MUTANT = FALSE
INVARIANTS TypeOK Emit Proto
CHECK_DEADLOCK FALSE
