SPECIFICATION Spec
CONSTANTS
  TrackCov = FALSE
  Thread = {"t1", "t2", "t3"}
  Creator = "t1"
  MaxHandles = 3
  MaxOps = 7
  Defects = {"late_settid", "dangling_queue", "uniq_writes"}
  OpKinds = {"clone", "drop", "get_mut", "try_unwrap", "send", "merge", "register"}
VIEW view
INVARIANTS NotWhileHeld
CHECK_DEADLOCK FALSE
