SPECIFICATION Spec
CONSTANTS
  MaxGuards = 2
  MaxActs = 1
  Engines = 2
  RefLevel = "small"
  Places = {"global", "closure", "list", "box", "hash", "cont", "host"}
  Derive = TRUE
  Pair = FALSE
  Threads = FALSE
  Defects = {"shared_stack"}
  EmitCases = TRUE
INVARIANTS TypeOK Emit
CHECK_DEADLOCK FALSE
