SPECIFICATION Spec
CONSTANTS
  FAM = "graph"
  N = 3
  LEAFS = {"i1", "i2"}
  KINDS = {"ivec1", "ivec2", "mvec2", "list1"}
  MUTANTS = TRUE
INVARIANTS TypeOK OracleOK Emit
CHECK_DEADLOCK FALSE
