SPECIFICATION Spec
CONSTANTS
  FAM = "graph"
  N = 2
  LEAFS = {"i1", "nil"}
  KINDS = {"cons", "list1", "list2", "ivec1", "ivec2", "mvec1", "mvec2", "box", "hash1", "hins", "hset1", "hset2", "sP", "sQ"}
  MUTANTS = TRUE
INVARIANTS TypeOK OracleOK Emit
CHECK_DEADLOCK FALSE
