SPECIFICATION HSpec
CONSTANTS
  RICH = FALSE
  MINNODES = 0
  MAXSTACK = 99
  BUDGET = 0
  FUEL = 3000
  MAXINT = 100000
  CTXS = {}
  PLACES = {}
  VALS = {}
  NEST = FALSE
  PAIRS = TRUE
  INTF = {}
  PATLEN = 0
  INLEN = 2
  ELEMKINDS = {}
  INKINDS = {"1", "k", "7", "l0", "l2", "d"}
INVARIANTS InDomain SynErrSilent GlobalsSuffixed IntfConsistent HEmit
CHECK_DEADLOCK FALSE
