SPECIFICATION Spec
CONSTANTS
  HolderKinds = {"global", "local", "closure-global", "closure-local", "argtemp", "handler-cweh", "handler-with", "wind-after", "continuation", "container-list", "container-hash", "container-vector", "param", "thread-stack", "thread-tls", "tls", "host-rooted", "struct-field", "closure-in-box"}
  ObjKinds = {"box", "mvector", "mstruct", "setvar"}
  NestKinds = {"direct", "inner", "cycle"}
  MaxEvents = 3
INVARIANTS Emit
CHECK_DEADLOCK FALSE
