SPECIFICATION Spec
CONSTANTS
  HolderKinds = {"global", "local", "closure-global", "closure-local", "argtemp", "handler-cweh", "handler-with", "wind-after", "continuation", "container-list", "container-hash", "container-vector", "container-pair", "container-hashset", "container-hash-key", "container-mvector", "container-mstruct", "container-nested", "closure-captures-closure", "param", "thread-stack", "thread-tls", "tls", "host-rooted", "struct-field", "closure-in-box"}
  ObjKinds = {"box", "mvector", "mstruct", "setvar"}
  NestKinds = {"direct", "inner", "cycle"}
  MaxEvents = 3
INVARIANTS Emit
CHECK_DEADLOCK FALSE
