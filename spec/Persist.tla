------------------------------ MODULE Persist ------------------------------
(***************************************************************************)
(* C03: immutable values never change - the in-place update optimisation   *)
(* is unobservable.                                                        *)
(*                                                                         *)
(* WHAT IS MODELLED.  Steel's lists, immutable vectors, hash maps, hash    *)
(* sets and strings are reference counted; the functional-update           *)
(* primitives mutate their argument IN PLACE when the reference count says *)
(* the argument is unique, and the compiler MOVES a local out of its slot  *)
(* at its last use so that the callee can see a unique reference.  The     *)
(* reference semantics has no such thing: a value is a mathematical object *)
(* (a finite sequence, a finite function, a finite set); an update yields  *)
(* a NEW object and nothing that was produced before ever changes.  This   *)
(* module is that reference semantics, written as a state machine over     *)
(* ALIASES.                                                                *)
(*                                                                         *)
(* STATE.  `al` is the sequence of aliases created so far.  An alias is a  *)
(* named HOLDER of a value: it has the value (never modified afterwards:   *)
(* property Immutable) and a holder kind saying how the program keeps it:  *)
(*   G   global variable (set! inside the function under test)             *)
(*   P   parameter of the function under test (first base value only)      *)
(*   L   local variable, not at its last use (it is observed again later)  *)
(*   M   local variable whose ONLY use as an operand is its last use: the  *)
(*       compiler moves it into the callee; afterwards the alias is dead   *)
(*   S   local variable that is assigned with set! (lives in a heap cell) *)
(*   B   contents of a box            C   variable captured by a closure   *)
(*   PR  value of a parameter object (make-parameter) inside parameterize  *)
(*   RA  element of the rest-argument list of a variadic lambda            *)
(*   EL / EP / EV / EI / EH / EK / ES / EM   element of a list / car of a  *)
(*       pair / slot of a mutable vector / of an immutable vector / value  *)
(*       of a hash map / KEY of a hash map / field of an immutable / of a  *)
(*       mutable struct instance                                           *)
(*   K   local of a frame captured by a continuation: the straight-line    *)
(*       code may use it once (at its last use, so it is moved), and it is *)
(*       still observed afterwards by RE-ENTERING the continuation         *)
(*   WL / WM / WE   local (not moved / moved at its only use) / element of *)
(*       a list held by a local of a second native thread; values cross    *)
(*       through a channel ("chan") or through the closure given to        *)
(*       spawn-native-thread ("capt")                                      *)
(* Several aliases may hold the same object (action Share), which is how   *)
(* "the updated reference is at its last use but a global / closure /      *)
(* container / continuation / other thread still holds the value" arises.  *)
(*                                                                         *)
(* ACTIONS (one per step; the history is recorded in `hist`):              *)
(*   base   a new alias holding a freshly constructed base value           *)
(*   share  a new alias holding the SAME object as alias i                 *)
(*   upd    a new alias holding op(value of alias i); the operand is read  *)
(*          through alias i; via = "d" the primitive is called directly,   *)
(*          "f" through a helper function whose parameter is at its last   *)
(*          use, "g" through a helper that observes its parameter AFTER    *)
(*          the update, "a" with (apply prim args) on an argument list     *)
(*          that is observed afterwards, "m" with (map (lambda (p) ...))   *)
(*          over a list that is observed afterwards, "k" directly, with a  *)
(*          continuation captured while the operand is an evaluated        *)
(*          temporary on the stack: the update runs three                  *)
(*          times (with the alternative trailing argument `alt`, then -    *)
(*          after re-entering the continuation - with `alt` again, then -  *)
(*          after re-entering it once more - with the real one)            *)
(*   upd2   a new alias holding op2(alias i, alias i2) (union / append of  *)
(*          two aliases, possibly the same one twice)                      *)
(*   reobs  observe alias i once more through a fresh local                *)
(* An action through an alias runs on the thread that holds it; the result *)
(* is delivered to the thread of the new holder.  M, WM and K aliases can  *)
(* be the operand of one action only.                                      *)
(*                                                                         *)
(* ORACLE.  After EVERY step EVERY live alias is observed; the expected    *)
(* observation (operator Obs) is a function of the alias's value alone -   *)
(* the value it had when it was created.  Emit prints, per history, the    *)
(* actions (with the Scheme text of every operation and constructor) and   *)
(* the expected observation of every alias after every step.  The check    *)
(* (checks/c03.py) only places these texts into a program that forces the  *)
(* holder kinds, and compares.  Hash maps and sets are never observed      *)
(* through their print order: sorted entries, lookups, sizes and equal?    *)
(* against a freshly constructed copy.                                     *)
(*                                                                         *)
(* Second family ("loop"): an accumulator is updated N times (one TLC step *)
(* per iteration) while every EVERY-th version is saved; all saved         *)
(* versions and the final one are observed afterwards, then each of them   *)
(* is updated once more ("forks") and everything is observed again.        *)
(*                                                                         *)
(* Third family ("sweep"): the property quantifies over ALL operations.    *)
(* Whatever a builtin does with an immutable value (return anything, fail) *)
(* every holder of the value observes afterwards what it observed before:  *)
(* the check instantiates the placeholder $p of the call patterns with     *)
(* every builtin the engine registers.                                     *)
(*                                                                         *)
(* ENUMERATION.  All histories of DEPTH actions after the first base, the  *)
(* holder kind of the first action drawn from KINDS1, of the later ones    *)
(* from KINDSR; KEEP1 / KEEP2 / KEEPR (per mille, 1000 = all) thin the     *)
(* choices of the 1st / 2nd / later actions with a SEED-dependent hash:    *)
(* first the heads (action, aliases, holder kind), then the operations and *)
(* vias of every kept "upd" head.                                          *)
(*                                                                         *)
(* NAMED DEVIATIONS adopted (documented behaviour of Steel, as in          *)
(* Collections.tla):                                                       *)
(*  D3  hash-union keeps the LEFT value for common keys (documented)       *)
(*  D6  pairs, lists and strings are immutable values (Steel docs): cons / *)
(*      append / string-append results may share structure with their      *)
(*      arguments; sharing is unobservable in the model                    *)
(* Steel behaviours the RENDERING avoids because they belong to other      *)
(* properties (they were hit while building this check): calls with more   *)
(* than 8 arguments inside a JIT-compiled function (constructors are       *)
(* chunked, see SrcIntsC); parameterize re-evaluates its value expression  *)
(* on re-entry of its extent; an immediately applied variadic lambda       *)
(* inside a let body binds its rest parameter to the bare argument.        *)
(* Only operations inside their domain are generated (C11 covers the       *)
(* boundaries).  Struct functional update does not exist in a usable form  *)
(* (#%struct-update fails on every `struct`-defined type), struct          *)
(* instances appear as holders (ES).                                       *)
(***************************************************************************)
EXTENDS Integers, Sequences, TLC, Json, FiniteSets, SequencesExt

CONSTANTS FAMS,       \* subset of {"alias", "loop", "sweep"}
          TYPES,      \* subset of {"hash", "hset", "ivec", "list", "str"}
          DEPTH,      \* actions after the first base
          KINDS0,     \* holder kinds of the first base
          KINDS1,     \* holder kinds of the alias created by the first action
          KINDSR,     \* ... by the later actions
          KEEP1, KEEP2, KEEPR,   \* per-mille of the choices of the 1st / 2nd / later actions that are explored
          SEED,
          VIAS,       \* subset of {"d", "f", "g", "a", "m", "k"}
          ACTS,       \* subset of {"base", "share", "upd", "upd2", "reobs"}
          MAXBASE, MAXLEN,
          BASESET,    \* "small" | "big"
          LOOPN, LOOPEVERY, LOOPSTYLES,
          SWEEPSHAPES

VARIABLES fam, ty, al, hist, k, code, lp
vars == <<fam, ty, al, hist, k, code, lp>>

Force(f) == f \o << >>          \* TLC: make a lazily built sequence concrete

-----------------------------------------------------------------------------
(* Values: a collection is [ty, s, e]; s for sequences, e for maps / sets   *)
Coll(t, s, e) == [ty |-> t, s |-> s, e |-> e]
SeqTypes == {"ivec", "list", "str"}
Size(c) == IF c.ty \in SeqTypes THEN Len(c.s) ELSE Cardinality(c.e)

MapDom(e) == {p[1] : p \in e}
MapPut(e, kk, v) == {p \in e : p[1] # kk} \cup {<<kk, v>>}
MapUnion(l, r) == l \cup {p \in r : p[1] \notin MapDom(l)}           \* D3: left value wins
Rev(s) == [i \in 1..Len(s) |-> s[Len(s) + 1 - i]]
Sub(s, a, b) == SubSeq(s, a + 1, b)        \* 0-based half-open [a, b)

Alphabet == <<"a", "b", "c", "d", "e", "f", "g", "h", "i", "j", "k", "l", "m", "n", "o", "p", "q", "r", "s", "t",
              "u", "v", "w", "x", "y", "z">>
Upper == <<"A", "B", "C", "D", "E", "F", "G", "H", "I", "J", "K", "L", "M", "N", "O", "P", "Q", "R", "S", "T",
           "U", "V", "W", "X", "Y", "Z">>
Up(c) == IF \E i \in 1..26 : Alphabet[i] = c THEN Upper[CHOOSE i \in 1..26 : Alphabet[i] = c] ELSE c

\* constant second operands, selected by a small integer
ConstMap(n) == IF n = 1 THEN {<<3, 33>>, <<1, 99>>} ELSE {<<4, 44>>}
ConstSet(n) == IF n = 1 THEN {3, 1} ELSE {4}
ConstInts(n) == IF n = 1 THEN <<7, 8>> ELSE <<6>>
ConstStr(n) == IF n = 1 THEN <<"y", "z">> ELSE <<"x">>

-----------------------------------------------------------------------------
(* Printed forms and constructor source                                      *)
RECURSIVE Join(_, _)
Join(ss, sep) == IF Len(ss) = 0 THEN "" ELSE IF Len(ss) = 1 THEN ss[1] ELSE ss[1] \o sep \o Join(Tail(ss), sep)
RBool(b) == IF b THEN "#true" ELSE "#false"
RInts(s) == Join(Force([i \in 1..Len(s) |-> ToString(s[i])]), " ")
RList(s) == "(" \o RInts(s) \o ")"
RIvec(s) == "#(" \o RInts(s) \o ")"
RStr(s)  == "\"" \o Join(s, "") \o "\""
SortedKeys(e) == SortSeq(SetToSeq(MapDom(e)), <)
MapGet(e, kk) == (CHOOSE p \in e : p[1] = kk)[2]
RPairs(e) == LET ks == SortedKeys(e) IN
             "(" \o Join(Force([i \in 1..Len(ks) |-> "(" \o ToString(ks[i]) \o " . " \o ToString(MapGet(e, ks[i])) \o ")"]), " ") \o ")"

\* Constructor calls are kept to at most 8 arguments (larger values are assembled from pieces): calls with more
\* arguments inside a JIT-compiled function are a separate defect of the JIT tier (C02), not of persistence.
RECURSIVE SrcMapSeq(_)
SrcMapSeq(ks) == LET n == IF Len(ks) <= 4 THEN Len(ks) ELSE 4
                     head == "(hash" \o Join(Force([i \in 1..n |-> " " \o ToString(ks[i][1]) \o " " \o ToString(ks[i][2])]), "") \o ")" IN
                 IF Len(ks) <= 4 THEN head ELSE "(hash-union " \o head \o " " \o SrcMapSeq(SubSeq(ks, 5, Len(ks))) \o ")"
SrcMap(e) == SrcMapSeq(SetToSeq(e))
RECURSIVE SrcIntsC(_, _, _)
SrcIntsC(ctor, app, s) == LET n == IF Len(s) <= 8 THEN Len(s) ELSE 8
                              head == "(" \o ctor \o (IF n = 0 THEN "" ELSE " " \o RInts(SubSeq(s, 1, n))) \o ")" IN
                          IF Len(s) <= 8 THEN head ELSE "(" \o app \o " " \o head \o " " \o SrcIntsC(ctor, app, SubSeq(s, 9, Len(s))) \o ")"
SrcSet(e) == SrcIntsC("hashset", "hashset-union", SetToSeq(e))
SrcInts(ctor, s) == SrcIntsC(ctor, IF ctor = "list" THEN "append" ELSE "immutable-vector-append", s)
\* a freshly constructed value equal to c
Fresh(c) == CASE c.ty = "hash" -> SrcMap(c.e)
              [] c.ty = "hset" -> SrcSet(c.e)
              [] c.ty = "ivec" -> SrcInts("immutable-vector", c.s)
              [] c.ty = "list" -> SrcInts("list", c.s)
              [] c.ty = "str"  -> "(string-append " \o RStr(c.s) \o " (opaque \"\"))"

(* The observation battery of a value: query text ($v = the holder's access  *)
(* expression, plt@@ = (lambda (a b) (< (car a) (car b))) defined by the     *)
(* check) and its expected printed result.                                   *)
ObsQ(c) ==
  CASE c.ty = "hash" -> "(list (sort (hash->list $v) plt@@) (hash-try-get $v 99) (hash-length $v) (equal? $v " \o Fresh(c) \o "))"
    [] c.ty = "hset" -> "(list (sort (hashset->list $v) <) (hashset-contains? $v 99) (hashset-length $v) (equal? $v " \o Fresh(c) \o "))"
    [] c.ty = "ivec" -> "(list $v (vector-length $v) (equal? $v " \o Fresh(c) \o "))"
    [] c.ty = "list" -> "(list $v (length $v) (equal? $v " \o Fresh(c) \o "))"
    [] c.ty = "str"  -> "(list $v (string-length $v) (equal? $v " \o Fresh(c) \o "))"
ObsE(c) ==
  CASE c.ty = "hash" -> "(" \o RPairs(c.e) \o " #false " \o ToString(Cardinality(c.e)) \o " #true)"
    [] c.ty = "hset" -> "(" \o RList(SortSeq(SetToSeq(c.e), <)) \o " #false " \o ToString(Cardinality(c.e)) \o " #true)"
    [] c.ty = "ivec" -> "(" \o RIvec(c.s) \o " " \o ToString(Len(c.s)) \o " #true)"
    [] c.ty = "list" -> "(" \o RList(c.s) \o " " \o ToString(Len(c.s)) \o " #true)"
    [] c.ty = "str"  -> "(" \o RStr(c.s) \o " " \o ToString(Len(c.s)) \o " #true)"
Obs(c) == [q |-> ObsQ(c), exp |-> ObsE(c)]

-----------------------------------------------------------------------------
(* Operations.  An operation is [o, a, b, alt]: `a` is the trailing argument *)
(* (where the operation has one), `alt` the alternative trailing argument    *)
(* used by via = "k", `b` a fixed leading argument.                          *)
Op(o, a, b, alt) == [o |-> o, a |-> a, b |-> b, alt |-> alt]
NoOp == Op("-", 0, 0, 0)

\* The elements / values an operation inserts are different for every action number m (90 + m, 30 + m ...), so
\* that two updates of the same object at different steps are distinguishable.
HashOps(c, m) == LET n == Cardinality(c.e) IN
     \* (hash-insert $v key value): the KEY is the trailing argument a (3: new, 1: present in most bases), b the value
     (IF n < MAXLEN THEN {Op("ins", 3, 30 + m, 7), Op("ins", 1, 110 + m, 7)} ELSE {})
  \cup {Op("rem", 1, 0, 2), Op("rem", 4, 0, 2), Op("unionL", 1, 0, 0), Op("clear", 0, 0, 0)}
  \cup (IF n + 2 <= MAXLEN THEN {Op("unionR", 1, 0, 2)} ELSE {})
HsetOps(c, m) == LET n == Cardinality(c.e) IN
     (IF n < MAXLEN THEN {Op("ins", 30 + m, 0, 770 + m), Op("ins", 1, 0, 770 + m)} ELSE {})
  \cup {Op("clear", 0, 0, 0)}
  \cup (IF n + 2 <= MAXLEN THEN {Op("unionR", 1, 0, 2)} ELSE {})
IvecOps(c, m) == LET n == Len(c.s) IN
     (IF n < MAXLEN THEN {Op("push", 90 + m, 0, 770 + m), Op("pushf", 90 + m, 0, 770 + m)} ELSE {})
  \cup (IF n > 0 THEN {Op("set", 90 + m, 0, 770 + m), Op("rest", 0, 0, 0), Op("take", n - 1, 0, 0), Op("drop", 1, 0, 0)} ELSE {})
  \cup (IF n > 1 THEN {Op("set", 90 + m, n - 1, 770 + m)} ELSE {})
  \cup (IF n + 2 <= MAXLEN THEN {Op("appR", 1, 0, 2), Op("appL", 1, 0, 0)} ELSE {})
ListOps(c, m) == LET n == Len(c.s) IN
     (IF n < MAXLEN THEN {Op("cons", 90 + m, 0, 0), Op("pushb", 90 + m, 0, 770 + m)} ELSE {})
  \cup {Op("rev", 0, 0, 0)}
  \cup (IF n > 0 THEN {Op("cdr", 0, 0, 0), Op("rest", 0, 0, 0), Op("take", n - 1, 0, 0), Op("ldrop", 1, 0, 0), Op("ltail", 1, 0, 0)} ELSE {})
  \cup (IF n + 2 <= MAXLEN THEN {Op("appR", 1, 0, 2), Op("appL", 1, 0, 0)} ELSE {})
StrOps(c, m) == LET n == Len(c.s) IN
     (IF n < MAXLEN THEN {Op("push", 20 + (m % 6), 0, 10 + (m % 6))} ELSE {})     \* a different letter per action
  \cup {Op("up", 0, 0, 0)}
  \cup (IF n > 0 THEN {Op("sub", n - 1, 0, 0)} ELSE {})
  \cup (IF n + 2 <= MAXLEN THEN {Op("pushs", 1, 0, 2), Op("appR", 1, 0, 2), Op("appL", 1, 0, 0)} ELSE {})
Ops(c, m) == CASE c.ty = "hash" -> HashOps(c, m) [] c.ty = "hset" -> HsetOps(c, m) [] c.ty = "ivec" -> IvecOps(c, m)
               [] c.ty = "list" -> ListOps(c, m) [] c.ty = "str" -> StrOps(c, m)

\* does the operation take a trailing argument (evaluated AFTER the collection operand)?
HasArg(t, o) == CASE t = "hash" -> o \in {"ins", "rem", "unionR"}
                  [] t = "hset" -> o \in {"ins", "unionR"}
                  [] t = "ivec" -> o \in {"push", "pushf", "set", "take", "drop", "appR"}
                  [] t = "list" -> o \in {"pushb", "take", "ldrop", "ltail", "appR"}
                  [] t = "str"  -> o \in {"push", "pushs", "appR", "sub"}

\* the mathematical result of op on c when its trailing argument is a
Step(c, op, a) ==
  LET n == Len(c.s)
      H(f) == Coll("hash", << >>, f)   S(f) == Coll("hset", << >>, f)
      V(t) == Coll("ivec", t, {})      L(t) == Coll("list", t, {})     T(t) == Coll("str", t, {}) IN
  CASE c.ty = "hash" ->
         (CASE op.o = "ins"    -> H(MapPut(c.e, a, op.b))
            [] op.o = "rem"    -> H({p \in c.e : p[1] # a})
            [] op.o = "unionR" -> H(MapUnion(c.e, ConstMap(a)))
            [] op.o = "unionL" -> H(MapUnion(ConstMap(op.a), c.e))
            [] op.o = "clear"  -> H({}))
    [] c.ty = "hset" ->
         (CASE op.o = "ins"    -> S(c.e \cup {a})
            [] op.o = "unionR" -> S(c.e \cup ConstSet(a))
            [] op.o = "clear"  -> S({}))
    [] c.ty = "ivec" ->
         (CASE op.o = "push"   -> V(c.s \o <<a>>)
            [] op.o = "pushf"  -> V(<<a>> \o c.s)
            [] op.o = "set"    -> V([c.s EXCEPT ![op.b + 1] = a])
            [] op.o = "rest"   -> V(Tail(c.s))
            [] op.o = "take"   -> V(Sub(c.s, 0, a))
            [] op.o = "drop"   -> V(Sub(c.s, a, n))
            [] op.o = "appR"   -> V(c.s \o ConstInts(a))
            [] op.o = "appL"   -> V(ConstInts(op.a) \o c.s))
    [] c.ty = "list" ->
         (CASE op.o = "cons"   -> L(<<op.a>> \o c.s)
            [] op.o = "pushb"  -> L(c.s \o <<a>>)
            [] op.o \in {"cdr", "rest"} -> L(Tail(c.s))
            [] op.o = "rev"    -> L(Rev(c.s))
            [] op.o = "take"   -> L(Sub(c.s, 0, a))
            [] op.o \in {"ldrop", "ltail"} -> L(Sub(c.s, a, n))
            [] op.o = "appR"   -> L(c.s \o ConstInts(a))
            [] op.o = "appL"   -> L(ConstInts(op.a) \o c.s))
    [] c.ty = "str" ->
         (CASE op.o = "push"   -> T(c.s \o <<Alphabet[a]>>)
            [] op.o = "pushs"  -> T(c.s \o ConstStr(a))
            [] op.o = "appR"   -> T(c.s \o ConstStr(a))
            [] op.o = "appL"   -> T(ConstStr(op.a) \o c.s)
            [] op.o = "up"     -> T([i \in 1..n |-> Up(c.s[i])])
            [] op.o = "sub"    -> T(Sub(c.s, 0, a)))

\* Scheme text of the operation: $v the collection operand, $a the trailing argument
Tpl(t, op) ==
  CASE t = "hash" ->
         (CASE op.o = "ins"    -> "(hash-insert $v $a " \o ToString(op.b) \o ")"
            [] op.o = "rem"    -> "(hash-remove $v $a)"
            [] op.o = "unionR" -> "(hash-union $v $a)"
            [] op.o = "unionL" -> "(hash-union " \o SrcMap(ConstMap(op.a)) \o " $v)"
            [] op.o = "clear"  -> "(hash-clear $v)")
    [] t = "hset" ->
         (CASE op.o = "ins"    -> "(hashset-insert $v $a)"
            [] op.o = "unionR" -> "(hashset-union $v $a)"
            [] op.o = "clear"  -> "(hashset-clear $v)")
    [] t = "ivec" ->
         (CASE op.o = "push"   -> "(immutable-vector-push $v $a)"
            [] op.o = "pushf"  -> "(vector-push-front $v $a)"
            [] op.o = "set"    -> "(immutable-vector-set $v " \o ToString(op.b) \o " $a)"
            [] op.o = "rest"   -> "(immutable-vector-rest $v)"
            [] op.o = "take"   -> "(immutable-vector-take $v $a)"
            [] op.o = "drop"   -> "(immutable-vector-drop $v $a)"
            [] op.o = "appR"   -> "(immutable-vector-append $v $a)"
            [] op.o = "appL"   -> "(immutable-vector-append " \o SrcInts("immutable-vector", ConstInts(op.a)) \o " $v)")
    [] t = "list" ->
         (CASE op.o = "cons"   -> "(cons " \o ToString(op.a) \o " $v)"
            [] op.o = "pushb"  -> "(push-back $v $a)"
            [] op.o = "cdr"    -> "(cdr $v)"
            [] op.o = "rest"   -> "(rest $v)"
            [] op.o = "rev"    -> "(reverse $v)"
            [] op.o = "take"   -> "(take $v $a)"
            [] op.o = "ldrop"  -> "(list-drop $v $a)"
            [] op.o = "ltail"  -> "(list-tail $v $a)"
            [] op.o = "appR"   -> "(append $v $a)"
            [] op.o = "appL"   -> "(append " \o SrcInts("list", ConstInts(op.a)) \o " $v)")
    [] t = "str" ->
         (CASE op.o = "push"   -> "(string-push $v $a)"
            [] op.o = "pushs"  -> "(string-push $v $a)"
            [] op.o = "appR"   -> "(string-append $v $a)"
            [] op.o = "appL"   -> "(string-append " \o RStr(ConstStr(op.a)) \o " $v)"
            [] op.o = "up"     -> "(string-upcase $v)"
            [] op.o = "sub"    -> "(substring $v 0 $a)")
\* Scheme text of the trailing argument a
ArgSrc(t, op, a) ==
  IF ~HasArg(t, op.o) THEN ""
  ELSE CASE op.o = "unionR" /\ t = "hash" -> SrcMap(ConstMap(a))
         [] op.o = "unionR" /\ t = "hset" -> SrcSet(ConstSet(a))
         [] op.o = "appR" /\ t = "ivec"   -> SrcInts("immutable-vector", ConstInts(a))
         [] op.o = "appR" /\ t = "list"   -> SrcInts("list", ConstInts(a))
         [] op.o \in {"appR", "pushs"} /\ t = "str" -> RStr(ConstStr(a))
         [] op.o = "push" /\ t = "str"    -> "#\\" \o Alphabet[a]
         [] OTHER -> ToString(a)

\* binary operations on two aliases: $v the first, $w the second operand
Step2(c, d) ==
  CASE c.ty = "hash" -> Coll("hash", << >>, MapUnion(c.e, d.e))
    [] c.ty = "hset" -> Coll("hset", << >>, c.e \cup d.e)
    [] OTHER         -> Coll(c.ty, c.s \o d.s, {})
Tpl2(t) == CASE t = "hash" -> "(hash-union $v $w)" [] t = "hset" -> "(hashset-union $v $w)"
             [] t = "ivec" -> "(immutable-vector-append $v $w)" [] t = "list" -> "(append $v $w)"
             [] t = "str" -> "(string-append $v $w)"

OpTag(t, op) == t \o ":" \o op.o

-----------------------------------------------------------------------------
(* Base values: at most 3 different constructions per type; "const" marks a   *)
(* literal that lives in the constant pool of the compiled function           *)
SmallBases == [
  hash |-> << [v |-> Coll("hash", << >>, {<<1, 10>>, <<2, 20>>}), src |-> "(hash 1 10 2 20)", how |-> "fresh"],
              [v |-> Coll("hash", << >>, {}), src |-> "(hash)", how |-> "fresh"],
              [v |-> Coll("hash", << >>, {<<1, 10>>, <<2, 20>>}), src |-> "(hash-insert (hash-insert (hash) 2 20) 1 10)", how |-> "built"] >>,
  hset |-> << [v |-> Coll("hset", << >>, {1, 2}), src |-> "(hashset 1 2)", how |-> "fresh"],
              [v |-> Coll("hset", << >>, {}), src |-> "(hashset)", how |-> "fresh"],
              [v |-> Coll("hset", << >>, {1, 2}), src |-> "(list->hashset (list 2 1))", how |-> "built"] >>,
  ivec |-> << [v |-> Coll("ivec", <<1, 2, 3>>, {}), src |-> "(immutable-vector 1 2 3)", how |-> "fresh"],
              [v |-> Coll("ivec", << >>, {}), src |-> "(immutable-vector)", how |-> "fresh"],
              [v |-> Coll("ivec", <<1, 2, 3>>, {}), src |-> "'#(1 2 3)", how |-> "const"] >>,
  list |-> << [v |-> Coll("list", <<1, 2, 3>>, {}), src |-> "(list 1 2 3)", how |-> "fresh"],
              [v |-> Coll("list", << >>, {}), src |-> "(list)", how |-> "fresh"],
              [v |-> Coll("list", <<1, 2, 3>>, {}), src |-> "'(1 2 3)", how |-> "const"] >>,
  str  |-> << [v |-> Coll("str", <<"a", "b", "c">>, {}), src |-> "(string-append \"ab\" (opaque \"c\"))", how |-> "fresh"],
              [v |-> Coll("str", << >>, {}), src |-> "(string)", how |-> "fresh"],
              [v |-> Coll("str", <<"a", "b", "c">>, {}), src |-> "\"abc\"", how |-> "const"] >> ]

\* BASESET = "big": values of BIGN elements built by loops - several chunks of the unrolled list, more than one
\* node of the vector / hash tries - so that in-place updates of INNER nodes shared between versions are exercised
BIGN == 70
BigInts == [i \in 1..BIGN |-> i]
BigBases == [
  hash |-> << [v |-> Coll("hash", << >>, {<<i, i * 10>> : i \in 1..BIGN}), how |-> "loop",
               src |-> "(let loop ((i 1) (acc (hash))) (if (> i 70) acc (loop (+ i 1) (hash-insert acc i (* i 10)))))"] >>,
  hset |-> << [v |-> Coll("hset", << >>, 1..BIGN), how |-> "loop",
               src |-> "(let loop ((i 1) (acc (hashset))) (if (> i 70) acc (loop (+ i 1) (hashset-insert acc i))))"] >>,
  ivec |-> << [v |-> Coll("ivec", BigInts, {}), how |-> "loop",
               src |-> "(let loop ((i 1) (acc (immutable-vector))) (if (> i 70) acc (loop (+ i 1) (immutable-vector-push acc i))))"],
              [v |-> Coll("ivec", BigInts, {}), how |-> "built", src |-> "(list->vector (range 1 71))"] >>,
  list |-> << [v |-> Coll("list", BigInts, {}), how |-> "loop",
               src |-> "(let loop ((i 70) (acc (list))) (if (< i 1) acc (loop (- i 1) (cons i acc))))"],
              [v |-> Coll("list", BigInts, {}), how |-> "built", src |-> "(range 1 71)"] >>,
  str  |-> << [v |-> Coll("str", [i \in 1..BIGN |-> Alphabet[((i - 1) % 26) + 1]], {}), how |-> "loop",
               src |-> "(let loop ((i 0) (acc (string))) (if (>= i 70) acc (loop (+ i 1) (string-push acc (integer->char (+ 97 (modulo i 26)))))))"] >> ]
Bases == IF BASESET = "big" THEN BigBases ELSE SmallBases

\* later base values (action "base" after the first one) are DIFFERENT values, so that binary updates of two
\* aliases are distinguishable from updates of one
Bases2 == [
  hash |-> << [v |-> Coll("hash", << >>, {<<5, 50>>, <<1, 11>>}), src |-> "(hash 5 50 1 11)", how |-> "fresh"],
              [v |-> Coll("hash", << >>, {}), src |-> "(hash)", how |-> "fresh"] >>,
  hset |-> << [v |-> Coll("hset", << >>, {5, 1}), src |-> "(hashset 5 1)", how |-> "fresh"],
              [v |-> Coll("hset", << >>, {}), src |-> "(hashset)", how |-> "fresh"] >>,
  ivec |-> << [v |-> Coll("ivec", <<4, 5>>, {}), src |-> "(immutable-vector 4 5)", how |-> "fresh"],
              [v |-> Coll("ivec", <<4, 5>>, {}), src |-> "'#(4 5)", how |-> "const"] >>,
  list |-> << [v |-> Coll("list", <<4, 5>>, {}), src |-> "(list 4 5)", how |-> "fresh"],
              [v |-> Coll("list", <<4, 5>>, {}), src |-> "'(4 5)", how |-> "const"] >>,
  str  |-> << [v |-> Coll("str", <<"d", "e">>, {}), src |-> "(string-append \"d\" (opaque \"e\"))", how |-> "fresh"],
              [v |-> Coll("str", <<"d", "e">>, {}), src |-> "\"de\"", how |-> "const"] >> ]

-----------------------------------------------------------------------------
(* Holder kinds *)
AllKinds == {"G", "P", "L", "M", "S", "B", "C", "RA", "EL", "EP", "EV", "EI", "EH", "EK", "ES", "EM", "PR", "K", "WL", "WM", "WE"}
Th(kind) == IF kind \in {"WL", "WM", "WE"} THEN 1 ELSE 0           \* 0: the engine thread, 1: the second thread
SingleUse(kind) == kind \in {"M", "WM", "K"}
Alias(v, kind, born) == [v |-> v, kind |-> kind, born |-> born, dead |-> 0, used |-> FALSE]
Live(a) == a.dead = 0
Spawned == \E j \in 1..Len(al) : Th(al[j].kind) = 1
CanSource(i) == Live(al[i]) /\ ~al[i].used
Sources == {i \in 1..Len(al) : CanSource(i)}
NBases == Cardinality({n \in 1..Len(hist) : hist[n].a = "base"})

\* how a value reaches the second thread: through a channel, or captured by the thread's closure
\* (only the value that makes the thread exist can be captured)
Xfers(srcTh, kind) == IF srcTh = 0 /\ Th(kind) = 1 THEN (IF Spawned THEN {"chan"} ELSE {"chan", "capt"})
                      ELSE IF srcTh = 1 /\ Th(kind) = 0 THEN {"chan"} ELSE {"-"}

Choice(a, i, i2, b, kind, via, xfer, op) ==
  [a |-> a, i |-> i, i2 |-> i2, b |-> b, kind |-> kind, via |-> via, xfer |-> xfer, op |-> op]
KindsAt(n) == (IF n = 1 THEN KINDS1 ELSE KINDSR) \ {"P"}
Keep(n) == IF n = 1 THEN KEEP1 ELSE IF n = 2 THEN KEEP2 ELSE KEEPR

(* The choices of the next action are generated in two levels: HEADS (which action, through which   *)
(* alias(es), holder kind of the result, how it crosses threads) and, for "upd", TAILS (operation    *)
(* and via).                                                                                         *)
SrcTh(a, i) == IF a = "base" THEN 0 ELSE Th(al[i].kind)
Heads(n) ==
     (IF "base" \in ACTS /\ NBases < MAXBASE
      THEN UNION {{Choice("base", 0, 0, b, kd, "-", x, NoOp) : b \in 1..Len(Bases2[ty]), x \in Xfers(0, kd)} : kd \in KindsAt(n)}
      ELSE {})
  \cup (IF "share" \in ACTS
        THEN UNION {UNION {{Choice("share", i, 0, 0, kd, "-", x, NoOp) : x \in Xfers(Th(al[i].kind), kd)}
                           : kd \in {q \in KindsAt(n) : ~(al[i].kind \in {"M", "WM"} /\ q = al[i].kind)}}   \* not a mere renaming
                    : i \in Sources}
        ELSE {})
  \cup (IF "upd" \in ACTS
        THEN UNION {UNION {{Choice("upd", i, 0, 0, kd, "-", x, NoOp) : x \in Xfers(Th(al[i].kind), kd)} : kd \in KindsAt(n)}
                    : i \in Sources}
        ELSE {})
  \cup (IF "upd2" \in ACTS
        THEN UNION {UNION {UNION {{Choice("upd2", i, i2, 0, kd, "d", x, NoOp) : x \in Xfers(Th(al[i].kind), kd)} : kd \in KindsAt(n)}
                           : i2 \in {q \in Sources : /\ Th(al[q].kind) = Th(al[i].kind)
                                                     /\ (q = i => ~SingleUse(al[i].kind))     \* a moved local can be read once
                                                     /\ Size(al[i].v) + Size(al[q].v) <= 2 * MAXLEN}}
                    : i \in Sources}
        ELSE {})
  \cup (IF "reobs" \in ACTS
        THEN {Choice("reobs", i, 0, 0, "-", "-", "-", NoOp) : i \in {j \in 1..Len(al) : Live(al[j])}}
        ELSE {})
\* via "k" re-executes the binding of the result: it stays on the engine thread, and the result is not a K holder
ViasFor(i, op, kind) == {v \in VIAS : v = "k" => (HasArg(ty, op.o) /\ Th(al[i].kind) = 0 /\ Th(kind) = 0 /\ kind # "K")}
Tails(h) == UNION {{[h EXCEPT !.op = op, !.via = v] : v \in ViasFor(h.i, op, h.kind)} : op \in Ops(al[h.i].v, k + 1)}

\* seeded thinning: Keep(n) per mille of the heads (applied twice to the quadratically many "upd2" heads), and of
\* the tails of every kept "upd" head
Mx(a, b) == (a * 251 + b) % 9973
KindIdx == [G |-> 1, P |-> 2, L |-> 3, M |-> 4, B |-> 5, C |-> 6, EL |-> 7, EP |-> 8, EV |-> 9, EI |-> 10, EH |-> 11,
            ES |-> 12, K |-> 13, WL |-> 14, WM |-> 15, S |-> 16, EM |-> 17, PR |-> 18, RA |-> 19, EK |-> 20, WE |-> 21]
KindCode(kd) == IF kd = "-" THEN 0 ELSE KindIdx[kd]
ActCode(a) == CASE a = "base" -> 1 [] a = "share" -> 2 [] a = "upd" -> 3 [] a = "upd2" -> 4 [] a = "reobs" -> 5
XferCode(x) == CASE x = "-" -> 0 [] x = "chan" -> 1 [] x = "capt" -> 2
ViaCode(v) == CASE v = "-" -> 0 [] v = "d" -> 1 [] v = "f" -> 2 [] v = "g" -> 3 [] v = "k" -> 4 [] v = "a" -> 5 [] v = "m" -> 6
OpIdx == [ins |-> 1, rem |-> 2, unionR |-> 3, unionL |-> 4, clear |-> 5, push |-> 6, pushf |-> 7, set |-> 8, rest |-> 9,
          take |-> 10, drop |-> 11, appR |-> 12, appL |-> 13, cons |-> 14, pushb |-> 15, cdr |-> 16, rev |-> 17, ldrop |-> 18,
          ltail |-> 19, pushs |-> 20, up |-> 21, sub |-> 22]
OpCode(op) == IF op.o = "-" THEN 0 ELSE Mx(OpIdx[op.o], op.a + 3 * op.b)
HeadCode(h) == Mx(Mx(Mx(Mx(ActCode(h.a), h.i), h.i2 + h.b), KindCode(h.kind)), XferCode(h.xfer))
CCode(ch) == Mx(Mx(HeadCode(ch), ViaCode(ch.via)), OpCode(ch.op))
Kept(cd, n) == Keep(n) >= 1000 \/ (Mx(Mx(code, cd), 4001) % 1000) < Keep(n)
Offered(n) == LET hs == {h \in Heads(n) : Kept(HeadCode(h), n) /\ (h.a = "upd2" => Kept(Mx(HeadCode(h), 77), n))} IN
              {h \in hs : h.a # "upd"} \cup UNION {{t \in Tails(h) : Kept(CCode(t), n)} : h \in {g \in hs : g.a = "upd"}}

-----------------------------------------------------------------------------
(* The state machine *)
NewVal(ch) == CASE ch.a = "base"  -> Bases2[ty][ch.b].v
                [] ch.a = "share" -> al[ch.i].v
                [] ch.a = "upd"   -> Step(al[ch.i].v, ch.op, ch.op.a)
                [] ch.a = "upd2"  -> Step2(al[ch.i].v, al[ch.i2].v)
\* reading an operand through a single-use holder: M / WM die, K can no longer be an operand
Consume(s, i, step) == IF i = 0 THEN s
                       ELSE IF s[i].kind \in {"M", "WM"} THEN [s EXCEPT ![i].dead = step]
                       ELSE IF s[i].kind = "K" THEN [s EXCEPT ![i].used = TRUE] ELSE s

InitAlias ==
  /\ fam = "alias" /\ "alias" \in FAMS
  /\ ty \in TYPES
  /\ \E b \in 1..Len(Bases[ty]) : \E kd \in KINDS0 : \E x \in (IF Th(kd) = 1 THEN {"chan", "capt"} ELSE {"-"}) :
        /\ al = <<Alias(Bases[ty][b].v, kd, 0)>>
        /\ hist = <<Choice("base", 0, 0, b, kd, "-", x, NoOp) @@ [j |-> 1]>>
        /\ code = Mx(Mx(Mx(SEED % 9973, CASE ty = "hash" -> 1 [] ty = "hset" -> 2 [] ty = "ivec" -> 3 [] ty = "list" -> 4 [] ty = "str" -> 5), b),
                     KindCode(kd) + 20 * XferCode(x))
  /\ k = 0
  /\ lp = [n |-> 0]

Act ==
  /\ fam = "alias" /\ k < DEPTH
  /\ \E ch \in Offered(k + 1) :
        /\ k' = k + 1
        /\ code' = Mx(code, CCode(ch))
        /\ IF ch.a = "reobs"
           THEN /\ al' = al
                /\ hist' = Append(hist, ch @@ [j |-> 0])
           ELSE /\ al' = Append(Consume(Consume(al, ch.i, k + 1), ch.i2, k + 1), Alias(NewVal(ch), ch.kind, k + 1))
                /\ hist' = Append(hist, ch @@ [j |-> Len(al) + 1])
  /\ UNCHANGED <<fam, ty, lp>>

-----------------------------------------------------------------------------
(* Loop family: version i = LStep applied i times *)
Chr(i) == Alphabet[(i % 26) + 1]
LoopProgs(t) == CASE t = "hash" -> {"grow", "churn", "over"} [] t = "hset" -> {"grow", "mod"}
                  [] t = "ivec" -> {"grow", "setfirst", "slide"} [] t = "list" -> {"cons", "pushb", "slide"}
                  [] t = "str" -> {"grow"}
LStep(c, prog, i) ==
  CASE c.ty = "hash" ->
         (CASE prog = "grow"  -> Coll("hash", << >>, MapPut(c.e, i, i * 10))
            [] prog = "churn" -> Coll("hash", << >>, {p \in MapPut(c.e, i, i * 10) : p[1] # i - 2})
            [] prog = "over"  -> Coll("hash", << >>, MapPut(c.e, i % 3, i)))
    [] c.ty = "hset" ->
         (CASE prog = "grow" -> Coll("hset", << >>, c.e \cup {i})
            [] prog = "mod"  -> Coll("hset", << >>, c.e \cup {i % 3}))
    [] c.ty = "ivec" ->
         (CASE prog = "grow"     -> Coll("ivec", c.s \o <<i>>, {})
            [] prog = "setfirst" -> Coll("ivec", [(c.s \o <<i>>) EXCEPT ![1] = i], {})
            [] prog = "slide"    -> LET t == c.s \o <<i>> IN Coll("ivec", IF Len(t) > 3 THEN Tail(t) ELSE t, {}))
    [] c.ty = "list" ->
         (CASE prog = "cons"  -> Coll("list", <<i>> \o c.s, {})
            [] prog = "pushb" -> Coll("list", c.s \o <<i>>, {})
            [] prog = "slide" -> LET t == <<i>> \o c.s IN Coll("list", IF Len(t) > 3 THEN SubSeq(t, 1, 3) ELSE t, {}))
    [] c.ty = "str" -> Coll("str", c.s \o <<Chr(i)>>, {})
LTpl(t, prog) ==   \* $v the accumulator, $i the iteration number
  CASE t = "hash" ->
         (CASE prog = "grow"  -> "(hash-insert $v $i (* $i 10))"
            [] prog = "churn" -> "(hash-remove (hash-insert $v $i (* $i 10)) (- $i 2))"
            [] prog = "over"  -> "(hash-insert $v (modulo $i 3) $i)")
    [] t = "hset" ->
         (CASE prog = "grow" -> "(hashset-insert $v $i)"
            [] prog = "mod"  -> "(hashset-insert $v (modulo $i 3))")
    [] t = "ivec" ->
         (CASE prog = "grow"     -> "(immutable-vector-push $v $i)"
            [] prog = "setfirst" -> "(immutable-vector-set (immutable-vector-push $v $i) 0 $i)"
            [] prog = "slide"    -> "(let ((t (immutable-vector-push $v $i))) (if (> (vector-length t) 3) (immutable-vector-drop t 1) t))")
    [] t = "list" ->
         (CASE prog = "cons"  -> "(cons $i $v)"
            [] prog = "pushb" -> "(push-back $v $i)"
            [] prog = "slide" -> "(let ((t (cons $i $v))) (if (> (length t) 3) (take t 3) t))")
    [] t = "str" -> "(string-push $v (integer->char (+ 97 (modulo $i 26))))"
\* the loop as a state machine: lp.acc is the accumulator after lp.i iterations, lp.saved the versions kept so
\* far (version i is saved, BEFORE iteration i + 1 updates the accumulator, when i is a multiple of `every`)
InitLoop ==
  /\ fam = "loop" /\ "loop" \in FAMS
  /\ ty \in TYPES
  /\ \E prog \in LoopProgs(ty) : \E n \in LOOPN : \E ev \in LOOPEVERY : \E st \in LOOPSTYLES : \E b \in {1, 2} :
        lp = [n |-> n, prog |-> prog, every |-> ev, style |-> st, b |-> b, i |-> 0, acc |-> Bases[ty][b].v, saved |-> << >>]
  /\ al = << >> /\ hist = << >> /\ k = 0 /\ code = 0
LoopIter ==
  /\ fam = "loop" /\ lp.i < lp.n
  /\ lp' = [lp EXCEPT !.i = @ + 1,
                      !.acc = LStep(lp.acc, lp.prog, lp.i + 1),
                      !.saved = IF lp.i % lp.every = 0 THEN Append(@, [i |-> lp.i, v |-> lp.acc]) ELSE @]
  /\ UNCHANGED <<fam, ty, al, hist, k, code>>

(* Third family ("sweep").  The property quantifies over ALL operations: whatever a builtin $p does with an  *)
(* immutable value - return something, signal an error - every holder of the value observes afterwards what   *)
(* it observed before.  The check instantiates $p with every builtin of the engine; the model needs no         *)
(* knowledge of $p: the expected observation after the call is the observation of the unchanged value.          *)
(* The operand $v is a local; shape "LG": it is used again after the call and a global holds the same object,  *)
(* "MG" / "ME" / "MC": the call is its last use (it is moved into the callee) while a global / a list in a     *)
(* global / a closure in a global still holds the object.                                                      *)
SweepPats == << "($p $v)", "($p $v 0)", "($p $v 1)", "($p $v 1 9)", "($p $v 0 1)", "($p 0 $v)", "($p 9 $v)", "($p $v $v)",
                "($p $v 0 $v)", "($p $v 1 $v)",
                "($p $v 'k)", "($p $v 1 'k)", "($p $v \"a\")", "($p $v #\\a)", "($p $v (list 7 8))", "($p (list 7 8) $v)",
                "($p (lambda (a) a) $v)", "($p (lambda (a b) a) $v)", "($p (lambda (a b) a) 0 $v)", "($p $v (lambda (a) a))" >>
InitSweep ==
  /\ fam = "sweep" /\ "sweep" \in FAMS
  /\ ty \in TYPES
  /\ \E b \in 1..Len(Bases[ty]) : \E sh \in SWEEPSHAPES : lp = [n |-> 0, b |-> b, shape |-> sh]
  /\ al = << >> /\ hist = << >> /\ k = 0 /\ code = 0

Init == InitAlias \/ InitLoop \/ InitSweep
Next == Act \/ LoopIter
Spec == Init /\ [][Next]_vars

-----------------------------------------------------------------------------
(* Properties of the model itself *)
TypeOK == /\ fam \in {"alias", "loop", "sweep"} /\ k \in 0..DEPTH
          /\ \A j \in 1..Len(al) : al[j].kind \in AllKinds /\ al[j].born <= k /\ al[j].dead <= k
\* a hash value is a function
FunctionOK == \A j \in 1..Len(al) : al[j].v.ty = "hash" => \A p, q \in al[j].v.e : p[1] = q[1] => p = q
\* THE PROPERTY, in the model: no step changes the value of an existing alias
Immutable == [][/\ \A j \in 1..Len(al) : al'[j].v = al[j].v
                /\ fam = "loop" => \A x \in 1..Len(lp.saved) : lp'.saved[x] = lp.saved[x]]_vars

-----------------------------------------------------------------------------
(* Case output *)
\* the aliases observed after step n, with the observation expected of each
ObsAfter(n) == LET ids == SelectSeq([j \in 1..Len(al) |-> j],
                                    LAMBDA j : al[j].born <= n /\ (al[j].dead = 0 \/ al[j].dead > n)) IN
               Force([x \in 1..Len(ids) |-> [id |-> ids[x], exp |-> ObsE(al[ids[x]].v)]])
\* observations made INSIDE a step (via "k": first pass (alt), second pass after re-entry (alt again), third pass after
\* another re-entry (the real argument); via "g" / "a" / "m": the operand after the update; reobs)
Pre(h) == CASE h.a = "upd" /\ h.via = "k" -> <<Obs(Step(al[h.i].v, h.op, h.op.alt)), Obs(Step(al[h.i].v, h.op, h.op.alt)),
                                              Obs(Step(al[h.i].v, h.op, h.op.a))>>
            [] h.a = "upd" /\ h.via \in {"g", "a", "m"} -> <<Obs(al[h.i].v)>>
            [] h.a = "reobs"              -> <<Obs(al[h.i].v)>>
            [] OTHER                      -> << >>
ActOut(h) == [a |-> h.a, i |-> h.i, i2 |-> h.i2, j |-> h.j, kind |-> h.kind, via |-> h.via, xfer |-> h.xfer,
              src  |-> IF h.a = "base" THEN (IF h.j = 1 THEN Bases[ty][h.b].src ELSE Bases2[ty][h.b].src) ELSE "",
              how  |-> IF h.a = "base" THEN (IF h.j = 1 THEN Bases[ty][h.b].how ELSE Bases2[ty][h.b].how) ELSE "",
              tpl  |-> IF h.a = "upd" THEN Tpl(ty, h.op) ELSE IF h.a = "upd2" THEN Tpl2(ty) ELSE "",
              arg  |-> IF h.a = "upd" THEN ArgSrc(ty, h.op, h.op.a) ELSE "",
              alt  |-> IF h.a = "upd" THEN ArgSrc(ty, h.op, h.op.alt) ELSE "",
              op   |-> IF h.a = "upd" THEN OpTag(ty, h.op) ELSE IF h.a = "upd2" THEN ty \o ":bin" ELSE "-",
              pre  |-> Pre(h)]
AliasCase ==
  [fam |-> "alias", ty |-> ty,
   acts |-> Force([n \in 1..Len(hist) |-> ActOut(hist[n])]),
   als  |-> Force([j \in 1..Len(al) |-> [kind |-> al[j].kind, born |-> al[j].born, dead |-> al[j].dead,
                                         q |-> ObsQ(al[j].v), exp |-> ObsE(al[j].v)]]),
   obs  |-> Force([n \in 1..(k + 1) |-> ObsAfter(n - 1)])]

LoopCase ==
  [fam |-> "loop", ty |-> ty, prog |-> lp.prog, n |-> lp.n, every |-> lp.every, style |-> lp.style,
   src |-> Bases[ty][lp.b].src, tpl |-> LTpl(ty, lp.prog),
   saved |-> Force([x \in 1..Len(lp.saved) |-> [i |-> lp.saved[x].i, q |-> ObsQ(lp.saved[x].v), exp |-> ObsE(lp.saved[x].v)]]),
   final |-> Obs(lp.acc),
   \* afterwards every saved version (and the final one) is updated once more, with iteration numbers 1000 + x / 2000:
   \* the forks are new values, the saved versions are observed again
   forks |-> Force([x \in 1..Len(lp.saved) |-> [i |-> 1000 + x, q |-> ObsQ(LStep(lp.saved[x].v, lp.prog, 1000 + x)),
                                                 exp |-> ObsE(LStep(lp.saved[x].v, lp.prog, 1000 + x))]]),
   forkfinal |-> Obs(LStep(lp.acc, lp.prog, 2000))]

SweepCase ==
  [fam |-> "sweep", ty |-> ty, src |-> Bases[ty][lp.b].src, how |-> Bases[ty][lp.b].how, shape |-> lp.shape,
   pats |-> SweepPats, q |-> ObsQ(Bases[ty][lp.b].v), exp |-> ObsE(Bases[ty][lp.b].v)]

Terminal == IF fam = "loop" THEN lp.i = lp.n ELSE IF fam = "sweep" THEN TRUE ELSE k = DEPTH
Emit == Terminal => PrintT(<<"REPLAY", ToJson(IF fam = "alias" THEN AliasCase ELSE IF fam = "loop" THEN LoopCase ELSE SweepCase)>>)
=============================================================================
