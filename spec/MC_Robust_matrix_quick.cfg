SPECIFICATION Spec
CONSTANTS
  MODE = "matrix"
  SEED = 1
  ROUND = 2
  T1 = 4
  T2 = 2
  T3 = 1
  NS2 = 24
  NS3 = 24
  NSBIG = 12
  NCAP = 12
  MAXD = 1
  LEN = 1
  MUTANT = FALSE
INVARIANTS TypeOK Emit Proto
CHECK_DEADLOCK FALSE
