SPECIFICATION Spec
CONSTANTS
  MODE = "matrix"
  SEED = 1
  T1 = 3
  T2 = 1
  T3 = 0
  NS2 = 24
  NS3 = 12
  NSBIG = 12
  NCAP = 3
  HOF = 1
  MAXD = 1
  MAXDSLOW = 1
  LEN = 1
  MUTANT = FALSE
INVARIANTS TypeOK Emit Proto
CHECK_DEADLOCK FALSE
