SPECIFICATION Spec
CONSTANTS
  SEED = 1
  M_CORE = 1
  M_DIV = 1
  M_INT = 1
  M_UN = 1
  M_NARY = 2
  M_EXPT = 1
  M_STR = 1
  M_MIX = 1
  FAMILY = "all"
INVARIANTS TypeOK Laws Emit
CHECK_DEADLOCK FALSE
