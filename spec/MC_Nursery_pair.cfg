SPECIFICATION Spec
CONSTANTS
  MaxGuards = 1
  MaxActs = 1
  Engines = 1
  RefLevel = "small"
  Places = {"global"}
  Derive = FALSE
  Pair = TRUE
  Threads = FALSE
  Defects = {"shared_stack"}
  EmitCases = TRUE
INVARIANTS TypeOK Emit
CHECK_DEADLOCK FALSE
