SPECIFICATION Spec
CONSTANTS
  MaxMods = 1
  NmMin = 1
  VisSet = {"priv", "plain", "ctr"}
  ModModsM = {}
  ModModsP = {"rev_a", "rev_bh", "rev_ren"}
  MaxSpecsM = 0
  MaxSpecsP = 1
  OwnSets = {{}}
  UseSet = {TRUE, FALSE}
  FailSet = {"none"}
  ErrKinds = {"none"}
  MaxUnits = 1
  ProbeNames = {"va", "vb", "helper", "vz", "p.va", "p.vb", "p.helper", "p.vz"}
  Avoid = {}
INVARIANTS Emit Sound
CHECK_DEADLOCK FALSE
