SPECIFICATION Spec
CONSTANTS
  FAM = "graph"
  N = 3
  LEAFS = {"i1", "i2"}
  KINDS = {"hset1", "hset2", "list1"}
  MUTANTS = TRUE
INVARIANTS TypeOK OracleOK Emit
CHECK_DEADLOCK FALSE
