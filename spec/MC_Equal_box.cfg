SPECIFICATION Spec
CONSTANTS
  FAM = "graph"
  N = 3
  LEAFS = {"i1", "i2"}
  KINDS = {"box", "mvec1", "list2"}
  MUTANTS = TRUE
INVARIANTS TypeOK OracleOK Emit
CHECK_DEADLOCK FALSE
