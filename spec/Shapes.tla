------------------------------- MODULE Shapes -------------------------------
(***************************************************************************)
(* C18 - arbitrarily deep, wide or cyclic values are handled without       *)
(* exhausting the host.                                                    *)
(*                                                                         *)
(* PART 1 (decided by this specification): CYCLIC VALUE GRAPHS.            *)
(*                                                                         *)
(* (a) The value graphs.  A heap g is a finite sequence of nodes 1..n      *)
(* (n <= MAXN).  A node has a kind and slots; a slot holds a leaf (a small *)
(* exact integer) or a reference to ANY node of the heap:                  *)
(*     B  mutable box                 (box s1)           1 slot            *)
(*     V  mutable vector              (vector s1 s2)     2 slots           *)
(*     S  mutable transparent struct  (c18s s1 s2)       2 slots           *)
(*     L  immutable proper list       (list s1 s2)       2 slots           *)
(*     P  immutable pair              (cons s1 s2)       2 slots           *)
(*     H  immutable hash map          (hash 'k s1)       1 slot (a value)  *)
(* L, P and H are connectors: they are immutable, so they can only refer   *)
(* to nodes that exist when they are made.  The only well-formedness rule is  *)
(* therefore  "an immutable node refers to immutable nodes of smaller      *)
(* index only" (RefOK) - every cycle passes through a mutable node, and    *)
(* every such graph can be built in Scheme: allocate the mutable nodes     *)
(* with placeholders, build the immutable nodes in index order, then store *)
(* the slots of the mutable nodes (Build below renders exactly that).      *)
(* Self loops, 2-cycles, longer rings, cycles through a list inside a box, *)
(* two distinct but bisimilar cyclic graphs, a cyclic graph next to one of *)
(* its finite unfoldings are all heaps of <= 4 nodes; the values under     *)
(* test are node 1 (single-value operations) and the ordered pairs (1,2),  *)
(* (2,1), (1,1) - because the families below are closed under renumbering, *)
(* fixing the tested nodes loses no shape.                                 *)
(* Family "twin" (section TWINS) goes beyond 4 nodes in one direction: a   *)
(* base shape over 2..3 nodes with ANY mix of kinds is built TWICE (two    *)
(* distinct isomorphic values), and next to near-twins (one leaf changed,  *)
(* one edge removed) and its own double unrolling; the pair (root, root of *)
(* the second structure) is tested in both orders.  The other families     *)
(* contain two disjoint isomorphic components only for one node kind.      *)
(*                                                                         *)
(* (b) The algorithms, as terminating state machines over such a heap.     *)
(* Each machine M has MInit, MStep, MDone and a natural-number MEASURE     *)
(* that strictly decreases with every step (TLC checks this on every step  *)
(* of every run, and - configuration MC_Shapes_alg - on the explicit state *)
(* graph with an action property and a liveness property):                 *)
(*   Eq    structural equality of possibly cyclic graphs: a work list of   *)
(*         node PAIRS plus a visited set of node PAIRS; a pair met again   *)
(*         is assumed equal (coinduction).  Checked: the verdict is        *)
(*         bisimilarity, which is defined independently as the greatest    *)
(*         fixpoint of a refinement operator (Bisim).  R7RS 6.1: "equal?   *)
(*         must always terminate even if its arguments contain cycles";    *)
(*         two objects are equal? iff their (possibly infinite)            *)
(*         unfoldings into trees are equal - that is bisimilarity.         *)
(*   Scan/Emit  the cycle-aware printer: pass 1 finds the nodes reached    *)
(*         more than once (they get a datum label), pass 2 emits the text  *)
(*         with #k= at the first and #k# at every later occurrence, as     *)
(*         R7RS `write` does.  Checked: terminates; every labelled node is *)
(*         defined exactly once.                                           *)
(*   Hash  a hash code computed from the first HFUEL nodes of the          *)
(*         breadth-first UNFOLDING (no identity is consulted, so bisimilar *)
(*         values get the same code).  Checked: terminates; bisimilar      *)
(*         nodes hash equal.                                               *)
(*   EqAsIs  NOT part of the design: the comparison as Steel performs it   *)
(*         today (one visited set of single identities, none for boxes),   *)
(*         kept as a named defective machine.  It is run with fuel and     *)
(*         only labels each pair (tag field asis = ok | wrong | hang), so  *)
(*         that a failure of equal? is attributed to a known finding only  *)
(*         where this model says the known defect strikes.  It mirrors the *)
(*         traversal ORDER too (the handler's queues are stacks), because  *)
(*         whether a differing leaf is seen before a box cycle is entered  *)
(*         depends on it.  On all 53 000 pairs of the thorough tier its    *)
(*         prediction matched the engine.                                  *)
(*   VARIANT (constant) switches Eq / the printer to three broken designs  *)
(*         (MC_Shapes_cex_*.cfg); TLC must reject each (non-vacuity of     *)
(*         ModelOK and of the measures).                                   *)
(*                                                                         *)
(* (c) The cases.  For every enumerated heap the specification computes    *)
(* the expectations of the operation matrix                                *)
(*   create    the value really is the graph: every access path of length  *)
(*             <= FPDEPTH from node 1 ends in the leaf / kind Fp computes  *)
(*   write, display (to a string port)      terminates, yields a string    *)
(*   hashkey   (hash-ref (hash x 7) x) = 7          hashing terminates     *)
(*   hashset   (hashset-contains? (hashset x) x)                           *)
(*   send      through a channel to another thread and back; same paths    *)
(*   collect   (#%gc-collect) while x is the only reference; same paths    *)
(*   drop      forget x, then allocate 20000 boxes                         *)
(*   equal     (equal? x y) both orders and (equal? x x) = bisimilarity    *)
(*   hashfind  bisimilar x, y: (hash-contains? (hash x 1) y) = #true       *)
(*   twins additionally: hashfind / hashmember (hashset) with expectation  *)
(*             = bisimilarity, hashcode: codes of bisimilar twins agree    *)
(* and renders the Scheme text of every step.  "Terminates" is observed by *)
(* the replayer: a per-case time limit, and a dead process (native stack   *)
(* overflow, abort) is attributed to the running case.                     *)
(*                                                                         *)
(* PART 2 (case matrix driven from this specification): DEPTH AND WIDTH.   *)
(* Family "deep": operation x shape x depth (DeepOpNames x DeepShapes x     *)
(* DEPTHS; list-like shapes also BIGDEPTHS; shapes whose construction is   *)
(* quadratic are capped, Cap).  Values are built with loops, except the    *)
(* shapes whose point is deep SOURCE text or deep non-tail recursion.      *)
(* TLC contributes the product, the Scheme text and the post-state         *)
(* expectation (the walk to the bottom returns the bottom leaf, the copy   *)
(* is equal?, the one-leaf mutant is not, the key is found again, the      *)
(* length of the written text of flat shapes); the oracle for the host is  *)
(* "the process survives and the step returns a value or an error VALUE    *)
(* in time".  Native stack consumption is not something TLC reasons about. *)
(*                                                                         *)
(* NAMED MODELLING CHOICES / DEVIATIONS ADOPTED ON PURPOSE                 *)
(*  M1  (as Equal.tla M1/M3) boxes, mutable vectors and struct instances   *)
(*      are compared structurally by equal? and hashed by content (Racket  *)
(*      semantics for boxes; R7RS for vectors) - that is why cycles        *)
(*      through them matter to equal? and to hashing at all.               *)
(*  M2  The TEXT of the cycle-aware printer is not part of the verdict:    *)
(*      C18 demands that printing terminates.  Steel prints the labelled   *)
(*      nodes first, one `#k=...` line each, and then the value            *)
(*      (`#0=#(#0# 2)` newline `#0#`; rvals/cycles.rs start_format),       *)
(*      R7RS write prints `#0=#(#0# 2)`.  The specification's text (field  *)
(*      wr) uses Steel's notation for the node kinds ('#&x for boxes,      *)
(*      (a . (b . c)) for nested pairs) and the R7RS label discipline; the *)
(*      check reports how often the two agree as a statistic only.         *)
(*  M3  Part 2: Steel's printer abbreviates everything nested deeper than  *)
(*      128 levels as `...` (rvals/cycles.rs format_with_cycles, the       *)
(*      explicit `if self.depth > 128` guard).  That is one way of keeping *)
(*      the native stack bounded, which is what C18 asks for, so the exact *)
(*      length of the written text is demanded only of shapes whose        *)
(*      nesting is <= 128 (flat lists and vectors of any length).          *)
(*  M4  Part 2: equal? on two separately built closures is not determined  *)
(*      by R7RS (eqv? on procedures); only termination is demanded.        *)
(***************************************************************************)
EXTENDS Integers, Sequences, TLC, Json, FiniteSets

CONSTANTS FAMSEL,    \* families explored by this run (see Families)
          MAXN,      \* largest heap (ring, func, sim)
          FULLN,     \* family "full": every heap with at most this many nodes
          LEAFS,     \* leaf alphabet of the cyclic families
          SEED,      \* family "sim": selects the pseudo-random sub-tree of the build tree
          BRANCH,    \* family "sim": expected number of node choices kept per step
          DEPTHS,    \* family "deep": depths for every shape
          BIGDEPTHS, \* family "deep": additional depths for the list-like shapes
          TWINMOD,   \* family "twin": one in TWINMOD kind vectors of the 3-node bases is kept (SEED)
          ALG,       \* TRUE: run the machines as explicit TLC states (MC_Shapes_alg)
          VARIANT    \* "ok", or a deliberately broken machine (MC_Shapes_cex_*: TLC must object):
                     \*   "single_visited"  Eq keys its visited set on the LEFT node only (what Steel's
                     \*                     RecursiveEqualityHandler does: should_visit on one identity)
                     \*   "no_visited"      Eq without a visited set (plain recursion on both arguments)
                     \*   "no_labels"       the printer without pass 1 (plain recursive display)

VARIABLES fam,    \* family of this behaviour
          ks,     \* kinds of the nodes 1..n (chosen first)
          h,      \* slots of the nodes built so far: h[i] = <<slot, ...>>
          phase,  \* "build" | "built" | "run" | "done"
          alg     \* ALG mode: the running machine [m, x, y, st, aux]; otherwise "-"
vars == <<fam, ks, h, phase, alg>>

-----------------------------------------------------------------------------
(* TLC evaluation note: only operator ARGUMENTS are evaluated once, LET     *)
(* definitions are re-evaluated at every use.  Intermediate results are     *)
(* therefore passed as arguments of helper operators (named ...2, ...3).    *)
Force(f) == f \o << >>

RECURSIVE Join(_, _)
Join(ss, sep) == IF Len(ss) = 0 THEN "" ELSE IF Len(ss) = 1 THEN ss[1]
                 ELSE ss[1] \o sep \o Join(Tail(ss), sep)
RECURSIVE Flatten(_)
Flatten(ss) == IF Len(ss) = 0 THEN << >> ELSE Head(ss) \o Flatten(Tail(ss))
Range(s) == {s[i] : i \in 1..Len(s)}
IdxIn(seq, x) == CHOOSE i \in 1..Len(seq) : seq[i] = x

-----------------------------------------------------------------------------
(* Heaps *)
KindOrder  == <<"B", "V", "S", "L", "P", "H">>
AllKinds   == Range(KindOrder)
Arity(k)   == IF k \in {"B", "H"} THEN 1 ELSE 2
Mutable(k) == k \in {"B", "V", "S"}

Leaf(l) == [r |-> 0, l |-> l]
Ref(j)  == [r |-> j, l |-> 0]

\* node i (kind kk[i]) may hold a reference to node j in slot p
RefOK(kk, i, p, j) ==
  /\ (~Mutable(kk[i]) /\ ~Mutable(kk[j])) => j < i      \* immutable -> earlier immutable only
  /\ (kk[i] = "P" /\ p = 2) => kk[j] # "L"               \* (cons a <list>) would BE a list
SlotChoices(kk, i, p) ==
  {Leaf(l) : l \in LEAFS} \cup {Ref(j) : j \in {j \in 1..Len(kk) : RefOK(kk, i, p, j)}}

\* a heap as one value
G(kk, hh) == [k |-> kk, c |-> hh]
Nodes(g)  == 1..Len(g.k)
Succ(g, i) == {g.c[i][p].r : p \in 1..Len(g.c[i])} \ {0}
RefSeq(g, i) == SelectSeq(g.c[i], LAMBDA s : s.r # 0)

RECURSIVE ReachFrom(_, _)
ReachFrom2(g, S, T) == IF T = S THEN S ELSE ReachFrom(g, T)
ReachFrom(g, S) == ReachFrom2(g, S, S \cup UNION {Succ(g, i) : i \in S})
OnCycle(g, i) == i \in ReachFrom(g, Succ(g, i))
CycNodes(g, S) == {i \in ReachFrom(g, S) : OnCycle(g, i)}
\* nodes referenced from >= 2 slots of the part reachable from S (shared, not necessarily cyclic)
InDeg(g, R, j) == Cardinality({<<i, p>> \in R \X {1, 2} : p <= Len(g.c[i]) /\ g.c[i][p].r = j})
Shared2(g, R) == {j \in R : InDeg(g, R, j) >= 2}
Shared(g, S) == Shared2(g, ReachFrom(g, S))

-----------------------------------------------------------------------------
(* Families of heaps.  kinds = the kind vectors, choices = the nodes that may *)
(* be put at position i.                                                      *)
SeqsOf(S, n) == [1..n -> S]
HasMutable(kk) == \E i \in 1..Len(kk) : Mutable(kk[i])
Tuples(kk, i) == IF Arity(kk[i]) = 1 THEN {<<s>> : s \in SlotChoices(kk, i, 1)}
                 ELSE {<<s, t>> : s \in SlotChoices(kk, i, 1), t \in SlotChoices(kk, i, 2)}
RingNext(kk, i) == (i % Len(kk)) + 1
\* "ring": 1 -> 2 -> ... -> n -> 1 through one slot of every node; the other slot of a
\* 2-slot node holds the leaf 1 or (n = 3) a second reference to node 1
RingOther(kk, i, p) == {Leaf(1)} \cup (IF Len(kk) = 3 /\ RefOK(kk, i, p, 1) THEN {Ref(1)} ELSE {})
RingChoices(kk, i) ==
  IF Arity(kk[i]) = 1
  THEN (IF RefOK(kk, i, 1, RingNext(kk, i)) THEN {<<Ref(RingNext(kk, i))>>} ELSE {})
  ELSE (IF RefOK(kk, i, 1, RingNext(kk, i))
        THEN {<<Ref(RingNext(kk, i)), o>> : o \in RingOther(kk, i, 2)} ELSE {})
       \cup (IF RefOK(kk, i, 2, RingNext(kk, i))
             THEN {<<o, Ref(RingNext(kk, i))>> : o \in RingOther(kk, i, 1)} ELSE {})
\* "func1" / "func2": one mutable kind throughout, every node has ONE link (slot 1 / slot 2) to
\* any node or leaf, the other slot holds the leaf 1: all functional graphs - a short cycle next
\* to a long one, a cycle next to a finite unfolding of it, tails leading into a cycle
FuncChoices(kk, i, pos) ==
  IF Arity(kk[i]) = 1 THEN {<<s>> : s \in SlotChoices(kk, i, 1)}
  ELSE IF pos = 1 THEN {<<s, Leaf(1)>> : s \in SlotChoices(kk, i, 1)}
  ELSE {<<Leaf(1), s>> : s \in SlotChoices(kk, i, 2)}
Uniform(S, n) == {[i \in 1..n |-> k] : k \in S}
\* "twin": BASE shapes that are then built twice (see TWINS below).  2 nodes: every heap over all
\* six kinds (leaf 1 only - the near-twins introduce the second leaf); 3 nodes: every node has one
\* link in either slot, the other slot holds the leaf 1 - all mixes of kinds along a path that
\* closes into a cycle.  Immutable-only kind vectors are allowed: shared, acyclic bases.
SlotChoices1(kk, i, p) == {Leaf(1)} \cup {Ref(j) : j \in {j \in 1..Len(kk) : RefOK(kk, i, p, j)}}
TwinChoices(kk, i) ==
  IF Arity(kk[i]) = 1 THEN {<<s>> : s \in SlotChoices1(kk, i, 1)}
  ELSE IF Len(kk) = 2 THEN {<<s, t>> : s \in SlotChoices1(kk, i, 1), t \in SlotChoices1(kk, i, 2)}
  ELSE {<<s, Leaf(1)>> : s \in SlotChoices1(kk, i, 1)} \cup {<<Leaf(1), s>> : s \in SlotChoices1(kk, i, 2)}

KindVecs(f) ==
  CASE f = "full"  -> {kk \in UNION {SeqsOf(AllKinds, n) : n \in 1..FULLN} : HasMutable(kk)}
    [] f = "ring"  -> {kk \in UNION {SeqsOf(AllKinds, n) : n \in 3..MAXN} : HasMutable(kk)}
    [] f = "func1" -> UNION {Uniform({"B", "V", "S"}, n) : n \in 3..MAXN}
    [] f = "func2" -> UNION {Uniform({"V", "S"}, n) : n \in 3..MAXN}
    [] f = "sim"   -> {kk \in UNION {SeqsOf(AllKinds, n) : n \in 3..MAXN} : HasMutable(kk)}
    [] f = "twin"  -> UNION {SeqsOf(AllKinds, n) : n \in 2..3}
    [] OTHER       -> {<< >>}
AllChoices(f, kk, i) ==
  CASE f = "ring"  -> RingChoices(kk, i)
    [] f = "func1" -> FuncChoices(kk, i, 1)
    [] f = "func2" -> FuncChoices(kk, i, 2)
    [] f = "twin"  -> TwinChoices(kk, i)
    [] OTHER       -> Tuples(kk, i)

\* Seeded pseudo-random thinning of the build tree of family "sim" (a pure function of the
\* heap so far, the candidate node and SEED: reproducible, independent of the worker count)
Mx(a, b) == (a * 251 + b) % 9973
SlotCode(s) == IF s.r = 0 THEN s.l ELSE 40 + s.r
TupCode(t) == Mx(SlotCode(t[1]), IF Len(t) >= 2 THEN SlotCode(t[2]) ELSE 7)
RECURSIVE KindsCode(_, _)
KindsCode(kk, i) == IF i = 0 THEN SEED % 9973 ELSE Mx(KindsCode(kk, i - 1), IdxIn(KindOrder, kk[i]))
RECURSIVE HeapCode(_, _, _)
HeapCode(kk, hh, i) == IF i = 0 THEN KindsCode(kk, Len(kk)) ELSE Mx(HeapCode(kk, hh, i - 1), TupCode(hh[i]))
Kept3(choices, hc, m) == {t \in choices : (Mx(Mx(hc, TupCode(t)), 4001) % m) < BRANCH}
Kept(kk, hh, choices) == Kept3(choices, HeapCode(kk, hh, Len(hh)), Cardinality(choices))
Choices(f, kk, hh) == IF f = "sim" THEN Kept(kk, hh, AllChoices(f, kk, Len(hh) + 1))
                      ELSE AllChoices(f, kk, Len(hh) + 1)
\* family "sim" also thins the kind vectors (about one in four survives)
KeptKinds(f, kk) == CASE f = "sim"  -> (Mx(KindsCode(kk, Len(kk)), 3001) % 4) = 0
                       [] f = "twin" -> Len(kk) = 2 \/ (Mx(KindsCode(kk, Len(kk)), 2003) % TWINMOD) = 0
                       [] OTHER      -> TRUE

-----------------------------------------------------------------------------
(* BISIMILARITY - the meaning of equal? on possibly cyclic graphs, defined    *)
(* without any algorithm: the greatest relation R such that related nodes     *)
(* have the same kind and slot-wise equal leaves / related successors.        *)
SlotRel(s, t, R) == IF s.r = 0 \/ t.r = 0 THEN s.r = 0 /\ t.r = 0 /\ s.l = t.l
                    ELSE <<s.r, t.r>> \in R
Compat(g, x, y, R) == /\ g.k[x] = g.k[y]
                      /\ \A p \in 1..Arity(g.k[x]) : SlotRel(g.c[x][p], g.c[y][p], R)
RECURSIVE Gfp(_, _)
Gfp2(g, R, R2) == IF R2 = R THEN R ELSE Gfp(g, R2)
Gfp(g, R) == Gfp2(g, R, {pr \in R : Compat(g, pr[1], pr[2], R)})
Bisim(g) == Gfp(g, Nodes(g) \X Nodes(g))

-----------------------------------------------------------------------------
(* MACHINE Eq: work-list equality with a visited set of node pairs.           *)
AllPairs(g) == Nodes(g) \X Nodes(g)
EqInit(x, y) == [todo |-> << <<x, y>> >>, seen |-> {}, res |-> "run"]
EqDone(st) == st.res # "run"
LeafClash(g, x, y) == \E p \in 1..Arity(g.k[x]) :
                         \/ (g.c[x][p].r = 0) # (g.c[y][p].r = 0)
                         \/ (g.c[x][p].r = 0 /\ g.c[x][p].l # g.c[y][p].l)
ChildPairs(g, x, y) == LET ps == SelectSeq(<<1, 2>>, LAMBDA p : p <= Arity(g.k[x]) /\ g.c[x][p].r # 0)
                       IN  [q \in 1..Len(ps) |-> <<g.c[x][ps[q]].r, g.c[y][ps[q]].r>>]
MetBefore(st, x, y) == IF VARIANT = "single_visited" THEN \E pr \in st.seen : pr[1] = x
                       ELSE <<x, y>> \in st.seen
EqVisit(g, st, x, y, rest) ==
  IF MetBefore(st, x, y) THEN [st EXCEPT !.todo = rest]                  \* met before: assumed equal
  ELSE IF g.k[x] # g.k[y] \/ LeafClash(g, x, y) THEN [st EXCEPT !.res = "F"]
  ELSE [todo |-> rest \o ChildPairs(g, x, y), res |-> "run",
        seen |-> IF VARIANT = "no_visited" THEN st.seen ELSE st.seen \cup {<<x, y>>}]
EqStep(g, st) == IF st.todo = << >> THEN [st EXCEPT !.res = "T"]
                 ELSE EqVisit(g, st, Head(st.todo)[1], Head(st.todo)[2], Tail(st.todo))
\* every step removes a pair from the work list, or moves a pair into the visited set and adds
\* at most two pairs to the work list
EqMeasure(g, st) == IF EqDone(st) THEN 0
                    ELSE 1 + Len(st.todo) + 3 * Cardinality(AllPairs(g) \ st.seen)
RECURSIVE EqRun(_, _)
EqRun2(g, st, st2) == IF Assert(EqMeasure(g, st2) < EqMeasure(g, st), <<"Eq: measure does not decrease", st>>)
                      THEN EqRun(g, st2) ELSE st
EqRun(g, st) == IF EqDone(st) THEN st ELSE EqRun2(g, st, EqStep(g, st))
EqResult(g, x, y) == EqRun(g, EqInit(x, y)).res = "T"

-----------------------------------------------------------------------------
(* MACHINE EqAsIs: the comparison as Steel's RecursiveEqualityHandler does it *)
(* today (rvals/cycles.rs:1899-2400), kept next to Eq as a NAMED DEFECTIVE    *)
(* variant.  It is not an oracle: it predicts, per pair, whether the known    *)
(* defects are in play (tag field asis = ok | wrong | hang), so that a        *)
(* failure is attributed to a known finding only where this model says the    *)
(* defect strikes, and every other failure is a violation.                    *)
(*   - one visited set of single node identities, shared by both sides:       *)
(*     `should_visit(l) && should_visit(r)` - a pair is skipped (= assumed    *)
(*     equal) as soon as EITHER node was seen before, in any pairing;         *)
(*   - boxes are compared without consulting the set at all;                  *)
(*   - identical objects are equal without descending.                        *)
\*   - the two work queues are used as STACKS (EqualityVisitor::pop_front is Vec::pop): the
\*     children of a node - leaves included - are pushed in slot order and the LAST one is compared
\*     first, so a differing leaf in an early slot is only seen after everything reachable from the
\*     later slots has been compared (which, through a box cycle, is never).
\* A work item is a pair of SLOTS.
AsIsInit(x, y) == [todo |-> << <<Ref(x), Ref(y)>> >>, ids |-> {}, res |-> "run"]
SlotPairs(g, x, y) == [p \in 1..Arity(g.k[x]) |-> <<g.c[x][p], g.c[y][p]>>]
AsIsNode(g, st, x, y, rest) ==
  IF x = y THEN [st EXCEPT !.todo = rest]
  ELSE IF g.k[x] # g.k[y] THEN [st EXCEPT !.res = "F"]
  ELSE IF g.k[x] = "B" THEN [st EXCEPT !.todo = rest \o SlotPairs(g, x, y)]
  ELSE IF x \in st.ids THEN [st EXCEPT !.todo = rest]
  ELSE IF y \in st.ids THEN [st EXCEPT !.todo = rest, !.ids = @ \cup {x}]
  ELSE [todo |-> rest \o SlotPairs(g, x, y), ids |-> st.ids \cup {x, y}, res |-> "run"]
AsIsItem(g, st, s, t, rest) ==
  IF s.r = 0 /\ t.r = 0 THEN (IF s.l = t.l THEN [st EXCEPT !.todo = rest] ELSE [st EXCEPT !.res = "F"])
  ELSE IF s.r = 0 \/ t.r = 0 THEN [st EXCEPT !.res = "F"]
  ELSE AsIsNode(g, st, s.r, t.r, rest)
AsIsStep(g, st) == IF st.todo = << >> THEN [st EXCEPT !.res = "T"]
                   ELSE AsIsItem(g, st, st.todo[Len(st.todo)][1], st.todo[Len(st.todo)][2],
                                 SubSeq(st.todo, 1, Len(st.todo) - 1))
\* no measure: this machine need not terminate; it is run with fuel (a terminating run on <= 9 nodes
\* visits each non-box node at most once per side: far fewer than 300 steps)
RECURSIVE AsIsRun(_, _, _)
AsIsRun(g, st, fuel) == IF st.res # "run" THEN st.res ELSE IF fuel = 0 THEN "hang"
                        ELSE AsIsRun(g, AsIsStep(g, st), fuel - 1)
AsIsPredict3(r, b) == IF r = "hang" THEN "hang" ELSE IF (r = "T") = b THEN "ok" ELSE "wrong"
AsIsPredict(g, x, y, b) == AsIsPredict3(AsIsRun(g, AsIsInit(x, y), 300), b)

-----------------------------------------------------------------------------
(* MACHINE Scan (printer pass 1): which nodes are reached more than once.     *)
ScanInit(x) == [stack |-> <<x>>, seen |-> {}, multi |-> {}]
ScanDone(st) == st.stack = << >>
ScanStep(g, st) ==
  IF Head(st.stack) \in st.seen
  THEN [st EXCEPT !.stack = Tail(@), !.multi = @ \cup {Head(st.stack)}]
  ELSE [stack |-> [q \in 1..Len(RefSeq(g, Head(st.stack))) |-> RefSeq(g, Head(st.stack))[q].r] \o Tail(st.stack),
        seen |-> st.seen \cup {Head(st.stack)}, multi |-> st.multi]
ScanMeasure(g, st) == Len(st.stack) + 3 * Cardinality(Nodes(g) \ st.seen)
RECURSIVE ScanRun(_, _)
ScanRun2(g, st, st2) == IF Assert(ScanMeasure(g, st2) < ScanMeasure(g, st), <<"Scan: measure does not decrease", st>>)
                        THEN ScanRun(g, st2) ELSE st
ScanRun(g, st) == IF ScanDone(st) THEN st ELSE ScanRun2(g, st, ScanStep(g, st))

(* MACHINE Emit (printer pass 2): a stack of work items (text to append, or a *)
(* node to print); lab = the labelled nodes in the order their labels were    *)
(* handed out (label of lab[k] is k-1); exp = the nodes already expanded.     *)
Txt(s)  == [txt |-> s, ref |-> 0]
Item(s) == IF s.r = 0 THEN Txt(ToString(s.l)) ELSE [txt |-> "", ref |-> s.r]
StructName == "c18s"
Body(g, i) ==
  CASE g.k[i] = "B" -> <<Txt("'#&"), Item(g.c[i][1])>>
    [] g.k[i] = "V" -> <<Txt("#("), Item(g.c[i][1]), Txt(" "), Item(g.c[i][2]), Txt(")")>>
    [] g.k[i] = "S" -> <<Txt("(" \o StructName \o " "), Item(g.c[i][1]), Txt(" "), Item(g.c[i][2]), Txt(")")>>
    [] g.k[i] = "L" -> <<Txt("("), Item(g.c[i][1]), Txt(" "), Item(g.c[i][2]), Txt(")")>>
    [] g.k[i] = "P" -> <<Txt("("), Item(g.c[i][1]), Txt(" . "), Item(g.c[i][2]), Txt(")")>>
    [] g.k[i] = "H" -> <<Txt("#hash((k . "), Item(g.c[i][1]), Txt("))")>>
EmitInit(x) == [stack |-> <<[txt |-> "", ref |-> x]>>, out |-> "", lab |-> << >>, exp |-> {}]
EmitDone(st) == st.stack = << >>
EmitNode(g, multi, st, i, rest) ==
  IF i \in Range(st.lab)                                                   \* printed before: #k#
  THEN [st EXCEPT !.out = @ \o "#" \o ToString(IdxIn(st.lab, i) - 1) \o "#", !.stack = rest]
  ELSE IF i \in multi                                                      \* first occurrence: #k=
  THEN [stack |-> Body(g, i) \o rest, out |-> st.out \o "#" \o ToString(Len(st.lab)) \o "=",
        lab |-> Append(st.lab, i), exp |-> st.exp \cup {i}]
  ELSE [stack |-> Body(g, i) \o rest, out |-> st.out, lab |-> st.lab, exp |-> st.exp \cup {i}]
EmitStep(g, multi, st) ==
  IF Head(st.stack).ref = 0 THEN [st EXCEPT !.out = @ \o Head(st.stack).txt, !.stack = Tail(@)]
  ELSE EmitNode(g, multi, st, Head(st.stack).ref, Tail(st.stack))
\* a node is expanded at most once (a node reached twice is labelled, by Scan); an expansion
\* replaces one item by at most five
EmitMeasure(g, st) == Len(st.stack) + 6 * Cardinality(Nodes(g) \ st.exp)
RECURSIVE EmitRun(_, _, _)
EmitRun2(g, multi, st, st2) ==
  IF Assert(EmitMeasure(g, st2) < EmitMeasure(g, st), <<"Emit: measure does not decrease", st>>)
  THEN EmitRun(g, multi, st2) ELSE st
EmitRun(g, multi, st) == IF EmitDone(st) THEN st ELSE EmitRun2(g, multi, st, EmitStep(g, multi, st))
PrintOf(g, x) == EmitRun(g, IF VARIANT = "no_labels" THEN {} ELSE ScanRun(g, ScanInit(x)).multi, EmitInit(x))

-----------------------------------------------------------------------------
(* MACHINE Hash: mixes kinds and leaves of the first HFUEL nodes of the       *)
(* breadth-first unfolding.  No node identity is consulted.                   *)
HFUEL == 8
HashInit(x) == [queue |-> <<Ref(x)>>, fuel |-> HFUEL, acc |-> 17]
HashDone(st) == st.fuel = 0 \/ st.queue = << >>
HashStep(g, st) ==
  IF Head(st.queue).r = 0
  THEN [queue |-> Tail(st.queue), fuel |-> st.fuel - 1, acc |-> Mx(st.acc, Head(st.queue).l)]
  ELSE [queue |-> Tail(st.queue) \o g.c[Head(st.queue).r], fuel |-> st.fuel - 1,
        acc |-> Mx(st.acc, 100 + IdxIn(KindOrder, g.k[Head(st.queue).r]))]
HashMeasure(st) == IF HashDone(st) THEN 0 ELSE st.fuel
RECURSIVE HashRun(_, _)
HashRun2(g, st, st2) == IF Assert(HashMeasure(st2) < HashMeasure(st), <<"Hash: measure does not decrease", st>>)
                        THEN HashRun(g, st2) ELSE st
HashRun(g, st) == IF HashDone(st) THEN st ELSE HashRun2(g, st, HashStep(g, st))
HashOf(g, x) == HashRun(g, HashInit(x)).acc

-----------------------------------------------------------------------------
(* What the machines must achieve, on one finished heap *)
EqCorrect2(g, bis) == \A pr \in AllPairs(g) : EqResult(g, pr[1], pr[2]) = (pr \in bis)
BisimIsEquivalence2(g, bis) ==
  /\ \A x \in Nodes(g) : <<x, x>> \in bis
  /\ \A pr \in bis : <<pr[2], pr[1]>> \in bis
  /\ \A p \in bis : \A q \in bis : p[2] = q[1] => <<p[1], q[2]>> \in bis
HashAgrees2(g, bis) == \A pr \in bis : HashOf(g, pr[1]) = HashOf(g, pr[2])
\* every labelled node is defined once, referenced at least once; unlabelled nodes are not referenced
PrintSane2(g, x, multi, st) ==
  /\ Range(st.lab) = multi /\ Len(st.lab) = Cardinality(multi)
  /\ st.exp = ReachFrom(g, {x})
  /\ multi = {j \in ReachFrom(g, {x}) : InDeg(g, ReachFrom(g, {x}), j) + (IF j = x THEN 1 ELSE 0) >= 2}
PrintSane(g, x) == PrintSane2(g, x, ScanRun(g, ScanInit(x)).multi, PrintOf(g, x))
ModelOK2(g, bis) == /\ EqCorrect2(g, bis) /\ BisimIsEquivalence2(g, bis) /\ HashAgrees2(g, bis)
                    /\ \A x \in Nodes(g) : PrintSane(g, x)

-----------------------------------------------------------------------------
(* Rendering: the Scheme text that builds a heap *)
V(i) == "n" \o ToString(i)
RSlot(s) == IF s.r = 0 THEN ToString(s.l) ELSE V(s.r)
Placeholder(k) == CASE k = "B" -> "(box 0)" [] k = "V" -> "(vector 0 0)" [] OTHER -> "(c18s@@ 0 0)"
ImmNode(g, i) == IF g.k[i] = "H" THEN "(hash 'k " \o RSlot(g.c[i][1]) \o ")"
                 ELSE (IF g.k[i] = "L" THEN "(list " ELSE "(cons ") \o RSlot(g.c[i][1]) \o " " \o RSlot(g.c[i][2]) \o ")"
Setters(g, i) ==
  CASE g.k[i] = "B" -> <<"(set-box! " \o V(i) \o " " \o RSlot(g.c[i][1]) \o ")">>
    [] g.k[i] = "V" -> <<"(vector-set! " \o V(i) \o " 0 " \o RSlot(g.c[i][1]) \o ")",
                         "(vector-set! " \o V(i) \o " 1 " \o RSlot(g.c[i][2]) \o ")">>
    [] g.k[i] = "S" -> <<"(set-c18s@@-a! " \o V(i) \o " " \o RSlot(g.c[i][1]) \o ")",
                         "(set-c18s@@-b! " \o V(i) \o " " \o RSlot(g.c[i][2]) \o ")">>
    [] OTHER -> << >>
MutIdx(g) == SelectSeq([i \in Nodes(g) |-> i], LAMBDA i : Mutable(g.k[i]))
\* immutable nodes are bound in an order in which every immutable node comes after the immutable
\* nodes it refers to (rank = length of the longest chain of immutable references below it; the
\* immutable sub-graph is acyclic).  For the enumerated families that is the index order; the
\* derived heaps of family "twin" need the general rule.
SetMax(S) == CHOOSE m \in S : \A x \in S : x <= m
RECURSIVE ImmRank(_, _)
ImmRank2(g, imm) == IF imm = {} THEN 0 ELSE 1 + SetMax({ImmRank(g, j) : j \in imm})
ImmRank(g, i) == ImmRank2(g, {j \in Succ(g, i) : ~Mutable(g.k[j])})
ImmIdx2(g, idx, rank) == SortSeq(idx, LAMBDA a, b : rank[a] < rank[b] \/ (rank[a] = rank[b] /\ a < b))
ImmIdx(g) == ImmIdx2(g, SelectSeq([i \in Nodes(g) |-> i], LAMBDA i : ~Mutable(g.k[i])),
                     [i \in Nodes(g) |-> IF Mutable(g.k[i]) THEN 0 ELSE ImmRank(g, i)])
Bindings3(g, mi, ii) ==
  Join([q \in 1..Len(mi) |-> "(" \o V(mi[q]) \o " " \o Placeholder(g.k[mi[q]]) \o ")"]
       \o [q \in 1..Len(ii) |-> "(" \o V(ii[q]) \o " " \o ImmNode(g, ii[q]) \o ")"], " ")
Bindings(g) == Bindings3(g, MutIdx(g), ImmIdx(g))
LetGraph(g, result) ==
  "(let* (" \o Bindings(g) \o ") " \o Join(Flatten([q \in 1..Len(MutIdx(g)) |-> Setters(g, MutIdx(g)[q])]), " ")
  \o " " \o result \o ")"
StructDef == "(struct c18s@@ (a b) #:mutable #:transparent)"
\* classifier used by the path observations: a leaf is itself, a node is its kind letter
\* (Steel has no predicate for boxes: what is none of the others is a box)
KindFn == "(define (c18k@@ v) (cond ((number? v) v) ((vector? v) 'V) ((c18s@@? v) 'S) ((list? v) 'L) ((pair? v) 'P) ((hash? v) 'H) (else 'B)))"
Step(src, class, emit, val) == [src |-> src, class |-> class, emit |-> emit, val |-> val]
NoEmit == <<"*">>      \* the emitted sequence / the value is not compared
NoVal  == "*"
\* x is the only reference to the graph
BuildOne(g) == << Step(StructDef, "ok", NoEmit, NoVal), Step(KindFn, "ok", NoEmit, NoVal),
                  Step("(define c18x@@ " \o LetGraph(g, V(1)) \o ")", "ok", NoEmit, NoVal) >>
BuildTwo(g, x, y) ==
  << Step(StructDef, "ok", NoEmit, NoVal), Step(KindFn, "ok", NoEmit, NoVal),
     Step("(define c18g@@ " \o LetGraph(g, "(cons " \o V(x) \o " " \o V(y) \o ")") \o ")", "ok", NoEmit, NoVal),
     Step("(define c18x@@ (car c18g@@))", "ok", NoEmit, NoVal),
     Step("(define c18y@@ (cdr c18g@@))", "ok", NoEmit, NoVal),
     Step("(begin (set! c18g@@ 0) 0)", "ok", NoEmit, "0") >>

-----------------------------------------------------------------------------
(* Path observations: every access path of length <= FPDEPTH from node x, in  *)
(* depth-first slot order; e = the Scheme accessor expression, o = what is    *)
(* found there (leaf value or kind letter).                                   *)
FPDEPTH == 3
Access(k, p, e) ==
  CASE k = "B" -> "(unbox " \o e \o ")"
    [] k = "V" -> "(vector-ref " \o e \o " " \o ToString(p - 1) \o ")"
    [] k = "S" -> (IF p = 1 THEN "(c18s@@-a " ELSE "(c18s@@-b ") \o e \o ")"
    [] k = "L" -> (IF p = 1 THEN "(car " \o e \o ")" ELSE "(car (cdr " \o e \o "))")
    [] k = "P" -> (IF p = 1 THEN "(car " ELSE "(cdr ") \o e \o ")"
    [] k = "H" -> "(hash-ref " \o e \o " 'k)"
RECURSIVE Fp(_, _, _, _)
FpSlot(g, s, e, d) ==
  IF s.r = 0 THEN << [e |-> e, o |-> ToString(s.l)] >>
  ELSE << [e |-> e, o |-> g.k[s.r]] >> \o (IF d > 1 THEN Fp(g, s.r, e, d - 1) ELSE << >>)
Fp(g, i, e, d) == Flatten([p \in 1..Arity(g.k[i]) |-> FpSlot(g, g.c[i][p], Access(g.k[i], p, e), d)])
FpSrc2(fp) == "(emit (list " \o Join([q \in 1..Len(fp) |-> "(c18k@@ " \o fp[q].e \o ")"], " ") \o "))"
FpExp2(fp) == "(" \o Join([q \in 1..Len(fp) |-> fp[q].o], " ") \o ")"
FpSrc(g, x, e) == FpSrc2(Fp(g, x, e, FPDEPTH))
FpExp(g, x)    == FpExp2(Fp(g, x, "_", FPDEPTH))

-----------------------------------------------------------------------------
(* The operation matrix of the cyclic families *)
KindStr(S) == Join(SelectSeq(KindOrder, LAMBDA k : k \in S), "")
KindsOf(g, S) == {g.k[i] : i \in S}
B2S(b) == IF b THEN "T" ELSE "F"
\* features of the value(s) under test: which kinds lie on cycles, which are reachable, which
\* are shared - the preconditions known findings are keyed on
Feat(g, S) == "root=" \o Join([q \in 1..Len(S) |-> g.k[S[q]]], "") \o "|cyc=" \o KindStr(KindsOf(g, CycNodes(g, Range(S))))
              \o "|reach=" \o KindStr(KindsOf(g, ReachFrom(g, Range(S))))
              \o "|shared=" \o KindStr(KindsOf(g, Shared(g, Range(S))))
Tag(f, g, op, S, extra) == "cyc|op=" \o op \o "|fam=" \o f \o "|n=" \o ToString(Len(g.k)) \o "|" \o Feat(g, S) \o extra

SendSrc(inner) ==
  "(let* ((c1 (channels/new)) (c2 (channels/new)) (t (spawn-native-thread (lambda () "
  \o "(channel/send (channels-sender c2) (channel/recv (channels-receiver c1))))))) "
  \o "(channel/send (channels-sender c1) c18x@@) (let ((r (channel/recv (channels-receiver c2)))) (thread-join! t) "
  \o inner \o "))"
AllocLoop == "(let loop ((i 0) (acc '())) (if (< i 20000) (loop (+ i 1) (cons (box i) acc)) (length acc)))"

Op(name, tag, steps) == [op |-> name, tag |-> tag, steps |-> steps]
SingleOps(f, g) ==
  << Op("create",  Tag(f, g, "create", <<1>>, ""),
        <<Step(FpSrc(g, 1, "c18x@@"), "ok", <<FpExp(g, 1)>>, NoVal)>>),
     Op("write",   Tag(f, g, "write", <<1>>, ""),
        <<Step("(call-with-output-string (lambda (p) (write c18x@@ p)))", "ok", NoEmit, NoVal)>>),
     Op("display", Tag(f, g, "display", <<1>>, ""),
        <<Step("(call-with-output-string (lambda (p) (display c18x@@ p)))", "ok", NoEmit, NoVal)>>),
     Op("hashkey", Tag(f, g, "hashkey", <<1>>, ""),
        <<Step("(hash-ref (hash c18x@@ 7) c18x@@)", "ok", NoEmit, "7")>>),
     Op("hashset", Tag(f, g, "hashset", <<1>>, ""),
        <<Step("(hashset-contains? (hashset c18x@@) c18x@@)", "ok", NoEmit, "#true")>>),
     Op("send",    Tag(f, g, "send", <<1>>, ""),
        <<Step(SendSrc(FpSrc(g, 1, "r")), "ok", <<FpExp(g, 1)>>, NoVal)>>),
     Op("collect", Tag(f, g, "collect", <<1>>, ""),
        <<Step("(begin (#%gc-collect) " \o FpSrc(g, 1, "c18x@@") \o ")", "ok", <<FpExp(g, 1)>>, NoVal)>>),
     Op("drop",    Tag(f, g, "drop", <<1>>, ""),
        <<Step("(begin (set! c18x@@ 0) " \o AllocLoop \o ")", "ok", NoEmit, "20000")>>),
     Op("equal",   Tag(f, g, "equal", <<1, 1>>, "|bisim=T|same=T|asis=" \o AsIsPredict(g, 1, 1, TRUE)),
        <<Step("(equal? c18x@@ c18x@@)", "ok", NoEmit, "#true")>>) >>
PairOps(f, g, x, y, b) ==
  << Op("equal", Tag(f, g, "equal", <<x, y>>, "|bisim=" \o B2S(b) \o "|same=F|asis=" \o AsIsPredict(g, x, y, b)),
        <<Step("(equal? c18x@@ c18y@@)", "ok", NoEmit, IF b THEN "#true" ELSE "#false")>>) >>
  \o (IF b THEN << Op("hashfind", Tag(f, g, "hashfind", <<x, y>>, "|bisim=T|same=F"),
                      <<Step("(hash-contains? (hash c18x@@ 1) c18y@@)", "ok", NoEmit, "#true")>>) >>
      ELSE << >>)

\* single-value operations: the heap is exactly what node 1 reaches, and node 1 reaches a cycle
SingleGroup(f, g) ==
  IF ReachFrom(g, {1}) = Nodes(g) /\ CycNodes(g, {1}) # {}
  THEN << [build |-> BuildOne(g), wr |-> PrintOf(g, 1).out, ops |-> SingleOps(f, g)] >> ELSE << >>
\* pair operations on (1,2) and (2,1): the heap is what nodes 1 and 2 reach, one of them reaches a cycle
PairGroup(f, g, bis) ==
  IF Len(g.k) >= 2 /\ ReachFrom(g, {1, 2}) = Nodes(g) /\ CycNodes(g, {1, 2}) # {}
  THEN << [build |-> BuildTwo(g, 1, 2), wr |-> "", ops |-> PairOps(f, g, 1, 2, <<1, 2>> \in bis)],
          [build |-> BuildTwo(g, 2, 1), wr |-> "", ops |-> PairOps(f, g, 2, 1, <<2, 1>> \in bis)] >>
  ELSE << >>
CycCase3(f, g, bis) == [fam |-> f, n |-> Len(g.k), groups |-> SingleGroup(f, g) \o PairGroup(f, g, bis)]
CycCase(f, g) == CycCase3(f, g, Bisim(g))

-----------------------------------------------------------------------------
(* TWINS.  From a base shape b over k nodes (rooted at node 1) the heap       *)
(*     b  (+)  a second structure over fresh nodes k+1 ..                     *)
(* is derived, and the pair (1, k+1) is tested in both orders:                *)
(*   copy    a disjoint copy of b: two DISTINCT, isomorphic values (the pair  *)
(*           is bisimilar but shares no node - the only way an equality or    *)
(*           hashing routine can finish is by its own cycle handling, never   *)
(*           by meeting an identical object)                                  *)
(*   leaf1 / leaf9   the copy with its first / last leaf changed to 2         *)
(*   edge1 / edge9   the copy with its first / last reference replaced by the *)
(*           leaf 1 (an edge removed, possibly opening the cycle)             *)
(*   unfold  the copy unrolled twice: two copies A, B of b in which every     *)
(*           edge into the root goes to the root of the OTHER copy - every    *)
(*           cycle through the root has doubled length; bisimilar to b        *)
(* Nothing is assumed about which variants are equal: the expectation is the  *)
(* greatest-fixpoint Bisim of the derived heap, the work-list machine Eq is   *)
(* checked against it on the tested pairs (TwinOK), EqAsIs labels the pair.   *)
Shift(s, d) == IF s.r = 0 THEN s ELSE Ref(s.r + d)
ShiftAll(c, d) == [i \in 1..Len(c) |-> [p \in 1..Len(c[i]) |-> Shift(c[i][p], d)]]
\* like ShiftAll, but references to node 1 go to node `root`
ShiftRoot(c, d, root) == [i \in 1..Len(c) |-> [p \in 1..Len(c[i]) |->
                            IF c[i][p].r = 1 THEN Ref(root) ELSE Shift(c[i][p], d)]]
AllPos(g) == Flatten([i \in Nodes(g) |-> [p \in 1..Len(g.c[i]) |-> <<i, p>>]])
LeafPos(g) == SelectSeq(AllPos(g), LAMBDA q : g.c[q[1]][q[2]].r = 0)
RefPos(g)  == SelectSeq(AllPos(g), LAMBDA q : g.c[q[1]][q[2]].r # 0)
WithSlot(c, q, s) == [c EXCEPT ![q[1]][q[2]] = s]
Twin2(b, c2) == G(b.k \o b.k, b.c \o ShiftAll(c2, Len(b.k)))
TwinVariants3(b, lp, rp) ==
  << [tw |-> "copy", g |-> Twin2(b, b.c)] >>
  \o (IF Len(lp) >= 1 THEN << [tw |-> "leaf1", g |-> Twin2(b, WithSlot(b.c, lp[1], Leaf(2)))] >> ELSE << >>)
  \o (IF Len(lp) >= 2 THEN << [tw |-> "leaf9", g |-> Twin2(b, WithSlot(b.c, lp[Len(lp)], Leaf(2)))] >> ELSE << >>)
  \o (IF Len(rp) >= 1 THEN << [tw |-> "edge1", g |-> Twin2(b, WithSlot(b.c, rp[1], Leaf(1)))] >> ELSE << >>)
  \o (IF Len(rp) >= 2 THEN << [tw |-> "edge9", g |-> Twin2(b, WithSlot(b.c, rp[Len(rp)], Leaf(1)))] >> ELSE << >>)
  \o (IF \E q \in Range(rp) : b.c[q[1]][q[2]].r = 1
      THEN << [tw |-> "unfold",
               g |-> G(b.k \o b.k \o b.k,
                       b.c \o ShiftRoot(b.c, Len(b.k), 2 * Len(b.k) + 1)
                           \o ShiftRoot(b.c, 2 * Len(b.k), Len(b.k) + 1))] >>
      ELSE << >>)
TwinVariants(b) == TwinVariants3(b, LeafPos(b), RefPos(b))

TwinOK(g, x, y, bis) ==
  /\ EqResult(g, x, y) = (<<x, y>> \in bis) /\ EqResult(g, y, x) = (<<y, x>> \in bis)
  /\ (<<x, y>> \in bis) = (<<y, x>> \in bis)
  /\ (<<x, y>> \in bis) => HashOf(g, x) = HashOf(g, y)
TBool(b) == IF b THEN "#true" ELSE "#false"
TwinOps(f, g, x, y, b, tw) ==
  << Op("equal", Tag(f, g, "equal", <<x, y>>, "|bisim=" \o B2S(b) \o "|same=F|asis=" \o AsIsPredict(g, x, y, b) \o "|tw=" \o tw),
        <<Step("(equal? c18x@@ c18y@@)", "ok", NoEmit, TBool(b))>>),
     \* the twin as hash-map key / hash-set member: found iff bisimilar
     Op("hashfind", Tag(f, g, "hashfind", <<x, y>>, "|bisim=" \o B2S(b) \o "|same=F|tw=" \o tw),
        <<Step("(hash-contains? (hash c18x@@ 1) c18y@@)", "ok", NoEmit, TBool(b))>>),
     Op("hashmember", Tag(f, g, "hashmember", <<x, y>>, "|bisim=" \o B2S(b) \o "|same=F|tw=" \o tw),
        <<Step("(hashset-contains? (hashset c18x@@) c18y@@)", "ok", NoEmit, TBool(b))>>) >>
  \* hash codes of bisimilar twins agree (unequal values may collide: nothing asserted)
  \o (IF b THEN << Op("hashcode", Tag(f, g, "hashcode", <<x, y>>, "|bisim=T|same=F|tw=" \o tw),
                      <<Step("(= (hash-code c18x@@) (hash-code c18y@@))", "ok", NoEmit, "#true")>>) >>
      ELSE << >>)
TwinGroup4(f, v, k, bis) ==
  IF Assert(TwinOK(v.g, 1, k + 1, bis), <<"twin: Eq / Hash disagree with bisimilarity", v>>)
  THEN << [build |-> BuildTwo(v.g, 1, k + 1), wr |-> "", ops |-> TwinOps(f, v.g, 1, k + 1, <<1, k + 1>> \in bis, v.tw)],
          [build |-> BuildTwo(v.g, k + 1, 1), wr |-> "", ops |-> TwinOps(f, v.g, k + 1, 1, <<k + 1, 1>> \in bis, v.tw)] >>
  ELSE << >>
TwinGroup(f, v, k) == TwinGroup4(f, v, k, Bisim(v.g))
TwinGroups(f, b, vs) == Flatten([q \in 1..Len(vs) |-> TwinGroup(f, vs[q], Len(b.k))])
\* bases: rooted at node 1, cyclic or (acyclic and) sharing a node
TwinCase(f, b) ==
  IF ReachFrom(b, {1}) = Nodes(b) /\ (CycNodes(b, {1}) # {} \/ Shared(b, {1}) # {})
  THEN [fam |-> f, n |-> Len(b.k), groups |-> SingleGroup(f, b) \o TwinGroups(f, b, TwinVariants(b))]
  ELSE [fam |-> f, n |-> Len(b.k), groups |-> << >>]

-----------------------------------------------------------------------------
(* PART 2: the depth / width matrix.                                          *)
(* A shape: pre = definitions, mk = body of (c18mk@@ n bot) building the value *)
(* of depth n over the bottom leaf `bot` WITH A LOOP (constant native and VM   *)
(* stack), down = one step towards the bottom, flat = list-like (nesting 1),   *)
(* wlen = length of the written text as a function of n when flat (0: not      *)
(* demanded, see M3), eqcopy = whether equal? on two separately built values   *)
(* is determined (M4), src = the value comes from deeply nested SOURCE text     *)
(* (macro @*n:text@ = text repeated n times, expanded by the check).           *)
Loop(init, step) == "(let loop ((i 0) (acc " \o init \o ")) (if (< i n) (loop (+ i 1) " \o step \o ") acc))"
Shape(name, pre, mk, down, flat, eqcopy, src) ==
  [name |-> name, pre |-> pre, mk |-> mk, down |-> down, flat |-> flat, eqcopy |-> eqcopy, src |-> src]
\* Shapes whose CONSTRUCTION is quadratic in Steel (measured; a cost of building, not of an operation
\* on the value): a map used as key is re-hashed to its full depth at every level; hash-insert in a
\* (depth 4000: 0.6 s, 10^4: > 20 s with the walk); hash-insert in a loop copies (10^4 entries 3 s,
\* 4*10^4 entries 46 s).  Their depth is capped.
Cap(name) == IF name \in {"hashk", "widehash"} THEN 3000 ELSE 1000000
DeepShapes == <<
  Shape("list",    "", Loop("(list bot)", "(cons 0 acc)"),            "(cdr v)",                 TRUE,  TRUE,  ""),
  Shape("cdr",     "", Loop("bot", "(cons 0 acc)"),                   "(cdr v)",                 FALSE, TRUE,  ""),
  Shape("car",     "", Loop("bot", "(list acc)"),                     "(car v)",                 FALSE, TRUE,  ""),
  Shape("ivec",    "", Loop("bot", "(immutable-vector acc)"),         "(vector-ref v 0)",        FALSE, TRUE,  ""),
  Shape("hashv",   "", Loop("bot", "(hash 'k acc)"),                  "(hash-ref v 'k)",         FALSE, TRUE,  ""),
  Shape("hashk",   "", Loop("bot", "(hash acc 1)"),                   "(car (hash-keys->list v))", FALSE, TRUE, ""),
  Shape("struct",  "(struct c18d@@ (next) #:transparent)", Loop("bot", "(c18d@@ acc)"), "(c18d@@-next v)", FALSE, TRUE, ""),
  Shape("box",     "", Loop("bot", "(box acc)"),                      "(unbox v)",               FALSE, TRUE,  ""),
  Shape("mvec",    "", Loop("bot", "(vector acc)"),                   "(vector-ref v 0)",        FALSE, TRUE,  ""),
  Shape("closure", "", Loop("bot", "(let ((prev acc)) (lambda () prev))"), "(v)",                FALSE, FALSE, ""),
  Shape("stream",  "", Loop("bot", "(stream-cons 0 (let ((prev acc)) (lambda () prev)))"), "((#%stream-cdr v))", FALSE, FALSE, ""),
  Shape("widevec", "", "(let ((w (make-vector (+ n 1) 0))) (vector-set! w n bot) w)", "",        TRUE,  TRUE,  ""),
  Shape("widehash","", "(let loop ((i 0) (acc (hash 'bot bot))) (if (< i n) (loop (+ i 1) (hash-insert acc i 0)) acc))", "", TRUE, TRUE, ""),
  \* deep NON-TAIL recursion producing the value
  Shape("rec",     "", "(if (= n 0) (list bot) (cons 0 (c18mk@@ (- n 1) bot)))", "(cdr v)",      TRUE,  TRUE,  ""),
  Shape("reccar",  "", "(if (= n 0) bot (list (c18mk@@ (- n 1) bot)))",          "(car v)",      FALSE, TRUE,  ""),
  \* deeply nested source text fed to the reader / expander / compiler
  Shape("srcquote","", "", "(car v)", FALSE, TRUE, "'@*n:(@$bot@*n:)@"),
  Shape("srcqq",   "", "", "(car v)", FALSE, TRUE, "`@*n:(@,(opaque $bot)@*n:)@"),
  Shape("srcapp",  "", "", "(car v)", FALSE, TRUE, "@*n:(list @(opaque $bot)@*n:)@"),
  Shape("srcvec",  "", "", "(vector-ref v 0)", FALSE, TRUE, "'@*n:#(@$bot@*n:)@"),
  Shape("srclet",  "", "", "", FALSE, TRUE, "@*n:(let ((x $bot)) @x@*n:)@") >>
DeepOpNames == <<"create", "equal", "equalm", "hash", "write", "display", "send", "collect", "drop">>

\* Source shapes: the text is a template; $bot and the depth are substituted by the check
SrcExpr(sh, d, b) == "@SRC:" \o ToString(d) \o ":" \o b \o ":" \o sh.src \o "@END"
ValExpr(sh, d, b) == IF sh.src = "" THEN "(c18mk@@ " \o ToString(d) \o " " \o b \o ")" ELSE SrcExpr(sh, d, b)
\* walk to the bottom: d steps of `down`, with a loop
\* Where Steel has a predicate for the kind, the walk COUNTS the levels it really finds (a value that
\* silently lost levels must not pass); boxes, closures and streams have none: d steps, no count.
Pred(name) == CASE name \in {"car", "reccar", "srcquote", "srcqq", "srcapp"} -> "(list? v)"
                [] name = "cdr" -> "(pair? v)"
                [] name \in {"ivec", "mvec", "srcvec"} -> "(vector? v)"
                [] name \in {"hashv", "hashk"} -> "(hash? v)"
                [] name = "struct" -> "(c18d@@? v)"
                [] OTHER -> ""
Walk(sh, d, var) ==
  IF sh.name = "srclet" THEN var
  ELSE IF sh.name = "widevec" THEN "(vector-ref " \o var \o " " \o ToString(d) \o ")"
  ELSE IF sh.name = "widehash" THEN "(+ (hash-ref " \o var \o " 'bot) (- (hash-length " \o var \o ") " \o ToString(d + 1) \o "))"
  ELSE IF sh.name \in {"list", "rec"} THEN "(car (let loop ((i 0) (v " \o var \o ")) (if (< i " \o ToString(d) \o ") (loop (+ i 1) " \o sh.down \o ") v)))"
  ELSE IF Pred(sh.name) # "" THEN "(let loop ((i 0) (v " \o var \o ")) (if " \o Pred(sh.name) \o " (loop (+ i 1) " \o sh.down \o ") (list i v)))"
  ELSE "(let loop ((i 0) (v " \o var \o ")) (if (< i " \o ToString(d) \o ") (loop (+ i 1) " \o sh.down \o ") v))"
WalkExp(sh, d) == IF Pred(sh.name) # "" THEN "(" \o ToString(d) \o " 0)" ELSE "0"
\* length of (write v) for the flat shapes whose text is determined: list of d zeros and the
\* bottom: "(0 0 ... 0 b)"; vector likewise with "#("
WLen(sh, d) == IF sh.name \in {"list", "rec"} THEN 2 * (d + 1) + 1
               ELSE IF sh.name = "widevec" THEN 2 * (d + 1) + 2 ELSE 0
DeepSetup(sh, d) ==
  (IF sh.pre = "" THEN << >> ELSE <<Step(sh.pre, "ok", NoEmit, NoVal)>>)
  \o (IF sh.src = "" THEN <<Step("(define (c18mk@@ n bot) " \o sh.mk \o ")", "ok", NoEmit, NoVal)>> ELSE << >>)
  \* defined first, assigned second: if building fails with an error VALUE (allowed), the later steps
  \* still find the variable
  \o <<Step("(define c18v@@ 0)", "ok", NoEmit, NoVal), Step("(define c18w@@ 0)", "ok", NoEmit, NoVal),
       Step("(begin (set! c18v@@ " \o ValExpr(sh, d, "0") \o ") 0)", "noncrash", NoEmit, "0")>>
PrintStep(sh, d, fn) ==
  IF WLen(sh, d) > 0
  THEN Step("(string-length (call-with-output-string (lambda (p) (" \o fn \o " c18v@@ p))))", "noncrash", NoEmit, ToString(WLen(sh, d)))
  ELSE Step("(> (string-length (call-with-output-string (lambda (p) (" \o fn \o " c18v@@ p)))) 0)", "noncrash", NoEmit, "#true")
SendDeep(inner) ==
  "(let* ((c1 (channels/new)) (c2 (channels/new)) (t (spawn-native-thread (lambda () "
  \o "(channel/send (channels-sender c2) (channel/recv (channels-receiver c1))))))) "
  \o "(channel/send (channels-sender c1) c18v@@) (let ((r (channel/recv (channels-receiver c2)))) (thread-join! t) "
  \o inner \o "))"
DeepOpSteps(op, sh, d) ==
  CASE op = "create"  -> <<Step(Walk(sh, d, "c18v@@"), "noncrash", NoEmit, WalkExp(sh, d))>>
    [] op = "equal"   -> <<Step("(begin (set! c18w@@ " \o ValExpr(sh, d, "0") \o ") 0)", "noncrash", NoEmit, "0"),
                           Step("(equal? c18v@@ c18w@@)", "noncrash", NoEmit, IF sh.eqcopy THEN "#true" ELSE NoVal)>>
    [] op = "equalm"  -> <<Step("(begin (set! c18w@@ " \o ValExpr(sh, d, "1") \o ") 0)", "noncrash", NoEmit, "0"),
                           Step("(equal? c18v@@ c18w@@)", "noncrash", NoEmit, IF sh.eqcopy THEN "#false" ELSE NoVal)>>
    [] op = "hash"    -> IF sh.eqcopy
                         THEN <<Step("(begin (set! c18w@@ " \o ValExpr(sh, d, "0") \o ") 0)", "noncrash", NoEmit, "0"),
                                Step("(hash-ref (hash c18v@@ 7) c18w@@)", "noncrash", NoEmit, "7")>>
                         ELSE <<Step("(hash-ref (hash c18v@@ 7) c18v@@)", "noncrash", NoEmit, "7")>>
    [] op = "write"   -> <<PrintStep(sh, d, "write")>>
    [] op = "display" -> <<PrintStep(sh, d, "display")>>
    [] op = "send"    -> <<Step(SendDeep(Walk(sh, d, "r")), "noncrash", NoEmit, WalkExp(sh, d))>>
    [] op = "collect" -> <<Step("(begin (#%gc-collect) " \o Walk(sh, d, "c18v@@") \o ")", "noncrash", NoEmit, WalkExp(sh, d))>>
    [] op = "drop"    -> <<Step("(begin (set! c18v@@ 0) " \o AllocLoop \o ")", "noncrash", NoEmit, "20000")>>
MinOf(a, b) == IF a < b THEN a ELSE b
DeepDepths(sh) == {MinOf(d, Cap(sh.name)) : d \in DEPTHS \cup (IF sh.flat THEN BIGDEPTHS ELSE {})}
\* shapes that come from source text: the point is reading / expanding / compiling them; the value
\* is an ordinary nested list or vector, whose operations the loop-built shapes already cover
DeepOpsFor(sh) == IF sh.src = "" THEN 1..Len(DeepOpNames)
                  ELSE {o \in 1..Len(DeepOpNames) : DeepOpNames[o] \in {"create", "equalm", "write", "drop"}}
DeepCombos == UNION {{<<o, s, d>> : o \in DeepOpsFor(DeepShapes[s]), d \in DeepDepths(DeepShapes[s])} : s \in 1..Len(DeepShapes)}
\* last step of every deep case: the value is released INSIDE a step (otherwise it would die with
\* the engine, outside any step, and a crash of that drop could not be attributed to the case)
Release(op) == Step(IF op \in {"equal", "equalm", "hash"}
                    THEN "(begin (set! c18v@@ 0) (set! c18w@@ 0) 0)" ELSE "(begin (set! c18v@@ 0) 0)",
                    "noncrash", NoEmit, NoVal)
DeepCase(c) ==
  [fam |-> "deep", n |-> c[3],
   groups |-> << [build |-> DeepSetup(DeepShapes[c[2]], c[3]), wr |-> "",
                  ops |-> << Op(DeepOpNames[c[1]],
                                "deep|op=" \o DeepOpNames[c[1]] \o "|shape=" \o DeepShapes[c[2]].name
                                  \o "|depth=" \o ToString(c[3]),
                                DeepOpSteps(DeepOpNames[c[1]], DeepShapes[c[2]], c[3]) \o <<Release(DeepOpNames[c[1]])>>) >>] >>]

-----------------------------------------------------------------------------
(* The state machine *)
CycFams == {"full", "ring", "func1", "func2", "sim", "twin"}

Init == /\ fam \in FAMSEL
        /\ IF fam = "deep" THEN /\ ks = << >> /\ h \in DeepCombos /\ phase = "done"
           ELSE /\ ks \in {kk \in KindVecs(fam) : KeptKinds(fam, kk)} /\ h = << >> /\ phase = "build"
        /\ alg = "-"

AddNode == /\ phase = "build" /\ Len(h) < Len(ks)
           /\ \E t \in Choices(fam, ks, h) : h' = Append(h, t)
           /\ phase' = IF Len(h) + 1 = Len(ks) THEN "built" ELSE "build"
           /\ UNCHANGED <<fam, ks, alg>>

(* ALG mode: after the build one machine is chosen and stepped as TLC states. *)
AlgMeasure(g, a) == CASE a.m = "eq"   -> EqMeasure(g, a.st)
                      [] a.m = "scan" -> ScanMeasure(g, a.st)
                      [] a.m = "emit" -> EmitMeasure(g, a.st)
                      [] a.m = "hash" -> HashMeasure(a.st)
AlgDone(a) == CASE a.m = "eq" -> EqDone(a.st) [] a.m = "scan" -> ScanDone(a.st)
                [] a.m = "emit" -> EmitDone(a.st) [] a.m = "hash" -> HashDone(a.st)
Choose == /\ ALG /\ phase = "built"
          /\ \/ \E x \in 1..Len(ks), y \in 1..Len(ks) : alg' = [m |-> "eq", x |-> x, y |-> y, st |-> EqInit(x, y), aux |-> {}]
             \/ \E x \in 1..Len(ks) : alg' = [m |-> "scan", x |-> x, y |-> 0, st |-> ScanInit(x), aux |-> {}]
             \/ \E x \in 1..Len(ks) : alg' = [m |-> "hash", x |-> x, y |-> 0, st |-> HashInit(x), aux |-> {}]
          /\ phase' = "run" /\ UNCHANGED <<fam, ks, h>>
RunStep == /\ ALG /\ phase = "run"
           /\ IF AlgDone(alg)
              THEN IF alg.m = "scan"     \* the printer's second pass follows the first
                   THEN alg' = [m |-> "emit", x |-> alg.x, y |-> 0, st |-> EmitInit(alg.x), aux |-> alg.st.multi] /\ phase' = "run"
                   ELSE alg' = alg /\ phase' = "done"
              ELSE /\ phase' = "run"
                   /\ alg' = [alg EXCEPT !.st = CASE alg.m = "eq"   -> EqStep(G(ks, h), alg.st)
                                                  [] alg.m = "scan" -> ScanStep(G(ks, h), alg.st)
                                                  [] alg.m = "emit" -> EmitStep(G(ks, h), alg.aux, alg.st)
                                                  [] alg.m = "hash" -> HashStep(G(ks, h), alg.st)]
           /\ UNCHANGED <<fam, ks, h>>
Next == AddNode \/ Choose \/ RunStep
Spec == Init /\ [][Next]_vars
LiveSpec == Init /\ [][Next]_vars /\ WF_vars(Next)

-----------------------------------------------------------------------------
(* Properties *)
TypeOK == /\ phase \in {"build", "built", "run", "done"}
          /\ fam \in CycFams \cup {"deep"}
          /\ fam \in CycFams => \A i \in 1..Len(h) : \A p \in 1..Len(h[i]) :
                                   h[i][p].r # 0 => RefOK(ks, i, p, h[i][p].r)
\* on every finished heap: the machines terminate (asserted step by step inside ...Run),
\* Eq decides bisimilarity, bisimilarity is an equivalence, bisimilar nodes hash equal,
\* the printer labels exactly the nodes reached twice
ModelOK == (phase = "built" /\ fam \in CycFams) => ModelOK2(G(ks, h), Bisim(G(ks, h)))
\* one REPLAY line per finished heap (cyclic families: only heaps with a tested group) / deep combination
EmitCase2(c) == c.groups = << >> \/ PrintT(<<"REPLAY", ToJson(c)>>)
EmitCase == /\ (phase = "built" /\ fam \in CycFams \ {"twin"} /\ ~ALG) => EmitCase2(CycCase(fam, G(ks, h)))
            /\ (phase = "built" /\ fam = "twin" /\ ~ALG) => EmitCase2(TwinCase(fam, G(ks, h)))
            /\ (phase = "done" /\ fam = "deep") => EmitCase2(DeepCase(h))

(* ALG mode: the measure of the running machine strictly decreases with every *)
(* step, is a natural number, and every behaviour reaches "done".             *)
MeasureDecreases ==
  [][(phase = "run" /\ phase' = "run" /\ alg.m = alg'.m) =>
       AlgMeasure(G(ks, h), alg') < AlgMeasure(G(ks, h), alg)]_vars
MeasureNat == phase = "run" => AlgMeasure(G(ks, h), alg) >= 0
\* final results of the explicit runs agree with the definitions
AlgResultOK ==
  (phase = "done" /\ ALG) =>
     CASE alg.m = "eq"   -> (alg.st.res = "T") = (<<alg.x, alg.y>> \in Bisim(G(ks, h)))
       [] alg.m = "emit" -> alg.st.out = PrintOf(G(ks, h), alg.x).out
       [] alg.m = "hash" -> alg.st.acc = HashOf(G(ks, h), alg.x)
       [] OTHER -> TRUE
Terminates == <>(phase = "done")
=============================================================================
