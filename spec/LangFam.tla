------------------------------ MODULE LangFam ------------------------------
(***************************************************************************)
(* Shape-directed program families for the Lang.tla reference machine:     *)
(* explicit TLA+ sets of programs (the cross products that the properties' *)
(* `why_tests_cant` name), run on the same CEK machine as the builder.     *)
(*                                                                         *)
(*   "calls"    functions calling functions, loops, closures, rest args,   *)
(*              then a unit that redefines / assigns what they use         *)
(*              (C01, C02: piecewise evaluation, inlining, JIT)            *)
(*   "tail"     loop shapes whose control-stack depth at exit is compared   *)
(*              between a short and a long run (C09).  In the reference    *)
(*              machine the depth is the number of continuation frames,    *)
(*              so the expected answer (#true = constant space) is DECIDED *)
(*              by the semantics of tail position, not listed by hand      *)
(*   "control"  call/cc capture contexts x invocations x dynamic-wind      *)
(*              nesting x errors (C08)                                      *)
(***************************************************************************)
EXTENDS Lang

CONSTANT FAMILY

V(n) == Var(n)
Emit1(e) == P("emit", <<e>>)
Pre == <<Def("x", I(0)), Def("y", I(1))>>

-----------------------------------------------------------------------------
(* calls *)
GBodies == { P("+", <<V("a"), I(1)>>),
             P("*", <<V("a"), V("a")>>),
             If(P("<", <<V("a"), I(2)>>), V("a"), P("-", <<V("a"), I(1)>>)),
             Begin(<<SetE("x", P("+", <<V("x"), V("a")>>)), V("x")>>),
             P("car", <<P("list", <<V("a"), V("y")>>)>>) }
FBodies == { App(V("g"), <<P("+", <<V("a"), V("b")>>)>>),
             P("+", <<App(V("g"), <<V("a")>>), App(V("g"), <<V("b")>>)>>),
             Let(<< <<"t", App(V("g"), <<V("a")>>)>> >>, P("-", <<V("t"), V("b")>>)),
             If(P("<", <<V("a"), I(1)>>), App(V("g"), <<V("b")>>), App(V("f"), <<P("-", <<V("a"), I(1)>>), V("b")>>)),
             App(Lam(<<"k">>, "", App(V("k"), <<V("b")>>)), <<V("g")>>),
             App(Lam(<< >>, "r", P("length", <<V("r")>>)), <<App(V("g"), <<V("a")>>), V("b")>>),
             NLet("loop", << <<"i", I(0)>>, <<"acc", V("b")>> >>,
                  If(P("<", <<V("i"), I(3)>>), App(V("loop"), <<P("+", <<V("i"), I(1)>>), App(V("g"), <<V("acc")>>)>>), V("acc"))) }
G2 == { Lam(<<"a">>, "", P("+", <<V("a"), I(100)>>)), Lam(<<"a">>, "", I(7)) }
LoopCall == NLet("loop", << <<"i", I(0)>>, <<"acc", I(0)>> >>,
                 If(P("<", <<V("i"), I(4)>>),
                    App(V("loop"), <<P("+", <<V("i"), I(1)>>), App(V("f"), <<V("i"), V("acc")>>)>>), V("acc")))
Changes == { <<Def("g", Lam(<<"a">>, "", P("+", <<V("a"), I(100)>>)))>>,
             <<SetE("g", Lam(<<"a">>, "", I(7)))>>,
             <<SetE("x", I(5))>>,
             <<Def("f", Lam(<<"a", "b">>, "", I(9)))>>,
             <<Emit1(I(0))>> }
\* what the global g is bound to when f is compiled: a procedure written in the language, or a NATIVE
\* procedure of the implementation under another name (the tiers may treat a call of such a global specially)
GDefs == { Lam(<<"a">>, "", gb) : gb \in GBodies } \cup { V("-"), V("+"), V("list") }
Calls == { << Pre,
              <<Def("g", gd), Def("f", Lam(<<"a", "b">>, "", fb))>>,
              <<Emit1(App(V("f"), <<I(1), I(2)>>)), Emit1(LoopCall), Emit1(V("x"))>>,
              ch,
              <<Emit1(App(V("f"), <<I(2), I(3)>>)), Emit1(App(V("g"), <<I(2)>>)), Emit1(V("x"))>> >>
           : gd \in GDefs, fb \in FBodies, ch \in Changes }
         \cup
         \* ... the same with g defined by an EARLIER unit than f
         { << Pre, <<Def("g", gd)>>,
              <<Def("f", Lam(<<"a", "b">>, "", fb))>>,
              <<Emit1(App(V("f"), <<I(1), I(2)>>)), Emit1(LoopCall)>>,
              ch,
              <<Emit1(App(V("f"), <<I(2), I(3)>>)), Emit1(App(V("g"), <<I(2)>>))>> >>
           : gd \in { V("-"), V("list"), Lam(<<"a">>, "", P("+", <<V("a"), I(1)>>)) }, fb \in FBodies,
             ch \in { <<SetE("g", Lam(<<"a">>, "", I(7)))>>, <<SetE("g", V("+"))>>, <<Def("g", Lam(<<"a">>, "", I(7)))>> } }

-----------------------------------------------------------------------------
(* tail: (equal? (run 2) (run BigN)) where run returns the control depth at loop exit *)
Depth == P("#%verif-depth", << >>)
Inc(i) == P("+", <<V(i), I(1)>>)
AtEnd == P("=", <<V("i"), V("n")>>)
\* each shape: the definitions of the unit and the expression that runs the loop to n
TailShapes ==
  { [nm |-> "self", defs |-> <<Def("lp", Lam(<<"i", "n">>, "", If(AtEnd, Depth, App(V("lp"), <<Inc("i"), V("n")>>))))>>,
     run |-> Lam(<<"n">>, "", App(V("lp"), <<I(0), V("n")>>))],
    [nm |-> "mutual2", defs |-> <<Def("ev", Lam(<<"i", "n">>, "", If(AtEnd, Depth, App(V("od"), <<Inc("i"), V("n")>>)))),
                                  Def("od", Lam(<<"i", "n">>, "", If(AtEnd, Depth, App(V("ev"), <<Inc("i"), V("n")>>))))>>,
     run |-> Lam(<<"n">>, "", App(V("ev"), <<I(0), P("*", <<I(2), V("n")>>)>>))],
    [nm |-> "through-variable", defs |-> <<Def("lp", Lam(<<"k", "i", "n">>, "", If(AtEnd, Depth, App(V("k"), <<V("k"), Inc("i"), V("n")>>))))>>,
     run |-> Lam(<<"n">>, "", App(V("lp"), <<V("lp"), I(0), V("n")>>))],
    [nm |-> "through-apply", defs |-> <<Def("lp", Lam(<<"i", "n">>, "", If(AtEnd, Depth, P("apply", <<V("lp"), P("list", <<Inc("i"), V("n")>>)>>))))>>,
     run |-> Lam(<<"n">>, "", App(V("lp"), <<I(0), V("n")>>))],
    [nm |-> "in-and", defs |-> <<Def("lp", Lam(<<"i", "n">>, "", If(AtEnd, Depth, And(<<C(BoolV(TRUE)), App(V("lp"), <<Inc("i"), V("n")>>)>>))))>>,
     run |-> Lam(<<"n">>, "", App(V("lp"), <<I(0), V("n")>>))],
    [nm |-> "in-or", defs |-> <<Def("lp", Lam(<<"i", "n">>, "", If(AtEnd, Depth, Or(<<C(BoolV(FALSE)), App(V("lp"), <<Inc("i"), V("n")>>)>>))))>>,
     run |-> Lam(<<"n">>, "", App(V("lp"), <<I(0), V("n")>>))],
    [nm |-> "in-cond", defs |-> <<Def("lp", Lam(<<"i", "n">>, "", Cond(<< <<AtEnd, Depth>> >>, App(V("lp"), <<Inc("i"), V("n")>>))))>>,
     run |-> Lam(<<"n">>, "", App(V("lp"), <<I(0), V("n")>>))],
    [nm |-> "in-when", defs |-> <<Def("lp", Lam(<<"i", "n">>, "", If(AtEnd, Depth, When(C(BoolV(TRUE)), <<C(Void), App(V("lp"), <<Inc("i"), V("n")>>)>>))))>>,
     run |-> Lam(<<"n">>, "", App(V("lp"), <<I(0), V("n")>>))],
    [nm |-> "in-begin", defs |-> <<Def("lp", Lam(<<"i", "n">>, "", If(AtEnd, Depth, Begin(<<SetE("x", V("i")), App(V("lp"), <<Inc("i"), V("n")>>)>>))))>>,
     run |-> Lam(<<"n">>, "", App(V("lp"), <<I(0), V("n")>>))],
    [nm |-> "in-let-1", defs |-> <<Def("lp", Lam(<<"i", "n">>, "", If(AtEnd, Depth, Let(<< <<"j", Inc("i")>> >>, App(V("lp"), <<V("j"), V("n")>>)))))>>,
     run |-> Lam(<<"n">>, "", App(V("lp"), <<I(0), V("n")>>))],
    [nm |-> "in-let-3", defs |-> <<Def("lp", Lam(<<"i", "n">>, "", If(AtEnd, Depth,
                 Let(<< <<"j", Inc("i")>>, <<"u", I(7)>>, <<"w", P("list", <<V("i")>>)>> >>, App(V("lp"), <<V("j"), V("n")>>)))))>>,
     run |-> Lam(<<"n">>, "", App(V("lp"), <<I(0), V("n")>>))],
    [nm |-> "in-letstar", defs |-> <<Def("lp", Lam(<<"i", "n">>, "", If(AtEnd, Depth,
                 LetStar(<< <<"j", Inc("i")>>, <<"m", V("n")>> >>, App(V("lp"), <<V("j"), V("m")>>)))))>>,
     run |-> Lam(<<"n">>, "", App(V("lp"), <<I(0), V("n")>>))],
    [nm |-> "named-let", defs |-> << >>,
     run |-> Lam(<<"n">>, "", NLet("loop", << <<"i", I(0)>> >>, If(AtEnd, Depth, App(V("loop"), <<Inc("i")>>))))],
    [nm |-> "named-let-2acc", defs |-> << >>,
     run |-> Lam(<<"n">>, "", NLet("loop", << <<"i", I(0)>>, <<"acc", C(Nil)>> >>,
                                   If(AtEnd, Depth, App(V("loop"), <<Inc("i"), P("list", <<V("i")>>)>>))))],
    [nm |-> "captured-assigned", defs |-> << >>,
     run |-> Lam(<<"n">>, "", Let(<< <<"c", I(0)>> >>,
                 Body(<<Def("lp", Lam(<<"i">>, "", Begin(<<SetE("c", P("+", <<V("c"), I(1)>>)),
                                                              If(AtEnd, Depth, App(V("lp"), <<Inc("i")>>))>>)))>>,
                      App(V("lp"), <<I(0)>>))))],
    [nm |-> "rest-args", defs |-> <<Def("lp", Lam(<<"i">>, "r", If(P("=", <<V("i"), P("car", <<V("r")>>)>>), Depth,
                                                            P("apply", <<V("lp"), Inc("i"), V("r")>>))))>>,
     run |-> Lam(<<"n">>, "", App(V("lp"), <<I(0), V("n")>>))],
    [nm |-> "closure-loop", defs |-> <<Def("mk", Lam(<<"n">>, "", LetRec(<< <<"lp", Lam(<<"i">>, "", If(AtEnd, Depth, App(V("lp"), <<Inc("i")>>)))>> >>, V("lp"))))>>,
     run |-> Lam(<<"n">>, "", App(App(V("mk"), <<V("n")>>), <<I(0)>>))],
    \* the loop continues from the TAIL of a handler procedure (the with-handler form itself is in
    \* tail position, and its frame is gone when the handler runs)
    [nm |-> "handler-tail", defs |-> <<Def("lp", Lam(<<"i", "n">>, "", If(AtEnd, Depth,
                 WithHandler(Lam(<<"e">>, "", App(V("lp"), <<Inc("i"), V("n")>>)), P("car", <<I(0)>>)))))>>,
     run |-> Lam(<<"n">>, "", App(V("lp"), <<I(0), V("n")>>)), big |-> MidN],
    \* NOT tail calls: the reference machine's depth grows, so the expected answer is #false
    [nm |-> "non-tail-arg", defs |-> <<Def("lp", Lam(<<"i", "n">>, "", If(AtEnd, Depth, P("car", <<P("list", <<App(V("lp"), <<Inc("i"), V("n")>>)>>)>>))))>>,
     run |-> Lam(<<"n">>, "", App(V("lp"), <<I(0), V("n")>>))],
    [nm |-> "non-tail-let-init", defs |-> <<Def("lp", Lam(<<"i", "n">>, "", If(AtEnd, Depth, Let(<< <<"r", App(V("lp"), <<Inc("i"), V("n")>>)>> >>, V("r")))))>>,
     run |-> Lam(<<"n">>, "", App(V("lp"), <<I(0), V("n")>>))] }
\* generated product: a two-function cycle pa -> pb -> pa where the KIND of the callee global pb
\* (what the compiler knows about it), the tail CONTEXT of the call in pa and the call PATH vary.
\* The compiler picks a different call instruction per kind (arity known / arity checked / value).
TKinds == {"fixed", "rest", "closure", "assigned"}
TCtxs  == {"if", "and", "or", "cond", "when", "begin", "let", "letstar"}
TVias  == {"direct", "apply"}
TBodyB == If(AtEnd, Depth, App(V("pa"), <<Inc("i"), V("n")>>))
TDefB(kd) == CASE kd = "fixed"    -> <<Def("pb", Lam(<<"i", "n">>, "", TBodyB))>>
               [] kd = "rest"     -> <<Def("pb", Lam(<<"i", "n">>, "r", TBodyB))>>
               [] kd = "closure"  -> <<Def("mkb", Lam(<< >>, "", Lam(<<"i", "n">>, "", TBodyB))), Def("pb", App(V("mkb"), << >>))>>
               [] kd = "assigned" -> <<Def("pb", Lam(<<"i", "n">>, "", TBodyB)), Def("zz", SetE("pb", V("pb")))>>
TArgs(kd) == IF kd = "rest" THEN <<Inc("i"), V("n"), I(9)>> ELSE <<Inc("i"), V("n")>>
TCall(kd, via) == IF via = "direct" THEN App(V("pb"), TArgs(kd)) ELSE P("apply", <<V("pb"), P("list", TArgs(kd))>>)
TCtx(cx, e) == CASE cx = "if"      -> e
                 [] cx = "and"     -> And(<<C(BoolV(TRUE)), e>>)
                 [] cx = "or"      -> Or(<<C(BoolV(FALSE)), e>>)
                 [] cx = "cond"    -> Cond(<< <<C(BoolV(FALSE)), I(0)>> >>, e)
                 [] cx = "when"    -> When(C(BoolV(TRUE)), <<C(Void), e>>)
                 [] cx = "begin"   -> Begin(<<SetE("x", V("i")), e>>)
                 [] cx = "let"     -> Let(<< <<"u", I(7)>>, <<"w", P("list", <<V("i")>>)>> >>, e)
                 [] cx = "letstar" -> LetStar(<< <<"u", I(7)>>, <<"w", V("u")>> >>, e)
TailProduct ==
  { [nm |-> "cycle", defs |-> <<Def("pa", Lam(<<"i", "n">>, "", If(AtEnd, Depth, TCtx(cx, TCall(kd, via)))))>> \o TDefB(kd),
     run |-> Lam(<<"n">>, "", App(V("pa"), <<I(0), P("*", <<I(2), V("n")>>)>>))]
    : kd \in TKinds, cx \in TCtxs, via \in TVias }
\* generated product: the PARAMETER LIST of the callee (how its frame is laid out from the operands: rest
\* only / one + rest / two + rest with 0 or 2 extras) x the call PATH (direct, apply of a list, apply with
\* leading operands and a list) x the kind of callee (global procedure, closure in a local variable).
\* Each (shape, path) pair goes through a different arm of the argument shuffle over the reused frame.
PShapes == {"r", "i.r", "in.r0", "in.r2"}
PVias   == {"direct", "apply-list", "apply-mixed"}
PHolds  == {"global", "local"}
PLam(ps) == CASE ps = "r"   -> Lam(<< >>, "r", Let(<< <<"i", P("car", <<V("r")>>)>>, <<"n", P("car", <<P("cdr", <<V("r")>>)>>)>> >>, TBodyB))
              [] ps = "i.r" -> Lam(<<"i">>, "r", Let(<< <<"n", P("car", <<V("r")>>)>> >>, TBodyB))
              [] OTHER      -> Lam(<<"i", "n">>, "r", TBodyB)
PArgs(ps) == IF ps = "in.r2" THEN <<Inc("i"), V("n"), I(8), I(9)>> ELSE <<Inc("i"), V("n")>>
PCall(f, ps, via) == CASE via = "direct"      -> App(f, PArgs(ps))
                       [] via = "apply-list"  -> P("apply", <<f, P("list", PArgs(ps))>>)
                       [] via = "apply-mixed" -> P("apply", <<f, PArgs(ps)[1], P("list", Tail(PArgs(ps)))>>)
TailParams ==
  { [nm |-> "params", defs |-> <<Def("pa", Lam(<<"i", "n">>, "", If(AtEnd, Depth, PCall(V("pb"), ps, via)))), Def("pb", PLam(ps))>>,
     run |-> Lam(<<"n">>, "", App(V("pa"), <<I(0), P("*", <<I(2), V("n")>>)>>))]
    : ps \in PShapes, via \in PVias }
  \cup
  \* the callee is a closure held in a local variable of the caller (TAILCALL on a stack callee), looping on itself
  { [nm |-> "params-local", defs |-> << >>,
     run |-> Lam(<<"n">>, "", LetRec(<< <<"pb", PLam(ps)>>, <<"pa", Lam(<<"i", "n">>, "", If(AtEnd, Depth, PCall(V("pb"), ps, via)))>> >>,
                                     App(V("pa"), <<I(0), P("*", <<I(2), V("n")>>)>>)))]
    : ps \in PShapes, via \in PVias }
\* every run happens in the same context (a top-level define), so the depth is comparable
TailFam == { << Pre, sh.defs \o <<Def("run", sh.run)>>,
                <<Def("da", App(V("run"), <<IF "big" \in DOMAIN sh THEN MidHalf ELSE BigHalf>>)),
                  Def("db", App(V("run"), <<IF "big" \in DOMAIN sh THEN sh.big ELSE BigN>>)),
                  Def("dc", App(V("run"), <<IF "big" \in DOMAIN sh THEN MidHalf ELSE BigHalf>>))>>,
                <<Emit1(P("depth=?", <<V("da"), V("db")>>)), Emit1(P("depth=?", <<V("da"), V("dc")>>))>> >>
             : sh \in TailShapes \cup TailProduct \cup TailParams }

-----------------------------------------------------------------------------
(* control: capture context x wind nesting x error x invocation, inside ONE form *)
Capture == P("call/cc", <<Lam(<<"c">>, "", Begin(<<SetE("k", V("c")), I(1)>>))>>)
Contexts == { [nm |-> "bare", e |-> Capture],
              [nm |-> "temp-before", e |-> P("+", <<I(10), Capture>>)],
              [nm |-> "temps-both", e |-> P("+", <<P("*", <<I(2), I(5)>>), Capture, P("*", <<I(10), I(10)>>)>>)],
              [nm |-> "let-bound", e |-> Let(<< <<"t", Capture>> >>, P("+", <<V("t"), I(1)>>))],
              [nm |-> "in-map", e |-> P("car", <<P("map", <<Lam(<<"z">>, "", P("+", <<V("z"), Capture>>)), C(ListV(<<IntV(5)>>))>>)>>)],
              [nm |-> "in-list-arg", e |-> P("list", <<C(SymV("a")), Capture, C(SymV("b"))>>)],
              [nm |-> "if-test", e |-> If(P("=", <<Capture, I(1)>>), C(SymV("first")), C(SymV("again")))] }
Wind(tag, e) == P("dynamic-wind", <<Lam(<< >>, "", Emit1(C(SymV("in" \o tag)))),
                                    Lam(<< >>, "", e),
                                    Lam(<< >>, "", Emit1(C(SymV("out" \o tag))))>>)
Winds == {0, 1, 2}
Wrap(w, e) == CASE w = 0 -> e [] w = 1 -> Wind("1", e) [] w = 2 -> Wind("1", P("+", <<I(0), Wind("2", e)>>))
Invokes == { [nm |-> "never", e |-> C(SymV("done"))],
             [nm |-> "once-after", e |-> If(P("<", <<V("n"), I(2)>>), App(V("k"), <<I(5)>>), C(SymV("done")))],
             [nm |-> "twice-after", e |-> If(P("<", <<V("n"), I(3)>>), App(V("k"), <<P("*", <<V("n"), I(10)>>)>>), C(SymV("done")))] }
Control ==
  { << <<Def("k", C(BoolV(FALSE))), Def("n", I(0))>>,
       <<Let(<< >>, Begin(<<Emit1(Wrap(w, cx.e)), SetE("n", P("+", <<V("n"), I(1)>>)), Emit1(V("n")), Emit1(iv.e)>>))>> >>
    : cx \in Contexts, w \in Winds, iv \in Invokes }
  \cup
  \* escapes: the continuation is invoked INSIDE its extent (from nested calls / winds / handlers)
  { << <<Emit1(P("call/cc", <<Lam(<<"esc">>, "", Wrap(w, P("+", <<I(1), body>>)))>>)), Emit1(C(SymV("after")))>> >>
    : w \in Winds,
      body \in { App(V("esc"), <<I(42)>>),
                 P("car", <<P("map", <<Lam(<<"z">>, "", App(V("esc"), <<V("z")>>)), C(ListV(<<IntV(7), IntV(8)>>))>>)>>),
                 WithHandler(Lam(<<"e">>, "", App(V("esc"), <<I(9)>>)), P("car", <<I(0)>>)),
                 P("foldl", <<Lam(<<"z", "acc">>, "", If(P("=", <<V("z"), I(2)>>), App(V("esc"), <<V("acc")>>), P("+", <<V("z"), V("acc")>>))),
                              I(0), C(ListV(<<IntV(1), IntV(2), IntV(3)>>))>>),
                 I(5) } }
  \cup
  \* errors through winds and handlers
  { << <<Emit1(WithHandler(Lam(<<"e">>, "", Begin(<<Emit1(C(SymV("h"))), C(SymV("handled"))>>)), Wrap(w, err))), Emit1(C(SymV("after")))>>,
       <<Emit1(C(SymV("next-unit")))>> >>
    : w \in Winds, err \in { P("car", <<I(0)>>), P("error", <<C(StrV("boom"))>>), App(I(1), <<I(2)>>),
                             P("+", <<I(1), WithHandler(Lam(<<"e">>, "", P("car", <<I(1)>>)), P("car", <<I(2)>>))>>) } }
  \cup
  \* how the BODY of a dynamic-wind is left (value / error / escape) x what its AFTER thunk does while the body is
  \* being left (returns / raises / escapes) x what the enclosing handler does with the error (returns / escapes
  \* through the outer continuation, whose winders differ) x nesting: every thunk runs exactly once per exit
  { << <<Emit1(P("call/cc", <<Lam(<<"kk">>, "",
            WithHandler(Lam(<<"e">>, "", Begin(<<Emit1(C(SymV("h"))), hreact>>)),
                        Wrap(w, P("dynamic-wind", <<Lam(<< >>, "", Emit1(C(SymV("in")))),
                                                    Lam(<< >>, "", body),
                                                    Lam(<< >>, "", Begin(<<Emit1(C(SymV("out"))), aft>>))>>))))>>)),
         Emit1(C(SymV("after")))>>,
       <<Emit1(C(SymV("next-unit")))>> >>
    : w \in {0, 1},
      body \in { I(5), P("car", <<I(0)>>), App(V("kk"), <<I(7)>>) },
      aft \in { I(0), P("car", <<I(1)>>), App(V("kk"), <<I(8)>>) },
      hreact \in { C(SymV("rec")), App(V("kk"), <<I(9)>>) } }
  \cup
  \* an uncaught error unwinds through winds and ends the unit; the next unit runs
  { << <<Emit1(C(SymV("start"))), Emit1(Wrap(w, P("car", <<I(0)>>))), Emit1(C(SymV("not-reached")))>>,
       <<Emit1(C(SymV("next-unit")))>> >> : w \in Winds }

-----------------------------------------------------------------------------
(* delim: reset / shift (Filinski's construction, exactly as scheme/stdlib.scm defines it) *)
KK1 == App(V("k2"), <<I(1)>>)
KK2 == App(V("k2"), <<KK1>>)
InnerReset == Reset(P("+", <<I(10), Shift("k2", KK2)>>))
KUse == { V("k2"),                                                  \* not invoked: the value of the shift body replaces the reset
          I(7),
          KK1,
          KK2,
          P("+", <<KK1, App(V("k2"), <<I(2)>>)>>),
          P("list", <<KK1, App(V("k2"), <<I(2)>>)>>),
          Begin(<<Emit1(C(SymV("in-shift"))), App(V("k2"), <<I(3)>>)>>) }
DCtx == { [nm |-> "plus", mk |-> [u \in KUse |-> P("+", <<I(10), Shift("k2", u)>>)]],
          [nm |-> "list", mk |-> [u \in KUse |-> P("list", <<C(SymV("a")), Shift("k2", u), C(SymV("b"))>>)]],
          [nm |-> "let", mk |-> [u \in KUse |-> Let(<< <<"t", Shift("k2", u)>> >>, P("*", <<V("t"), I(2)>>))]],
          [nm |-> "begin-emit", mk |-> [u \in KUse |-> Begin(<<Emit1(C(SymV("before"))), P("+", <<I(1), Shift("k2", u)>>)>>)]],
          [nm |-> "two-shifts", mk |-> [u \in KUse |-> P("+", <<Shift("k2", u), Shift("k2", App(V("k2"), <<I(100)>>))>>)]] }
Delim ==
  { << <<Emit1(P("+", <<I(1000), Reset(cx.mk[u])>>)), Emit1(C(SymV("after")))>> >> : cx \in DCtx, u \in KUse \ {V("k2")} }
  \cup { << <<Emit1(Reset(Wrap(w, cx.mk[u]))), Emit1(C(SymV("after")))>> >> : cx \in DCtx, u \in {I(7), KK1, KK2}, w \in {1, 2} }
  \cup { << <<Emit1(Reset(P("+", <<I(1), InnerReset>>))), Emit1(C(SymV("after")))>> >>,
          << <<Emit1(P("+", <<I(1), Shift("k2", I(5))>>)), Emit1(C(SymV("not-reached")))>>, <<Emit1(C(SymV("next-unit")))>> >> }

(* store: assigned variables x capture depth x mutation site x read site (assignment conversion) *)
Bump(n) == SetE(n, P("+", <<V(n), I(1)>>))
\* how the variable "n" (initial value 10) is bound around a body
BindN(kind, body) ==
  CASE kind = "let" -> Let(<< <<"n", I(10)>> >>, body)
    [] kind = "param" -> App(Lam(<<"n">>, "", body), <<I(10)>>)
    [] kind = "letrec" -> LetRec(<< <<"n", I(10)>> >>, body)
    [] kind = "define" -> Let(<< >>, Body(<<Def("n", I(10))>>, body))
    [] kind = "letstar2" -> LetStar(<< <<"m", I(1)>>, <<"n", P("+", <<V("m"), I(9)>>)>> >>, body)
    [] kind = "rest" -> App(Lam(<< >>, "r", Let(<< <<"n", P("car", <<V("r")>>)>> >>, body)), <<I(10), I(11)>>)
BKinds == {"let", "param", "letrec", "define", "letstar2", "rest"}
\* bodies over n: who mutates and who reads, at which closure depth
StoreBodies ==
  { \* closure reads after a direct assignment
    Let(<< <<"g", Lam(<< >>, "", V("n"))>> >>, Begin(<<Bump("n"), Emit1(App(V("g"), << >>)), Emit1(V("n"))>>)),
    \* closure assigns, direct read
    Let(<< <<"inc", Lam(<< >>, "", Bump("n"))>> >>, Begin(<<App(V("inc"), << >>), App(V("inc"), << >>), Emit1(V("n"))>>)),
    \* two sibling closures share the variable
    Let(<< <<"inc", Lam(<< >>, "", Bump("n"))>>, <<"get", Lam(<< >>, "", V("n"))>> >>,
        Begin(<<App(V("inc"), << >>), Emit1(App(V("get"), << >>)), App(V("inc"), << >>), Emit1(App(V("get"), << >>))>>)),
    \* depth 2: closure returning a closure
    Let(<< <<"mk", Lam(<< >>, "", Lam(<< >>, "", Begin(<<Bump("n"), V("n")>>)))>> >>,
        Let(<< <<"a", App(V("mk"), << >>)>>, <<"b", App(V("mk"), << >>)>> >>,
            Begin(<<Emit1(App(V("a"), << >>)), Emit1(App(V("b"), << >>)), Emit1(App(V("a"), << >>)), Emit1(V("n"))>>))),
    \* shadowing: the inner n is a different variable
    Begin(<<Let(<< <<"n", I(20)>> >>, Begin(<<Bump("n"), Emit1(V("n"))>>)), Emit1(V("n"))>>),
    \* assignment in one branch only, read after the if
    Begin(<<If(P("<", <<V("n"), I(5)>>), Bump("n"), SetE("n", I(0))), Emit1(V("n"))>>),
    \* mutation inside a loop, captured by a closure created in the loop
    Let(<< <<"fs", NLet("loop", << <<"i", I(0)>>, <<"acc", C(Nil)>> >>,
                        If(P("<", <<V("i"), I(3)>>),
                           Begin(<<Bump("n"), App(V("loop"), <<P("+", <<V("i"), I(1)>>), P("cons", <<Lam(<< >>, "", V("n")), V("acc")>>)>>)>>),
                           V("acc")))>> >>,
        Begin(<<Emit1(P("map", <<Lam(<<"f">>, "", App(V("f"), << >>)), V("fs")>>)), Emit1(V("n"))>>)),
    \* set! returns the previous value (D3) and the new value is visible to a closure created before
    Let(<< <<"g", Lam(<< >>, "", V("n"))>> >>, Begin(<<Emit1(SetE("n", I(77))), Emit1(App(V("g"), << >>))>>)),
    \* the variable escapes through a box as well
    Let(<< <<"b", P("box", <<V("n")>>)>> >>, Begin(<<Bump("n"), P("set-box!", <<V("b"), P("+", <<P("unbox", <<V("b")>>), I(100)>>)>>),
                                                   Emit1(V("n")), Emit1(P("unbox", <<V("b")>>))>>)),
    \* continuation re-entry must see the CURRENT contents of an assigned variable (the re-entry counter
    \* lives in a box so that the loop ends whatever happens to n)
    Let(<< <<"k", P("box", <<C(BoolV(FALSE))>>)>>, <<"c", P("box", <<I(0)>>)>> >>,
        Begin(<<Emit1(P("+", <<V("n"), P("call/cc", <<Lam(<<"kk">>, "", Begin(<<P("set-box!", <<V("k"), V("kk")>>), I(0)>>))>>)>>)),
                Bump("n"), P("set-box!", <<V("c"), P("+", <<P("unbox", <<V("c")>>), I(1)>>)>>),
                If(P("<", <<P("unbox", <<V("c")>>), I(3)>>), App(P("unbox", <<V("k")>>), <<I(1000)>>), Emit1(V("n")))>>)) }
Store == { << <<Def("x", I(0)), Def("y", I(1))>>, <<BindN(bk, body)>> >> : bk \in BKinds, body \in StoreBodies }
         \cup
         \* the same bodies with n a GLOBAL assigned from functions defined in an earlier unit
         { << <<Def("n", I(10))>>, <<Def("run", Lam(<< >>, "", body))>>, <<App(V("run"), << >>), Emit1(V("n"))>>, <<App(V("run"), << >>), Emit1(V("n"))>> >>
           : body \in StoreBodies }

-----------------------------------------------------------------------------
(* wide: a call with n = 0..12 operands sitting in a LATER operand position of another call, inside a   *)
(* function body.  Calls with many operands take their own path through the compiler and the native    *)
(* code generator (operands spilled to the VM stack), while the pending operands of the enclosing call *)
(* must survive.                                                                                       *)
WNames == <<"a1", "a2", "a3", "a4", "a5", "a6", "a7", "a8", "a9", "a10", "a11", "a12">>
WCounts == {0, 1, 2, 5, 7, 8, 9, 10, 12}
WArgs(n, lead) == [i \in 1..n |-> IF i = 1 /\ lead = "x" THEN V("x") ELSE I(i)]
WInner(kd, n, lead) == CASE kd = "list"  -> P("list", WArgs(n, lead))
                         [] kd = "plus"  -> P("+", WArgs(n, lead))
                         [] kd = "fixed" -> App(V("wf"), WArgs(n, lead))
                         [] kd = "var"   -> App(V("wv"), WArgs(n, lead))
WOuter(od, e0, inner) == CASE od = "cons"  -> P("cons", <<e0, inner>>)
                           [] od = "list3" -> P("list", <<e0, inner, e0>>)
                           [] od = "user"  -> App(V("id2"), <<e0, inner>>)
                           [] od = "tail"  -> inner
Wide == { << Pre,
             <<Def("wf", Lam(SubSeq(WNames, 1, n), "", P("list", [i \in 1..n |-> V(WNames[i])]))),
               Def("wv", Lam(<< >>, "r", V("r"))),
               Def("id2", Lam(<<"p", "q">>, "", P("list", <<V("p"), V("q")>>))),
               Def("k", Lam(<<"x">>, "", WOuter(od, e0, WInner(kd, n, lead))))>>,
             <<Emit1(App(V("k"), <<I(1)>>)), Emit1(App(V("k"), <<I(40)>>))>> >>
          : n \in WCounts, kd \in {"list", "plus", "fixed", "var"}, od \in {"cons", "list3", "user", "tail"},
            e0 \in {I(7), V("x"), V("y")}, lead \in {"x", "c"} }

-----------------------------------------------------------------------------
(* applam: a lambda literal (fixed, rest, fixed + rest parameters) applied on the spot, in the contexts *)
(* in which the compiler turns such an application into a let (or not)                                 *)
ALams == { [ps |-> << >>, rest |-> "r"], [ps |-> <<"p">>, rest |-> "r"], [ps |-> <<"p">>, rest |-> ""],
           [ps |-> <<"p", "q">>, rest |-> ""], [ps |-> <<"p", "q">>, rest |-> "r"] }
ABody(l) == P("list", [i \in 1..Len(l.ps) |-> V(l.ps[i])] \o (IF l.rest = "" THEN << >> ELSE <<V(l.rest)>>))
AArgSets == { << >>, <<P("list", <<I(1), I(2), I(3)>>)>>, <<V("x")>>, <<I(1), V("a")>>, <<I(1), I(2), P("list", <<V("a")>>)>> }
AOk(l, as) == IF l.rest = "" THEN Len(as) = Len(l.ps) ELSE Len(as) >= Len(l.ps)
ACtx(cx, e) == CASE cx = "plain"   -> e
                 [] cx = "let1"    -> Let(<< <<"c", I(5)>> >>, e)
                 [] cx = "let2"    -> Let(<< <<"c", I(5)>>, <<"d", I(6)>> >>, e)
                 [] cx = "letstar" -> LetStar(<< <<"c", I(5)>>, <<"d", V("c")>> >>, e)
                 [] cx = "nested"  -> Let(<< <<"c", I(5)>> >>, Let(<< <<"d", I(6)>> >>, e))
                 [] cx = "begin"   -> Begin(<<Emit1(V("a")), e>>)
                 [] cx = "arg"     -> P("cons", <<I(0), e>>)
                 [] cx = "usesc"   -> Let(<< <<"c", I(5)>>, <<"d", I(6)>> >>, P("cons", <<V("d"), e>>))
ACtxs == {"plain", "let1", "let2", "letstar", "nested", "begin", "arg", "usesc"}
AppLam == UNION { { << Pre,
                       <<Def("k", Lam(<<"a">>, "", ACtx(cx, App(Lam(l.ps, l.rest, ABody(l)), as))))>>,
                       <<Emit1(App(V("k"), <<I(9)>>)), Emit1(App(V("k"), <<I(10)>>))>> >>
                    : as \in {a \in AArgSets : AOk(l, a)}, cx \in ACtxs }
                  : l \in ALams }

-----------------------------------------------------------------------------
(* reads: the operands of one call read the function's parameters several times, plainly and inside    *)
(* nested operands (where a parameter's LAST use lets the compiler move it out of its slot).  The      *)
(* function is called directly (inlined at the call site) and through apply (its own compiled body).   *)
ROps == { V("x"), V("y"), I(7), P("cdr", <<V("x")>>), P("car", <<V("x")>>), P("length", <<V("x")>>),
          P("+", <<V("y"), I(1)>>), P("cons", <<V("y"), V("x")>>) }
RNum == { V("y"), I(7), P("car", <<V("x")>>), P("length", <<V("x")>>), P("+", <<V("y"), I(1)>>), P("*", <<V("y"), I(2)>>) }
RBodies == { P("list", <<a, b, c>>) : a \in ROps, b \in ROps, c \in ROps }
            \cup { P("+", <<a, b, c>>) : a \in RNum, b \in RNum, c \in RNum }
            \cup { P("cons", <<a, P("list", <<b, c>>)>>) : a \in {V("x"), V("y")}, b \in ROps, c \in {V("x"), P("cdr", <<V("x")>>), V("y")} }
RArgs == <<C(ListV(<<IntV(1), IntV(2), IntV(3)>>)), I(5)>>
Reads == { << <<Def("k", Lam(<<"x", "y">>, "", b))>>,
              <<Emit1(App(V("k"), RArgs)),
                Emit1(P("apply", <<V("k"), P("list", RArgs)>>)),
                Emit1(P("map", <<V("k"), P("list", <<RArgs[1], RArgs[1]>>), P("list", <<I(5), I(6)>>)>>))>> >>
           : b \in RBodies }

-----------------------------------------------------------------------------
(* param: parameter objects and parameterize (dynamic binding) x value expression with / without effects x    *)
(* what the body does (read, read through a function, nest, escape, raise, be re-entered through a continuation) *)
PGet(n) == App(V(n), << >>)
PVals == { I(1),
           Begin(<<Emit1(C(SymV("ev"))), SetE("n", P("+", <<V("n"), I(1)>>)), P("+", <<V("n"), I(10)>>)>>) }
PShape(ve, w) ==
  { Begin(<<Parameterize(V("p"), ve, Wrap(w, Begin(<<Emit1(PGet("p")), PGet("p")>>))), Emit1(PGet("p"))>>),
    Begin(<<Parameterize(V("p"), ve, Wrap(w, Emit1(App(V("f"), << >>)))), Emit1(App(V("f"), << >>))>>),
    Parameterize(V("p"), ve, Begin(<<Emit1(PGet("p")), Parameterize(V("p"), I(2), Wrap(w, Emit1(PGet("p")))), Emit1(PGet("p"))>>)),
    Parameterize(V("p"), ve, Parameterize(V("q"), P("+", <<PGet("p"), I(5)>>), Wrap(w, Emit1(P("list", <<PGet("p"), PGet("q")>>))))),
    Begin(<<Emit1(P("call/cc", <<Lam(<<"esc">>, "", Parameterize(V("p"), ve, Wrap(w, Begin(<<Emit1(PGet("p")), App(V("esc"), <<I(7)>>)>>))))>>)),
            Emit1(PGet("p"))>>),
    Begin(<<Emit1(WithHandler(Lam(<<"e">>, "", Begin(<<Emit1(C(SymV("h"))), PGet("p")>>)),
                              Parameterize(V("p"), ve, Wrap(w, Begin(<<Emit1(PGet("p")), P("car", <<I(0)>>)>>))))),
            Emit1(PGet("p"))>>),
    \* re-entry: the body captures its continuation, finishes, and is entered again twice from outside
    Begin(<<Parameterize(V("p"), ve, Wrap(w, Begin(<<P("call/cc", <<Lam(<<"cc">>, "", SetE("k", V("cc")))>>), Emit1(PGet("p"))>>))),
            Emit1(PGet("p")), SetE("c", P("+", <<V("c"), I(1)>>)),
            If(P("<", <<V("c"), I(3)>>), App(V("k"), <<I(0)>>), C(SymV("done")))>>),
    \* the body assigns the parameter's dynamic value by nesting, leaves and is re-entered
    Begin(<<Parameterize(V("p"), ve, Begin(<<P("call/cc", <<Lam(<<"cc">>, "", SetE("k", V("cc")))>>),
                                              Parameterize(V("q"), PGet("p"), Emit1(P("list", <<PGet("p"), PGet("q")>>)))>>)),
            SetE("c", P("+", <<V("c"), I(1)>>)),
            If(P("<", <<V("c"), I(2)>>), App(V("k"), <<I(0)>>), C(SymV("done")))>>) }
Param == { << <<Def("p", MkParam(I(0))), Def("q", MkParam(I(100))), Def("n", I(0)), Def("k", C(BoolV(FALSE))), Def("c", I(0)),
                Def("f", Lam(<< >>, "", PGet("p")))>>,
              <<Let(<< >>, sh)>>,
              <<Emit1(P("list", <<PGet("p"), PGet("q"), V("n")>>))>> >>
           : sh \in UNION { PShape(ve, w) : ve \in PVals, w \in {0, 1} } }

-----------------------------------------------------------------------------
(* restloop: a procedure with a rest parameter that tail-calls itself (or a twin) with a number of operands     *)
(* different from the number it was entered with: the frame is rebuilt with a rest list of another length       *)
RLRest(k) == SubSeq(<<V("i"), P("*", <<V("i"), I(10)>>), C(SymV("z"))>>, 1, k)
RLInit(m) == SubSeq(<<I(7), I(8), I(9)>>, 1, m)
RLBody(fx, k, callee) ==
  If(P("=", <<V("i"), I(0)>>),
     P("list", (IF fx = 2 THEN <<V("i"), V("a")>> ELSE <<V("i")>>) \o <<V("r")>>),
     App(V(callee), <<P("-", <<V("i"), I(1)>>)>> \o (IF fx = 2 THEN <<P("+", <<V("a"), I(1)>>)>> ELSE << >>) \o RLRest(k)))
RLParams(fx) == IF fx = 2 THEN <<"i", "a">> ELSE <<"i">>
RestLoop ==
  { << <<Def("f", Lam(RLParams(fx), "r", RLBody(fx, k, IF mut THEN "g" ELSE "f"))),
         Def("g", Lam(RLParams(fx), "r", RLBody(fx, k2, "f")))>>,
       <<Emit1(App(V("f"), <<I(3)>> \o (IF fx = 2 THEN <<I(100)>> ELSE << >>) \o RLInit(m))),
         Emit1(P("apply", <<V("f"), P("list", <<I(2)>> \o (IF fx = 2 THEN <<I(100)>> ELSE << >>) \o RLInit(m))>>)),
         Emit1(P("map", <<Lam(<<"q">>, "", App(V("f"), <<V("q")>> \o (IF fx = 2 THEN <<I(100)>> ELSE << >>) \o RLInit(m))),
                          C(ListV(<<IntV(0), IntV(1), IntV(4)>>))>>))>> >>
    : fx \in {1, 2}, k \in 0..3, k2 \in {0, 2}, m \in 0..3, mut \in BOOLEAN }

-----------------------------------------------------------------------------
(* idefs: bodies that interleave internal definitions and expressions (Lang.tla D9).  A variable defined with a  *)
(* LITERAL, a way to assign it BEFORE a later definition reads it (directly / through an internal procedure /     *)
(* through for-each over an internal procedure), whether the body also defines a procedure, and what the later   *)
(* definition computes from the variable.                                                                         *)
IdMut == {"set", "proc", "foreach"}
IdLater == {"twice", "list", "plain", "two"}
IdProc == {"none", "unused", "fmt"}
IdefsBody(mu, la, pr) ==
  LET addp == Def("add", Lam(<<"k">>, "", SetE("t", P("+", <<V("t"), V("k")>>))))
      mut == CASE mu = "set"     -> <<SetE("t", P("+", <<V("t"), I(5)>>))>>
               [] mu = "proc"    -> <<App(V("add"), <<I(5)>>), App(V("add"), <<I(7)>>)>>
               [] mu = "foreach" -> <<P("for-each", <<V("add"), P("list", <<I(5), I(7)>>)>>)>>
      later == CASE la = "twice" -> P("*", <<V("t"), I(2)>>)
                 [] la = "list"  -> P("list", <<V("t")>>)
                 [] la = "plain" -> V("t")
                 [] la = "two"   -> P("+", <<V("t"), V("u")>>)
      fmtp == Def("fmt", Lam(<<"z">>, "", P("list", <<C(SymV("v")), V("z")>>)))
      res == IF pr = "fmt" THEN App(V("fmt"), <<V("d")>>) ELSE V("d")
  IN Body2( <<Def("t", I(0)), Def("u", I(100))>>
            \o (IF mu = "set" THEN << >> ELSE <<addp>>)
            \o (IF pr = "none" THEN << >> ELSE <<fmtp>>)
            \o mut
            \o <<Def("d", later)>>,
            P("list", <<res, V("t")>>) )
Idefs == { << Pre, <<Def("run", Lam(<< >>, "", IdefsBody(mu, la, pr)))>>,
              <<Emit1(App(V("run"), << >>)), Emit1(App(V("run"), << >>))>> >>
           : mu \in IdMut, la \in IdLater, pr \in IdProc }

Programs == CASE FAMILY = "idefs" -> Idefs
              [] FAMILY = "calls" -> Calls
              [] FAMILY = "restloop" -> RestLoop
              [] FAMILY = "param" -> Param
              [] FAMILY = "reads" -> Reads
              [] FAMILY = "wide" -> Wide
              [] FAMILY = "applam" -> AppLam
              [] FAMILY = "store" -> Store
              [] FAMILY = "delim" -> Delim
              [] FAMILY = "tail" -> TailFam
              [] FAMILY = "control" -> Control

InitFam == /\ phase = "run" /\ bstack = << >> /\ nodes = 0
           /\ units \in Programs
           /\ InitCommon
SpecFam == InitFam /\ [][NextRun]_vars

\* In the reference semantics a tail call does not grow the continuation: checked directly on the
\* machine for the "tail" family -- while evaluating the body of `lp` the continuation never holds
\* two frames of the same loop (the answer #true of the depth comparison depends on it).
EmitFam == (phase = "done") => PrintT(<<"REPLAY", ToJson([fam |-> FAMILY] @@ CaseOf)>>)
=============================================================================
