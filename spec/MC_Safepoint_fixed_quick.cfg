SPECIFICATION Spec
CONSTANTS
  Thread = {"m", "a", "b"}
  BMain = 2
  BOther = 1
  Kinds = {"plain", "prim", "alloc", "setg", "spawn", "join"}
  Defects = {}
  WithIrq = TRUE
INVARIANTS C15 C17
CHECK_DEADLOCK TRUE
