SPECIFICATION Spec
CONSTANTS
  MODE = "forms"
  SEED = 1
  T1 = 1
  T2 = 0
  T3 = 0
  NS2 = 0
  NS3 = 0
  NSBIG = 0
  NCAP = 0
  HOF = 0
  MAXD = 3
  MAXDSLOW = 2
  LEN = 1
  MUTANT = FALSE
INVARIANTS TypeOK Emit Proto
CHECK_DEADLOCK FALSE
