SPECIFICATION Spec
CONSTANTS
  Level = "thorough"
INVARIANTS Emit
CHECK_DEADLOCK FALSE
