SPECIFICATION Spec
CONSTANTS
  MaxGuards = 1
  MaxActs = 3
  Engines = 1
  RefLevel = "small"
  Places = {"global"}
  Derive = TRUE
  Pair = FALSE
  Defects = {"shared_stack"}
  EmitCases = FALSE
INVARIANTS InvNoResidue
CHECK_DEADLOCK FALSE
VIEW DesignView
