SPECIFICATION Spec
CONSTANTS
  MaxMods = 1
  NmMin = 1
  VisSet = {"priv", "plain", "ctr"}
  ModModsM = {}
  ModModsP = {"plain", "pre", "only_a", "only_h", "only_bh", "ren", "ren_b", "pre_only_a", "pre_only_bh", "pre_ren"}
  MaxSpecsM = 0
  MaxSpecsP = 1
  OwnSets = {{}, {"helper"}, {"va", "p.vb"}}
  UseSet = {TRUE, FALSE}
  FailSet = {"none"}
  ErrKinds = {"none"}
  MaxUnits = 1
  ProbeNames = {"va", "vb", "helper", "vz", "p.va", "p.vb", "p.helper", "p.vz"}
  Avoid = {}
INVARIANTS Emit Sound
CHECK_DEADLOCK FALSE
