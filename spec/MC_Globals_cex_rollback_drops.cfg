SPECIFICATION Spec
CONSTANTS
  ValNames = {"v"}
  FnNames = {"f", "g"}
  MaxSteps = 5
  Defects = {"rollback_drops"}
INVARIANTS CexC07h
CHECK_DEADLOCK FALSE
