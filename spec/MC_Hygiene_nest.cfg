SPECIFICATION HSpec
CONSTANTS
  RICH = FALSE
  MINNODES = 0
  MAXSTACK = 99
  BUDGET = 0
  FUEL = 3000
  MAXINT = 100000
  CTXS = {}
  PLACES = {}
  VALS = {}
  NEST = TRUE
  PAIRS = FALSE
  PATLEN = 0
  INLEN = 0
  ELEMKINDS = {}
  INKINDS = {}
INVARIANTS InDomain SynErrSilent GlobalsSuffixed HEmit
CHECK_DEADLOCK FALSE
