------------------------------- MODULE Lang -------------------------------
(***************************************************************************)
(* Reference semantics of Steel's core language as an explicit state       *)
(* machine (a CEK machine with store), used by TLC as GENERATOR and ORACLE *)
(* for C01 / C02 / C08 / C09 (and as a sub-language by other modules).     *)
(*                                                                         *)
(* A behaviour is: (1) a *build* phase in which a program is assembled     *)
(* bottom-up by nondeterministic choice (BFS = all programs within the     *)
(* node budget, -simulate = random deep programs), or Init picks a program *)
(* from an explicit family; (2) the machine runs the program unit by unit; *)
(* (3) in the terminal state the invariant `Emit` prints the rendered      *)
(* source of every unit and the expected observable.                       *)
(*                                                                         *)
(* Named Steel deviations from R7RS that this machine models on purpose    *)
(* (ledger: spec/DEVIATIONS.md):                                           *)
(*   D1  a later top-level `define` of a name creates a NEW binding; code  *)
(*       compiled by earlier units keeps the old one (C06)                 *)
(*   D2  all `define`s of a unit are hoisted: their fresh bindings exist   *)
(*       (unassigned) from the start of the unit                           *)
(*   D3  `set!` evaluates to the previous value                            *)
(*   D4  operands are evaluated left to right, the operator LAST           *)
(*   D5  pairs and lists are immutable; improper tails print `(a . (b . c))`*)
(*   D6  an error anywhere in a unit abandons the rest of the unit; the    *)
(*       effects already performed (including defines) persist             *)
(*   D7  `define` evaluates to void; applying a non-procedure is an error  *)
(*   D8  an error escaping a dynamic-wind body runs the `after` thunk      *)
(*       before the handler                                                *)
(***************************************************************************)
EXTENDS Integers, Sequences, TLC, Json, FiniteSets

CONSTANTS RICH,     \* builder alphabet: FALSE = core forms; TRUE = also data structures, strings, integer division, library HOFs
          MINNODES, \* the builder may stop only after this many nodes (0 for exhaustive runs; random walks use it to grow)
          MAXSTACK, \* at most this many unfinished/finished forms side by side (forces nesting in random walks)
          BUDGET,   \* max number of AST nodes assembled by the builder
          FUEL,     \* machine step bound (exhaustion = case discarded, counted)
          MAXINT    \* cases whose integers leave -MAXINT..MAXINT are discarded

VARIABLES phase,    \* "build" | "run" | "done" | "discard"
          bstack,   \* builder: stack of finished forms (head = most recent)
          nodes,    \* builder: nodes used so far
          units,    \* program: sequence of units, each a sequence of forms
          ui, fi,   \* current unit / form index
          mode,     \* "eval" | "ret" | "apply" | "raise"
          ctrl, env, store, kont,
          winders,  \* dynamic-wind list, innermost first: <<[b, a]>>
          genv,     \* global environment name -> location (latest bindings)
          out,      \* per unit: sequence of emitted values (rendered)
          outcome,  \* per unit: "ok" | "err"
          lastval,  \* per unit: rendered last top-level value
          fuel

vars == <<phase, bstack, nodes, units, ui, fi, mode, ctrl, env, store, kont, winders,
          genv, out, outcome, lastval, fuel>>

-----------------------------------------------------------------------------
(* Values *)
IntV(i)  == [k |-> "int", i |-> i]
BoolV(b) == [k |-> "bool", b |-> b]
Nil      == [k |-> "nil"]
Void     == [k |-> "void"]
SymV(s)  == [k |-> "sym", s |-> s]
StrV(s)  == [k |-> "str", t |-> s]
PairV(a, d) == [k |-> "pair", a |-> a, d |-> d]
PrimV(op) == [k |-> "prim", op |-> op]
VecV(es) == [k |-> "vec", es |-> es]           \* immutable vector
BoxV(l)  == [k |-> "box", l |-> l]             \* mutable box: store location
MVecV(l) == [k |-> "mvec", l |-> l]            \* mutable vector: store location
HashV(es) == [k |-> "hash", es |-> es]          \* es: sequence of <<key, value>>, keys pairwise different
CharV(c) == [k |-> "char", ch |-> c]
Unbound  == [k |-> "unbound"]
ErrV(kind) == [k |-> "errobj", kind |-> kind]

RECURSIVE ListV(_)
ListV(s) == IF s = << >> THEN Nil ELSE PairV(Head(s), ListV(Tail(s)))

RECURSIVE IsList(_)
IsList(v) == IF v.k = "nil" THEN TRUE ELSE IF v.k = "pair" THEN IsList(v.d) ELSE FALSE

RECURSIVE SeqOf(_)
SeqOf(v) == IF v.k = "pair" THEN <<v.a>> \o SeqOf(v.d) ELSE << >>

Truthy(v) == ~(v.k = "bool" /\ v.b = FALSE)

-----------------------------------------------------------------------------
(* Expressions (AST).  k is the node kind. *)
C(v)        == [k |-> "c", v |-> v]                       \* constant (self-evaluating or quoted)
Var(n)      == [k |-> "var", n |-> n]
Lam(ps, rest, b) == [k |-> "lam", ps |-> ps, rest |-> rest, b |-> b]   \* rest = "" for none
App(f, as)  == [k |-> "app", f |-> f, as |-> as]
If(c, t, e) == [k |-> "if", c |-> c, t |-> t, e |-> e]
Let(bs, b)  == [k |-> "let", bs |-> bs, b |-> b]          \* bs: seq of <<name, expr>>
LetStar(bs, b) == [k |-> "letstar", bs |-> bs, b |-> b]
LetRec(bs, b) == [k |-> "letrec", bs |-> bs, b |-> b]
NLet(n, bs, b) == [k |-> "nlet", n |-> n, bs |-> bs, b |-> b]
Begin(es)   == [k |-> "begin", es |-> es]
SetE(n, e)  == [k |-> "set", n |-> n, e |-> e]
And(es)     == [k |-> "and", es |-> es]
Or(es)      == [k |-> "or", es |-> es]
When(c, es) == [k |-> "when", c |-> c, es |-> es]
Cond(cls, el) == [k |-> "cond", cls |-> cls, el |-> el]   \* cls: seq of <<test, expr>>
WithHandler(h, e) == [k |-> "withhandler", h |-> h, e |-> e]
Def(n, e)   == [k |-> "def", n |-> n, e |-> e]            \* top-level or internal define
Body(ds, e) == [k |-> "body", ds |-> ds, e |-> e]         \* internal defines then expression
\* D9 (named deviation, Steel accepts what R7RS leaves undefined): a body may interleave definitions and
\* expressions; all names of the body are bound first (unassigned), then the items run top to bottom
\* (compiler/passes/begin.rs convert_exprs_to_let keeps the source order of defines and expressions)
Body2(items, e) == [k |-> "body2", items |-> items, e |-> e]
Reset(e)    == [k |-> "reset", e |-> e]                   \* (reset e)
Shift(n, e) == [k |-> "shift", n |-> n, e |-> e]          \* (shift n e)
MkParam(e)  == [k |-> "mkparam", e |-> e]                     \* (make-parameter e)
Parameterize(p, v, b) == [k |-> "parameterize", p |-> p, v |-> v, b |-> b]   \* (parameterize ([p v]) b)
P(op, as)   == App(Var(op), as)                           \* call of a (global) primitive
I(n)        == C(IntV(n))
\* an iteration count that is SMALL in the reference machine and LARGE in the rendered program
\* (used by the constant-space families: the observable must not depend on the count)
BigN        == [k |-> "cbig"]
BigNModel   == 5
BigNText    == "100000"
MidN        == [k |-> "cmid"]        \* same idea, a count that stays cheap when space is NOT constant
MidNText    == "320"
\* half of each (the counts are multiples of 16 so that loop unrolling by the optimiser leaves the
\* same residue: only GROWTH with the count is observed, not the phase of an unrolled body)
BigHalf     == [k |-> "cbighalf"]
MidHalf     == [k |-> "cmidhalf"]

------------------------------------------------------------------------PrimNames == {"+", "-", "*", "=", "<", ">", "car", "cdr", "cons", "list", "null?", "pair?",
              "not", "eq?", "equal?", "length", "append", "reverse", "apply", "map", "for-each",
              "foldl", "filter", "vector", "vector-ref", "vector-length", "box", "unbox", "set-box!",
              "emit", "call/cc", "dynamic-wind", "error", "void?", "procedure?", "integer?",
              "symbol?", "zero?", "list-ref", "cadr", "#%verif-depth", "depth=?",
              "hash", "hash-ref", "hash-insert", "hash-contains?", "hash-length", "string-append", "string-length",
              "string->symbol", "symbol->string", "number->string", "string=?", "list->vector", "vector->list",
              "foldr", "member", "assoc", "abs", "min", "max", "quotient", "remainder", "modulo", "even?", "odd?",
              "string?", "vector?", "boolean?", "hash?", "list?", "char?",
              "%mc", "%mc-set!", "%abort", "%reset", "%shift", "%mkparam", "%parameterize"}

-----
(* Rendering: Scheme source text and Steel's printed form of values *)
RECURSIVE Join(_, _)
Join(ss, sep) == IF ss = << >> THEN "" ELSE IF Len(ss) = 1 THEN ss[1]
                 ELSE ss[1] \o sep \o Join(Tail(ss), sep)

RECURSIVE Show(_)
Show(v) ==
  CASE v.k = "int"  -> ToString(v.i)
    [] v.k = "bool" -> IF v.b THEN "#true" ELSE "#false"
    [] v.k = "nil"  -> "()"
    [] v.k = "void" -> "#<void>"
    [] v.k = "sym"  -> v.s
    [] v.k = "str"  -> "\"" \o v.t \o "\""
    [] v.k = "pair" -> IF IsList(v)
                         THEN "(" \o Join([i \in 1..Len(SeqOf(v)) |-> Show(SeqOf(v)[i])], " ") \o ")"
                         ELSE "(" \o Show(v.a) \o " . " \o Show(v.d) \o ")"
    [] v.k = "vec"  -> "#(" \o Join([i \in 1..Len(v.es) |-> Show(v.es[i])], " ") \o ")"
    [] v.k = "hash" -> "#<proc>"            \* iteration order is unspecified: never observed through printing
    [] v.k = "char" -> "#\\" \o v.ch
    [] v.k = "clo"  -> "#<proc>"
    [] v.k = "prim" -> "#<proc>"
    [] v.k = "kont" -> "#<proc>"
    [] v.k = "box"  -> "#<box>"
    [] v.k = "mvec" -> "#<mvec>"
    [] v.k = "errobj" -> "#<err>"
    [] OTHER -> "#<?>"

\* source text of a constant (quoted where needed)
RECURSIVE Datum(_)
Datum(v) ==
  CASE v.k = "int"  -> ToString(v.i)
    [] v.k = "bool" -> IF v.b THEN "#t" ELSE "#f"
    [] v.k = "nil"  -> "()"
    [] v.k = "sym"  -> v.s
    [] v.k = "str"  -> "\"" \o v.t \o "\""
    [] v.k = "char" -> "#\\" \o v.ch
    [] v.k = "pair" -> IF IsList(v)
                         THEN "(" \o Join([i \in 1..Len(SeqOf(v)) |-> Datum(SeqOf(v)[i])], " ") \o ")"
                         ELSE "(" \o Datum(v.a) \o " . " \o Datum(v.d) \o ")"
    [] v.k = "vec"  -> "#(" \o Join([i \in 1..Len(v.es) |-> Datum(v.es[i])], " ") \o ")"
    [] OTHER -> "#<?>"
Quoted(v) == IF v.k \in {"int", "bool", "str", "char"} THEN Datum(v)
             ELSE IF v.k = "void" THEN "void" ELSE "'" \o Datum(v)

\* User identifiers carry the placeholder "@@", which the replayer replaces by a number unique
\* to the case, so that many cases can share one engine without redefining each other's globals.
Nm(n) == IF n \in PrimNames THEN n ELSE n \o "@@"
NmSeq(ns) == [i \in 1..Len(ns) |-> Nm(ns[i])]
RECURSIVE R(_)
RBinds(bs) == Join([i \in 1..Len(bs) |-> "[" \o Nm(bs[i][1]) \o " " \o R(bs[i][2]) \o "]"], " ")
RSeq(es)   == Join([i \in 1..Len(es) |-> R(es[i])], " ")
R(e) ==
  CASE e.k = "c"   -> Quoted(e.v)
    [] e.k = "cbig" -> BigNText
    [] e.k = "cmid" -> MidNText
    [] e.k = "cbighalf" -> "50000"
    [] e.k = "cmidhalf" -> "160"
    [] e.k = "var" -> Nm(e.n)
    [] e.k = "lam" -> "(lambda " \o
                      (IF e.rest = "" THEN "(" \o Join(NmSeq(e.ps), " ") \o ")"
                       ELSE IF e.ps = << >> THEN Nm(e.rest)
                       ELSE "(" \o Join(NmSeq(e.ps), " ") \o " . " \o Nm(e.rest) \o ")")
                      \o " " \o R(e.b) \o ")"
    [] e.k = "app" -> "(" \o R(e.f) \o (IF e.as = << >> THEN "" ELSE " " \o RSeq(e.as)) \o ")"
    [] e.k = "if"  -> "(if " \o R(e.c) \o " " \o R(e.t) \o " " \o R(e.e) \o ")"
    [] e.k = "let" -> "(let (" \o RBinds(e.bs) \o ") " \o R(e.b) \o ")"
    [] e.k = "letstar" -> "(let* (" \o RBinds(e.bs) \o ") " \o R(e.b) \o ")"
    [] e.k = "letrec" -> "(letrec (" \o RBinds(e.bs) \o ") " \o R(e.b) \o ")"
    [] e.k = "nlet" -> "(let " \o Nm(e.n) \o " (" \o RBinds(e.bs) \o ") " \o R(e.b) \o ")"
    [] e.k = "begin" -> "(begin " \o RSeq(e.es) \o ")"
    [] e.k = "set" -> "(set! " \o Nm(e.n) \o " " \o R(e.e) \o ")"
    [] e.k = "and" -> "(and" \o (IF e.es = << >> THEN "" ELSE " " \o RSeq(e.es)) \o ")"
    [] e.k = "or"  -> "(or" \o (IF e.es = << >> THEN "" ELSE " " \o RSeq(e.es)) \o ")"
    [] e.k = "when" -> "(when " \o R(e.c) \o " " \o RSeq(e.es) \o ")"
    [] e.k = "cond" -> "(cond " \o Join([i \in 1..Len(e.cls) |->
                          "[" \o R(e.cls[i][1]) \o " " \o R(e.cls[i][2]) \o "]"], " ")
                       \o (IF e.el.k = "none" THEN "" ELSE " [else " \o R(e.el) \o "]") \o ")"
    [] e.k = "withhandler" -> "(with-handler " \o R(e.h) \o " " \o R(e.e) \o ")"
    [] e.k = "reset" -> "(reset " \o R(e.e) \o ")"
    [] e.k = "shift" -> "(shift " \o Nm(e.n) \o " " \o R(e.e) \o ")"
    [] e.k = "mkparam" -> "(make-parameter " \o R(e.e) \o ")"
    [] e.k = "parameterize" -> "(parameterize ([" \o R(e.p) \o " " \o R(e.v) \o "]) " \o R(e.b) \o ")"
    [] e.k = "def" -> "(define " \o Nm(e.n) \o " " \o R(e.e) \o ")"
    [] e.k = "body" -> RSeq(e.ds) \o " " \o R(e.e)
    [] e.k = "body2" -> RSeq(e.items) \o " " \o R(e.e)
    [] OTHER -> "#<?expr>"

RUnit(u) == Join([i \in 1..Len(u) |-> R(u[i])], " ")

-----------------------------------------------------------------------------
(* Static facts about a unit *)
DefNames(u) == {u[i].n : i \in {j \in 1..Len(u) : u[j].k = "def"}}
DupDefine(u) == \E i, j \in 1..Len(u) : i < j /\ u[i].k = "def" /\ u[j].k = "def" /\ u[i].n = u[j].n

RECURSIVE Mentions(_, _)
MentionsAny(es, n) == \E i \in 1..Len(es) : Mentions(es[i], n)
Mentions(e, n) ==
  CASE e.k = "c" -> FALSE
    [] e.k = "var" -> e.n = n
    [] e.k = "lam" -> Mentions(e.b, n)
    [] e.k = "app" -> Mentions(e.f, n) \/ MentionsAny(e.as, n)
    [] e.k = "if" -> Mentions(e.c, n) \/ Mentions(e.t, n) \/ Mentions(e.e, n)
    [] e.k \in {"let", "letstar", "letrec", "nlet"} ->
          Mentions(e.b, n) \/ \E i \in 1..Len(e.bs) : Mentions(e.bs[i][2], n)
    [] e.k \in {"begin", "and", "or"} -> MentionsAny(e.es, n)
    [] e.k = "set" -> e.n = n \/ Mentions(e.e, n)
    [] e.k = "when" -> Mentions(e.c, n) \/ MentionsAny(e.es, n)
    [] e.k = "cond" -> (e.el.k # "none" /\ Mentions(e.el, n))
                       \/ \E i \in 1..Len(e.cls) : Mentions(e.cls[i][1], n) \/ Mentions(e.cls[i][2], n)
    [] e.k = "withhandler" -> Mentions(e.h, n) \/ Mentions(e.e, n)
    [] e.k \in {"reset", "shift"} -> Mentions(e.e, n)
    [] e.k = "mkparam" -> Mentions(e.e, n)
    [] e.k = "parameterize" -> Mentions(e.p, n) \/ Mentions(e.v, n) \/ Mentions(e.b, n)
    [] e.k = "def" -> Mentions(e.e, n)
    [] e.k = "body" -> MentionsAny(e.ds, n) \/ Mentions(e.e, n)
    [] e.k = "body2" -> MentionsAny(e.items, n) \/ Mentions(e.e, n)
    [] OTHER -> FALSE

\* R7RS leaves a reference to a name before its definition in the same body
\* undefined; Steel hoists (D2) and constant-propagates.  Such programs are
\* outside the property's domain and are not generated.
UseBeforeDef(u) == \E i, j \in 1..Len(u) : i <= j /\ u[j].k = "def" /\ Mentions(u[i], u[j].n)
                   /\ ~(u[i].k = "def" /\ u[i].e.k = "lam")

-----------------------------------------------------------------------------
(* Primitives *)

AllInts(as) == \A i \in 1..Len(as) : as[i].k = "int"
RECURSIVE SumI(_), ProdI(_)
SumI(as) == IF as = << >> THEN 0 ELSE as[1].i + SumI(Tail(as))
ProdI(as) == IF as = << >> THEN 1 ELSE as[1].i * ProdI(Tail(as))
RECURSIVE Chain(_, _)
Chain(as, lt) == IF Len(as) < 2 THEN TRUE
                 ELSE (IF lt THEN as[1].i < as[2].i ELSE as[1].i > as[2].i) /\ Chain(Tail(as), lt)

RECURSIVE EqualV(_, _)
EqualV(a, b) ==
  IF a.k # b.k THEN FALSE
  ELSE CASE a.k = "pair" -> EqualV(a.a, b.a) /\ EqualV(a.d, b.d)
         [] a.k = "vec" -> Len(a.es) = Len(b.es) /\ \A i \in 1..Len(a.es) : EqualV(a.es[i], b.es[i])
         [] a.k = "hash" -> /\ Len(a.es) = Len(b.es)
                            /\ \A i \in 1..Len(a.es) : \E j \in 1..Len(b.es) :
                                  EqualV(a.es[i][1], b.es[j][1]) /\ EqualV(a.es[i][2], b.es[j][2])
         [] OTHER -> a = b

\* eq? is only generated on leaves and on identical store-allocated objects
EqV(a, b) == a = b

RECURSIVE AppendV(_, _)
AppendV(a, b) == IF a.k = "nil" THEN b ELSE PairV(a.a, AppendV(a.d, b))
RECURSIVE RevOnto(_, _)
RevOnto(a, acc) == IF a.k = "nil" THEN acc ELSE RevOnto(a.d, PairV(a.a, acc))

\* finite maps as association sequences; keys compared with equal?
HasKey(es, key) == \E i \in 1..Len(es) : EqualV(es[i][1], key)
Lookup2(es, key) == es[CHOOSE i \in 1..Len(es) : EqualV(es[i][1], key)][2]
PutKey(es, key, val) == IF HasKey(es, key)
                          THEN [i \in 1..Len(es) |-> IF EqualV(es[i][1], key) THEN <<key, val>> ELSE es[i]]
                          ELSE Append(es, <<key, val>>)
RECURSIVE HashFromArgs(_)
HashFromArgs(as) == IF as = << >> THEN << >>      \* later duplicates win
                    ELSE LET rest == HashFromArgs(SubSeq(as, 1, Len(as) - 2)) IN PutKey(rest, as[Len(as) - 1], as[Len(as)])
RECURSIVE ConcatStr(_)
ConcatStr(as) == IF as = << >> THEN "" ELSE as[1].t \o ConcatStr(Tail(as))
\* string length: the model's strings are drawn from a fixed table
StrLen(t) == Len(t)       \* TLC: strings are sequences of characters
RECURSIVE MemberV(_, _)
MemberV(x, l) == IF l.k = "nil" THEN BoolV(FALSE) ELSE IF EqualV(l.a, x) THEN l ELSE MemberV(x, l.d)
RECURSIVE AssocV(_, _)
AssocV(x, l) == IF l.k = "nil" THEN BoolV(FALSE) ELSE IF EqualV(l.a.a, x) THEN l.a ELSE AssocV(x, l.d)
AbsI(i) == IF i < 0 THEN 0 - i ELSE i
SgnI(i) == IF i < 0 THEN 0 - 1 ELSE 1
\* quotient truncates, remainder has the sign of the dividend, modulo the sign of the divisor
IntDiv(op, a, b) ==
  LET q == SgnI(a) * SgnI(b) * (AbsI(a) \div AbsI(b))
      r == a - b * q IN
  CASE op = "quotient" -> q
    [] op = "remainder" -> r
    [] op = "modulo" -> IF r # 0 /\ (SgnI(r) # SgnI(b)) THEN r + b ELSE r
OkR(v) == [ok |-> TRUE, v |-> v]
ErrR(kind) == [ok |-> FALSE, v |-> ErrV(kind)]

\* Pure primitives: result record [ok, v].  Error kinds follow the real engine where
\* the replayer compares them ("Type", "Arity", "Generic"); only the class is compared
\* by default.
Delta(op, as) ==
  LET n == Len(as) IN
  CASE op = "+" -> IF AllInts(as) THEN OkR(IntV(SumI(as))) ELSE ErrR("TypeMismatch")
    [] op = "*" -> IF AllInts(as) THEN OkR(IntV(ProdI(as))) ELSE ErrR("TypeMismatch")
    [] op = "-" -> IF n = 0 THEN ErrR("ArityMismatch")
                   ELSE IF ~AllInts(as) THEN ErrR("TypeMismatch")
                   ELSE IF n = 1 THEN OkR(IntV(0 - as[1].i))
                   ELSE OkR(IntV(as[1].i - SumI(Tail(as))))
    [] op = "=" -> IF n # 2 THEN ErrR("ArityMismatch")
                   ELSE IF ~AllInts(as) THEN ErrR("TypeMismatch")
                   ELSE OkR(BoolV(as[1].i = as[2].i))
    [] op = "<" -> IF n = 0 THEN ErrR("ArityMismatch") ELSE IF ~AllInts(as) THEN ErrR("TypeMismatch")
                   ELSE OkR(BoolV(Chain(as, TRUE)))
    [] op = ">" -> IF n = 0 THEN ErrR("ArityMismatch") ELSE IF ~AllInts(as) THEN ErrR("TypeMismatch")
                   ELSE OkR(BoolV(Chain(as, FALSE)))
    [] op = "zero?" -> IF n # 1 THEN ErrR("ArityMismatch") ELSE IF as[1].k # "int" THEN ErrR("TypeMismatch")
                   ELSE OkR(BoolV(as[1].i = 0))
    [] op = "car" -> IF n # 1 THEN ErrR("ArityMismatch")
                     ELSE IF as[1].k = "pair" THEN OkR(as[1].a)
                     ELSE IF as[1].k = "nil" THEN ErrR("Generic") ELSE ErrR("TypeMismatch")
    [] op = "cdr" -> IF n # 1 THEN ErrR("ArityMismatch")
                     ELSE IF as[1].k = "pair" THEN OkR(as[1].d)
                     ELSE IF as[1].k = "nil" THEN ErrR("Generic") ELSE ErrR("TypeMismatch")
    [] op = "cadr" -> IF n # 1 THEN ErrR("ArityMismatch")
                     ELSE IF as[1].k = "pair" /\ as[1].d.k = "pair" THEN OkR(as[1].d.a)
                     ELSE ErrR("TypeMismatch")
    [] op = "cons" -> IF n # 2 THEN ErrR("ArityMismatch") ELSE OkR(PairV(as[1], as[2]))
    [] op = "list" -> OkR(ListV(as))
    [] op = "null?" -> IF n # 1 THEN ErrR("ArityMismatch") ELSE OkR(BoolV(as[1].k = "nil"))
    [] op = "pair?" -> IF n # 1 THEN ErrR("ArityMismatch") ELSE OkR(BoolV(as[1].k = "pair"))
    [] op = "void?" -> IF n # 1 THEN ErrR("ArityMismatch") ELSE OkR(BoolV(as[1].k = "void"))
    [] op = "integer?" -> IF n # 1 THEN ErrR("ArityMismatch") ELSE OkR(BoolV(as[1].k = "int"))
    [] op = "symbol?" -> IF n # 1 THEN ErrR("ArityMismatch") ELSE OkR(BoolV(as[1].k = "sym"))
    [] op = "procedure?" -> IF n # 1 THEN ErrR("ArityMismatch")
                            ELSE OkR(BoolV(as[1].k \in {"clo", "prim", "kont"}))
    [] op = "not" -> IF n # 1 THEN ErrR("ArityMismatch") ELSE OkR(BoolV(~Truthy(as[1])))
    [] op = "eq?" -> IF n # 2 THEN ErrR("ArityMismatch") ELSE OkR(BoolV(EqV(as[1], as[2])))
    \* two control-stack depths denote the same space class.  Exact equality in the reference
    \* machine; the host function of the same name on the real engine tolerates a bounded
    \* difference (loop unrolling by the optimiser changes the phase, not the growth)
    [] op = "depth=?" -> IF n # 2 THEN ErrR("ArityMismatch") ELSE OkR(BoolV(as[1] = as[2]))
    [] op = "equal?" -> IF n # 2 THEN ErrR("ArityMismatch") ELSE OkR(BoolV(EqualV(as[1], as[2])))
    [] op = "length" -> IF n # 1 THEN ErrR("ArityMismatch")
                        ELSE IF IsList(as[1]) THEN OkR(IntV(Len(SeqOf(as[1])))) ELSE ErrR("TypeMismatch")
    [] op = "append" -> IF n = 2 /\ IsList(as[1]) THEN OkR(AppendV(as[1], as[2]))    \* the last argument may be any object
                        ELSE ErrR("TypeMismatch")
    [] op = "reverse" -> IF n # 1 THEN ErrR("ArityMismatch")
                         ELSE IF IsList(as[1]) THEN OkR(RevOnto(as[1], Nil)) ELSE ErrR("TypeMismatch")
    [] op = "list-ref" -> IF n # 2 THEN ErrR("ArityMismatch")
                          ELSE IF ~(IsList(as[1]) /\ as[2].k = "int") THEN ErrR("TypeMismatch")
                          ELSE IF as[2].i < 0 \/ as[2].i >= Len(SeqOf(as[1])) THEN ErrR("Generic")
                          ELSE OkR(SeqOf(as[1])[as[2].i + 1])
    [] op = "vector" -> OkR(VecV(as))
    [] op = "vector-length" -> IF n # 1 THEN ErrR("ArityMismatch")
                               ELSE IF as[1].k = "vec" THEN OkR(IntV(Len(as[1].es))) ELSE ErrR("TypeMismatch")
    [] op = "vector-ref" -> IF n # 2 THEN ErrR("ArityMismatch")
                            ELSE IF ~(as[1].k = "vec" /\ as[2].k = "int") THEN ErrR("TypeMismatch")
                            ELSE IF as[2].i < 0 \/ as[2].i >= Len(as[1].es) THEN ErrR("Generic")
                            ELSE OkR(as[1].es[as[2].i + 1])
    [] op = "hash" -> IF n % 2 # 0 THEN ErrR("ArityMismatch")
                      ELSE OkR(HashV(HashFromArgs(as)))
    [] op = "hash-ref" -> IF n # 2 THEN ErrR("ArityMismatch") ELSE IF as[1].k # "hash" THEN ErrR("TypeMismatch")
                          ELSE IF HasKey(as[1].es, as[2]) THEN OkR(Lookup2(as[1].es, as[2])) ELSE ErrR("Generic")
    [] op = "hash-contains?" -> IF n # 2 THEN ErrR("ArityMismatch") ELSE IF as[1].k # "hash" THEN ErrR("TypeMismatch")
                                ELSE OkR(BoolV(HasKey(as[1].es, as[2])))
    [] op = "hash-insert" -> IF n # 3 THEN ErrR("ArityMismatch") ELSE IF as[1].k # "hash" THEN ErrR("TypeMismatch")
                             ELSE OkR(HashV(PutKey(as[1].es, as[2], as[3])))
    [] op = "hash-length" -> IF n # 1 THEN ErrR("ArityMismatch") ELSE IF as[1].k # "hash" THEN ErrR("TypeMismatch")
                             ELSE OkR(IntV(Len(as[1].es)))
    [] op = "string-append" -> IF \A i \in 1..n : as[i].k = "str" THEN OkR(StrV(ConcatStr(as))) ELSE ErrR("TypeMismatch")
    [] op = "string-length" -> IF n # 1 THEN ErrR("ArityMismatch") ELSE IF as[1].k # "str" THEN ErrR("TypeMismatch")
                               ELSE OkR(IntV(StrLen(as[1].t)))
    [] op = "string=?" -> IF n # 2 THEN ErrR("ArityMismatch") ELSE IF as[1].k # "str" \/ as[2].k # "str" THEN ErrR("TypeMismatch")
                          ELSE OkR(BoolV(as[1].t = as[2].t))
    [] op = "string->symbol" -> IF n # 1 THEN ErrR("ArityMismatch") ELSE IF as[1].k # "str" THEN ErrR("TypeMismatch") ELSE OkR(SymV(as[1].t))
    [] op = "symbol->string" -> IF n # 1 THEN ErrR("ArityMismatch") ELSE IF as[1].k # "sym" THEN ErrR("TypeMismatch") ELSE OkR(StrV(as[1].s))
    [] op = "number->string" -> IF n # 1 THEN ErrR("ArityMismatch") ELSE IF as[1].k # "int" THEN ErrR("TypeMismatch") ELSE OkR(StrV(ToString(as[1].i)))
    [] op = "list->vector" -> IF n # 1 THEN ErrR("ArityMismatch") ELSE IF ~IsList(as[1]) THEN ErrR("TypeMismatch") ELSE OkR(VecV(SeqOf(as[1])))
    [] op = "vector->list" -> IF n # 1 THEN ErrR("ArityMismatch") ELSE IF as[1].k # "vec" THEN ErrR("TypeMismatch") ELSE OkR(ListV(as[1].es))
    [] op = "member" -> IF n # 2 THEN ErrR("ArityMismatch") ELSE IF ~IsList(as[2]) THEN ErrR("TypeMismatch") ELSE OkR(MemberV(as[1], as[2]))
    [] op = "assoc" -> IF n # 2 THEN ErrR("ArityMismatch") ELSE IF ~IsList(as[2]) THEN ErrR("TypeMismatch")
                       ELSE IF \E i \in 1..Len(SeqOf(as[2])) : SeqOf(as[2])[i].k # "pair" THEN ErrR("TypeMismatch")
                       ELSE OkR(AssocV(as[1], as[2]))
    [] op = "abs" -> IF n # 1 THEN ErrR("ArityMismatch") ELSE IF as[1].k # "int" THEN ErrR("TypeMismatch")
                     ELSE OkR(IntV(IF as[1].i < 0 THEN 0 - as[1].i ELSE as[1].i))
    [] op \in {"min", "max"} -> IF n = 0 THEN ErrR("ArityMismatch") ELSE IF ~AllInts(as) THEN ErrR("TypeMismatch")
                     ELSE OkR(IntV(CHOOSE m \in {as[i].i : i \in 1..n} :
                                     \A i \in 1..n : IF op = "min" THEN m <= as[i].i ELSE m >= as[i].i))
    [] op \in {"quotient", "remainder", "modulo"} ->
                     IF n # 2 THEN ErrR("ArityMismatch") ELSE IF ~AllInts(as) THEN ErrR("TypeMismatch")
                     ELSE IF as[2].i = 0 THEN ErrR("Generic")
                     ELSE OkR(IntV(IntDiv(op, as[1].i, as[2].i)))
    [] op \in {"even?", "odd?"} -> IF n # 1 THEN ErrR("ArityMismatch") ELSE IF as[1].k # "int" THEN ErrR("TypeMismatch")
                     ELSE OkR(BoolV((as[1].i % 2 = 0) = (op = "even?")))
    [] op = "string?" -> IF n # 1 THEN ErrR("ArityMismatch") ELSE OkR(BoolV(as[1].k = "str"))
    [] op = "vector?" -> IF n # 1 THEN ErrR("ArityMismatch") ELSE OkR(BoolV(as[1].k = "vec"))
    [] op = "boolean?" -> IF n # 1 THEN ErrR("ArityMismatch") ELSE OkR(BoolV(as[1].k = "bool"))
    [] op = "hash?" -> IF n # 1 THEN ErrR("ArityMismatch") ELSE OkR(BoolV(as[1].k = "hash"))
    [] op = "char?" -> IF n # 1 THEN ErrR("ArityMismatch") ELSE OkR(BoolV(as[1].k = "char"))
    [] op = "list?" -> IF n # 1 THEN ErrR("ArityMismatch") ELSE OkR(BoolV(IsList(as[1])))
    [] OTHER -> ErrR("Generic")

PurePrims == {"hash", "hash-ref", "hash-insert", "hash-contains?", "hash-length", "string-append", "string-length",
              "string->symbol", "symbol->string", "number->string", "string=?", "list->vector", "vector->list",
              "member", "assoc", "abs", "min", "max", "quotient", "remainder", "modulo", "even?", "odd?",
              "string?", "vector?", "boolean?", "hash?", "list?", "char?", "depth=?", "+", "-", "*", "=", "<", ">", "zero?", "car", "cdr", "cadr", "cons", "list", "null?",
              "pair?", "void?", "integer?", "symbol?", "procedure?", "not", "eq?", "equal?",
              "length", "append", "reverse", "list-ref", "vector", "vector-length", "vector-ref"}

RECURSIVE BigInt(_)
BigInt(v) == CASE v.k = "int" -> v.i > MAXINT \/ v.i < 0 - MAXINT
               [] v.k = "pair" -> BigInt(v.a) \/ BigInt(v.d)
               [] OTHER -> FALSE

-----------------------------------------------------------------------------
(* Machine helpers *)
Bind(e, x, l) == [y \in (DOMAIN e) \cup {x} |-> IF y = x THEN l ELSE e[y]]
RECURSIVE BindAll(_, _, _)
BindAll(e, names, base) == \* names[i] -> base + i
  IF names = << >> THEN e ELSE BindAll(Bind(e, names[1], base + 1), Tail(names), base + 1)

Push(f) == <<f>> \o kont
Clo(lam, e) == [k |-> "clo", ps |-> lam.ps, rest |-> lam.rest, b |-> lam.b, env |-> e]
KontV(kk, w) == [k |-> "kont", kk |-> kk, w |-> w]

\* common suffix length of two winder lists (innermost first)
RECURSIVE CommonSuffix(_, _)
CommonSuffix(a, b) ==
  IF a = << >> \/ b = << >> THEN 0
  ELSE IF a[Len(a)] = b[Len(b)] THEN 1 + CommonSuffix(SubSeq(a, 1, Len(a) - 1), SubSeq(b, 1, Len(b) - 1))
  ELSE 0

\* thunks to run when jumping from winders `cur` to winders `tgt`:
\* afters of cur not shared (innermost first), then befores of tgt not shared (outermost first).
\* Each item: [th |-> thunk, w |-> winders in force while it runs]
JumpPlan(cur, tgt) ==
  LET c == CommonSuffix(cur, tgt)
      nOut == Len(cur) - c
      nIn == Len(tgt) - c
      \* (k: the continuation of the dynamic-wind call that made the entry - a wind thunk runs in the dynamic
      \*  context of that call, R7RS 6.10: an error it raises reaches the handlers that enclose that call)
      outs == [i \in 1..nOut |-> [th |-> cur[i].a, w |-> SubSeq(cur, i + 1, Len(cur)), k |-> cur[i].k]]
      ins == [i \in 1..nIn |-> [th |-> tgt[nIn - i + 1].b, w |-> SubSeq(tgt, nIn - i + 2, Len(tgt)), k |-> tgt[nIn - i + 1].k]]
  IN outs \o ins

-----------------------------------------------------------------------------
(* Initial states *)
Prelude == << <<Def("x", I(0)), Def("y", I(1))>> >>

\* Delimited control is defined as in scheme/stdlib.scm, on top of call/cc and one meta-continuation cell:
\*   (*abort thunk) = (let ([v (thunk)]) ((mc) v))
\*   (*reset thunk) = (let ([mc (mc)]) (call/cc (lambda (k) (set-mc! (lambda (v) (set-mc! mc) (k v))) (*abort thunk))))
\*   (*shift f)     = (call/cc (lambda (k) (*abort (lambda () (f (lambda (v) (reset (k v))))))))
\* The three closures and the cell live at reserved store locations 1..4.
\* Parameter objects (R7RS 4.2.6, the reference implementation with dynamic-wind): a parameter is a procedure over a
\* cell; parameterize evaluates the parameter and the value ONCE, then swaps value and cell on every entry to and exit
\* from the body (so a re-entry through a continuation re-installs the value the body last saw):
\*   (%mkparam v)            = (let ([cell (box v)]) (lambda args (if (null? args) (unbox cell) (set-box! cell (car args)))))
\*   (%parameterize p v thunk) = (let ([swap (lambda () (let ([t (p)]) (p v) (set! v t)))]) (dynamic-wind swap thunk swap))
RtEnv == [n \in PrimNames |-> CASE n = "%abort" -> 2 [] n = "%reset" -> 3 [] n = "%shift" -> 4
                                  [] n = "%mkparam" -> 5 [] n = "%parameterize" -> 6 [] OTHER -> 0]
MkParamLam == Lam(<<"v">>, "", Let(<< <<"cell", App(Var("box"), <<Var("v")>>)>> >>,
                Lam(<< >>, "args", If(App(Var("null?"), <<Var("args")>>), App(Var("unbox"), <<Var("cell")>>),
                                      App(Var("set-box!"), <<Var("cell"), App(Var("car"), <<Var("args")>>)>>)))))
ParameterizeLam == Lam(<<"p", "v", "thunk">>, "",
                     Let(<< <<"swap", Lam(<< >>, "", Let(<< <<"t", App(Var("p"), << >>)>> >>,
                                                        Begin(<<App(Var("p"), <<Var("v")>>), SetE("v", Var("t"))>>)))>> >>,
                         App(Var("dynamic-wind"), <<Var("swap"), Var("thunk"), Var("swap")>>)))
AbortLam == Lam(<<"thunk">>, "", App(App(Var("%mc"), << >>), <<App(Var("thunk"), << >>)>>))
ResetLam == Lam(<<"thunk">>, "", Let(<< <<"mc", App(Var("%mc"), << >>)>> >>,
              App(Var("call/cc"), <<Lam(<<"k">>, "",
                  Begin(<<App(Var("%mc-set!"), <<Lam(<<"v">>, "", Begin(<<App(Var("%mc-set!"), <<Var("mc")>>), App(Var("k"), <<Var("v")>>)>>))>>),
                          App(Var("%abort"), <<Var("thunk")>>)>>))>>)))
ShiftLam == Lam(<<"f">>, "", App(Var("call/cc"), <<Lam(<<"k">>, "",
              App(Var("%abort"), <<Lam(<< >>, "", App(Var("f"), <<Lam(<<"v">>, "",
                  App(Var("%reset"), <<Lam(<< >>, "", App(Var("k"), <<Var("v")>>))>>))>>))>>))>>))
MkClo(lam) == [k |-> "clo", ps |-> lam.ps, rest |-> lam.rest, b |-> lam.b, env |-> RtEnv]
RtStore == <<PrimV("%no-reset"), MkClo(AbortLam), MkClo(ResetLam), MkClo(ShiftLam), MkClo(MkParamLam), MkClo(ParameterizeLam)>>
InitCommon ==
  /\ ui = 0 /\ fi = 0 /\ mode = "ret" /\ ctrl = Void
  /\ env = RtEnv /\ store = RtStore /\ kont = << >> /\ winders = << >>
  /\ genv = [n \in {} |-> 0]
  /\ out = << >> /\ outcome = << >> /\ lastval = << >> /\ fuel = FUEL

InitBuild == /\ phase = "build" /\ bstack = << >> /\ nodes = 0 /\ units = << >> /\ InitCommon

-----------------------------------------------------------------------------
(* Builder: bottom-up assembly of forms.  bstack head = most recently finished. *)
BVars == {"x", "y"}
BAtoms == {I(0), I(1), I(2), C(BoolV(FALSE)), C(Nil), C(SymV("a")), Var("x"), Var("y"), Var("f")}
           \cup (IF RICH THEN {C(StrV("s")), C(StrV("ab")), C(ListV(<<IntV(1), IntV(2)>>)), I(0 - 3)} ELSE {})
RPrim1 == {"string-length", "hash-length", "vector->list", "list->vector", "abs", "even?", "symbol->string", "number->string", "reverse", "cadr"}
RPrim2 == {"hash", "hash-ref", "hash-contains?", "string-append", "vector-ref", "vector", "member", "quotient", "remainder", "modulo", "max", "equal?", "append", "list-ref"}
IsExpr(e) == e.k # "def"
Top(n) == SubSeq(bstack, 1, n)            \* top n entries, head first
Drop(n) == SubSeq(bstack, n + 1, Len(bstack))
HaveExprs(n) == Len(bstack) >= n /\ \A i \in 1..n : IsExpr(bstack[i])

BPush(e, cost) == /\ nodes + cost <= BUDGET /\ Len(bstack) < MAXSTACK
                  /\ bstack' = <<e>> \o bstack /\ nodes' = nodes + cost
BReplace(n, e) == /\ nodes + 1 <= BUDGET /\ bstack' = <<e>> \o Drop(n) /\ nodes' = nodes + 1

Prim1 == {"car", "cdr", "null?", "not", "emit", "length"}
Prim2 == {"+", "-", "*", "=", "<", "cons", "eq?"}

BuildStep ==
  /\ phase = "build"
  /\ \/ \E a \in BAtoms : BPush(a, 1)
     \* operands were pushed left to right: bstack[1] is the LAST one
     \/ \E op \in Prim1 : HaveExprs(1) /\ BReplace(1, P(op, <<bstack[1]>>))
     \/ \E op \in Prim2 : HaveExprs(2) /\ BReplace(2, P(op, <<bstack[2], bstack[1]>>))
     \/ HaveExprs(1) /\ BReplace(1, P("list", <<bstack[1]>>))
     \/ HaveExprs(3) /\ BReplace(3, If(bstack[3], bstack[2], bstack[1]))
     \/ \E v \in BVars : HaveExprs(2) /\ BReplace(2, Let(<< <<v, bstack[2]>> >>, bstack[1]))
     \/ \E v \in BVars : HaveExprs(1) /\ BReplace(1, SetE(v, bstack[1]))
     \/ HaveExprs(2) /\ BReplace(2, Begin(<<bstack[2], bstack[1]>>))
     \/ \E v \in BVars : HaveExprs(1) /\ BReplace(1, Lam(<<v>>, "", bstack[1]))
     \/ HaveExprs(1) /\ BReplace(1, Lam(<< >>, "y", bstack[1]))
     \/ HaveExprs(2) /\ BReplace(2, App(bstack[2], <<bstack[1]>>))
     \/ HaveExprs(3) /\ BReplace(3, App(bstack[3], <<bstack[2], bstack[1]>>))
     \/ HaveExprs(1) /\ BReplace(1, App(bstack[1], << >>))
     \/ HaveExprs(2) /\ BReplace(2, And(<<bstack[2], bstack[1]>>))
     \/ HaveExprs(2) /\ BReplace(2, Or(<<bstack[2], bstack[1]>>))
     \/ HaveExprs(1) /\ BReplace(1, P("call/cc", <<Lam(<<"f">>, "", bstack[1])>>))
     \/ HaveExprs(2) /\ BReplace(2, WithHandler(Lam(<<"y">>, "", bstack[2]), bstack[1]))
     \/ \E v \in BVars \cup {"f"} : HaveExprs(1) /\ BReplace(1, Def(v, bstack[1]))
     \* RICH alphabet: data structures, strings, integer division, higher-order library procedures
     \/ RICH /\ \E op \in RPrim1 : HaveExprs(1) /\ BReplace(1, P(op, <<bstack[1]>>))
     \/ RICH /\ \E op \in RPrim2 : HaveExprs(2) /\ BReplace(2, P(op, <<bstack[2], bstack[1]>>))
     \/ RICH /\ HaveExprs(3) /\ BReplace(3, P("hash-insert", <<bstack[3], bstack[2], bstack[1]>>))
     \/ RICH /\ \E hof \in {"map", "filter", "for-each"} : \E v \in BVars :
                  HaveExprs(2) /\ BReplace(2, P(hof, <<Lam(<<v>>, "", bstack[2]), bstack[1]>>))
     \/ RICH /\ \E hof \in {"foldl", "foldr"} :
                  HaveExprs(3) /\ BReplace(3, P(hof, <<Lam(<<"x", "y">>, "", bstack[3]), bstack[2], bstack[1]>>))
     \/ RICH /\ HaveExprs(2) /\ BReplace(2, P("apply", <<bstack[2], bstack[1]>>))
  /\ UNCHANGED <<phase, units, ui, fi, mode, ctrl, env, store, kont, winders, genv, out, outcome,
                 lastval, fuel>>

RECURSIVE RevSeq(_)
RevSeq(s) == IF s = << >> THEN << >> ELSE RevSeq(Tail(s)) \o <<Head(s)>>

\* Finish building: the stack (bottom first) becomes the forms of the program.  They are
\* run either as ONE unit or as one unit per form (Steel treats the two differently: D2, D6).
BuildDone ==
  /\ phase = "build" /\ bstack # << >> /\ nodes >= MINNODES
  /\ LET forms == RevSeq(bstack)
         pre == << <<Def("x", I(0)), Def("y", I(1)), Def("f", Lam(<<"x">>, "", Var("x")))>> >>
     IN \E split \in BOOLEAN :
          LET us == IF split /\ Len(forms) > 1 THEN [i \in 1..Len(forms) |-> <<forms[i]>>] ELSE <<forms>> IN
          /\ \A i \in 1..Len(us) : ~UseBeforeDef(us[i]) /\ ~DupDefine(us[i])
          /\ (split => Len(forms) > 1)
          /\ units' = pre \o us
  /\ phase' = "run"
  /\ UNCHANGED <<bstack, nodes, ui, fi, mode, ctrl, env, store, kont, winders, genv, out, outcome,
                 lastval, fuel>>

-----------------------------------------------------------------------------
(* Running: unit / form sequencing *)

\* Start the next unit: hoist its defines (D2): fresh unassigned locations.
NamesSeq(u) == LET idx == {j \in 1..Len(u) : u[j].k = "def"} IN
               [i \in 1..Cardinality(idx) |-> u[CHOOSE j \in idx : Cardinality({m \in idx : m < j}) = i - 1].n]

StartUnit ==
  /\ phase = "run" /\ fi = 0 /\ ui < Len(units) /\ kont = << >> /\ mode = "ret"
  /\ LET u == units[ui + 1]
         names == NamesSeq(u)
         g2 == BindAll(genv, names, Len(store))
     IN /\ ui' = ui + 1
        /\ genv' = g2
        /\ store' = store \o [i \in 1..Len(names) |-> Unbound]
        /\ env' = [n \in (DOMAIN g2) \cup PrimNames |-> IF n \in DOMAIN g2 THEN g2[n] ELSE RtEnv[n]]
        /\ out' = Append(out, << >>) /\ outcome' = Append(outcome, "ok") /\ lastval' = Append(lastval, "#<void>")
        /\ fi' = 1 /\ mode' = "eval" /\ ctrl' = u[1] /\ winders' = << >>
  /\ UNCHANGED <<phase, bstack, nodes, units, kont, fuel>>

\* the global environment of the running unit (what free identifiers resolve to)
UnitEnv == [n \in (DOMAIN genv) \cup PrimNames |-> IF n \in DOMAIN genv THEN genv[n] ELSE RtEnv[n]]

\* A top-level form finished with value ctrl
FormDone ==
  /\ phase = "run" /\ fi > 0 /\ mode = "ret" /\ kont = << >>
  /\ lastval' = [lastval EXCEPT ![ui] = Show(ctrl)]
  /\ IF fi < Len(units[ui])
       THEN /\ fi' = fi + 1 /\ ctrl' = units[ui][fi + 1] /\ mode' = "eval" /\ env' = UnitEnv
            /\ UNCHANGED <<ui, outcome, phase>>
       ELSE /\ fi' = 0 /\ UNCHANGED <<ctrl, mode, env, ui, outcome>>
            /\ phase' = IF ui = Len(units) THEN "done" ELSE "run"
  /\ UNCHANGED <<bstack, nodes, units, store, kont, winders, genv, out, fuel>>

\* An error reached the top of the unit (D6): the rest of the unit is abandoned.
UnitError ==
  /\ phase = "run" /\ fi > 0 /\ mode = "raise" /\ kont = << >>
  /\ outcome' = [outcome EXCEPT ![ui] = "err"]
  /\ fi' = 0 /\ mode' = "ret" /\ ctrl' = Void /\ winders' = << >>
  /\ phase' = IF ui = Len(units) THEN "done" ELSE "run"
  /\ UNCHANGED <<bstack, nodes, units, ui, env, store, kont, genv, out, lastval, fuel>>

-----------------------------------------------------------------------------
(* Eval: ctrl is an expression *)
Lookup(e, n) == IF n \in DOMAIN e THEN e[n] ELSE -1

Raise(kind) == /\ ctrl' = ErrV(kind) /\ mode' = "raise"

EvalStep ==
  /\ phase = "run" /\ fi > 0 /\ mode = "eval"
  /\ LET e == ctrl IN
     CASE e.k = "c" -> /\ ctrl' = e.v /\ mode' = "ret" /\ UNCHANGED <<env, store, kont>>
       [] e.k \in {"cbig", "cmid"} -> /\ ctrl' = IntV(BigNModel) /\ mode' = "ret" /\ UNCHANGED <<env, store, kont>>
       [] e.k \in {"cbighalf", "cmidhalf"} -> /\ ctrl' = IntV(3) /\ mode' = "ret" /\ UNCHANGED <<env, store, kont>>
       [] e.k = "var" ->
            LET l == Lookup(env, e.n) IN
            IF l = -1 THEN /\ Raise("FreeIdentifier") /\ UNCHANGED <<env, store, kont>>
            ELSE IF l = 0 THEN /\ ctrl' = PrimV(e.n) /\ mode' = "ret" /\ UNCHANGED <<env, store, kont>>
            ELSE IF store[l].k = "unbound" THEN /\ Raise("Unassigned") /\ UNCHANGED <<env, store, kont>>
            ELSE /\ ctrl' = store[l] /\ mode' = "ret" /\ UNCHANGED <<env, store, kont>>
       [] e.k = "lam" -> /\ ctrl' = Clo(e, env) /\ mode' = "ret" /\ UNCHANGED <<env, store, kont>>
       [] e.k = "app" ->   \* D4: operands first (left to right), operator last
            IF e.as = << >>
              THEN /\ ctrl' = e.f /\ kont' = Push([f |-> "fn", done |-> << >>]) /\ UNCHANGED <<env, store, mode>>
              ELSE /\ ctrl' = e.as[1]
                   /\ kont' = Push([f |-> "args", fe |-> e.f, done |-> << >>, todo |-> Tail(e.as), env |-> env])
                   /\ UNCHANGED <<env, store, mode>>
       [] e.k = "if" -> /\ ctrl' = e.c /\ kont' = Push([f |-> "if", t |-> e.t, e |-> e.e, env |-> env])
                        /\ UNCHANGED <<env, store, mode>>
       [] e.k = "let" ->
            IF e.bs = << >> THEN /\ ctrl' = e.b /\ UNCHANGED <<env, store, kont, mode>>
            ELSE /\ ctrl' = e.bs[1][2]
                 /\ kont' = Push([f |-> "let", names |-> [i \in 1..Len(e.bs) |-> e.bs[i][1]], done |-> << >>,
                                  todo |-> [i \in 1..(Len(e.bs) - 1) |-> e.bs[i + 1][2]], b |-> e.b, env |-> env])
                 /\ UNCHANGED <<env, store, mode>>
       [] e.k = "letstar" ->
            /\ ctrl' = (IF Len(e.bs) <= 1 THEN Let(e.bs, e.b)
                        ELSE Let(<<e.bs[1]>>, LetStar(Tail(e.bs), e.b)))
            /\ UNCHANGED <<env, store, kont, mode>>
       [] e.k = "letrec" ->   \* fresh unassigned locations, inits in the extended env, then assign
            LET names == [i \in 1..Len(e.bs) |-> e.bs[i][1]]
                env2 == BindAll(env, names, Len(store)) IN
            /\ store' = store \o [i \in 1..Len(names) |-> Unbound]
            /\ env' = env2
            /\ ctrl' = Begin([i \in 1..Len(e.bs) |-> [k |-> "init", n |-> e.bs[i][1], e |-> e.bs[i][2]]] \o <<e.b>>)
            /\ UNCHANGED <<kont, mode>>
       [] e.k = "init" -> /\ ctrl' = e.e /\ kont' = Push([f |-> "init", n |-> e.n, env |-> env])
                          /\ UNCHANGED <<env, store, mode>>
       [] e.k = "nlet" ->
            /\ ctrl' = App(LetRec(<< <<e.n, Lam([i \in 1..Len(e.bs) |-> e.bs[i][1]], "", e.b)>> >>, Var(e.n)),
                           [i \in 1..Len(e.bs) |-> e.bs[i][2]])
            /\ UNCHANGED <<env, store, kont, mode>>
       [] e.k = "begin" ->
            IF e.es = << >> THEN /\ ctrl' = Void /\ mode' = "ret" /\ UNCHANGED <<env, store, kont>>
            ELSE /\ ctrl' = e.es[1]
                 /\ kont' = (IF Len(e.es) = 1 THEN kont ELSE Push([f |-> "seq", rest |-> Tail(e.es), env |-> env]))
                 /\ UNCHANGED <<env, store, mode>>
       [] e.k = "body" ->    \* internal defines: letrec* semantics
            LET names == [i \in 1..Len(e.ds) |-> e.ds[i].n]
                env2 == BindAll(env, names, Len(store)) IN
            /\ store' = store \o [i \in 1..Len(names) |-> Unbound]
            /\ env' = env2
            /\ ctrl' = Begin([i \in 1..Len(e.ds) |-> [k |-> "init", n |-> e.ds[i].n, e |-> e.ds[i].e]] \o <<e.e>>)
            /\ UNCHANGED <<kont, mode>>
       [] e.k = "body2" ->   \* D9: definitions and expressions interleaved, top to bottom
            LET defs == SelectSeq(e.items, LAMBDA it : it.k = "def")
                names == [i \in 1..Len(defs) |-> defs[i].n]
                env2 == BindAll(env, names, Len(store)) IN
            /\ store' = store \o [i \in 1..Len(names) |-> Unbound]
            /\ env' = env2
            /\ ctrl' = Begin([i \in 1..Len(e.items) |-> IF e.items[i].k = "def"
                                                           THEN [k |-> "init", n |-> e.items[i].n, e |-> e.items[i].e]
                                                           ELSE e.items[i]] \o <<e.e>>)
            /\ UNCHANGED <<kont, mode>>
       [] e.k = "set" -> /\ ctrl' = e.e /\ kont' = Push([f |-> "set", n |-> e.n, env |-> env])
                         /\ UNCHANGED <<env, store, mode>>
       [] e.k = "def" -> /\ ctrl' = e.e /\ kont' = Push([f |-> "def", n |-> e.n])
                         /\ UNCHANGED <<env, store, mode>>
       [] e.k = "and" ->
            IF e.es = << >> THEN /\ ctrl' = BoolV(TRUE) /\ mode' = "ret" /\ UNCHANGED <<env, store, kont>>
            ELSE /\ ctrl' = e.es[1]
                 /\ kont' = (IF Len(e.es) = 1 THEN kont ELSE Push([f |-> "and", rest |-> Tail(e.es), env |-> env]))
                 /\ UNCHANGED <<env, store, mode>>
       [] e.k = "or" ->
            IF e.es = << >> THEN /\ ctrl' = BoolV(FALSE) /\ mode' = "ret" /\ UNCHANGED <<env, store, kont>>
            ELSE /\ ctrl' = e.es[1]
                 /\ kont' = (IF Len(e.es) = 1 THEN kont ELSE Push([f |-> "or", rest |-> Tail(e.es), env |-> env]))
                 /\ UNCHANGED <<env, store, mode>>
       [] e.k = "when" -> /\ ctrl' = If(e.c, Begin(e.es), C(Void)) /\ UNCHANGED <<env, store, kont, mode>>
       [] e.k = "cond" ->
            /\ ctrl' = (IF e.cls = << >> THEN (IF e.el.k = "none" THEN C(Void) ELSE e.el)
                        ELSE If(e.cls[1][1], e.cls[1][2], Cond(Tail(e.cls), e.el)))
            /\ UNCHANGED <<env, store, kont, mode>>
       [] e.k = "reset" -> /\ ctrl' = App(Var("%reset"), <<Lam(<< >>, "", e.e)>>) /\ UNCHANGED <<env, store, kont, mode>>
       [] e.k = "shift" -> /\ ctrl' = App(Var("%shift"), <<Lam(<<e.n>>, "", e.e)>>) /\ UNCHANGED <<env, store, kont, mode>>
       [] e.k = "mkparam" -> /\ ctrl' = App(Var("%mkparam"), <<e.e>>) /\ UNCHANGED <<env, store, kont, mode>>
       [] e.k = "parameterize" -> /\ ctrl' = App(Var("%parameterize"), <<e.p, e.v, Lam(<< >>, "", e.b)>>)
                                  /\ UNCHANGED <<env, store, kont, mode>>
       [] e.k = "withhandler" ->   \* handler expression first, then the body under the handler
            /\ ctrl' = e.h /\ kont' = Push([f |-> "wh1", e |-> e.e, env |-> env])
            /\ UNCHANGED <<env, store, mode>>
  /\ UNCHANGED <<winders, genv, out>>

-----------------------------------------------------------------------------
(* Ret: ctrl is a value, pop one continuation frame *)
RetStep ==
  /\ phase = "run" /\ fi > 0 /\ mode = "ret" /\ kont # << >>
  /\ LET fr == Head(kont)
         rest == Tail(kont)
         v == ctrl IN
     CASE fr.f = "if" -> /\ ctrl' = (IF Truthy(v) THEN fr.t ELSE fr.e) /\ env' = fr.env /\ kont' = rest
                         /\ mode' = "eval" /\ UNCHANGED <<store, winders, out>>
       [] fr.f = "args" ->
            IF fr.todo = << >>
              THEN /\ ctrl' = fr.fe /\ env' = fr.env /\ mode' = "eval"
                   /\ kont' = <<[f |-> "fn", done |-> Append(fr.done, v)]>> \o rest
                   /\ UNCHANGED <<store, winders, out>>
              ELSE /\ ctrl' = Head(fr.todo) /\ env' = fr.env /\ mode' = "eval"
                   /\ kont' = <<[fr EXCEPT !.done = Append(fr.done, v), !.todo = Tail(fr.todo)]>> \o rest
                   /\ UNCHANGED <<store, winders, out>>
       [] fr.f = "fn" -> /\ ctrl' = [fn |-> v, args |-> fr.done] /\ mode' = "apply" /\ kont' = rest
                         /\ UNCHANGED <<env, store, winders, out>>
       [] fr.f = "let" ->
            IF fr.todo = << >>
              THEN LET vals == Append(fr.done, v) IN
                   /\ store' = store \o vals
                   /\ env' = BindAll(fr.env, fr.names, Len(store))
                   /\ ctrl' = fr.b /\ mode' = "eval" /\ kont' = rest /\ UNCHANGED <<winders, out>>
              ELSE /\ ctrl' = Head(fr.todo) /\ env' = fr.env /\ mode' = "eval"
                   /\ kont' = <<[fr EXCEPT !.done = Append(fr.done, v), !.todo = Tail(fr.todo)]>> \o rest
                   /\ UNCHANGED <<store, winders, out>>
       [] fr.f = "init" -> /\ store' = [store EXCEPT ![fr.env[fr.n]] = v] /\ ctrl' = Void /\ kont' = rest
                           /\ UNCHANGED <<env, mode, winders, out>>
       [] fr.f = "seq" -> /\ ctrl' = Head(fr.rest) /\ env' = fr.env /\ mode' = "eval"
                          /\ kont' = (IF Len(fr.rest) = 1 THEN rest
                                      ELSE <<[fr EXCEPT !.rest = Tail(fr.rest)]>> \o rest)
                          /\ UNCHANGED <<store, winders, out>>
       [] fr.f = "set" ->
            LET l == Lookup(fr.env, fr.n) IN
            IF l <= 0 \/ store[l].k = "unbound"
              THEN /\ Raise(IF l <= 0 THEN "FreeIdentifier" ELSE "Unassigned") /\ kont' = rest /\ UNCHANGED <<env, store, winders, out>>
              ELSE /\ store' = [store EXCEPT ![l] = v] /\ ctrl' = store[l]   \* D3
                   /\ kont' = rest /\ UNCHANGED <<env, mode, winders, out>>
       [] fr.f = "def" -> /\ store' = [store EXCEPT ![genv[fr.n]] = v] /\ ctrl' = Void /\ kont' = rest
                          /\ UNCHANGED <<env, mode, winders, out>>
       [] fr.f = "and" ->
            IF ~Truthy(v) THEN /\ kont' = rest /\ UNCHANGED <<ctrl, env, store, mode, winders, out>>
            ELSE /\ ctrl' = Head(fr.rest) /\ env' = fr.env /\ mode' = "eval"
                 /\ kont' = (IF Len(fr.rest) = 1 THEN rest ELSE <<[fr EXCEPT !.rest = Tail(fr.rest)]>> \o rest)
                 /\ UNCHANGED <<store, winders, out>>
       [] fr.f = "or" ->
            IF Truthy(v) THEN /\ kont' = rest /\ UNCHANGED <<ctrl, env, store, mode, winders, out>>
            ELSE /\ ctrl' = Head(fr.rest) /\ env' = fr.env /\ mode' = "eval"
                 /\ kont' = (IF Len(fr.rest) = 1 THEN rest ELSE <<[fr EXCEPT !.rest = Tail(fr.rest)]>> \o rest)
                 /\ UNCHANGED <<store, winders, out>>
       [] fr.f = "wh1" -> /\ ctrl' = fr.e /\ env' = fr.env /\ mode' = "eval"
                          /\ kont' = <<[f |-> "handler", h |-> v, w |-> winders]>> \o rest
                          /\ UNCHANGED <<store, winders, out>>
       [] fr.f = "handler" -> /\ kont' = rest /\ UNCHANGED <<ctrl, env, store, mode, winders, out>>
       \* dynamic-wind: before thunk returned -> enter body
       [] fr.f = "windpre" -> /\ winders' = <<[b |-> fr.b, a |-> fr.a, k |-> rest]>> \o winders
                              /\ ctrl' = [fn |-> fr.body, args |-> << >>] /\ mode' = "apply"
                              /\ kont' = <<[f |-> "wind", a |-> fr.a]>> \o rest
                              /\ UNCHANGED <<env, store, out>>
       \* body returned normally -> run after thunk, then deliver v
       [] fr.f = "wind" -> /\ winders' = Tail(winders)
                           /\ ctrl' = [fn |-> fr.a, args |-> << >>] /\ mode' = "apply"
                           /\ kont' = <<[f |-> "deliver", v |-> v]>> \o rest
                           /\ UNCHANGED <<env, store, out>>
       [] fr.f = "deliver" -> /\ ctrl' = fr.v /\ kont' = rest /\ UNCHANGED <<env, store, mode, winders, out>>
       [] fr.f = "reraise" -> /\ ctrl' = fr.v /\ mode' = "raise" /\ kont' = rest
                              /\ UNCHANGED <<env, store, winders, out>>
       \* continuation jump in progress: run the remaining wind thunks, then install
       [] fr.f = "jump" ->
            IF fr.plan = << >>
              THEN /\ kont' = fr.kk /\ winders' = fr.w /\ ctrl' = fr.v /\ UNCHANGED <<env, store, mode, out>>
              ELSE /\ ctrl' = [fn |-> Head(fr.plan).th, args |-> << >>] /\ mode' = "apply"
                   /\ winders' = Head(fr.plan).w
                   /\ kont' = <<[fr EXCEPT !.plan = Tail(fr.plan)]>> \o Head(fr.plan).k
                   /\ UNCHANGED <<env, store, out>>
       \* map / for-each / filter / foldl over one list
       [] fr.f = "mapk" ->
            LET done2 == Append(fr.done, v) IN
            IF fr.todo = << >>
              THEN /\ ctrl' = ListV(done2) /\ kont' = rest /\ UNCHANGED <<env, store, mode, winders, out>>
              ELSE /\ ctrl' = [fn |-> fr.fn, args |-> Head(fr.todo)] /\ mode' = "apply"
                   /\ kont' = <<[fr EXCEPT !.done = done2, !.todo = Tail(fr.todo)]>> \o rest
                   /\ UNCHANGED <<env, store, winders, out>>
       [] fr.f = "foreachk" ->
            IF fr.todo = << >>
              THEN /\ ctrl' = Void /\ kont' = rest /\ UNCHANGED <<env, store, mode, winders, out>>
              ELSE /\ ctrl' = [fn |-> fr.fn, args |-> Head(fr.todo)] /\ mode' = "apply"
                   /\ kont' = <<[fr EXCEPT !.todo = Tail(fr.todo)]>> \o rest
                   /\ UNCHANGED <<env, store, winders, out>>
       [] fr.f = "filterk" ->
            LET done2 == IF Truthy(v) THEN Append(fr.done, fr.cur) ELSE fr.done IN
            IF fr.todo = << >>
              THEN /\ ctrl' = ListV(done2) /\ kont' = rest /\ UNCHANGED <<env, store, mode, winders, out>>
              ELSE /\ ctrl' = [fn |-> fr.fn, args |-> <<Head(fr.todo)>>] /\ mode' = "apply"
                   /\ kont' = <<[fr EXCEPT !.done = done2, !.todo = Tail(fr.todo), !.cur = Head(fr.todo)]>> \o rest
                   /\ UNCHANGED <<env, store, winders, out>>
       [] fr.f = "foldk" ->
            IF fr.todo = << >>
              THEN /\ kont' = rest /\ UNCHANGED <<ctrl, env, store, mode, winders, out>>
              ELSE /\ ctrl' = [fn |-> fr.fn, args |-> <<Head(fr.todo), v>>] /\ mode' = "apply"
                   /\ kont' = <<[fr EXCEPT !.todo = Tail(fr.todo)]>> \o rest
                   /\ UNCHANGED <<env, store, winders, out>>
  /\ UNCHANGED genv

-----------------------------------------------------------------------------
(* Apply: ctrl = [fn, args] *)
RECURSIVE Transpose(_)
\* lists (as sequences) -> sequence of argument tuples, truncated to the shortest
MinLen(ls) == CHOOSE m \in {Len(ls[i]) : i \in 1..Len(ls)} : \A i \in 1..Len(ls) : m <= Len(ls[i])
Transpose(ls) == [j \in 1..MinLen(ls) |-> [i \in 1..Len(ls) |-> ls[i][j]]]

ApplyStep ==
  /\ phase = "run" /\ fi > 0 /\ mode = "apply"
  /\ LET fn == ctrl.fn
         as == ctrl.args
         n == Len(as) IN
     CASE fn.k = "clo" ->
            LET np == Len(fn.ps) IN
            IF (fn.rest = "" /\ n # np) \/ (fn.rest # "" /\ n < np)
              THEN /\ Raise("ArityMismatch") /\ UNCHANGED <<env, store, kont, winders, out>>
              ELSE LET fixed == SubSeq(as, 1, np)
                       e1 == BindAll(fn.env, fn.ps, Len(store))
                       restv == ListV(SubSeq(as, np + 1, n)) IN
                   /\ store' = (IF fn.rest = "" THEN store \o fixed ELSE store \o fixed \o <<restv>>)
                   /\ env' = (IF fn.rest = "" THEN e1 ELSE Bind(e1, fn.rest, Len(store) + np + 1))
                   /\ ctrl' = fn.b /\ mode' = "eval" /\ UNCHANGED <<kont, winders, out>>
       [] fn.k = "kont" ->
            IF n # 1 THEN /\ Raise("ArityMismatch") /\ UNCHANGED <<env, store, kont, winders, out>>
            ELSE /\ kont' = <<[f |-> "jump", plan |-> JumpPlan(winders, fn.w), kk |-> fn.kk, w |-> fn.w, v |-> as[1]]>>
                 /\ ctrl' = Void /\ mode' = "ret" /\ UNCHANGED <<env, store, winders, out>>
       [] fn.k = "prim" ->
            LET op == fn.op IN
            CASE op \in PurePrims ->
                   LET r == Delta(op, as) IN
                   /\ ctrl' = r.v /\ mode' = (IF r.ok THEN "ret" ELSE "raise")
                   /\ UNCHANGED <<env, store, kont, winders, out>>
              [] op = "emit" ->
                   IF n # 1 THEN /\ Raise("ArityMismatch") /\ UNCHANGED <<env, store, kont, winders, out>>
                   ELSE /\ out' = [out EXCEPT ![ui] = Append(@, Show(as[1]))]
                        /\ ctrl' = Void /\ mode' = "ret" /\ UNCHANGED <<env, store, kont, winders>>
              [] op = "error" -> /\ Raise("Generic") /\ UNCHANGED <<env, store, kont, winders, out>>
              [] op = "%no-reset" -> /\ Raise("Generic") /\ UNCHANGED <<env, store, kont, winders, out>>   \* "You forgot the top-level reset"
              [] op = "%mc" -> /\ ctrl' = store[1] /\ mode' = "ret" /\ UNCHANGED <<env, store, kont, winders, out>>
              [] op = "%mc-set!" -> /\ store' = [store EXCEPT ![1] = as[1]] /\ ctrl' = Void /\ mode' = "ret"
                                    /\ UNCHANGED <<env, kont, winders, out>>
              \* depth of the control stack: in the reference machine the number of continuation
              \* frames (only EQUALITY of two depths is ever observed)
              [] op = "#%verif-depth" -> /\ ctrl' = IntV(Len(kont)) /\ mode' = "ret"
                                         /\ UNCHANGED <<env, store, kont, winders, out>>
              [] op = "box" ->
                   IF n # 1 THEN /\ Raise("ArityMismatch") /\ UNCHANGED <<env, store, kont, winders, out>>
                   ELSE /\ store' = Append(store, as[1]) /\ ctrl' = BoxV(Len(store) + 1) /\ mode' = "ret"
                        /\ UNCHANGED <<env, kont, winders, out>>
              [] op = "unbox" ->
                   IF n # 1 THEN /\ Raise("ArityMismatch") /\ UNCHANGED <<env, store, kont, winders, out>>
                   ELSE IF as[1].k # "box" THEN /\ Raise("TypeMismatch") /\ UNCHANGED <<env, store, kont, winders, out>>
                   ELSE /\ ctrl' = store[as[1].l] /\ mode' = "ret" /\ UNCHANGED <<env, store, kont, winders, out>>
              [] op = "set-box!" ->
                   IF n # 2 THEN /\ Raise("ArityMismatch") /\ UNCHANGED <<env, store, kont, winders, out>>
                   ELSE IF as[1].k # "box" THEN /\ Raise("TypeMismatch") /\ UNCHANGED <<env, store, kont, winders, out>>
                   ELSE /\ store' = [store EXCEPT ![as[1].l] = as[2]] /\ ctrl' = Void /\ mode' = "ret"
                        /\ UNCHANGED <<env, kont, winders, out>>
              [] op = "apply" ->
                   IF n < 2 \/ ~IsList(as[n]) THEN /\ Raise("TypeMismatch") /\ UNCHANGED <<env, store, kont, winders, out>>
                   ELSE /\ ctrl' = [fn |-> as[1], args |-> SubSeq(as, 2, n - 1) \o SeqOf(as[n])]
                        /\ UNCHANGED <<env, store, kont, mode, winders, out>>
              [] op = "call/cc" ->
                   IF n # 1 THEN /\ Raise("ArityMismatch") /\ UNCHANGED <<env, store, kont, winders, out>>
                   ELSE /\ ctrl' = [fn |-> as[1], args |-> <<KontV(kont, winders)>>]
                        /\ UNCHANGED <<env, store, kont, mode, winders, out>>
              [] op = "dynamic-wind" ->
                   IF n # 3 THEN /\ Raise("ArityMismatch") /\ UNCHANGED <<env, store, kont, winders, out>>
                   ELSE /\ ctrl' = [fn |-> as[1], args |-> << >>]
                        /\ kont' = Push([f |-> "windpre", b |-> as[1], body |-> as[2], a |-> as[3]])
                        /\ UNCHANGED <<env, store, mode, winders, out>>
              [] op \in {"map", "for-each"} ->
                   IF n < 2 \/ \E i \in 2..n : ~IsList(as[i])
                     THEN /\ Raise("TypeMismatch") /\ UNCHANGED <<env, store, kont, winders, out>>
                   ELSE LET tuples == Transpose([i \in 1..(n - 1) |-> SeqOf(as[i + 1])]) IN
                        IF tuples = << >>
                          THEN /\ ctrl' = (IF op = "map" THEN Nil ELSE Void) /\ mode' = "ret"
                               /\ UNCHANGED <<env, store, kont, winders, out>>
                          ELSE /\ ctrl' = [fn |-> as[1], args |-> Head(tuples)]
                               /\ kont' = Push(IF op = "map"
                                               THEN [f |-> "mapk", fn |-> as[1], done |-> << >>, todo |-> Tail(tuples)]
                                               ELSE [f |-> "foreachk", fn |-> as[1], todo |-> Tail(tuples)])
                               /\ UNCHANGED <<env, store, mode, winders, out>>
              [] op = "filter" ->
                   IF n # 2 \/ ~IsList(as[n]) THEN /\ Raise("TypeMismatch") /\ UNCHANGED <<env, store, kont, winders, out>>
                   ELSE LET xs == SeqOf(as[2]) IN
                        IF xs = << >> THEN /\ ctrl' = Nil /\ mode' = "ret" /\ UNCHANGED <<env, store, kont, winders, out>>
                        ELSE /\ ctrl' = [fn |-> as[1], args |-> <<Head(xs)>>]
                             /\ kont' = Push([f |-> "filterk", fn |-> as[1], done |-> << >>, todo |-> Tail(xs), cur |-> Head(xs)])
                             /\ UNCHANGED <<env, store, mode, winders, out>>
              [] op = "foldr" ->    \* (foldr f init lst) = (foldl f init (reverse lst))
                   IF n # 3 \/ ~IsList(as[n]) THEN /\ Raise("TypeMismatch") /\ UNCHANGED <<env, store, kont, winders, out>>
                   ELSE LET xs == SeqOf(RevOnto(as[3], Nil)) IN
                        IF xs = << >> THEN /\ ctrl' = as[2] /\ mode' = "ret" /\ UNCHANGED <<env, store, kont, winders, out>>
                        ELSE /\ ctrl' = [fn |-> as[1], args |-> <<Head(xs), as[2]>>]
                             /\ kont' = Push([f |-> "foldk", fn |-> as[1], todo |-> Tail(xs)])
                             /\ UNCHANGED <<env, store, mode, winders, out>>
              [] op = "foldl" ->    \* (foldl f init lst): f called as (f elem acc)
                   IF n # 3 \/ ~IsList(as[n]) THEN /\ Raise("TypeMismatch") /\ UNCHANGED <<env, store, kont, winders, out>>
                   ELSE LET xs == SeqOf(as[3]) IN
                        IF xs = << >> THEN /\ ctrl' = as[2] /\ mode' = "ret" /\ UNCHANGED <<env, store, kont, winders, out>>
                        ELSE /\ ctrl' = [fn |-> as[1], args |-> <<Head(xs), as[2]>>]
                             /\ kont' = Push([f |-> "foldk", fn |-> as[1], todo |-> Tail(xs)])
                             /\ UNCHANGED <<env, store, mode, winders, out>>
              [] OTHER -> /\ Raise("Generic") /\ UNCHANGED <<env, store, kont, winders, out>>
       [] OTHER -> /\ Raise("BadSyntax") /\ UNCHANGED <<env, store, kont, winders, out>>   \* D7
  /\ UNCHANGED genv

-----------------------------------------------------------------------------
(* Raise: unwind to the nearest handler; after-thunks run on the way (D8) *)
RaiseStep ==
  /\ phase = "run" /\ fi > 0 /\ mode = "raise" /\ kont # << >>
  /\ LET fr == Head(kont)
         rest == Tail(kont) IN
     CASE fr.f = "handler" ->   \* handler runs in the context of the with-handler form
            /\ ctrl' = [fn |-> fr.h, args |-> <<ctrl>>] /\ mode' = "apply" /\ kont' = rest
            /\ winders' = fr.w
       [] fr.f = "wind" ->
            /\ winders' = Tail(winders)
            /\ ctrl' = [fn |-> fr.a, args |-> << >>] /\ mode' = "apply"
            /\ kont' = <<[f |-> "reraise", v |-> ctrl]>> \o rest
       [] fr.f = "jump" ->   \* an error inside a wind thunk of a jump abandons the jump and unwinds from the
                             \* dynamic-wind call whose thunk it was (rest = that call's continuation)
            /\ kont' = rest /\ UNCHANGED <<ctrl, mode, winders>>
       [] OTHER -> /\ kont' = rest /\ UNCHANGED <<ctrl, mode, winders>>
  /\ UNCHANGED <<env, store, genv, out>>

-----------------------------------------------------------------------------
Machine == (EvalStep \/ RetStep \/ ApplyStep \/ RaiseStep)
           /\ fuel > 0 /\ fuel' = fuel - 1
           /\ UNCHANGED <<phase, bstack, nodes, units, ui, fi, outcome, lastval>>

Sequencing == (StartUnit \/ FormDone \/ UnitError)

\* out of fuel, integers left the modelled range, or the program read a variable before its
\* definition was evaluated (undefined in R7RS; Steel hoists/constant-propagates): discarded
Discardable == \/ fuel = 0
               \/ (mode = "ret" /\ BigInt(ctrl))
               \/ (mode = "raise" /\ ctrl.kind = "Unassigned")

Discard == /\ phase = "run" /\ fi > 0
           /\ Discardable
           /\ phase' = "discard"
           /\ UNCHANGED <<bstack, nodes, units, ui, fi, mode, ctrl, env, store, kont, winders, genv, out,
                          outcome, lastval, fuel>>

NextBuild == BuildStep \/ BuildDone
NextRun == IF phase = "run" /\ fi > 0 /\ Discardable
           THEN Discard ELSE (Machine \/ Sequencing)
Next == NextBuild \/ NextRun
Spec == InitBuild /\ [][Next]_vars

-----------------------------------------------------------------------------
(* Properties of the reference machine itself (checked by TLC in every state) *)
TypeOK == /\ phase \in {"build", "run", "done", "discard"}
          /\ mode \in {"eval", "ret", "apply", "raise"}
          /\ ui \in 0..Len(units) /\ fuel \in 0..FUEL
          /\ Len(out) = ui /\ Len(outcome) = ui /\ Len(lastval) = ui
\* every location mentioned by the environment exists
EnvOK == \A n \in DOMAIN env : env[n] <= Len(store)
\* at unit boundaries no continuation, no winders
BoundaryOK == (fi = 0 /\ phase # "build") => (kont = << >> /\ winders = << >>)

\* The case line: units with source text and expected observable.
CaseOf == [units |-> [i \in 1..Len(units) |->
                        [src |-> RUnit(units[i]), class |-> outcome[i], emit |-> out[i], val |-> lastval[i]]],
           steps |-> FUEL - fuel]
Emit == (phase = "done") => PrintT(<<"REPLAY", ToJson(CaseOf)>>)
=============================================================================
