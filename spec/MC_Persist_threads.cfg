\* values travelling between the two threads in both directions, updated on either side (drives the biased
\* reference count through owner / merged / unique states)
SPECIFICATION Spec
CONSTANTS
  FAMS = {"alias"}
  TYPES = {"hash", "hset", "ivec", "list", "str"}
  DEPTH = 4
  KINDS0 = {"L", "M", "G", "WL", "WM", "WE"}
  KINDS1 = {"L", "M", "G", "WL", "WM", "WE"}
  KINDSR = {"L", "M", "G", "WL", "WM", "WE"}
  KEEP1 = 300
  KEEP2 = 30
  KEEPR = 10
  SEED = 1
  VIAS = {"d", "f"}
  ACTS = {"share", "upd", "upd2"}
  MAXBASE = 1
  MAXLEN = 6
  BASESET = "small"
  LOOPN = {}
  LOOPEVERY = {}
  LOOPSTYLES = {}
  SWEEPSHAPES = {}
INVARIANTS TypeOK FunctionOK Emit
PROPERTIES Immutable
CHECK_DEADLOCK FALSE
