\* long histories over two base values, every action and holder kind, seeded sparse sub-tree
SPECIFICATION Spec
CONSTANTS
  FAMS = {"alias"}
  TYPES = {"hash", "hset", "ivec", "list", "str"}
  DEPTH = 5
  KINDS0 = {"G", "P", "L", "M", "B", "C", "EL", "EP", "EV", "EI", "EH", "EK", "ES", "EM", "S", "PR", "RA", "K", "WL", "WM", "WE"}
  KINDS1 = {"G", "L", "M", "B", "C", "EL", "EP", "EV", "EI", "EH", "EK", "ES", "EM", "S", "PR", "RA", "K", "WL", "WM", "WE"}
  KINDSR = {"G", "L", "M", "B", "C", "EL", "EP", "EV", "EI", "EH", "EK", "ES", "EM", "S", "PR", "RA", "K", "WL", "WM", "WE"}
  KEEP1 = 30
  KEEP2 = 3
  KEEPR = 1
  SEED = 1
  VIAS = {"d", "f", "g", "a", "m", "k"}
  ACTS = {"base", "share", "upd", "upd2", "reobs"}
  MAXBASE = 2
  MAXLEN = 6
  BASESET = "small"
  LOOPN = {}
  LOOPEVERY = {}
  LOOPSTYLES = {}
  SWEEPSHAPES = {}
INVARIANTS TypeOK FunctionOK Emit
PROPERTIES Immutable
CHECK_DEADLOCK FALSE
