------------------------------ MODULE Globals ------------------------------
(***************************************************************************)
(* The global namespace of one engine across an evaluation history (C06,   *)
(* and the history half of C07).                                           *)
(*                                                                         *)
(*   compiler/map.rs      SymbolMap { values, map, free_list }  add / roll_back*)
(*   steel_vm/engine.rs   raw_program_to_executable (rollback on build     *)
(*                        error), gc_shadowed_roots                        *)
(*   values/closed.rs     GlobalSlotRecycler::recycle / visit_closure      *)
(*                                                                         *)
(* A global is referenced by compiled code through its SLOT INDEX.  A later*)
(* `define` of the same name takes a new slot (the old one is "shadowed"), *)
(* and shadowed slots that no code references are recycled for later       *)
(* definitions.  The property: every reference in a function that can still*)
(* be called keeps denoting the BINDING it was compiled against.           *)
(*                                                                         *)
(* Ghost: every define creates a fresh binding id (bid); `ideal[bid]` is   *)
(* the ideal store.  A compiled reference records (slot, bid).  C06 holds  *)
(* iff for every reference of every callable function slotBid[slot] = bid. *)
(*                                                                         *)
(* Named deviations of the code, switched by Defects:                      *)
(*   "no_set_scan"       visit_closure does not scan OpCode::SET            *)
(*   "no_transitive"     a shadowed slot found referenced is kept, but its *)
(*                       own value is never visited, so what only IT       *)
(*                       references is recycled                            *)
(*   "no_host_roots"     closures held only by the embedder are not roots  *)
(*   "rollback_drops"    a failed unit that redefined a name removes the   *)
(*                       name altogether (earlier binding lost)            *)
(***************************************************************************)
EXTENDS Naturals, Integers, Sequences, FiniteSets, TLC, Json

CONSTANTS ValNames,     \* names bound to integers, e.g. {"v", "w"}
          FnNames,      \* names bound to functions, e.g. {"f", "g"}
          MaxSteps, Defects

Names == ValNames \cup FnNames
RefKinds == {"read", "set", "call"}

VARIABLES slotBid,    \* slot -> bid currently stored there (0 = void / recycled)
          slotName,   \* slot -> name (SymbolMap.values)
          map,        \* name -> slot (0 = unbound)
          shadowed,   \* set of slots
          free,       \* set of slots available for reuse
          ideal,      \* bid -> value: [k |-> "int", v] | [k |-> "fn", tag, refs]
          hostHeld,   \* set of bids (functions) the embedder keeps
          steps,      \* number of history steps so far
          blame,      \* ghost: which named defects made a recycle free a slot the repaired recycler keeps
          hist        \* the history, rendered for the replayer
vars == <<slotBid, slotName, map, shadowed, free, ideal, hostHeld, steps, blame, hist>>

NSlots == Len(slotBid)
NBids == Len(ideal)

Init == /\ slotBid = << >> /\ slotName = << >> /\ map = [n \in Names |-> 0]
        /\ shadowed = {} /\ free = {} /\ ideal = << >> /\ hostHeld = {}
        /\ steps = 0 /\ blame = {} /\ hist = << >>

-----------------------------------------------------------------------------
(* SymbolMap::add: take a free slot if there is one (any: the order of the free list is an
   artefact of HashSet iteration), else append; the previous slot of the name is shadowed. *)
AddName(n, bid, s) ==
  /\ IF s <= NSlots
       THEN /\ slotBid' = [slotBid EXCEPT ![s] = bid] /\ slotName' = [slotName EXCEPT ![s] = n]
       ELSE /\ slotBid' = Append(slotBid, bid) /\ slotName' = Append(slotName, n)
  /\ map' = [map EXCEPT ![n] = s]
  /\ shadowed' = (IF map[n] # 0 THEN shadowed \cup {map[n]} ELSE shadowed)
  /\ free' = free \ {s}
SlotChoices == IF free = {} THEN {NSlots + 1} ELSE free

Step(h) == /\ steps' = steps + 1 /\ hist' = Append(hist, h)

\* (define v N): the value is a number unique to the step, so observations identify bindings
DefineVal(n) ==
  /\ n \in ValNames
  /\ \E s \in SlotChoices :
       /\ AddName(n, NBids + 1, s)
       /\ ideal' = Append(ideal, [k |-> "int", v |-> 10 * (steps + 1)])
       /\ Step([op |-> "defval", n |-> n, v |-> 10 * (steps + 1)])
  /\ UNCHANGED <<hostHeld, blame>>

\* (define (f) (list 'tag <refs>)): a reference is resolved NOW to the slot and binding in force.
\* The function's own (hoisted) slot is added first, as the compiler does.
RefSet == {r \in [kind : RefKinds, n : Names] :
             /\ (r.kind \in {"read", "set"} => r.n \in ValNames)
             /\ (r.kind = "call" => r.n \in FnNames)}
DefineFn(n) ==
  /\ n \in FnNames
  /\ \E s \in SlotChoices, r1 \in RefSet, two \in BOOLEAN, r2 \in RefSet :
       LET want == IF two THEN <<r1, r2>> ELSE <<r1>>
           ok == \A i \in 1..Len(want) : map[want[i].n] # 0 /\ want[i].n # n
           refs == [i \in 1..Len(want) |->
                      [kind |-> want[i].kind, n |-> want[i].n, slot |-> map[want[i].n],
                       bid |-> slotBid[map[want[i].n]]]] IN
       /\ ok
       /\ (two => (r1.kind # r2.kind \/ r1.n # r2.n))
       /\ AddName(n, NBids + 1, s)
       /\ ideal' = Append(ideal, [k |-> "fn", tag |-> steps + 1, refs |-> refs])
       /\ Step([op |-> "deffn", n |-> n, tag |-> steps + 1,
                refs |-> [i \in 1..Len(refs) |-> [kind |-> refs[i].kind, n |-> refs[i].n]]])
  /\ UNCHANGED <<hostHeld, blame>>

\* (set! v N) at top level: assigns the current binding
SetTop(n) ==
  /\ n \in ValNames /\ map[n] # 0
  /\ ideal' = [ideal EXCEPT ![slotBid[map[n]]] = [k |-> "int", v |-> 10 * (steps + 1) + 1]]
  /\ Step([op |-> "set", n |-> n, v |-> 10 * (steps + 1) + 1])
  /\ UNCHANGED <<slotBid, slotName, map, shadowed, free, hostHeld, blame>>

\* the embedder extracts a function value and keeps it (Engine::extract_value)
HostHold(n) ==
  /\ n \in FnNames /\ map[n] # 0 /\ slotBid[map[n]] \notin hostHeld
  /\ hostHeld' = hostHeld \cup {slotBid[map[n]]}
  /\ Step([op |-> "hold", n |-> n, bid |-> slotBid[map[n]]])
  /\ UNCHANGED <<slotBid, slotName, map, shadowed, free, ideal, blame>>

-----------------------------------------------------------------------------
(* GlobalSlotRecycler::recycle, parametrised by the set D of defects in force *)
ScannedKinds(D) == IF "no_set_scan" \in D THEN {"read", "call"} ELSE RefKinds

\* slots a function value references through scanned instructions
RefSlots(bid, D) ==
  IF bid # 0 /\ ideal[bid].k = "fn"
    THEN {ideal[bid].refs[i].slot : i \in {j \in 1..Len(ideal[bid].refs) : ideal[bid].refs[j].kind \in ScannedKinds(D)}}
    ELSE {}

\* Roots visited: values of all non-candidate slots (+ host-held closures in the repaired design).
\* "Visiting" a closure removes the slots it references from the candidate set.  In the repaired
\* design a candidate that is found referenced has its own value visited too (fixpoint); the code
\* never visits it ("no_transitive").
RECURSIVE Survivors(_, _, _)
Survivors(cands, visited, D) ==      \* = the candidates that end up recycled
  LET hit == UNION {RefSlots(slotBid[s], D) : s \in visited} \cup
             (IF "no_host_roots" \in D THEN {} ELSE UNION {RefSlots(b, D) : b \in hostHeld})
      newly == (hit \cap cands) IN
  IF newly = {} THEN cands
  ELSE IF "no_transitive" \in D THEN cands \ newly
  ELSE Survivors(cands \ newly, visited \cup newly, D)

Recycle ==
  /\ shadowed # {}
  /\ LET cands == shadowed
         rootSlots == {s \in 1..NSlots : s \notin cands /\ slotBid[s] # 0}
         dead == Survivors(cands, rootSlots, Defects)
         \* a defect is to blame when removing it alone would have kept a slot that was freed
         why == {d \in Defects : Survivors(cands, rootSlots, Defects \ {d}) # dead} IN
     /\ slotBid' = [s \in 1..NSlots |-> IF s \in dead THEN 0 ELSE slotBid[s]]
     /\ free' = free \cup dead
     /\ shadowed' = {}
     /\ blame' = blame \cup why
  /\ Step([op |-> "recycle"])
  /\ UNCHANGED <<slotName, map, ideal, hostHeld>>

-----------------------------------------------------------------------------
(* A unit that (re)defines n and then fails in `build` (free identifier): the defines were
   added first; raw_program_to_executable rolls the symbol map back to its previous LENGTH. *)
FailedUnit(n) ==
  /\ n \in ValNames
  /\ \E s \in SlotChoices :
       LET offset == NSlots IN
       IF "rollback_drops" \in Defects
         THEN \* as the code: drain values[offset..] and REMOVE those names from the map
              IF s > offset
                THEN /\ map' = [map EXCEPT ![n] = 0]
                     /\ shadowed' = (IF map[n] # 0 THEN shadowed \cup {map[n]} ELSE shadowed)
                     /\ UNCHANGED <<slotBid, slotName, free>>
                ELSE \* the define took a recycled slot below the offset: nothing is drained; the
                     \* name now points at a slot that was never assigned
                     /\ slotName' = [slotName EXCEPT ![s] = n]
                     /\ map' = [map EXCEPT ![n] = s]
                     /\ shadowed' = (IF map[n] # 0 THEN shadowed \cup {map[n]} ELSE shadowed)
                     /\ free' = free \ {s}
                     /\ UNCHANGED slotBid
         ELSE UNCHANGED <<slotBid, slotName, map, shadowed, free>>     \* repaired: no trace
  /\ Step([op |-> "fail", n |-> n])
  /\ blame' = (IF "rollback_drops" \in Defects /\ map[n] # 0 THEN blame \cup {"rollback_drops"} ELSE blame)
  /\ UNCHANGED <<ideal, hostHeld>>

\* a name bound to a never-assigned slot (only reachable through the rollback defect): the
\* history has left what the ideal semantics can follow; it ends here and is probed
Consistent == \A n \in Names : map[n] # 0 => slotBid[map[n]] # 0
Next == /\ steps < MaxSteps /\ Consistent
        /\ \/ \E n \in Names : DefineVal(n) \/ DefineFn(n) \/ SetTop(n) \/ HostHold(n) \/ FailedUnit(n)
           \/ Recycle
Spec == Init /\ [][Next]_vars

-----------------------------------------------------------------------------------------------------------------------------------------------------
(* Callable functions: bound to a name now, held by the host, or reachable through call
   references (ideal bindings, not slots) from a callable function. *)
RefsOf(b) == IF ideal[b].k = "fn" THEN {ideal[b].refs[i] : i \in 1..Len(ideal[b].refs)} ELSE {}
RECURSIVE CallClosure(_)
CallClosure(bs) ==
  LET nxt == bs \cup {r.bid : r \in {x \in UNION {RefsOf(b) : b \in bs} : x.kind = "call"}} IN
  IF nxt = bs THEN bs ELSE CallClosure(nxt)
BoundFns == {n \in FnNames : map[n] # 0 /\ slotBid[map[n]] # 0}
Live == CallClosure({slotBid[map[n]] : n \in BoundFns} \cup hostHeld)

\* C06: every reference of every callable function still denotes its binding
C06 == \A b \in Live : \A r \in RefsOf(b) : slotBid[r.slot] = r.bid
\* C07 (history part): a failed evaluation leaves earlier definitions resolvable:
\* every name that was ever successfully defined is bound, and to an assigned slot
EverDefined == {hist[i].n : i \in {j \in 1..Len(hist) : hist[j].op \in {"defval", "deffn"}}}
C07h == \A n \in EverDefined : map[n] # 0 /\ slotBid[map[n]] # 0

-----------------------------------------------------------------------------
(* Expected observation of the final probe under IDEAL semantics: every callable function is
   called once (bound names in a fixed order, then host-held values) and the printed result is
   observed; then every value name.  A call evaluates its references in order; a `set`
   reference assigns 1000 + tag to the binding it was compiled against. *)
RECURSIVE EvalFn(_, _, _), EvalRefs(_, _, _, _, _)
EvalRefs(b, st, i, acc, fuelv) ==
  IF i > Len(st[b].refs) THEN [out |-> acc, st |-> st]
  ELSE LET r == st[b].refs[i] IN
       CASE r.kind = "read" -> EvalRefs(b, st, i + 1, acc \o " " \o ToString(st[r.bid].v), fuelv)
         [] r.kind = "set" -> EvalRefs(b, [st EXCEPT ![r.bid] = [k |-> "int", v |-> 1000 + st[b].tag]], i + 1,
                                       acc \o " s", fuelv)
         [] r.kind = "call" -> LET sub == EvalFn(r.bid, st, fuelv - 1) IN
                               EvalRefs(b, sub.st, i + 1, acc \o " " \o sub.out, fuelv)
EvalFn(b, st, fuelv) ==
  IF fuelv = 0 THEN [out |-> "?", st |-> st]
  ELSE LET res == EvalRefs(b, st, 1, "(t" \o ToString(st[b].tag), fuelv) IN
       [out |-> res.out \o ")", st |-> res.st]

SortedSeq(S) == LET RECURSIVE Srt(_)
                    Srt(T) == IF T = {} THEN << >>
                              ELSE LET m == CHOOSE x \in T : \A y \in T : x <= y IN <<m>> \o Srt(T \ {m})
                IN Srt(S)
FnOrder == <<"f", "g", "h">>
ValOrder == <<"v", "w">>
\* the probe list: [kind, name/bid]
Probes == [i \in 1..Len(SelectSeq(FnOrder, LAMBDA n : n \in BoundFns)) |->
             [kind |-> "callname", n |-> SelectSeq(FnOrder, LAMBDA n : n \in BoundFns)[i],
              bid |-> slotBid[map[SelectSeq(FnOrder, LAMBDA n : n \in BoundFns)[i]]]]]
          \o [i \in 1..Cardinality(hostHeld) |-> [kind |-> "callheld", n |-> "", bid |-> SortedSeq(hostHeld)[i]]]
RECURSIVE RunProbes(_, _, _)
RunProbes(ps, st, acc) ==
  IF ps = << >> THEN [outs |-> acc, st |-> st]
  ELSE LET r == EvalFn(Head(ps).bid, st, 6) IN RunProbes(Tail(ps), r.st, Append(acc, r.out))
ProbeResult == RunProbes(Probes, ideal, << >>)
ValProbes == SelectSeq(ValOrder, LAMBDA n : n \in ValNames /\ n \in EverDefined)
\* ideal value of a value name = value of the binding created by its LAST successful define
LastDefBid(n) == LET idx == {j \in 1..Len(hist) : hist[j].op = "defval" /\ hist[j].n = n}
                     last == CHOOSE j \in idx : \A m \in idx : m <= j IN
                 \* the k-th define step overall created bid k' = number of define steps up to it
                 Cardinality({m \in 1..last : hist[m].op \in {"defval", "deffn"}})
CaseOf == [hist |-> hist,
           probes |-> [i \in 1..Len(Probes) |-> [kind |-> Probes[i].kind, n |-> Probes[i].n, bid |-> Probes[i].bid]],
           expect |-> ProbeResult.outs,
           vals |-> [i \in 1..Len(ValProbes) |-> [n |-> ValProbes[i], v |-> ProbeResult.st[LastDefBid(ValProbes[i])].v]],
           c06 |-> C06, c07 |-> C07h, blame |-> blame]
\* counterexample-producing forms: the violating state prints its case line
CexC06 == C06 \/ ~PrintT(<<"REPLAY", ToJson(CaseOf)>>)
CexC07h == C07h \/ ~PrintT(<<"REPLAY", ToJson(CaseOf)>>)
Emit == (steps = MaxSteps \/ ~Consistent) => PrintT(<<"REPLAY", ToJson(CaseOf)>>)
=============================================================================
