SPECIFICATION Spec
CONSTANTS
  ValNames = {"v"}
  FnNames = {"f", "g"}
  MaxSteps = 5
  Defects = {"no_host_roots"}
INVARIANTS Emit
CHECK_DEADLOCK FALSE
