------------------------------ MODULE Trace_Vm ------------------------------
(***************************************************************************)
(* Trace validation for Vm.tla: an event trace recorded at the head of the *)
(* real dispatch loop (hook steel::verif::install_vm, cfg(steel_verif);    *)
(* recorder verif_harness::vmrec, STEEL_JIT=false) is replayed through the *)
(* actions of Vm.tla.  Every event carries the full scalar projection of   *)
(* the interpreter's state                                                 *)
(*    d  depth   op/pl  instruction at ip and its payload   n1p n2p  the   *)
(*    payloads of the next two slots   ip  c (code identity)  sl = |stack| *)
(*    fl = |frames|  sp  pc = pop_count   a = continuation mark (capture / *)
(*    invoke)                                                              *)
(* so the parameters of every action are bound to logged fields and the    *)
(* successor state must EQUAL the next event (Match'): the search is       *)
(* linear in the trace.  What the specification adds to the log is the     *)
(* frame stack itself (bases and return addresses of every frame, derived  *)
(* from the call instruction that pushed it), the continuation snapshots   *)
(* and the suspended instalments; a return must go to the address and      *)
(* stack height the specification remembered, a continuation must restore  *)
(* the snapshot it took, an unwinding must stop at the frame that carries  *)
(* the handler.                                                            *)
(*                                                                         *)
(* One instruction is "in flight" (cur) between its step event and the     *)
(* next state-bearing event, whose kind says how it ended: another step    *)
(* (completed; by instruction class), enter at a deeper level (a builtin   *)
(* re-entered the interpreter), capture / hframe (call/cc and              *)
(* call-with-exception-handler pushed their frame), invoke (a continuation *)
(* replaced the state), exit_ok (the instalment returned), exit_err (the   *)
(* instruction raised).                                                    *)
(*                                                                         *)
(* Every action consumes exactly one event (an unhandled error is Raise and *)
(* UnwindAll in one step), so a trace is accepted iff the diameter of the   *)
(* state graph is its length.                                               *)
(*                                                                         *)
(* Instructions of classes the specification does not model yet are        *)
(* RESYNCHRONISED (the scalar state is taken from the next event, frames   *)
(* are cut or padded) and counted under the tag "unmodelled"; the check    *)
(* reports the count, it is not a verdict.                                 *)
(***************************************************************************)
EXTENDS Vm, Json, IOUtils

Rec == ndJsonDeserialize(IOEnv.TRACE)
N == Len(Rec)

VARIABLES l,      \* next event
          cur,    \* the step event of the instruction in flight, or NoInstr
          pend,   \* in-flight instructions of the outer instalments (builtins that re-entered the VM)
          cc,     \* a capture event waiting for the first instruction of the receiver, or NoInstr
          skip,   \* the recorder truncated this case: events are ignored up to the next case
          bad,    \* verdict flags: set of <<tag, event index>>
          unm     \* number of resynchronisations (unmodelled instructions)
tvars == <<l, cur, pend, cc, skip, bad, unm>>
allvars == <<vars, tvars>>

NoInstr == [k |-> "none"]
E == Rec[l]
Is(kinds) == l <= N /\ ~skip /\ E.k \in kinds
Adv == l' = l + 1
Flag(tag) == bad' = bad \cup {<<tag, l>>}

\* the model state equals the logged projection
MatchNow(x) == /\ SLen = x.sl /\ Len(fr) = x.fl /\ Top = x.sp /\ ip = x.ip /\ code = x.c /\ pc = x.pc
               /\ Len(inst) = x.d
MatchNext(x) == /\ Len(stk') = x.sl /\ Len(fr') = x.fl /\ ip' = x.ip /\ code' = x.c /\ pc' = x.pc
                /\ Len(inst') = x.d
                /\ (IF fr' = << >> THEN 0 ELSE fr'[Len(fr')].sp) = x.sp

ResetVm == /\ stk' = << >> /\ fr' = << >> /\ ip' = 0 /\ code' = 0 /\ pc' = 1 /\ inst' = << >>
           /\ marks' = << >> /\ phase' = "exited" /\ fresh' = 1 /\ saved' = << >>
           /\ last' = "Reset" /\ iid' = <<0, 1, 0>>

TInit == /\ Init /\ l = 1 /\ cur = NoInstr /\ pend = << >> /\ cc = NoInstr /\ skip = FALSE /\ bad = {} /\ unm = 0

-----------------------------------------------------------------------------
(* bookkeeping events *)

\* a new case (fresh evaluation on the shared engine): forget everything
CaseEv == /\ l <= N /\ E.k = "case" /\ Adv /\ ResetVm
          /\ cur' = NoInstr /\ pend' = << >> /\ cc' = NoInstr /\ skip' = FALSE /\ UNCHANGED <<bad, unm>>
\* the next top-level unit of the same case: the engine must be idle; continuations stay valid
UnitEv == /\ Is({"unit"}) /\ Adv
          /\ phase \in {"exited", "failed"} /\ inst = << >>
          /\ cur' = NoInstr /\ cc' = NoInstr /\ UNCHANGED <<vars, pend, skip, bad, unm>>
TruncEv == /\ Is({"trunc"}) /\ Adv /\ skip' = TRUE /\ UNCHANGED <<vars, cur, pend, cc, bad, unm>>
Skipped == /\ l <= N /\ skip /\ E.k # "case" /\ Adv /\ UNCHANGED <<vars, cur, pend, cc, skip, bad, unm>>

------------------------------------------------------------------------\* the instruction in flight is `cur`, the state after it is the step event E
Op == cur.op
NA == NArgs(cur.op, cur.pl, cur.n1p, cur.n2p)
\* (after an apply event the callee value and the operands of `apply` itself are gone already)
Extra == IF cur.k = "applied" THEN 0 ELSE CalleePops(cur.op)


-----
(* enter: vm() starts or restarts *)

\* top-level code of a unit (depth 0) starts on an idle engine: nothing of an earlier evaluation may be
\* left on the stacks (C07)
EnterTop ==
  /\ Is({"enter"}) /\ E.d = 0 /\ phase \in {"exited", "failed"} /\ inst = << >> /\ Adv
  /\ IF E.sl # 0 \/ E.fl # 0 THEN Flag("C07-residue-on-the-stacks-of-an-idle-engine") ELSE UNCHANGED bad
  /\ stk' = [i \in 1..E.sl |-> 0] /\ fr' = [i \in 1..E.fl |-> Frame(0, 0, 0, FALSE, 0)]
  /\ saved' = [i \in 1..E.fl |-> << >>]
  /\ ip' = E.ip /\ code' = E.c /\ pc' = E.pc /\ phase' = "run" /\ last' = "EnterTop"
  /\ cur' = NoInstr /\ UNCHANGED <<inst, marks, fresh, iid, pend, cc, skip, unm>>
\* vm() is called again by the unwinder after it installed a handler (same depth): no change
EnterAgain ==
  /\ Is({"enter"}) /\ phase = "run" /\ E.d = Len(inst) /\ cur = NoInstr /\ MatchNow(E) /\ Adv
  /\ UNCHANGED <<vars, cur, pend, cc, skip, bad, unm>>
\* a Rust caller re-enters the interpreter for a closure: a builtin of the instruction in flight, or
\* the host on an idle engine (call_function)
EnterDeeper ==
  /\ Is({"enter"}) /\ E.d = Len(inst) + 1 /\ Adv
  /\ phase \in {"run", "exited", "failed"}
  /\ phase' = "run"
  \* two calling conventions of builtins: the operands stay on the stack during the call (they are removed
  \* when it returns), or they were drained before the builtin ran (call_builtin_func) - then the stack is
  \* lower by exactly the operands of the instruction in flight that were still there
  /\ LET isCall == cur # NoInstr /\ Op \in (CallOps \cup TailCallOps) \ FusedRead
         used   == IF cur = NoInstr THEN 0 ELSE cur.a
         avail  == IF isCall THEN NA + Extra - used ELSE 0
         keep   == Min2(SLen, E.sp) IN
       /\ SLen - keep \in {0, avail} /\ keep >= Top /\ E.sl >= keep
       /\ stk' = Prefix(stk, keep) \o [i \in 1..(E.sl - keep) |-> 0]
       /\ pend' = Append(pend, IF cur = NoInstr THEN cur ELSE [cur EXCEPT !.a = used + (SLen - keep)])
  /\ inst' = Append(inst, [ip |-> ip, code |-> code, pc |-> pc, base |-> Len(fr), iid |-> iid[1], cbase |-> iid[3]])
  /\ iid' = <<iid[2], iid[2] + 1, Len(fr)>>
  /\ fr' = Append(fr, Frame(E.sp, ip, code, FALSE, 0)) /\ saved' = Append(saved, << >>)
  /\ ip' = E.ip /\ code' = E.c /\ pc' = E.pc /\ last' = "EnterNested"
  /\ MatchNext(E)
  /\ cur' = NoInstr
  /\ UNCHANGED <<marks, fresh, cc, skip, bad, unm>>

-----------------------------------------------------------------------------
(* step: the head of the dispatch loop *)

\* first instruction after enter / handler / invoke / leave-of-host-call: the model is at that state
StepFirst ==
  /\ Is({"step"}) /\ cur = NoInstr /\ cc = NoInstr /\ phase = "run" /\ MatchNow(E) /\ Adv
  /\ cur' = E /\ UNCHANGED <<vars, pend, cc, skip, bad, unm>>

\* ... it stayed in its frame
DoneLocal ==
  /\ IsLocal(Op) /\ E.fl = cur.fl /\ E.c = cur.c
  /\ LET ef == LocalEffect(Op, cur.pl, cur.n1p, cur.n2p, cur.ip, Top, SLen) IN
       /\ ef.ok /\ E.ip \in ef.nips
       /\ Local(ef.pop, ef.push, E.ip)
\* ... a call instruction whose callee was a primitive / builtin: arguments (and callee) replaced by the result
DonePrimCall ==
  /\ Op \in CallOps \cup TailCallOps /\ ~(Op \in FusedRead) /\ E.fl = cur.fl /\ E.c = cur.c
  /\ E.ip = AfterCallIp(Op, cur.ip)
  /\ Local(NA + Extra - cur.a, 1, E.ip)      \* (cur.a: operands a re-entering builtin had drained already)
\* ... a call instruction entered a closure
DoneCall ==
  /\ Op \in CallOps /\ ~(Op \in FusedRead) /\ E.fl = cur.fl + 1 /\ E.ip = 0
  /\ CallClosure(Extra, NA, E.sl, RetIp(Op, cur.ip), E.c)
\* ... a tail call entered a closure in the same frame
DoneTailCall ==
  /\ Op \in TailCallOps /\ E.fl = cur.fl /\ E.ip = 0
  /\ TailCallClosure(Extra, NA, E.sl, E.c)
DoneSelfTail ==
  /\ Op \in SelfTailOps /\ E.fl = cur.fl /\ E.ip = 0 /\ E.c = cur.c
  /\ TailCallClosure(0, cur.pl, E.sl, E.c)
\* ... a return
DoneReturn ==
  /\ Op \in ReturnOps /\ E.fl = cur.fl - 1
  /\ Return
\* ... a primitive in tail position returned its result
DoneReturnValue ==
  /\ Op \in TailCallOps /\ E.fl = cur.fl - 1
  /\ ReturnValue(Extra, NA)

Modelled(op) == IsLocal(op) \/ op \in (CallOps \cup TailCallOps \cup SelfTailOps \cup ReturnOps) \ FusedRead

\* an instruction of a class without a rule: the state is taken from the next event
Resync(x) ==
  /\ stk' = [i \in 1..x.sl |-> 0]
  /\ fr' = IF x.fl <= Len(fr) THEN Prefix(fr, x.fl)
           ELSE fr \o [i \in 1..(x.fl - Len(fr)) |-> Frame(x.sp, 0, 0, FALSE, 0)]
  /\ saved' = IF x.fl <= Len(fr) THEN Prefix(saved, x.fl)
              ELSE saved \o [i \in 1..(x.fl - Len(fr)) |-> << >>]
  /\ ip' = x.ip /\ code' = x.c /\ pc' = x.pc /\ last' = "Resync"
  /\ UNCHANGED <<inst, marks, phase, fresh, iid>>

StepDone ==
  /\ Is({"step"}) /\ cur # NoInstr /\ cc = NoInstr /\ phase = "run" /\ E.d = Len(inst) /\ Adv
  /\ IF Modelled(Op)
       THEN /\ (DoneLocal \/ DonePrimCall \/ DoneCall \/ DoneTailCall \/ DoneSelfTail \/ DoneReturn \/ DoneReturnValue)
            /\ MatchNext(E) /\ UNCHANGED unm
       ELSE Resync(E) /\ unm' = unm + 1
  /\ cur' = E /\ UNCHANGED <<pend, cc, skip, bad>>

-----------------------------------------------------------------------------
(* call/cc, continuations, handlers *)

\* call/cc built its continuation: the event shows the state that the continuation will restore
CaptureEv ==
  /\ Is({"capture"}) /\ cur # NoInstr /\ phase = "run" /\ Adv
  /\ cc' = E /\ UNCHANGED <<vars, cur, pend, skip, bad, unm>>
\* ... and entered the receiver: first instruction of the receiver
StepAfterCapture ==
  /\ Is({"step"}) /\ cc # NoInstr /\ phase = "run" /\ Adv
  /\ E.fl = cc.fl + 1 /\ E.ip = 0
  \* the operands of the call (callee, receiver) are gone at the capture event; the receiver's one
  \* local is the continuation
  /\ SLen >= cc.sl
  /\ LET m == cc.a IN
       /\ m >= 1
       /\ marks' = SetMark(m, [st |-> "open", fr |-> fr, stk |-> Prefix(stk, cc.sl), sv |-> saved,
                                         ip |-> cc.ip, code |-> cc.c, pc |-> cc.pc, iid |-> iid[1]])
       /\ fr' = Append(fr, Frame(cc.sl, cc.ip + 1, cc.c, FALSE, m))
  /\ saved' = Append(saved, << >>)
  /\ stk' = Prefix(stk, cc.sl) \o <<0>>
  /\ ip' = 0 /\ code' = E.c /\ pc' = pc + 1 /\ last' = "Capture"
  /\ UNCHANGED <<inst, phase, fresh, iid, pend, skip, bad, unm>>
  /\ MatchNext(E)
  /\ cc' = NoInstr /\ cur' = E

\* a continuation was re-instated: the event shows the restored state (before the passed value is
\* pushed); it must be the state the capture event showed (C08)
InvokeEv ==
  /\ Is({"invoke"}) /\ phase = "run" /\ Adv
  /\ LET m == E.a IN
       IF m \in DOMAIN marks /\ marks[m].st # "none"
       THEN /\ IF /\ E.ip = marks[m].ip /\ E.c = marks[m].code /\ E.sl = Len(marks[m].stk)
                  /\ E.fl = Len(marks[m].fr) /\ E.pc = marks[m].pc
                THEN (IF marks[m].iid = iid[1] THEN UNCHANGED bad ELSE Flag("C08-continuation-invoked-from-another-instalment"))
                ELSE Flag("C08-continuation-restores-a-different-state")
            /\ fr' = marks[m].fr /\ saved' = marks[m].sv
            /\ stk' = [i \in 1..E.sl |-> 0] \o <<0>>
            /\ ip' = E.ip + 1 /\ code' = E.c /\ pc' = E.pc /\ last' = "Invoke"
            /\ UNCHANGED <<inst, marks, phase, fresh, iid>>
       ELSE \* captured before this trace window (an earlier case on the shared engine): resynchronise
            /\ Resync([E EXCEPT !.ip = E.ip + 1, !.sl = E.sl + 1]) /\ UNCHANGED bad
  /\ cur' = NoInstr /\ cc' = NoInstr /\ UNCHANGED <<pend, skip, unm>>

\* the builtin `apply`, called by the instruction in flight, replaced its own operands by the elements
\* of the list (E.a of them) and now calls / tail calls a closure with them: from here on the
\* instruction in flight is a call with E.a operands
ApplyEv ==
  /\ Is({"apply"}) /\ cur # NoInstr /\ cur.k = "step" /\ cc = NoInstr /\ phase = "run" /\ Adv
  /\ Op \in (CallOps \cup TailCallOps) \ FusedRead
  /\ SLen - NA - Extra >= Top
  /\ stk' = Prefix(stk, SLen - NA - Extra) \o [i \in 1..E.a |-> 0]
  /\ Len(stk') = E.sl /\ E.fl = Len(fr)
  /\ cur' = [cur EXCEPT !.k = "applied", !.pl = E.a, !.n1p = E.a, !.n2p = E.a]
  /\ last' = "Apply"
  /\ UNCHANGED <<fr, ip, code, pc, inst, marks, phase, fresh, saved, iid, pend, cc, skip, bad, unm>>

\* call-with-exception-handler pushed the frame of its thunk
HFrameEv ==
  /\ Is({"hframe"}) /\ cur # NoInstr /\ phase = "run" /\ Adv
  /\ E.fl = cur.fl + 1
  \* the builtin's two operands (handler, thunk) and, for a stack callee, the callee are gone
  /\ LET nsl == E.sl IN
       /\ nsl <= SLen /\ nsl >= Top
       /\ stk' = Prefix(stk, nsl)
       /\ fr' = Append(fr, Frame(nsl, RetIp(Op, cur.ip), cur.c, TRUE, 0))
       /\ saved' = Append(saved, << >>)
  /\ ip' = 0 /\ code' = E.c /\ pc' = pc + 1 /\ last' = "HandlerFrame"
  /\ UNCHANGED <<inst, marks, phase, fresh, iid, pend, cc, skip, bad, unm>>
  /\ MatchNext(E)
  /\ cur' = NoInstr

-----------------------------------------------------------------------------
(* the instalment ends *)

ExitOk ==
  /\ Is({"exit_ok"}) /\ phase = "run" /\ Adv
  /\ IF pc = 1 /\ cur # NoInstr /\ (Op \in ReturnOps \cup TailCallOps)
       THEN Finish /\ Len(stk') = E.sl /\ Len(fr') = E.fl /\ pc' = E.pc /\ UNCHANGED <<unm, bad>>
       ELSE \* vm() returned a value in a way the specification has no rule for
            /\ Resync(E) /\ phase' = "exited" /\ unm' = unm + 1 /\ UNCHANGED bad
  /\ cur' = NoInstr /\ cc' = NoInstr /\ UNCHANGED <<pend, skip>>

\* the instruction in flight (or the builtin it called) raised.  When no handler event follows, the
\* unwinder dropped the frames of the instalment; the specification must agree that none of them
\* carried a handler
ExitErr ==
  /\ Is({"exit_err"}) /\ phase = "run" /\ Adv
  \* the failing instruction had consumed SLen - E.sl of its operands
  /\ E.sl <= SLen
  /\ IF l < N /\ Rec[l + 1].k = "handler"
       THEN Raise(SLen - E.sl) /\ UNCHANGED bad
       ELSE IF HandlerIdx = 0 THEN RaiseUnhandled(SLen - E.sl) /\ UNCHANGED bad
            ELSE /\ UnwindAllBody(Prefix(stk, E.sl)) /\ Flag("C08-error-passed-a-frame-that-carries-a-handler")
  /\ cur' = NoInstr /\ cc' = NoInstr /\ UNCHANGED <<pend, skip, unm>>

\* the unwinder found a handler: the event shows the state at the entry of the handler procedure
HandlerEv ==
  /\ Is({"handler"}) /\ phase = "raised" /\ Adv
  /\ IF HandlerIdx # 0
       THEN Unwind(E.c) /\ UNCHANGED unm
            /\ IF Len(stk') = E.sl /\ Len(fr') = E.fl /\ pc' = E.pc /\ fr'[Len(fr')].sp = E.sp
                 THEN UNCHANGED bad ELSE Flag("C08-unwound-to-a-different-frame-than-the-handler's")
       ELSE \* a handler frame the specification did not see being pushed
            /\ Resync(E) /\ phase' = "run" /\ unm' = unm + 1 /\ UNCHANGED bad
  /\ cur' = NoInstr /\ UNCHANGED <<pend, cc, skip>>

\* the nested instalment hands control back to its Rust caller, whose registers are restored: a builtin
\* of the instruction in flight (which continues), or the host on an idle engine (idle again)
LeaveEv ==
  /\ Is({"leave"}) /\ phase \in {"exited", "failed"} /\ inst # << >> /\ pend # << >> /\ Adv
  /\ LET host == pend[Len(pend)] = NoInstr
         \* the caller was another interpreter object than the one whose instruction is in flight (the
         \* builtin `eval` runs a whole evaluation on a fresh one): not modelled, the case is left here
         foreign == ~host /\ E.c # inst[Len(inst)].code IN
       /\ LeaveTo(IF host /\ Len(inst) = 1 THEN "exited" ELSE "run")
       /\ IF \/ (host /\ Len(stk') = E.sl /\ Len(fr') = E.fl)
             \* (a builtin called through call_builtin_func runs with ip already advanced past its call)
             \/ (Len(stk') = E.sl /\ Len(fr') = E.fl /\ code' = E.c /\ pc' = E.pc
                 /\ E.ip \in {ip', AfterCallIp(pend[Len(pend)].op, ip')})
             \/ foreign
            THEN UNCHANGED bad ELSE Flag("C08-caller-state-not-restored-after-a-nested-call")
       /\ skip' = foreign /\ unm' = IF foreign THEN unm + 1 ELSE unm
  /\ cur' = pend[Len(pend)] /\ pend' = Front(pend)
  /\ UNCHANGED <<cc>>

\* a fresh interpreter object starts at depth 0 while an instruction of this one is in flight (`eval`,
\* a builtin that runs a nested evaluation): not modelled, the case is left here
EnterForeign ==
  /\ Is({"enter"}) /\ phase = "run" /\ cur # NoInstr /\ E.d <= Len(inst) /\ Adv
  /\ skip' = TRUE /\ unm' = unm + 1 /\ UNCHANGED <<vars, cur, pend, cc, bad>>

-----------------------------------------------------------------------------
TNext == CaseEv \/ UnitEv \/ TruncEv \/ Skipped \/ EnterTop \/ EnterAgain \/ EnterDeeper \/ EnterForeign
         \/ StepFirst \/ StepDone \/ ApplyEv \/ CaptureEv \/ StepAfterCapture \/ InvokeEv \/ HFrameEv
         \/ ExitOk \/ ExitErr \/ HandlerEv \/ LeaveEv
TSpec == TInit /\ [][TNext]_allvars

\* Vm.tla's invariants on the reconstructed state
TFramesOk == FramesOk
TOuterFramesKept == OuterFramesKept
NoFlags == bad = {}

\* the whole trace must be consumed: one state per event plus the initial state
Accepted == \/ TLCGet("stats").diameter - 1 = N
            \/ PrintT(<<"TRACE-REJECTED at event", TLCGet("stats").diameter,
                        IF TLCGet("stats").diameter <= N THEN Rec[TLCGet("stats").diameter] ELSE "end",
                        "previous", IF TLCGet("stats").diameter > 1 THEN Rec[TLCGet("stats").diameter - 1] ELSE "none">>) = FALSE
Report == l = N + 1 => PrintT(<<"TRACE-DONE", [events |-> N, unmodelled |-> unm, flags |-> bad]>>)
=============================================================================
