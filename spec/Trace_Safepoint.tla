--------------------------- MODULE Trace_Safepoint ---------------------------
(***************************************************************************)
(* Trace validation for Safepoint.tla (C15, C17): a trace recorded from    *)
(* the real VM (harness/src/bin/vmtrace.rs, hooks behind cfg(steel_verif)) *)
(* is replayed event by event; every event is the Safepoint.tla action of  *)
(* the same name restricted to the variables the hooks log (ctx, paused,   *)
(* st, scanning, pendingIrq).  Events are logged under the verification    *)
(* lock that also covers the access they announce, so the order of the     *)
(* trace is the order of the accesses.  The invariants are those of        *)
(* Safepoint.tla, evaluated after every event.                             *)
(*                                                                         *)
(*   th  = thread performing the access     tgt = thread whose state it is *)
(*   b   = previous ThreadState of tgt for CTRL_* events                   *)
(*         (0 Running, 1 Interrupted, 2 Suspended, 3 PausedAtSafepoint)    *)
(***************************************************************************)
EXTENDS Naturals, Sequences, FiniteSets, TLC, Json, IOUtils

Rec == ndJsonDeserialize(IOEnv.TRACE)
Events == SelectSeq(Rec, LAMBDA r : "ev" \in DOMAIN r)
N == Len(Events)
Thread == {Events[i].th : i \in 1..N} \cup {Events[i].tgt : i \in 1..N}
None == "none"

VARIABLES l,          \* next event
          ctx, paused, st, scanning, envw, pendingIrq, exited,
          startedT, registeredT,   \* spawned threads that run / that are on the thread list
          asked,      \* asked[t]: threads with an outstanding stop request on t
          snap,       \* snap[th]: the threads that were on the list when th began its current round of stop requests
          served,     \* served[th]: in th's current stop-the-world operation, req = the threads th asked to stop,
                      \*             got = the threads whose stack th scanned / whose global table th rewrote
                      \*             (th and its targets are threads of ONE engine: the macro expander's engine, which runs
                      \*             on the same OS thread, stops only itself)
          bad         \* ghost verdicts: set of <<tag, event index>>
vars == <<l, ctx, paused, st, scanning, envw, pendingIrq, exited, startedT, registeredT, asked, snap, served, bad>>

Init == /\ l = 1
        /\ ctx = [t \in Thread |-> FALSE] /\ paused = [t \in Thread |-> FALSE]
        /\ st = [t \in Thread |-> "Running"]
        /\ scanning = [t \in Thread |-> None] /\ envw = [t \in Thread |-> None]
        /\ pendingIrq = [t \in Thread |-> FALSE] /\ exited = {} /\ bad = {}
        /\ startedT = {} /\ registeredT = {} /\ asked = [t \in Thread |-> {}] /\ snap = [t \in Thread |-> {}]
        /\ served = [t \in Thread |-> [req |-> {}, got |-> {}]]

E == Events[l]
Is(names) == l <= N /\ E.ev \in names
Adv == l' = l + 1
Flag(tag) == bad' = bad \cup {<<tag, l>>}

\* the stopper reads or writes another thread's state only after asking that thread to stop
\* (Synchronizer::stop_threads sets every listed thread's controller to PausedAtSafepoint first);
\* a thread that was never asked leaves its safepoint at once and runs under the stopper's hands
\* (asked[t] = the threads whose stop request on t is outstanding: CTRL_PAUSE by th, until CTRL_RESUME by th.
\* The thread's own flag `paused` may have been cleared meanwhile by a resume of ANOTHER stop-the-world
\* operation; that is the business of C16, not a breach here while the thread is parked.)
NotAsked == E.th # E.tgt /\ E.th \notin asked[E.tgt]
\* ... a thread that was on the list when the stopper made its requests and was skipped is one thing; a
\* thread that was put on the list DURING the stop (spawn-native-thread races with it: the second pass over
\* the list finds it, running and never asked) is the known late-registration family
EngineThread == "T0"
NotAskedTag == IF E.tgt \in snap[E.th] THEN "C15-access-to-thread-never-asked-to-stop"
                                       ELSE "C15-access-to-thread-registered-during-stop"

Publish == /\ Is({"SP_PUBLISH", "POLL_PUBLISH"}) /\ Adv
           /\ ctx' = [ctx EXCEPT ![E.th] = TRUE]
           /\ UNCHANGED <<paused, st, scanning, envw, pendingIrq, exited, bad, startedT, registeredT, asked, snap, served>>
\* retracting while another thread reads or writes this thread's state is the C15 breach
Retract == /\ Is({"SP_RETRACT", "POLL_RETRACT"}) /\ Adv
           /\ ctx' = [ctx EXCEPT ![E.th] = FALSE]
           /\ IF scanning[E.th] # None \/ envw[E.th] # None THEN Flag("C15a-retract-while-scanned") ELSE UNCHANGED bad
           /\ UNCHANGED <<paused, st, scanning, envw, pendingIrq, exited, startedT, registeredT, asked, snap, served>>
Dispatch == /\ Is({"DISPATCH"}) /\ Adv
            /\ IF scanning[E.th] # None \/ envw[E.th] # None THEN Flag("C15a-runs-while-scanned") ELSE UNCHANGED bad
            /\ UNCHANGED <<ctx, paused, st, scanning, envw, pendingIrq, exited, startedT, registeredT, asked, snap, served>>
ScanBegin == /\ Is({"SCAN_BEGIN"}) /\ Adv
             /\ scanning' = [scanning EXCEPT ![E.tgt] = E.th]
             /\ served' = [served EXCEPT ![E.th].got = @ \cup {E.tgt}]
             /\ bad' = bad \cup (IF ~ctx[E.tgt] THEN {<<"C15a-scan-of-unpublished-thread", l>>} ELSE {})
                            \cup (IF NotAsked THEN {<<NotAskedTag, l>>} ELSE {})
             /\ UNCHANGED <<ctx, paused, st, envw, pendingIrq, exited, startedT, registeredT, asked, snap>>
ScanEnd == /\ Is({"SCAN_END"}) /\ Adv
           /\ scanning' = [scanning EXCEPT ![E.tgt] = None]
           /\ UNCHANGED <<ctx, paused, st, envw, pendingIrq, exited, bad, startedT, registeredT, asked, snap, served>>
EnvBegin == /\ Is({"ENV_WRITE_BEGIN"}) /\ Adv
            /\ envw' = [envw EXCEPT ![E.tgt] = E.th]
            /\ served' = [served EXCEPT ![E.th].got = @ \cup {E.tgt}]
            /\ bad' = bad \cup (IF ~ctx[E.tgt] THEN {<<"C15a-write-to-unpublished-thread", l>>} ELSE {})
                           \cup (IF NotAsked THEN {<<NotAskedTag, l>>} ELSE {})
            /\ UNCHANGED <<ctx, paused, st, scanning, pendingIrq, exited, startedT, registeredT, asked, snap>>
EnvEnd == /\ Is({"ENV_WRITE_END"}) /\ Adv
          /\ envw' = [envw EXCEPT ![E.tgt] = None]
          /\ UNCHANGED <<ctx, paused, st, scanning, pendingIrq, exited, bad, startedT, registeredT, asked, snap, served>>
\* ThreadStateController: pause_for_safepoint / resume / interrupt / suspend
Pause == /\ Is({"CTRL_PAUSE"}) /\ Adv
         /\ paused' = [paused EXCEPT ![E.tgt] = TRUE] /\ st' = [st EXCEPT ![E.tgt] = "PausedAtSafepoint"]
         /\ IF pendingIrq[E.tgt] THEN Flag("C17-interrupt-overwritten") ELSE UNCHANGED bad
         /\ pendingIrq' = [pendingIrq EXCEPT ![E.tgt] = FALSE]
         /\ asked' = [asked EXCEPT ![E.tgt] = @ \cup {E.th}]
         /\ snap' = IF \A u \in Thread : E.th \notin asked[u]          \* first request of a new round
                     THEN [snap EXCEPT ![E.th] = registeredT \cup {EngineThread}] ELSE snap
         /\ served' = [served EXCEPT ![E.th].req = @ \cup {E.tgt}]
         /\ UNCHANGED <<ctx, scanning, envw, exited, startedT, registeredT>>
Resume == /\ Is({"CTRL_RESUME"}) /\ Adv
          /\ paused' = [paused EXCEPT ![E.tgt] = FALSE] /\ st' = [st EXCEPT ![E.tgt] = "Running"]
          /\ IF pendingIrq[E.tgt] THEN Flag("C17-interrupt-overwritten") ELSE UNCHANGED bad
          /\ pendingIrq' = [pendingIrq EXCEPT ![E.tgt] = FALSE]
          /\ asked' = [asked EXCEPT ![E.tgt] = @ \ {E.th}]
          /\ UNCHANGED <<ctx, scanning, envw, exited, startedT, registeredT, snap, served>>
Interrupt == /\ Is({"CTRL_INTERRUPT"}) /\ Adv
             /\ paused' = [paused EXCEPT ![E.tgt] = TRUE] /\ st' = [st EXCEPT ![E.tgt] = "Interrupted"]
             /\ pendingIrq' = [pendingIrq EXCEPT ![E.tgt] = TRUE]
             /\ UNCHANGED <<ctx, scanning, envw, exited, bad, startedT, registeredT, asked, snap, served>>
Suspend == /\ Is({"CTRL_SUSPEND"}) /\ Adv
           /\ paused' = [paused EXCEPT ![E.tgt] = TRUE] /\ st' = [st EXCEPT ![E.tgt] = "Suspended"]
           /\ UNCHANGED <<ctx, scanning, envw, pendingIrq, exited, bad, startedT, registeredT, asked, snap, served>>
Raised == /\ Is({"RAISED"}) /\ Adv
          /\ pendingIrq' = [pendingIrq EXCEPT ![E.th] = FALSE]
          /\ UNCHANGED <<ctx, paused, st, scanning, envw, exited, bad, startedT, registeredT, asked, snap, served>>
Exit == /\ Is({"THREAD_EXIT"}) /\ Adv
        /\ exited' = exited \cup {E.th} /\ ctx' = [ctx EXCEPT ![E.th] = FALSE]
        /\ UNCHANGED <<paused, st, scanning, envw, pendingIrq, bad, startedT, registeredT, asked, snap, served>>
\* spawn-native-thread: the new thread starts running (THREAD_START, logged by itself) and is pushed
\* on the thread list by its parent (REGISTERED) - in the code in that order
Started == /\ Is({"THREAD_START"}) /\ Adv
           /\ startedT' = startedT \cup {E.th}
           /\ UNCHANGED <<ctx, paused, st, scanning, envw, pendingIrq, exited, registeredT, asked, snap, served, bad>>
Registered == /\ Is({"REGISTERED"}) /\ Adv
              /\ registeredT' = registeredT \cup {E.tgt}
              /\ UNCHANGED <<ctx, paused, st, scanning, envw, pendingIrq, exited, startedT, asked, snap, served, bad>>
\* end of a stop-the-world operation: every running spawned thread must have been on the list
\* (otherwise it was neither stopped nor scanned nor given the new global table)
\* ... and every thread the operation asked to stop (and that has not exited) must have been
\* served by it: scanned by a collection, given the new global table by a define / set!.  A thread that the
\* stopper gave up waiting for keeps running on its old table / with unscanned roots
StwBegin == /\ Is({"STW_BEGIN"}) /\ Adv
            /\ served' = [served EXCEPT ![E.th] = [req |-> {}, got |-> {}]]
            /\ UNCHANGED <<ctx, paused, st, scanning, envw, pendingIrq, exited, bad, startedT, registeredT, asked, snap>>
StwEnd == /\ Is({"STW_END"}) /\ Adv
          /\ bad' = bad \cup (IF \E t \in startedT : t \notin registeredT /\ t \notin exited /\ t # E.th
                                THEN {<<"C15-unregistered-thread-runs-during-stop", l>>} ELSE {})
                         \cup (IF \E t \in served[E.th].req : t # E.th /\ t \notin exited /\ t \notin served[E.th].got
                                THEN {<<"C15-thread-skipped-by-stop-the-world-operation", l>>} ELSE {})
          /\ UNCHANGED <<ctx, paused, st, scanning, envw, pendingIrq, exited, startedT, registeredT, asked, snap, served>>
\* events that carry no state of the projection (parks, loop reads, brackets)
Other == /\ Is({"SP_PARK", "POLL_PARK", "SP_READ_PAUSED", "POLL_LOOP_READ",
               "SPAWNED", "REGISTERING", "UNPARK", "HEAP_LOCKED", "ENUM_WAIT"}) /\ Adv
         /\ UNCHANGED <<ctx, paused, st, scanning, envw, pendingIrq, exited, bad, startedT, registeredT, asked, snap, served>>

Next == Publish \/ Retract \/ Dispatch \/ ScanBegin \/ ScanEnd \/ EnvBegin \/ EnvEnd \/ Pause \/ Resume
        \/ Interrupt \/ Suspend \/ Raised \/ Exit \/ Started \/ Registered \/ StwBegin \/ StwEnd \/ Other
Spec == Init /\ [][Next]_vars

\* Safepoint.tla's properties on the logged projection
C15 == \A x \in bad : x[1] \notin {"C15a-retract-while-scanned", "C15a-runs-while-scanned",
                                   "C15a-scan-of-unpublished-thread", "C15a-write-to-unpublished-thread",
                                   "C15-unregistered-thread-runs-during-stop",
                                   "C15-access-to-thread-never-asked-to-stop",
                                   "C15-thread-skipped-by-stop-the-world-operation",
                                   "C15-access-to-thread-registered-during-stop"}
C17 == /\ \A x \in bad : x[1] # "C17-interrupt-overwritten"
       /\ \A t \in Thread : pendingIrq[t] => (paused[t] /\ st[t] = "Interrupted")
\* the whole trace must be consumed (an event the specification cannot take = spec drift)
Accepted == TLCGet("stats").diameter - 1 = N
           \/ PrintT(<<"TRACE-REJECTED at event", TLCGet("stats").diameter, IF TLCGet("stats").diameter <= N THEN Events[TLCGet("stats").diameter] ELSE "end">>) = FALSE
=============================================================================
