SPECIFICATION Spec
CONSTANTS
  MODE = "data"
  NODES = 3
  LEAFSET = "midq"
  MAXLEN = 0
  STRICT = FALSE
INVARIANTS TypeOK Emit
CHECK_DEADLOCK FALSE
