SPECIFICATION Spec
CONSTANTS
  MaxGuards = 1
  MaxActs = 1
  Engines = 1
  RefLevel = "small"
  Places = {"global"}
  Derive = FALSE
  Pair = FALSE
  Threads = TRUE
  Defects = {"no_wait"}
  EmitCases = FALSE
INVARIANTS InvNoInflight
CHECK_DEADLOCK FALSE
VIEW DesignView
