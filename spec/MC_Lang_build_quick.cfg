SPECIFICATION Spec
CONSTANTS
  RICH = FALSE
  MINNODES = 0
  MAXSTACK = 99
  BUDGET = 3
  FUEL = 300
  MAXINT = 100000
INVARIANTS TypeOK EnvOK BoundaryOK Emit
CHECK_DEADLOCK FALSE
