SPECIFICATION Spec
CONSTANTS
  MaxGuards = 3
  MaxActs = 2
  Engines = 2
  RefLevel = "small"
  Places = {"global"}
  Derive = TRUE
  Pair = FALSE
  Threads = TRUE
  Defects = {}
  EmitCases = FALSE
INVARIANTS TypeOK InvNoDangling InvFaithful InvChildLive InvNoResidue InvNoInflight
CHECK_DEADLOCK FALSE
VIEW DesignView
