SPECIFICATION Spec
CONSTANTS
  MaxGuards = 3
  MaxActs = 2
  Engines = 2
  RefLevel = "small"
  Places = {"global"}
  Derive = TRUE
  Pair = FALSE
  Defects = {}
  EmitCases = FALSE
INVARIANTS TypeOK InvNoDangling InvFaithful InvChildLive InvNoResidue
CHECK_DEADLOCK FALSE
VIEW DesignView
