SPECIFICATION Spec
CONSTANTS
  MODE = "numlit"
  NODES = 0
  LEAFSET = "core"
  MAXLEN = 0
  STRICT = FALSE
INVARIANTS TypeOK Emit
CHECK_DEADLOCK FALSE
