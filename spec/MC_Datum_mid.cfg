SPECIFICATION Spec
CONSTANTS
  MODE = "data"
  NODES = 3
  LEAFSET = "mid"
  MAXLEN = 0
  STRICT = FALSE
INVARIANTS TypeOK Emit
CHECK_DEADLOCK FALSE
