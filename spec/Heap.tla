-------------------------------- MODULE Heap --------------------------------
(***************************************************************************)
(* The mark-and-sweep heap for mutable storage (boxes, mutable vectors,    *)
(* mutable struct fields, assigned captured variables): C04 and C19.       *)
(*                                                                         *)
(*   values/closed.rs  FreeList { elements, cursor, alloc_count }          *)
(*                     allocate / weak_collection / mark_all_unreachable / *)
(*                     Heap::value_collection / Heap::mark / recount       *)
(*   a slot is FREE iff its `reachable` flag is false; a handle (HeapRef)  *)
(*   is a Weak pointer to the slot, so a slot handed out again while a     *)
(*   handle to it is still held silently changes what that handle reads.   *)
(*                                                                         *)
(* State: slots 1..N.  A slot holds a value (an atom or a reference to     *)
(* another slot); `hcount` is the number of handles to it that exist       *)
(* anywhere (what `weak_count` sees, cycles included).  Root holders are   *)
(* the places a program can keep a handle; `Scanned` is the subset the     *)
(* collector's `mark` enumerates (the code: stack, frame function          *)
(* captures, globals, thread-local storage, rooted host values, the value  *)
(* being allocated, other threads' stacks -- NOT frame handler             *)
(* attachments).  Policy (when a collection runs, which free slot is       *)
(* taken) is nondeterministic.                                             *)
(***************************************************************************)
EXTENDS Naturals, Integers, Sequences, FiniteSets, TLC, Json

CONSTANTS N,          \* number of slots
          Holders,    \* root holder kinds
          Scanned,    \* holders the marker enumerates
          MaxOps

Atoms == {"a", "b"}
VARIABLES free,     \* slot -> BOOLEAN   (reachable flag false)
          val,      \* slot -> [k |-> "atom", a] | [k |-> "ref", r]
          gen,      \* ghost: slot -> how often it has been handed out
          hcount,   \* slot -> number of handles in existence
          root,     \* holder -> set of handles; a handle is [s |-> slot, g |-> generation]
          written,  \* ghost: handle-generation contents: slot -> last value stored by the program
          allocCount, \* FreeList.alloc_count (accounting)
          ops, lastop
vars == <<free, val, gen, hcount, root, written, allocCount, ops, lastop>>

Slots == 1..N
Handle(s) == [s |-> s, g |-> gen[s]]
AllHandles == UNION {root[h] : h \in Holders}

\* handles reachable from a set of handles, following references stored in slots
RECURSIVE ReachFrom(_)
ReachFrom(hs) ==
  LET nxt == hs \cup {[s |-> val[x.s].r.s, g |-> val[x.s].r.g] : x \in {y \in hs : val[y.s].k = "ref"}} IN
  IF nxt = hs THEN hs ELSE ReachFrom(nxt)
TrueLive == ReachFrom(AllHandles)                       \* what the program can reach
Marked == ReachFrom(UNION {root[h] : h \in Scanned})    \* what `mark` finds

Init == /\ free = [s \in Slots |-> TRUE]
        /\ val = [s \in Slots |-> [k |-> "atom", a |-> "empty"]]
        /\ gen = [s \in Slots |-> 0] /\ hcount = [s \in Slots |-> 0]
        /\ root = [h \in Holders |-> {}]
        /\ written = [s \in Slots |-> [k |-> "atom", a |-> "empty"]]
        /\ allocCount = N /\ ops = 0 /\ lastop = "init"

Log(e) == /\ lastop' = e.op /\ ops' = ops + 1

\* FreeList::allocate: take a free slot (which one is policy), mark it reachable, hand out a handle
Alloc(h, a) ==
  /\ \E s \in {x \in Slots : free[x]} :
       /\ free' = [free EXCEPT ![s] = FALSE]
       /\ val' = [val EXCEPT ![s] = [k |-> "atom", a |-> a]]
       /\ written' = [written EXCEPT ![s] = [k |-> "atom", a |-> a]]
       /\ gen' = [gen EXCEPT ![s] = @ + 1]
       /\ hcount' = [t \in Slots |-> IF t = s THEN 1
                                     ELSE IF val[s].k = "ref" /\ val[s].r.s = t /\ hcount[t] > 0 THEN hcount[t] - 1
                                     ELSE hcount[t]]
       /\ root' = [root EXCEPT ![h] = @ \cup {[s |-> s, g |-> gen[s] + 1]}]
       /\ allocCount' = allocCount - 1
       /\ Log([op |-> "alloc", h |-> h, a |-> a])

\* the program stores an atom / a reference into a slot it can reach
WriteAtom(x, a) ==
  /\ x \in TrueLive /\ val[x.s].k = "atom" /\ val[x.s].a # a
  /\ val' = [val EXCEPT ![x.s] = [k |-> "atom", a |-> a]]
  /\ written' = (IF gen[x.s] = x.g THEN [written EXCEPT ![x.s] = [k |-> "atom", a |-> a]] ELSE written)
  /\ Log([op |-> "write", a |-> a])
  /\ UNCHANGED <<free, gen, hcount, root, allocCount>>
StoreRef(x, y) ==    \* x := reference to y  (cycles allowed, x = y too)
  /\ x \in TrueLive /\ y \in TrueLive /\ val[x.s].k = "atom"
  /\ val' = [val EXCEPT ![x.s] = [k |-> "ref", r |-> y]]
  /\ written' = (IF gen[x.s] = x.g THEN [written EXCEPT ![x.s] = [k |-> "ref", r |-> y]] ELSE written)
  /\ hcount' = [hcount EXCEPT ![y.s] = @ + 1]
  /\ Log([op |-> "store"])
  /\ UNCHANGED <<free, gen, root, allocCount>>
DropRoot(h, x) ==
  /\ x \in root[h]
  /\ root' = [root EXCEPT ![h] = @ \ {x}]
  /\ hcount' = [hcount EXCEPT ![x.s] = IF @ > 0 THEN @ - 1 ELSE 0]
  /\ Log([op |-> "drop", h |-> h])
  /\ UNCHANGED <<free, val, gen, written, allocCount>>
MoveRoot(h1, h2, x) ==
  /\ x \in root[h1] /\ h1 # h2
  /\ root' = [root EXCEPT ![h1] = @ \ {x}, ![h2] = @ \cup {x}]
  /\ Log([op |-> "move", h |-> h1, h2 |-> h2])
  /\ UNCHANGED <<free, val, gen, hcount, written, allocCount>>

\* weak_collection: slots nobody holds a handle to become free
WeakCollect ==
  /\ LET dead == {s \in Slots : ~free[s] /\ hcount[s] = 0} IN
     /\ free' = [s \in Slots |-> free[s] \/ s \in dead]
     /\ allocCount' = allocCount + Cardinality(dead)
  /\ Log([op |-> "weak"])
  /\ UNCHANGED <<val, gen, hcount, root, written>>
\* full collection: mark_all_unreachable; mark from the scanned roots; everything else is free;
\* alloc_count := elements - reached
FullCollect ==
  /\ LET m == {x.s : x \in Marked} IN
     /\ free' = [s \in Slots |-> s \notin m]
     /\ allocCount' = N - Cardinality(m)
  /\ Log([op |-> "full"])
  /\ UNCHANGED <<val, gen, hcount, root, written>>

Next == /\ ops < MaxOps
        /\ \/ \E h \in Holders, a \in Atoms : Alloc(h, a)
           \/ \E x \in TrueLive, a \in Atoms : WriteAtom(x, a)
           \/ \E x \in TrueLive, y \in TrueLive : StoreRef(x, y)
           \/ \E h \in Holders : \E x \in root[h] : DropRoot(h, x)
           \/ \E h1 \in Holders, h2 \in Holders : \E x \in root[h1] : MoveRoot(h1, h2, x)
           \/ WeakCollect \/ FullCollect
Spec == Init /\ [][Next]_vars

-----------------------------------------------------------------------------
\* C04: whatever the program can reach is not free, has not been handed out again, and holds
\* what the program last stored in it
C04 == \A x \in TrueLive : /\ ~free[x.s] /\ gen[x.s] = x.g /\ val[x.s] = written[x.s]
\* C19 accounting: alloc_count is the number of free slots
C19a == allocCount = Cardinality({s \in Slots : free[s]})
\* C19 precision: immediately after a full collection, what the program cannot reach is free
\* (holds when every holder is scanned and nothing is scanned that is not a holder)
C19b == (lastop = "full") => \A s \in Slots : (s \notin {x.s : x \in TrueLive}) => free[s]
=============================================================================
