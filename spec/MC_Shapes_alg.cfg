SPECIFICATION LiveSpec
CONSTANTS
  FAMSEL = {"full"}
  MAXN = 3
  FULLN = 2
  LEAFS = {1}
  SEED = 1
  BRANCH = 2
  DEPTHS = {}
  BIGDEPTHS = {}
  TWINMOD = 8
  VARIANT = "ok"
  ALG = TRUE
INVARIANTS TypeOK ModelOK MeasureNat AlgResultOK
PROPERTIES MeasureDecreases Terminates
CHECK_DEADLOCK FALSE
