SPECIFICATION Spec
CONSTANTS
  FAMSEL = {"list", "vec", "hash", "hset", "struct", "box", "strs", "mixed", "leaf", "sim", "tails"}
  NBUMP = 0
  SEED = 1
  BRANCH = 4
INVARIANTS TypeOK OracleOK Emit
CHECK_DEADLOCK FALSE
