SPECIFICATION Spec
CONSTANTS
  FAM = "graph"
  N = 3
  LEAFS = {"i1", "i2"}
  KINDS = {"hash1", "hins", "list1"}
  MUTANTS = TRUE
INVARIANTS TypeOK OracleOK Emit
CHECK_DEADLOCK FALSE
