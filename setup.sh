#!/bin/sh
# Build the verification harness from files on disk only (offline).
set -e
cd "$(dirname "$0")"
export CARGO_NET_OFFLINE=true
mkdir -p work evidence
[ -f harness/Cargo.lock ] || cp /repo/Cargo.lock harness/Cargo.lock
(cd harness && cargo build --offline --quiet)
# TLA+ tools present?
java -cp /opt/veriftools/tla/tla2tools.jar tlc2.TLC -h >/dev/null 2>&1 || { echo "TLC missing"; exit 1; }
echo "setup ok"
