#!/bin/sh
# Build the verification harness from files on disk only (offline).
set -e
cd "$(dirname "$0")"
export CARGO_NET_OFFLINE=true
mkdir -p work evidence
[ -f harness/Cargo.lock ] || cp /repo/Cargo.lock harness/Cargo.lock
(cd harness && cargo build --offline --quiet)
# TLA+ tools present?
[ -f /opt/veriftools/tla/tla2tools.jar ] || { echo "TLC jar missing"; exit 1; }
java -version >/dev/null 2>&1 || { echo "java missing"; exit 1; }
echo "setup ok"
