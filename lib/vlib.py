"""Shared machinery of the /verif checks: harness build, TLC runs, case replay,
known findings, evidence, verdict/exit protocol.

Exit protocol (every check): 0 = property held on everything explored (KNOWN-FINDING
lines allowed), 1 = at least one `VIOLATION property=<id> replay=<path>` line,
2 = tool error / timeout of the machinery itself.
"""
import fcntl
import hashlib
import json
import os
import random
import re
import shutil
import subprocess
import sys
import time

VERIF = os.path.dirname(os.path.dirname(os.path.abspath(__file__)))
SPEC = os.path.join(VERIF, "spec")
HARNESS = os.path.join(VERIF, "harness")
WORK = os.path.join(VERIF, "work")
EVID = os.path.join(VERIF, "evidence")
BIN = os.path.join(HARNESS, "target", "debug")
TLA_JAR = "/opt/veriftools/tla/tla2tools.jar:/opt/veriftools/tla/CommunityModules-deps.jar"


class ToolError(Exception):
    pass


def log(*a):
    print(*a, file=sys.stderr, flush=True)


# --------------------------------------------------------------------------- build

def build_harness(bins=None):
    """cargo build of the harness against /repo's current working tree with
    --cfg steel_verif (set in harness/.cargo/config.toml).  Serialised by a lock so
    that checks running in parallel share one build."""
    os.makedirs(WORK, exist_ok=True)
    lock = open(os.path.join(WORK, ".build.lock"), "w")
    fcntl.flock(lock, fcntl.LOCK_EX)
    try:
        t0 = time.time()
        lockfile = os.path.join(HARNESS, "Cargo.lock")
        if not os.path.exists(lockfile):
            shutil.copy("/repo/Cargo.lock", lockfile)
        cmd = ["cargo", "build", "--offline", "--quiet"]
        if bins:
            for b in bins:
                cmd += ["--bin", b]
        env = dict(os.environ, CARGO_NET_OFFLINE="true")
        p = subprocess.run(cmd, cwd=HARNESS, env=env, stdout=subprocess.PIPE,
                           stderr=subprocess.STDOUT, text=True)
        if p.returncode != 0:
            log(p.stdout[-6000:])
            raise ToolError("harness build failed")
        log(f"[build] harness ok in {time.time()-t0:.1f}s")
    finally:
        fcntl.flock(lock, fcntl.LOCK_UN)
        lock.close()


# --------------------------------------------------------------------------- TLC

TLC_REPLAY_RE = re.compile(r'^<<"REPLAY", (".*")>>$')


def run_tlc(module, cfg, workdir, workers=8, timeout=1200, simulate=None, seed=None,
            extra_java=None, env_extra=None, depth_first=False, coverage=False,
            heap="6g", allow_violation=False, defines=None, depth=None):
    """Run TLC on spec/<module>.tla with spec/<cfg>.  Returns a dict with states,
    distinct, depth, cases (REPLAY lines parsed), violation (None or text), out."""
    os.makedirs(workdir, exist_ok=True)
    meta = os.path.join(workdir, "meta")
    shutil.rmtree(meta, ignore_errors=True)
    java_opts = "-Xss1g"
    if depth_first:
        java_opts += " -Dtlc2.tool.queue.IStateQueue=StateDeque"
    if extra_java:
        java_opts += " " + extra_java
    env = dict(os.environ, JAVA_TOOL_OPTIONS=java_opts)
    if env_extra:
        env.update({k: str(v) for k, v in env_extra.items()})
    cmd = ["java", "-XX:+UseParallelGC", f"-Xmx{heap}", "-cp", TLA_JAR, "tlc2.TLC",
           "-workers", str(workers), "-metadir", meta, "-cleanup", "-noGenerateSpecTE",
           "-config", os.path.join(SPEC, cfg)]
    if coverage:
        cmd += ["-coverage", "1"]
    if simulate:
        cmd += ["-simulate", simulate]
    if depth:
        cmd += ["-depth", str(depth)]
    if seed is not None:
        cmd += ["-seed", str(seed)]
    cmd += [os.path.join(SPEC, module + ".tla")]
    out_path = os.path.join(workdir, f"tlc_{module}_{os.path.basename(cfg)}.out")
    t0 = time.time()
    with open(out_path, "w") as out:
        try:
            p = subprocess.run(cmd, cwd=SPEC, env=env, stdout=out, stderr=subprocess.STDOUT,
                               timeout=timeout)
            rc = p.returncode
        except subprocess.TimeoutExpired:
            rc = -9
    wall = time.time() - t0
    shutil.rmtree(meta, ignore_errors=True)
    res = {"states": 0, "distinct": 0, "depth": 0, "cases": [], "violation": None,
           "out": out_path, "rc": rc, "wall": wall, "timeout": rc == -9}
    viol_lines = []
    in_viol = False
    last_state = []
    nstates_in_trace = 0
    with open(out_path, errors="replace") as f:
        for line in f:
            line = line.rstrip("\n")
            m = TLC_REPLAY_RE.match(line)
            if m:
                try:
                    inner = json.loads(m.group(1))
                    res["cases"].append(json.loads(inner))
                except Exception as e:  # noqa
                    raise ToolError(f"unparsable REPLAY line in {out_path}: {line[:200]}")
                continue
            m = re.match(r"^(\d+) states generated, (\d+) distinct states found", line)
            if m:
                res["states"] = int(m.group(1))
                res["distinct"] = int(m.group(2))
            m = re.match(r"^The depth of the complete state graph search is (\d+)", line)
            if m:
                res["depth"] = int(m.group(1))
            if re.match(r"^State \d+:", line):
                last_state = []
                nstates_in_trace += 1
            elif in_viol and (line.startswith("/\\") or (last_state and line.startswith(" "))):
                last_state.append(line)
            if line.startswith("Error:"):
                in_viol = True
            if in_viol and len(viol_lines) < 400:
                viol_lines.append(line)
    if viol_lines:
        res["violation"] = "\n".join(viol_lines)
        res["last_state"] = "\n".join(last_state)
        res["trace_len"] = nstates_in_trace
        m = re.search(r"Invariant (\w+) is violated", res["violation"])
        res["violated"] = m.group(1) if m else None
    if rc == -9 and not simulate:
        raise ToolError(f"TLC timed out after {timeout}s on {module}/{cfg} (see {out_path})")
    if res["violation"] and not allow_violation:
        # parse/semantic errors and unexpected invariant violations are tool errors
        # unless the caller asked for them
        raise ToolError(f"TLC reported an error on {module}/{cfg}:\n" + res["violation"][:3000])
    if rc not in (0, -9) and not res["violation"]:
        raise ToolError(f"TLC exit code {rc} on {module}/{cfg} (see {out_path})")
    log(f"[tlc] {module}/{cfg}: {res['states']} states, {res['distinct']} distinct, "
        f"{len(res['cases'])} cases, {wall:.1f}s")
    return res


# --------------------------------------------------------------------------- replay

def _run_replay_chunk(cases, workdir, name, env, timeout_ms, binary="replay", restarts_max=200):
    """Run one chunk of cases in subprocesses, restarting after a crash/hang.
    Returns verdict dicts (crash/hang become failing verdicts)."""
    cpath = os.path.join(workdir, f"{name}.cases.ndjson")
    opath = os.path.join(workdir, f"{name}.out.ndjson")
    with open(cpath, "w") as f:
        for c in cases:
            f.write(json.dumps(c) + "\n")
    if os.path.exists(opath):
        os.remove(opath)
    verdicts = {}
    skip = 0
    restarts = 0
    while skip < len(cases):
        before = os.path.getsize(opath) if os.path.exists(opath) else 0
        p = subprocess.Popen([os.path.join(BIN, binary), cpath, opath, "--timeout-ms", str(timeout_ms),
                              "--skip", str(skip)], env=env, stdout=subprocess.DEVNULL,
                             stderr=subprocess.DEVNULL)
        p.wait()
        rc = p.returncode
        started = None
        done = False
        last_done = None     # (index, id) of the last case that got its verdict in this process
        with open(opath, "rb") as f:
            f.seek(before)
            for raw in f:
                # (an observation of storage that was corrupted may not be valid UTF-8: it must become a
                # mismatching observation, not a tool error)
                line = raw.decode("utf-8", errors="replace").strip()
                if not line:
                    continue
                try:
                    o = json.loads(line)
                except Exception:
                    continue
                if "start" in o:
                    started = o
                elif "timeout" in o:
                    pass
                elif "done" in o:
                    done = True
                elif "id" in o:
                    verdicts[o["id"]] = o
                    if started and started["start"] == o["id"]:
                        last_done = (started["n"], o["id"])
                        started = None
        if done and rc == 0:
            break
        # process died: attribute to the case that was running
        if started is None:
            if rc == 2:
                raise ToolError(f"replayer rejected its input ({cpath})")
            if last_done is not None:
                # the process died between two cases, after at least one verdict: what runs there is the
                # teardown of the previous case (engine drop, threads it left behind).  That is behaviour
                # of the code under test: the previous case fails with it.
                n, cid = last_done
                v = verdicts[cid]
                kind = "hang" if rc == 97 else f"crash(rc={rc})"
                if v.get("pass"):
                    v["pass"] = False
                    v["why"] = f"process {kind} after the case (engine teardown)"
                else:
                    v["why"] = v.get("why", "") + f" [then process {kind} after the case]"
                skip = n + 1
                restarts += 1
                if restarts > restarts_max:
                    raise ToolError("too many replayer restarts")
                continue
            raise ToolError(f"replayer died (rc={rc}) outside any case ({cpath})")
        n = started["n"]
        cid = started["start"]
        kind = "hang" if rc == 97 else f"crash(rc={rc})"
        verdicts[cid] = {"id": cid, "tag": cases[n].get("tag", ""), "pass": False,
                         "why": f"process {kind}", "step": 0,
                         "got": [{"class": kind, "emit": [], "val": None, "msg": None}]}
        skip = n + 1
        restarts += 1
        if restarts > restarts_max:
            raise ToolError("too many replayer restarts")
    return [verdicts.get(c["id"]) or {"id": c["id"], "tag": c.get("tag", ""), "pass": False,
                                      "why": "no verdict", "step": 0, "got": []}
            for c in cases]


MAX_CASES_PER_PROCESS = 1500   # an engine process leaks ~2 memory mappings per compiled unit and dies at vm.max_map_count


def replay(cases, workdir, env_extra=None, jobs=12, timeout_ms=10000, name="replay", binary="replay", isolate=False):
    """Replay cases on the real engine, in `jobs` parallel subprocesses."""
    from concurrent.futures import ThreadPoolExecutor
    os.makedirs(workdir, exist_ok=True)
    ids = set()
    for c in cases:
        if c["id"] in ids:
            raise ToolError(f"duplicate case id {c['id']}")
        ids.add(c["id"])
    env = dict(os.environ)
    # the engine reads these at compile / closure-creation time
    for k in ("STEEL_JIT", "STEEL_INLINE", "STEEL_INLINE_RECURSIVE", "STEEL_CLOSURE_LIFTING",
              "STEEL_MODULE_INLINE"):
        env.pop(k, None)
    if env_extra:
        env.update(env_extra)
    if not cases:
        return []
    if isolate:
        # one process per case (cases whose threads / process-global sensors would leak into the next case)
        chunks = [[c] for c in cases]
    else:
        jobs = max(1, min(jobs, (len(cases) + 19) // 20))
        chunks = []
        for i in range(jobs):
            part = cases[i::jobs]
            chunks += [part[k:k + MAX_CASES_PER_PROCESS] for k in range(0, len(part), MAX_CASES_PER_PROCESS)]
    t0 = time.time()
    with ThreadPoolExecutor(max_workers=jobs) as ex:
        futs = [ex.submit(_run_replay_chunk, ch, workdir, f"{name}.{i}", env, timeout_ms, binary)
                for i, ch in enumerate(chunks)]
        res = []
        for f in futs:
            res.extend(f.result())
    by_id = {v["id"]: v for v in res}
    # A replayer process that has compiled very many functions runs out of memory mappings (the engine never
    # unmaps JIT code: known finding C07-jit-code-memory-never-released); what fails then is the PROCESS, not the
    # case it happened to be at.  Such cases are run again in fresh processes, a few at a time.
    exhausted = [c for c in cases if "unable to make memory readable+executable" in json.dumps(by_id.get(c["id"], {}).get("got", ""))
                 or "unable to make memory readable+executable" in by_id.get(c["id"], {}).get("why", "")]
    if exhausted and not name.endswith(".fresh"):
        log(f"[replay] {name}: {len(exhausted)} cases hit the process's mapping limit; re-running them in fresh processes")
        again = replay(exhausted, workdir, env_extra=env_extra, jobs=min(jobs, 4), timeout_ms=timeout_ms, name=name + ".fresh",
                       binary=binary, isolate=len(exhausted) <= 40)
        for v in again:
            by_id[v["id"]] = v
        res = list(by_id.values())
    log(f"[replay] {name}: {len(cases)} cases in {time.time()-t0:.1f}s, "
        f"{sum(1 for v in res if not v['pass'])} failing")
    return [by_id[c["id"]] for c in cases]


def module_variant(case, root):
    """The same program as ONE MODULE FILE required from the top level.  This is how the `steel`
    command runs a file (`(require "file")`), and it is a different compilation mode: inside a module
    the names of builtins are resolved to #%prim.* at expansion time, which is what enables the
    specialised opcodes (ADD, LT, CAR, ... and the arity-free global calls) and the JIT's typed
    helpers; top-level Engine::run code calls the same builtins through global variables.
    Applicable when only the last step may fail.  Returns None otherwise."""
    steps = case["steps"]
    if any(s.get("op") for s in steps) or any(s.get("class", "ok") != "ok" for s in steps[:-1]):
        return None
    os.makedirs(root, exist_ok=True)
    fid = re.sub(r"[^A-Za-z0-9_.-]", "_", case["id"])
    path = os.path.join(root, fid + ".scm")
    src = "\n".join(s["src"] for s in steps).replace("@@", "")
    with open(path, "w") as f:
        f.write(src + "\n")
    step = {"src": f'(require "{path}")', "class": steps[-1].get("class", "ok")}
    if all("emit" in s for s in steps):
        step["emit"] = [e for s in steps for e in s["emit"]]
    out = dict(case, id=case["id"] + "@mod", steps=[step], module_file=path, module_src=src,
               match_src="\n".join(s["src"] for s in steps),
               tag=(case.get("tag", "") + "|module"))
    return out


def replay_as_modules(cases, workdir, root, env_extra=None, jobs=12, timeout_ms=20000, name="mods", batch=50,
                      binary="replay", single_ids=()):
    """Replay every case as a module file (see module_variant).  Cases that expect no failure are
    packed `batch` to a module file (a require costs ~30 ms, a form ~1 ms); a batch that does not
    behave as expected is replayed again one module per case, so verdicts are always per case.
    Returns (module cases, verdicts), aligned; cases for which no module variant exists are left out."""
    # `single_ids`: cases already known to misbehave (they would only take their batch down with them)
    okc = [c for c in cases if c["id"] not in single_ids
           and all(s.get("class", "ok") == "ok" and "emit" in s and not s.get("op") for s in c["steps"])]
    okids = {c["id"] for c in okc}
    single = [c for c in cases if c["id"] not in okids]
    groups = [okc[i:i + batch] for i in range(0, len(okc), batch)]
    bcases = []
    for gi, g in enumerate(groups):
        steps = []
        for c in g:
            u = "_" + re.sub(r"[^A-Za-z0-9]", "_", c["id"])
            steps += [dict(st, src=st["src"].replace("@@", u)) for st in c["steps"]]
        bcases.append(module_variant({"id": f"{name}-batch{gi}", "fresh": False, "steps": steps}, root))
    bv = replay(bcases, workdir, env_extra=env_extra, jobs=jobs, timeout_ms=timeout_ms, name=name + ".batch", binary=binary) if bcases else []
    again = list(single)
    out = {}
    for g, v in zip(groups, bv):
        if v["pass"]:
            for c in g:
                out[c["id"]] = {"id": c["id"] + "@mod", "tag": c.get("tag", "") + "|module", "pass": True, "why": "",
                                "step": 0, "got": [], "batched": True}
        else:
            again += g
    mods = {}
    for c in again:
        m = module_variant(c, root)
        if m:
            mods[c["id"]] = m
    if mods:
        vs = replay(list(mods.values()), workdir, env_extra=env_extra, jobs=jobs, timeout_ms=timeout_ms, name=name + ".single", binary=binary)
        for cid, v in zip(mods.keys(), vs):
            out[cid] = v
    rc, rv = [], []
    for c in cases:
        if c["id"] in out:
            m = mods.get(c["id"]) or dict(c, id=c["id"] + "@mod", tag=c.get("tag", "") + "|module",
                                          match_src="\n".join(st["src"] for st in c["steps"]),
                                          steps=[dict(st, src=st["src"].replace("@@", "")) for st in c["steps"]], batched=True)
            rc.append(m)
            rv.append(out[c["id"]])
    return rc, rv


# --------------------------------------------------------------------------- findings

def load_findings():
    import glob
    out = []
    for p in [os.path.join(VERIF, "known_findings.json")] + sorted(glob.glob(os.path.join(VERIF, "known_findings.d", "*.json"))):
        if os.path.exists(p):
            with open(p) as f:
                out += json.load(f)["findings"]
    return out


def replay_file(prop, path, env_extra=None, binary="replay"):
    """Re-run one recorded failing case (./check <id> --replay <path>)."""
    with open(path) as f:
        obj = json.load(f)
    case = obj["case"]
    if "steps" not in case:
        raise ToolError(f"{path} is not a replayable engine case")
    work = os.path.join(WORK, prop, "replay1")
    if case.get("vmtrace"):
        case = dict(case, id=case["id"].replace("@vmtrace", ""))
        os.makedirs(work, exist_ok=True)
        summary, problems, _ = vm_trace_validate([case], work, "replay1")
        print(json.dumps({"summary": summary, "problems": problems}, indent=1))
        if problems:
            print(f"VIOLATION property={prop} replay={path}")
            return 1
        return 0
    if case.get("module_file"):
        os.makedirs(os.path.dirname(case["module_file"]), exist_ok=True)
        with open(case["module_file"], "w") as f:
            f.write(case["module_src"] + "\n")
    v = replay([case], work, env_extra=env_extra or obj.get("env") or case.get("env"), jobs=1, name="replay1", binary=binary)[0]
    print(json.dumps(v, indent=1))
    if not v["pass"]:
        print(f"VIOLATION property={prop} replay={path}")
        return 1
    return 0


def match_finding(prop, case, verdict, findings):
    """A failing case is attributed to a *known* finding only when the finding's
    specific signature matches (input text and observed symptom)."""
    text = "\n".join(s.get("src", "") for s in case.get("steps", [])) if case else ""
    if case and case.get("module_src"):
        text += "\n" + case["module_src"] + "\n" + case.get("match_src", "")
    text += "\n#tag:" + (case.get("tag", "") if case else "")
    for f in findings:
        if f.get("status") != "known" or prop not in f.get("properties", [f.get("property")]):
            continue
        m = f.get("match", {})
        # only textual signatures can attribute a replayed case; findings identified by a model defect
        # (schedules, traces) are attributed by the check that owns the model, never here
        if not any(k in m for k in ("src_regex", "tag_regex", "why_regex")):
            continue
        if "src_regex" in m and not re.search(m["src_regex"], text, re.S):
            continue
        if "tag_regex" in m and not re.search(m["tag_regex"], case.get("tag", "") if case else ""):
            continue
        if "why_regex" in m and not re.search(m["why_regex"], verdict.get("why", ""), re.S):
            continue
        if "env_regex" in m:
            # the switches the case ran under (C02: "config"; others: "env"), as sorted JSON
            envd = (case.get("config") if case and case.get("config") is not None else (case or {}).get("env")) or {}
            if not re.search(m["env_regex"], json.dumps(envd, sort_keys=True)):
                continue
        if not m:
            continue
        return f
    return None


# --------------------------------------------------------------------------- result

class Result:
    def __init__(self, prop, tier, seed, level="model_checking"):
        self.prop = prop
        self.tier = tier
        self.seed = seed
        self.level = level
        self.t0 = time.time()
        self.cov = {"states": 0, "transitions": 0, "traces_validated_against_impl": 0,
                    "samples": [], "evaluations": 0, "distinct_nontrivial": 0, "rule": "",
                    "exhaustive": False}
        self.assumptions = []
        self.violations = []   # (what, replay_path)
        self.known = {}        # key -> text
        self.notes = []
        self._nontrivial = set()
        self.findings = load_findings()
        # replay files of earlier runs of this property are stale
        import glob
        for f in glob.glob(os.path.join(WORK, "replays", f"{prop}-*.json")):
            try:
                os.remove(f)
            except OSError:
                pass

    def add_tlc(self, res):
        self.cov["states"] += res["distinct"]
        self.cov["transitions"] += res["states"]

    def add_cases(self, cases, verdicts, nontrivial=None, trace=True):
        """Account replayed cases; classify failures into violations / known findings."""
        self.cov["evaluations"] += len(cases)
        if trace:
            self.cov["traces_validated_against_impl"] += sum(1 for v in verdicts if v["pass"])
        for c, v in zip(cases, verdicts):
            h = hashlib.sha1(json.dumps(c.get("steps"), sort_keys=True).encode()).hexdigest()
            if nontrivial is None or nontrivial(c):
                self._nontrivial.add(h)
            if not v["pass"]:
                self.fail_case(c, v)
        self.cov["distinct_nontrivial"] = len(self._nontrivial)
        rnd = random.Random(self.seed)
        passing = [c for c, v in zip(cases, verdicts) if v["pass"]]
        for c in rnd.sample(passing, min(2, len(passing))):
            if len(self.cov["samples"]) < 8:
                self.cov["samples"].append(c)

    def fail_case(self, case, verdict):
        f = match_finding(self.prop, case, verdict, self.findings)
        if f:
            self.known.setdefault(f["key"], f"{f['what']}")
            return
        path = self.write_replay(case, verdict)
        self.violations.append((f"case {case['id']}: {verdict['why']}", path))
        if len(self.cov["samples"]) < 8:
            self.cov["samples"].insert(0, {"FAILING": case, "verdict": verdict})

    def violation(self, what, replay_obj):
        path = self.write_replay(replay_obj, {"why": what})
        self.violations.append((what, path))

    def write_replay(self, case, verdict):
        d = os.path.join(WORK, "replays")
        os.makedirs(d, exist_ok=True)
        cid = re.sub(r"[^A-Za-z0-9_.-]", "_", str(case.get("id", "x")))[:80]
        path = os.path.join(d, f"{self.prop}-{cid}.json")
        with open(path, "w") as f:
            json.dump({"property": self.prop, "case": case, "verdict": verdict}, f, indent=1)
        return path

    def finish(self):
        os.makedirs(EVID, exist_ok=True)
        ev = {"property_id": self.prop, "tier": self.tier, "seed": self.seed, "level": self.level,
              "coverage": self.cov, "assumptions": self.assumptions,
              "wall_s": round(time.time() - self.t0, 1), "violations": len(self.violations),
              "known_findings_reported": sorted(self.known), "notes": self.notes}
        if not self.cov["samples"]:
            self.cov["samples"] = ["(no case sampled)"]
        with open(os.path.join(EVID, f"{self.prop}.json"), "w") as f:
            json.dump(ev, f, indent=1, default=str)
        for k, what in sorted(self.known.items()):
            print(f"KNOWN-FINDING: property={self.prop} {k}: {what}")
        seen = 0
        for what, path in self.violations:
            seen += 1
            if seen <= 20:
                print(f"VIOLATION property={self.prop} replay={path}")
                log(f"  {what[:300]}")
        if len(self.violations) > 20:
            log(f"  ... {len(self.violations)-20} more violations")
        sys.stdout.flush()
        return 1 if self.violations else 0


def seed_from_env(default=1):
    try:
        return int(os.environ.get("VERIF_SEED", default))
    except ValueError:
        return default


# --------------------------------------------------------------------------- VM trace validation (spec/Trace_Vm.tla)

def _tlc_vm_trace(path, workdir, idx, timeout):
    """Validate one NDJSON event trace against Trace_Vm.tla.  Returns a dict: accepted, events, unmodelled,
    flags (list of [tag, event index]), rejected_at (event index or None), invariant (name or None)."""
    md = os.path.join(workdir, f"vmmd{idx}")
    shutil.rmtree(md, ignore_errors=True)
    env = dict(os.environ, TRACE=path, JAVA_TOOL_OPTIONS="-Xss1g -Xmx3g -Dtlc2.tool.queue.IStateQueue=StateDeque")
    cmd = ["timeout", str(timeout), "tlc", "-workers", "1", "-metadir", md, "-cleanup", "-noGenerateSpecTE",
           "-config", os.path.join(SPEC, "Trace_Vm.cfg"), os.path.join(SPEC, "Trace_Vm.tla")]
    p = subprocess.run(cmd, env=env, cwd=SPEC, capture_output=True, text=True)
    shutil.rmtree(md, ignore_errors=True)
    out = p.stdout
    res = {"path": path, "accepted": False, "events": 0, "unmodelled": 0, "flags": [], "rejected_at": None,
           "invariant": None, "rc": p.returncode}
    m = re.search(r'"TRACE-DONE",\s*\[\s*events \|-> (\d+),\s*unmodelled \|-> (\d+),\s*flags \|->\s*(\{.*?\})\s*\]', out, re.S)
    if m:
        res["events"] = int(m.group(1))
        res["unmodelled"] = int(m.group(2))
        res["flags"] = [[t, int(i)] for t, i in re.findall(r'<<"([^"]+)", (\d+)>>', m.group(3))]
    m2 = re.search(r'"TRACE-REJECTED at event",\s*(\d+)', out)
    if m2:
        res["rejected_at"] = int(m2.group(1))
    m3 = re.search(r"Invariant (\w+) is violated", out)
    if m3 and m3.group(1) != "Report":
        res["invariant"] = m3.group(1)
        m4 = re.findall(r"/\\ l = (\d+)", out)
        if m4:
            res["rejected_at"] = int(m4[-1])
    if p.returncode == 124:
        res["timeout"] = True
    elif "TRACE-DONE" in out and not m2 and not res["invariant"]:
        res["accepted"] = True
    elif not m2 and not res["invariant"]:
        res["tool_error"] = out[-1500:]
    return res


def vm_trace_validate(cases, workdir, name, cap=3000, tlc_jobs=8, timeout=900, env_extra=None):
    """Record VM-level event traces of the cases on the real engine (JIT off: the dispatch loop is the
    subject) and validate them against spec/Trace_Vm.tla.  Returns (summary dict, list of problems);
    a problem = {kind: rejected|flag|invariant, tag, case_id, event, file, line}."""
    from concurrent.futures import ThreadPoolExecutor
    tdir = os.path.join(workdir, f"vmtrace-{name}")
    shutil.rmtree(tdir, ignore_errors=True)
    os.makedirs(tdir)
    env = {"STEEL_JIT": "false", "VERIF_VMTRACE": tdir + "/", "VERIF_VMTRACE_CAP": str(cap)}
    if env_extra:
        env.update(env_extra)
    verdicts = replay(cases, workdir, env_extra=env, jobs=12, timeout_ms=30000, name=f"vmrec.{name}")
    files = sorted(os.path.join(tdir, f) for f in os.listdir(tdir) if f.endswith(".ndjson"))
    # a replayer process that died (panic below native frames, stack overflow) leaves a cut last line
    for path in files:
        with open(path, errors="replace") as f:
            lines = f.readlines()
        good = []
        for ln in lines:
            try:
                json.loads(ln)
                good.append(ln if ln.endswith("\n") else ln + "\n")
            except ValueError:
                pass
        if len(good) != len(lines):
            with open(path, "w") as f:
                f.writelines(good)
    files = [p_ for p_ in files if os.path.getsize(p_) > 0]
    t0 = time.time()
    with ThreadPoolExecutor(max_workers=tlc_jobs) as ex:
        results = list(ex.map(lambda a: _tlc_vm_trace(a[1], workdir, f"{name}{a[0]}", timeout), enumerate(files)))
    problems = []
    summary = {"traces": 0, "events": 0, "unmodelled": 0, "accepted_files": 0, "files": len(files), "cases_recorded": 0}

    def case_of(path, evno):
        cid, n = None, 0
        with open(path) as f:
            for i, line in enumerate(f, 1):
                if i > evno:
                    break
                if line.startswith('{"id"') or '"k":"case"' in line:
                    try:
                        o = json.loads(line)
                        if o.get("k") == "case":
                            cid = o["id"]
                    except Exception:
                        pass
        return cid

    # a rejected / invariant-violating case hides the rest of its file: cut the case out and validate
    # the remainder again (every case starts from a reset, so the remainder is a trace of its own)
    def cut_case(path, evno, newpath):
        with open(path) as f:
            lines = f.readlines()
        starts = [i for i, ln in enumerate(lines) if '"k":"case"' in ln]
        cur = max([i for i in starts if i < max(evno, 1)] or [0])
        nxt = min([i for i in starts if i > cur] or [len(lines)])
        with open(newpath, "w") as f:
            f.writelines(lines[:cur] + lines[nxt:])
        return len(lines[:cur] + lines[nxt:])
    rounds = 0
    pending = [res for res in results if not res["accepted"] and not res.get("tool_error") and not res.get("timeout")]
    while pending and rounds < 12:
        rounds += 1
        nxt = []
        for res in pending:
            ev = res["rejected_at"] or 0
            newpath = res["path"] + f".r{rounds}"
            if cut_case(res["path"], ev, newpath) == 0:
                continue
            res2 = _tlc_vm_trace(newpath, workdir, f"{name}r{rounds}", timeout)
            results.append(res2)
            if not res2["accepted"] and not res2.get("tool_error") and not res2.get("timeout"):
                nxt.append(res2)
        pending = nxt
    for res in results:
        with open(res["path"]) as f:
            ncases = sum(1 for line in f if '"k":"case"' in line)
        if ".ndjson.r" not in res["path"]:
            summary["cases_recorded"] += ncases
        if res.get("tool_error") or res.get("timeout"):
            raise ToolError(f"Trace_Vm.tla on {res['path']}: " + (res.get("tool_error") or "timeout"))
        if res["accepted"]:
            summary["accepted_files"] += 1
            summary["traces"] += ncases
            summary["events"] += res["events"]
            summary["unmodelled"] += res["unmodelled"]
            for tag, ev in res["flags"]:
                problems.append({"kind": "flag", "tag": tag, "event": ev, "file": res["path"], "case_id": case_of(res["path"], ev)})
        else:
            ev = res["rejected_at"] or 0
            problems.append({"kind": "invariant" if res["invariant"] else "rejected",
                             "tag": res["invariant"] or "spec-drift: the event is not a step of Vm.tla",
                             "event": ev, "file": res["path"], "case_id": case_of(res["path"], ev)})
    log(f"[vmtrace] {name}: {summary['files']} trace files, {summary['cases_recorded']} cases, {summary['events']} events "
        f"validated in {time.time()-t0:.1f}s, unmodelled {summary['unmodelled']}, problems {len(problems)}")
    return summary, problems, verdicts


def vm_trace_selftest(workdir, name):
    """Non-vacuity of the binding: an accepted trace with ONE field of ONE event changed (the stack length
    after a call that entered a closure; the address a return goes to) must be rejected."""
    tdir = os.path.join(workdir, f"vmtrace-{name}")
    files = sorted(os.path.join(tdir, f) for f in os.listdir(tdir) if f.endswith(".ndjson"))

    def find(evs, tag):
        for i in range(1, len(evs)):
            a, b = evs[i - 1], evs[i]
            if a.get("k") != "step" or b.get("k") != "step":
                continue
            if tag == "call-sl" and b.get("fl") == a.get("fl", 0) + 1:
                return i, dict(b, sl=b["sl"] + 1)
            if tag == "tail-sl" and a.get("op") in ("TCOJMP", "SELFTAILCALLNOARITY", "CALLGLOBALTAIL", "CALLGLOBALTAILNOARITY", "TAILCALL") \
                    and b.get("fl") == a.get("fl") and b.get("ip") == 0:
                return i, dict(b, sl=b["sl"] + 1)
            if tag == "ret-ip" and a.get("op") in ("POPPURE", "POPJMP") and b.get("fl") == a.get("fl", 0) - 1:
                return i, dict(b, ip=b["ip"] + 1)
        return None

    done = []
    for path in files:
        with open(path) as f:
            lines = f.readlines()
        starts = [i for i, ln in enumerate(lines) if '"k":"case"' in ln] + [len(lines)]
        for tag in ("call-sl", "ret-ip", "tail-sl"):
            if tag in done:
                continue
            for a, b in zip(starts, starts[1:]):
                seg = lines[a:min(b, a + 3500)]       # a prefix of a behaviour is a behaviour
                evs = []
                for ln in seg:
                    try:
                        evs.append(json.loads(ln))
                    except Exception:
                        evs.append({})
                tr = [i for i, e in enumerate(evs) if e.get("k") == "trunc"]
                if tr:
                    seg, evs = seg[:tr[0]], evs[:tr[0]]
                m = find(evs, tag)
                if not m:
                    continue
                base = path + ".st0"
                with open(base, "w") as f:
                    f.writelines(seg)
                if not _tlc_vm_trace(base, workdir, f"{name}st0", 300)["accepted"]:
                    continue
                i, ev = m
                mp = path + ".st-" + tag
                with open(mp, "w") as f:
                    f.writelines(seg[:i] + [json.dumps(ev, separators=(",", ":")) + "\n"] + seg[i + 1:])
                res = _tlc_vm_trace(mp, workdir, f"{name}st{tag}", 300)
                if res["accepted"] or res.get("tool_error") or res.get("timeout"):
                    raise ToolError(f"Trace_Vm.tla self-test: mutated trace ({tag} at event {i + 1} of {mp}) was not rejected: {res}")
                done.append(tag)
                break
        if len(done) == 3:
            return done
    if len(done) >= 2:
        return done
    raise ToolError(f"Trace_Vm.tla self-test: no accepted case with a closure call and a return to mutate (found {done})")


def vm_trace_check(r, cases, workdir, name, cap=3000, selftest=True, env_extra=None):
    """impl -> spec binding for C01 / C07 / C08 / C09: the cases run on the real engine with the VM hooks on
    (interpreter), every recorded trace must be a behaviour of spec/Vm.tla (Trace_Vm.tla).  A rejected trace,
    a violated invariant of Vm.tla on the reconstructed state, or a verdict flag is a failing verdict of the
    case (attributed to a known finding only through its textual signature)."""
    summary, problems, verdicts = vm_trace_validate(cases, workdir, name, cap=cap, env_extra=env_extra)
    r.cov["traces_validated_against_impl"] += summary["traces"]
    r.cov.setdefault("vm_traces", {})[name] = summary
    bycase = {c["id"]: c for c in cases}
    for p in problems:
        case = bycase.get(p["case_id"]) or {"id": str(p["case_id"]), "steps": []}
        excerpt = []
        try:
            with open(p["file"]) as f:
                lines = f.readlines()
            excerpt = [ln.strip() for ln in lines[max(0, p["event"] - 6):p["event"] + 1]]
        except OSError:
            pass
        why = f"vmtrace {p['kind']}: {p['tag']} (event {p['event']} of the recorded trace)"
        r.fail_case(dict(case, id=case["id"] + "@vmtrace", vm_trace_excerpt=excerpt, vmtrace=True), {"pass": False, "why": why})
    if selftest:
        r.notes.append(f"Trace_Vm self-test ({name}): mutations rejected: " + ", ".join(vm_trace_selftest(workdir, name)))
    return summary, problems, verdicts
