"""C19 - unreachable mutable storage, including cycles, is eventually reclaimed (Heap.tla)."""
import os
import vlib

PROP = "C19"

# garbage patterns: each `(pat@@ i)` creates storage that is unreachable when it returns
PATTERNS = {
    "acyclic-box": "(define (pat@@ i) (box (box i)) 'ok)",
    "cycle-2-boxes": "(define (pat@@ i) (let ([a (box i)] [b (box 0)]) (set-box! a b) (set-box! b a) 'ok))",
    "self-box": "(define (pat@@ i) (let ([a (box i)]) (set-box! a a) 'ok))",
    "cycle-3-mvectors": "(define (pat@@ i) (let ([a (mutable-vector i 0)] [b (mutable-vector i 0)] [c (mutable-vector i 0)]) (vector-set! a 1 b) (vector-set! b 1 c) (vector-set! c 1 a) 'ok))",
    "struct-cycle": "(struct node@@ (v next) #:mutable) (define (pat@@ i) (let ([a (node@@ i #f)] [b (node@@ i #f)]) (set-node@@-next! a b) (set-node@@-next! b a) 'ok))",
    "self-capturing-closure": "(define (pat@@ i) (let ([f #f]) (set! f (lambda () (if (= i -1) (f) i))) (f)))",
    "closure-in-box-cycle": "(define (pat@@ i) (let ([b (box #f)]) (set-box! b (lambda () (unbox b))) 'ok))",
    "list-of-boxes-in-box": "(define (pat@@ i) (let ([b (box '())]) (set-box! b (list (box i) b (box i))) 'ok))",
    "dead-continuation": "(define (pat@@ i) (let ([b (box i)]) (call/cc (lambda (k) (set-box! b k) 'ok))))",
    "hash-holding-box-cycle": "(define (pat@@ i) (let ([b (box #f)]) (set-box! b (hash 'self b 'n i)) 'ok))",
}
ROUNDS = 14   # > RESET_LIMIT + 2 full collections: at least one compaction falls inside
DRIVER = "(define (drive@@ n) (let loop ([i 0]) (if (< i n) (begin (pat@@ i) (loop (+ i 1))) 'done)))"


def case(name, pat, n, tag):
    steps = [{"src": pat + " " + DRIVER, "class": "ok"},
             {"src": f"(drive@@ {n})", "class": "ok"},
             {"src": "(#%gc-collect)", "class": "ok"},
             # accounting and boundedness after a full collection
             {"op": "heap_stats", "class": "ok", "emit": ["slots<=bound", "accounting:exact", "live:small", "slots<=bound", "accounting:exact", "live:small"]},
             {"src": f"(drive@@ {n})", "class": "ok"},
             {"src": "(#%gc-collect)", "class": "ok"},
             {"op": "heap_stats", "class": "ok", "emit": ["slots<=bound", "accounting:exact", "live:small", "slots<=bound", "accounting:exact", "live:small"]},
             # boundedness over the collector's whole growth / compaction cycle: ROUNDS full collections with
             # fresh garbage of this pattern in between; the slot count must come back down and stay under the ceiling
             {"op": f"gc_rounds:{ROUNDS}:(drive@@ {n // 4})", "class": "ok",
              "emit": ["min-slots:small", "max-slots:bounded", "accounting:exact", "live:small"]}]
    return {"id": f"{tag}-{name}-{n}", "fresh": True, "tag": f"pattern:{name}", "steps": steps}


# Heap.tla C19a ("the accounted free count is the number of free slots") is an invariant of EVERY state; on the
# real heap it is evaluated by the accounting sensor (hook) whenever a slot is handed out after a collection,
# growth or compaction - whichever allocation path triggered it.  The product below makes every allocation path
# trigger collections, with the live sets of the two lists (values / vectors) balanced and unbalanced either way.
LIVE = {
    "none": "(define keep@@ '())",
    "boxes": "(define keep@@ (let loop ([i 0] [acc '()]) (if (< i 6000) (loop (+ i 1) (cons (box i) acc)) acc)))",
    "vectors": "(define keep@@ (let loop ([i 0] [acc '()]) (if (< i 300) (loop (+ i 1) (cons (make-vector 3 i) acc)) acc)))",
    "both": "(define keep@@ (let loop ([i 0] [acc '()]) (if (< i 300) (loop (+ i 1) (cons (box i) (cons (make-vector 2 i) acc))) acc)))",
}
GARBAGE = {
    "box": "(box i)",
    "make-vector": "(make-vector 2 i)",
    "mutable-vector": "(mutable-vector i i)",
    "vector": "(vector i i i)",
    "cyclic-vector": "(let ([v (make-vector 2 i)]) (vector-set! v 0 v) v)",
    "box-and-vector": "(box (make-vector 1 (box i)))",
}


def path_case(live, garbage, n):
    steps = [{"src": LIVE[live] + f" (define (drive@@ n) (let loop ([i 0]) (if (< i n) (begin {GARBAGE[garbage]} (loop (+ i 1))) 'done)))", "class": "ok"},
             {"src": f"(drive@@ {n})", "class": "ok"},
             {"src": f"(drive@@ {n})", "class": "ok"},
             # the live set is intact, and after an explicit full collection the accounting is exact as well
             {"src": "(emit (length keep@@))", "class": "ok", "emit": [{"none": "0", "boxes": "6000", "vectors": "300", "both": "600"}[live]]},
             {"src": "(#%gc-collect)", "class": "ok"},
             {"op": "heap_acct", "class": "ok", "emit": ["accounting:exact", "accounting:exact"]},
             {"src": f"(drive@@ {n // 4})", "class": "ok"}]
    return {"id": f"path-{live}-{garbage}-{n}", "fresh": True, "tag": f"path:{live}:{garbage}", "steps": steps}


# Heap.tla C19b (precision): after a full collection a slot is marked only if it is reachable from the roots AS THEY ARE
# NOW.  Storage that WAS a root (or reachable from one) during an earlier full collection and has been released since
# must be reclaimed by the next ones - whatever kind of root held it.
MK = "(let loop ([i 0] [acc '()]) (if (< i 5000) (loop (+ i 1) (cons (box i) acc)) acc))"
FORMER_ROOTS = {
    # kind of root: (hold while a full collection runs, release)
    "global": ([f"(define held@@ {MK})", "(#%gc-collect)"], ["(begin (set! held@@ #f) 'released)"]),
    # (a shadowed slot keeps its value until the global-slot recycler has run - policy: after 100 shadowings; the
    #  host op forces that point, "eventually" starts there)
    "shadowed-global": ([f"(define held@@ {MK})", "(#%gc-collect)"], ["(define held@@ 0)", {"op": "force_recycle"}]),
    "global-vector": ([f"(define held@@ (list->vector {MK}))", "(#%gc-collect)"], ["(begin (set! held@@ #f) 'released)"]),
    "closure-capture": ([f"(define held@@ (let ([data {MK}]) (lambda () (length data))))", "(#%gc-collect)"], ["(begin (set! held@@ #f) 'released)"]),
    "box-in-global": ([f"(define held@@ (box {MK}))", "(#%gc-collect)"], ["(begin (set-box! held@@ '()) 'released)"]),
    "stack-local": ([f"(define (hold@@) (let ([data {MK}]) (#%gc-collect) (length data)))", "(emit (hold@@))"], []),
    "argument-temporary": ([f"(define (f@@ a b) (length a))", f"(emit (f@@ {MK} (#%gc-collect)))"], []),
    "finished-thread": ([f"(emit (thread-join! (spawn-native-thread (lambda () (let ([data {MK}]) (#%gc-collect) (length data))))))"], []),
    "continuation": ([f"(define held@@ #f) (emit (let ([data {MK}]) (+ (call/cc (lambda (k) (set! held@@ k) 0)) (length data))))", "(#%gc-collect)"],
                     ["(begin (set! held@@ #f) 'released)"]),
    "hash-in-global": ([f"(define held@@ (hash 'k {MK}))", "(#%gc-collect)"], ["(begin (set! held@@ #f) 'released)"]),
    "host-rooted": ([f"(define held@@ {MK})", {"op": "root:held@@"}, "(begin (set! held@@ 0) 'host-only)", "(#%gc-collect)"], [{"op": "unroot_all"}]),
}


def former_root_case(kind):
    hold, release = FORMER_ROOTS[kind]
    def st(x):
        return dict(x, **{"class": "ok"}) if isinstance(x, dict) else {"src": x, "class": "any" if x.startswith("(emit") else "ok"}
    steps = [st(x) for x in hold + release]
    # two full collections after the release: the storage is garbage, and the second one sees no trace of the first
    steps += [{"src": "(#%gc-collect)", "class": "ok"}, {"src": "(#%gc-collect)", "class": "ok"},
              {"op": "heap_stats", "class": "ok", "emit": ["slots<=bound", "accounting:exact", "live:small", "slots<=bound", "accounting:exact", "live:small"]}]
    return {"id": f"former-root-{kind}", "fresh": True, "tag": f"former-root:{kind}", "steps": steps}


WEAK = [
    # a weak box whose target has become unreachable reports so after a collection
    ("weak-dropped", ["(define wb@@ (let ([b (box 1)]) (make-weak-box b)))", "(#%gc-collect)", "(emit (weak-box-value wb@@))"], ["#false"]),
    ("weak-cycle-dropped", ["(define wb@@ (let ([a (box 1)] [b (box 2)]) (set-box! a b) (set-box! b a) (make-weak-box a)))", "(#%gc-collect)", "(emit (weak-box-value wb@@ 'gone))"], ["gone"]),
    ("weak-shadowed-global", ["(define tgt@@ (box 1))", "(define wb@@ (make-weak-box tgt@@))", "(set! tgt@@ #f)", "(#%gc-collect)", "(emit (weak-box-value wb@@))"], ["#false"]),
    ("weak-finished-thread", ["(define wb@@ (thread-join! (spawn-native-thread (lambda () (let ([b (box 1)]) (make-weak-box b))))))", "(#%gc-collect)", "(emit (weak-box-value wb@@))"], ["#false"]),
]


def run(tier, seed):
    work = os.path.join(vlib.WORK, PROP)
    r = vlib.Result(PROP, tier, seed)
    # design: accounting (C19a) and precision after a full collection (C19b) for every history
    res = vlib.run_tlc("Heap", "MC_Heap_fixed.cfg", work, workers=8, timeout=900, allow_violation=True)
    r.add_tlc(res)
    if res["violation"]:
        r.violation(f"Heap.tla violates {res.get('violated')}", {"id": "model", "tlc": res["violation"][:3000]})
    n = 120000 if tier == "quick" else 1500000
    cases = [case(name, pat, n, "gc") for name, pat in PATTERNS.items()]
    cases += [path_case(lv, g, 30000 if tier == "quick" else 400000) for lv in LIVE for g in GARBAGE]
    cases += [former_root_case(k) for k in FORMER_ROOTS]
    for name, srcs, exp in WEAK:
        steps = [{"src": s, "class": "ok"} for s in srcs]
        steps[-1]["emit"] = exp
        cases.append({"id": "weak-" + name, "fresh": True, "tag": "weak", "steps": steps})
    acct_checks = 0
    for env in ({}, {"STEEL_JIT": "false"}):
        verdicts = vlib.replay(cases, work, env_extra=dict(env, VERIF_ACCT_CHECK="1"), jobs=12, timeout_ms=600000, name="c19")
        tagged = [dict(c, id=c["id"] + ("@nojit" if env else "")) for c in cases]
        for t, v in zip(tagged, verdicts):
            v["id"] = t["id"]
        r.add_cases(tagged, verdicts, nontrivial=lambda c: True)
        # non-vacuity of the sensor: every path case must have had its accounting compared several times
        import re
        for c, v in zip(cases, verdicts):
            m = re.search(r"acct-checks=(\d+)", v.get("tag", ""))
            nchk = int(m.group(1)) if m else 0
            acct_checks += nchk
            if c["tag"].startswith("path:") and v["pass"] and nchk < 2:
                raise vlib.ToolError(f"accounting sensor made {nchk} comparisons in {c['id']}: the workload did not trigger collections")
    r.cov["rule"] = (f"Heap.tla invariants C19a (accounting) and C19b (precision after a full collection) for every history; "
                     f"10 garbage patterns (acyclic, cycles through boxes / mutable vectors / mutable structs / closures / continuations / hash maps) "
                     f"x {n} iterations twice on the real engine: after a full collection at most 2000 slots are still marked reachable, the slot count stays under a fixed bound and "
                     f"the accounted free count equals the number of free slots (heap_stats hook); weak boxes of dropped targets report #false after a collection; "
                     f"accounting sensor on in every case (C19a evaluated whenever a slot is handed out after a collection / growth / compaction), and the product "
                     f"live set (none / boxes / vectors / both) x garbage allocation path ({', '.join(GARBAGE)}) so that every allocation path triggers collections; "
                     f"former roots (C19b): 5000 boxes held by each kind of root ({', '.join(FORMER_ROOTS)}) while a full collection runs, then released: two collections later at most 2000 slots are marked")
    r.notes.append(f"accounting sensor: {acct_checks} comparisons of accounted vs actual free slots after collections / growth / compaction")
    return r.finish()


def replay_file(path):
    return vlib.replay_file(PROP, path)
