"""C19 - unreachable mutable storage, including cycles, is eventually reclaimed (Heap.tla)."""
import os
import vlib

PROP = "C19"

# garbage patterns: each `(pat@@ i)` creates storage that is unreachable when it returns
PATTERNS = {
    "acyclic-box": "(define (pat@@ i) (box (box i)) 'ok)",
    "cycle-2-boxes": "(define (pat@@ i) (let ([a (box i)] [b (box 0)]) (set-box! a b) (set-box! b a) 'ok))",
    "self-box": "(define (pat@@ i) (let ([a (box i)]) (set-box! a a) 'ok))",
    "cycle-3-mvectors": "(define (pat@@ i) (let ([a (mutable-vector i 0)] [b (mutable-vector i 0)] [c (mutable-vector i 0)]) (vector-set! a 1 b) (vector-set! b 1 c) (vector-set! c 1 a) 'ok))",
    "struct-cycle": "(struct node@@ (v next) #:mutable) (define (pat@@ i) (let ([a (node@@ i #f)] [b (node@@ i #f)]) (set-node@@-next! a b) (set-node@@-next! b a) 'ok))",
    "self-capturing-closure": "(define (pat@@ i) (let ([f #f]) (set! f (lambda () (if (= i -1) (f) i))) (f)))",
    "closure-in-box-cycle": "(define (pat@@ i) (let ([b (box #f)]) (set-box! b (lambda () (unbox b))) 'ok))",
    "list-of-boxes-in-box": "(define (pat@@ i) (let ([b (box '())]) (set-box! b (list (box i) b (box i))) 'ok))",
    "dead-continuation": "(define (pat@@ i) (let ([b (box i)]) (call/cc (lambda (k) (set-box! b k) 'ok))))",
    "hash-holding-box-cycle": "(define (pat@@ i) (let ([b (box #f)]) (set-box! b (hash 'self b 'n i)) 'ok))",
}
ROUNDS = 14   # > RESET_LIMIT + 2 full collections: at least one compaction falls inside
DRIVER = "(define (drive@@ n) (let loop ([i 0]) (if (< i n) (begin (pat@@ i) (loop (+ i 1))) 'done)))"


def case(name, pat, n, tag):
    steps = [{"src": pat + " " + DRIVER, "class": "ok"},
             {"src": f"(drive@@ {n})", "class": "ok"},
             {"src": "(#%gc-collect)", "class": "ok"},
             # accounting and boundedness after a full collection
             {"op": "heap_stats", "class": "ok", "emit": ["slots<=bound", "accounting:exact", "live:small", "slots<=bound", "accounting:exact", "live:small"]},
             {"src": f"(drive@@ {n})", "class": "ok"},
             {"src": "(#%gc-collect)", "class": "ok"},
             {"op": "heap_stats", "class": "ok", "emit": ["slots<=bound", "accounting:exact", "live:small", "slots<=bound", "accounting:exact", "live:small"]},
             # boundedness over the collector's whole growth / compaction cycle: ROUNDS full collections with
             # fresh garbage of this pattern in between; the slot count must come back down and stay under the ceiling
             {"op": f"gc_rounds:{ROUNDS}:(drive@@ {n // 4})", "class": "ok",
              "emit": ["min-slots:small", "max-slots:bounded", "accounting:exact", "live:small"]}]
    return {"id": f"{tag}-{name}-{n}", "fresh": True, "tag": f"pattern:{name}", "steps": steps}


WEAK = [
    # a weak box whose target has become unreachable reports so after a collection
    ("weak-dropped", ["(define wb@@ (let ([b (box 1)]) (make-weak-box b)))", "(#%gc-collect)", "(emit (weak-box-value wb@@))"], ["#false"]),
    ("weak-cycle-dropped", ["(define wb@@ (let ([a (box 1)] [b (box 2)]) (set-box! a b) (set-box! b a) (make-weak-box a)))", "(#%gc-collect)", "(emit (weak-box-value wb@@ 'gone))"], ["gone"]),
    ("weak-shadowed-global", ["(define tgt@@ (box 1))", "(define wb@@ (make-weak-box tgt@@))", "(set! tgt@@ #f)", "(#%gc-collect)", "(emit (weak-box-value wb@@))"], ["#false"]),
    ("weak-finished-thread", ["(define wb@@ (thread-join! (spawn-native-thread (lambda () (let ([b (box 1)]) (make-weak-box b))))))", "(#%gc-collect)", "(emit (weak-box-value wb@@))"], ["#false"]),
]


def run(tier, seed):
    work = os.path.join(vlib.WORK, PROP)
    r = vlib.Result(PROP, tier, seed)
    # design: accounting (C19a) and precision after a full collection (C19b) for every history
    res = vlib.run_tlc("Heap", "MC_Heap_fixed.cfg", work, workers=8, timeout=900, allow_violation=True)
    r.add_tlc(res)
    if res["violation"]:
        r.violation(f"Heap.tla violates {res.get('violated')}", {"id": "model", "tlc": res["violation"][:3000]})
    n = 120000 if tier == "quick" else 1500000
    cases = [case(name, pat, n, "gc") for name, pat in PATTERNS.items()]
    for name, srcs, exp in WEAK:
        steps = [{"src": s, "class": "ok"} for s in srcs]
        steps[-1]["emit"] = exp
        cases.append({"id": "weak-" + name, "fresh": True, "tag": "weak", "steps": steps})
    for env in ({}, {"STEEL_JIT": "false"}):
        verdicts = vlib.replay(cases, work, env_extra=env, jobs=12, timeout_ms=600000, name="c19")
        tagged = [dict(c, id=c["id"] + ("@nojit" if env else "")) for c in cases]
        for t, v in zip(tagged, verdicts):
            v["id"] = t["id"]
        r.add_cases(tagged, verdicts, nontrivial=lambda c: True)
    r.cov["rule"] = (f"Heap.tla invariants C19a (accounting) and C19b (precision after a full collection) for every history; "
                     f"10 garbage patterns (acyclic, cycles through boxes / mutable vectors / mutable structs / closures / continuations / hash maps) "
                     f"x {n} iterations twice on the real engine: after a full collection at most 2000 slots are still marked reachable, the slot count stays under a fixed bound and "
                     f"the accounted free count equals the number of free slots (heap_stats hook); weak boxes of dropped targets report #false after a collection")
    return r.finish()


def replay_file(path):
    return vlib.replay_file(PROP, path)
