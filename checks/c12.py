"""C12 - reading is total and inverse to writing (Datum.tla).

(a) write/read round trip: Datum.tla enumerates data, computes the reader-free constructor,
    the external representation `ext` and two alternative spellings; each datum becomes eight
    engine cases (w, rt, rd-ext, rd-alt1, rd-alt2, q-ext, q-alt1, q-alt2).  The escape-syntax generator
    (MODE = "esc") adds, per context x syntax x hex-digit string, the character the text must denote
    (rd-esc, q-esc) or that it must be rejected (rej-esc; parsecheck class "reject").
(b) parse/print idempotence + spans: every text the spec produced, through harness/bin/parsecheck.
(c) totality: Datum.tla's Strings generator; every text goes to parsecheck (no panic, spans inside,
    idempotence if accepted) and to the engine (class noncrash).

Isolation.  Steel's `read` keeps unread / unparsable text in one global buffer (itself a finding),
so a case that leaves residue would fail its successors on a shared engine.  Every reading case
therefore (1) starts with a sentinel read that must emit 7, (2) ends with a drain step that empties
or replaces the buffer; a case whose *sentinel* failed (a victim, not a culprit) is re-run on a
fresh engine and judged there.
"""
import hashlib
import json
import os
import random
import re

import vlib

PROP = "C12"

# Un-sticking the reader: `read` from a port that is neither a string nor a file port makes
# reader.scm replace its global buffer when the buffered text does not parse; the standard output
# of a finished child process is such a port.  Parseable residue is consumed datum by datum.
# A clean reader (the probe read gives 7) needs nothing.
READ7 = "(read (open-input-string (number->string 7)))"
SENTINEL = f"(emit {READ7}) "
DRAIN = {"class": "any", "src": (
    f"(if (equal? 7 {READ7}) 0 (let loop ((n 8)) (if (> n 0) (let ((x (with-handler (lambda (e) (void)) "
    "(let* ((c (command \"true\" (list))) (u (set-piped-stdout! c)) (ch (Ok->value (spawn-process c))) "
    "(x (with-handler (lambda (e) (void)) (read (child-stdout ch))))) (wait ch) x)))) "
    "(if (or (void? x) (eof-object? x)) 0 (loop (- n 1)))) 0)))")}


NONASCII_WS_SYMBOL = re.compile(r"string->symbol \(list->string \(map integer->char \(list[^)]* (160|8232|12288)\b")


def text_of(codes):
    return "".join(chr(c) for c in codes)


def dec(pieces):
    return "".join(p if isinstance(p, str) else text_of(p) for p in pieces)


def sha(s, n=12):
    return hashlib.sha1(s.encode("utf-8", "surrogatepass")).hexdigest()[:n]


# ----------------------------------------------------------------------------- case construction

def datum_cases(records, keep=None):
    """Datum.tla records -> engine cases (one per observation) + the texts for parsecheck.
    `keep(record)` = False drops a datum (tier sampling, by structure only)."""
    cases, texts, seen = [], {}, set()
    for c in records:
        if c.get("kind") != "datum" or c["ctor"] in seen:
            continue
        seen.add(c["ctor"])
        if keep is not None and not keep(c):
            continue
        h = sha(c["ctor"])
        ext = text_of(c["ext"])
        for fam in ("ext", "alt1", "alt2"):
            texts.setdefault(text_of(c[fam]), fam)
        for st in c["steps"]:
            if st["reads"]:
                steps = [{"src": SENTINEL + dec(st["src"]), "class": "ok", "emit": ["7"] + st["emit"]}, DRAIN]
            else:
                steps = [{"src": dec(st["src"]), "class": "ok", "emit": st["emit"]}]
            # isolation: a written symbol with non-ASCII white space in its name wedges Steel's reader for
            # good (no drain can help: finding C12-read-wedged-after-multibyte-whitespace) -> own engine
            fresh = st["name"] == "rt" and bool(NONASCII_WS_SYMBOL.search(c["ctor"]))
            cases.append({"id": f"d-{h}-{st['name']}", "fresh": fresh,
                          "tag": f"{st['name']}|{ext}", "steps": steps,
                          "reads": st["reads"],
                          "nodes": c["nodes"]})
    return cases, texts


def esc_cases(records):
    """Escape-syntax cases (MODE = "esc"): accepted texts are read at run time and through quote and must
    give the character the spec computed; rejected texts must be rejected by both readers."""
    cases, texts = [], {}
    for c in records:
        if c.get("kind") != "esc":
            continue
        text = text_of(c["text"])
        h = sha(text)
        if c["accept"]:
            texts.setdefault(text, ("esc", "accept"))
            for st in c["steps"]:
                if st["reads"]:
                    steps = [{"src": SENTINEL + dec(st["src"]), "class": "ok", "emit": ["7"] + st["emit"]}, DRAIN]
                else:
                    steps = [{"src": dec(st["src"]), "class": "ok", "emit": st["emit"]}]
                cases.append({"id": f"x-{h}-{st['name']}", "fresh": False, "tag": f"{st['name']}|{text}",
                              "steps": steps, "reads": st["reads"], "nodes": 1})
        else:
            texts.setdefault(text, ("esc-reject", "reject"))
            cases.append({"id": f"x-{h}-rej", "fresh": False, "tag": f"rej-esc|{text}", "reads": False, "nodes": 1,
                          "steps": [{"src": f"(emit (quote {text}))", "class": "err", "emit": []}]})
    return cases, texts


def parse_case(text, fam, expect):
    return {"id": f"p-{sha(text, 16)}", "fresh": False, "tag": f"parse:{fam}",
            "steps": [{"src": text, "class": expect}]}


def engine_text_case(text):
    return {"id": f"e-{sha(text, 16)}", "fresh": False, "tag": "engine:text",
            "steps": [{"src": text, "class": "noncrash"}]}


def read_text_case(text):
    codes = " ".join(str(ord(ch)) for ch in text)
    return {"id": f"r-{sha(text, 16)}", "fresh": False, "tag": f"read:text|{text}",
            "steps": [{"src": f"(read (open-input-string (list->string (map integer->char (list {codes})))))",
                       "class": "noncrash"},
                      {"src": READ7, "class": "noncrash"}, DRAIN]}


def number_text_case(text):
    """the runtime numeric reader is total as well: a number or #f, in every radix"""
    codes = " ".join(str(ord(ch)) for ch in text)
    s = f"(list->string (map integer->char (list {codes})))"
    return {"id": f"n-{sha(text, 16)}", "fresh": False, "tag": f"number:text|{text}",
            "steps": [{"src": f"(let ([s {s}]) (list (string->number s) (string->number s 16) (string->number s 2) (string->symbol s) (string->list s)))", "class": "noncrash"}]}


def numlit_case(c):
    """a text of the numeric-literal grammar is a number for the compiler's reader and for string->number,
    of the exactness its spelling says, and what number->string makes of it is a number again"""
    t = c["text"]
    ex = "#false" if c["inexact"] else "#true"
    if c["cplx"]:
        src = (f"(let ([v (quote {t})] [w (string->number \"{t}\")]) (emit (list (number? v) (number? w) "
               f"(if (number? v) (number? (string->number (number->string v))) 'not-a-number))))")
        exp = ["(#true #true #true)"]
    else:
        src = (f"(let ([v (quote {t})] [w (string->number \"{t}\")]) (emit (list (number? v) (number? w) "
               f"(if (number? v) (exact? v) 'not-a-number) (if (and (number? v) (number? w)) (= v w) 'not-a-number) "
               f"(if (number? v) (equal? v (string->number (number->string v))) 'not-a-number))))")
        exp = [f"(#true #true {ex} #true #true)"]
    return {"id": f"nl-{sha(t, 16)}", "fresh": False, "tag": f"numlit|{'cplx' if c['cplx'] else 'real'}|{t}",
            "steps": [{"src": src, "class": "ok", "emit": exp}]}


def mkstr(text):
    return "(list->string (map integer->char (list " + " ".join(str(ord(ch)) for ch in text) + ")))"


def port_cases(records, rnd, n):
    """Every port has its own position: `read` from port P gives the next datum of P's text, whatever
    was read from other ports in between (R7RS 6.13.2).  Composed from simple leaves of the spec
    (integers, booleans, characters, strings: kinds the other findings do not touch)."""
    simple = [c for c in records if c.get("kind") == "datum" and c["nodes"] == 1
              and not any(w in c["ctor"] for w in ("string->symbol", "(/ ", "bytevector", "(list)"))]
    simple.sort(key=lambda c: c["ctor"])
    out = []
    for i in range(n):
        a, b, d = (rnd.choice(simple) for _ in range(3))
        t12 = text_of(a["ext"]) + " " + text_of(b["ext"])
        src = (SENTINEL + f"(define c12p@@ (open-input-string {mkstr(t12)})) "
               f"(emit (equal? {a['ctor']} (read c12p@@))) "
               f"(emit (equal? {d['ctor']} (read (open-input-string {mkstr(text_of(d['ext']))})))) "
               f"(emit (equal? {b['ctor']} (read c12p@@))) (emit (eof-object? (read c12p@@)))")
        out.append({"id": f"port-{i:04d}", "fresh": False, "tag": f"port|{t12} / {text_of(d['ext'])}", "reads": True,
                    "steps": [{"src": src, "class": "ok", "emit": ["7", "#true", "#true", "#true", "#true"]}, DRAIN]})
    # whatever the first port held after its datum (here: Unicode white space), a second port is unaffected
    for i, t in enumerate(["1\u00a0", "(1) \u2028 ", "\"s\"\u3000", "#\\a\u00a0\u00a0"]):
        src = (f"(read (open-input-string {mkstr(t)})) (emit {READ7})")
        out.append({"id": f"port-ws-{i}", "fresh": True, "tag": f"port-ws|{t}", "reads": True,
                    "steps": [{"src": src, "class": "ok", "emit": ["7"]}]})
    return out


# ----------------------------------------------------------------------------- running

# An engine leaks ~2 memory mappings per compiled unit (never unmapped); at vm.max_map_count (65530)
# the process aborts - measured at ~25 000 cases.  No replayer process gets more than BATCH/12 cases.
BATCH = 96000


def replay_batched(cases, work, name):
    out = []
    for k in range(0, len(cases), BATCH):
        out += vlib.replay(cases[k:k + BATCH], work, jobs=12, timeout_ms=10000, name=f"{name}{k // BATCH}")
    return out


def run_engine_data(cases, work, fresh_cap, r):
    """Round 1 on shared engines; round 2: victims of foreign residue (sentinel failed) on fresh ones."""
    run = list(cases)
    verdicts = replay_batched(run, work, "c12a")
    victims = [i for i, (c, v) in enumerate(zip(run, verdicts))
               if not v["pass"] and c["reads"] and v.get("step") == 0 and v["got"]
               and v["got"][0]["class"].startswith(("ok", "err")) and v["got"][0]["emit"][:1] != ["7"]]
    if victims:
        vlib.log(f"[c12] {len(victims)} cases met foreign reader residue; re-running them on fresh engines")
        rerun = victims[:fresh_cap]
        again = [dict(run[i], fresh=True) for i in rerun]
        v2 = vlib.replay(again, work, jobs=12, timeout_ms=10000, name="c12a2")
        for i, c, v in zip(rerun, again, v2):
            run[i] = c
            verdicts[i] = v
        if len(victims) > len(rerun):
            raise vlib.ToolError(f"{len(victims)} cases were disturbed by reader residue of other cases "
                                 f"(cap {fresh_cap}): the drain step no longer isolates cases")
    return run, verdicts


def selftest(work, sample_w):
    """Non-vacuity: a wrong expectation must be reported by each binding."""
    bad = json.loads(json.dumps(sample_w))
    bad["id"] = "mutant-w"
    bad["steps"][-1]["emit"] = ["(1 2 3)"]
    v = vlib.replay([bad], work, jobs=1, name="c12mut")[0]
    if v["pass"]:
        raise vlib.ToolError("self-test: mutant expectation for the written text was not reported")
    m2 = {"id": "mutant-rt", "fresh": True, "tag": "mutant", "steps": [
        {"src": "(emit (equal? (list 1 2) (read (open-input-string (list->string (map integer->char (list 40 49 32 51 41)))))))",
         "class": "ok", "emit": ["#true"]}]}
    v = vlib.replay([m2], work, jobs=1, name="c12mut2")[0]
    if v["pass"]:
        raise vlib.ToolError("self-test: a reader result that is not equal? to the datum was not reported")
    # the spec itself as mutant oracle: with STRICT = TRUE (no named deviation) the written text of #t
    # is "#t", Steel writes "#true" -> the replayer must report exactly the deviating leaves
    res = vlib.run_tlc("Datum", "MC_Datum_strict.cfg", work, workers=2, timeout=300)
    strict, _ = datum_cases(res["cases"])
    sw = [c for c in strict if c["id"].endswith("-w") and ("(= 0 0)" in c["steps"][0]["src"] or " 255 16)" in c["steps"][0]["src"])]
    sv = vlib.replay(sw, work, jobs=1, name="c12strict")
    if len(sw) < 2 or any(v["pass"] for v in sv):
        raise vlib.ToolError("self-test: the pure-R7RS oracle (#t, #u8(0 255 16)) was not told apart from Steel's output")
    m3 = {"id": "mutant-rej", "fresh": True, "tag": "mutant", "steps": [
        {"src": '(emit (quote "\\x100000;"))', "class": "err", "emit": []}]}
    # (only meaningful when the engine accepts that text at all: if it does not, the escape generator's own
    # cases report it as a violation, and a tool error here would hide that)
    base = {"id": "mutant-rej-base", "fresh": True, "tag": "mutant", "steps": [
        {"src": '(emit (string-length (quote "\\x100000;")))', "class": "ok", "emit": ["1"]}]}
    vb, vm = vlib.replay([base, m3], work, jobs=1, name="c12mut3")
    if vb["pass"] and vm["pass"]:
        raise vlib.ToolError("self-test: an accepted escape expected to be rejected was not reported")
    pm = [parse_case("(1 2", "mutant", "accept"), parse_case("(1 2)", "mutant", "reject")]
    pv = vlib.replay(pm, work, jobs=1, name="c12mutp", binary="parsecheck")
    if any(v["pass"] for v in pv):
        raise vlib.ToolError("self-test: parsecheck did not report a wrong acceptance expectation")
    ok = vlib.replay([parse_case("(1 (2 . 3) #(a) \"s\")", "mutant-ok", "accept")], work, jobs=1,
                     name="c12mutp2", binary="parsecheck")[0]
    if not ok["pass"]:
        raise vlib.ToolError("self-test: parsecheck rejects a plain datum: " + ok["why"])


def run(tier, seed):
    work = os.path.join(vlib.WORK, PROP)
    r = vlib.Result(PROP, tier, seed)
    rnd = random.Random(seed)
    quick = tier == "quick"

    # ---- (a) data
    cfgs = (["MC_Datum_full.cfg", "MC_Datum_midq.cfg", "MC_Datum_prog.cfg", "MC_Datum_coreq.cfg"] if quick else
            ["MC_Datum_full.cfg", "MC_Datum_mid.cfg", "MC_Datum_prog.cfg", "MC_Datum_core.cfg", "MC_Datum_coreq5.cfg"])
    records = []
    for cfg in cfgs:
        res = vlib.run_tlc("Datum", cfg, work, workers=8, timeout=900)
        r.add_tlc(res)
        for c in res["cases"]:
            c["cfg"] = cfg
        records += res["cases"]
    # budget: data with two or more quotation forms (every such text panics the parser, and a panic
    # costs the replayer a new engine) and, in the thorough tier, the 5-node data are SAMPLED (seeded)
    nq = [c["ctor"] for c in records if c.get("kind") == "datum" and c["qn"] >= 2]
    n5 = [c["ctor"] for c in records if c.get("kind") == "datum" and c["nodes"] >= 5 and c["qn"] < 2]
    kept = set(rnd.sample(sorted(set(nq)), min(len(set(nq)), 120 if quick else 800)))
    kept |= set(rnd.sample(sorted(set(n5)), min(len(set(n5)), 30000)))
    dropped = len(set(nq) | set(n5)) - len(kept)
    if dropped:
        r.notes.append(f"{dropped} data not replayed (seeded sample of the data with >= 2 quotation forms / 5 nodes)")
    dcases, texts = datum_cases(records, keep=lambda c: (c["qn"] < 2 and c["nodes"] < 5) or c["ctor"] in kept)
    selftest(work, next(c for c in dcases if c["id"].endswith("-w")))
    res = vlib.run_tlc("Datum", "MC_Datum_esc.cfg", work, workers=4, timeout=300)
    r.add_tlc(res)
    xcases, xtexts = esc_cases(res["cases"])
    dcases += xcases
    dcases += port_cases(records, rnd, 40 if quick else 400)
    run_cases, verdicts = run_engine_data(dcases, work, 300, r)
    r.add_cases(run_cases, verdicts)

    # ---- (c) texts
    res = vlib.run_tlc("Datum", "MC_Datum_str3.cfg" if quick else "MC_Datum_str4.cfg", work, workers=8, timeout=900)
    r.add_tlc(res)
    strings = {text_of(c["text"]) for c in res["cases"] if c.get("kind") == "text"}
    exhaustive_n = len(strings)
    sim = vlib.run_tlc("Datum", "MC_Datum_strsim.cfg", work, workers=1, timeout=600,
                       simulate=f"num={60 if quick else 2500}", seed=seed, extra_java=None)
    strings |= {text_of(c["text"]) for c in sim["cases"] if c.get("kind") == "text"}
    if not quick:
        sim2 = vlib.run_tlc("Datum", "MC_Datum_strsimbig.cfg", work, workers=1, timeout=600,
                            simulate="num=500", seed=seed + 1)
        strings |= {text_of(c["text"]) for c in sim2["cases"] if c.get("kind") == "text"}
    strings = sorted(strings, key=lambda s: (len(s), s))
    r.notes.append(f"texts: {exhaustive_n} exhaustive + {len(strings) - exhaustive_n} sampled (longer)")

    # ---- (b)+(c) parser level
    pcases = [parse_case(t, fam, "accept") for t, fam in sorted(texts.items())]
    have = set(c["id"] for c in pcases)
    for t, (fam, expect) in sorted(xtexts.items()):
        c = parse_case(t, fam, expect)
        if c["id"] not in have:
            have.add(c["id"])
            pcases.append(c)
    for t in strings:
        c = parse_case(t, "text", "any")
        if c["id"] not in have:
            have.add(c["id"])
            pcases.append(c)
    pverd = vlib.replay(pcases, work, jobs=12, timeout_ms=10000, name="c12p", binary="parsecheck")
    r.add_cases(pcases, pverd, nontrivial=lambda c: len(c["steps"][0]["src"]) > 0)

    # ---- (c) engine level: compile+run never panics / aborts / hangs
    # (the Strings texts and, as program text, every text the spec produced for a datum)
    # (quick: without the texts of the deepest data configuration)
    deep = {text_of(c[f]) for c in records if c.get("kind") == "datum" and "core" in c["cfg"] and quick
            for f in ("ext", "alt1", "alt2")}
    ecases = [engine_text_case(t) for t in strings + sorted((set(texts) | set(xtexts)) - set(strings) - deep) if "@@" not in t]
    everd = replay_batched(ecases, work, "c12e")
    r.add_cases(ecases, everd, nontrivial=lambda c: len(c["steps"][0]["src"]) > 0)

    # ---- numeric literal grammar (reals with exponents, rectangular complex numbers)
    res = vlib.run_tlc("Datum", "MC_Datum_numlit.cfg", work, workers=4, timeout=300)
    r.add_tlc(res)
    lcases = [numlit_case(c) for c in res["cases"] if c.get("kind") == "numlit"]
    lverd = replay_batched(lcases, work, "c12l")
    r.add_cases(lcases, lverd)

    # ---- (c) runtime numeric reader (string->number in three radixes) on every text
    ncases = [number_text_case(t) for t in strings if 0 < len(t) <= 4]
    nverd = replay_batched(ncases, work, "c12n")
    r.add_cases(ncases, nverd)

    # ---- (c) runtime reader on short texts, one engine each
    short = [t for t in strings if 0 < len(t) <= 2]
    if quick and len(short) > 150:
        short = rnd.sample(short, 150)
    rcases = [read_text_case(t) for t in short]
    rverd = vlib.replay(rcases, work, jobs=12, timeout_ms=10000, name="c12r")
    r.add_cases(rcases, rverd)

    r.cov["rule"] = ("data cases: every datum Datum.tla builds within the node bound, one case per observation "
                     "(all compare at least one emitted value with the spec's); text cases: every non-empty text of "
                     "the Strings generator; non-trivial = distinct step sources among these")
    # TLC's enumeration is exhaustive within the bounds; the replay drops the sampled-out data
    r.cov["exhaustive"] = dropped == 0
    r.assumptions.append("texts containing '@@' are not sent to the engine (the replayer rewrites @@); parsecheck covers them")
    return r.finish()


def replay_file(path):
    with open(path) as f:
        tag = json.load(f)["case"].get("tag", "")
    return vlib.replay_file(PROP, path, binary="parsecheck" if tag.startswith("parse:") else "replay")
