"""C12 - reading is total and inverse to writing (Datum.tla).

(a) write/read round trip: Datum.tla enumerates data, computes the reader-free constructor,
    the external representation `ext` and two alternative spellings; each datum becomes eight
    engine cases (w, rt, rd-ext, rd-alt1, rd-alt2, q-ext, q-alt1, q-alt2).
(b) parse/print idempotence + spans: every text the spec produced, through harness/bin/parsecheck.
(c) totality: Datum.tla's Strings generator; every text goes to parsecheck (no panic, spans inside,
    idempotence if accepted) and to the engine (class noncrash).

Isolation.  Steel's `read` keeps unread text in one global buffer (itself a finding), so a case
that leaves residue would fail its successors on a shared engine.  Every reading case therefore
(1) starts with a sentinel read that must give 7, (2) ends with a drain loop; round trips of data
the spec marks `risky` (a symbol that needs |..|) run on an engine of their own, and a case whose
*sentinel* failed (a victim, not a culprit) is re-run on a fresh engine and judged there.
"""
import hashlib
import json
import os
import random

import vlib

PROP = "C12"

DRAIN_DEF = ("(define (c12drain@@ n) (if (> n 0) (if (eof-object? (c12r@@ (c12s@@))) 0 "
             "(c12drain@@ (- n 1))) 0))")
SENTINEL = {"src": "(emit (c12r@@ (c12s@@ 55)))", "class": "ok", "emit": ["7"]}
DRAIN = {"src": "(c12drain@@ 8)", "class": "any"}
SENTINEL_STEP = 1


def text_of(codes):
    return "".join(chr(c) for c in codes)


def dec(pieces):
    return "".join(p if isinstance(p, str) else text_of(p) for p in pieces)


def sha(s, n=12):
    return hashlib.sha1(s.encode("utf-8", "surrogatepass")).hexdigest()[:n]


# ----------------------------------------------------------------------------- case construction

def datum_cases(records):
    """Datum.tla records -> engine cases (one per observation) + the texts for parsecheck."""
    cases, texts, seen = [], {}, set()
    for c in records:
        if c.get("kind") != "datum" or c["ctor"] in seen:
            continue
        seen.add(c["ctor"])
        h = sha(c["ctor"])
        ext = text_of(c["ext"])
        for fam in ("ext", "alt1", "alt2"):
            texts.setdefault(text_of(c[fam]), fam)
        prelude = {"src": c["prelude"] + DRAIN_DEF, "class": "ok", "emit": []}
        for st in c["steps"]:
            main = {"src": dec(st["src"]), "class": "ok", "emit": st["emit"]}
            steps = [prelude, SENTINEL, main, DRAIN] if st["reads"] else [prelude, main]
            cases.append({"id": f"d-{h}-{st['name']}", "fresh": False,
                          "tag": f"{st['name']}|{ext}", "steps": steps,
                          "risky": bool(c["risky"]) and st["name"] == "rt", "reads": st["reads"],
                          "nodes": c["nodes"]})
    return cases, texts


def parse_case(text, fam, expect):
    return {"id": f"p-{sha(text, 16)}", "fresh": False, "tag": f"parse:{fam}",
            "steps": [{"src": text, "class": expect}]}


def engine_text_case(text):
    return {"id": f"e-{sha(text, 16)}", "fresh": False, "tag": "engine:text",
            "steps": [{"src": text, "class": "noncrash"}]}


def read_text_case(text, prelude):
    codes = " ".join(str(ord(ch)) for ch in text)
    return {"id": f"r-{sha(text, 16)}", "fresh": True, "tag": f"read:text|{text}",
            "steps": [{"src": prelude, "class": "ok"},
                      {"src": f"(c12r@@ (c12s@@ {codes}))", "class": "noncrash"},
                      {"src": "(c12r@@ (c12s@@ 55))", "class": "noncrash"}]}


# ----------------------------------------------------------------------------- running

def run_engine_data(cases, work, rnd, fresh_cap, r):
    """Round 1 on shared engines (risky round trips on fresh ones, capped by a seeded sample);
    round 2: victims of foreign residue (sentinel failed) again on fresh engines."""
    risky = [c for c in cases if c["risky"]]
    keep = set(c["id"] for c in (rnd.sample(risky, fresh_cap) if len(risky) > fresh_cap else risky))
    skipped = [c for c in risky if c["id"] not in keep]
    run = []
    for c in cases:
        if c["risky"]:
            if c["id"] not in keep:
                continue
            c = dict(c, fresh=True)
        run.append(c)
    # fresh cases last: they cannot disturb and are not disturbed
    run.sort(key=lambda c: c["fresh"])
    verdicts = vlib.replay(run, work, jobs=12, timeout_ms=10000, name="c12a")
    victims = [i for i, (c, v) in enumerate(zip(run, verdicts))
               if not v["pass"] and c["reads"] and not c["fresh"] and v.get("step") == SENTINEL_STEP]
    if victims:
        vlib.log(f"[c12] {len(victims)} cases met foreign reader residue; re-running them on fresh engines")
        rerun = victims[:max(fresh_cap, 200)]
        again = [dict(run[i], fresh=True) for i in rerun]
        v2 = vlib.replay(again, work, jobs=12, timeout_ms=10000, name="c12a2")
        for i, c, v in zip(rerun, again, v2):
            run[i] = c
            verdicts[i] = v
        if len(victims) > len(rerun):
            r.notes.append(f"{len(victims) - len(rerun)} victims of reader residue not re-run (cap)")
    if skipped:
        r.notes.append(f"{len(skipped)} risky round-trip cases not run (fresh-engine cap {fresh_cap}, seeded sample)")
    return run, verdicts


def selftest(work, sample_w, prelude):
    """Non-vacuity: a wrong expectation must be reported by each binding."""
    bad = json.loads(json.dumps(sample_w))
    bad["id"] = "mutant-w"
    bad["steps"][-1]["emit"] = ["(1 2 3)"]
    v = vlib.replay([bad], work, jobs=1, name="c12mut")[0]
    if v["pass"]:
        raise vlib.ToolError("self-test: mutant expectation for the written text was not reported")
    m2 = {"id": "mutant-rt", "fresh": True, "tag": "mutant", "steps": [
        {"src": prelude, "class": "ok"},
        {"src": "(emit (equal? (list 1 2) (c12r@@ (c12s@@ 40 49 32 51 41))))", "class": "ok", "emit": ["#true"]}]}
    v = vlib.replay([m2], work, jobs=1, name="c12mut2")[0]
    if v["pass"]:
        raise vlib.ToolError("self-test: a reader result that is not equal? to the datum was not reported")
    pm = [parse_case("(1 2", "mutant", "accept"), parse_case("(1 2)", "mutant", "reject")]
    pv = vlib.replay(pm, work, jobs=1, name="c12mutp", binary="parsecheck")
    if any(v["pass"] for v in pv):
        raise vlib.ToolError("self-test: parsecheck did not report a wrong acceptance expectation")
    ok = vlib.replay([parse_case("(1 (2 . 3) #(a) \"s\")", "mutant-ok", "accept")], work, jobs=1,
                     name="c12mutp2", binary="parsecheck")[0]
    if not ok["pass"]:
        raise vlib.ToolError("self-test: parsecheck rejects a plain datum: " + ok["why"])


def run(tier, seed):
    work = os.path.join(vlib.WORK, PROP)
    r = vlib.Result(PROP, tier, seed)
    rnd = random.Random(seed)
    quick = tier == "quick"

    # ---- (a) data
    cfgs = ["MC_Datum_full.cfg", "MC_Datum_mid.cfg", "MC_Datum_prog.cfg",
            "MC_Datum_core.cfg" if quick else "MC_Datum_core5.cfg"]
    records = []
    for cfg in cfgs:
        res = vlib.run_tlc("Datum", cfg, work, workers=8, timeout=900)
        r.add_tlc(res)
        records += res["cases"]
    dcases, texts = datum_cases(records)
    prelude = next(c for c in records if c.get("kind") == "datum")["prelude"]
    selftest(work, next(c for c in dcases if c["id"].endswith("-w")), prelude)
    run_cases, verdicts = run_engine_data(dcases, work, rnd, 500 if quick else 6000, r)
    r.add_cases(run_cases, verdicts)

    # ---- (c) texts
    res = vlib.run_tlc("Datum", "MC_Datum_str3.cfg" if quick else "MC_Datum_str4.cfg", work, workers=8, timeout=900)
    r.add_tlc(res)
    strings = {text_of(c["text"]) for c in res["cases"] if c.get("kind") == "text"}
    exhaustive_n = len(strings)
    sim = vlib.run_tlc("Datum", "MC_Datum_strsim.cfg", work, workers=1, timeout=600,
                       simulate=f"num={3000 if quick else 40000}", seed=seed, extra_java=None)
    strings |= {text_of(c["text"]) for c in sim["cases"] if c.get("kind") == "text"}
    if not quick:
        sim2 = vlib.run_tlc("Datum", "MC_Datum_strsimbig.cfg", work, workers=1, timeout=600,
                            simulate="num=10000", seed=seed + 1)
        strings |= {text_of(c["text"]) for c in sim2["cases"] if c.get("kind") == "text"}
    strings = sorted(strings, key=lambda s: (len(s), s))
    r.notes.append(f"texts: {exhaustive_n} exhaustive + {len(strings) - exhaustive_n} sampled (longer)")

    # ---- (b)+(c) parser level
    pcases = [parse_case(t, fam, "accept") for t, fam in sorted(texts.items())]
    have = set(c["id"] for c in pcases)
    for t in strings:
        c = parse_case(t, "text", "any")
        if c["id"] not in have:
            have.add(c["id"])
            pcases.append(c)
    pverd = vlib.replay(pcases, work, jobs=12, timeout_ms=10000, name="c12p", binary="parsecheck")
    r.add_cases(pcases, pverd, nontrivial=lambda c: len(c["steps"][0]["src"]) > 0)

    # ---- (c) engine level: compile+run never panics / aborts / hangs
    ecases = [engine_text_case(t) for t in strings if "@@" not in t]
    everd = vlib.replay(ecases, work, jobs=12, timeout_ms=10000, name="c12e")
    r.add_cases(ecases, everd, nontrivial=lambda c: len(c["steps"][0]["src"]) > 0)

    # ---- (c) runtime reader on short texts, one engine each
    short = [t for t in strings if 0 < len(t) <= 2]
    if quick and len(short) > 150:
        short = rnd.sample(short, 150)
    rcases = [read_text_case(t, prelude) for t in short]
    rverd = vlib.replay(rcases, work, jobs=12, timeout_ms=10000, name="c12r")
    r.add_cases(rcases, rverd)

    r.cov["rule"] = ("data cases: every datum Datum.tla builds within the node bound, one case per observation "
                     "(all compare at least one emitted value with the spec's); text cases: every non-empty text of "
                     "the Strings generator; non-trivial = distinct step sources among these")
    r.cov["exhaustive"] = True
    r.assumptions.append("texts containing '@@' are not sent to the engine (the replayer rewrites @@); parsecheck covers them")
    return r.finish()


def replay_file(path):
    with open(path) as f:
        tag = json.load(f)["case"].get("tag", "")
    return vlib.replay_file(PROP, path, binary="parsecheck" if tag.startswith("parse:") else "replay")
