"""C18 - arbitrarily deep, wide or cyclic values are handled without exhausting the host.

Shapes.tla (see its header) decides part 1 and drives part 2:

part 1  cyclic value graphs (<= 4 nodes: boxes, mutable vectors, mutable structs, lists / pairs / hash
        maps as connectors, any back edges).  TLC checks the design - work-list equality with a visited set
        of node PAIRS decides bisimilarity, the cycle-aware printer and the fuel-bounded hash
        terminate (decreasing measures; MC_Shapes_alg also as explicit state graph with an action and
        a liveness property), bisimilar nodes hash equal - and that the three deliberately broken
        variants (MC_Shapes_cex_*) are caught.  It prints, per heap, the Scheme text that builds the
        graph and the expectations of the operation matrix; this module replays them with a per-case
        time limit.  A hang or a dead process is a failing verdict attributed to the case.
        Family "twin": every 2..3-node shape of mixed kinds built twice, next to near-twins and its own
        unrolling; equal? both orders, the twin as hash key / set member, hash-code agreement.  All
        twin pairs are replayed in thorough, a seeded stratified sample in quick.
part 2  depth / width matrix: operation x shape x depth, each case on its own engine.

Every failure is attributed through the case tag the SPEC computed (operation, kinds on cycles,
kinds reachable, shared kinds, for equal? the prediction of the as-is machine EqAsIs / shape,
depth) plus the observed symptom; a failure that matches no entry of known_findings.d/C18.json is
a VIOLATION.  A hang that no finding explains is re-run once alone before it counts (confirm()).

Debug switches (environment): C18_ONLY=model|cyc|deep, C18_ALL=1 (replay every enumerated cyclic
case), C18_OPS=op,op, C18_TAGRE=regex, C18_DEBUG=1 (work/C18/groups.json: failures grouped by tag).
"""
import hashlib
import json
import os
import random
import re

import vlib

PROP = "C18"
WORKERS = 8
# harness/src/bin/shapes.rs: the generic replayer, except that the engine of a fresh case is torn down
# inside the attribution window of the case (releasing a deep value may itself kill the process)
BINARY = "shapes"

# ----------------------------------------------------------------------------- tiers
# Budgets are in CASES, chosen so that the check fits its time limit on the unchanged tree, where
# most operations on a cyclic box kill the process (a dead process costs an engine start, ~0.5 s;
# a hang costs the whole time limit of the case).
TIERS = {
    "quick": {
        "cfg": "MC_Shapes_quick.cfg",
        "cyc_per_op": {"create": 200, "send": 50, "collect": 60, "drop": 200,
                       "write": 90, "display": 90, "hashkey": 40, "hashset": 30,
                       "equal": 400, "hashfind": 20,
                       "twin:equal": 300, "twin:hashfind": 15, "twin:hashmember": 15, "twin:hashcode": 10},
        "cyc_timeout_ms": 2500, "deep_small_timeout_ms": 10000, "deep_timeout_ms": 20000, "deep_big_timeout_ms": 60000,
    },
    "thorough": {
        "cfg": "MC_Shapes_thorough.cfg",
        "cyc_per_op": {"create": 3000, "send": 300, "collect": 300, "drop": 3000,
                       "write": 900, "display": 900, "hashkey": 300, "hashset": 150,
                       "equal": 8000, "hashfind": 100,
                       # every twin / near-twin pair; the hash operations on them are sampled (on the unchanged
                       # tree each one on a cyclic value costs a dead process, finding C18-hash-of-cyclic-...)
                       "twin:equal": 10 ** 9, "twin:hashfind": 150, "twin:hashmember": 150, "twin:hashcode": 150},
        "cyc_timeout_ms": 2500, "deep_small_timeout_ms": 20000, "deep_timeout_ms": 60000, "deep_big_timeout_ms": 120000,
    },
}


def cfg_variant(cfg, work, subst, suffix):
    """A copy of spec/<cfg> with some CONSTANTS replaced."""
    text = open(os.path.join(vlib.SPEC, cfg)).read()
    for k, v in subst.items():
        text, n = re.subn(rf"(?m)^(\s*{k}\s*=\s*).*$", lambda m: m.group(1) + str(v), text)
        if n != 1:
            raise vlib.ToolError(f"constant {k} not found in {cfg}")
    os.makedirs(work, exist_ok=True)
    path = os.path.join(work, cfg.replace(".cfg", f"_{suffix}.cfg"))
    with open(path, "w") as f:
        f.write(text)
    return path


# ----------------------------------------------------------------------------- rendering

SRC_RE = re.compile(r"@SRC:(\d+):([^:]*):(.*?)@END", re.S)
REP_RE = re.compile(r"@\*n:([^@]*)@")


def expand(src):
    """Part 2, source-nesting shapes: the spec writes  @SRC:<depth>:<bottom>:<template>@END  where the
    template uses @*n:text@ for `text` repeated depth times and $bot for the bottom leaf."""
    def one(m):
        n, bot, tpl = int(m.group(1)), m.group(2), m.group(3)
        return REP_RE.sub(lambda r: r.group(1) * n, tpl).replace("$bot", bot)
    return SRC_RE.sub(one, src)


def conv_step(st):
    out = {"src": expand(st["src"]), "class": st["class"]}
    if st["emit"] != ["*"]:
        out["emit"] = st["emit"]
    if st["val"] != "*":
        out["val"] = st["val"]
    return out


def cases_of(rec):
    """One TLC record (a heap / a deep combination) -> replayer cases, one per operation."""
    out = []
    for g in rec["groups"]:
        build = [conv_step(s) for s in g["build"]]
        for o in g["ops"]:
            steps = build + [conv_step(s) for s in o["steps"]]
            h = hashlib.sha1(json.dumps([s["src"] for s in steps]).encode()).hexdigest()[:12]
            part = "D" if rec["fam"] == "deep" else "G"
            # a fresh engine for every deep case (one crash must not hide others) and for every case
            # that spawns a thread: on a shared engine a later (#%gc-collect) of an unrelated case
            # sometimes never returns once native threads have been spawned - that is the stop-the-world
            # protocol of C15-C17, not a property of the value under test
            fresh = rec["fam"] == "deep" or o["op"] in ("send", "collect")
            out.append({"id": f"{part}-{o['op']}-{h}", "fresh": fresh, "tag": o["tag"],
                        "steps": steps, "meta": {"fam": rec["fam"], "op": o["op"], "wr": g.get("wr", ""),
                                                 "nbuild": len(build), "n": rec["n"]}})
    return out


def strip(case):
    return {k: v for k, v in case.items() if k != "meta"}


def tagval(tag, key):
    m = re.search(rf"(?:^|\|){key}=([^|]*)", tag)
    return m.group(1) if m else ""


# ----------------------------------------------------------------------------- selection

def select_cyc(cases, per_op, seed):
    """Seeded, stratified choice of the cyclic cases to replay: per operation, strata = (kinds on the
    cycles, kinds reachable, expected answer), round-robin over the strata in a seeded order, so
    that every combination of container kinds the spec enumerated is replayed before any is
    replayed twice."""
    rnd = random.Random(seed)
    by_op = {}
    for c in cases:
        # the pair operations of family "twin" (value built twice / near-twin) have budgets of their own
        key = "twin:" + c["meta"]["op"] if tagval(c["tag"], "tw") else c["meta"]["op"]
        by_op.setdefault(key, []).append(c)
    out = []
    for op in sorted(by_op):
        strata = {}
        for c in sorted(by_op[op], key=lambda c: c["id"]):
            t = c["tag"]
            key = (tagval(t, "root"), tagval(t, "cyc"), tagval(t, "reach"), tagval(t, "shared"), tagval(t, "bisim"),
                   tagval(t, "asis"), tagval(t, "tw"))
            strata.setdefault(key, []).append(c)
        keys = sorted(strata)
        for k in keys:
            rnd.shuffle(strata[k])
        rnd.shuffle(keys)
        want = per_op.get(op, 0)
        picked = []
        while len(picked) < want and keys:
            nxt = []
            for k in keys:
                if len(picked) >= want:
                    break
                picked.append(strata[k].pop())
                if strata[k]:
                    nxt.append(k)
            keys = nxt
        out += picked
    return out


# ----------------------------------------------------------------------------- replay of heavy cases

def par_replay(cases, work, timeout_ms, name, procs=14):
    """vlib.replay gives one process per 20 cases; the deep cases are few and heavy (seconds each, some
    run into the time limit), so they are spread over `procs` single-process replays run side by side."""
    from concurrent.futures import ThreadPoolExecutor
    if not cases:
        return []
    procs = max(1, min(procs, len(cases)))
    chunks = [cases[i::procs] for i in range(procs)]
    with ThreadPoolExecutor(max_workers=procs) as ex:
        futs = [ex.submit(vlib.replay, ch, work, None, 1, timeout_ms, f"{name}_{i}", BINARY)
                for i, ch in enumerate(chunks)]
        res = [f.result() for f in futs]
    by_id = {v["id"]: v for vs in res for v in vs}
    return [by_id[c["id"]] for c in cases]


# ----------------------------------------------------------------------------- judging

def symptom(case, v):
    """Observed symptom class of a failing verdict."""
    got = v.get("got") or []
    last = got[-1]["class"] if got else "none"
    if last.startswith("crash"):
        return "crash"
    if last == "hang":
        return "hang"
    if last == "panic" or "got panic" in v.get("why", ""):
        return "panic"
    if v.get("why", "").startswith("class:"):
        return "error"
    if v.get("why", "").startswith(("val:", "emit:")):
        return "wrong"
    return "other"


def confirm(cases, verdicts, work, timeout_ms, stats, findings):
    """A hang that no known finding explains is re-run once, alone, before it counts: the limit is
    wall-clock on a shared box, and a case that spawns a thread can fall victim to the runtime's
    thread start-up / stop-the-world protocol (C15-C17) independently of the value it carries.  A
    hang caused by the value is deterministic and hangs again."""
    again = []
    for i, (c, v) in enumerate(zip(cases, verdicts)):
        if not v["pass"] and symptom(c, v) == "hang":
            mc = dict(strip(c), tag=c["tag"] + "|got=hang")
            if not vlib.match_finding(PROP, mc, v, findings):
                again.append(i)
    if not again:
        return verdicts
    re_cases = [dict(strip(cases[i]), id=cases[i]["id"] + "-again", fresh=True) for i in again]
    re_v = vlib.replay(re_cases, work, jobs=min(4, len(re_cases)), timeout_ms=timeout_ms, name="confirm", binary=BINARY)
    out = list(verdicts)
    for i, v in zip(again, re_v):
        if v["pass"]:
            stats["unconfirmed_hangs"].append(cases[i]["tag"])
            out[i] = dict(v, id=cases[i]["id"])
    return out


def judge(r, cases, verdicts, stats):
    for c, v in zip(cases, verdicts):
        op = c["meta"]["op"]
        part = "deep" if c["meta"]["fam"] == "deep" else "cyc"
        st = stats[part].setdefault(op, {"cases": 0, "pass": 0, "err_value": 0})
        st["cases"] += 1
        r.cov["evaluations"] += 1
        if nontrivial(c):
            r._nontrivial.add(c["id"])
        if v["pass"]:
            st["pass"] += 1
            r.cov["traces_validated_against_impl"] += 1
            if any(g["class"].startswith("err") for g in v.get("got", [])):
                st["err_value"] += 1      # part 2: "returns an error value" is allowed, but counted
                msg = next((g.get("msg") or "") for g in v["got"] if g["class"].startswith("err"))
                stats["error_values"].setdefault(re.sub(r"op=\w+\|", "", c["tag"]), msg[:120])
            if op in ("write", "display") and part == "cyc":
                text_stat(c, v, stats)
            if len(stats["passing"]) < 400:
                stats["passing"].append(c)
            continue
        sym = symptom(c, v)
        if part == "deep" and sym == "wrong" and any(g["class"].startswith("err") for g in v["got"][:v.get("step", 0)]):
            # part 2: an earlier step (building the value) returned an error VALUE, which the property
            # allows; what later steps observe on the unbuilt value is vacuous, not wrong
            st["pass"] += 1
            st["err_value"] += 1
            r.cov["traces_validated_against_impl"] += 1
            msg = next((g.get("msg") or "") for g in v["got"] if g["class"].startswith("err"))
            stats["error_values"].setdefault(re.sub(r"op=\w+\|", "", c["tag"]), msg[:120])
            continue
        st[sym] = st.get(sym, 0) + 1
        mc = dict(strip(c), tag=c["tag"] + "|got=" + sym)
        grp = stats["groups"].setdefault(re.sub(r"\|fam=\w+\|n=\d+", "", mc["tag"]), [0, c["id"], v.get("why", "")[:160]])
        grp[0] += 1
        f = vlib.match_finding(PROP, mc, v, r.findings)
        if f:
            r.known.setdefault(f["key"], f["what"])
            stats["by_finding"][f["key"]] = stats["by_finding"].get(f["key"], 0) + 1
        else:
            stats["violations"] += 1
            if stats["violations"] <= 40:
                r.fail_case(mc, v)
    r.cov["distinct_nontrivial"] = len(r._nontrivial)


def nontrivial(case):
    """Part 1: every replayed case is about a graph in which the tested node reaches a cycle (the spec
    emits no others); counted non-trivial unless it is the reflexive (equal? x x).  Part 2: depth
    >= 10^5 (at 10^3 plain recursion would survive on the default stack)."""
    if case["meta"]["fam"] == "deep":
        return case["meta"]["n"] >= 100000
    return tagval(case["tag"], "same") != "T"


LABEL_RE = re.compile(r"c18s\d+")


def text_stat(case, v, stats):
    """Statistic only (Shapes.tla M2): does the text Steel wrote equal the R7RS-style text of the spec?"""
    got = (v["got"][-1].get("val") or "")
    got = LABEL_RE.sub("c18s", got)
    if got.startswith('"') and got.endswith('"'):
        got = got[1:-1]
    got = got.replace("\\n", "\n")
    ts = stats["text"]
    ts["printed"] += 1
    if got == case["meta"]["wr"]:
        ts["same_as_r7rs_form"] += 1
    elif "\n" in got:
        ts["labels_first_layout"] += 1
    else:
        ts["other"] += 1
        if len(ts["examples"]) < 5:
            ts["examples"].append({"steel": got[:120], "spec": case["meta"]["wr"][:120]})


# ----------------------------------------------------------------------------- model runs

CEX = [("MC_Shapes_cex_single_visited.cfg", "ModelOK"),
       ("MC_Shapes_cex_no_visited.cfg", None),
       ("MC_Shapes_cex_no_labels.cfg", None)]


def run_models(r, work):
    """The design-level verdicts: (1) the machines as explicit state graph: measures decrease (action
    property), every behaviour terminates (liveness), results agree with the definitions;
    (2) each deliberately broken variant is caught."""
    res = vlib.run_tlc("Shapes", "MC_Shapes_alg.cfg", os.path.join(work, "alg"), workers=WORKERS, timeout=900)
    r.add_tlc(res)
    caught = {}
    for cfg, inv in CEX:
        c = vlib.run_tlc("Shapes", cfg, os.path.join(work, "cex"), workers=4, timeout=600, allow_violation=True)
        text = c["violation"] or ""
        ok = bool(text) and ((inv and c.get("violated") == inv) or (not inv and "measure does not decrease" in text))
        if not ok:
            raise vlib.ToolError(f"{cfg}: the broken variant was not caught by TLC ({text[:300]})")
        caught[cfg] = c.get("violated") or "Assert: measure does not decrease"
    return caught


def run(tier, seed):
    work = os.path.join(vlib.WORK, PROP)
    os.makedirs(work, exist_ok=True)
    T = TIERS[tier]
    r = vlib.Result(PROP, tier, seed)
    stats = {"cyc": {}, "deep": {}, "passing": [], "groups": {}, "by_finding": {}, "violations": 0, "error_values": {}, "unconfirmed_hangs": [],
             "text": {"printed": 0, "same_as_r7rs_form": 0, "labels_first_layout": 0, "other": 0, "examples": []}}
    only = os.environ.get("C18_ONLY", "")
    if only in ("", "model"):
        stats["broken_variants_caught"] = run_models(r, work)
    # TLC as generator + oracle
    cfg = cfg_variant(T["cfg"], work, {"SEED": seed}, f"s{seed}")
    res = vlib.run_tlc("Shapes", cfg, os.path.join(work, "gen"), workers=WORKERS, timeout=1500)
    r.add_tlc(res)
    allc, seen = [], set()
    for rec in res["cases"]:
        for c in cases_of(rec):
            if c["id"] not in seen:
                seen.add(c["id"])
                allc.append(c)
    res["cases"] = None
    cyc = [c for c in allc if c["meta"]["fam"] != "deep"]
    deep = [c for c in allc if c["meta"]["fam"] == "deep"]
    stats["enumerated"] = {"cyclic_cases": len(cyc), "deep_cases": len(deep)}
    per_op = T["cyc_per_op"]
    if os.environ.get("C18_ALL"):
        per_op = {k: 10 ** 9 for k in per_op}
    if os.environ.get("C18_OPS"):
        per_op = {k: v for k, v in per_op.items() if k.split(":")[-1] in os.environ["C18_OPS"].split(",")}
    if os.environ.get("C18_TAGRE"):
        cyc = [c for c in cyc if re.search(os.environ["C18_TAGRE"], c["tag"])]
    sel = select_cyc(cyc, per_op, seed)
    if only in ("", "cyc"):
        # (#%gc-collect): the k-th call in one PROCESS takes 2^k times as long (6 ms ... 1 s, then it
        # starts over; value independent, collector policy) - the cases that call it get a longer limit
        # - and so do the cases that start a native thread (thread start-up on a busy box)
        gc = [c for c in sel if c["meta"]["op"] in ("collect", "send")]
        rest = [c for c in sel if c["meta"]["op"] not in ("collect", "send")]
        # vlib gives up on a chunk after 200 dead processes: batches of 1800 cases, 12 chunks each
        batches = [(f"cyc{i // 1800}", rest[i:i + 1800], T["cyc_timeout_ms"]) for i in range(0, len(rest), 1800)]
        for name, group, tmo in batches + [("cycgc", gc, 8 * T["cyc_timeout_ms"])]:
            if group:
                if name == "cycgc":
                    verdicts = par_replay([strip(c) for c in group], work, tmo, name, procs=12)
                else:
                    verdicts = vlib.replay([strip(c) for c in group], work, jobs=12, timeout_ms=tmo, name=name, binary=BINARY)
                verdicts = confirm(group, verdicts, work, tmo, stats, r.findings)
                judge(r, group, verdicts, stats)
    if only in ("", "deep"):
        small = [c for c in deep if c["meta"]["n"] <= 1000]
        mid = [c for c in deep if 1000 < c["meta"]["n"] < 1000000]
        big = [c for c in deep if c["meta"]["n"] >= 1000000]
        for name, group, tmo in (("deep", small, T["deep_small_timeout_ms"]), ("deepmid", mid, T["deep_timeout_ms"]),
                                 ("deepbig", big, T["deep_big_timeout_ms"])):
            if group:
                # heavy cases first in every chunk would serialise; shuffle (seeded) to balance the jobs
                random.Random(seed).shuffle(group)
                verdicts = par_replay([strip(c) for c in group], work, tmo, name)
                verdicts = confirm(group, verdicts, work, tmo, stats, r.findings)
                judge(r, group, verdicts, stats)
    if os.environ.get("C18_DEBUG"):
        with open(os.path.join(work, "groups.json"), "w") as f:
            json.dump(stats["groups"], f, indent=1)
    stats["passing"].sort(key=lambda c: (c["meta"]["n"], c["id"]))
    selftest(r, stats, work)
    rnd = random.Random(seed)
    for c in rnd.sample(stats["passing"], min(6, len(stats["passing"]))):
        r.cov["samples"].append({"id": c["id"], "tag": c["tag"], "src": [s["src"][:400] for s in c["steps"][-2:]],
                                 "expect": {k: c["steps"][-1].get(k) for k in ("class", "emit", "val")}})
    r.cov["rule"] = ("part 1: heaps of Shapes.tla's families (full: every heap with <= FULLN nodes; ring, func1/2: "
                     "every ring / functional graph; sim: seeded sparse sub-tree) in which the tested node reaches a "
                     "cycle, one case per operation of the matrix; a seeded stratified subset (per operation, strata = "
                     "kinds on cycles x kinds reachable x shared kinds x expected answer) is replayed; non-trivial = "
                     "not the reflexive (equal? x x).  part 2: operation x shape x depth, all replayed; "
                     "non-trivial = depth >= 10^5.")
    r.cov["exhaustive"] = False
    r.assumptions.append("termination is observed with a per-case wall-clock limit (2.5 s for graphs of <= 4 nodes, "
                         "20-120 s for deep values); a slower but terminating run would be reported as a hang")
    r.assumptions.append("native stack: main thread of the replayer process, default 8 MiB, stacker feature on")
    summary = {k: v for k, v in stats.items() if k not in ("passing", "groups")}
    r.notes.append(summary)
    vlib.log(json.dumps(summary))
    return r.finish()


# ----------------------------------------------------------------------------- self-test

def selftest(r, stats, work):
    """Mutant oracle: a passing case whose spec-computed expectation is deliberately falsified must be
    reported by the replayer and must not be swallowed by a known finding; a case that spins forever
    must be reported as a hang (the termination sensor works)."""
    def comparable(c):
        """index of a step whose expectation can be falsified: a boolean value, else an emit"""
        for want in ("val", "emit"):
            for i, st in enumerate(c["steps"]):
                if want == "val" and st.get("val") in ("#true", "#false") and tagval(c["tag"], "same") != "T":
                    return i
                if want == "emit" and st.get("emit"):
                    return i
        return None
    victim = None
    for c in stats["passing"]:
        if comparable(c) is not None:
            victim = c
            break
    if victim is None:
        if stats["passing"]:
            raise vlib.ToolError("self-test: no passing case with a comparable expectation")
        return
    m = json.loads(json.dumps(strip(victim)))
    m["id"] = "SELFTEST-1"
    m["fresh"] = True
    st = m["steps"][comparable(victim)]
    if st.get("val") in ("#true", "#false"):
        st["val"] = "#false" if st["val"] == "#true" else "#true"
    else:
        st["emit"] = [st["emit"][0] + "x"]
    spin = {"id": "SELFTEST-2", "fresh": True, "tag": "cyc|op=selftest-spin",
            "steps": [{"src": "(let loop ((i 0)) (loop (+ i 1)))", "class": "ok"}]}
    v1, v2 = vlib.replay([m, spin], work, jobs=1, timeout_ms=max(1500, 4 * stats.get("victim_ms", 0)),
                         name="selftest", binary=BINARY)
    mc = dict(m, tag=m["tag"] + "|got=" + symptom(m, v1))
    if v1["pass"] or symptom(m, v1) != "wrong" or vlib.match_finding(PROP, mc, v1, r.findings):
        raise vlib.ToolError(f"self-test: a falsified expectation was not reported ({st['src'][:200]}: {v1.get('why')})")
    if v2["pass"] or symptom(spin, v2) != "hang":
        raise vlib.ToolError("self-test: a non-terminating case was not reported as a hang")


def replay_file(path):
    return vlib.replay_file(PROP, path, binary=BINARY)
