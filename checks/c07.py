"""C07 - no input can crash the host; errors are returned and leave the engine usable (Robust.tla).

Pipeline (every case is printed by TLC from spec/Robust.tla and replayed on the real engine by
harness/src/bin/robust.rs = the generic replayer + crash-site recording):

 (1) matrix   harness/bin/builtins dumps the engine's own procedure table (names bound at top level of a
              fresh engine, arity from the registered metadata / the closure object, aliases merged by
              procedure identity) -> IOEnv.ROBUST_TABLE; Robust.tla (MODE "matrix") enumerates
              builtin x Kind^arity; every case = [set-up unit, the call (class noncrash), Probe(G)].
              Round 1 ("canaries": the same machine with the six-kind core for 1 and 2 arguments and a
              few sampled triples, every builtin) also fixes the crash BUDGET: a builtin with >= CAP_AT
              canary crashes/hangs that are ALL attributed to known findings is capped to NCAP sampled
              tuples in round 2 (a crash costs a process restart; the capped builtins are listed in the
              evidence notes).  A crash that is not a known finding is a VIOLATION in any round.
 (2) stages   MODE "stages": error stage x context, expected emits / class / post-state from RunCtx;
              each case = set-up, control (no failure), the failing unit, After(G), control again;
              "reenter": a continuation of an earlier unit invoked by a later one (class noncrash);
              "inter": -simulate histories of failing units, assignments, (failed) redefinitions;
              "repeat": a run-time stage x context unit repeated 100 / 200 times on one engine, the depth
              probe `(#%verif-depth)` = (0 0) after each (no residue on the thread's two stacks).
 (3) deep     MODE "deep": deep program text and deep non-tail recursion, class noncrash + value.
 Arbitrary text over a small alphabet: Datum.tla Strings / checks/c12.py (not duplicated here).

JIT: everything runs with the JIT on (default); a seeded sample of the matrix and all of (2), (3) run a
second time with STEEL_JIT=false.

Verdict post-processing: (a) the panic site recorded by the replayer is joined to the verdict of a process
that died; a death without a recorded panic is re-run alone with stderr captured (native stack overflow /
failed allocation); known findings are matched on these sites.  (b) Robust.tla deviation D-HUGE: a timeout
or a failed allocation of a call that has an argument of magnitude "h", or of a program of depth >= 10^5,
is counted as `resource`, not as a violation.  A panic or a stack overflow is a violation at any size.
"""
import collections
import glob
import hashlib
import json
import os
import random
import re
import resource
import subprocess

import vlib

PROP = "C07"
BUILTINS = os.path.join(vlib.BIN, "builtins")
# an engine leaks ~2 memory mappings per compiled unit; the process aborts at vm.max_map_count (65530)
# after ~25 000 units.  A matrix case is 3 units: no replayer process gets more than 6 000 cases.
PER_PROC = 6000
JOBS = 12
CAP_AT = 3
AS_LIMIT = 3 << 30         # address-space limit of a replayer process: huge allocations fail at once
AS_LIMIT_DEEP = 4 << 30    # ... for the deep-program cases (10^7 frames need ~0.6 GiB)


def sha(s, n=10):
    return hashlib.sha1(s.encode("utf-8", "surrogatepass")).hexdigest()[:n]


# ----------------------------------------------------------------------------- builtin table

def plain(name):
    """`##...` are compiler-generated, module-private manglings (their numeric parts change from build
    to build); everything else that is bound at top level is script-reachable."""
    return not name.startswith(("##", "mangler", "__module"))


def dump_table(work):
    os.makedirs(work, exist_ok=True)
    raw = os.path.join(work, "builtins.ndjson")
    p = subprocess.run([BUILTINS, raw], stdout=subprocess.DEVNULL, stderr=subprocess.DEVNULL, timeout=120)
    if p.returncode != 0:
        raise vlib.ToolError("builtins dumper failed")
    rows = [json.loads(l) for l in open(raw)]
    procs = [r for r in rows if r["src"] == "global" and not r["kind"].startswith("value")]
    by = collections.defaultdict(list)
    for r in procs:
        by[r["ident"]].append(r)
    table, private = [], 0
    for ident, rs in by.items():
        names = sorted([r["name"] for r in rs if plain(r["name"])],
                       key=lambda n: (n.startswith("#%prim."), n.startswith(("#%", "%")), n))
        if not names:
            private += 1
            continue
        a = rs[0]["arity"]
        lo, hi = {"exact": (a["lo"], a["hi"]), "atleast": (a["lo"], -1), "atmost": (0, a["hi"]),
                  "range": (a["lo"], a["hi"]), "unknown": (-1, -1)}[a["t"]]
        table.append({"name": names[0], "lo": lo, "hi": hi, "cap": 0, "kind": rs[0]["kind"], "aliases": names[1:]})
    table.sort(key=lambda r: r["name"])
    stats = {"top_level_procedure_names": len(procs), "distinct_procedures": len(by),
             "module_private_excluded": private, "called": len(table),
             "registered_in_a_module_but_not_bound_at_top_level": sum(1 for r in rows if r["src"] == "module")}
    return table, stats


def write_table(table, path):
    with open(path, "w") as f:
        for r in table:
            f.write(json.dumps({k: r[k] for k in ("name", "lo", "hi", "cap")}) + "\n")


# ----------------------------------------------------------------------------- replay with crash sites

def replay_robust(cases, work, name, env_extra=None, timeout_ms=6000, per_proc=PER_PROC, as_limit=AS_LIMIT):
    """vlib.replay through the `robust` binary, in batches so that no process sees more than `per_proc`
    cases; joins the panic sites recorded by the binary into the verdicts of crashed processes."""
    out = []
    batch = per_proc * JOBS
    old = resource.getrlimit(resource.RLIMIT_AS)
    resource.setrlimit(resource.RLIMIT_AS, (as_limit, old[1]))
    try:
        for k in range(0, len(cases), batch):
            nm = f"{name}{k // batch}"
            for f in glob.glob(os.path.join(work, nm + ".*.out.ndjson")):
                os.remove(f)
            vs = vlib.replay(cases[k:k + batch], work, env_extra=env_extra, jobs=JOBS, timeout_ms=timeout_ms,
                             name=nm, binary="robust")
            info = {}
            for f in glob.glob(os.path.join(work, nm + ".*.out.ndjson")):
                with open(f, errors="replace") as fh:
                    for line in fh:
                        if '"panicinfo"' not in line:
                            continue
                        try:
                            o = json.loads(line)
                        except Exception:
                            continue
                        info.setdefault(o["panicinfo"], f"{o['loc']}: {o['msg']}")
            todo = []
            for c, v in zip(cases[k:k + batch], vs):
                if not v["pass"] and v["why"].startswith("process crash"):
                    if v["id"] in info:
                        v["why"] += " after panic at " + info[v["id"]]
                    else:
                        todo.append((c, v))
            if todo:
                from concurrent.futures import ThreadPoolExecutor
                env = dict(os.environ)
                env.pop("STEEL_JIT", None)
                env.update(env_extra or {})
                with ThreadPoolExecutor(max_workers=JOBS) as ex:
                    for (c, v), msg in zip(todo, ex.map(lambda cv: diagnose(cv[0], work, env, timeout_ms), todo)):
                        v["why"] += ": " + msg
            out += vs
    finally:
        resource.setrlimit(resource.RLIMIT_AS, old)
    return out


def diagnose(case, work, env, timeout_ms):
    """A process that died without a recorded panic site: run the case alone with stderr captured and
    return what the runtime said (native stack overflow / failed allocation / ...)."""
    d = os.path.join(work, "diag")
    os.makedirs(d, exist_ok=True)
    cid = sha(case["id"], 16)
    cpath, opath = os.path.join(d, cid + ".case.ndjson"), os.path.join(d, cid + ".out.ndjson")
    with open(cpath, "w") as f:
        f.write(json.dumps({k: case[k] for k in ("id", "fresh", "tag", "steps")}) + "\n")
    if os.path.exists(opath):
        os.remove(opath)
    try:
        p = subprocess.run([os.path.join(vlib.BIN, "robust"), cpath, opath, "--timeout-ms", str(timeout_ms)],
                           env=env, stdin=subprocess.DEVNULL, stdout=subprocess.DEVNULL, stderr=subprocess.PIPE,
                           timeout=timeout_ms / 1000 + 30)
    except subprocess.TimeoutExpired:
        return "not reproduced alone (timeout)"
    err = p.stderr.decode("utf-8", "replace")
    if p.returncode == 0:
        return "not reproduced alone"
    if p.returncode == 97:
        return "not reproduced alone (timeout)"
    for pat in (r"thread '[^']*' \(?\d*\)? ?has overflowed its stack", r"has overflowed its stack",
                r"memory allocation of \d+ bytes failed", r"fatal runtime error: [^\n]*"):
        m = re.search(pat, err)
        if m:
            return re.sub(r"thread '[^']*'( \(\d+\))? ", "", m.group(0))
    lines = [l for l in err.splitlines() if l.strip()]
    return (lines[-1][:160] if lines else f"no message (rc={p.returncode})")


def is_resource(case, v):
    """D-HUGE: timeout / failed allocation / OOM kill of a call with a huge argument or a huge program."""
    if not case.get("huge") or v["pass"]:
        return False
    w = v["why"]
    return (w == "process hang" or w.startswith("process crash(rc=-9)") or "memory allocation of" in w
            or "not reproduced alone" in w)


def crashy(v):
    return (not v["pass"]) and (v["why"].startswith("process ") or "got panic" in v["why"])


# ----------------------------------------------------------------------------- case construction

def matrix_case(c, proto):
    setup = (c["pre"] + " " if c["pre"] else "") + proto["setupA"] + str(c["d"]) + proto["setupB"]
    return {"id": f"m-{c['fn']}-{c['how'][0]}-" + "-".join(c["ks"]), "fresh": False,
            "tag": f"matrix|{c['fn']}|{c['n']}|{c['how']}", "huge": c["huge"], "fn": c["fn"],
            "steps": [{"src": setup, "class": "ok"},
                      {"src": c["src"], "class": "noncrash"},
                      {"src": proto["probe"], "class": "ok", "emit": c["probe"]}]}


def matrix_cases(records):
    proto = next(c for c in records if c["k"] == "proto")
    seen, out = set(), []
    for c in records:
        if c["k"] != "call":
            continue
        key = (c["fn"], tuple(c["ks"]))
        if key in seen:
            continue
        seen.add(key)
        out.append(matrix_case(c, proto))
    # builtins one after the other: a crashy builtin costs restarts in one place
    out.sort(key=lambda c: c["id"])
    return out, proto


def stage_case(c, proto, fresh=False):
    setup = proto["setupA"] + str(c["d"]) + proto["setupB"] + proto["stagesetup"]
    ctl = {"src": c["ctl"], "class": "ok", "emit": c["ctlemits"]}
    steps = [{"src": setup, "class": "ok"}, ctl,
             {"src": c["src"], "class": c["out"], "emit": c["emits"]},
             {"src": proto["after"], "class": "ok", "emit": c["after"]}]
    # names defined AFTER the failing form in the failed unit: a later reference / call is an error, not a crash
    steps += [{"src": lp["src"], "class": lp["out"], "emit": lp["emits"]} for lp in c.get("late", [])]
    steps.append(ctl)
    return {"id": f"s-{c['ctx']}-{c['stage']}", "fresh": fresh, "tag": f"stage|{c['ctx']}|{c['stage']}",
            "steps": steps, "st": c["st"]}


def reenter_case(c, proto):
    setup = proto["setupA"] + str(c["d"]) + proto["setupB"] + proto["stagesetup"]
    steps = [{"src": setup, "class": "ok"},
             {"src": c["capture"], "class": "ok", "emit": c["capemits"]},
             {"src": c["src"], "class": c["out"], "emit": c["emits"]},
             {"src": c["reenter"], "class": "noncrash"},
             {"src": proto["after"], "class": "ok", "emit": c["after"]}]
    return {"id": f"k-reenter-{c['stage']}", "fresh": True, "tag": f"reenter|{c['stage']}", "steps": steps, "st": "run"}


def repeat_case(c, proto, n):
    setup = proto["setupA"] + str(c["d"]) + proto["setupB"] + proto["stagesetup"]
    steps = [{"src": setup, "class": "ok"}]
    for _ in range(n):
        steps.append({"src": c["src"], "class": c["out"], "emit": c["emits"]})
        steps.append({"src": "(emit (#%verif-depth))", "class": "ok", "emit": [c["after"][-1]]})
    steps.append({"src": proto["after"], "class": "ok", "emit": c["after"]})
    steps.append({"src": c["ctl"], "class": "ok", "emit": c["ctlemits"]})
    return {"id": f"r-{c['ctx']}-{c['stage']}", "fresh": True, "tag": f"repeat|{c['ctx']}|{c['stage']}", "steps": steps}


def inter_case(c, proto, i):
    setup = proto["setupA"] + str(c["d"]) + proto["setupB"] + proto["stagesetup"]
    steps = [{"src": setup, "class": "ok"}]
    for h in c["hist"]:
        steps.append({"src": h["src"], "class": h["out"], "emit": h["emits"]})
        steps.append({"src": proto["after"], "class": "ok", "emit": h["after"]})
    hid = sha(json.dumps(c["hist"], sort_keys=True))
    return {"id": f"i-{hid}", "fresh": True, "tag": "inter", "steps": steps}


def deep_case(c, proto):
    setup = proto["setupA"] + str(c["d"]) + proto["setupB"]
    if c["k"] == "units":
        steps = [{"src": setup, "class": "ok"}] + [{"src": c["src"], "class": "ok"}] * c["n"]
        steps.append({"src": proto["probe"], "class": "ok", "emit": c["probe"]})
        return {"id": f"d-many-units-{c['n']}", "fresh": True, "tag": f"deep|many-units|{c['n']}", "steps": steps,
                "depth": c["n"], "huge": False}
    if c["shape"] == "text":
        # the only thing the driver adds to the spec's description: the repetition
        text = c["pre"] + c["a"] * c["depth"] + c["mid"] + c["b"] * c["depth"] + c["post"]
        steps = [{"src": setup, "class": "ok"}, {"src": text, "class": c["class"]}]
    else:
        steps = [{"src": setup + " " + c["def"], "class": "ok"}, {"src": c["call"], "class": c["class"]}]
    if c["val"]:
        steps[-1]["val"] = c["val"]
    steps.append({"src": proto["probe"], "class": "ok", "emit": c["probe"]})
    return {"id": f"d-{c['fam']}-{c['depth']}", "fresh": True, "tag": f"deep|{c['fam']}|{c['depth']}", "steps": steps,
            "depth": c["depth"], "huge": c["huge"]}


def form_case(c, proto, wrapped):
    setup = proto["setupA"] + str(c["d"]) + proto["setupB"]
    # the set-up and the probe run in their own units: the form under test is the whole unit
    steps = [{"src": setup, "class": "ok"}, {"src": c["wrapped"] if wrapped else c["src"], "class": "noncrash"},
             {"src": proto["probe"], "class": "ok", "emit": c["probe"]}]
    return {"id": ("fw-" if wrapped else "f-") + sha(c["src"], 14), "fresh": False,
            "tag": f"form|{'wrapped' if wrapped else 'top'}|{c['head']}|{len(c['ops'])}", "steps": steps}


def part_forms(r, work, table_path, quick, rnd):
    """(2b) special forms x operand shapes (Robust.tla MODE "forms"): parser / expander / compiler are total
    and terminate; a rejected form leaves the engine as it was"""
    res = tlc("MC_Robust_forms.cfg", work, table_path, workers=4, timeout=300)
    r.add_tlc(res)
    proto = next(c for c in res["cases"] if c["k"] == "proto")
    recs, seen = [], set()
    for c in res["cases"]:
        if c["k"] == "form" and c["src"] not in seen:
            seen.add(c["src"])
            recs.append(c)
    if quick:
        # all forms with <= 1 operand and a seeded fifth of the rest
        small = [c for c in recs if len(c["ops"]) <= 1]
        rest = [c for c in recs if len(c["ops"]) > 1]
        recs = small + rnd.sample(rest, len(rest) // 5)
    recs.sort(key=lambda c: c["src"])
    wcases = [form_case(c, proto, True) for c in recs]
    wv = replay_robust(wcases, work, "c07fw", timeout_ms=10000)
    account(r, wcases, wv, "forms (compiled, not run)")
    hung = {c["steps"][1]["src"] for c, v in zip(wcases, wv) if not v["pass"] and "hang" in v["why"]}
    tcases = [form_case(c, proto, False) for c in recs]
    tv = replay_robust(tcases, work, "c07f", timeout_ms=10000)
    loops = 0
    tv2 = []
    for c, v in zip(tcases, tv):
        src = c["steps"][1]["src"]
        if not v["pass"] and v["why"].startswith("process hang") and f"(define (r07w@@) {src})" not in hung:
            # accepted, compiled in bounded time, and does not terminate when it RUNS: not judged
            loops += 1
            v = dict(v, **{"pass": True, "why": "run-time non-termination of an accepted form (not judged)"})
        tv2.append(v)
    account(r, tcases, tv2, "forms (top level)")
    r.notes.append(f"forms: {len(seen)} generated, {len(recs)} replayed twice (compiled only / top level); {loops} accepted forms loop at run time (not judged)")


# ----------------------------------------------------------------------------- the check

SEED = [1]


def tlc(cfg, work, table_path, **kw):
    """Run TLC on spec/<cfg> with the constant SEED of the cfg replaced by the check's --seed (the derived
    cfg is written to the work directory; run_tlc accepts an absolute path)."""
    with open(os.path.join(vlib.SPEC, cfg)) as f:
        text = f.read()
    text, n = re.subn(r"(?m)^(\s*SEED\s*=\s*)\d+\s*$", lambda m: m.group(1) + str(SEED[0] % 65521), text)
    if n != 1:
        raise vlib.ToolError(f"{cfg}: no SEED constant")
    derived = os.path.join(work, cfg)
    with open(derived, "w") as f:
        f.write(text)
    return vlib.run_tlc("Robust", derived, work, workers=kw.pop("workers", 8), timeout=kw.pop("timeout", 900),
                        env_extra={"ROBUST_TABLE": table_path}, **kw)


def account(r, cases, verdicts, what):
    """Result.add_cases with the D-HUGE reclassification; returns (#resource, per-function crash stats)."""
    nres = 0
    vs = []
    for c, v in zip(cases, verdicts):
        if is_resource(c, v):
            nres += 1
            v = dict(v, **{"pass": True, "why": "resource (D-HUGE): " + v["why"]})
        vs.append(v)
    slim = [{k: c[k] for k in ("id", "fresh", "tag", "steps")} for c in cases]
    r.add_cases(slim, vs, nontrivial=lambda c: True)
    if nres:
        r.notes.append(f"{what}: {nres} calls with a huge argument hit the time / memory limit (resource, D-HUGE)")
    return vs


def selftest(work, table_path):
    """Non-vacuity: (a) the spec as a mutant oracle (MUTANT = TRUE shifts the probe's expected value):
    every stage case must be reported; (b) a crash must be attributed with its site; (c) a hang is a
    failing verdict."""
    res = tlc("MC_Robust_stages_mutant.cfg", work, table_path, workers=2, timeout=300)
    proto = next(c for c in res["cases"] if c["k"] == "proto")
    mut = [stage_case(c, proto) for c in res["cases"] if c["k"] == "stage" and c["stage"] == "rt-type"][:6]
    for c in mut:
        c["id"] = "mutant-" + c["id"]
    vs = replay_robust(mut, work, "c07mut")
    if len(mut) < 3 or any(v["pass"] for v in vs):
        raise vlib.ToolError("self-test: the mutant oracle (probe value off by one) was not reported")
    if not all("emit: expected" in v["why"] for v in vs):
        raise vlib.ToolError("self-test: the mutant oracle failed for another reason: " + vs[0]["why"])
    crash = {"id": "selftest-crash", "fresh": True, "tag": "selftest", "steps": [
        {"src": "(define (r07st g) (+ 1 (g))) ((opaque r07st) (lambda (x) x))", "class": "noncrash"}]}
    hang = {"id": "selftest-hang", "fresh": True, "tag": "selftest", "steps": [
        {"src": "(let loop () (loop))", "class": "noncrash"}]}
    pan = {"id": "selftest-panic", "fresh": True, "tag": "selftest", "steps": [
        {"src": "(assert! #f)", "class": "noncrash"}]}
    vs = replay_robust([crash, hang, pan], work, "c07self", timeout_ms=1500)
    if vs[1]["pass"] or vs[1]["why"] != "process hang":
        raise vlib.ToolError("self-test: an endless loop was not reported as a hang")
    if vs[2]["pass"] or "meta_ops.rs" not in vs[2]["why"]:
        raise vlib.ToolError("self-test: a caught panic was not reported with its site: " + vs[2]["why"])
    # the first one is a genuine finding of the pinned tree; if it is ever repaired the class is err and
    # the verdict passes - both are fine, but a crash must carry its site
    if not vs[0]["pass"] and "after panic at" not in vs[0]["why"]:
        raise vlib.ToolError("self-test: a process abort was not joined with its panic site: " + vs[0]["why"])


def part_stages(r, work, table_path, quick, rnd, seed):
    nojit = {"STEEL_JIT": "false"}
    res = tlc("MC_Robust_stages.cfg", work, table_path, workers=4, timeout=300)
    r.add_tlc(res)
    proto = next(c for c in res["cases"] if c["k"] == "proto")
    r.notes.append("deny list (Robust.tla Deny): " + "; ".join(f"{d['name']} ({d['why']})" for d in proto["deny"]))
    selftest(work, table_path)
    srecs = [c for c in res["cases"] if c["k"] == "stage"]
    scases = [stage_case(c, proto) for c in srecs] + [reenter_case(c, proto) for c in res["cases"] if c["k"] == "reenter"]
    for env, nm in ((None, "c07s"), (nojit, "c07sn")):
        cs = [dict(c, id=c["id"] + ("-nojit" if env else ""), tag=c["tag"] + ("|nojit" if env else "")) for c in scases]
        account(r, cs, replay_robust(cs, work, nm, env_extra=env, timeout_ms=10000), "stages")
    # impl -> spec: the interpreter's event trace of every stage x context case must be a behaviour of
    # spec/Vm.tla: an error unwinds to the frame that carries the handler or ends the instalment, the
    # caller's frames survive a failing nested instalment, and the next unit starts on empty stacks
    # (flag C07-residue-on-the-stacks-of-an-idle-engine)
    vlib.vm_trace_check(r, scases, work, "c07s")
    # residue: every run-time failing unit repeated on one engine, depth probe after each
    # (not the two stages that are known to panic: a panic ends the case at its first repetition)
    rep = sorted((c for c in srecs if c["st"] == "run" and c["stage"] not in ("rt-assert", "rt-stream-tail")),
                 key=lambda c: (c["ctx"], c["stage"]))
    if quick:
        rep = rnd.sample(rep, 24)
    rcases = [repeat_case(c, proto, 100 if quick else 200) for c in rep]
    account(r, rcases, replay_robust(rcases, work, "c07r", timeout_ms=30000), "repeat")
    # histories
    sim = tlc("MC_Robust_inter.cfg", work, table_path, workers=1, timeout=300,
              simulate=f"num={40 if quick else 400}", seed=seed)
    proto_i = next(c for c in sim["cases"] if c["k"] == "proto")
    icases, seen = [], set()
    for i, c in enumerate(c for c in sim["cases"] if c["k"] == "inter"):
        ic = inter_case(c, proto_i, i)
        if ic["id"] not in seen:
            seen.add(ic["id"])
            icases.append(ic)
    r.cov["transitions"] += sum(len(c["steps"]) // 2 for c in icases)
    for env, nm in ((None, "c07i"), (nojit, "c07in")):
        cs = [dict(c, id=c["id"] + ("-nojit" if env else ""), tag=c["tag"] + ("|nojit" if env else "")) for c in icases]
        account(r, cs, replay_robust(cs, work, nm, env_extra=env, timeout_ms=10000), "inter")


def part_deep(r, work, table_path, quick):
    nojit = {"STEEL_JIT": "false"}
    res = tlc("MC_Robust_deep_quick.cfg" if quick else "MC_Robust_deep_thorough.cfg", work, table_path, workers=2, timeout=300)
    r.add_tlc(res)
    proto_d = next(c for c in res["cases"] if c["k"] == "proto")
    dcases = [deep_case(c, proto_d) for c in res["cases"] if c["k"] in ("deep", "units")]
    dcases.sort(key=lambda c: (-c["depth"], c["id"]))       # the slow ones first
    for env, nm in ((None, "c07d"), (nojit, "c07dn")):
        # parsing / expansion / compilation do not depend on the JIT: the quick tier runs only the
        # recursion families a second time
        sel = [c for c in dcases if not (env and quick and "|rec-" not in c["tag"])]
        cs = [dict(c, id=c["id"] + ("-nojit" if env else ""), tag=c["tag"] + ("|nojit" if env else "")) for c in sel]
        account(r, cs, replay_robust(cs, work, nm, env_extra=env, timeout_ms=60000 if quick else 120000,
                                     as_limit=AS_LIMIT_DEEP), "deep")


def replay_matrix(r, cases, work, name, env_extra=None):
    """Shared engines: a case whose own SET-UP unit fails met an engine that an earlier case of the batch
    left unusable.  Such a victim is re-run on a fresh engine and judged there; the interference itself is
    a violation of the property (the culprit is among the cases that ran before it in the same process)."""
    vs = replay_robust(cases, work, name, env_extra=env_extra)
    victims = [i for i, v in enumerate(vs) if not v["pass"] and v.get("step") == 0 and v["got"]
               and not v["why"].startswith("process ") and "panic" not in v["got"][0]["class"]]
    if victims:
        again = [dict(cases[i], fresh=True) for i in victims]
        v2 = replay_robust(again, work, name + "v", env_extra=env_extra)
        jobs = max(1, min(JOBS, (min(len(cases), PER_PROC * JOBS) + 19) // 20))
        for i, c, v in zip(victims, again, v2):
            if v["pass"]:
                b0 = (i // (PER_PROC * JOBS)) * PER_PROC * JOBS
                before = [cases[j]["id"] for j in range(i - jobs, b0 - 1, -jobs)][:30]
                r.violation(f"engine unusable for case {c['id']} after earlier cases of the batch: {vs[i]['why'][:200]}",
                            {"id": "interference-" + c["id"], "victim": c["id"], "ran_before_in_same_process": before})
            cases[i], vs[i] = c, v
    return vs


def part_matrix(r, work, table, table_path, quick, rnd):
    nojit = {"STEEL_JIT": "false"}
    # round 1: canaries
    res = tlc("MC_Robust_canary.cfg", work, table_path)
    r.add_tlc(res)
    c1, _ = matrix_cases(res["cases"])
    v1 = account(r, c1, replay_matrix(r, c1, work, "c07m1"), "matrix round 1")
    # crash budget: a builtin whose canaries crash / hang >= CAP_AT times, every time attributed to a
    # known finding, is capped in round 2
    per = collections.defaultdict(lambda: [0, 0])
    for c, v in zip(c1, v1):
        if crashy(v):
            per[c["fn"]][0] += 1
            if vlib.match_finding(PROP, c, v, r.findings):
                per[c["fn"]][1] += 1
    capped = sorted(fn for fn, (n, k) in per.items() if n >= CAP_AT and n == k)
    for t in table:
        t["cap"] = 1 if t["name"] in capped else 0
    write_table(table, table_path)
    if capped:
        r.notes.append(f"crash budget: {len(capped)} builtins capped to sampled tuples in round 2 "
                       f"(>= {CAP_AT} canary crashes, all of them known findings): " + " ".join(capped))
    # round 2
    res = tlc("MC_Robust_matrix_quick.cfg" if quick else "MC_Robust_matrix_thorough.cfg", work, table_path, timeout=1200)
    r.add_tlc(res)
    c2, _ = matrix_cases(res["cases"])
    have = {c["id"] for c in c1}
    c2 = [c for c in c2 if c["id"] not in have]
    account(r, c2, replay_matrix(r, c2, work, "c07m2"), "matrix round 2")
    # JIT off: a seeded sample of both rounds
    pool = c1 + c2
    sample = rnd.sample(pool, min(len(pool), 8000 if quick else 40000))
    sample.sort(key=lambda c: c["id"])
    cs = [dict(c, id=c["id"] + "-nojit", tag=c["tag"] + "|nojit") for c in sample]
    account(r, cs, replay_matrix(r, cs, work, "c07mn", env_extra=nojit), "matrix, JIT off")


def run(tier, seed):
    work = os.path.join(vlib.WORK, PROP)
    os.makedirs(work, exist_ok=True)
    # the replayer inherits stdin: reads from the default input port see end-of-file
    os.dup2(os.open(os.devnull, os.O_RDONLY), 0)
    r = vlib.Result(PROP, tier, seed)
    rnd = random.Random(seed)
    SEED[0] = seed
    quick = tier == "quick"

    table, stats = dump_table(work)
    table_path = os.path.join(work, "table.ndjson")
    write_table(table, table_path)
    r.notes.append("builtin table: " + json.dumps(stats))

    part_stages(r, work, table_path, quick, rnd, seed)      # (2), and the self-test
    part_forms(r, work, table_path, quick, rnd)             # (2b)
    part_deep(r, work, table_path, quick)                   # (3)
    part_matrix(r, work, table, table_path, quick, rnd)     # (1)

    r.cov["rule"] = ("matrix: one case per (builtin, argument-kind tuple); stages: one per (context, stage) and JIT mode; "
                     "inter: distinct histories; deep: one per (family, depth) and JIT mode; every case compares the "
                     "probe / after-state values computed by Robust.tla, so all are non-trivial; distinct = distinct step texts")
    r.cov["exhaustive"] = False
    r.assumptions += [
        "matrix: Kind^arity is exhaustive only over the tier sets of the cfg (T1/T2/T3); larger products are seed-sampled",
        "builtins with effects outside the engine are excluded by the explicit Deny list of Robust.tla (printed in notes)",
        "stdin of the replayer is /dev/null, its address space is limited to 3 GiB (4 GiB for deep programs)",
        "memory corruption is observable only through its symptoms (crash, wrong probe value)",
    ]
    return r.finish()


def replay_file(path):
    with open(path) as f:
        tag = json.load(f)["case"].get("tag", "")
    env = {"STEEL_JIT": "false"} if tag.endswith("|nojit") else None
    return vlib.replay_file(PROP, path, env_extra=env, binary="robust")
