"""C10 - exact arithmetic is exact and the numeric tower is coherent (Num.tla).

TLC enumerates (operator, operand tuple) over the boundary operand tables of Num.tla,
computes the expected printed result with the limb-level algebra of the spec, checks the
algebra's own laws in every state (invariant Laws), renders every CALL SHAPE of the tuple
and prints one REPLAY line per tuple.  This module fans a tuple out into one replayer case
per shape and replays all of them twice: JIT on (default) and STEEL_JIT=false.  Both must
agree with the spec.
"""
import hashlib
import json
import os
import re
from fractions import Fraction

import vlib

PROP = "C10"
CONFIGS = [("jit", {}), ("nojit", {"STEEL_JIT": "false"})]

# quick tier: shapes replayed for every tuple; the remaining shapes of a tuple are replayed
# for a seeded eighth of the tuples (the thorough tier replays every shape of every tuple)
PROBE = {"opq", "nest"}                     # phase-1 shapes (one per tuple)
AFTER_PANIC = {"fold", "fn", "fnacc"}      # phase-2 shapes still replayed for a tuple whose probe panicked
# in-function shapes additionally replayed as a module file
MODULE_SHAPES = {"opq", "fn", "opqC", "fnC", "fnaccC", "fnlitR", "fnlitL", "fnif", "fniflitR", "fnacc", "fnacclit", "fnloop", "namedlet", "fnnest", "fncap", "fnarg"}
ALWAYS = {"fold", "opq", "opqC", "nest", "fn", "fnC", "fnlitR", "fnif", "fnacc", "fnaccC", "namedlet"}


def seeded_cfg(tier, seed, work, cfg_name=None):
    """MC_Num_<tier>.cfg with SEED replaced by the run's seed (written to the work dir)."""
    src = os.path.join(vlib.SPEC, cfg_name or f"MC_Num_{tier}.cfg")
    with open(src) as f:
        text = f.read()
    text, n = re.subn(r"(?m)^(\s*SEED\s*=\s*)\d+", lambda m: m.group(1) + str(seed % 1000000), text)
    if n != 1:
        raise vlib.ToolError(f"{src}: no SEED constant to substitute")
    os.makedirs(work, exist_ok=True)
    out = os.path.join(work, os.path.basename(src).replace(".cfg", f".seed{seed}.cfg"))
    with open(out, "w") as f:
        f.write(text)
    return out


def check_float_table(rows):
    """The spec's flonum table (literal, sign, significand, exponent, exact decimal expansion,
    printed form) is validated against the host's IEEE doubles: the literal denotes exactly
    m * 2^e, the exact expansion reads back as the same double, and so does the printed form."""
    bad = []
    for r in rows:
        if r["c"] != "fin":
            continue
        lit = r["lit"]
        x = -float(lit[3:-1]) if lit.startswith("(- ") else float(lit)    # negative zero is written (- 0.0)
        val = Fraction(int(r["m"])) * (Fraction(2) ** r["e"]) * (-1 if r["neg"] else 1)
        if Fraction(x) != val:
            bad.append(f"{r['lit']}: spec says {val}, IEEE says {Fraction(x)}")
        if (str(x)[0] == "-") != r["neg"]:
            bad.append(f"{r['lit']}: sign")
        if float(r["exact"]) != x or Fraction(r["exact"].rstrip(".")) != val:
            bad.append(f"{r['lit']}: exact expansion {r['exact'][:40]}")
        if r["printed"] and float(r["printed"]) != x:
            bad.append(f"{r['lit']}: printed {r['printed']}")
        if int(r["m"]) >= 2 ** 53 or (int(r["m"]) % 2 == 0 and int(r["m"]) != 0):
            bad.append(f"{r['lit']}: significand not canonical")
    if bad:
        raise vlib.ToolError("Num.tla flonum table disagrees with IEEE-754: " + "; ".join(bad))
    return len(rows)


def fan_out(tcase, tier, seed):
    """One TLC tuple -> one replayer case per call shape."""
    out = []
    key = json.dumps([tcase["fam"], tcase["op"], tcase["args"]])
    h = hashlib.sha1(key.encode()).hexdigest()
    every = tier != "quick" or (int(h[:8], 16) + seed) % 8 == 0
    seen = set()
    for t in tcase["tests"]:
        if not every and t["sh"] not in ALWAYS:
            continue
        if (t["def"], t["src"]) in seen:
            continue
        seen.add((t["def"], t["src"]))
        steps = []
        if t["def"]:
            steps.append({"src": t["def"], "class": "ok", "emit": []})
        if tcase["cls"] == "err":
            steps.append({"src": t["src"], "class": "err", "emit": []})
        else:
            steps.append({"src": t["src"], "class": "ok", "emit": [t["emit"]]})
        out.append({"id": f"{tcase['fam']}-{t['sh']}-{h[:12]}", "fresh": False, "steps": steps,
                    "tag": f"{tcase['fam']}:{tcase['op']}:{t['sh']}", "rep": tcase["rep"],
                    "args": tcase["args"], "cls": tcase["cls"], "tkey": h[:12], "sh": t["sh"]})
    return out


def nontrivial(case):
    """A case is non-trivial when it leaves the comfortable small-fixnum world: an operand or the
    result is a bignum, a ratio, a flonum, or a fixnum of 10 or more digits, or the expected
    outcome is an error."""
    if case.get("cls") == "err":
        return True
    if any(r in ("big", "rat", "bigrat", "flo") for r in case.get("rep", [])):
        return True
    return any(len(a.lstrip("-")) >= 10 for a in case.get("args", []))


def with_env(cases, name, env):
    return [dict(c, id=f"{c['id']}/{name}", env=env) for c in cases]


def annotate_crashes(jit_verdicts, nojit_verdicts):
    """The panic message of a failing step is appended to the verdict text, so that a known finding
    is recognised by its symptom.  With the JIT on, a Rust panic below native frames aborts the
    process and the verdict only says 'process crash': when the same case panics without the JIT,
    that message is appended instead."""
    def panic_msg(v):
        msgs = [g.get("msg") for g in v.get("got", []) if g.get("class") == "panic" and g.get("msg")]
        return msgs[0] if msgs else None
    for vj, vn in zip(jit_verdicts, nojit_verdicts):
        for v in (vj, vn):
            if not v["pass"] and panic_msg(v):
                v["why"] += f" [panic: {panic_msg(v)}]"
        if not vj["pass"] and vj.get("why", "").startswith("process crash") and panic_msg(vn):
            vj["why"] += f" [the same case without the JIT panics: {panic_msg(vn)}]"


def replay_batched(cases, work, env, name, batch=36000):
    """vlib.replay in batches: a panic under the JIT costs one replayer restart (the process aborts),
    the known findings of C10 cause thousands of them in the thorough tier, and the restart budget
    and the cost of re-reading the case file are per replay call."""
    out = []
    for i in range(0, len(cases), batch):
        out += vlib.replay(cases[i:i + batch], work, env_extra=env, jobs=12, timeout_ms=10000, name=name)
    return out


def mutant_selftest(cases, work):
    """Non-vacuity: corrupt the expectation of cases that pass (expected value off by one digit,
    expected error where a value is produced) and require that the replayer reports each."""
    picked = []
    for c in cases:
        last = c["steps"][-1]
        if c["cls"] == "ok" and last["emit"]:
            m = json.loads(json.dumps(c))
            v = m["steps"][-1]["emit"][0]
            if re.fullmatch(r"-?\d+", v):
                m["steps"][-1]["emit"] = [v[:-1] + str((int(v[-1]) + 1) % 10)]   # off by one in the last digit
            else:
                m["steps"][-1]["emit"] = [v + "0"]
            m["id"] = "mutant-value-" + c["id"]
            picked.append(m)
            m2 = json.loads(json.dumps(c))
            m2["steps"][-1]["class"] = "err"
            m2["steps"][-1]["emit"] = []
            m2["id"] = "mutant-err-" + c["id"]
            picked.append(m2)
        if len(picked) >= 8:
            break
    if not picked:
        raise vlib.ToolError("mutant self-test: no passing case to corrupt")
    vs = vlib.replay(picked, work, jobs=1, name="c10.mutant")
    missed = [c["id"] for c, v in zip(picked, vs) if v["pass"]]
    if missed:
        raise vlib.ToolError(f"mutant self-test: corrupted expectations were NOT reported: {missed}")
    return len(picked)


CANON_TWIN = {"opqC": "opq", "fnC": "fn", "fnaccC": "fnacc"}


def fold_canonical(runs):
    """The canonical-form shapes (opqC / fnC / fnaccC) observe a result through equal? / = / hashing
    against the expected value read as a literal.  They add information only when the VALUE is right:
    when the print-observed twin of the same tuple (opq / fn / fnacc, same configuration and mode)
    fails as well, the result itself is wrong or the primitive panics, and the canonical observation
    is the same failure seen through another window.  Its verdict then carries the twin's symptom, so
    that it is attributed (or reported) exactly like the twin.  A canonical shape that fails while its
    twin passes is a representation defect and is reported as it is."""
    by_id = {}
    for pruns in runs:
        for cs, vs in pruns:
            for c, v in zip(cs, vs):
                by_id[c["id"]] = v
    folded = 0
    for pruns in runs:
        for cs, vs in pruns:
            for c, v in zip(cs, vs):
                base = c["sh"].split("~")[0]
                if v["pass"] or base not in CANON_TWIN:
                    continue
                twin_id = c["id"].replace(f"-{base}-", f"-{CANON_TWIN[base]}-", 1)
                tv = by_id.get(twin_id)
                if tv is not None and not tv["pass"]:
                    v["why"] = tv["why"] + f" [canonical-form observation of the same wrong result: {v['why']}]"
                    folded += 1
    return folded


def run(tier, seed, cfg_name=None):
    work = os.path.join(vlib.WORK, PROP)
    r = vlib.Result(PROP, tier, seed)
    cfg = seeded_cfg(tier, seed, work, cfg_name)
    res = vlib.run_tlc("Num", cfg, work, workers=8, timeout=(220 if tier == "quick" else 1300))
    r.add_tlc(res)
    cases = []
    tuples = 0
    ftab = 0
    per_fam = {}
    matrix = {}
    for tc in res["cases"]:
        if tc["fam"] == "ftab":
            ftab = check_float_table(tc["rows"])
            continue
        tuples += 1
        per_fam[tc["fam"]] = per_fam.get(tc["fam"], 0) + 1
        k = tc["op"] + " " + ",".join(tc["rep"][:-1]) + "->" + tc["rep"][-1]
        matrix[k] = matrix.get(k, 0) + 1
        cases += fan_out(tc, tier, seed)
    if not ftab:
        raise vlib.ToolError("Num.tla did not print its flonum table (family ftab)")
    if not cases:
        raise vlib.ToolError("Num.tla generated no case")
    cases.sort(key=lambda c: c["id"])
    # Phase 1: the probe shape of every tuple (every operand opaque: the primitive / opcode itself).
    # Phase 2: the other shapes.  A tuple whose probe PANICS is a defect of the primitive; it panics in
    # every shape, and each panic costs an engine (or, under the JIT, a process): for such tuples only
    # the shapes in AFTER_PANIC are replayed in phase 2.  Nothing else is skipped.
    phase1 = [c for c in cases if c["sh"] in PROBE]
    rest = [c for c in cases if c["sh"] not in PROBE]
    runs = []
    panicking = set()
    skipped = 0
    for phase, pcs in (("p1", phase1), ("p2", rest)):
        if phase == "p2":
            kept = [c for c in pcs if c["tkey"] not in panicking or c["sh"] in AFTER_PANIC]
            skipped = len(pcs) - len(kept)
            pcs = kept
        pruns = []
        for name, env in CONFIGS:
            cs = with_env(pcs, name, env)
            vs = replay_batched(cs, work, env, f"c10.{phase}.{name}")
            pruns.append((cs, vs))
        annotate_crashes(pruns[0][1], pruns[1][1])
        for cs, vs in pruns:
            for c, v in zip(cs, vs):
                if not v["pass"] and ("[panic:" in v["why"] or v["why"].startswith("process crash")):
                    panicking.add(c["tkey"])
        runs.append(pruns)
    # Phase 3: the in-function shapes again, compiled AS A MODULE (the way `steel file.scm` runs a file).
    # Only inside a module are the builtins resolved to #%prim.*, which selects the arithmetic opcodes
    # (ADD, LT, ...) and the JIT's typed helpers; top-level Engine::run code reaches the same primitives
    # through global variables.  Expected errors cost one module file each: a seeded eighth of them.
    mroot = os.path.join(work, "modules")
    import shutil
    shutil.rmtree(mroot, ignore_errors=True)
    mcs = [c for c in cases if c["sh"] in MODULE_SHAPES and c["tkey"] not in panicking
           and (c["cls"] != "err" or tier != "quick" or (int(c["tkey"][:8], 16) + seed) % 8 == 0)]
    # negative zero is written (- 0.0) by the spec; inside a module that expression is constant-folded and
    # the folded constant loses its sign (known finding C10-folded-negative-zero-loses-sign).  An OPERAND
    # that merely happens to be negative zero is therefore built at run time here; a literal (- 0.0) in
    # the tested call itself stays as it is.
    mcs = [dict(c, steps=[dict(st, src=st["src"].replace("(opaque (- 0.0))", "(opaque (- (opaque 0.0)))")) for st in c["steps"]])
           for c in mcs]
    # A small function called directly is inlined into its caller (here: module top level, which is not
    # native code).  A second variant calls it through (opaque f), so that the function's own (natively
    # compiled) body runs.
    def indirect(c):
        last = c["steps"][-1]
        if len(c["steps"]) < 2 or "(c10f@@ " not in last["src"]:
            return None
        return dict(c, id=c["id"] + "~ind", sh=c["sh"] + "~ind", tag=c["tag"] + "~ind",
                    steps=c["steps"][:-1] + [dict(last, src=last["src"].replace("(c10f@@ ", "((opaque c10f@@) "))])
    mcs += [i for i in map(indirect, mcs) if i]
    mruns = []
    failed_top = {v["id"] for pruns in runs for cs, vs in pruns for v in vs if not v["pass"]}
    failed_top |= {i.replace("/", "~ind/", 1) for i in failed_top}
    for name, env in CONFIGS:
        cs, vs = vlib.replay_as_modules(with_env(mcs, name, env), work, mroot, env_extra=env, name=f"c10.mod.{name}",
                                        single_ids=failed_top)
        mruns.append((cs, vs))
    annotate_crashes(mruns[0][1], mruns[1][1])
    runs.append(mruns)
    fold_canonical(runs)
    disagree = 0
    passing = []
    for pruns in runs:
        for cs, vs in pruns:
            r.add_cases(cs, vs, nontrivial=nontrivial)
        disagree += sum(1 for a, b in zip(pruns[0][1], pruns[1][1]) if a["pass"] != b["pass"])
        passing += [c for c, v in zip(pruns[0][0], pruns[0][1]) if v["pass"] and not c["id"].endswith("@mod")]
    replayed = sum(len(pruns[0][0]) for pruns in runs)
    r.notes.append(f"cases whose verdict differs between JIT on and STEEL_JIT=false: {disagree}")
    r.notes.append(f"tuples whose primitive panics: {len(panicking)}; their {skipped} remaining shape cases "
                   f"(other than {sorted(AFTER_PANIC)}) were not replayed")
    n_mut = mutant_selftest(passing, work)
    r.cov["rule"] = ("one evaluation = one (operator, operand tuple, call shape) replayed under one JIT "
                     "setting; distinct_nontrivial counts distinct step lists in which an operand or the "
                     "result is a bignum, ratio, flonum or a fixnum of >= 10 digits, or an error is expected")
    r.cov["exhaustive"] = tier != "quick"
    r.notes.append(f"tuples={tuples} per family={per_fam}; shapes fanned out to {len(cases)} cases, {replayed} replayed x {len(CONFIGS)} configs")
    r.notes.append(f"operator x representation-class signatures covered: {len(matrix)}")
    r.notes.append(f"flonum table rows validated against host IEEE-754: {ftab}; mutant expectations rejected: {n_mut}")
    r.assumptions.append("inexact results are decided only where IEEE-754 determines them without rounding "
                         "(exactly representable operands and result); correctly-rounded results, sqrt/exp/log, "
                         "and float printing beyond 15 significant digits are not decided")
    return r.finish()


def replay_file(path):
    with open(path) as f:
        obj = json.load(f)
    return vlib.replay_file(PROP, path, env_extra=obj.get("case", {}).get("env") or None)
