"""Conversion of Lang.tla case lines into replayer cases (shared by C01, C02, C08, C09)."""
import hashlib
import json
import re

OPAQUE = re.compile(r"#<(box|mvec|err|proc)>")


def norm(s):
    return OPAQUE.sub("#<proc>", s)


def to_case(c, prefix, fresh=False, tag=""):
    steps = []
    for u in c["units"]:
        st = {"src": u["src"], "class": u["class"], "emit": [norm(x) for x in u["emit"]]}
        if u["class"] == "ok":
            st["val"] = norm(u["val"])
        steps.append(st)
    h = hashlib.sha1(json.dumps([s["src"] for s in steps]).encode()).hexdigest()[:12]
    return {"id": f"{prefix}-{h}", "fresh": fresh, "steps": steps, "tag": tag or c.get("fam", ""),
            "mach_steps": c.get("steps", 0)}


def nontrivial(case):
    """A Lang case is non-trivial when something is observed beyond the prelude: an emit,
    an error outcome, or a last value other than void in a non-prelude unit."""
    for st in case["steps"][1:]:
        if st.get("emit") or st["class"] != "ok" or st.get("val") not in (None, "#<void>"):
            return True
    return False


def dedup(cases):
    seen = set()
    out = []
    for c in cases:
        if c["id"] not in seen:
            seen.add(c["id"])
            out.append(c)
    return out


def run_family(vlib, family, work, r=None, fresh=False, timeout=900):
    """TLC on spec/LangFam.tla for one family -> replayer cases"""
    res = vlib.run_tlc("LangFam", f"MC_LangFam_{family}.cfg", work, workers=8, timeout=timeout)
    if r is not None:
        r.add_tlc(res)
    return dedup([to_case(c, "F" + family[:2], fresh=fresh, tag="fam:" + family) for c in res["cases"]])


# --------------------------------------------------------------------------- module mode

def split_forms(src):
    """top-level forms of a unit (text): parentheses / brackets matched, strings and char literals skipped"""
    forms, depth, start, i, n = [], 0, None, 0, len(src)
    while i < n:
        ch = src[i]
        if ch == '"':
            if depth == 0 and start is None:
                start = i
            i += 1
            while i < n and src[i] != '"':
                i += 2 if src[i] == "\\" else 1
            if depth == 0:
                forms.append(src[start:i + 1]); start = None
        elif ch == "#" and i + 1 < n and src[i + 1] == "\\":
            if depth == 0 and start is None:
                start = i
            i += 2
            while i + 1 < n and not src[i + 1].isspace() and src[i + 1] not in "()[]":
                i += 1
            if depth == 0:
                forms.append(src[start:i + 1]); start = None
        elif ch in "([":
            if depth == 0 and start is None:
                start = i
            depth += 1
        elif ch in ")]":
            depth -= 1
            if depth == 0:
                forms.append(src[start:i + 1]); start = None
        elif ch.isspace():
            if depth == 0 and start is not None:
                forms.append(src[start:i]); start = None
        else:
            if depth == 0 and start is None:
                start = i
        i += 1
    if start is not None:
        forms.append(src[start:])
    return forms


def observable(case):
    """The same program with the value of every unit observed through `emit` (inside a module the value
    of a top-level expression is not returned to the host).  None when a unit ends in something that
    cannot be wrapped."""
    steps = []
    for st in case["steps"]:
        st = dict(st)
        if st.get("class", "ok") == "ok" and "val" in st:
            forms = split_forms(st["src"])
            if forms and not forms[-1].startswith("(define") and "(define" not in forms[-1][:40] and st["val"] != "#<void>":
                forms[-1] = "(emit " + forms[-1] + ")"
                st["src"] = " ".join(forms)
                st["emit"] = list(st.get("emit", [])) + [st["val"]]
        st.pop("val", None)
        steps.append(st)
    return dict(case, steps=steps)


DEFNAME = re.compile(r"^\(define \(?([^\s()]+)")


def module_ok(case):
    """M1: a module defines a name at most once (`Variable re defined within the top level definition`);
    at the top level of an engine a later define shadows.  Programs that redefine are not module programs."""
    seen = set()
    for st in case["steps"]:
        for f in split_forms(st["src"]):
            m = DEFNAME.match(f)
            if m:
                if m.group(1) in seen:
                    return False
                seen.add(m.group(1))
    return True


def replay_modules(vlib, cases, work, r, name, env=None, nontriv=None, err_every=1):
    """module-mode replay of Lang cases (see vlib.module_variant): whole program = one module file"""
    import os
    root = os.path.join(work, "modules-" + name)
    import shutil
    shutil.rmtree(root, ignore_errors=True)
    # only programs without an expected error: a module is compiled as a whole, so a statically detected
    # error (arity, free identifier) legitimately rejects the file before any effect of it happens
    obs = [observable(c) for c in cases if module_ok(c) and all(s.get("class", "ok") == "ok" for s in c["steps"])]
    if env:
        obs = [dict(c, id=c["id"] + "/" + "+".join(f"{k}={v}" for k, v in sorted(env.items())), env=env) for c in obs]
    cs, vs = vlib.replay_as_modules(obs, work, root, env_extra=env, name=name)
    r.add_cases(cs, vs, nontrivial=nontriv or (lambda c: any(s.get("emit") for s in c["steps"])))
    return cs, vs


def nontrivial_mod(case):
    """module cases observe through emit only"""
    return any(st.get("emit") for st in case["steps"])
