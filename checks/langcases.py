"""Conversion of Lang.tla case lines into replayer cases (shared by C01, C02, C08, C09)."""
import hashlib
import json
import re

OPAQUE = re.compile(r"#<(box|mvec|err|proc)>")


def norm(s):
    return OPAQUE.sub("#<proc>", s)


def to_case(c, prefix, fresh=False, tag=""):
    steps = []
    for u in c["units"]:
        st = {"src": u["src"], "class": u["class"], "emit": [norm(x) for x in u["emit"]]}
        if u["class"] == "ok":
            st["val"] = norm(u["val"])
        steps.append(st)
    h = hashlib.sha1(json.dumps([s["src"] for s in steps]).encode()).hexdigest()[:12]
    return {"id": f"{prefix}-{h}", "fresh": fresh, "steps": steps, "tag": tag or c.get("fam", ""),
            "mach_steps": c.get("steps", 0)}


def nontrivial(case):
    """A Lang case is non-trivial when something is observed beyond the prelude: an emit,
    an error outcome, or a last value other than void in a non-prelude unit."""
    for st in case["steps"][1:]:
        if st.get("emit") or st["class"] != "ok" or st.get("val") not in (None, "#<void>"):
            return True
    return False


def dedup(cases):
    seen = set()
    out = []
    for c in cases:
        if c["id"] not in seen:
            seen.add(c["id"])
            out.append(c)
    return out


def run_family(vlib, family, work, r=None, fresh=False, timeout=900):
    """TLC on spec/LangFam.tla for one family -> replayer cases"""
    res = vlib.run_tlc("LangFam", f"MC_LangFam_{family}.cfg", work, workers=8, timeout=timeout)
    if r is not None:
        r.add_tlc(res)
    return dedup([to_case(c, "F" + family[:2], fresh=fresh, tag="fam:" + family) for c in res["cases"]])
