"""C06 - earlier definitions keep their meaning (Globals.tla), incl. the history half of C07."""
import hashlib
import json
import os
import random

import vlib

PROP = "C06"
DEFECTS = ["no_set_scan", "no_transitive", "no_host_roots", "rollback_drops"]
# defects of the pinned tree that were repaired by fix: commits -- their counterexamples are
# regression cases: any failure is a violation
REPAIRED = {"no_set_scan", "no_transitive", "rollback_drops"}


HOLD_MODES = {
    # how a function value is kept alive after its name is redefined: by the embedder (Engine::extract_value,
    # the model's `hold`), or by the SCRIPT in mutable heap storage that only the collector's heap walk reaches
    "box": ("(define keep{k}@@ (box {n}@@))", "((unbox keep{k}@@))"),
    "vector": ("(define keep{k}@@ (vector 0 {n}@@))", "((vector-ref keep{k}@@ 1))"),
    "captured": ("(define keep{k}@@ (let ([c #f]) (set! c {n}@@) (lambda () (c))))", "(keep{k}@@)"),
    "boxed-list": ("(define keep{k}@@ (box (list 1 {n}@@)))", "((cadr (unbox keep{k}@@)))"),
}


def render(c, prefix, hold_mode="host"):
    """Globals.tla case -> replayer case (one engine history + probes)."""
    steps = []
    hold_order = []
    recycled = False
    for h in c["hist"]:
        op = h["op"]
        if op == "defval":
            steps.append({"src": f"(define {h['n']}@@ {h['v']})", "class": "ok"})
        elif op == "set":
            steps.append({"src": f"(set! {h['n']}@@ {h['v']})", "class": "ok"})
        elif op == "deffn":
            parts = []
            for r in h["refs"]:
                if r["kind"] == "read":
                    parts.append(f"{r['n']}@@")
                elif r["kind"] == "set":
                    parts.append(f"(begin (set! {r['n']}@@ {1000 + h['tag']}) 's)")
                else:
                    parts.append(f"({r['n']}@@)")
            steps.append({"src": f"(define ({h['n']}@@) (list 't{h['tag']} {' '.join(parts)}))", "class": "ok"})
        elif op == "hold":
            if hold_mode == "host":
                steps.append({"op": f"hold:{h['n']}@@", "class": "ok"})
            else:
                steps.append({"src": HOLD_MODES[hold_mode][0].format(k=len(hold_order), n=h["n"]), "class": "ok"})
            hold_order.append(h["bid"])
        elif op == "recycle":
            steps.append({"op": "force_recycle", "class": "ok"})
            recycled = True
        elif op == "fail":
            steps.append({"src": f"(define {h['n']}@@ 999) (verif-undefined-fn@@ 1)", "class": "err"})
    if recycled:
        steps.append({"op": "fill_free", "class": "ok"})
    for p, exp in zip(c["probes"], c["expect"]):
        if p["kind"] == "callname":
            steps.append({"src": f"(emit ({p['n']}@@))", "class": "ok", "emit": [exp]})
        elif hold_mode == "host":
            steps.append({"op": f"call_held:{hold_order.index(p['bid'])}", "class": "ok", "emit": [exp]})
        else:
            steps.append({"src": "(emit " + HOLD_MODES[hold_mode][1].format(k=hold_order.index(p["bid"])) + ")",
                          "class": "ok", "emit": [exp]})
    for v in c["vals"]:
        steps.append({"src": f"(emit {v['n']}@@)", "class": "ok", "emit": [str(v["v"])]})
    hid = hashlib.sha1(json.dumps(c["hist"], sort_keys=True).encode()).hexdigest()[:12]
    blame = set(c["blame"])
    if hold_mode != "host":
        # what the script keeps in heap storage IS reached by the recycler's walk: the host-roots deviation
        # does not apply, such a history must behave ideally
        blame.discard("no_host_roots")
        hid += "-" + hold_mode
    tag = "blame:" + ",".join(sorted(blame)) if blame else ""
    return {"id": f"{prefix}-{hid}", "fresh": False, "steps": steps, "tag": tag,
            "model": {"c06": c["c06"], "c07": c["c07"]}}


def hold_order_fix(case):
    return case


def nontrivial(case):
    # a history is non-trivial when it contains a redefinition, recycle, failure or host hold
    srcs = [s.get("src", "") + (s.get("op") or "") for s in case["steps"]]
    defs = [s.split()[1] for s in srcs if s.startswith("(define ")]
    return len(defs) != len(set(defs)) or any("force_recycle" in s or "hold:" in s or "(define keep" in s or "undefined-fn" in s for s in srcs)


def run(tier, seed):
    work = os.path.join(vlib.WORK, PROP)
    r = vlib.Result(PROP, tier, seed)
    rnd = random.Random(seed)

    # 1. design level: with the repaired recycler / rollback the invariants hold in every history
    res = vlib.run_tlc("Globals", "MC_Globals_fixed.cfg", work, workers=8, timeout=900, allow_violation=True)
    r.add_tlc(res)
    if res["violation"]:
        r.violation(f"repaired model violates {res.get('violated')}", {"id": "model-fixed", "tlc": res["violation"][:3000]})

    cases = []
    # 2. every named defect: TLC's minimal counterexample, replayed
    for d in DEFECTS:
        res = vlib.run_tlc("Globals", f"MC_Globals_cex_{d}.cfg", work, workers=4, timeout=600, allow_violation=True)
        r.add_tlc(res)
        if not res["cases"]:
            r.notes.append(f"cex_{d}: model finds no counterexample")
        for c in res["cases"][:3]:
            k = render(c, "cex-" + d)
            k["tag"] = ("regression:" if d in REPAIRED else "blame:") + d
            cases.append(k)
            if d == "no_host_roots":
                cases += [render(c, "cex-" + d, m) for m in HOLD_MODES]

    # 3. all histories of the as-is model (exhaustive to 4 steps; 5 steps: quick = seeded sample,
    #    thorough = all) + seeded random walks of 8 steps
    res = vlib.run_tlc("Globals", "MC_Globals_asis4.cfg", work, workers=8, timeout=900)
    r.add_tlc(res)
    raw = [(c, "h4") for c in res["cases"]]
    cases += [render(c, "h4") for c in res["cases"]]
    res = vlib.run_tlc("Globals", "MC_Globals_asis.cfg", work, workers=8, timeout=1200)
    r.add_tlc(res)
    raw += [(c, "h5") for c in res["cases"]]
    five = [render(c, "h5") for c in res["cases"]]
    if tier == "quick":
        five = rnd.sample(five, min(2500, len(five)))
    cases += five
    n = 300 if tier == "quick" else 5000
    res = vlib.run_tlc("Globals", "MC_Globals_sim.cfg", work, workers=4, timeout=900, simulate=f"num={n}", seed=seed)
    raw += [(c, "sim") for c in res["cases"]]
    sim = [render(c, "sim") for c in res["cases"]]
    if tier == "quick":
        sim = rnd.sample(sim, min(2500, len(sim)))
    cases += sim
    # the histories with a hold step again, the function kept by the script in mutable heap storage
    # (first the histories in which keeping the function alive MATTERS - the as-is model blames the host-roots
    # deviation, i.e. a slot only the kept function references is recycled - in every mode; then a sample of the rest)
    held = [(c, p) for c, p in raw if any(h["op"] == "hold" for h in c["hist"])]
    matters = [(c, p) for c, p in held if "no_host_roots" in c["blame"]]
    matters = rnd.sample(matters, min(400 if tier == "quick" else 4000, len(matters)))
    for c, p in matters:
        cases += [render(c, p, m) for m in HOLD_MODES]
    rest = [(c, p) for c, p in held if "no_host_roots" not in c["blame"]]
    rest = rnd.sample(rest, min(300 if tier == "quick" else 3000, len(rest)))
    for i, (c, p) in enumerate(rest):
        cases.append(render(c, p, list(HOLD_MODES)[i % len(HOLD_MODES)]))
    r.notes.append(f"script-held variants: {len(matters)} histories in which the kept function decides a recycle x {len(HOLD_MODES)} modes, {len(rest)} others")
    # dedup ids
    seen, uniq = set(), []
    for c in cases:
        if c["id"] not in seen:
            seen.add(c["id"])
            uniq.append(c)
    cases = uniq
    verdicts = vlib.replay(cases, work, jobs=12, timeout_ms=60000, name="c06")
    # WHEN the recycler runs is policy (threshold on accumulated shadowing): on the shared engine it
    # may run inside a case whose model history has no recycle step.  Those cases are re-run on a
    # fresh engine, where the history is exactly the model's.
    redo = [i for i, v in enumerate(verdicts) if "unplanned-recycle" in v.get("tag", "")]
    if redo:
        fresh = [dict(cases[i], fresh=True) for i in redo]
        v2 = vlib.replay(fresh, work, jobs=12, timeout_ms=60000, name="c06-fresh")
        for i, c, v in zip(redo, fresh, v2):
            if "unplanned-recycle" in v.get("tag", ""):
                raise vlib.ToolError(f"unplanned recycle on a fresh engine in {c['id']}")
            cases[i], verdicts[i] = c, v
        r.notes.append(f"{len(redo)} cases re-run on a fresh engine (unplanned recycle on the shared engine)")
    failing = [c for c, v in zip(cases, verdicts) if not v["pass"]]
    r.add_cases(cases, verdicts, nontrivial=nontrivial)
    r.cov["rule"] = ("engine histories generated by Globals.tla (as-is model: every history up to 4 steps, "
                     "5-step histories sampled/exhaustive, 8-step random walks, plus each defect's minimal counterexample); "
                     "non-trivial = contains a redefinition, forced recycle, failed unit or host hold")
    r.cov["exhaustive"] = tier == "thorough"
    r.notes.append(f"{len(failing)} failing cases attributed to known findings or reported")
    return r.finish()


def replay_file(path):
    return vlib.replay_file(PROP, path)
