"""C05 - reference counting is sound under every interleaving (BiasedRc.tla + rcsched)."""
import hashlib
import json
import os
import re
import subprocess
from concurrent.futures import ThreadPoolExecutor

import vlib

PROP = "C05"
RCSCHED = os.path.join(vlib.BIN, "rcsched")
SETTID = {"FDEC_SET_TID", "MERGE_SET_TID"}


def parse_hist(text):
    """hist variable of a TLC state dump -> [[thread, point], ...]"""
    m = re.search(r"/\\ hist = (<<.*?>>)\n(?:/\\|$)", text + "\n", re.S)
    if not m:
        return None
    pairs = re.findall(r'<<"(t\d+)", "((?:[^"\\]|\\.)*)">>', m.group(1))
    return [[t, l.replace('\\"', '"')] for t, l in pairs]


def run_sched(beh, timeout=60):
    try:
        p = subprocess.run([RCSCHED, json.dumps(beh)], capture_output=True, text=True, timeout=timeout)
    except subprocess.TimeoutExpired:
        return {"id": beh["id"], "error": "scheduler timeout (harness deadlock?)"}
    if p.returncode != 0 or not p.stdout.strip():
        return {"id": beh["id"], "error": f"rcsched rc={p.returncode}: {p.stderr[-300:]}"}
    return json.loads(p.stdout.strip().splitlines()[-1])


def observed_breach(o):
    """property-level findings observed on the real crate"""
    return [f for f in o.get("findings", [])]


def classify_predicted(b):
    """which named defect of the as-is model explains the predicted breach (None = no breach)"""
    if b.get("uaf"):
        return "late_settid" if b["uaf"] in SETTID else "dangling_queue"
    if b.get("freed", 0) > 1:
        return "dangling_queue"
    if b.get("excl"):
        return "UNEXPECTED-excl"
    return None


KF = {
    "late_settid": "C05-late-settid",
    "dangling_queue": "C05-dangling-queue-entry",
    "unreg_leak": "C05-unregistered-queue-leak",
}


def run(tier, seed):
    work = os.path.join(vlib.WORK, PROP)
    os.makedirs(work, exist_ok=True)
    r = vlib.Result(PROP, tier, seed)
    known = {f["key"]: f for f in r.findings if f.get("status") == "known" and PROP in f.get("properties", [])}
    r.assumptions.append("sequentially consistent interleavings of the hooked accesses (weak-memory effects of Relaxed orderings and of the non-atomic Cell fields are out of reach)")

    def kf(defect, what_extra=""):
        key = KF.get(defect)
        if key in known:
            r.known.setdefault(key, known[key]["what"])
            return True
        return False

    # 1. design level: the repaired protocol satisfies every invariant (exhaustive)
    cfg = "MC_BiasedRc_fixed.cfg" if tier == "quick" else "MC_BiasedRc_deep.cfg"
    res = vlib.run_tlc("BiasedRc", cfg, work, workers=8, timeout=1500, allow_violation=True)
    r.add_tlc(res)
    if res["violation"]:
        r.violation(f"model of the repaired protocol violates {res.get('violated')}", {"id": "model-fixed", "tlc": res["violation"][:4000]})

    # 2. the as-is model (named defect steps enabled) must exhibit each listed counterexample,
    #    and the counterexample must reproduce on the real crate
    for cfg, defect in (("MC_BiasedRc_asis_settid.cfg", "late_settid"),
                        ("MC_BiasedRc_asis_queue.cfg", "dangling_queue"),
                        ("MC_BiasedRc_asis_leak.cfg", "unreg_leak"),
                        ("MC_BiasedRc_asis_uniq.cfg", "uniq_writes")):
        res = vlib.run_tlc("BiasedRc", cfg, work, workers=8, timeout=600, allow_violation=True)
        r.add_tlc(res)
        if not res["violation"]:
            r.notes.append(f"{cfg}: model finds no counterexample")
            continue
        hist = parse_hist(res["last_state"])
        if hist is None:
            raise vlib.ToolError(f"cannot parse counterexample of {cfg}")
        beh = {"id": f"cex-{defect}", "hist": hist}
        o = run_sched(beh)
        if "error" in o:
            raise vlib.ToolError(o["error"])
        r.cov["evaluations"] += 1
        breach = observed_breach(o)
        leak = (o["live"] == 0 and o["payload_drops"] == 0 and defect == "unreg_leak")
        reproduced = bool(breach) or leak
        sample = {"counterexample_of": cfg, "violated": res.get("violated"), "schedule": hist, "observed_on_real_crate": o}
        if len(r.cov["samples"]) < 6:
            r.cov["samples"].append(sample)
        if defect == "uniq_writes":
            # repaired by a fix: commit -- the original counterexample is a regression case
            if reproduced:
                r.violation("get_mut on a merged object consumes the count (uniq_writes counterexample reproduces)",
                            {"id": "cex-uniq_writes", **sample})
            else:
                r.cov["traces_validated_against_impl"] += 1
            continue
        if reproduced:
            if not kf(defect):
                r.violation(f"as-is counterexample for {defect} reproduces on the real crate: {breach or 'leak'}",
                            {"id": f"cex-{defect}", **sample})
        else:
            r.notes.append(f"{defect}: model counterexample no longer reproduces on the real crate (stale finding?)")
            r.cov["traces_validated_against_impl"] += 1

    # 3. conformance: random behaviours of the as-is model, replayed step for step; the model
    #    predicts the outcome of each schedule exactly
    n = 400 if tier == "quick" else 6000
    res = vlib.run_tlc("BiasedRc", "MC_BiasedRc_sim.cfg", work, workers=4, timeout=900,
                       simulate=f"num={n}", seed=seed, extra_java=None, allow_violation=False)
    # coverage-directed: one witness schedule for EVERY distinct terminal state of the small as-is model
    # (schedule hidden by VIEW, so BFS keeps one path per state; the ghost `retries` is part of the state, so
    # terminal states reached through a failed compare-and-swap are separate states - random walks almost
    # never produce a retry)
    res2 = vlib.run_tlc("BiasedRc", "MC_BiasedRc_cover.cfg", work, workers=8, timeout=900)
    r.add_tlc(res2)
    behs = {}
    for c in res["cases"] + res2["cases"]:
        h = hashlib.sha1(json.dumps(c["hist"]).encode()).hexdigest()[:12]
        c["id"] = "b-" + h
        behs[c["id"]] = c
    # keep only maximal behaviours (a Done prefix of a longer behaviour adds nothing)
    allb = sorted(behs.values(), key=lambda c: -len(c["hist"]))
    kept, seen_prefix = [], set()
    for c in allb:
        key = json.dumps(c["hist"])
        if key in seen_prefix:
            continue
        kept.append(c)
        for i in range(1, len(c["hist"])):
            seen_prefix.add(json.dumps(c["hist"][:i]))
    with ThreadPoolExecutor(max_workers=12) as ex:
        outs = list(ex.map(run_sched, kept))
    nontrivial = 0
    for b, o in zip(kept, outs):
        r.cov["evaluations"] += 1
        if "error" in o:
            raise vlib.ToolError(o["error"])
        threads = {t for t, _ in b["hist"]}
        if len(threads) > 1:
            nontrivial += 1
        pred = classify_predicted(b)
        breach = observed_breach(o)
        first_uaf = next((f["point"] for f in breach if f["kind"] == "use-after-free"), "")
        agree = (o["diverged"] is None and o["destroys"] == b["freed"] and first_uaf == b["uaf"]
                 and o["excl"] == b["excl"] and o["live"] == b["total"]
                 and (b["freed"] > 0 or all(o["proj"][k] == b["proj"][k] for k in b["proj"])))
        if agree:
            r.cov["traces_validated_against_impl"] += 1
            if pred:
                if not kf(pred):
                    r.violation(f"predicted breach ({pred}) observed on the real crate", {"id": b["id"], "behaviour": b, "observed": o})
            if len(r.cov["samples"]) < 8 and len(threads) > 1 and len(b["hist"]) > 25:
                r.cov["samples"].append({"schedule": b["hist"], "predicted": {k: b[k] for k in ("freed", "uaf", "excl", "total", "proj")}, "observed": o})
        else:
            # the real crate left the as-is model: a property-level breach is a violation; a pure
            # step-structure difference without breach is reported as spec drift, not as an alarm
            unexplained = [f for f in breach
                           if not (f["kind"] == "use-after-free" and f["point"] in SETTID and "C05-late-settid" in known)]
            # (a value the as-is protocol destroys in this schedule but the crate keeps for ever, or destroys twice,
            # is a breach of "exactly once" just as well)
            # leak: no handle is left, the value was not destroyed during the schedule and not even after every
            # registered live thread went through two more collection points (rcsched's settle phase) - while the
            # as-is model (which predicts the known unregistered-queue leak by itself) destroys it
            leaked = (o["live"] == 0 and o["destroys"] == 0 and o.get("drops_settled", 0) == 0
                      and not (b["freed"] == 0 and b["total"] == 0))
            if leaked or o["destroys"] > 1:
                r.violation(f"real crate deviates from the as-is model: value destroyed {o['destroys']} times (and not by two further "
                            f"merges of every live thread), the protocol destroys it {b['freed']} time(s) in this schedule; "
                            f"first divergence {o['diverged']}",
                            {"id": b["id"], "behaviour": b, "observed": o})
            elif unexplained or o["excl"] or (o["destroys"] > 0 and o["live"] > 0):
                r.violation(f"real crate deviates from the as-is model with a breach: {unexplained or breach} "
                            f"(predicted freed={b['freed']} uaf={b['uaf']!r} total={b['total']}; observed destroys={o['destroys']} live={o['live']})",
                            {"id": b["id"], "behaviour": b, "observed": o})
            else:
                r.notes.append(f"spec-drift on {b['id']}: diverged={o['diverged']} predicted={b['proj']} observed={o['proj']}")
    r.cov["distinct_nontrivial"] = nontrivial
    r.cov["rule"] = ("exhaustive TLC run of the repaired protocol (3 threads); as-is counterexamples, seeded random "
                     "behaviours and one witness schedule per terminal state reached through a failed CAS, replayed step for step on the real crate; distinct = distinct schedules, "
                     "non-trivial = at least two threads take steps")
    drift = sum(1 for x in r.notes if x.startswith("spec-drift"))
    if drift:
        r.notes = [x for x in r.notes if not x.startswith("spec-drift")][:20] + [f"{drift} behaviours with spec drift (no breach)"] + [x for x in r.notes if x.startswith("spec-drift")][:3]
    return r.finish()


def replay_file(path):
    obj = json.load(open(path))
    c = obj["case"]
    beh = c.get("behaviour") or {"id": c.get("id", "x"), "hist": c.get("schedule")}
    o = run_sched(beh)
    print(json.dumps(o, indent=1))
    if o.get("findings") or "error" in o:
        print(f"VIOLATION property={PROP} replay={path}")
        return 1
    return 0
