"""C13 - syntax-rules macros are hygienic and referentially transparent (Hygiene.tla).

TLC enumerates (macro library x use-site contexts x placements) and (pattern grammar x input
grammar); Hygiene.tla expands every program with ideal hygiene, Lang.tla's machine evaluates the
expansion, and the terminal state prints the rendered source of every unit with the expected
class and `emit`s.  Every case is replayed on the real engine.
"""
import hashlib
import json
import os
import random
import re
import vlib

PROP = "C13"
OPAQUE = re.compile(r"#<(box|mvec|err|proc)>")

CFGS = {
    "quick": ["MC_Hygiene_quick.cfg", "MC_Hygiene_match_quick.cfg", "MC_Hygiene_intf_quick.cfg"],
    "thorough": ["MC_Hygiene.cfg", "MC_Hygiene_nest.cfg", "MC_Hygiene_match.cfg", "MC_Hygiene_match3.cfg",
                 "MC_Hygiene_pairs.cfg", "MC_Hygiene_intf.cfg"],
}
# contexts / placements the fixed quick configuration leaves out; the seed picks one combination
QUICK_EXTRA_CTX = ["lambda", "letrec", "nlet", "ifn"]
QUICK_EXTRA_PLACE = ["later", "same", "fnbody"]

CFG_TEMPLATE = """SPECIFICATION HSpec
CONSTANTS
  RICH = FALSE
  MINNODES = 0
  MAXSTACK = 99
  BUDGET = 0
  FUEL = 3000
  MAXINT = 100000
  CTXS = {{"{ctx}"}}
  PLACES = {{"{place}"}}
  VALS = {{"num", "fn"}}
  NEST = FALSE
  PAIRS = FALSE
  INTF = {{}}
  PATLEN = 0
  INLEN = 0
  ELEMKINDS = {{}}
  INKINDS = {{}}
INVARIANTS InDomain SynErrSilent GlobalsSuffixed IntfConsistent HEmit
CHECK_DEADLOCK FALSE
"""


def seeded_cfg(seed, work):
    """quick tier: one more (context, placement) slice of the thorough product, chosen by the seed."""
    rnd = random.Random(seed)
    ctx = rnd.choice(QUICK_EXTRA_CTX)
    place = rnd.choice(QUICK_EXTRA_PLACE)
    os.makedirs(work, exist_ok=True)
    path = os.path.join(work, f"MC_Hygiene_seed.cfg")
    with open(path, "w") as f:
        f.write(CFG_TEMPLATE.format(ctx=ctx, place=place))
    return path, f"ctx={ctx} place={place}"


def norm(s):
    return OPAQUE.sub("#<proc>", s)


def to_case(c):
    steps = [{"src": u["src"], "class": u["class"], "emit": [norm(x) for x in u["emit"]]}
             for u in c["units"]]
    h = hashlib.sha1(json.dumps([s["src"] for s in steps]).encode()).hexdigest()[:14]
    return {"id": f"H-{h}", "fresh": False, "tag": c["tag"], "steps": steps}


def dedup(cases):
    """Different parameters can render the same program (N is irrelevant without a binder);
    keep the first (TLC's order is deterministic after sorting by id)."""
    seen, out = set(), []
    for c in sorted(cases, key=lambda c: (c["id"], c["tag"])):
        if c["id"] not in seen:
            seen.add(c["id"])
            out.append(c)
    return out


def nontrivial(case):
    """Non-trivial = the use site yields an observation: an emit or a (syntax/runtime) error."""
    return any(st["emit"] or st["class"] != "ok" for st in case["steps"])


def self_test(work):
    """Mutant oracle: a correct case with one expected emit corrupted, and one with the class
    flipped, must both be reported by the replayer."""
    good = {"id": "H-selftest-good", "fresh": False, "tag": "selftest", "steps": [
        {"src": "(define-syntax st-or@@ (syntax-rules () ((_) #f) ((_ e) e) "
                "((_ e r ...) (let ((t e)) (if t t (st-or@@ r ...))))))", "class": "ok", "emit": []},
        {"src": "(emit (let ((t 5)) (st-or@@ #f t)))", "class": "ok", "emit": ["5"]}]}
    bad_emit = json.loads(json.dumps(good))
    bad_emit["id"] = "H-selftest-mutant-emit"
    bad_emit["steps"][1]["emit"] = ["#false"]          # what a capturing expander would give
    bad_class = json.loads(json.dumps(good))
    bad_class["id"] = "H-selftest-mutant-class"
    bad_class["steps"][1] = {"src": "(emit (st-or@@ 1 . 2))", "class": "ok", "emit": ["1"]}
    vs = vlib.replay([good, bad_emit, bad_class], work, jobs=1, name="c13self")
    if not vs[0]["pass"]:
        raise vlib.ToolError(f"C13 self-test: the reference case fails: {vs[0]['why']}")
    if vs[1]["pass"] or vs[2]["pass"]:
        raise vlib.ToolError("C13 self-test: a mutant oracle was not reported by the replayer")


def mutant_check(cases, seed, work):
    """Non-vacuity on generated cases: take a few TLC-generated cases (seeded choice) that the
    engine passes, corrupt the oracle's expectation - a wrong emitted value, or `ok` where a
    syntax error is expected - and require that the replayer reports every mutant."""
    rnd = random.Random(seed)
    with_emit = [c for c in cases if c["steps"][-1]["class"] == "ok" and c["steps"][-1]["emit"]]
    with_err = [c for c in cases if c["tag"].startswith(("match", "pair")) and c["steps"][-1]["class"] == "err"]
    intf = [c for c in with_emit if c["tag"].startswith("intf/")]     # last emit = one position of a history
    cand = (rnd.sample(with_emit, min(8, len(with_emit))) + rnd.sample(with_err, min(4, len(with_err)))
            + rnd.sample(intf, min(3, len(intf))))
    cand = list({c["id"]: c for c in cand}.values())
    if not cand:
        raise vlib.ToolError("C13 self-test: no case to mutate")
    cand = [dict(json.loads(json.dumps(c)), id=c["id"] + "-orig") for c in cand]
    vs = vlib.replay(cand, work, jobs=1, name="c13orig")
    muts = []
    for c, v in zip(cand, vs):
        if not v["pass"]:
            continue
        m = json.loads(json.dumps(c))
        m["id"] = c["id"][:-5] + "-mut"
        m["tag"] = "selftest-mutant"
        last = m["steps"][-1]
        if last["class"] == "ok":
            last["emit"] = [last["emit"][0] + "!"] + last["emit"][1:]
        else:
            last["class"], last["emit"] = "ok", ["(r1)"]
        muts.append(m)
    if len(muts) < 2:
        raise vlib.ToolError("C13 self-test: fewer than 2 passing cases to mutate")
    vs = vlib.replay(muts, work, jobs=1, name="c13mut")
    missed = [m["id"] for m, v in zip(muts, vs) if v["pass"]]
    if missed:
        raise vlib.ToolError(f"C13 self-test: mutant oracles not reported: {missed}")
    return len(muts)


def attribute_interference(cases, verdicts, work):
    """All steps of a case run in order on one engine and one thread (replay.rs), and the cases of
    a chunk share that engine, so an interference history is also preceded by other histories.
    A failing interference case is re-run alone on a fresh engine and its `why` says whether the
    history fails by itself or only after the batch prefix; it stays failing either way."""
    idx = [i for i, (c, v) in enumerate(zip(cases, verdicts)) if not v["pass"] and c["tag"].startswith("intf/")]
    if not idx:
        return verdicts
    alone = [dict(json.loads(json.dumps(cases[i])), id=cases[i]["id"] + "-alone", fresh=True) for i in idx[:200]]
    vs = vlib.replay(alone, work, jobs=8, timeout_ms=4000, name="c13alone")
    out = list(verdicts)
    for i, v in zip(idx, vs):
        o = dict(out[i])
        o["why"] += " [alone on a fresh engine: " + ("passes" if v["pass"] else "fails too: " + v["why"]) + "]"
        out[i] = o
    return out


def run(tier, seed):
    work = os.path.join(vlib.WORK, PROP)
    r = vlib.Result(PROP, tier, seed)
    self_test(work)
    cases = []
    cfgs = list(CFGS[tier])
    if tier == "quick":
        path, what = seeded_cfg(seed, work)
        cfgs.append(path)
        r.notes.append(f"seeded slice: {what}")
    for cfg in cfgs:
        res = vlib.run_tlc("Hygiene", cfg, work, workers=8, timeout=1300)
        r.add_tlc(res)
        if not res["cases"]:
            raise vlib.ToolError(f"{cfg}: TLC generated no case")
        cases += [to_case(c) for c in res["cases"]]
    cases = dedup(cases)
    r.notes.append(f"mutant oracles reported: {mutant_check(cases, seed, work)}")
    verdicts = vlib.replay(cases, work, jobs=12, timeout_ms=4000, name="c13")
    verdicts = attribute_interference(cases, verdicts, work)
    r.add_cases(cases, verdicts, nontrivial=nontrivial)
    r.cov["rule"] = ("distinct rendered programs (define-syntax + use + emit probes) generated by Hygiene.tla: "
                     "library x spelling bound at the use site x binder value x context x argument x placement, "
                     "pattern grammar x input grammar, and interference histories (define A, define B, use B, use A, use B on "
                     "one engine, shapes sharing pattern-variable spellings); non-trivial = the use emits a value or is an error")
    r.cov["exhaustive"] = True
    r.assumptions += [
        "H1: programs that bind if/let/lambda/define/quote/begin/set! are outside the domain (reserved words)",
        "H2: macros are defined at top level only; modules/require are not exercised (see C14)",
        "H3: greedy ellipsis; H6: no top-level definition of a template-introduced identifier",
        "evaluation of the expanded program follows Lang.tla (D1-D8)"]
    return r.finish()


def replay_file(path):
    return vlib.replay_file(PROP, path)
