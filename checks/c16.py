"""C16 - threads always make progress through collections and global updates."""
import json
import os
import spcommon as sp
import vlib

PROP = "C16"

DELIVERY = [
    ("join-once", "(define t (spawn-native-thread (lambda () (+ 40 2)))) (emit (thread-join! t))", ["42"], "ok"),
    ("join-twice", "(define t (spawn-native-thread (lambda () 1))) (thread-join! t) (thread-join! t)", None, "err"),
    ("fifo-1", "(define ch (channels/new)) (define t (spawn-native-thread (lambda () (map (lambda (i) (channel/recv (channels-receiver ch))) (range 0 6))))) (for-each (lambda (i) (channel/send (channels-sender ch) i)) (range 0 6)) (emit (thread-join! t))", ["(0 1 2 3 4 5)"], "ok"),
    ("fifo-2-senders", "(define ch (channels/new)) (define (snd tag) (spawn-native-thread (lambda () (for-each (lambda (i) (channel/send (channels-sender ch) (cons tag i))) (range 0 5))))) (define a (snd 'a)) (define b (snd 'b)) (define got (map (lambda (i) (channel/recv (channels-receiver ch))) (range 0 10))) (thread-join! a) (thread-join! b) (define (only tag) (map cdr (filter (lambda (p) (eq? (car p) tag)) got))) (emit (only 'a)) (emit (only 'b)) (emit (length got))", ["(0 1 2 3 4)", "(0 1 2 3 4)", "10"], "ok"),
    ("gc-while-blocked", "(define ch (channels/new)) (define t (spawn-native-thread (lambda () (channel/recv (channels-receiver ch))))) (#%gc-collect) (#%gc-collect) (channel/send (channels-sender ch) 'v) (emit (thread-join! t))", ["v"], "ok"),
    ("gc-while-blocked-nontail", "(define ch (channels/new)) (define t (spawn-native-thread (lambda () (let ([v (channel/recv (channels-receiver ch))]) (list v))))) (#%gc-collect) (#%gc-collect) (channel/send (channels-sender ch) 'v) (emit (thread-join! t))", ["(v)"], "ok"),
    ("define-while-blocked-nontail", "(define ch (channels/new)) (define t (spawn-native-thread (lambda () (let ([v (channel/recv (channels-receiver ch))]) (list v))))) (define z@@ 1) (set! z@@ 2) (channel/send (channels-sender ch) 'v) (emit (thread-join! t))", ["(v)"], "ok"),
    ("set-while-blocked", "(define g@@ 0) (define ch (channels/new)) (define t (spawn-native-thread (lambda () (channel/recv (channels-receiver ch)) g@@))) (set! g@@ 5) (define h@@ 6) (channel/send (channels-sender ch) 'v) (emit (thread-join! t))", ["5"], "ok"),
    ("finished-thread", "(define t (spawn-native-thread (lambda () 1))) (thread-join! t) (#%gc-collect) (define z@@ 1) (set! z@@ 2) (emit z@@)", ["2"], "ok"),
]


def run(tier, seed):
    work = os.path.join(vlib.WORK, PROP)
    r = vlib.Result(PROP, tier, seed)
    r.assumptions.append("sequentially consistent interleavings of the hooked accesses")
    known = {f["key"]: f for f in r.findings if f.get("status") == "known"}
    found = sp.model_check(r, work, tier, ["guard_dropped", "idle_engine", "poll_loop_ignores_irq"])

    def kf(key):
        if key in known:
            r.known[key] = known[key]["what"]
            return True
        return False

    # directed: (a) two concurrent set! (repaired by a fix: commit -> regression), (b) engine idle in the host
    d = sp.run_directed(["guard_dropped", "idle_engine", "exit_during_wait"], work)
    end, val, path = d["exit_during_wait"]
    r.cov["evaluations"] += 1
    waited = any('"ENUM_WAIT"' in l for l in open(path, errors="replace"))
    r.cov["samples"].append({"scenario": "directed-exit_during_wait (a thread exits while a collector waits for it)", "end": end, "collector_waited": waited})
    if not str(end.get("end", "")).startswith("ok"):
        r.violation(f"a collection that waits for a thread which then exits does not finish: {end.get('end')} (last events {end.get('last')})",
                    {"id": "directed-exit_during_wait", "trace": path, "end": end})
    else:
        r.cov["traces_validated_against_impl"] += 1
        if not waited:
            r.notes.append("directed exit_during_wait: the collector never had to wait this time (scenario did not hit its window)")
    end, val, path = d["guard_dropped"]
    r.cov["evaluations"] += 2
    r.cov["samples"].append({"scenario": "directed-guard_dropped (two threads set! a global)", "end": end})
    if str(end.get("end", "")).startswith("stall") or not str(end.get("end", "")).startswith("ok"):
        r.violation(f"two threads assigning a global do not finish: {end.get('end')} (last events {end.get('last')})",
                    {"id": "directed-guard_dropped", "trace": path, "end": end})
    else:
        r.cov["traces_validated_against_impl"] += 1
    end, val, path = d["idle_engine"]
    r.cov["samples"].append({"scenario": "directed-idle_engine (engine returns while a thread keeps collecting)", "end": end})
    if str(end.get("end", "")).startswith("stall"):
        if not kf("C16-idle-engine-blocks-collections"):
            r.violation(f"a thread left behind by a returned evaluation stops making progress: {end.get('last')}",
                        {"id": "directed-idle_engine", "trace": path, "end": end})
    else:
        r.cov["traces_validated_against_impl"] += 1

    # free-running stress: every evaluation must finish (watchdog = no protocol event for 4 s)
    rounds = 1 if tier == "quick" else 6
    nontriv = 0
    for sc, end, val, path in sp.run_stress(work, seed + 100, rounds, jit_too=(tier == "thorough")):
        r.cov["evaluations"] += 1
        nontriv += 1
        if val:
            r.cov["states"] += val["states"]
        e = str(end.get("end", ""))
        if e.startswith("ok"):
            r.cov["traces_validated_against_impl"] += 1
        elif sc["id"].endswith("-jit") and kf("C16-jit-native-paths-block-or-lock-without-publishing"):
            # native code does not publish at its blocking / locking paths (known finding): a stall or abort of a
            # JIT scenario is attributed to it; the same scenario without the JIT must still finish
            r.notes.append(f"{sc['id']}: {e} (JIT, known finding)")
        else:
            r.violation(f"{sc['id']}: evaluation did not finish normally: {e} (last events {end.get('last')})",
                        {"id": sc["id"], "trace": path, "end": end})
    r.cov["distinct_nontrivial"] = nontriv + 2

    cases = [{"id": f"dlv-{n}", "fresh": True, "tag": "delivery", "steps": [{"src": src, "class": cls, **({"emit": exp} if exp is not None else {})}]}
             for n, src, exp, cls in DELIVERY]
    for ename, env in (("jit", {}), ("nojit", {"STEEL_JIT": "false"})):
        ecases = [dict(c, id=f"{c['id']}@{ename}", tag=f"delivery|{ename}", env=env) for c in cases]
        verdicts = vlib.replay(ecases, work, env_extra=env, jobs=4, timeout_ms=30000, name="c16-dlv-" + ename)
        r.add_cases(ecases, verdicts)
    r.cov["rule"] = ("TLC deadlock check of Safepoint.tla (blocking operations are only enabled when the real operation returns); "
                     "directed and seeded free-running multi-threaded evaluations on the real VM under a progress watchdog; "
                     "join / channel delivery cases")
    return r.finish()


def replay_file(path):
    obj = json.load(open(path))
    if "steps" in obj["case"]:
        return vlib.replay_file(PROP, path)
    print(json.dumps(obj["case"], indent=1)[:2000])
    return 1
