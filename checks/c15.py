"""C15 - world-stopping operations see other threads only while they are stopped."""
import json
import os
import spcommon as sp
import vlib

PROP = "C15"
KF = {"exit_race": "C15-safepoint-exit-race", "late_register": "C15-spawned-thread-runs-unregistered"}

VISIBILITY = [
    # a global defined / assigned by one thread is seen by every thread afterwards
    ("set-by-child", "(define g@@ 0) (define t (spawn-native-thread (lambda () (set! g@@ 42)))) (thread-join! t) (emit g@@)", ["42"]),
    ("set-by-main", "(define g@@ 0) (define go (channels/new)) (define t (spawn-native-thread (lambda () (channel/recv (channels-receiver go)) g@@))) (set! g@@ 7) (channel/send (channels-sender go) 1) (emit (thread-join! t))", ["7"]),
    ("define-by-child-eval", "(define t (spawn-native-thread (lambda () (eval '(define fresh@@ 3000))))) (thread-join! t) (emit (eval 'fresh@@))", ["3000"]),
    ("two-children", "(define g@@ 0) (define a (spawn-native-thread (lambda () (set! g@@ 1) 'a))) (thread-join! a) (define b (spawn-native-thread (lambda () g@@))) (emit (thread-join! b))", ["1"]),
]


def run(tier, seed):
    work = os.path.join(vlib.WORK, PROP)
    r = vlib.Result(PROP, tier, seed)
    r.assumptions.append("sequentially consistent interleavings of the hooked accesses")
    known = {f["key"] for f in r.findings if f.get("status") == "known"}
    found = sp.model_check(r, work, tier, ["exit_race", "late_register", "stop_skips_main"])
    if not found.get("stop_skips_main"):
        raise vlib.ToolError("Safepoint.tla: the mutant stop_skips_main (a stopper that does not ask the engine thread to stop) "
                             "no longer violates C15 - the invariant has become insensitive")
    vlib.build_harness  # (built by ./check)

    # directed reproduction of each deviation on the real VM, validated by TLC
    d = sp.run_directed(["exit_race", "late_register", "slow_during_set"], work)
    for name in ("exit_race", "late_register", "slow_during_set"):
        end, val, path = d[name]
        r.cov["evaluations"] += 1
        sample = {"scenario": "directed-" + name, "end": end, "validation": val}
        r.cov["samples"].append(sample)
        tags = {t for t, _ in val["flags"]}
        if tags and all(sp.SIGNATURES.get(t) == name for t in tags):
            if name in KF and KF[name] in known:
                r.known[KF[name]] = next(f["what"] for f in r.findings if f["key"] == KF[name])
            else:
                r.violation(f"{name} reproduced on the real VM: {sorted(tags)}", {"id": "directed-" + name, "trace": path, **sample})
        elif not val["accepted"] or tags:
            r.violation(f"directed trace {name}: {val}", {"id": "directed-" + name, "trace": path, **sample})
        else:
            r.cov["traces_validated_against_impl"] += 1
            r.notes.append(f"directed {name} scenario did not reproduce this time")

    # free-running stress, seeded perturbation, every trace validated
    rounds = 1 if tier == "quick" else 6
    nontriv = 0
    for sc, end, val, path in sp.run_stress(work, seed, rounds, jit_too=(tier == "thorough")):
        r.cov["evaluations"] += 1
        if val is None:
            r.notes.append(f"{sc['id']}: no events ({end.get('end')})")
            continue
        r.cov["states"] += val["states"]
        nontriv += 1
        tags = {t for t, _ in val["flags"]}
        c15tags = {t for t in tags if t.startswith("C15")}
        if val["rejected"]:
            r.violation(f"{sc['id']}: trace rejected by Trace_Safepoint (spec drift or unknown event)", {"id": sc["id"], "trace": path, "end": end})
        elif c15tags:
            causes = {sp.SIGNATURES.get(t) for t in c15tags}
            if causes <= set(KF) and all(KF[c] in known for c in causes):
                for c in causes:
                    r.known[KF[c]] = next(f["what"] for f in r.findings if f["key"] == KF[c])
            else:
                r.violation(f"{sc['id']}: {sorted(c15tags)}", {"id": sc["id"], "trace": path, "end": end, "validation": val})
        else:
            r.cov["traces_validated_against_impl"] += 1
    r.cov["distinct_nontrivial"] = nontriv + 1

    # value level: completed global updates are visible to every thread
    cases = [{"id": f"vis-{n}", "fresh": True, "tag": "visibility", "steps": [{"src": src, "class": "ok", "emit": exp}]}
             for n, src, exp in VISIBILITY]
    for env in ({}, {"STEEL_JIT": "false"}):
        verdicts = vlib.replay(cases, work, env_extra=env, jobs=4, timeout_ms=30000, name="c15-vis")
        r.add_cases(cases, verdicts)
    r.cov["rule"] = ("Safepoint.tla exhaustively (repaired protocol) + counterexample per named deviation; directed and seeded "
                     "free-running multi-threaded scenarios recorded from the real VM and validated event by event against "
                     "Trace_Safepoint.tla; non-trivial = traces with at least two threads")
    if not found.get("exit_race"):
        r.notes.append("model no longer exhibits the exit race")
    return r.finish()


def replay_file(path):
    obj = json.load(open(path))
    c = obj["case"]
    if "steps" in c:
        return vlib.replay_file(PROP, path)
    val = sp.validate(c["trace"], os.path.join(vlib.WORK, PROP), "replay")
    print(json.dumps(val, indent=1))
    return 0 if val["accepted"] else 1
