"""C02 - observable behaviour is independent of JIT and optimisation configuration."""
import itertools
import os
import random

import vlib
import langcases as lc
import c06

PROP = "C02"
SWITCHES = [("STEEL_JIT", "false"), ("STEEL_INLINE", "1"), ("STEEL_INLINE_RECURSIVE", "1"),
            ("STEEL_CLOSURE_LIFTING", "false"), ("STEEL_MODULE_INLINE", "1")]


def configs(tier):
    allc = []
    for bits in itertools.product([0, 1], repeat=len(SWITCHES)):
        allc.append({k: v for (k, v), b in zip(SWITCHES, bits) if b})
    if tier == "thorough":
        return allc
    # quick: default, everything toggled, each single toggle, and JIT-off + inline
    keep = [c for c in allc if len(c) in (0, 1, len(SWITCHES))]
    keep.append({"STEEL_JIT": "false", "STEEL_INLINE": "1"})
    return keep


def name_of(c):
    return "default" if not c else "+".join(sorted(k.replace("STEEL_", "") + "=" + v for k, v in c.items()))


def run(tier, seed):
    work = os.path.join(vlib.WORK, PROP)
    r = vlib.Result(PROP, tier, seed)
    rnd = random.Random(seed)
    # the same cases as C01 (builder + families) ...
    res = vlib.run_tlc("Lang", "MC_Lang_build_quick.cfg", work, workers=8, timeout=900)
    r.add_tlc(res)
    cases = [lc.to_case(c, "L") for c in res["cases"]]
    cases = lc.dedup(cases)
    for fam in ("calls", "control", "tail", "delim", "store", "wide", "applam", "reads", "param", "restloop", "idefs"):
        cases += lc.run_family(vlib, fam, work, r, fresh=(fam not in ("calls", "wide", "applam", "reads", "restloop", "idefs")))
    # ... plus piecewise histories: later units redefine / assign globals that earlier functions use
    res = vlib.run_tlc("Globals", "MC_Globals_asis4.cfg", work, workers=8, timeout=900)
    r.add_tlc(res)
    hist = [c06.render(c, "h4") for c in res["cases"]]
    hist = [h for h in hist if not any(s.get("op") for s in h["steps"])]   # engine-only histories
    cases += hist
    seen, uniq = set(), []
    for c in cases:
        if c["id"] not in seen:
            seen.add(c["id"])
            uniq.append(c)
    cases = uniq
    per_cfg = {}
    for cfg in configs(tier):
        n = name_of(cfg)
        verdicts = vlib.replay(cases, work, env_extra=cfg, jobs=12, timeout_ms=30000, name="c02-" + n.replace("=", "").replace("+", "_")[:40])
        # every configuration must equal the specification's observable ...
        tagged = [dict(c, id=f"{c['id']}@{n}", config=cfg) for c in cases]
        for t, v in zip(tagged, verdicts):
            v["id"] = t["id"]
        r.add_cases(tagged, verdicts, nontrivial=lc.nontrivial)
        per_cfg[n] = verdicts
    # module mode (one module file per program) under the configurations that change module compilation
    for cfg in ({}, {"STEEL_JIT": "false"}, {"STEEL_MODULE_INLINE": "1"}, {"STEEL_JIT": "false", "STEEL_MODULE_INLINE": "1"},
                {"STEEL_INLINE": "1", "STEEL_INLINE_RECURSIVE": "1"}):
        lc.replay_modules(vlib, [c for c in cases if not c["id"].startswith("h4")], work, r,
                          "c02.mod" + str(len(cfg)) + "".join(k[6] for k in sorted(cfg)), env=cfg or None, nontriv=lc.nontrivial_mod)
    # ... and all configurations must agree with each other (also where the specification is silent)
    names = list(per_cfg)
    dis = 0
    for i, c in enumerate(cases):
        obs = {n: [(g["class"], tuple(g["emit"]), g["val"]) for g in per_cfg[n][i]["got"]] for n in names}
        base = obs[names[0]]
        for n in names[1:]:
            if obs[n] != base:
                dis += 1
                if all(per_cfg[m][i]["pass"] for m in (names[0], n)):
                    # both agree with the spec on what it compares but differ elsewhere
                    r.violation(f"configurations {names[0]} and {n} disagree on {c['id']}", {"id": c["id"] + "@agree", "steps": c["steps"], "obs": {names[0]: base, n: obs[n]}})
                break
    r.cov["disagreements_checked"] = len(cases) * (len(names) - 1)
    r.cov["configs"] = names
    r.notes.append(f"{dis} cases with a cross-configuration difference")
    r.cov["rule"] = ("Lang.tla builder programs, the calls/control/tail families and Globals.tla piecewise histories, replayed under "
                     f"{len(names)} configurations of the JIT and optimisation switches; each must equal the reference observable and all must agree")
    return r.finish()


def replay_file(path):
    import json
    obj = json.load(open(path))
    return vlib.replay_file(PROP, path, env_extra=obj["case"].get("config"))
